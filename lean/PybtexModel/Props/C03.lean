/-
C03 — BST style programs execute with BibTeX stack-language semantics.

Property theorems only; helper lemmas are in `Lemmas/Interp.lean`, the model of the code in
`Model/Interp.lean`, the vocabulary of the documented semantics (what the reader has to agree
with) in `Spec/BstSem.lean`.

Reading the statements: the documentation writes the stack top-last (`a b +`), the model keeps
the top at the head of `St.stack`, so the documented operands `a b` are the stack
`b :: a :: rest`.  `runBuiltin (f+1) b s` is one call of the built-in `b` with fuel `f` left for
what it calls.  `{ s with stack := … }` on both sides of an equation is the frame condition:
nothing but the named components changes.
-/
import PybtexModel.Lemmas.Interp
import PybtexModel.Props.C12
import PybtexModel.Props.C11
import PybtexModel.Props.C19
import PybtexModel.Props.C05
import PybtexModel.Props.C14
import PybtexModel.Lemmas.BibNorm

namespace Pybtex.Props
open Pybtex Pybtex.Interp Pybtex.BstSem
open Pybtex.Bst (Command Program)

/-- an ill-typed operand `v` (hypothesis `hv : isX v = …`): the call is a Python `TypeError` -/
local macro "ill1" : tactic => `(tactic| (intro v hv; cases v <;> first | exact ⟨_, rfl⟩ | cases hv))
local macro "ill2" : tactic =>
  `(tactic| (intro v w hv; cases v <;> first | (cases w <;> exact ⟨_, rfl⟩) | cases hv))

/-- "pop from empty stack" -/
private abbrev emptyStack : Except IErr St := .error (.bibtex "pop from empty stack")

/-! ## 1. The built-in functions -/

/-- **Short stacks.**  Every built-in pops its operands first (`arity b` raw values, in Python's
order) and only then looks at them: on a stack with fewer values it raises
`BibTeXError('pop from empty stack')` — whatever the types of the values that are there. -/
theorem C03_builtin_short_stack (f : Nat) (s : St) (b : Builtin) (vs : List Val) (h : vs.length < arity b) :
    runBuiltin (f+1) b { s with stack := vs } = emptyStack := by
  cases b <;> rcases vs with _ | ⟨v, _ | ⟨w, _ | ⟨u, r⟩⟩⟩ <;>
    first | rfl | (exfalso; simp [arity] at h; done) | (exfalso; simp [arity] at h; omega)

theorem C03_builtin_short_stack_nonvacuous :
    [Val.str [], Val.fn []].length < arity .substring ∧ [Val.ref []].length < arity .minus := by decide

/-! ### arithmetic and comparison -/

/-- `a b +` ↦ `a + b`; fewer than two operands: `BibTeXError`; a non-integer operand is a Python
`TypeError` or (two strings) a concatenation — never an integer default. -/
theorem C03_builtin_plus (f : Nat) (s : St) (a b : Int) (r : List Val) :
    runBuiltin (f+1) .plus { s with stack := .int b :: .int a :: r } = .ok { s with stack := .int (a + b) :: r } ∧
    (∀ vs : List Val, vs.length < 2 → runBuiltin (f+1) .plus { s with stack := vs } = emptyStack) ∧
    (∀ v, isStr v = true → ∃ w, runBuiltin (f+1) .plus { s with stack := v :: .int a :: r } = .error (.internal w)) ∧
    (∀ v, isStr v = true → ∃ w, runBuiltin (f+1) .plus { s with stack := .int b :: v :: r } = .error (.internal w)) ∧
    (∀ v w, isExec v = true → ∃ e, runBuiltin (f+1) .plus { s with stack := v :: w :: r } = .error (.internal e)) ∧
    (∀ v w, isExec v = true → ∃ e, runBuiltin (f+1) .plus { s with stack := w :: v :: r } = .error (.internal e)) := by
  refine ⟨rfl, fun vs h => C03_builtin_short_stack f s .plus vs h, ?_, ?_, ?_, ?_⟩
  · ill1
  · ill1
  · ill2
  · ill2

/-- `a b -` ↦ `a − b` (in particular negative results are kept); with two operands on the stack of
which one is not an integer: a Python `TypeError` -/
theorem C03_builtin_minus (f : Nat) (s : St) (a b : Int) (r : List Val) :
    runBuiltin (f+1) .minus { s with stack := .int b :: .int a :: r } = .ok { s with stack := .int (a - b) :: r } ∧
    (∀ vs : List Val, vs.length < 2 → runBuiltin (f+1) .minus { s with stack := vs } = emptyStack) ∧
    (∀ v w, isInt v = false → ∃ e, runBuiltin (f+1) .minus { s with stack := v :: w :: r } = .error (.internal e)) ∧
    (∀ v w, isInt v = false → ∃ e, runBuiltin (f+1) .minus { s with stack := w :: v :: r } = .error (.internal e)) := by
  refine ⟨rfl, fun vs h => C03_builtin_short_stack f s .minus vs h, ?_, ?_⟩
  · ill2
  · ill2

/-- `x y *` ↦ the concatenation `x ++ y`; a missing field counts as the empty string -/
theorem C03_builtin_concat (f : Nat) (s : St) (vx vy : Val) (x y : Str) (r : List Val)
    (hx : valToStr vx = some x) (hy : valToStr vy = some y) :
    runBuiltin (f+1) .mul { s with stack := vy :: vx :: r } = .ok { s with stack := .str (x ++ y) :: r } ∧
    (∀ vs : List Val, vs.length < 2 → runBuiltin (f+1) .mul { s with stack := vs } = emptyStack) ∧
    (∀ v, isExec v = true → ∃ e, runBuiltin (f+1) .mul { s with stack := v :: vx :: r } = .error (.internal e)) ∧
    (∀ v, isExec v = true → ∃ e, runBuiltin (f+1) .mul { s with stack := vy :: v :: r } = .error (.internal e)) ∧
    (∀ n, ∃ e, runBuiltin (f+1) .mul { s with stack := .int n :: vx :: r } = .error (.internal e)) ∧
    (∀ n, ∃ e, runBuiltin (f+1) .mul { s with stack := vy :: .int n :: r } = .error (.internal e)) := by
  rcases valToStr_cases hx with rfl | ⟨mx, rfl, rfl⟩ <;> rcases valToStr_cases hy with rfl | ⟨my, rfl, rfl⟩ <;>
    refine ⟨rfl, fun vs h => C03_builtin_short_stack f s .mul vs h, ?_, ?_, fun _ => ⟨_, rfl⟩, fun _ => ⟨_, rfl⟩⟩ <;>
    ill1

/-- the pinned code implements `+` and `*` by the same Python operator -/
theorem C03_builtin_plus_mul_same (f : Nat) (s : St) : runBuiltin (f+1) .plus s = runBuiltin (f+1) .mul s := rfl

/-- `a b >` ↦ 1 if `a > b` else 0, `a b <` ↦ 1 if `a < b` else 0 (integers) -/
theorem C03_builtin_gt_lt (f : Nat) (s : St) (a b : Int) (r : List Val) :
    runBuiltin (f+1) .gt { s with stack := .int b :: .int a :: r } = .ok { s with stack := .int (if a > b then 1 else 0) :: r } ∧
    runBuiltin (f+1) .lt { s with stack := .int b :: .int a :: r } = .ok { s with stack := .int (if a < b then 1 else 0) :: r } ∧
    (∀ o, o = Builtin.gt ∨ o = Builtin.lt →
      (∀ vs : List Val, vs.length < 2 → runBuiltin (f+1) o { s with stack := vs } = emptyStack) ∧
      (∀ v, isStr v = true → ∃ w, runBuiltin (f+1) o { s with stack := v :: .int a :: r } = .error (.internal w)) ∧
      (∀ v, isStr v = true → ∃ w, runBuiltin (f+1) o { s with stack := .int b :: v :: r } = .error (.internal w)) ∧
      (∀ v w, isExec v = true → ∃ e, runBuiltin (f+1) o { s with stack := v :: w :: r } = .error (.internal e)) ∧
      (∀ v w, isExec v = true → ∃ e, runBuiltin (f+1) o { s with stack := w :: v :: r } = .error (.internal e))) := by
  refine ⟨rfl, rfl, ?_⟩
  rintro o (rfl | rfl) <;> refine ⟨fun vs h => C03_builtin_short_stack f s _ vs h, ?_, ?_, ?_, ?_⟩
  all_goals first | ill2 | ill1

/-- on strings `<` and `>` compare by code-point lexicographic order (`C03_strLt_spec`) -/
theorem C03_builtin_gt_lt_str (f : Nat) (s : St) (vx vy : Val) (x y : Str) (r : List Val)
    (hx : valToStr vx = some x) (hy : valToStr vy = some y) :
    runBuiltin (f+1) .gt { s with stack := vy :: vx :: r } = .ok { s with stack := .int (if strLt y x then 1 else 0) :: r } ∧
    runBuiltin (f+1) .lt { s with stack := vy :: vx :: r } = .ok { s with stack := .int (if strLt x y then 1 else 0) :: r } := by
  rcases valToStr_cases hx with rfl | ⟨mx, rfl, rfl⟩ <;> rcases valToStr_cases hy with rfl | ⟨my, rfl, rfl⟩ <;>
    exact ⟨rfl, rfl⟩

/-- `a b =` ↦ 1 if equal else 0: two integers or two strings by value (a missing field equals
the empty string); an integer never equals a string.  Python's `==` accepts any two values, and
so does the model (`valEq`): two function values are equal when their bodies are (structurally)
equal, a function / variable object never equals an integer or a string; comparing two variable
objects follows their `__eq__` (`objEq`; two entry variables of one class: `AttributeError`). -/
theorem C03_builtin_eq (f : Nat) (s : St) (r : List Val) :
    (∀ a b : Int, runBuiltin (f+1) .eq { s with stack := .int b :: .int a :: r } =
        .ok { s with stack := .int (if a = b then 1 else 0) :: r }) ∧
    (∀ vx vy x y, valToStr vx = some x → valToStr vy = some y →
        runBuiltin (f+1) .eq { s with stack := vy :: vx :: r } = .ok { s with stack := .int (if x = y then 1 else 0) :: r }) ∧
    (∀ (a : Int) v, isStr v = true →
        runBuiltin (f+1) .eq { s with stack := v :: .int a :: r } = .ok { s with stack := .int 0 :: r } ∧
        runBuiltin (f+1) .eq { s with stack := .int a :: v :: r } = .ok { s with stack := .int 0 :: r }) ∧
    (∀ vs : List Val, vs.length < 2 → runBuiltin (f+1) .eq { s with stack := vs } = emptyStack) ∧
    (∀ x y : List BTok, runBuiltin (f+1) .eq { s with stack := .fn y :: .fn x :: r } =
        .ok { s with stack := .int (if toksEq x y then 1 else 0) :: r } ∧ (toksEq x y = true ↔ x = y)) ∧
    (∀ v w, isExec v = true → isExec w = false →
        runBuiltin (f+1) .eq { s with stack := v :: w :: r } = .ok { s with stack := .int 0 :: r } ∧
        runBuiltin (f+1) .eq { s with stack := w :: v :: r } = .ok { s with stack := .int 0 :: r }) ∧
    (∀ a1 a2, runBuiltin (f+1) .eq { s with stack := a1 :: a2 :: r } =
        match valEq s.vars a2 a1 with
        | some res => .ok { s with stack := .int (if res then 1 else 0) :: r }
        | none => .error (.internal "AttributeError: _value")) := by
  have gen : ∀ a1 a2, runBuiltin (f+1) .eq { s with stack := a1 :: a2 :: r } =
        match valEq s.vars a2 a1 with
        | some res => .ok { s with stack := .int (if res then 1 else 0) :: r }
        | none => .error (.internal "AttributeError: _value") := by
    intro a1 a2
    show (match valEq s.vars a2 a1 with | some res => _ | none => _) = _
    cases valEq s.vars a2 a1 <;> rfl
  have ofEq : ∀ a1 a2 (p : Prop) [Decidable p] (b : Bool), valEq s.vars a2 a1 = some b → (b = true ↔ p) →
      runBuiltin (f+1) .eq { s with stack := a1 :: a2 :: r } = .ok { s with stack := .int (if p then 1 else 0) :: r } := by
    intro a1 a2 p _ b hv hb
    rw [gen, hv]
    by_cases hp : p
    · rw [if_pos hp, hb.2 hp]; rfl
    · have : b = false := by cases b; rfl; exact absurd (hb.1 rfl) hp
      rw [if_neg hp, this]; rfl
  refine ⟨?_, ?_, ?_, fun vs h => C03_builtin_short_stack f s .eq vs h, ?_, ?_, gen⟩
  · intro a b
    exact ofEq _ _ (a = b) (a == b) rfl (by simp)
  · intro vx vy x y hx hy
    rcases valToStr_cases hx with rfl | ⟨mx, rfl, rfl⟩ <;> rcases valToStr_cases hy with rfl | ⟨my, rfl, rfl⟩
    · exact ofEq _ _ (x = y) (x == y) rfl (by simp)
    · exact ofEq _ _ (x = []) (x == []) rfl (by simp)
    · exact ofEq _ _ ([] = y) (([] : Str) == y) rfl (by simp)
    · exact ofEq _ _ (([] : Str) = []) (([] : Str) == []) rfl (by simp)
  · intro a v hv
    cases v <;> first | exact ⟨rfl, rfl⟩ | cases hv
  · intro x y
    exact ⟨ofEq (.fn y) (.fn x) (toksEq x y = true) (toksEq x y) rfl Iff.rfl, toksEq_iff x y⟩
  · intro v w hv hw
    have h1 : valEq s.vars w v = some false := by
      cases v with
      | fn b => cases w <;> first | rfl | cases hw
      | ref n => cases w <;> first | rfl | cases hw
      | _ => cases hv
    have h2 : valEq s.vars v w = some false := by
      cases v with
      | fn b => cases w <;> first | rfl | cases hw
      | ref n => cases w <;> first | rfl | cases hw
      | _ => cases hv
    constructor
    · rw [gen, h1]; rfl
    · rw [gen, h2]; rfl

/-- `objEq`, Python's `==` on two variable objects: global variables by value, functions by their
bodies, a field / `crossref` / built-in only with itself, two entry variables of one class raise -/
theorem C03_builtin_eq_objects (same : Bool) :
    (∀ a b : Int, objEq same (.gint a) (.gint b) = some (a == b)) ∧
    (∀ a b, objEq same (.gstr a) (.gstr b) = some (valToStr a == valToStr b)) ∧
    (∀ x y, objEq same (.func x) (.func y) = some (toksEq x y)) ∧
    (∀ n m, objEq same (.field n) (.field m) = some same) ∧ objEq same .crossref .crossref = some same ∧
    (∀ b c, objEq same (.builtin b) (.builtin c) = some same) ∧
    (∀ n m, objEq same (.eint n) (.eint m) = none ∧ objEq same (.estr n) (.estr m) = none) ∧
    (∀ n m a, objEq same (.eint n) (.estr m) = some false ∧ objEq same (.eint n) (.gint a) = some false ∧
      objEq same (.field n) .crossref = some false) :=
  ⟨fun _ _ => rfl, fun _ _ => rfl, fun _ _ => rfl, fun _ _ => rfl, rfl, fun _ _ => rfl, fun _ _ => ⟨rfl, rfl⟩,
   fun _ _ _ => ⟨rfl, rfl, rfl⟩⟩

/-! ### assignment -/

/-- `v 'name :=` for a global integer variable: the variable holds `v` afterwards, nothing else
changes; a value of the wrong type is a Python `ValueError`. -/
theorem C03_builtin_assign_global_int (f : Nat) (s : St) (name : Str) (old n : Int) (r : List Val)
    (hv : s.vars.getItem name = some (.gint old)) :
    runBuiltin (f+1) .assign { s with stack := .ref name :: .int n :: r } =
      .ok { s with stack := r, vars := s.vars.setItem name (.gint n) } ∧
    (∀ v, isInt v = false → ∃ e, runBuiltin (f+1) .assign { s with stack := .ref name :: v :: r } = .error (.internal e)) := by
  constructor
  · simp only [runBuiltin, pop, hv]
  · intro v h; cases v <;> first | (simp only [runBuiltin, pop, hv]; exact ⟨_, rfl⟩) | cases h

/-- `v 'name :=` for a global string variable (a missing field is stored as such) -/
theorem C03_builtin_assign_global_str (f : Nat) (s : St) (name : Str) (old v : Val) (r : List Val)
    (hv : s.vars.getItem name = some (.gstr old)) :
    (isStr v = true → runBuiltin (f+1) .assign { s with stack := .ref name :: v :: r } =
      .ok { s with stack := r, vars := s.vars.setItem name (.gstr v) }) ∧
    (isStr v = false → ∃ e, runBuiltin (f+1) .assign { s with stack := .ref name :: v :: r } = .error (.internal e)) := by
  constructor
  · intro h; cases v <;> first | (simp only [runBuiltin, pop, hv]; done) | cases h
  · intro h; cases v <;> first | (simp only [runBuiltin, pop, hv]; exact ⟨_, rfl⟩) | cases h

/-- `v 'name :=` for an entry integer variable: written into the frame of the current entry -/
theorem C03_builtin_assign_entry_int (f : Nat) (s : St) (name en : Str) (n : Int) (r : List Val) (k : Str)
    (hv : s.vars.getItem name = some (.eint en)) (hk : s.cur = some k) :
    runBuiltin (f+1) .assign { s with stack := .ref name :: .int n :: r } =
      .ok (setEntryVar { s with stack := r } k en (.int n)) ∧
    (∀ v, isInt v = false → ∃ e, runBuiltin (f+1) .assign { s with stack := .ref name :: v :: r } = .error (.internal e)) := by
  constructor
  · simp only [runBuiltin, pop, hv, hk]
  · intro v h; cases v <;> first | (simp only [runBuiltin, pop, hv, hk]; exact ⟨_, rfl⟩) | cases h

/-- `v 'name :=` for an entry string variable (`sort.key$`, `label`, …) -/
theorem C03_builtin_assign_entry_str (f : Nat) (s : St) (name en : Str) (v : Val) (r : List Val) (k : Str)
    (hv : s.vars.getItem name = some (.estr en)) (hk : s.cur = some k) :
    (isStr v = true → runBuiltin (f+1) .assign { s with stack := .ref name :: v :: r } =
      .ok (setEntryVar { s with stack := r } k en v)) ∧
    (isStr v = false → ∃ e, runBuiltin (f+1) .assign { s with stack := .ref name :: v :: r } = .error (.internal e)) := by
  constructor
  · intro h; cases v <;> first | (simp only [runBuiltin, pop, hv, hk]; done) | cases h
  · intro h; cases v <;> first | (simp only [runBuiltin, pop, hv, hk]; exact ⟨_, rfl⟩) | cases h

/-- `:=` with too few operands, or whose top operand is not a quoted variable, or that names a
function / field / built-in: an error, never an assignment -/
theorem C03_builtin_assign_errors (f : Nat) (s : St) (r : List Val) :
    (∀ vs : List Val, vs.length < 2 → runBuiltin (f+1) .assign { s with stack := vs } = emptyStack) ∧
    (∀ v w, (∀ n, v ≠ .ref n) → ∃ e, runBuiltin (f+1) .assign { s with stack := v :: w :: r } = .error (.internal e)) ∧
    (∀ name w o, s.vars.getItem name = some o → (∀ x, o ≠ .gint x) → (∀ x, o ≠ .gstr x) → (∀ x, o ≠ .eint x) →
        (∀ x, o ≠ .estr x) → ∃ e, runBuiltin (f+1) .assign { s with stack := .ref name :: w :: r } = .error (.internal e)) := by
  refine ⟨fun vs h => C03_builtin_short_stack f s .assign vs h, ?_, ?_⟩
  · intro v w h
    cases v with
    | ref n => exact absurd rfl (h n)
    | _ => exact ⟨_, rfl⟩
  · intro name w o ho h1 h2 h3 h4
    cases o with
    | gint x => exact absurd rfl (h1 x)
    | gstr x => exact absurd rfl (h2 x)
    | eint x => exact absurd rfl (h3 x)
    | estr x => exact absurd rfl (h4 x)
    | _ => (simp only [runBuiltin, pop, ho]; exact ⟨_, rfl⟩)

/-! ### stack manipulation -/

/-- `duplicate$`, `pop$`, `swap$`, `skip$`, `quote$` do what their names say, for values of any
type; on a too short stack they raise `BibTeXError`. -/
theorem C03_builtin_stack_ops (f : Nat) (s : St) (v w : Val) (r : List Val) :
    runBuiltin (f+1) .duplicate { s with stack := v :: r } = .ok { s with stack := v :: v :: r } ∧
    runBuiltin (f+1) .pop { s with stack := v :: r } = .ok { s with stack := r } ∧
    runBuiltin (f+1) .swap { s with stack := w :: v :: r } = .ok { s with stack := v :: w :: r } ∧
    runBuiltin (f+1) .skip s = .ok s ∧
    runBuiltin (f+1) .quote s = .ok { s with stack := .str ['"'] :: s.stack } ∧
    runBuiltin (f+1) .duplicate { s with stack := [] } = emptyStack ∧
    runBuiltin (f+1) .pop { s with stack := [] } = emptyStack ∧
    (∀ vs : List Val, vs.length < 2 → runBuiltin (f+1) .swap { s with stack := vs } = emptyStack) :=
  ⟨rfl, rfl, rfl, rfl, rfl, rfl, rfl, fun vs h => C03_builtin_short_stack f s .swap vs h⟩

/-! ### tests -/

/-- `empty$`: 1 if the string is missing, empty or consists of white space only, else 0.
Ill-typed: the integer 0 is falsy in Python and gives 1; every other non-string is an
`AttributeError`. -/
theorem C03_builtin_empty (f : Nat) (s : St) (v : Val) (x : Str) (r : List Val) (hx : valToStr v = some x) :
    runBuiltin (f+1) .empty { s with stack := v :: r } = .ok { s with stack := .int (if Blank x then 1 else 0) :: r } ∧
    runBuiltin (f+1) .empty { s with stack := [] } = emptyStack ∧
    runBuiltin (f+1) .empty { s with stack := .int 0 :: r } = .ok { s with stack := .int 1 :: r } ∧
    (∀ v, isStr v = false → v ≠ .int 0 → ∃ e, runBuiltin (f+1) .empty { s with stack := v :: r } = .error (.internal e)) := by
  have key : ∀ x : Str, (if x ≠ [] ∧ (!isBlank x) = true then (0 : Int) else 1) = if Blank x then 1 else 0 := by
    intro x
    have hb : isBlank x = true ↔ Blank x := by simp [isBlank, Blank]
    by_cases h : Blank x
    · rw [if_pos h, if_neg]; simp [hb.2 h]
    · rw [if_neg h, if_pos]
      refine ⟨?_, ?_⟩
      · rintro rfl; exact h (fun _ hc => nomatch hc)
      · cases hh : isBlank x
        · rfl
        · exact absurd (hb.1 hh) h
  refine ⟨?_, rfl, rfl, ?_⟩
  · rcases valToStr_cases hx with rfl | ⟨m, rfl, rfl⟩
    · show Except.ok { s with stack := .int (if x ≠ [] ∧ (!isBlank x) = true then 0 else 1) :: r } = _
      rw [key]
    · show Except.ok { s with stack := .int 1 :: r } = _
      have hb : Blank ([] : Str) := fun _ hc => nomatch hc
      rw [if_pos hb]
  · intro v hv h0
    cases v with
    | int n =>
      match n, h0 with
      | .ofNat 0, h0 => exact absurd rfl h0
      | .ofNat (k+1), _ => exact ⟨_, rfl⟩
      | .negSucc k, _ => exact ⟨_, rfl⟩
    | str x => cases hv
    | missing m => cases hv
    | fn b => exact ⟨_, rfl⟩
    | ref n => exact ⟨_, rfl⟩

/-- `missing$`: 1 exactly for a missing field (which is otherwise an empty string), else 0 -/
theorem C03_builtin_missing (f : Nat) (s : St) (r : List Val) :
    (∀ m, runBuiltin (f+1) .missing { s with stack := .missing m :: r } = .ok { s with stack := .int 1 :: r }) ∧
    (∀ v, (∀ m, v ≠ .missing m) → runBuiltin (f+1) .missing { s with stack := v :: r } = .ok { s with stack := .int 0 :: r }) ∧
    runBuiltin (f+1) .missing { s with stack := [] } = emptyStack := by
  refine ⟨fun _ => rfl, ?_, rfl⟩
  intro v h
  cases v with
  | missing m => exact absurd rfl (h m)
  | _ => rfl

/-! ### conversions -/

/-- `chr.to.int$`: the code point of a one-character string; anything else — a string of another
length, a missing field, and also an integer, a function or a variable (Python catches the
`TypeError` of `ord`) — is a `BibTeXError` -/
theorem C03_builtin_chr_to_int (f : Nat) (s : St) (r : List Val) :
    (∀ c, runBuiltin (f+1) .chrToInt { s with stack := .str [c] :: r } = .ok { s with stack := .int c.toNat :: r }) ∧
    (∀ v, (∀ c, v ≠ .str [c]) →
      runBuiltin (f+1) .chrToInt { s with stack := v :: r } = .error (.bibtex "passed to chr.to.int$")) ∧
    runBuiltin (f+1) .chrToInt { s with stack := [] } = emptyStack := by
  refine ⟨fun _ => rfl, ?_, rfl⟩
  intro v hv
  cases v with
  | str x =>
    match x, hv with
    | [], _ => rfl
    | [c], hv => exact absurd rfl (hv c)
    | _ :: _ :: _, _ => rfl
  | _ => rfl

/-- `int.to.chr$`: the one-character string with that code point for `0 ≤ n < 0x110000` outside the
surrogate block (the character pushed really has the code point `n`); outside `0 ≤ n < 0x110000`
a `BibTeXError` (Python's `ValueError` of `chr`), except that an integer that does not fit a C
`int` is an `OverflowError` (not a pybtex error).  For a surrogate code point (0xD800–0xDFFF)
Python's `chr` returns a lone surrogate, which a Lean `Char` cannot hold: the model stops with an
internal error marked `unmodelled:` — it never gives another character instead. -/
theorem C03_builtin_int_to_chr (f : Nat) (s : St) (n : Int) (r : List Val) :
    (0 ≤ n ∧ n < 0x110000 → ¬ (0xD800 ≤ n ∧ n ≤ 0xDFFF) →
        runBuiltin (f+1) .intToChr { s with stack := .int n :: r } =
          .ok { s with stack := .str [Char.ofNat n.toNat] :: r } ∧
        ((Char.ofNat n.toNat).toNat : Int) = n) ∧
    (0xD800 ≤ n ∧ n ≤ 0xDFFF →
        runBuiltin (f+1) .intToChr { s with stack := .int n :: r } =
          .error (.internal "unmodelled: chr() of a surrogate code point")) ∧
    (¬ (0 ≤ n ∧ n < 0x110000) → -2147483648 ≤ n ∧ n ≤ 2147483647 →
        runBuiltin (f+1) .intToChr { s with stack := .int n :: r } = .error (.bibtex "passed to int.to.chr$")) ∧
    (n < -2147483648 ∨ 2147483647 < n →
        ∃ e, runBuiltin (f+1) .intToChr { s with stack := .int n :: r } = .error (.internal e)) ∧
    runBuiltin (f+1) .intToChr { s with stack := [] } = emptyStack ∧
    (∀ v, isInt v = false → ∃ e, runBuiltin (f+1) .intToChr { s with stack := v :: r } = .error (.internal e)) := by
  refine ⟨?_, ?_, ?_, ?_, rfl, ?_⟩
  · intro h hs
    constructor
    · show (if 0xD800 ≤ n ∧ n ≤ 0xDFFF then _ else if 0 ≤ n ∧ n < 0x110000 then _ else _) = _
      rw [if_neg hs, if_pos h]; rfl
    · have hv : n.toNat.isValidChar := by
        unfold Nat.isValidChar
        omega
      rw [Char.ofNat, dif_pos hv]
      show ((n.toNat : Nat) : Int) = n
      omega
  · intro h
    show (if 0xD800 ≤ n ∧ n ≤ 0xDFFF then _ else _) = _
    rw [if_pos h]
  · intro h hc
    show (if 0xD800 ≤ n ∧ n ≤ 0xDFFF then _ else if 0 ≤ n ∧ n < 0x110000 then _ else
      if n < -2147483648 ∨ 2147483647 < n then _ else _) = _
    rw [if_neg (by omega), if_neg h, if_neg (by omega)]
  · intro h
    show ∃ e, (if 0xD800 ≤ n ∧ n ≤ 0xDFFF then _ else if 0 ≤ n ∧ n < 0x110000 then _ else
      if n < -2147483648 ∨ 2147483647 < n then _ else _) = _
    rw [if_neg (by omega), if_neg (by omega), if_pos h]; exact ⟨_, rfl⟩
  · ill1

/-- `int.to.str$`: the decimal representation (`-` sign for negative numbers); Python's `str()` of
a function or variable object is its `repr`: not modelled (an `unmodelled:` internal error) -/
theorem C03_builtin_int_to_str (f : Nat) (s : St) (n : Int) (r : List Val) :
    runBuiltin (f+1) .intToStr { s with stack := .int n :: r } = .ok { s with stack := .str (toString n).toList :: r } ∧
    runBuiltin (f+1) .intToStr { s with stack := [] } = emptyStack ∧
    (∀ v, isExec v = true → ∃ e, runBuiltin (f+1) .intToStr { s with stack := v :: r } = .error (.internal e)) := by
  refine ⟨rfl, rfl, ?_⟩
  ill1

/-! ### the current entry -/

/-- `cite$` pushes the key of the current entry as spelled in the citation list, `type$` its
(lower-cased, as stored) entry type, `preamble$` the concatenated `@preamble`s of the database -/
theorem C03_builtin_cite_type_preamble (f : Nat) (s : St) (k : Str) (e : Pybtex.Entry) (db : BibData) :
    (s.cur = some k → runBuiltin (f+1) .cite s = .ok { s with stack := .str k :: s.stack }) ∧
    (s.cur = some k → s.db = some db → db.entries.getItem k = some e →
      runBuiltin (f+1) .type_ s = .ok { s with stack := .str e.type :: s.stack }) ∧
    (s.db = some db → runBuiltin (f+1) .preamble s = .ok { s with stack := .str s.preamble :: s.stack }) ∧
    (s.cur = none → (∃ w, runBuiltin (f+1) .cite s = .error (.internal w)) ∧
      (∃ w, runBuiltin (f+1) .type_ s = .error (.internal w))) := by
  refine ⟨?_, ?_, ?_, ?_⟩
  · intro h; simp only [runBuiltin, h, push]
  · intro h1 h2 h3; simp only [runBuiltin, curEntry, h1, h2, h3, push]
  · intro h; simp only [runBuiltin, h, push]
  · intro h; constructor
    · simp only [runBuiltin, h]; exact ⟨_, rfl⟩
    · simp only [runBuiltin, curEntry, h]; exact ⟨_, rfl⟩

/-! ### output -/

/-- `write$` appends its operand to the output buffer (nothing is emitted yet); the call is
recorded as the event `write x` in the trace of output calls -/
theorem C03_builtin_write (f : Nat) (s : St) (v : Val) (x : Str) (r : List Val) (hx : valToStr v = some x) :
    runBuiltin (f+1) .write { s with stack := v :: r } =
      .ok { s with stack := r, buffer := s.buffer ++ [x], trace := s.trace ++ [.write x] } ∧
    runBuiltin (f+1) .write { s with stack := [] } = emptyStack ∧
    (∀ v, isStr v = false → ∃ e, runBuiltin (f+1) .write { s with stack := v :: r } = .error (.internal e)) := by
  refine ⟨?_, rfl, ?_⟩
  · rcases valToStr_cases hx with rfl | ⟨m, rfl, rfl⟩ <;> rfl
  · ill1

/-- `newline$` emits the buffered text, wrapped (C19: `wrap(·, 79, "  ")`), and a line feed, and
clears the buffer; the stack is not touched; the call is recorded as the event `newline` in the
trace of output calls -/
theorem C03_builtin_newline (f : Nat) (s : St) :
    runBuiltin (f+1) .newline s =
      .ok { s with lines := s.lines ++ [Wrap.wrapDefault s.buffer.flatten, ['\n']], buffer := [],
                   trace := s.trace ++ [.newline] } := rfl

/-- `warning$` reports its operand as a warning (an integer as its decimal text; the `repr` of a
function or variable object is not modelled); `top$` pops and prints one value of any type;
`stack$` pops and prints the whole stack, top first (`shown`: the print-out of a function or
variable object is the tag `<object>`) -/
theorem C03_builtin_warning_top_stack (f : Nat) (s : St) (r : List Val) :
    (∀ v x, valToStr v = some x →
      runBuiltin (f+1) .warning { s with stack := v :: r } = .ok { s with stack := r, reports := s.reports ++ [.warning x] }) ∧
    (∀ n, runBuiltin (f+1) .warning { s with stack := .int n :: r } =
      .ok { s with stack := r, reports := s.reports ++ [.warning (toString n).toList] }) ∧
    (∀ v, runBuiltin (f+1) .top { s with stack := v :: r } = .ok { s with stack := r, printed := s.printed ++ [shown v] }) ∧
    (∀ vs : List Val, runBuiltin (f+1) .stack { s with stack := vs } =
      .ok { s with stack := [], printed := s.printed ++ vs.map shown }) ∧
    runBuiltin (f+1) .warning { s with stack := [] } = emptyStack ∧
    runBuiltin (f+1) .top { s with stack := [] } = emptyStack ∧
    (∀ v, isExec v = true → ∃ e, runBuiltin (f+1) .warning { s with stack := v :: r } = .error (.internal e)) := by
  refine ⟨?_, fun _ => rfl, ?_, ?_, rfl, rfl, ?_⟩
  · intro v x hx; rcases valToStr_cases hx with rfl | ⟨m, rfl, rfl⟩ <;> rfl
  · intro v
    show Except.ok { s with stack := r, printed := s.printed ++ [printVal v] } = _
    rw [printVal_eq_shown]
  · intro vs
    show Except.ok { s with stack := [], printed := s.printed ++ vs.map printVal } = _
    rw [map_printVal]
  · ill1

/-! ### string functions (delegating to the models of C12, C11) -/

/-- `s start len substring$` is `bibtexSubstring` = the documented `Spec.substring` (C12), for all
integer arguments.  Ill-typed (three operands present): a non-integer `start` is a `TypeError`;
`start = 0` gives the empty string whatever the other two operands are (Python returns before
using them); otherwise a non-integer `len` or a non-string `s` is a `TypeError`. -/
theorem C03_builtin_substring (f : Nat) (s : St) (v : Val) (x : Str) (start len : Int) (r : List Val)
    (hx : valToStr v = some x) :
    runBuiltin (f+1) .substring { s with stack := .int len :: .int start :: v :: r } =
      .ok { s with stack := .str (Spec.substring x start len) :: r } ∧
    (∀ vs : List Val, vs.length < 3 → runBuiltin (f+1) .substring { s with stack := vs } = emptyStack) ∧
    (∀ l w y, isInt w = false → ∃ e, runBuiltin (f+1) .substring { s with stack := l :: w :: y :: r } = .error (.internal e)) ∧
    (∀ l y, runBuiltin (f+1) .substring { s with stack := l :: .int 0 :: y :: r } = .ok { s with stack := .str [] :: r }) ∧
    (∀ l y, start ≠ 0 → isInt l = false ∨ isStr y = false →
      ∃ e, runBuiltin (f+1) .substring { s with stack := l :: .int start :: y :: r } = .error (.internal e)) := by
  have step : ∀ l y, runBuiltin (f+1) .substring { s with stack := l :: .int start :: y :: r } =
      if start = 0 then .ok { s with stack := .str [] :: r }
      else match l, valToStr y with
        | .int len, some x => .ok { s with stack := .str (bibtexSubstring x start len) :: r }
        | _, _ => .error (.internal "TypeError: bibtex_substring") := fun _ _ => rfl
  refine ⟨?_, fun vs h => C03_builtin_short_stack f s .substring vs h, ?_, fun _ _ => rfl, ?_⟩
  · rw [step]
    by_cases h0 : start = 0
    · rw [if_pos h0, h0]
      have : Spec.substring x 0 len = [] := by simp [Spec.substring]
      rw [this]
    · rw [if_neg h0, hx, ← C12_substring_spec]
  · intro l w y hw
    cases w <;> first | exact ⟨_, rfl⟩ | cases hw
  · intro l y h0 h
    rw [step, if_neg h0]
    rcases h with h | h
    · cases l with
      | int k => cases h
      | _ => cases valToStr y <;> exact ⟨_, rfl⟩
    · rw [valToStr_none h]
      cases l <;> exact ⟨_, rfl⟩

/-- `s text.length$` ↦ `bibtexLen s` (C12: braces not counted, a special character counts one) -/
theorem C03_builtin_text_length (f : Nat) (s : St) (v : Val) (x : Str) (r : List Val) (hx : valToStr v = some x) :
    runBuiltin (f+1) .textLength { s with stack := v :: r } =
      (match bibtexLen x with
       | some n => .ok { s with stack := .int n :: r }
       | none => .error (.bibtex "too many nested braces")) ∧
    runBuiltin (f+1) .textLength { s with stack := [] } = emptyStack ∧
    (∀ w, isStr w = false → ∃ e, runBuiltin (f+1) .textLength { s with stack := w :: r } = .error (.internal e)) := by
  refine ⟨?_, rfl, ?_⟩
  · have key : ∀ y : Str, runBuiltin (f+1) .textLength { s with stack := .str y :: r } =
        (match bibtexLen y with | some n => .ok { s with stack := .int n :: r } | none => .error (.bibtex "too many nested braces")) := by
      intro y
      show (match bibtexLen y with | none => _ | some n => _) = _
      cases bibtexLen y <;> rfl
    rcases valToStr_cases hx with rfl | ⟨m, rfl, rfl⟩
    · exact key x
    · exact key []
  · ill1

/-- `s n text.prefix$` ↦ `bibtexPrefix s n` (C12).  Ill-typed (two operands present): a
non-integer `n` is a `TypeError`; `n ≤ 0` gives the empty string whatever `s` is (nothing is read
from it); for `n > 0` a non-string `s` is a `TypeError`. -/
theorem C03_builtin_text_prefix (f : Nat) (s : St) (v : Val) (x : Str) (n : Int) (r : List Val)
    (hx : valToStr v = some x) :
    runBuiltin (f+1) .textPrefix { s with stack := .int n :: v :: r } =
      (match bibtexPrefix x n with
       | some p => .ok { s with stack := .str p :: r }
       | none => .error (.bibtex "too many nested braces")) ∧
    (∀ vs : List Val, vs.length < 2 → runBuiltin (f+1) .textPrefix { s with stack := vs } = emptyStack) ∧
    (∀ w y, isInt w = false → ∃ e, runBuiltin (f+1) .textPrefix { s with stack := w :: y :: r } = .error (.internal e)) ∧
    (∀ y, n ≤ 0 → runBuiltin (f+1) .textPrefix { s with stack := .int n :: y :: r } = .ok { s with stack := .str [] :: r }) ∧
    (∀ y, 0 < n → isStr y = false → ∃ e, runBuiltin (f+1) .textPrefix { s with stack := .int n :: y :: r } = .error (.internal e)) := by
  have step : ∀ y, runBuiltin (f+1) .textPrefix { s with stack := .int n :: y :: r } =
      if n ≤ 0 then .ok { s with stack := .str [] :: r }
      else match valToStr y with
        | none => .error (.internal "TypeError: bibtex_prefix of a non-string")
        | some x =>
          match bibtexPrefix x n with
          | none => .error tooDeep
          | some p => .ok { s with stack := .str p :: r } := fun _ => rfl
  refine ⟨?_, fun vs h => C03_builtin_short_stack f s .textPrefix vs h, ?_, ?_, ?_⟩
  · rw [step, hx]
    by_cases hn : n ≤ 0
    · rw [if_pos hn, C12_prefix_nonpos x n hn]
    · rw [if_neg hn]
      show (match bibtexPrefix x n with | none => _ | some p => _) = _
      cases bibtexPrefix x n <;> rfl
  · intro w y hw
    cases w <;> first | exact ⟨_, rfl⟩ | cases hw
  · intro y hn; rw [step, if_pos hn]
  · intro y hn hy
    rw [step, if_neg (by omega), valToStr_none hy]; exact ⟨_, rfl⟩

/-- corollary with C12: for `n ≥ 0` the pushed prefix has text length `min n (text length of s)`,
and for `n ≤ 0` it is empty -/
theorem C03_builtin_text_prefix_spec (f : Nat) (s s' : St) (x : Str) (n : Int) (m : Nat) (r : List Val)
    (hm : bibtexLen x = some m)
    (h : runBuiltin (f+1) .textPrefix { s with stack := .int n :: .str x :: r } = .ok s') :
    ∃ p, s' = { s with stack := .str p :: r } ∧ bibtexPrefix x n = some p ∧
      (0 ≤ n → bibtexLen p = some (min n.toNat m)) ∧ (n ≤ 0 → p = []) := by
  have h0 := (C03_builtin_text_prefix f s (.str x) x n r rfl).1
  rw [h0] at h
  cases hp : bibtexPrefix x n with
  | none => rw [hp] at h; cases h
  | some p =>
    rw [hp] at h
    refine ⟨p, by cases h; rfl, rfl, fun hn => C12_prefix_len x p n m hn hp hm, fun hn => ?_⟩
    have := C12_prefix_nonpos x n hn
    rw [hp] at this; cases this; rfl

/-- `s purify$` ↦ `bibtexPurify s`, `s width$` ↦ `bibtexWidth` over the regenerated width table,
`s num.names$` ↦ the number of names separated by top-level " and " -/
theorem C03_builtin_purify_width_num_names (f : Nat) (s : St) (v : Val) (x : Str) (r : List Val)
    (hx : valToStr v = some x) :
    runBuiltin (f+1) .purify { s with stack := v :: r } =
      (match bibtexPurify x with
       | some p => .ok { s with stack := .str p :: r }
       | none => .error (.bibtex "too many nested braces")) ∧
    runBuiltin (f+1) .width { s with stack := v :: r } =
      (match bibtexWidthStd x with
       | some w => .ok { s with stack := .int w :: r }
       | none => .error (.bibtex "too many nested braces")) ∧
    runBuiltin (f+1) .numNames { s with stack := v :: r } = .ok { s with stack := .int (splitNameList x).length :: r } ∧
    (∀ o, o = Builtin.purify ∨ o = Builtin.width ∨ o = Builtin.numNames →
      runBuiltin (f+1) o { s with stack := [] } = emptyStack ∧
      (∀ w, isStr w = false → ∃ e, runBuiltin (f+1) o { s with stack := w :: r } = .error (.internal e))) := by
  refine ⟨?_, ?_, ?_, ?_⟩
  · have key : ∀ y : Str, runBuiltin (f+1) .purify { s with stack := .str y :: r } =
        (match bibtexPurify y with | some n => .ok { s with stack := .str n :: r } | none => .error (.bibtex "too many nested braces")) := by
      intro y
      show (match bibtexPurify y with | none => _ | some n => _) = _
      cases bibtexPurify y <;> rfl
    rcases valToStr_cases hx with rfl | ⟨m, rfl, rfl⟩
    · exact key x
    · exact key []
  · have key : ∀ y : Str, runBuiltin (f+1) .width { s with stack := .str y :: r } =
        (match bibtexWidthStd y with | some n => .ok { s with stack := .int n :: r } | none => .error (.bibtex "too many nested braces")) := by
      intro y
      show (match bibtexWidthStd y with | none => _ | some n => _) = _
      cases bibtexWidthStd y <;> rfl
    rcases valToStr_cases hx with rfl | ⟨m, rfl, rfl⟩
    · exact key x
    · exact key []
  · rcases valToStr_cases hx with rfl | ⟨m, rfl, rfl⟩ <;> rfl
  · rintro o (rfl | rfl | rfl) <;> exact ⟨rfl, by ill1⟩

/-- **`width$` "takes the literal literally … except that special characters are handled
specially".**  With `C12_width_onepass` / `C12_width_literal`: for every string within the nesting
limit `width$` pushes the scanner-free one-pass width (`Spec.widthOnePass` over the regenerated
width table): every character outside a special character counts with its own width, braces and
backslashes included; a special character is a `{` at brace level 0 immediately followed by a
backslash and nothing else (repair C03-2).  In particular a string without special character has
the sum of the widths of its characters.  (What the text of a special character adds is pybtex's
rule, not BibTeX's: recorded finding `C03-width-special-char-contents`.) -/
theorem C03_builtin_width_spec (f : Nat) (s : St) (x : Str) (r : List Val)
    (hd : Spec.maxDepth 0 x ≤ maxLevel) :
    runBuiltin (f+1) .width { s with stack := .str x :: r } =
      .ok { s with stack := .int (Spec.widthOnePass widthOf x) :: r } ∧
    (Spec.noSpecial x = true →
      runBuiltin (f+1) .width { s with stack := .str x :: r } =
        .ok { s with stack := .int (x.map widthOf).sum :: r }) := by
  have h := (C03_builtin_purify_width_num_names f s (.str x) x r rfl).2.1
  refine ⟨?_, fun hn => ?_⟩
  · rw [h, bibtexWidthStd, C12_width_onepass widthOf x hd]
  · rw [h, bibtexWidthStd, C12_width_literal widthOf x hd hn]

theorem C03_builtin_width_spec_nonvacuous :
    Spec.maxDepth 0 "{x\\y}".toList ≤ maxLevel ∧ Spec.noSpecial "{x\\y}".toList = true ∧
    ("{x\\y}".toList.map widthOf).sum = 2556 ∧
    (runBuiltin 1 .width { ({ vars := initVars } : St) with stack := [.str "{x\\y}".toList] }).toOption.map
      (fun s => s.stack.map shown) = some ["2556".toList] := by
  decide +kernel

/-- **`num.names$` counts the names.**  With the characterisation of `split_name_list` proved for
C01 (`BibRT.split_names_spec`, published as `C01_split_names_spec`): for a name list written as
`n + 1` names joined by `n` separators — each separator a spelling of ` and ` (a blank, `a`/`A`,
`n`/`N`, `d`/`D`, a blank), each name non-empty, brace-balanced and without a separator match at
brace level 0 (`NameOk0`) — `num.names$` pushes `n + 1`.  (The equation of
`C03_builtin_purify_width_num_names` only says "the length of the model's `splitNameList`".) -/
theorem C03_builtin_num_names_spec (f : Nat) (s : St) (a : Str) (rs : List (Str × Str)) (r : List Val)
    (ha : BibRT.NameOk0 a) (hr : ∀ x ∈ rs, Spec.isAndSep x.1 = true ∧ BibRT.NameOk0 x.2) :
    runBuiltin (f+1) .numNames { s with stack := .str (BibRT.joinSeps a rs) :: r } =
      .ok { s with stack := .int ((rs.length + 1 : Nat) : Int) :: r } := by
  rw [(C03_builtin_purify_width_num_names f s (.str (BibRT.joinSeps a rs)) _ r rfl).2.2.1,
    BibRT.split_names_spec.2.2.2.2.2 a rs ha hr]
  simp

theorem C03_builtin_num_names_spec_nonvacuous :
    BibRT.NameOk0 "{Barnes and Noble}".toList ∧ BibRT.NameOk0 "Knuth, Donald E.".toList ∧
    BibRT.NameOk0 "others".toList ∧ Spec.isAndSep " AND ".toList = true ∧ Spec.isAndSep " and ".toList = true ∧
    BibRT.joinSeps "{Barnes and Noble}".toList
        [(" AND ".toList, "Knuth, Donald E.".toList), (" and ".toList, "others".toList)] =
      "{Barnes and Noble} AND Knuth, Donald E. and others".toList ∧
    (runBuiltin 1 .numNames { ({ vars := initVars } : St) with
        stack := [.str "{Barnes and Noble} AND Knuth, Donald E. and others".toList] }).toOption.map
        (fun s => s.stack.map shown) = some ["3".toList] :=
  ⟨BibRT.split_names_spec_nonvacuous.1.1, BibRT.split_names_spec_nonvacuous.1.2.1,
    BibRT.split_names_spec_nonvacuous.1.2.2.1, by decide, by decide, by decide +kernel, by decide +kernel⟩

/-- corollary with C12: a purified string consists of letters, digits and blanks only -/
theorem C03_builtin_purify_spec (f : Nat) (s s' : St) (x : Str) (r : List Val)
    (h : runBuiltin (f+1) .purify { s with stack := .str x :: r } = .ok s') :
    ∃ p, s' = { s with stack := .str p :: r } ∧ (∀ c ∈ p, isAlnum c = true ∨ c = ' ') ∧ bibtexPurify p = some p := by
  have h0 := (C03_builtin_purify_width_num_names f s (.str x) x r rfl).1
  rw [h0] at h
  cases hp : bibtexPurify x with
  | none => rw [hp] at h; cases h
  | some p =>
    rw [hp] at h
    exact ⟨p, by cases h; rfl, C12_purify_range x p hp, C12_purify_idem x p hp⟩

/-- `s mode change.case$`: the conversion is selected by the first character of `mode`,
lower-cased (`t`, `l`, `u`); an empty mode and any other letter are `BibTeXError`s.  Ill-typed
(two operands present): the mode `0` is "empty" (`not mode`), any other integer, a function or a
variable as mode is a `TypeError`; with a valid mode a non-string `s` is a `TypeError` — the mode
is checked first. -/
theorem C03_builtin_change_case (f : Nat) (s : St) (vm vx : Val) (x : Str) (r : List Val)
    (hx : valToStr vx = some x) :
    (∀ c m md, valToStr vm = some (c :: m) → caseModeOf (lowerC c) = some md →
      runBuiltin (f+1) .changeCase { s with stack := vm :: vx :: r } =
        (match changeCase x md with
         | some y => .ok { s with stack := .str y :: r }
         | none => .error (.bibtex "too many nested braces"))) ∧
    (∀ c m w, valToStr vm = some (c :: m) → caseModeOf (lowerC c) = none →
      runBuiltin (f+1) .changeCase { s with stack := vm :: w :: r } = .error (.bibtex "incorrect change.case$ mode")) ∧
    (∀ w, valToStr vm = some [] ∨ vm = .int 0 →
      runBuiltin (f+1) .changeCase { s with stack := vm :: w :: r } = .error (.bibtex "empty mode string passed to change.case$")) ∧
    (∀ vs : List Val, vs.length < 2 → runBuiltin (f+1) .changeCase { s with stack := vs } = emptyStack) ∧
    (∀ w n, n ≠ 0 → ∃ e, runBuiltin (f+1) .changeCase { s with stack := .int n :: w :: r } = .error (.internal e)) ∧
    (∀ v w, isExec v = true → ∃ e, runBuiltin (f+1) .changeCase { s with stack := v :: w :: r } = .error (.internal e)) ∧
    (∀ c m md w, valToStr vm = some (c :: m) → caseModeOf (lowerC c) = some md → isStr w = false →
      ∃ e, runBuiltin (f+1) .changeCase { s with stack := vm :: w :: r } = .error (.internal e)) := by
  have step : ∀ (c : Char) (m : Str) (w : Val),
      runBuiltin (f+1) .changeCase { s with stack := .str (c :: m) :: w :: r } =
        (match caseModeOf (lowerC c) with
          | none => .error (.bibtex "incorrect change.case$ mode")
          | some md =>
            match valToStr w with
            | none => .error (.internal "TypeError: change_case of a non-string")
            | some x =>
              match changeCase x md with
              | none => .error tooDeep
              | some y => .ok { s with stack := .str y :: r }) := fun _ _ _ => rfl
  have hstr : ∀ c m, valToStr vm = some (c :: m) → vm = .str (c :: m) := by
    intro c m h
    rcases valToStr_cases h with rfl | ⟨_, _, h0⟩
    · rfl
    · cases h0
  refine ⟨?_, ?_, ?_, fun vs h => C03_builtin_short_stack f s .changeCase vs h, ?_, ?_, ?_⟩
  · intro c m md hm hmd
    rw [hstr c m hm, step, hx]; simp only [hmd]
    show (match changeCase x md with | none => _ | some y => _) = _
    cases changeCase x md <;> rfl
  · intro c m w hm hmd
    rw [hstr c m hm, step]; simp only [hmd]
  · rintro w (hm | rfl)
    · rcases valToStr_cases hm with rfl | ⟨mm, rfl, _⟩ <;> rfl
    · rfl
  · intro w n hn
    show ∃ e, (if n = 0 then _ else _) = _
    rw [if_neg hn]; exact ⟨_, rfl⟩
  · ill2
  · intro c m md w hm hmd hw
    rw [hstr c m hm, step]; simp only [hmd, valToStr_none hw]; exact ⟨_, rfl⟩

/-- `add.period$` appends a period unless the string is empty or its last character other than a
closing brace is `.`, `?` or `!`; a string of closing braces only gets the period (as in
BibTeX); a missing field stays a missing field.  The three shapes cover every string.
Ill-typed: the integer 0 is falsy in Python and is pushed back; every other non-string is an
`AttributeError`. -/
theorem C03_builtin_add_period (f : Nat) (s : St) (r : List Val) :
    (∀ x, runBuiltin (f+1) .addPeriod { s with stack := .str x :: r } = .ok { s with stack := .str (addPeriod x) :: r }) ∧
    (∀ m, runBuiltin (f+1) .addPeriod { s with stack := .missing m :: r } = .ok { s with stack := .missing m :: r }) ∧
    addPeriod [] = [] ∧
    (∀ core c k, c ≠ '}' → addPeriod (core ++ c :: List.replicate k '}') =
      if EndsSentence c then core ++ c :: List.replicate k '}' else core ++ c :: List.replicate k '}' ++ ['.']) ∧
    (∀ k, addPeriod (List.replicate (k + 1) '}') = List.replicate (k + 1) '}' ++ ['.']) ∧
    runBuiltin (f+1) .addPeriod { s with stack := [] } = emptyStack ∧
    runBuiltin (f+1) .addPeriod { s with stack := .int 0 :: r } = .ok { s with stack := .int 0 :: r } ∧
    (∀ v, isStr v = false → v ≠ .int 0 → ∃ e, runBuiltin (f+1) .addPeriod { s with stack := v :: r } = .error (.internal e)) := by
  refine ⟨fun _ => rfl, fun _ => rfl, rfl, addPeriod_core, addPeriod_braces, rfl, rfl, ?_⟩
  intro v hv h0
  cases v with
  | int n =>
    match n, h0 with
    | .ofNat 0, h0 => exact absurd rfl h0
    | .ofNat (k+1), _ => exact ⟨_, rfl⟩
    | .negSucc k, _ => exact ⟨_, rfl⟩
  | str x => cases hv
  | missing m => cases hv
  | fn b => exact ⟨_, rfl⟩
  | ref n => exact ⟨_, rfl⟩

/-- `names n fmt format.name$`: the `n`-th (from 1) name of the " and "-separated list, formatted
by `formatName` (C11); a name number outside `1 .. count` gives a warning and the empty string;
a malformed format string is a (fatal) syntax error; a name with too many commas is reported.
Ill-typed (three operands present): a non-integer `n` is a `TypeError`; for `n < 1` the warning
is issued before `names` and `fmt` are used (an integer `names` is printed in decimal; the `repr`
of an object is not modelled); for `n ≥ 1` a non-string `names` is an error; for `n` beyond the
count the format is not used; otherwise a non-string format is a `TypeError`. -/
theorem C03_builtin_format_name (f : Nat) (s : St) (vn vf : Val) (names fmt : Str) (n : Int) (r : List Val)
    (hn : valToStr vn = some names) (hf : valToStr vf = some fmt) :
    (∀ name out tooMany, 1 ≤ n → (splitNameList names)[(n - 1).toNat]? = some name →
      formatName name fmt = .ok (out, tooMany) →
      runBuiltin (f+1) .formatName { s with stack := vf :: .int n :: vn :: r } =
        .ok { s with stack := .str out :: r,
                     reports := if tooMany then s.reports ++ [.invalidName (strip name)] else s.reports }) ∧
    (∀ name e, 1 ≤ n → (splitNameList names)[(n - 1).toNat]? = some name → formatName name fmt = .error e →
      runBuiltin (f+1) .formatName { s with stack := vf :: .int n :: vn :: r } = .error (fmtErrToIErr e)) ∧
    (∀ w, n < 1 ∨ n > (splitNameList names).length →
      runBuiltin (f+1) .formatName { s with stack := w :: .int n :: vn :: r } =
        .ok { s with stack := .str [] :: r,
                     reports := s.reports ++ [.warning ("there is no name number ".toList ++ (toString n).toList ++
                        " in \"".toList ++ names ++ "\"".toList)] }) ∧
    (∀ vs : List Val, vs.length < 3 → runBuiltin (f+1) .formatName { s with stack := vs } = emptyStack) ∧
    (∀ w v y, isInt v = false → ∃ e, runBuiltin (f+1) .formatName { s with stack := w :: v :: y :: r } = .error (.internal e)) ∧
    (∀ w (k : Int), n < 1 → runBuiltin (f+1) .formatName { s with stack := w :: .int n :: .int k :: r } =
        .ok { s with stack := .str [] :: r,
                     reports := s.reports ++ [.warning ("there is no name number ".toList ++ (toString n).toList ++
                        " in \"".toList ++ (toString k).toList ++ "\"".toList)] }) ∧
    (∀ w y, isStr y = false → (1 ≤ n ∨ isExec y = true) →
      ∃ e, runBuiltin (f+1) .formatName { s with stack := w :: .int n :: y :: r } = .error (.internal e)) ∧
    (∀ w, 1 ≤ n → n ≤ (splitNameList names).length → isStr w = false →
      ∃ e, runBuiltin (f+1) .formatName { s with stack := w :: .int n :: vn :: r } = .error (.internal e)) := by
  have step : ∀ w, runBuiltin (f+1) .formatName { s with stack := w :: .int n :: vn :: r } =
      (if n < 1 then
        .ok (push (warn { s with stack := r } ("there is no name number ".toList ++ intToStr n ++ " in \"".toList ++ names ++ "\"".toList)) (.str []))
      else if n > (splitNameList names).length then
        .ok (push (warn { s with stack := r } ("there is no name number ".toList ++ intToStr n ++ " in \"".toList ++ names ++ "\"".toList)) (.str []))
      else
        match valToStr w with
        | none => .error (.internal "TypeError: format_name with a non-string format")
        | some fmt =>
          match pyIndex (splitNameList names) (n - 1) with
          | none => .error (.internal "IndexError: format.name$")
          | some name =>
            match formatName name fmt with
            | .error e => .error (fmtErrToIErr e)
            | .ok (out, tooMany) =>
              .ok (push (if tooMany then { s with stack := r, reports := s.reports ++ [.invalidName (strip name)] } else { s with stack := r }) (.str out))) := by
    intro w
    rcases valToStr_cases hn with rfl | ⟨mn, rfl, rfl⟩
    · rfl
    · show (if n < 1 then _ else _) = _
      by_cases h1 : n < 1
      · rw [if_pos h1, if_pos h1, List.append_nil]
      · rw [if_neg h1, if_neg h1]; rfl
  have hlen : ∀ name, 1 ≤ n → (splitNameList names)[(n - 1).toNat]? = some name →
      ¬ n < 1 ∧ ¬ n > (splitNameList names).length ∧ pyIndex (splitNameList names) (n - 1) = some name := by
    intro name h1 hnm
    have hlt : (n - 1).toNat < (splitNameList names).length := by
      rcases Nat.lt_or_ge (n - 1).toNat (splitNameList names).length with h | h
      · exact h
      · rw [List.getElem?_eq_none h] at hnm; cases hnm
    have h2 : n ≤ (splitNameList names).length := by omega
    exact ⟨by omega, by omega, by rw [pyIndex_pos _ _ h1 h2, hnm]⟩
  refine ⟨?_, ?_, ?_, fun vs h => C03_builtin_short_stack f s .formatName vs h, ?_, ?_, ?_, ?_⟩
  · intro name out tooMany h1 hnm hfm
    obtain ⟨hr1, hr2, hp⟩ := hlen name h1 hnm
    rw [step, if_neg hr1, if_neg hr2, hf]; simp only [hp, hfm]
    cases tooMany <;> rfl
  · intro name e h1 hnm hfm
    obtain ⟨hr1, hr2, hp⟩ := hlen name h1 hnm
    rw [step, if_neg hr1, if_neg hr2, hf]; simp only [hp, hfm]
  · intro w h
    rw [step]
    by_cases h1 : n < 1
    · rw [if_pos h1]; rfl
    · rw [if_neg h1, if_pos (by omega)]; rfl
  · intro w v y hv
    cases v <;> first | exact ⟨_, rfl⟩ | cases hv
  · intro w k h1
    show (if n < 1 then _ else _) = _
    rw [if_pos h1]; rfl
  · intro w y hy h
    cases y with
    | str x => cases hy
    | missing m => cases hy
    | int k =>
      have h1 : ¬ n < 1 := by
        rcases h with h | h
        · omega
        · cases h
      show ∃ e, (if n < 1 then _ else _) = _
      rw [if_neg h1]; exact ⟨_, rfl⟩
    | fn b =>
      show ∃ e, (if n < 1 then _ else _) = _
      by_cases h1 : n < 1
      · rw [if_pos h1]; exact ⟨_, rfl⟩
      · rw [if_neg h1]; exact ⟨_, rfl⟩
    | ref m =>
      show ∃ e, (if n < 1 then _ else _) = _
      by_cases h1 : n < 1
      · rw [if_pos h1]; exact ⟨_, rfl⟩
      · rw [if_neg h1]; exact ⟨_, rfl⟩
  · intro w h1 h2 hw
    rw [step, if_neg (by omega), if_neg (by omega), valToStr_none hw]; exact ⟨_, rfl⟩

/-- `call.type$` executes the function named like the type of the current entry; for a type the
style does not define it reports `entry type for "<key>" isn't style-file defined` and executes
`default.type` if the style defines one (and does nothing otherwise). -/
theorem C03_builtin_call_type (f : Nat) (s : St) (k : Str) (e : Pybtex.Entry) (db : BibData)
    (hk : s.cur = some k) (hdb : s.db = some db) (he : db.entries.getItem k = some e) :
    (∀ o, s.vars.getItem e.type = some o → runBuiltin (f+1) .callType s = execObj f o s) ∧
    (s.vars.getItem e.type = none →
      let s' := { s with reports := s.reports ++
        [.warning ("entry type for \"".toList ++ k ++ "\" isn't style-file defined".toList)] }
      (∀ o, s.vars.getItem "default.type".toList = some o → runBuiltin (f+1) .callType s = execObj f o s') ∧
      (s.vars.getItem "default.type".toList = none → runBuiltin (f+1) .callType s = .ok s')) ∧
    (∀ s0 : St, s0.cur = none → ∃ w, runBuiltin (f+1) .callType s0 = .error (.internal w)) := by
  have hc : curEntry s = .ok (k, e, db) := by simp only [curEntry, hk, hdb, he]
  refine ⟨?_, ?_, fun s0 h0 => by simp only [runBuiltin, curEntry, h0]; exact ⟨_, rfl⟩⟩
  · intro o ho; simp only [runBuiltin, hc, ho]
  · intro hn
    refine ⟨?_, ?_⟩
    · intro o ho; simp only [runBuiltin, hc, hn, warn, ho]
    · intro ho; simp only [runBuiltin, hc, hn, warn, ho]

/-! ## 2. Control flow, fuel, determinism -/

/-- `p f₂ f₁ if$` (the documentation's `p then else if$`): executes `f₂` if `p > 0`, else `f₁`,
on the stack below the three operands -/
theorem C03_if (f : Nat) (s : St) (p : Int) (f1 f2 : Val) (r : List Val) :
    runBuiltin (f+1) .if_ { s with stack := f1 :: f2 :: .int p :: r } =
      execVal f (if p > 0 then f2 else f1) { s with stack := r } ∧
    (∀ vs : List Val, vs.length < 3 → runBuiltin (f+1) .if_ { s with stack := vs } = emptyStack) ∧
    (∀ v, isInt v = false → ∃ e, runBuiltin (f+1) .if_ { s with stack := f1 :: f2 :: v :: r } = .error (.internal e)) ∧
    (∀ v, isExec v = false → ∃ e, execVal (f+1) v s = .error (.internal e)) := by
  refine ⟨?_, fun vs h => C03_builtin_short_stack f s .if_ vs h, ?_, ?_⟩
  · show (if p > 0 then execVal f f2 _ else execVal f f1 _) = _
    by_cases h : p > 0 <;> simp only [h, if_true, if_false]
  · ill1
  · ill1

/-! ### corollaries with the theorems of C12, C11 and C19 -/

/-- with C12: `text.length$` pushes the reference text length (braces not counted, a special
character once) unless the nesting limit is exceeded -/
theorem C03_builtin_text_length_spec (f : Nat) (s : St) (x : Str) (r : List Val) :
    (Spec.maxDepth 0 x ≤ maxLevel →
      runBuiltin (f+1) .textLength { s with stack := .str x :: r } =
        .ok { s with stack := .int (Spec.textLength false 0 x) :: r }) ∧
    (¬ Spec.maxDepth 0 x ≤ maxLevel →
      runBuiltin (f+1) .textLength { s with stack := .str x :: r } = .error (.bibtex "too many nested braces")) := by
  have h0 := (C03_builtin_text_length f s (.str x) x r rfl).1
  rw [C12_len_spec] at h0
  constructor
  · intro h; rw [h0, if_pos h]
  · intro h; rw [h0, if_neg h]

theorem C03_builtin_text_length_spec_nonvacuous :
    Spec.maxDepth 0 "ab{\\'e}x".toList ≤ maxLevel ∧ Spec.textLength false 0 "ab{\\'e}x".toList = 4 := by
  decide +kernel

/-- with C12: `change.case$` changes nothing but the case of letters (for a string whose special
characters are all closed) -/
theorem C03_builtin_change_case_spec (f : Nat) (s s' : St) (x m : Str) (c : Char) (r : List Val)
    (hs : Spec.specialsClosed x = true)
    (h : runBuiltin (f+1) .changeCase { s with stack := .str (c :: m) :: .str x :: r } = .ok s') :
    ∃ y md, caseModeOf (lowerC c) = some md ∧ s' = { s with stack := .str y :: r } ∧ changeCase x md = some y ∧
      lower y = lower x ∧ y.length = x.length := by
  have h0 := C03_builtin_change_case f s (.str (c :: m)) (.str x) x r rfl
  cases hmd : caseModeOf (lowerC c) with
  | none => rw [h0.2.1 c m (.str x) rfl hmd] at h; cases h
  | some md =>
    rw [h0.1 c m md rfl hmd] at h
    cases hy : changeCase x md with
    | none => rw [hy] at h; cases h
    | some y =>
      rw [hy] at h
      exact ⟨y, md, rfl, by cases h; rfl, hy, C12_case_letters x y md hs hy, C12_case_len_partial x y md hs hy⟩

theorem C03_builtin_change_case_spec_nonvacuous :
    Spec.specialsClosed "Ab {C}d".toList = true ∧ changeCase "Ab {C}d".toList .l = some "ab {C}d".toList := by
  decide +kernel

/-- with C11: what `format.name$` pushes for an existing name is the outcome of the reference
rule `Spec.formatName` (grammar + formatting rule of `Spec/NameFormat.lean`) -/
theorem C03_builtin_format_name_spec (f : Nat) (s s' : St) (names fmt name : Str) (n : Int) (r : List Val)
    (h1 : 1 ≤ n) (hn : (splitNameList names)[(n - 1).toNat]? = some name)
    (h : runBuiltin (f+1) .formatName { s with stack := .str fmt :: .int n :: .str names :: r } = .ok s') :
    ∃ out, s'.stack = .str out :: r ∧ Spec.formatName name fmt = .ok out := by
  have h0 := C03_builtin_format_name f s (.str names) (.str fmt) names fmt n r rfl rfl
  have hspec := C11_matches_spec name fmt
  cases hf : formatName name fmt with
  | error e => rw [h0.2.1 name e h1 hn hf] at h; cases h
  | ok p =>
    obtain ⟨out, tooMany⟩ := p
    rw [h0.1 name out tooMany h1 hn hf] at h
    rw [hf] at hspec
    exact ⟨out, by cases h; rfl, hspec⟩

theorem C03_builtin_format_name_spec_nonvacuous :
    (splitNameList "Doe, John and Roe, Jane".toList)[((2 : Int) - 1).toNat]? = some "Roe, Jane".toList ∧
    Spec.formatName "Roe, Jane".toList "{ff }{ll}".toList = .ok "Jane Roe".toList := by
  decide +kernel

/-- with C19: a buffered text of at most 79 characters is emitted as one line, right-stripped -/
theorem C03_builtin_newline_short (f : Nat) (s : St) (h : (s.buffer.flatten.length : Int) ≤ 79) :
    runBuiltin (f+1) .newline s = .ok { s with lines := s.lines ++ [rstrip s.buffer.flatten, ['\n']], buffer := [],
                                                trace := s.trace ++ [.newline] } := by
  rw [C03_builtin_newline]
  have := (C19_short_identity 79 [' ', ' '] s.buffer.flatten h).2
  unfold Wrap.wrapDefault
  rw [this]

theorem C03_builtin_newline_short_nonvacuous :
    ((["ab ".toList, "c  ".toList].flatten.length : Nat) : Int) ≤ 79 ∧
    Wrap.wrapDefault ["ab ".toList, "c  ".toList].flatten = "ab c".toList := by
  decide +kernel

/-! ### the table of the stack-only built-ins -/

/-- Summary of the theorems above for the built-ins that only transform the stack: whenever the
documented table `Doc` (in `Spec/BstSem.lean`) says that `b` turns the operands `args` into
`res`, a call of `b` on a stack that starts with `args` replaces them by `res` and changes
nothing else — for every state, every rest of the stack and every amount of fuel. -/
theorem C03_builtin_table (f : Nat) (s : St) (b : Builtin) (args res r : List Val) (h : Doc b args res) :
    runBuiltin (f+1) b { s with stack := args ++ r } = .ok { s with stack := res ++ r } := by
  cases h with
  | plus a b => exact (C03_builtin_plus f s a b r).1
  | minus a b => exact (C03_builtin_minus f s a b r).1
  | concat hx hy => exact (C03_builtin_concat f s _ _ _ _ r hx hy).1
  | gt a b => exact (C03_builtin_gt_lt f s a b r).1
  | lt a b => exact (C03_builtin_gt_lt f s a b r).2.1
  | eqInt a b => exact (C03_builtin_eq f s r).1 a b
  | eqStr hx hy => exact (C03_builtin_eq f s r).2.1 _ _ _ _ hx hy
  | duplicate v => rfl
  | pop v => rfl
  | swap v w => rfl
  | skip => rfl
  | quote => rfl
  | empty hx => exact (C03_builtin_empty f s _ _ r hx).1
  | missingYes m => rfl
  | missingNo hv => exact (C03_builtin_missing f s r).2.1 _ hv
  | chrToInt c => rfl
  | intToChr h0 h1 hs => exact ((C03_builtin_int_to_chr f s _ r).1 ⟨h0, h1⟩ hs).1
  | intToStr n => rfl
  | substring start len hx => exact (C03_builtin_substring f s _ _ start len r hx).1
  | textLength hx hn => have := (C03_builtin_text_length f s _ _ r hx).1; rw [hn] at this; exact this
  | textPrefix n hx hp => have := (C03_builtin_text_prefix f s _ _ n r hx).1; rw [hp] at this; exact this
  | purify hx hp => have := (C03_builtin_purify_width_num_names f s _ _ r hx).1; rw [hp] at this; exact this
  | width hx hw => have := (C03_builtin_purify_width_num_names f s _ _ r hx).2.1; rw [hw] at this; exact this
  | numNames hx => exact (C03_builtin_purify_width_num_names f s _ _ r hx).2.2.1
  | changeCase hm hx hmd hy =>
    have := (C03_builtin_change_case f s _ _ _ r hx).1 _ _ _ hm hmd
    rw [hy] at this; exact this
  | addPeriod x => rfl
  | addPeriodMissing m => rfl
  | formatName hn hf h1 hnm hfm =>
    have := (C03_builtin_format_name f s _ _ _ _ _ r hn hf).1 _ _ _ h1 hnm hfm
    exact this

/-- the table is inhabited for each kind of row (instances by evaluation are the
`C03_builtin_*_nonvacuous` theorems) -/
theorem C03_builtin_table_nonvacuous :
    Doc .plus [.int 2, .int 1] [.int (1 + 2)] ∧ Doc .swap [.int 1, .str []] [.str [], .int 1] ∧
    Doc .substring [.int 3, .int 2, .str "ab{c}d".toList] [.str (Spec.substring "ab{c}d".toList 2 3)] ∧
    Doc .textLength [.str "ab{c}d".toList] [.int (4 : Nat)] :=
  ⟨.plus 1 2, .swap _ _, .substring 2 3 rfl, .textLength rfl (by decide +kernel)⟩

/-- If a run with fuel `n` has finished (with a state or with an error other than "out of
fuel"), every larger amount of fuel gives the same result — for all six mutually recursive
functions of the interpreter. -/
theorem C03_fuel_mono (n m : Nat) (h : n ≤ m) :
    (∀ v s, Finished (execVal n v s) → execVal m v s = execVal n v s) ∧
    (∀ o s, Finished (execObj n o s) → execObj m o s = execObj n o s) ∧
    (∀ t s, Finished (execTok n t s) → execTok m t s = execTok n t s) ∧
    (∀ b s, Finished (execBody n b s) → execBody m b s = execBody n b s) ∧
    (∀ p f s, Finished (whileLoop n p f s) → whileLoop m p f s = whileLoop n p f s) ∧
    (∀ b s, Finished (runBuiltin n b s) → runBuiltin m b s = runBuiltin n b s) :=
  fuel_mono_all n m h

/-- the hypothesis of `C03_fuel_mono` is satisfiable: `#1 #2 +` finishes with fuel 6 (and does
not with fuel 5) -/
theorem C03_fuel_mono_nonvacuous :
    (execBody 6 [.int 1, .int 2, .name "+".toList] { vars := initVars }).toOption.map (·.stack.length) = some 1 ∧
    (execBody 5 [.int 1, .int 2, .name "+".toList] { vars := initVars }).toOption.map (·.stack.length) = none := by
  decide +kernel

/-- The result of a run does not depend on the fuel: two finished runs of the same code from the
same state agree (the interpreter is a function; so is the language). -/
theorem C03_deterministic :
    (∀ v s s1 s2, EvalVal v s s1 → EvalVal v s s2 → s1 = s2) ∧
    (∀ o s s1 s2, EvalObj o s s1 → EvalObj o s s2 → s1 = s2) ∧
    (∀ b s s1 s2, EvalBody b s s1 → EvalBody b s s2 → s1 = s2) ∧
    (∀ p f s s1 s2, EvalWhile p f s s1 → EvalWhile p f s s2 → s1 = s2) ∧
    (∀ b s s1 s2, EvalBuiltin b s s1 → EvalBuiltin b s s2 → s1 = s2) ∧
    (∀ n m b s r1 r2, execBody n b s = r1 → execBody m b s = r2 → Finished r1 → Finished r2 → r1 = r2) := by
  refine ⟨?_, ?_, ?_, ?_, ?_, ?_⟩
  · rintro v s s1 s2 ⟨n, h1⟩ ⟨m, h2⟩
    exact Except.ok.inj ((evalVal_mono h1 (Nat.le_max_left n m)).symm.trans (evalVal_mono h2 (Nat.le_max_right n m)))
  · rintro v s s1 s2 ⟨n, h1⟩ ⟨m, h2⟩
    exact Except.ok.inj ((evalObj_mono h1 (Nat.le_max_left n m)).symm.trans (evalObj_mono h2 (Nat.le_max_right n m)))
  · rintro v s s1 s2 ⟨n, h1⟩ ⟨m, h2⟩
    exact Except.ok.inj ((evalBody_mono h1 (Nat.le_max_left n m)).symm.trans (evalBody_mono h2 (Nat.le_max_right n m)))
  · rintro p f s s1 s2 ⟨n, h1⟩ ⟨m, h2⟩
    exact Except.ok.inj ((evalWhile_mono h1 (Nat.le_max_left n m)).symm.trans (evalWhile_mono h2 (Nat.le_max_right n m)))
  · rintro v s s1 s2 ⟨n, h1⟩ ⟨m, h2⟩
    exact Except.ok.inj ((evalBuiltin_mono h1 (Nat.le_max_left n m)).symm.trans (evalBuiltin_mono h2 (Nat.le_max_right n m)))
  · rintro n m b s r1 r2 rfl rfl h1 h2
    rw [← (fuel_mono_all n (max n m) (Nat.le_max_left n m)).2.2.2.1 b s h1,
        ← (fuel_mono_all m (max n m) (Nat.le_max_right n m)).2.2.2.1 b s h2]

/-- `p f while$`: "execute `p`; pop an integer; if it is `≤ 0` stop, else execute `f` and
repeat".  (1) the one-step equation with explicit fuel, (2) the fuel-free unfolding law. -/
theorem C03_while_unfold (p f : Val) :
    (∀ n (s : St) r, runBuiltin (n+1) .while_ { s with stack := f :: p :: r } = whileLoop n p f { s with stack := r }) ∧
    (∀ n s, whileLoop (n+1) p f s =
      match execVal n p s with
      | .error e => .error e
      | .ok s1 =>
        match popInt s1 with
        | .error e => .error e
        | .ok (k, s2) =>
          if k ≤ 0 then .ok s2
          else match execVal n f s2 with
            | .error e => .error e
            | .ok s3 => whileLoop n p f s3) ∧
    (∀ (s : St) s' r, EvalBuiltin .while_ { s with stack := f :: p :: r } s' ↔ EvalWhile p f { s with stack := r } s') ∧
    (∀ s s', EvalWhile p f s s' ↔
      ∃ s1 k s2, EvalVal p s s1 ∧ popInt s1 = .ok (k, s2) ∧
        ((k ≤ 0 ∧ s' = s2) ∨ (0 < k ∧ ∃ s3, EvalVal f s2 s3 ∧ EvalWhile p f s3 s'))) ∧
    (∀ n (s : St) (vs : List Val), vs.length < 2 → runBuiltin (n+1) .while_ { s with stack := vs } = emptyStack) :=
  ⟨fun _ _ _ => rfl, fun _ _ => rfl, evalBuiltin_while p f, evalWhile_unfold p f,
   fun n s vs h => C03_builtin_short_stack n s .while_ vs h⟩

/-! ## 3. Literals, variables, `ITERATE` and `REVERSE` -/

/-- the elements of a function body: an integer / string literal pushes itself, `{ … }` pushes
the function, `'name` pushes (a reference to) the variable object — `BibTeXError` if the name is
undefined —, a name is executed — `BibTeXError` if undefined -/
theorem C03_exec_literals (f : Nat) (s : St) :
    (∀ n, execTok (f+1) (.int n) s = .ok { s with stack := .int n :: s.stack }) ∧
    (∀ x, execTok (f+1) (.str x) s = .ok { s with stack := .str x :: s.stack }) ∧
    (∀ b, execTok (f+1) (.fn b) s = .ok { s with stack := .fn b :: s.stack }) ∧
    (∀ n, s.vars.contains n = true → execTok (f+1) (.quoted n) s = .ok { s with stack := .ref n :: s.stack }) ∧
    (∀ n, s.vars.contains n = false → execTok (f+1) (.quoted n) s = .error (.bibtex "can not push undefined variable")) ∧
    (∀ n o, s.vars.getItem n = some o → execTok (f+1) (.name n) s = execObj f o s) ∧
    (∀ n, s.vars.getItem n = none → execTok (f+1) (.name n) s = .error (.bibtex "can not execute undefined function")) ∧
    (∀ t ts, execBody (f+1) (t :: ts) s =
      match execTok f t s with | .error e => .error e | .ok s1 => execBody f ts s1) ∧
    execBody (f+1) [] s = .ok s := by
  refine ⟨fun _ => rfl, fun _ => rfl, fun _ => rfl, ?_, ?_, ?_, ?_, fun _ _ => rfl, rfl⟩
  · intro n h; simp only [execTok, h, if_true, push]
  · intro n h; simp only [execTok, h, Bool.false_eq_true, if_false]
  · intro n o h; simp only [execTok, h]
  · intro n h; simp only [execTok, h]

/-- executing a name: a global variable pushes its value; an entry variable pushes the value in
the frame of the current entry, `0` / `""` if it was never assigned there; a field pushes the
field value (C14) or a missing-field value; a function executes its body; a built-in runs -/
theorem C03_exec_variable (f : Nat) (s : St) :
    (∀ n, execObj (f+1) (.gint n) s = .ok { s with stack := .int n :: s.stack }) ∧
    (∀ v, execObj (f+1) (.gstr v) s = .ok { s with stack := v :: s.stack }) ∧
    (∀ k n v, s.cur = some k → dget (frameOf s k) n = some v →
      execObj (f+1) (.eint n) s = .ok { s with stack := v :: s.stack } ∧
      execObj (f+1) (.estr n) s = .ok { s with stack := v :: s.stack }) ∧
    (∀ k n, s.cur = some k → dget (frameOf s k) n = none →
      execObj (f+1) (.eint n) s = .ok { s with stack := .int 0 :: s.stack } ∧
      execObj (f+1) (.estr n) s = .ok { s with stack := .str [] :: s.stack }) ∧
    (∀ k e db n, s.cur = some k → s.db = some db → db.entries.getItem k = some e →
      execObj (f+1) (.field n) s = .ok { s with stack :=
        (match bstFieldValue db e n with | .str v => Val.str v | .missing m => Val.missing m) :: s.stack }) ∧
    (∀ b, execObj (f+1) (.func b) s = execBody f b s) ∧
    (∀ b, execObj (f+1) (.builtin b) s = runBuiltin f b s) := by
  refine ⟨fun _ => rfl, fun _ => rfl, ?_, ?_, ?_, fun _ => rfl, fun _ => rfl⟩
  · intro k n v hk hv; constructor <;> simp only [execObj, hk, hv, push]
  · intro k n hk hv; constructor <;> simp only [execObj, hk, hv, push]
  · intro k e db n hk hdb he; simp only [execObj, curEntry, hk, hdb, he, push]; rfl

/-- `ITERATE {f}` is the left fold of "make the entry current; execute `f`; no entry is current"
over the citation list in order (stopping at the first error); `f` is looked up once, before the
first entry.
`Ready s`: the database has been read and holds the cited entries (`C03_ready`). -/
theorem C03_iterate_order (fuel : Nat) (inp : Input) (c : Command) (s : St) (t : BTok) (ts : List BTok)
    (f : Str) (o : VarObj) (hc : upper c.name = "ITERATE".toList) (hg : c.groups = [t :: ts])
    (ht : tokName t = .ok f) (ho : s.vars.getItem f = some o) (hr : Ready s) :
    runCommand fuel inp c s = foldEntries (execObj fuel o) s.citations s := by
  obtain ⟨db, hdb, hk⟩ := hr
  rw [runCommand_iterate fuel inp c s t ts f o hc hg ht ho]
  exact iterate_eq_fold fuel o db s.citations s hdb hk

/-- `REVERSE {f}`: the same fold over the reversed citation list -/
theorem C03_reverse_order (fuel : Nat) (inp : Input) (c : Command) (s : St) (t : BTok) (ts : List BTok)
    (f : Str) (o : VarObj) (hc : upper c.name = "REVERSE".toList) (hg : c.groups = [t :: ts])
    (ht : tokName t = .ok f) (ho : s.vars.getItem f = some o) (hr : Ready s) :
    runCommand fuel inp c s = foldEntries (execObj fuel o) s.citations.reverse s := by
  obtain ⟨db, hdb, hk⟩ := hr
  rw [runCommand_reverse fuel inp c s t ts f o hc hg ht ho]
  exact iterate_eq_fold fuel o db s.citations.reverse s hdb (fun k hk' => hk k (List.mem_reverse.1 hk'))

/-- `READ` establishes `Ready` (database present, every citation in it: missing ones are
reported and dropped), every command preserves it, and `READ` touches neither variables nor
entry variables nor the output. -/
theorem C03_ready (fuel : Nat) (inp : Input) (c : Command) (s s' : St) (h : runCommand fuel inp c s = .ok s') :
    (upper c.name = "READ".toList → Ready s' ∧ s'.vars = s.vars ∧ s'.macros = s.macros ∧
        s'.entryVars = s.entryVars ∧ s'.stack = s.stack ∧ s'.lines = s.lines ∧ s'.buffer = s.buffer) ∧
    (Ready s → Ready s') := by
  refine ⟨fun hc => ?_, fun hr => ready_preserved fuel inp c s s' hr h⟩
  obtain ⟨a, b, c', d, e, f', g, _⟩ := runCommand_read fuel inp c s s' hc h
  exact ⟨a, b, c', d, e, f', g⟩

/-- `EXECUTE {f}` executes `f` once, outside any entry -/
theorem C03_execute (fuel : Nat) (inp : Input) (c : Command) (s : St) (t : BTok) (ts : List BTok)
    (hc : upper c.name = "EXECUTE".toList) (hg : c.groups = [t :: ts]) :
    runCommand fuel inp c s = execTok fuel t s :=
  runCommand_execute fuel inp c s t ts hc hg

/-! ## 4. `SORT` -/

/-- `<` / `>` / `SORT` compare strings by code-point lexicographic order, a strict total order -/
theorem C03_strLt_spec (a b c : Str) :
    (strLt a b = true ↔ LexLt a b) ∧ ¬ LexLt a a ∧ (LexLt a b → LexLt b c → LexLt a c) ∧
    (LexLt a b ∨ a = b ∨ LexLt b a) := by
  simp only [← strLt_iff_lexLt]
  refine ⟨trivial, by rw [strLt_irrefl]; exact Bool.false_ne_true, strLt_trans, strLt_total a b⟩

/-- After `SORT` the citation list is a permutation of the old one, non-decreasing in the
entries' `sort.key$` (code-point lexicographic order; a never-assigned key counts as the empty
string), and entries with equal keys keep their relative order (stable); nothing else changes.
`SORT` succeeds whenever no `sort.key$` holds a non-string (which `:=` never stores). -/
theorem C03_sort (fuel : Nat) (inp : Input) (c : Command) (s : St) (hc : upper c.name = "SORT".toList) :
    (∀ s', runCommand fuel inp c s = .ok s' →
      s' = { s with citations := s'.citations } ∧
      s'.citations.Perm s.citations ∧
      SortedBy (sortKey s) s'.citations ∧
      StableWrt (sortKey s) s.citations s'.citations) ∧
    ((∀ k ∈ s.citations, ∀ v, dget (frameOf s k) "sort.key$".toList = some v → isStr v = true) →
      ∃ s', runCommand fuel inp c s = .ok s') := by
  rw [runCommand_sort fuel inp c s hc]
  constructor
  · intro s' h
    split at h
    · cases h
    · rename_i l hl
      cases h
      obtain ⟨h1, h2, h3⟩ := sort_spec s l hl
      exact ⟨rfl, h1, h2, h3⟩
  · intro h
    obtain ⟨l, hl⟩ := mapM_sortPair_isSome s s.citations h
    rw [hl]; exact ⟨_, rfl⟩

/-- sortedness + stability determine the result: any two lists that are sorted and stable with
respect to the same list are equal (so `C03_sort` pins the citation list after `SORT`) -/
theorem C03_sort_unique (key : Str → Str) (l l1 l2 : List Str)
    (h1 : SortedBy key l1) (h2 : SortedBy key l2) (s1 : StableWrt key l l1) (s2 : StableWrt key l l2) : l1 = l2 :=
  sorted_stable_unique key l1 l2 h1 h2 (fun k => (s1 k).trans (s2 k).symm)

/-! ## 5. Scoping, declarations, output -/

/-- **Scoping.**  Whatever code is executed (function values, variables, bodies, `while$` loops,
built-ins — all six mutually recursive functions of the interpreter), from `s` to `s'`:
`Frame s s'` — the current entry, database, citation list, macros and preamble are untouched;
the entry variables of every entry other than the current one are untouched; every name keeps
its object in the variable table except that the value of a global integer / string variable
may change (global variables persist; functions, fields and built-ins are never redefined);
output happens only through write/newline events; reports and print-outs are only appended. -/
theorem C03_scoping (n : Nat) :
    (∀ v s s', execVal n v s = .ok s' → Frame s s') ∧
    (∀ o s s', execObj n o s = .ok s' → Frame s s') ∧
    (∀ t s s', execTok n t s = .ok s' → Frame s s') ∧
    (∀ b s s', execBody n b s = .ok s' → Frame s s') ∧
    (∀ p f s s', whileLoop n p f s = .ok s' → Frame s s') ∧
    (∀ b s s', runBuiltin n b s = .ok s' → Frame s s') :=
  exec_frame n

/-- the entry-variable store: an assignment for entry `k` is read back for `k`, and changes
neither another variable of `k` nor any variable of another entry -/
theorem C03_scoping_entry_store (s : St) (k n : Str) (v : Val) :
    dget (frameOf (setEntryVar s k n v) k) n = some v ∧
    (∀ n', n' ≠ n → dget (frameOf (setEntryVar s k n v) k) n' = dget (frameOf s k) n') ∧
    (∀ k', k' ≠ k → frameOf (setEntryVar s k n v) k' = frameOf s k') ∧
    setEntryVar s k n v = { s with entryVars := (setEntryVar s k n v).entryVars } := by
  refine ⟨?_, ?_, ?_, rfl⟩
  · show dget (match dget (dset s.entryVars k _) k with | some f => f | none => []) n = _
    rw [dget_dset_same]; exact dget_dset_same _ _ _
  · intro n' hn
    show dget (match dget (dset s.entryVars k _) k with | some f => f | none => []) n' = _
    rw [dget_dset_same]; exact dget_dset_ne _ _ _ _ hn
  · intro k' hk
    show (match dget (dset s.entryVars k _) k' with | some f => f | none => []) = _
    rw [dget_dset_ne _ _ _ _ hk]; rfl

/-- only `:=` touches variables: every other built-in that does not execute code leaves the
variable table and all entry variables exactly as they are; and `:=` on a global variable
`name` (`C03_builtin_assign_global_int/str`: the table becomes `setItem name v`) changes the
binding of that name (up to case) only -/
theorem C03_scoping_only_assign (f : Nat) (b : Builtin) (s s' : St) :
    (b ≠ .callType ∧ b ≠ .if_ ∧ b ≠ .while_ ∧ b ≠ .assign → runBuiltin (f+1) b s = .ok s' →
      s'.vars = s.vars ∧ s'.entryVars = s.entryVars) ∧
    (∀ name v, (s.vars.setItem name v).getItem name = some v ∧
      ∀ m, lower m ≠ lower name → (s.vars.setItem name v).getItem m = s.vars.getItem m) :=
  ⟨fun hb h => prim_sameVars f b s s' hb h,
   fun _ _ => ⟨getItem_setItem_same _ _ _, fun _ hm => getItem_setItem_ne _ _ _ _ hm⟩⟩

/-- a whole `ITERATE` / `REVERSE` round: the database, citation list, macros and preamble are
untouched, variables persist, and the entry variables of entries that are not in the list are
untouched -/
theorem C03_scoping_iterate (fuel : Nat) (o : VarObj) (ks : List Str) (s s' : St) (h : iterate fuel o ks s = .ok s') :
    s'.db = s.db ∧ s'.citations = s.citations ∧ s'.macros = s.macros ∧ s'.preamble = s.preamble ∧
    VarsPersist s.vars s'.vars ∧ (∀ k, k ∉ ks → dget s'.entryVars k = dget s.entryVars k) := by
  obtain ⟨a1, a2, a3, a4, a5, a6, _⟩ := iterate_frame fuel o ks s s' h
  exact ⟨a1, a2, a3, a4, a5, a6⟩

/-- every command: output only through write/newline events, reports and print-outs only
appended, and — for every command but `READ` — the database is kept and the citation list is
kept up to order; the variable table is changed by the declaring commands only (and, in the
values of global variables, by executed code: `C03_scoping`) -/
theorem C03_scoping_commands (fuel : Nat) (inp : Input) (c : Command) (s s' : St) (h : runCommand fuel inp c s = .ok s') :
    CmdFrame c s s' ∧
    (upper c.name = "SORT".toList ∨ upper c.name = "READ".toList ∨ upper c.name = "MACRO".toList → s'.vars = s.vars) ∧
    (upper c.name = "ITERATE".toList ∨ upper c.name = "REVERSE".toList ∨ upper c.name = "EXECUTE".toList →
      VarsPersist s.vars s'.vars) := by
  refine ⟨runCommand_frame fuel inp c s s' h, ?_, ?_⟩
  · exact runCommand_vars_same fuel inp c s s' h
  · exact runCommand_vars_persist fuel inp c s s' h

/-- `ENTRY {fields} {ints} {strings}` declares exactly: each field name as a field, `crossref`,
each integer name as an entry integer variable, each string name as an entry string variable —
every other name is bound as before, nothing else changes — provided none of these names is
declared yet and no two are equal up to case; otherwise it is a `BibTeXError`. -/
theorem C03_declare_entry (fuel : Nat) (inp : Input) (c : Command) (s : St) (fields ints strings : List Str)
    (hc : upper c.name = "ENTRY".toList)
    (hg : c.groups = [fields.map .name, ints.map .name, strings.map .name]) :
    (Fresh (fields ++ ["crossref".toList] ++ ints ++ strings) s →
      ∃ s', runCommand fuel inp c s = .ok s' ∧ Declares (entryDecls fields ints strings) s s') ∧
    (¬ Fresh (fields ++ ["crossref".toList] ++ ints ++ strings) s →
      runCommand fuel inp c s = .error (.bibtex "variable already declared")) := by
  rw [runCommand_entry fuel inp c s _ _ _ hc hg]
  have h := declStep_entry fields ints strings s
  have e : (entryDecls fields ints strings).map (·.1) = fields ++ ["crossref".toList] ++ ints ++ strings := by
    simp [entryDecls, List.map_append, List.map_map, Function.comp_def]
  rw [e] at h
  exact ⟨fun hf => let ⟨s', h1, h2, _⟩ := h.1 hf; ⟨s', h1, h2⟩, h.2⟩

/-- `FUNCTION {name} {body}` binds `name` to the function; re-declaring any name (a built-in, a
field, a variable, another function) is a `BibTeXError` -/
theorem C03_declare_function (fuel : Nat) (inp : Input) (c : Command) (s : St) (n : Str) (ts body : List BTok)
    (hc : upper c.name = "FUNCTION".toList) (hg : c.groups = [.name n :: ts, body]) :
    (s.vars.contains n = false →
      runCommand fuel inp c s = .ok { s with vars := s.vars.setItem n (.func body) } ∧
      Declares [(n, .func body)] s { s with vars := s.vars.setItem n (.func body) }) ∧
    (s.vars.contains n = true → runCommand fuel inp c s = .error (.bibtex "variable already declared")) := by
  rw [runCommand_function fuel inp c s n ts body hc hg]
  exact ⟨fun h => ⟨addVariable_ok s n _ h, declares_add s n _⟩, fun h => addVariable_dup s n _ h⟩

/-- `INTEGERS {names}` / `STRINGS {names}` bind each name to a fresh global variable with value
`0` / `""` — also a name that is already declared (the pinned code overwrites) -/
theorem C03_declare_globals (fuel : Nat) (inp : Input) (c : Command) (s : St) (ns : List Str)
    (hg : c.groups = [ns.map .name]) :
    (upper c.name = "INTEGERS".toList →
      ∃ s', runCommand fuel inp c s = .ok s' ∧ Declares (ns.map fun n => (n, .gint 0)) s s') ∧
    (upper c.name = "STRINGS".toList →
      ∃ s', runCommand fuel inp c s = .ok s' ∧ Declares (ns.map fun n => (n, .gstr (.str []))) s s') := by
  constructor
  · intro hc; rw [runCommand_integers fuel inp c s _ hc hg]; exact overwrite_spec _ ns s
  · intro hc; rw [runCommand_strings fuel inp c s _ hc hg]; exact overwrite_spec _ ns s

/-- `MACRO {name} {"text"}` defines the macro for the `.bib` reader (last definition wins) and
changes nothing else -/
theorem C03_declare_macro (fuel : Nat) (inp : Input) (c : Command) (s : St) (n v : BTok) (ns vs : List BTok)
    (name value : Str) (hc : upper c.name = "MACRO".toList) (hg : c.groups = [n :: ns, v :: vs])
    (hn : tokName n = .ok name) (hv : tokName v = .ok value) :
    runCommand fuel inp c s = .ok { s with macros := dset s.macros name value } ∧
    dget (dset s.macros name value) name = some value ∧
    (∀ m, m ≠ name → dget (dset s.macros name value) m = dget s.macros m) :=
  ⟨runCommand_macro fuel inp c s n v ns vs name value hc hg hn hv, dget_dset_same _ _ _,
   fun _ hm => dget_dset_ne _ _ _ _ hm⟩

/-- **Output.**  The `.bbl` text returned by `run` is the concatenation of the emitted lines, and
it is `render [] s.trace` for the trace `s.trace` of the run: the list of the `write$` /
`newline$` calls that were executed, in order, each `write$` with the text it was given
(`C03_builtin_write` and `C03_builtin_newline` append exactly their own event, nothing else touches
the trace: `C03_trace`).  So each `newline$` contributes `wrap(text written since the previous
newline$) ++ "\n"`, and what is written after the last `newline$` is discarded. -/
theorem C03_output (fuel : Nat) (prog : Program) (inp : Input) (out : Output) (h : run fuel prog inp = .ok out) :
    ∃ s, runProgram fuel inp prog { vars := initVars, citations := inp.citations } = .ok s ∧
      out.bbl = s.lines.flatten ∧ out.reports = s.reports ∧ out.printed = s.printed ∧
      (s.lines, s.buffer) = s.trace.foldl emit ([], []) ∧
      out.bbl = render [] s.trace := by
  unfold run at h
  split at h
  · cases h
  · rename_i s hs
    cases h
    obtain ⟨⟨evs, ht, he⟩, _, _⟩ := runProgram_frame fuel inp prog _ s hs
    have ht' : s.trace = evs := by rw [ht]; rfl
    subst ht'
    refine ⟨s, hs, rfl, rfl, rfl, he, ?_⟩
    have := render_spec s.trace [] []
    rw [← he] at this
    simpa using this

/-- the event semantics of the output, unfolded: how `render` treats each event, and what a run
of events does to the emitted lines -/
theorem C03_output_render (pending x : Str) (evs : List OutEv) (ls buf : List Str) :
    render pending [] = [] ∧
    render pending (.write x :: evs) = render (pending ++ x) evs ∧
    render pending (.newline :: evs) = Wrap.wrapDefault pending ++ '\n' :: render [] evs ∧
    (evs.foldl emit (ls, buf)).1.flatten = ls.flatten ++ render buf.flatten evs :=
  ⟨rfl, rfl, rfl, render_spec evs ls buf⟩

/-- only `write$` and `newline$` touch the output: every other built-in that does not execute
code leaves the emitted lines and the buffer as they are -/
theorem C03_output_only_write_newline (f : Nat) (b : Builtin) (s s' : St)
    (hb : b ≠ .callType ∧ b ≠ .if_ ∧ b ≠ .while_ ∧ b ≠ .write ∧ b ≠ .newline)
    (h : runBuiltin (f+1) b s = .ok s') : s'.lines = s.lines ∧ s'.buffer = s.buffer :=
  ⟨(prim_sameOut f b s s' hb h).1, (prim_sameOut f b s s' hb h).2.1⟩

/-! ## Non-vacuity: concrete instances, by evaluation -/

private def exEntry (k ty title : String) : Pybtex.Entry :=
  { key := k.toList, type := ty.toList, fields := CIDict.ofPairs [("title".toList, title.toList)], persons := CIDict.empty }

private def exDb : BibData :=
  { entries := CIDict.ofPairs [("k1".toList, exEntry "k1" "article" "Zeta"), ("k2".toList, exEntry "k2" "book" "Alpha"),
                               ("k3".toList, exEntry "k3" "misc" "Alpha")],
    wanted := none, citations := CISet.empty }

/-- the functions of a small style -/
private def exFuns : List (String × List BTok) :=
  [("article", [.str "A:".toList, .name "cite$".toList, .name "*".toList, .name "write$".toList, .name "newline$".toList]),
   ("presort", [.name "title".toList, .quoted "sort.key$".toList, .name ":=".toList]),
   ("main", [.name "call.type$".toList])]

/-- the declarations of that style as commands -/
private def exDecls : Program :=
  [⟨"ENTRY".toList, [[.name "title".toList], [.name "n".toList], [.name "lab".toList]]⟩,
   ⟨"INTEGERS".toList, [[.name "gi".toList]]⟩,
   ⟨"strings".toList, [[.name "gs".toList]]⟩] ++
  exFuns.map fun p => ⟨"FUNCTION".toList, [[.name p.1.toList], p.2]⟩

private def exInp : Input := { bibTexts := [], citations := [] }

/-- The variable table of the examples: what `exDecls` declares, and (to keep kernel evaluation
cheap) only the built-ins the examples use instead of all of `initVars`; the examples
`C03_ready_nonvacuous` and `C03_output_nonvacuous` run from the real initial table. -/
private def exVars : CIDict VarObj :=
  CIDict.ofPairs (
    ([("*", .mul), (":=", .assign), (">", .gt), ("-", .minus), ("cite$", .cite), ("write$", .write),
      ("newline$", .newline), ("call.type$", .callType), ("while$", .while_), ("if$", .if_), ("quote$", .quote)].map
        fun (p : String × Builtin) => (p.1.toList, VarObj.builtin p.2)) ++
    [("sort.key$".toList, .estr "sort.key$".toList), ("title".toList, .field "title".toList), ("crossref".toList, .crossref),
     ("n".toList, .eint "n".toList), ("lab".toList, .estr "lab".toList), ("gi".toList, .gint 0), ("gs".toList, .gstr (.str []))] ++
    exFuns.map fun p => (p.1.toList, VarObj.func p.2))

private def exSt : St :=
  { vars := exVars, db := some exDb, citations := ["k1".toList, "k2".toList, "k3".toList], cur := some "k1".toList }

/-- observable summary of a result: the stack (as printed), buffer and emitted lines -/
private def obs (r : Except IErr St) : Option (List Str × List Str × List Str) :=
  r.toOption.map fun s => (s.stack.map shown, s.buffer, s.lines)


/-- a state without variables, for calling a built-in directly on a stack -/
private def stk (vs : List Val) : St := { vars := CIDict.empty, stack := vs }

/-- the top of the resulting stack, as printed -/
private def top1 (r : Except IErr St) : Option Str := r.toOption.bind fun s => s.stack.head?.map shown

private def S (x : String) : Val := .str x.toList
private def T (x : String) : BTok := .name x.toList
private def Q (x : String) : BTok := .quoted x.toList
private def TS (x : String) : BTok := .str x.toList
private def L (xs : List String) : List Str := xs.map String.toList

theorem C03_builtin_concat_nonvacuous :
    valToStr (S "ab") = some "ab".toList ∧ valToStr (.missing "note".toList) = some [] ∧
    top1 (runBuiltin 1 .mul (stk [.missing "note".toList, S "ab"])) = some "ab".toList := by
  decide +kernel

theorem C03_builtin_gt_lt_str_nonvacuous :
    top1 (runBuiltin 1 .gt (stk [S "b", S "a"])) = some "0".toList ∧
    top1 (runBuiltin 1 .lt (stk [S "b", S "a"])) = some "1".toList := by
  decide +kernel

theorem C03_builtin_assign_global_int_nonvacuous :
    (match exSt.vars.getItem "gi".toList with | some (.gint 0) => true | _ => false) = true ∧
    obs (execBody 50 [.int 7, Q "gi", T ":=", T "gi"] exSt) = some (L ["7"], [], []) := by
  decide +kernel

theorem C03_builtin_assign_global_str_nonvacuous :
    (match exSt.vars.getItem "GS".toList with | some (.gstr (.str [])) => true | _ => false) = true ∧
    obs (execBody 50 [TS "v", Q "gs", T ":=", T "gs"] exSt) = some (L ["v"], [], []) := by
  decide +kernel

/-- `#3 'n := "x" 'lab :=` for entry `k1`: read back for `k1`, invisible for `k2` -/
theorem C03_builtin_assign_entry_int_nonvacuous :
    (match exSt.vars.getItem "n".toList with | some (.eint _) => true | _ => false) = true ∧ exSt.cur = some "k1".toList ∧
    ((execBody 50 [.int 3, Q "n", T ":=", TS "x", Q "lab", T ":="] exSt).toOption.map fun s =>
      ((dget (frameOf s "k1".toList) "n".toList).map shown, (dget (frameOf s "k1".toList) "lab".toList).map shown,
       (dget (frameOf s "k2".toList) "n".toList).map shown)) = some (some "3".toList, some "x".toList, none) := by
  decide +kernel

theorem C03_builtin_assign_entry_str_nonvacuous :
    (match exSt.vars.getItem "lab".toList with | some (.estr _) => true | _ => false) = true ∧
    (match exSt.vars.getItem "sort.key$".toList with | some (.estr _) => true | _ => false) = true := by
  decide +kernel

theorem C03_builtin_empty_nonvacuous :
    top1 (runBuiltin 1 .empty (stk [S "  "])) = some "1".toList ∧
    top1 (runBuiltin 1 .empty (stk [S "a"])) = some "0".toList ∧
    top1 (runBuiltin 1 .empty (stk [.missing "note".toList])) = some "1".toList := by
  decide +kernel

theorem C03_builtin_write_nonvacuous :
    (runBuiltin 1 .write { stk [S "cd"] with buffer := L ["ab"] }).toOption.map (·.buffer) = some (L ["ab", "cd"]) := by
  decide +kernel

theorem C03_builtin_substring_nonvacuous :
    top1 (runBuiltin 1 .substring (stk [.int 3, .int 2, S "ab{c}d"])) = some "b{c".toList ∧
    top1 (runBuiltin 1 .substring (stk [.int 2, .int (-1), S "ab{c}d"])) = some "}d".toList := by
  decide +kernel

theorem C03_builtin_text_length_nonvacuous :
    top1 (runBuiltin 1 .textLength (stk [S "ab{\\'e}x"])) = some "4".toList := by
  decide +kernel

theorem C03_builtin_text_prefix_nonvacuous :
    top1 (runBuiltin 1 .textPrefix (stk [.int 3, S "ab{c}d"])) = some "ab{c}".toList := by
  decide +kernel

theorem C03_builtin_text_prefix_spec_nonvacuous :
    bibtexLen "ab{c}d".toList = some 4 ∧
    top1 (runBuiltin 1 .textPrefix (stk [.int 3, S "ab{c}d"])) = some "ab{c}".toList := by
  decide +kernel

theorem C03_builtin_purify_width_num_names_nonvacuous :
    top1 (runBuiltin 1 .purify (stk [S "a{\\'e}-b"])) = some "ae b".toList ∧
    top1 (runBuiltin 1 .width (stk [S "ab"])) = some "1056".toList ∧
    top1 (runBuiltin 1 .numNames (stk [S "A and B"])) = some "2".toList := by
  decide +kernel

theorem C03_builtin_purify_spec_nonvacuous :
    top1 (runBuiltin 1 .purify (stk [S "a{\\'e}-b"])) = some "ae b".toList := by
  decide +kernel

theorem C03_builtin_change_case_nonvacuous :
    caseModeOf (lowerC 'U') = some .u ∧ caseModeOf (lowerC 'q') = none ∧
    top1 (runBuiltin 1 .changeCase (stk [S "U", S "Ab Cd"])) = some "AB CD".toList := by
  decide +kernel

theorem C03_builtin_format_name_nonvacuous :
    top1 (runBuiltin 1 .formatName (stk [S "{ff }{ll}", .int 2, S "Doe, John and Roe, Jane"])) = some "Jane Roe".toList ∧
    ((runBuiltin 1 .formatName (stk [S "{ff }{ll}", .int 3, S "Doe, John and Roe, Jane"])).toOption.map
      fun s => (s.stack.map shown, s.reports.length)) = some (L [""], 1) := by
  decide +kernel

theorem C03_builtin_call_type_nonvacuous :
    exSt.cur = some "k1".toList ∧ (exDb.entries.getItem "k1".toList).isSome = true ∧
    obs (runBuiltin 50 .callType exSt) = some ([], [], L ["A:k1", "\n"]) ∧
    ((runBuiltin 50 .callType { exSt with cur := some "k2".toList }).toOption.map fun s => (s.lines, s.reports.length))
      = some ([], 1) := by
  decide +kernel


theorem C03_builtin_cite_type_preamble_nonvacuous :
    exSt.cur = some "k1".toList ∧
    obs (execBody 50 [T "cite$"] exSt) = some (L ["k1"], [], []) ∧
    top1 (runBuiltin 1 .type_ exSt) = some "article".toList ∧ top1 (runBuiltin 1 .preamble exSt) = some [] := by
  decide +kernel

theorem C03_deterministic_nonvacuous :
    EvalBody [.int 1, .int 2] (stk []) (stk [.int 2, .int 1]) ∧ EvalVal (.fn []) (stk []) (stk []) :=
  ⟨⟨3, rfl⟩, ⟨2, rfl⟩⟩

theorem C03_scoping_only_assign_nonvacuous :
    ((runBuiltin 1 .write { exSt with stack := [S "a"] }).toOption.map fun s => s.entryVars.length) = some 0 := by
  decide +kernel

/-- a counter-bounded loop over a global variable: three iterations -/
theorem C03_while_unfold_nonvacuous :
    obs (execBody 200 [.int 3, Q "gi", T ":=",
          .fn [T "gi", .int 0, T ">"], .fn [T "gi", .int 1, T "-", Q "gi", T ":=", TS "x", T "write$"], T "while$",
          T "gi", .int 0, .fn [TS "pos"], .fn [TS "nonpos"], T "if$"] exSt)
      = some (L ["nonpos", "0"], L ["x", "x", "x"], []) := by
  decide +kernel

private theorem exSt_ready : Ready exSt := ⟨exDb, rfl, by decide +kernel⟩

/-- `ITERATE {article}` over `k1 k2 k3`, `REVERSE {article}` over `k3 k2 k1` -/
theorem C03_iterate_order_nonvacuous :
    Ready exSt ∧ upper "iterate".toList = "ITERATE".toList ∧
    (match exSt.vars.getItem "article".toList with | some (.func _) => true | _ => false) = true ∧
    obs (runCommand 100 exInp ⟨"iterate".toList, [[T "article"]]⟩ exSt)
      = some ([], [], L ["A:k1", "\n", "A:k2", "\n", "A:k3", "\n"]) :=
  ⟨exSt_ready, by decide +kernel, by decide +kernel, by decide +kernel⟩

theorem C03_reverse_order_nonvacuous :
    Ready exSt ∧
    obs (runCommand 100 exInp ⟨"REVERSE".toList, [[T "article"]]⟩ exSt)
      = some ([], [], L ["A:k3", "\n", "A:k2", "\n", "A:k1", "\n"]) :=
  ⟨exSt_ready, by decide +kernel⟩

private def exBib : Input := { bibTexts := ["@misc{k1, title = {T}}".toList], citations := ["k1".toList, "nokey".toList] }

/-- a complete small style: declarations, a function for `misc`, `READ`, `ITERATE` -/
private def exProg : Program :=
  exDecls ++ [⟨"FUNCTION".toList, [[T "misc"], [T "title", T "write$", T "newline$", TS "lost", T "write$"]]⟩,
              ⟨"READ".toList, []⟩, ⟨"ITERATE".toList, [[T "main"]]⟩]

/-- `READ` of a one-entry database with citations `k1`, `nokey`: the missing entry is reported
and dropped -/
theorem C03_ready_nonvacuous :
    ((runCommand 10 exBib ⟨"READ".toList, []⟩ { vars := initVars, citations := exBib.citations }).toOption.map fun s =>
      (s.citations, s.reports.length, s.db.isSome)) = some (L ["k1"], 1, true) := by
  decide +kernel

theorem C03_execute_nonvacuous :
    obs (runCommand 100 exInp ⟨"EXECUTE".toList, [[T "quote$"]]⟩ exSt) = some (L ["\""], [], []) := by
  decide +kernel

/-- `ITERATE {presort}` then `SORT`: keys `Zeta`, `Alpha`, `Alpha` for `k1 k2 k3` give `k2 k3 k1`
(the two equal keys keep their order) -/
theorem C03_sort_nonvacuous :
    ((runProgram 100 exInp [⟨"ITERATE".toList, [[T "presort"]]⟩, ⟨"sort".toList, []⟩] exSt).toOption.map (·.citations))
      = some (L ["k2", "k3", "k1"]) ∧
    ((runCommand 100 exInp ⟨"SORT".toList, []⟩ exSt).toOption.map (·.citations)) = some (L ["k1", "k2", "k3"]) := by
  decide +kernel

theorem C03_sort_unique_nonvacuous :
    SortedBy id (L ["a", "a", "b"]) ∧ StableWrt id (L ["b", "a", "a"]) (L ["a", "a", "b"]) := by
  constructor
  · simp only [SortedBy, lexLt_iff]; decide +kernel
  · intro k
    by_cases h1 : ['a'] = k
    · subst h1; decide +kernel
    · by_cases h2 : ['b'] = k
      · subst h2; decide +kernel
      · simp [L, List.filter, h1, h2]

theorem C03_scoping_nonvacuous :
    (execBody 200 [.int 3, Q "n", T ":=", .int 4, Q "gi", T ":=", TS "w", T "write$", T "newline$"] exSt).toOption.isSome
      = true := by
  decide +kernel

theorem C03_scoping_iterate_nonvacuous :
    (iterate 100 (.func [TS "s", Q "lab", T ":="]) (L ["k1", "k3"]) exSt).toOption.map
      (fun s => ((dget s.entryVars "k1".toList).isSome, (dget s.entryVars "k2".toList).isSome, (dget s.entryVars "k3".toList).isSome))
      = some (true, false, true) := by
  decide +kernel

theorem C03_scoping_commands_nonvacuous :
    (runCommand 100 exInp ⟨"ITERATE".toList, [[T "presort"]]⟩ exSt).toOption.isSome = true ∧
    (runCommand 100 exInp ⟨"MACRO".toList, [[T "jan"], [TS "January"]]⟩ exSt).toOption.isSome = true := by
  decide +kernel

/-- the names of the example `ENTRY` command are fresh in the initial table; a repeated name
(up to case) is not -/
theorem C03_declare_entry_nonvacuous :
    Fresh (L ["title"] ++ ["crossref".toList] ++ L ["n"] ++ L ["lab"]) { vars := initVars } ∧
    ¬ Fresh (L ["title", "Title"] ++ ["crossref".toList] ++ [] ++ []) { vars := initVars } ∧
    ¬ Fresh (L ["skip$"] ++ ["crossref".toList] ++ [] ++ []) { vars := initVars } := by
  unfold Fresh
  decide +kernel

theorem C03_declare_function_nonvacuous :
    ({ vars := initVars } : St).vars.contains "main".toList = false ∧ exSt.vars.contains "MAIN".toList = true := by
  decide +kernel

theorem C03_declare_globals_nonvacuous :
    upper "integers".toList = "INTEGERS".toList ∧ upper "Strings".toList = "STRINGS".toList ∧
    (match (runCommand 1 exInp ⟨"INTEGERS".toList, [(L ["a", "gi"]).map .name]⟩ exSt).toOption.bind (·.vars.getItem "A".toList) with
      | some (.gint 0) => true | _ => false) = true := by
  decide +kernel

theorem C03_declare_macro_nonvacuous :
    ((runCommand 1 exInp ⟨"macro".toList, [[T "jan"], [TS "January"]]⟩ exSt).toOption.map (·.macros))
      = some [("jan".toList, "January".toList)] := by
  decide +kernel

/-- the complete example style on the one-entry database: one emitted line; the text written
after the last `newline$` is lost; one report (the missing entry) -/
theorem C03_output_nonvacuous :
    ((run 100 exProg exBib).toOption.map fun o => (o.bbl, o.reports.length)) = some ("T\n".toList, 1) := by
  decide +kernel

theorem C03_output_only_write_newline_nonvacuous :
    ((runBuiltin 1 .swap { stk [S "a", S "b"] with buffer := L ["p"], lines := L ["l"] }).toOption.map
      fun s => (s.lines, s.buffer)) = some (L ["l"], L ["p"]) := by
  decide +kernel

/-! ## 6. Second wave (review f): `READ`, the current entry outside `ITERATE`, the trace of output calls -/

/-- **`READ`.**  The reader is started with the `MACRO` table of the style as its initial macros
(`readerStart`: the table replaces the month names), without person fields and with the citation
list as the wanted entries; `READ` then
* makes the database `convertDb` of what the reader delivers (`readerResult`: the `.bib` texts
  parsed one after the other by one reader — C01 —, or the entries of a `bib_format` reader),
* replaces the citation list by `removeMissing (addExtraCitations citations min_crossrefs)` over
  that database (C05: `*` expanded, cross-referenced parents appended, missing entries dropped),
* sets `preamble$` to the concatenation of the `@preamble` texts,
* appends the reader's problems, the bad cross-references and the missing entries to the reports,
and changes nothing else. -/
theorem C03_read_spec (fuel : Nat) (inp : Input) (c : Command) (s : St) (hc : upper c.name = "READ".toList) :
    (readerStart s).macros = CIDict.ofPairs s.macros ∧ (readerStart s).roles = [] ∧
    (readerStart s).db.wanted = some (CISet.ofList s.citations) ∧
    ∃ s', runCommand fuel inp c s = .ok s' ∧
      s'.db = some (convertDb (readerResult inp s).db) ∧
      s'.citations = ((convertDb (readerResult inp s).db).removeMissing
        ((convertDb (readerResult inp s).db).addExtraCitations s.citations inp.minCrossrefs).1).1 ∧
      s'.preamble = (readerResult inp s).db.preamble.flatten ∧
      s'.reports = s.reports ++ (readerResult inp s).errs.map Interp.Report.bib ++
        ((convertDb (readerResult inp s).db).addExtraCitations s.citations inp.minCrossrefs).2.map Interp.Report.data ++
        ((convertDb (readerResult inp s).db).removeMissing
          ((convertDb (readerResult inp s).db).addExtraCitations s.citations inp.minCrossrefs).1).2.map Interp.Report.data ∧
      s' = { s with db := s'.db, citations := s'.citations, preamble := s'.preamble, reports := s'.reports } :=
  ⟨rfl, rfl, rfl, afterRead inp s, runCommand_read_eq fuel inp c s hc, rfl, rfl, rfl, rfl, rfl⟩

/-- **`READ`, linked to C05 and C14.**  The database after `READ` is well formed (`DbWF`, the
hypothesis of every C05 / C14 theorem) whatever the reader delivered; the citation list — the
iteration order of `ITERATE` — is the resolution C05 specifies (`Spec.resolved`: the cited keys in
citation order, first spelling wins, `*` replaced by the database keys in database order, then
the cross-referenced parents in the order in which they reach `min_crossrefs`:
`C05_crossref_spec`, `C05_cited_first_in_order`, `C05_wildcard_db_order`, `C05_threshold`) with
the keys that have no entry left out (`Spec.present`); exactly the dangling cross-references of
the resolved entries — cited or appended (repair C05-2) — and the missing keys are reported; and every key of the list has a well-formed entry stored under it,
so that `C14_inherits_nearest`, `C14_missing_iff`, `C14_terminates` … apply to every field a
style reads (`C03_exec_variable`: a field pushes `bstFieldValue db e name`, the C14 lookup). -/
theorem C03_read_order (fuel : Nat) (inp : Input) (c : Command) (s s' : St) (hc : upper c.name = "READ".toList)
    (h : runCommand fuel inp c s = .ok s') :
    ∃ db, s'.db = some db ∧ DbWF db ∧
      s'.citations = Spec.present db.toS (Spec.resolved db.toS s.citations inp.minCrossrefs) ∧
      s'.reports = s.reports ++ (readerResult inp s).errs.map Interp.Report.bib ++
        ((Spec.dangling db.toS (Spec.resolved db.toS s.citations inp.minCrossrefs)).map fun p =>
          Interp.Report.data (Pybtex.Report.badCrossref p.1 p.2)) ++
        ((Spec.missing db.toS (Spec.resolved db.toS s.citations inp.minCrossrefs)).map fun k =>
          Interp.Report.data (Pybtex.Report.missingEntry k)) ∧
      (∀ k ∈ s'.citations, ∃ e, db.entries.getItem k = some e ∧ EntryWF e ∧ lower e.key = lower k) := by
  rw [runCommand_read_eq fuel inp c s hc] at h
  cases h
  have hw := convertDb_wf (readerResult inp s).db
  have hx := C05_crossref_spec _ hw s.citations inp.minCrossrefs
  have hm := removeMissing_spec hw (Spec.resolved (convertDb (readerResult inp s).db).toS s.citations inp.minCrossrefs)
  refine ⟨_, rfl, hw, ?_, ?_, ?_⟩
  · show ((convertDb _).removeMissing ((convertDb _).addExtraCitations _ _).1).1 = _
    rw [hx]; exact hm.1
  · show s.reports ++ _ ++ ((convertDb _).addExtraCitations _ _).2.map _ ++
      ((convertDb _).removeMissing ((convertDb _).addExtraCitations _ _).1).2.map _ = _
    rw [hx, hm.2, List.map_map, List.map_map]; rfl
  · intro k hk
    have hc' := removeMissing_contains _ _ k hk
    cases he : (convertDb (readerResult inp s).db).entries.getItem k with
    | none =>
      have : (convertDb (readerResult inp s).db).entries.contains k = false := by
        simp [CIDict.contains, CIDict.getItem, dhas] at he ⊢
        exact he
      rw [this] at hc'; cases hc'
    | some e => exact ⟨e, rfl, getItem_entries_wf hw he⟩

/-- executing `crossref` pushes the key of the cross-referenced entry as it is stored in the
database (not the spelling in the `crossref` field), and a missing-field value when the entry has
no `crossref` field or the target is not in the database -/
theorem C03_exec_crossref (f : Nat) (s : St) (k : Str) (e : Pybtex.Entry) (db : BibData)
    (hk : s.cur = some k) (hdb : s.db = some db) (he : db.entries.getItem k = some e) :
    (∀ x p, e.fields.getItem "crossref".toList = some x → db.entries.getItem x = some p →
      execObj (f+1) .crossref s = .ok { s with stack := .str p.key :: s.stack }) ∧
    (e.fields.getItem "crossref".toList = none →
      execObj (f+1) .crossref s = .ok { s with stack := .missing "crossref".toList :: s.stack }) ∧
    (∀ x, e.fields.getItem "crossref".toList = some x → db.entries.getItem x = none →
      execObj (f+1) .crossref s = .ok { s with stack := .missing "crossref".toList :: s.stack }) := by
  refine ⟨?_, ?_, ?_⟩
  · intro x p hx hp
    have hx' : e.fields.getItem xrefName = some x := hx
    simp only [execObj, curEntry, hk, hdb, he, push, bstCrossrefValue, hx', hp]
  · intro hx
    have hx' : e.fields.getItem xrefName = none := hx
    simp only [execObj, curEntry, hk, hdb, he, push, bstCrossrefValue, hx']
    rfl
  · intro x hx hp
    have hx' : e.fields.getItem xrefName = some x := hx
    simp only [execObj, curEntry, hk, hdb, he, push, bstCrossrefValue, hx', hp]
    rfl

/-- **No entry is current outside `ITERATE` / `REVERSE`.**  A run starts without a current entry,
and no command leaves one behind (`ITERATE` / `REVERSE` make each entry current only while the
function runs for it): at every command boundary of a program `cur = none`.  So `EXECUTE {f}`
executes `f` outside any entry, where everything that exists per entry is unavailable: `cite$`,
`type$`, `call.type$`, fields, `crossref`, reading and assigning an entry variable all stop with a
non-pybtex error (Python: `AttributeError`) — never with the data of some entry.
(Follows the code with the proposed fix C03-1; before it the last entry of the preceding
`ITERATE` stayed current.) -/
theorem C03_execute_outside_entry (fuel : Nat) (inp : Input) :
    (∀ prog out, run fuel prog inp = .ok out →
      ∃ s, runProgram fuel inp prog { vars := initVars, citations := inp.citations } = .ok s ∧ s.cur = none) ∧
    (∀ c s s', runCommand fuel inp c s = .ok s' → s.cur = none → s'.cur = none) ∧
    (∀ (f : Nat) (s : St), s.cur = none →
      (∃ w, runBuiltin (f+1) .cite s = .error (.internal w)) ∧
      (∃ w, runBuiltin (f+1) .type_ s = .error (.internal w)) ∧
      (∃ w, runBuiltin (f+1) .callType s = .error (.internal w)) ∧
      (∀ n, (∃ w, execObj (f+1) (.field n) s = .error (.internal w)) ∧
            (∃ w, execObj (f+1) (.eint n) s = .error (.internal w)) ∧
            (∃ w, execObj (f+1) (.estr n) s = .error (.internal w))) ∧
      (∃ w, execObj (f+1) .crossref s = .error (.internal w)) ∧
      (∀ name n v r, (s.vars.getItem name = some (.eint n) ∨ s.vars.getItem name = some (.estr n)) →
        ∃ w, runBuiltin (f+1) .assign { s with stack := .ref name :: v :: r } = .error (.internal w))) := by
  refine ⟨?_, fun c s s' h hs => (runCommand_cur_out fuel inp c s s' h).1 hs, ?_⟩
  · intro prog out h
    unfold run at h
    split at h
    · cases h
    · rename_i s hs
      exact ⟨s, hs, runProgram_cur_none fuel inp prog _ s rfl hs⟩
  · intro f s hs
    refine ⟨?_, ?_, ?_, ?_, ?_, ?_⟩
    · simp only [runBuiltin, hs]; exact ⟨_, rfl⟩
    · simp only [runBuiltin, curEntry, hs]; exact ⟨_, rfl⟩
    · simp only [runBuiltin, curEntry, hs]; exact ⟨_, rfl⟩
    · intro n
      refine ⟨?_, ?_, ?_⟩
      · simp only [execObj, curEntry, hs]; exact ⟨_, rfl⟩
      · simp only [execObj, hs]; exact ⟨_, rfl⟩
      · simp only [execObj, hs]; exact ⟨_, rfl⟩
    · simp only [execObj, curEntry, hs]; exact ⟨_, rfl⟩
    · intro name n v r hv
      rcases hv with hv | hv
      · have hv' : ({ s with stack := r } : St).vars.getItem name = some (.eint n) := hv
        simp only [runBuiltin, pop, hv']
        cases v <;> (rw [hs]; exact ⟨_, rfl⟩)
      · have hv' : ({ s with stack := r } : St).vars.getItem name = some (.estr n) := hv
        simp only [runBuiltin, pop, hv']
        cases v <;> (rw [hs]; exact ⟨_, rfl⟩)

/-- **The trace of output calls.**  `St.trace` is the list of the `write$` / `newline$` calls
executed so far: `write$` appends exactly the event `write x` for the text `x` it was given and
`newline$` exactly the event `newline` (`C03_builtin_write`, `C03_builtin_newline`); no other
built-in that does not execute code touches it; a command other than `EXECUTE` / `ITERATE` /
`REVERSE` touches neither the trace nor the emitted lines nor the buffer; and whatever code is
executed, the events it appends to the trace are what takes (lines, buffer) from the state before
to the state after — `emit` event by event.  (`C03_output`: the `.bbl` text is `render [] trace`.) -/
theorem C03_trace (n : Nat) :
    (∀ (b : Builtin) (s s' : St), b ≠ .callType ∧ b ≠ .if_ ∧ b ≠ .while_ ∧ b ≠ .write ∧ b ≠ .newline →
      runBuiltin (n+1) b s = .ok s' → s'.trace = s.trace) ∧
    (∀ inp (c : Command) (s s' : St), runCommand n inp c s = .ok s' →
      upper c.name ≠ "EXECUTE".toList → upper c.name ≠ "ITERATE".toList → upper c.name ≠ "REVERSE".toList →
      s'.trace = s.trace ∧ s'.lines = s.lines ∧ s'.buffer = s.buffer) ∧
    (∀ (t : BTok) (s s' : St), execTok n t s = .ok s' →
      s.trace <+: s'.trace ∧
      (s'.lines, s'.buffer) = (s'.trace.drop s.trace.length).foldl emit (s.lines, s.buffer)) ∧
    (∀ inp (c : Command) (s s' : St), runCommand n inp c s = .ok s' →
      s.trace <+: s'.trace ∧
      (s'.lines, s'.buffer) = (s'.trace.drop s.trace.length).foldl emit (s.lines, s.buffer)) := by
  refine ⟨fun b s s' hb h => (prim_sameOut n b s s' hb h).2.2, ?_, ?_, ?_⟩
  · intro inp c s s' h h1 h2 h3
    obtain ⟨a, b, c'⟩ := (runCommand_cur_out n inp c s s' h).2 h1 h2 h3
    exact ⟨c', a, b⟩
  · intro t s s' h
    obtain ⟨evs, ht, he⟩ := ((exec_frame n).2.2.1 t s s' h).out
    rw [ht, List.drop_left]
    exact ⟨List.prefix_append _ _, he⟩
  · intro inp c s s' h
    obtain ⟨evs, ht, he⟩ := (runCommand_frame n inp c s s' h).out
    rw [ht, List.drop_left]
    exact ⟨List.prefix_append _ _, he⟩

/-! ### non-vacuity of the second wave -/

/-- a surrogate code point is an `unmodelled:` internal error, the code points next to the
surrogate block give the character with that code point -/
theorem C03_builtin_int_to_chr_nonvacuous :
    (runBuiltin 1 .intToChr (stk [.int 55296])).toOption.isNone = true ∧
    (match runBuiltin 1 .intToChr (stk [.int 55296]) with | .error (.internal _) => true | _ => false) = true ∧
    top1 (runBuiltin 1 .intToChr (stk [.int 55295])) = some [Char.ofNat 55295] ∧
    (Char.ofNat 55295).toNat = 55295 ∧
    top1 (runBuiltin 1 .intToChr (stk [.int 57344])) = some [Char.ofNat 57344] ∧
    (match runBuiltin 1 .intToChr (stk [.int 1114112]) with | .error (.bibtex _) => true | _ => false) = true := by
  decide +kernel

private def exBib2 : Input :=
  { bibTexts := ["@string{s = \"S\"} @preamble{\"P\" # m} @misc{k1, title = m # s, crossref = {K2}}".toList,
                 "@misc{k2, title = {T2}, note = m}".toList],
    citations := ["k1".toList, "nokey".toList] }

private def exRead : Except IErr St :=
  runProgram 10 exBib2 [⟨"MACRO".toList, [[T "m"], [TS "M"]]⟩, ⟨"READ".toList, []⟩] { vars := initVars, citations := exBib2.citations }

/-- two `.bib` texts read with the macro `m` of the style and a `@string` of the first file: the
cited entry and (with `min_crossrefs = 1` it would be listed, here it is only kept) its parent are
in the database, the missing key is reported and dropped, `preamble$` is the flattened preamble -/
theorem C03_read_spec_nonvacuous :
    (exRead.toOption.map fun s => (s.citations, s.preamble, s.reports.length)) = some (L ["k1"], "PM".toList, 1) ∧
    (exRead.toOption.bind fun s => s.db.bind fun db => (db.entries.getItem "k1".toList).bind fun e =>
      e.fields.getItem "title".toList) = some "MS".toList ∧
    (exRead.toOption.bind fun s => s.db.bind fun db => (db.entries.getItem "K2".toList).bind fun e =>
      e.fields.getItem "note".toList) = some "M".toList := by
  decide +kernel

theorem C03_read_order_nonvacuous :
    (exRead.toOption.bind fun s => s.db.map fun db =>
      (Spec.present db.toS (Spec.resolved db.toS exBib2.citations 2), Spec.missing db.toS (Spec.resolved db.toS exBib2.citations 2)))
      = some (L ["k1"], L ["nokey"]) ∧
    (exRead.toOption.bind fun s => s.db.map fun db => Spec.resolved db.toS exBib2.citations 1)
      = some (L ["k1", "nokey", "k2"]) := by
  decide +kernel

/-- in the example database `k1` has no `crossref` field -/
theorem C03_exec_crossref_nonvacuous :
    top1 (execObj 1 .crossref { exSt with cur := some "k1".toList }) = some [] ∧
    ((execObj 1 .crossref { exSt with cur := some "k1".toList }).toOption.map fun s => s.stack.length) = some 1 ∧
    (exRead.toOption.bind fun s => top1 (execObj 1 .crossref { s with cur := some "k1".toList })) = some "k2".toList := by
  decide +kernel

/-- `ITERATE {article}` leaves no entry current; a following `EXECUTE {cite$}` stops with an
internal error, `EXECUTE {quote$}` works -/
theorem C03_execute_outside_entry_nonvacuous :
    ((runCommand 100 exInp ⟨"ITERATE".toList, [[T "article"]]⟩ exSt).toOption.map (·.cur)) = some none ∧
    (match runProgram 100 exInp [⟨"ITERATE".toList, [[T "article"]]⟩, ⟨"EXECUTE".toList, [[T "cite$"]]⟩] exSt with
      | .error (.internal _) => true | _ => false) = true ∧
    (runProgram 100 exInp [⟨"ITERATE".toList, [[T "article"]]⟩, ⟨"EXECUTE".toList, [[T "quote$"]]⟩] exSt).toOption.isSome = true := by
  decide +kernel

/-- the trace of the complete example style: `write$ "T"`, `newline$`, `write$ "lost"` -/
theorem C03_trace_nonvacuous :
    ((runProgram 100 exBib exProg { vars := initVars, citations := exBib.citations }).toOption.map (·.trace))
      = some [.write "T".toList, .newline, .write "lost".toList] ∧
    render [] [.write "T".toList, .newline, .write "lost".toList] = "T\n".toList := by
  decide +kernel

end Pybtex.Props
