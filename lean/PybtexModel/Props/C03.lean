import PybtexModel.Model.Interp
namespace Pybtex.Props
end Pybtex.Props
