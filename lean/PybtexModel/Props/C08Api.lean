/-
C08 — rich text behaves like a string of (character, markup) pairs: the API surface.

Property theorems only, about `Model/RichTextApi.lean` (constructor expressions with arbitrary Python
arguments – `ensure_text`, the name / URL checks of `Tag` / `HRef`, the deprecated alias `emph`,
`String(*parts)` –, `text[key]` for any key, `item in text` for any item, `split` at a separator
`String.split` refuses).  Reference semantics: `Spec/RichTextApi.lean` (`Arg.sem`, `Arg.wellTyped`,
`Abs.getItemKey`, `pyExtSlice`); lemmas: `Lemmas/RichTextApi.lean`.
-/
import PybtexModel.Lemmas.RichTextApi

namespace Pybtex.Props
open Pybtex Pybtex.RT

/-- **Construction from nested parts, for arbitrary arguments.**  A constructor expression evaluates
without an exception iff it is well typed (`Arg.wellTyped`, a syntactic test: parts are strings or rich
texts, a tag name is a `str` or a `Text(…)`, a URL a `str` or a rich text, the arguments of `String(…)`
are `str`); and then the object has the class and the string of pairs the expression denotes – a tag
name / URL given as a rich text counts as its characters, `emph` as `em` – and is in normal form, so
every other theorem of C08 applies to it. -/
theorem C08_ctor (a : Arg) :
    ((∃ v, eval a = .ok v) ↔ Arg.wellTyped a = true) ∧
    (∀ t, eval a = .ok (.rt t) → Arg.absOf a = some (abs t) ∧ Normal t = true) :=
  ⟨eval_ok_iff a, fun t h => ⟨eval_abs a t h, eval_normal a _ h⟩⟩

/-- `Tag(Text('em', 'ph'), 'a', Tag('emph', Symbol('nbsp')), Text('b'))` is well typed, evaluates to the
object `Tag('em', 'a', Tag('em', <nbsp>), 'b')` in normal form with two deprecation warnings; a `Tag` as a
tag name and an `int` as a part are refused with the messages of the source -/
theorem C08_ctor_nonvacuous :
    Arg.wellTyped (.tag (.text [.str "em".toList, .str "ph".toList])
      [.str "a".toList, .tag (.str "emph".toList) [.symbol "nbsp".toList], .text [.str "b".toList]]) = true ∧
    (match eval (.tag (.text [.str "em".toList, .str "ph".toList])
        [.str "a".toList, .tag (.str "emph".toList) [.symbol "nbsp".toList], .text [.str "b".toList]]) with
      | .ok (.rt t) => eq t (.node (.tag "em".toList) [.str "a".toList, .node (.tag "em".toList) [.sym "nbsp".toList], .str "b".toList])
      | _ => false) = true ∧
    warnings (.tag (.text [.str "em".toList, .str "ph".toList])
      [.str "a".toList, .tag (.str "emph".toList) [.symbol "nbsp".toList], .text [.str "b".toList]]) = 2 ∧
    outC (eval (.tag (.tag (.str "b".toList) [.str "em".toList]) [.str "a".toList]))
      = .inl (.valueError "name must be str or Text (got Tag)".toList) ∧
    outC (eval (.text [.str "a".toList, .other "int".toList]))
      = .inl (.valueError "parts must be strings or BaseText instances, not int".toList) ∧
    outC (eval (.href (.symbol "nbsp".toList) true [.string [.str "a".toList, .str "b".toList]]))
      = .inr (some (.multi (.href "<nbsp>".toList true), "ab".toList)) ∧
    outC (eval (.string [.str "a".toList, .string [.str "b".toList]])) = .inl .typeError ∧
    Arg.wellTyped (.tag (.tag (.str "b".toList) [.str "em".toList]) [.str "a".toList]) = false := by
  decide +kernel

/-- **Argument checks of the constructors (decision logic), for every value.**  `ensure_text` refuses
exactly the values that are neither `str` nor rich text; `Tag` accepts as a name exactly a `str` or a
`Text` object (not a `String`, `Tag`, `Symbol` …); `HRef` accepts as URL a `str` or any rich text;
`String(…)` exactly `str` arguments; the deprecated name `emph` is `em` (and nothing else changes). -/
theorem C08_ctor_checks :
    (∀ vs, (∃ ps, ensureAll vs = .ok ps) ↔ vs.all Val.isPart = true) ∧
    (∀ v, (∃ n, tagName v = .ok n) ↔ Val.nameOk v = true) ∧
    (∀ v, (∃ u, hrefUrl v = .ok u) ↔ Val.isPart v = true) ∧
    (∀ vs, (∃ s, stringJoin vs = .ok s) ↔ vs.all Val.isPyStr = true) ∧
    (∀ n, (checkName n).1 = tagAlias n ∧ (checkName (checkName n).1).1 = (checkName n).1 ∧
      ((checkName n).2 = true ↔ n = "emph".toList)) := by
  refine ⟨ensureAll_ok_iff, tagName_ok_iff, hrefUrl_ok_iff, stringJoin_ok_iff, fun n => ⟨checkName_alias n, ?_, ?_⟩⟩
  · unfold checkName; split
    · decide
    · simp
  · unfold checkName; split <;> simp_all

/-- **`text[key]` for ANY key acts on the string of pairs as the Python operation** (`Abs.getItemKey`:
integer → the one-pair slice or `IndexError`; slice → the Python extended slice `s[i:j:k]` of the pairs,
`pyExtSlice`, for a `String` / `Symbol`, `NotImplementedError` for a multipart text unless the step is 1;
step 0 → `ValueError`; any other key → `TypeError`).  A slice whose step is missing or 1 is `getSlice`, so
`C08_slice` speaks about the public `__getitem__`. -/
theorem C08_getitem_key (t : RT) (i j : Option Int) :
    (∀ key, (getItemKey t key).map abs = Abs.getItemKey (abs t) key) ∧
    (∀ k, k = none ∨ k = some 1 → getItemKey t (.slice i j k) = .ok (getSlice t i j)) ∧
    getItemKey t (.slice i j (some 0)) = .error .valueError ∧
    (∀ kd ps st, st ≠ 0 → st ≠ 1 → getItemKey (.node kd ps) (.slice i j (some st)) = .error .notImplemented) ∧
    getItemKey t .other = .error .typeError :=
  ⟨abs_getItemKey t, fun k hk => getItemKey_step1 t i j k hk,
   getItemKey_step0 t i j, fun kd ps st h0 h1 => getItemKey_node_step kd ps i j st h0 h1, by cases t <;> rfl⟩

/-- **The model of `slice.indices` + index arithmetic is the Python extended slice**, for every list, all
bounds (missing, negative, out of range) and every step other than 0: `s[i:j:k]` is every `k`-th element of
the step-1 slice `s[i:j]` for `k > 0`, and every `|k|`-th element of the step-1 slice of the REVERSED string
with mirrored bounds for `k < 0`; in particular `s[::-1]` is the reversed string. -/
theorem C08_extslice {α : Type} (s : List α) (i j : Option Int) (st : Int) (h : st ≠ 0) :
    extSlice s i j (some st) = .ok (pyExtSlice s i j st) ∧
    extSlice s i j none = .ok (strSlice s i j) ∧
    pyExtSlice s none none (-1) = s.reverse :=
  ⟨extSlice_ne_zero s i j st h, extSlice_step1 s i j none (Or.inl rfl), by
    simp only [pyExtSlice, Int.reduceNeg, gt_iff_lt, Int.reduceLT, ↓reduceIte, Int.neg_neg, Int.toNat_one, everyNth_one', strSlice,
      sliceIdx, Option.map_none, List.length_reverse, List.drop_zero, Nat.sub_zero]
    rw [← List.length_reverse, List.take_length]⟩

/-- witnesses: `Text('ab', Tag('em', 'cd'))[1:3]` through the key interface; `'abcdef'[::-1]`, `[4:0:-2]`,
`[1::2]` as `String`s agree with the reference `pyExtSlice`; the same steps on a `Text` raise -/
theorem C08_getitem_key_witness :
    outK (getItemKey (build (.node .text [.str "ab".toList, .node (.tag "em".toList) [.str "cd".toList]])) (.slice (some 1) (some 3) none))
      = .inr (.multi .text, "bc".toList) ∧
    outK (getItemKey (.str "abcdef".toList) (.slice none none (some (-1)))) = .inr (.string, "fedcba".toList) ∧
    outK (getItemKey (.str "abcdef".toList) (.slice (some 4) (some 0) (some (-2)))) = .inr (.string, "ec".toList) ∧
    outK (getItemKey (.str "abcdef".toList) (.slice (some 1) none (some 2))) = .inr (.string, "bdf".toList) ∧
    pyExtSlice "abcdef".toList none none (-1) = "fedcba".toList ∧
    pyExtSlice "abcdef".toList (some 4) (some 0) (-2) = "ec".toList ∧
    pyExtSlice "abcdef".toList (some 1) none 2 = "bdf".toList ∧
    outK (getItemKey (build (.node .text [.str "abc".toList])) (.slice none none (some (-1)))) = .inl .notImplemented ∧
    outK (getItemKey (.sym "nbsp".toList) (.slice none none (some (-1)))) = .inr (.symbol, "<nbsp>".toList) ∧
    outK (getItemKey (.sym "nbsp".toList) (.slice (some 1) none (some 2))) = .inr (.string, []) := by
  decide +kernel

/-- **`item in text` for any item** [model wiring for the string case]: with a `str` it is `contains`
(`C08_prefix_suffix_contains`); with any other value a `Symbol` answers `False` and every other class
raises `TypeError`. -/
theorem C08_contains_any (t : RT) :
    (∀ s, containsVal t (.str s) = .ok (contains s t)) ∧
    (containsVal t .other = (match t with
      | .sym _ => .ok false
      | _ => .error .typeError)) := by
  refine ⟨fun s => rfl, ?_⟩
  cases t <;> rfl

/-- **`split` at a separator `String.split` refuses** (the empty string: `ValueError`; a value of the
wrong type: `TypeError`): the call raises that exception iff the text contains a `String` outside every
`Protected`; otherwise nothing is split and nothing is lost – at most one piece (exactly one when empty
parts are kept) that spells the text, so protected text and symbols are never split. -/
theorem C08_split_refused (sep : BadSep) (t : RT) (keep : Option Bool) :
    (hasFreeStr t = true → splitBad sep t keep = .error sep.err) ∧
    (hasFreeStr t = false → ∃ l, splitBad sep t keep = .ok l ∧ l.length ≤ 1 ∧
      (keep ≠ some false → l.length = 1) ∧ ∀ ctx, semL ctx l = sem ctx t) := by
  have h := splitBadT_spec sep.err t (match keep with | some b => b | none => true)
  refine ⟨h.1, fun hf => ?_⟩
  obtain ⟨l, h1, h2, h3, h4⟩ := h.2 hf
  refine ⟨l, h1, h2, fun hk => h3 ?_, h4⟩
  cases keep with
  | none => rfl
  | some b => cases b <;> simp_all

/-- **`split(sep, keep_empty_parts=True)` never returns an empty list**, for a literal separator, white space and
the compiled patterns: the branch `if not split_part: continue` of `BaseMultipartText.split` (and the
corresponding branch of the model's `splitL`) is dead code – the reason why no input of the check reaches it. -/
theorem C08_split_keep_nonempty (t : RT) :
    (∀ sep, split sep t (some true) ≠ []) ∧ (∀ re, splitRe re t (some true) ≠ []) :=
  ⟨fun sep => split_keep_ne_nil sep t, fun re => splitBy_keep_ne_nil _ (reSplit_ne_nil re) t⟩

/-- `Text(Symbol('nbsp'), Protected('a b')).split('')` is one piece (the text itself);
`Text('a', Symbol('nbsp')).split('')` raises `ValueError`, `.split(5)` `TypeError`; `Text().split('')` is
`[Text()]` and with `keep_empty_parts=False` `[]` -/
theorem C08_split_refused_nonvacuous :
    hasFreeStr (build (.node .text [.sym "nbsp".toList, .node .prot [.str "a b".toList]])) = false ∧
    outL (splitBad .empty (build (.node .text [.sym "nbsp".toList, .node .prot [.str "a b".toList]])) none)
      = .inr ["<nbsp>a b".toList] ∧
    outL (splitBad .empty (build (.node .text [.str "a".toList, .sym "nbsp".toList])) none) = .inl .valueError ∧
    outL (splitBad .wrongType (build (.node .text [.str "a".toList, .sym "nbsp".toList])) none) = .inl .typeError ∧
    outL (splitBad .empty (build (.node .text [])) none) = .inr [[]] ∧
    outL (splitBad .empty (build (.node .text [])) (some false)) = .inr [] := by
  decide +kernel

end Pybtex.Props
