/-
C05 — citation resolution: cited, wildcard and cross-referenced entries, in order.

Property theorems only.  Model of the code: `Model/Db.lean`, `Model/Citations.lean` (on the
containers of C13); reference specification: `Spec/Citations.lean`; helper lemmas:
`Lemmas/Citations.lean`, `Lemmas/Filtered.lean`.

`DbWF db` (decidable; `Lemmas/Citations.lean`) says that the containers of `db` satisfy the C13
lock-step invariant and that every entry is stored under its own key; `readFile_spec` shows
that every database the reader builds is well formed, whatever the file.  `db.toS` is the plain
list of entries the specification talks about.
-/
import PybtexModel.Lemmas.Filtered
import PybtexModel.Lemmas.CitationSpelling

namespace Pybtex.Props
open Pybtex Spec

/-! ### examples used by the non-vacuity theorems -/
namespace C05Ex

/-- `@misc{key, note = {n}}` or `@misc{key, note = {n}, crossref = {x}}` -/
def mk (key : String) (xref : Option String) : Str × Entry :=
  (key.toList,
   { key := [], type := "misc".toList,
     fields := CIDict.ofPairs (("note".toList, "n".toList) ::
       (match xref with | some x => [("crossref".toList, x.toList)] | none => [])),
     persons := CIDict.empty })

/-- children `c1`, `C2` of parent `P` (which comes last), a dangling child `d`, a loner `x` -/
def exFile : List (Str × Entry) :=
  [mk "c1" (some "p"), mk "C2" (some "P"), mk "d" (some "nowhere"), mk "x" none, mk "P" none]

def readAllOf (file : List (Str × Entry)) : BibData :=
  match BibData.readFile none file with
  | some (db, _) => db
  | none => BibData.init none

/-- string literals as model strings -/
def strs (l : List String) : List Str := l.map String.toList

end C05Ex
open C05Ex

/-- Every database the reader builds is well formed (and reading never raises): the hypothesis
`DbWF` of the theorems below holds for all of them. -/
theorem C05_reader_wf (wanted : Option (List Str)) (file : List (Str × Entry))
    (hf : ∀ p ∈ file, EntryWF p.2) :
    ∃ db rep, BibData.readFile wanted file = some (db, rep) ∧ DbWF db :=
  let ⟨d, rep, h, hw, _⟩ := readFile_spec wanted file hf
  ⟨d, rep, h, hw⟩

/-- The cited part: `_expand_wildcard_citations` yields exactly the case-insensitive
de-duplication (first spelling wins) of the citation list in which every `*` has been replaced,
in place, by all database keys in database order. -/
theorem C05_expand_spec (db : BibData) (hdb : DbWF db) (citations : List Str) :
    db.expandWildcard citations = dedupCI (substStar db.toS citations) :=
  expandWildcard_spec hdb citations

theorem C05_expand_spec_nonvacuous :
    DbWF (readAllOf exFile) ∧
    (readAllOf exFile).expandWildcard ["x".toList, "*".toList, "C1".toList, "X".toList, "q".toList]
      = (strs ["x", "c1", "C2", "d", "P", "q"]) := by decide

/-- The appended part: `_get_crossreferenced_citations` yields exactly the parents that are not
cited, in the order in which the number of references to them — counted along the cited list —
reaches `min_crossrefs`, and reports exactly the dangling cross-references of the entries that
go into the bibliography: the cited ones, then the appended ones (repair C05-2). -/
theorem C05_crossref_spec (db : BibData) (hdb : DbWF db) (citations : List Str) (minCrossrefs : Int) :
    db.addExtraCitations citations minCrossrefs =
      (resolved db.toS citations minCrossrefs,
       (dangling db.toS (resolved db.toS citations minCrossrefs)).map fun p => Report.badCrossref p.1 p.2) :=
  addExtra_spec hdb citations minCrossrefs

theorem C05_crossref_spec_nonvacuous :
    (readAllOf exFile).addExtraCitations (strs ["C2", "d", "c1"]) 2
      = ((strs ["C2", "d", "c1", "P"]), [Report.badCrossref "d".toList "nowhere".toList]) ∧
    (readAllOf exFile).addExtraCitations (strs ["C2", "d", "c1"]) 3
      = ((strs ["C2", "d", "c1"]), [Report.badCrossref "d".toList "nowhere".toList]) := by decide

/-- No two keys of the result are equal up to case. -/
theorem C05_no_dup (db : BibData) (hdb : DbWF db) (citations : List Str) (minCrossrefs : Int) :
    ((db.addExtraCitations citations minCrossrefs).1.map lower).Nodup := by
  rw [C05_crossref_spec db hdb]
  apply pairwise_keq_nodup
  unfold resolved
  rw [List.pairwise_append]
  refine ⟨dedupFrom_pairwise _ _, ?_, ?_⟩
  · refine (extraFrom_pairwise (pre := [])).imp ?_
    intro a b ⟨n, h1, h2⟩
    rw [Bool.eq_false_iff]
    intro hk
    rw [refCount_congr ((keq_iff a b).1 hk)] at h1
    omega
  · intro a ha b hb
    have hc := (mem_extraFrom hb).1
    rw [Bool.eq_false_iff]
    intro hk
    have : cited (expanded db.toS citations) b = true := by
      unfold cited
      rw [List.any_eq_true]
      exact ⟨a, ha, by rw [keq_comm]; exact hk⟩
    rw [hc] at this
    cases this

/-- Explicit citations that precede any wildcard come first, in first-citation order,
de-duplicated, spelled as cited; the cross-referenced extras come after every cited key. -/
theorem C05_cited_first_in_order (db : BibData) (hdb : DbWF db) (pre rest : List Str) (minCrossrefs : Int)
    (hpre : Spec.star ∉ pre) :
    ∃ tail, db.expandWildcard (pre ++ rest) = dedupCI pre ++ tail ∧
      (db.addExtraCitations (pre ++ rest) minCrossrefs).1 =
        dedupCI pre ++ tail ++ (db.crossreferenced (db.expandWildcard (pre ++ rest)) minCrossrefs).1 := by
  have hs : substStar db.toS (pre ++ rest) = pre ++ substStar db.toS rest := by
    unfold substStar
    rw [List.flatMap_append]
    congr 1
    clear hdb
    induction pre with
    | nil => rfl
    | cons c pre ih =>
      simp only [List.mem_cons, not_or] at hpre
      have hc : ¬ c = Spec.star := fun h => hpre.1 h.symm
      simp [List.flatMap_cons, hc, ih hpre.2]
  refine ⟨dedupFrom ((dedupFrom [] pre).reverse ++ []) (substStar db.toS rest), ?_, ?_⟩
  · rw [expandWildcard_spec hdb, expanded, dedupCI, hs, dedupFrom_append]; rfl
  · simp only [BibData.addExtraCitations]
    rw [expandWildcard_spec hdb, expanded, dedupCI, hs, dedupFrom_append]; rfl

theorem C05_cited_first_in_order_nonvacuous :
    ((readAllOf exFile).addExtraCitations (strs ["x", "C1", "X", "q"] ++ ["*".toList, "d".toList]) 1).1
      = dedupCI ((strs ["x", "C1", "X", "q"])) ++ (strs ["C2", "d", "P"]) := by decide

/-- `*` stands for every database entry, in database order: after the explicit citations `pre`
the wildcard contributes exactly the database keys not yet cited, in database order and in
their database spelling.  In particular `[*]` resolves to the whole database in order. -/
theorem C05_wildcard_db_order (db : BibData) (hdb : DbWF db) (pre rest : List Str) (hpre : Spec.star ∉ pre) :
    (∃ tail, db.expandWildcard (pre ++ Pybtex.star :: rest) =
      dedupCI pre ++ (CIDict.iter db.entries).filter (fun k => !cited pre k) ++ tail) ∧
    db.expandWildcard [Pybtex.star] = CIDict.iter db.entries := by
  have hwf := nodup_pairwise_keq (toS_wf hdb)
  have hs : ∀ r, substStar db.toS (Spec.star :: r) = keys db.toS ++ substStar db.toS r := by
    intro r; rw [substStar_cons, if_pos rfl]
  constructor
  · obtain ⟨tail, h1, -⟩ := C05_cited_first_in_order db hdb pre [] 1 hpre
    have hs' : substStar db.toS (pre ++ Spec.star :: rest) = pre ++ (keys db.toS ++ substStar db.toS rest) := by
      rw [← hs]
      unfold substStar
      rw [List.flatMap_append]
      congr 1
      clear h1 hdb hwf hs
      induction pre with
      | nil => rfl
      | cons c pre ih =>
        simp only [List.mem_cons, not_or] at hpre
        have hc : ¬ c = Spec.star := fun h => hpre.1 h.symm
        simp [List.flatMap_cons, hc, ih hpre.2]
    refine ⟨dedupFrom ((dedupFrom ((dedupFrom [] pre).reverse ++ []) (keys db.toS)).reverse ++ ((dedupFrom [] pre).reverse ++ []))
      (substStar db.toS rest), ?_⟩
    show db.expandWildcard (pre ++ Spec.star :: rest) = _
    rw [expandWildcard_spec hdb, expanded, dedupCI, hs', dedupFrom_append, dedupFrom_append, dedupFrom_filter hwf,
      iter_entries hdb, ← List.append_assoc]
    congr 2
    apply List.filter_congr
    intro k _
    simp only [List.append_nil, List.any_reverse, cited]
    congr 1
    rw [Bool.eq_iff_iff]
    constructor
    · intro h
      obtain ⟨x, hx, hk⟩ := List.any_eq_true.1 h
      exact List.any_eq_true.2 ⟨x, (mem_dedupFrom hx).1, hk⟩
    · intro h
      obtain ⟨x, hx, hk⟩ := List.any_eq_true.1 h
      rcases dedupFrom_complete [] pre hx with h' | h'
      · simp at h'
      · obtain ⟨y, hy, hxy⟩ := List.any_eq_true.1 h'
        exact List.any_eq_true.2 ⟨y, hy, by rw [keq_iff] at hk hxy ⊢; rw [hk, hxy]⟩
  · show db.expandWildcard [Spec.star] = _
    rw [expandWildcard_spec hdb, expanded, dedupCI, hs, substStar, List.flatMap_nil, List.append_nil,
      dedupFrom_filter hwf, iter_entries hdb]
    simp

theorem C05_wildcard_db_order_nonvacuous :
    (readAllOf exFile).expandWildcard ["*".toList] = (strs ["c1", "C2", "d", "x", "P"]) ∧
    (readAllOf exFile).expandWildcard ["X".toList, "p".toList, "*".toList, "q".toList]
      = (strs ["X", "p", "c1", "C2", "d", "q"]) := by decide

/-- Threshold: with `L` the cited list and `X` the appended keys,
(1) a key is appended (up to case) iff it is not cited and at least `min_crossrefs` (and at least
one) of the cited entries reference it; (2) no key is appended twice; (3) the appended keys are
in the order in which they reach the threshold: for `a` before `b` there is a prefix of `L` at
which `a` has reached it and `b` has not; (4) every appended key is the key of a database entry
that a cited entry references. -/
theorem C05_threshold (db : BibData) (hdb : DbWF db) (L : List Str) (minCrossrefs : Int) :
    let X := (db.crossreferenced L minCrossrefs).1
    (∀ k, X.any (keq k) = true ↔
        (cited L k = false ∧ max minCrossrefs 1 ≤ (refCount db.toS k L : Int))) ∧
    (X.map lower).Nodup ∧
    X.Pairwise (fun a b => ∃ n, max minCrossrefs 1 ≤ (refCount db.toS a (L.take n) : Int) ∧
        (refCount db.toS b (L.take n) : Int) < max minCrossrefs 1) ∧
    (∀ x ∈ X, ∃ c ∈ L, ∃ P ∈ db.toS, parentOf db.toS c = some P ∧ P.key = x) := by
  intro X
  have hX : X = extra db.toS L minCrossrefs := by simp only [X, crossreferenced_spec hdb]
  rw [hX]
  have hpw := extraFrom_pairwise (sdb := db.toS) (m := minCrossrefs) (L := L) (suf := L) (pre := [])
  refine ⟨?_, ?_, hpw, ?_⟩
  · intro k
    constructor
    · intro h
      obtain ⟨x, hx, hk⟩ := List.any_eq_true.1 h
      obtain ⟨h1, -, h3, -⟩ := mem_extraFrom hx
      have hl := (keq_iff k x).1 hk
      rw [cited_congr hl, refCount_congr hl]
      exact ⟨h1, h3⟩
    · rintro ⟨h1, h2⟩
      exact extraFrom_complete h1 (by simp [refCount]; omega) h2
  · apply pairwise_keq_nodup
    refine hpw.imp ?_
    intro a b ⟨n, h1, h2⟩
    rw [Bool.eq_false_iff]
    intro hk
    rw [refCount_congr ((keq_iff a b).1 hk)] at h1
    omega
  · intro x hx
    obtain ⟨-, -, -, c, hc, P, hP, hk⟩ := mem_extraFrom hx
    refine ⟨c, hc, P, ?_, hP, hk⟩
    unfold parentOf at hP
    cases hf : find db.toS c with
    | none => simp [hf] at hP
    | some e =>
      simp only [hf, Option.bind_some] at hP
      cases hx' : e.crossref with
      | none => simp [hx'] at hP
      | some x' =>
        simp only [hx', Option.bind_some] at hP
        exact List.mem_of_find?_eq_some hP

theorem C05_threshold_nonvacuous :
    -- two children cite `P`: appended at 2, not at 3; one child cited: appended only at 1; parent cited: never
    ((readAllOf exFile).crossreferenced (strs ["c1", "C2"]) 2).1 = ["P".toList] ∧
    ((readAllOf exFile).crossreferenced (strs ["c1", "C2"]) 3).1 = [] ∧
    ((readAllOf exFile).crossreferenced (strs ["c1"]) 1).1 = ["P".toList] ∧
    ((readAllOf exFile).crossreferenced (strs ["c1"]) 2).1 = [] ∧
    ((readAllOf exFile).crossreferenced (strs ["c1", "p", "C2"]) 1).1 = [] := by decide

/-- A cited key that is missing from the database is reported and not kept, by both engines'
front ends, and neither front end ever ends in an uncaught exception: for every file, citation
list and threshold both produce a result; the keys they emit are exactly the resolved keys that
have an entry (for the Python engine: the stored keys of those entries), and every resolved key
without an entry is reported as missing. -/
theorem C05_missing_reported (file : List (Str × Entry)) (hf : ∀ p ∈ file, EntryWF p.2)
    (citations : List Str) (minCrossrefs : Int) :
    ∃ db rep, BibData.readFile (some citations) file = some (db, rep) ∧ DbWF db ∧
      let res := db.addExtraCitations citations minCrossrefs
      (∃ out, bibtexEngine file citations minCrossrefs = some out ∧
          out.keys = present db.toS res.1 ∧
          out.reports = rep ++ res.2 ++ (missing db.toS res.1).map Report.missingEntry) ∧
      (∃ out, pythonEngine file citations minCrossrefs = some out ∧
          out.keys.map lower = (present db.toS res.1).map lower ∧
          out.reports = rep ++ res.2 ++ (missing db.toS res.1).map Report.missingEntry) := by
  obtain ⟨db, rep, hr, hdb, -⟩ := readFile_spec (some citations) file hf
  refine ⟨db, rep, hr, hdb, ?_⟩
  intro res
  have hrm := removeMissing_spec hdb res.1
  refine ⟨⟨_, by simp only [bibtexEngine, hr]; rfl, hrm.1, by rw [hrm.2]⟩, ?_⟩
  obtain ⟨es, hes, hkeys⟩ := lookupAll_present hdb res.1
  refine ⟨⟨es.map (·.key), rep ++ res.2 ++ (db.removeMissing res.1).2⟩, ?_, hkeys, by rw [hrm.2]⟩
  simp only [pythonEngine, hr, BibData.removeMissingPy]
  show (match db.lookupAll (db.removeMissing res.1).1 with | none => none | some es => _) = _
  rw [hrm.1, hes]

theorem C05_missing_reported_nonvacuous :
    bibtexEngine exFile (strs ["c1", "nope", "C2"]) 2 =
      some ⟨(strs ["c1", "C2", "P"]), [Report.missingEntry "nope".toList]⟩ ∧
    pythonEngine exFile (strs ["c1", "nope", "C2"]) 2 =
      some ⟨(strs ["c1", "C2", "P"]), [Report.missingEntry "nope".toList]⟩ := by decide

/-- A dangling cross-reference of an entry that goes into the bibliography — cited, or appended
by the threshold — is reported: exactly those, once each, in the order of the resolved list; and
the target of a dangling reference is never added: every appended key has a database entry. -/
theorem C05_dangling_reported (db : BibData) (hdb : DbWF db) (citations : List Str) (minCrossrefs : Int) :
    let res := db.addExtraCitations citations minCrossrefs
    res.2 = (dangling db.toS res.1).map (fun p => Report.badCrossref p.1 p.2) ∧
    (∀ c x, (c, x) ∈ dangling db.toS res.1 ↔
        c ∈ res.1 ∧ ∃ e, find db.toS c = some e ∧ e.crossref = some x ∧ find db.toS x = none) ∧
    (∀ k ∈ (db.crossreferenced (db.expandWildcard citations) minCrossrefs).1, (find db.toS k).isSome = true) := by
  intro res
  refine ⟨?_, ?_, ?_⟩
  · simp only [res, C05_crossref_spec db hdb]
  · intro c x
    generalize res.1 = L
    simp only [dangling, List.mem_filterMap]
    constructor
    · rintro ⟨c', hc', h⟩
      cases hf : find db.toS c' with
      | none => simp [hf] at h
      | some e =>
        simp only [hf, Option.bind_some] at h
        cases hx : e.crossref with
        | none => simp [hx] at h
        | some x' =>
          simp only [hx, Option.bind_some] at h
          cases hfx : find db.toS x' with
          | some _ => simp [hfx] at h
          | none =>
            simp only [hfx, Option.some.injEq, Prod.mk.injEq] at h
            obtain ⟨rfl, rfl⟩ := h
            exact ⟨hc', e, hf, hx, hfx⟩
    · rintro ⟨hc, e, hf, hx, hfx⟩
      exact ⟨c, hc, by simp [hf, hx, hfx]⟩
  · intro k hk
    obtain ⟨_, -, P, hP, -, hkey⟩ := (C05_threshold db hdb _ minCrossrefs).2.2.2 k hk
    rw [← hkey]
    unfold find
    rw [List.find?_isSome]
    exact ⟨P, hP, keq_refl _⟩

theorem C05_dangling_reported_nonvacuous :
    ((readAllOf exFile).addExtraCitations (strs ["d", "*"]) 1).2
      = [Report.badCrossref "d".toList "nowhere".toList] ∧
    -- the appended parent `par` has a dangling cross-reference of its own: reported after those of the cited entries
    (readAllOf [mk "child" (some "par"), mk "d" (some "nowhere"), mk "par" (some "gone")]).addExtraCitations (strs ["child", "d"]) 1
      = (strs ["child", "d", "par"],
         [Report.badCrossref "d".toList "nowhere".toList, Report.badCrossref "par".toList "gone".toList]) := by decide

/-- The spelling in the citation list wins — as far as it does.  (1) In the resolved list an
explicitly cited key that comes BEFORE any wildcard appears exactly as first cited, whatever the
database calls it (`C05_cited_first_in_order`); a key cited only after a `*` has already been
contributed by the wildcard in the database's spelling (`['*', 'DOS']` against the key `dos`
gives `dos`): there the result is as demanded only up to the letter case of keys, which is what
the property's quantifier grants.  (2) The FILTERED reading both engines use stores every entry
whose key matches a citation under a spelling taken from the citation list, so `entry.key` —
what the Python engine emits — is a citation's spelling; when the citations of that key are
spelled consistently it is that spelling.  (Nothing of the kind holds for the unfiltered
reading, which has no citation list to take spellings from.)  This theorem is PARTIAL; the exact
rule for an arbitrary database is `C05_spelling_exact`, the full clause for the engines' reading under
the quantifier's consistent-spelling proviso is `C05_citation_spelling_engines`. -/
theorem C05_citation_spelling_wins (file : List (Str × Entry)) (hf : ∀ p ∈ file, EntryWF p.2)
    (citations : List Str) :
    ∃ db rep, BibData.readFile (some citations) file = some (db, rep) ∧
      (∀ k ∈ CIDict.iter db.entries, cited citations k = true → k ∈ citations) ∧
      (∀ k ∈ CIDict.iter db.entries, ∀ c ∈ citations, keq c k = true →
          (∀ c' ∈ citations, keq c' c = true → c' = c) → k = c) ∧
      (∀ (pre rest : List Str) (m : Int), citations = pre ++ rest → Spec.star ∉ pre →
          dedupCI pre <+: (db.addExtraCitations citations m).1) := by
  obtain ⟨db, rep, hr, hdb, -⟩ := readFile_spec (some citations) file hf
  have hsp := readFile_spelling citations file hr
  refine ⟨db, rep, hr, hsp, ?_, ?_⟩
  · intro k hk c hc hck hcons
    have hcit : cited citations k = true := List.any_eq_true.2 ⟨c, hc, by rw [keq_comm]; exact hck⟩
    have hmem := hsp k hk hcit
    exact hcons k hmem (by rw [keq_comm]; exact hck)
  · intro pre rest m hcit hpre
    subst hcit
    obtain ⟨tail, -, h2⟩ := C05_cited_first_in_order db hdb pre rest m hpre
    rw [h2, List.append_assoc]
    exact List.prefix_append _ _

theorem C05_citation_spelling_wins_nonvacuous :
    -- the file says `c1`, `C2`, `P`; the citations say `C1`, `c2`: the citations win, the uncited parent keeps its own
    pythonEngine exFile (strs ["C1", "c2"]) 2 = some ⟨(strs ["C1", "c2", "P"]), []⟩ ∧
    bibtexEngine exFile (strs ["C1", "c2"]) 2 = some ⟨(strs ["C1", "c2", "P"]), []⟩ := by decide

/-- **Which spelling the resolved list carries — the exact rule, for every database, citation list
and threshold** (no restriction on where a wildcard stands).  With `S` the citation list in which
every `*` has been replaced, in place, by the database keys in database order:
(1) every key of the cited part is spelled as at the FIRST position of `S` that equals it up to
case — so it is the citation's spelling exactly when an explicit citation of the key stands before
the first `*` (or the database does not hold the key), and the DATABASE's spelling otherwise;
(2) every element of `S` is represented; (3) every appended (cross-referenced) key is spelled as
in the database; (4) consequence: for a wildcard after the explicit citations `pre`, a database key
not cited in `pre` is in the result in the database's spelling and in NO other spelling — a citation
of it in another letter case after the `*` does not win (`['*', 'DOS']` against `dos` gives `dos`).
So "the spelling in the citation list wins" is false of `add_extra_citations` on an arbitrary
database; for the databases the engines build (read filtered by the citations) see
`C05_citation_spelling_engines`. -/
theorem C05_spelling_exact (db : BibData) (hdb : DbWF db) (citations : List Str) (minCrossrefs : Int) :
    (∀ k ∈ db.expandWildcard citations,
        (substStar db.toS citations).find? (fun x => keq x k) = some k) ∧
    (∀ x ∈ substStar db.toS citations, ∃ k ∈ db.expandWildcard citations, keq x k = true) ∧
    (∀ k ∈ (db.crossreferenced (db.expandWildcard citations) minCrossrefs).1, k ∈ CIDict.iter db.entries) ∧
    (∀ pre rest : List Str, citations = pre ++ Pybtex.star :: rest → Spec.star ∉ pre →
      ∀ k ∈ CIDict.iter db.entries, cited pre k = false →
        k ∈ (db.addExtraCitations citations minCrossrefs).1 ∧
        ∀ c, keq c k = true → c ≠ k → c ∉ (db.addExtraCitations citations minCrossrefs).1) := by
  refine ⟨?_, ?_, ?_, ?_⟩
  · intro k hk
    rw [expandWildcard_spec hdb] at hk
    exact dedupFrom_first hk
  · intro x hx
    rw [expandWildcard_spec hdb]
    rcases dedupFrom_complete [] _ hx with h | h
    · simp at h
    · obtain ⟨k, hk, hxk⟩ := List.any_eq_true.1 h
      exact ⟨k, hk, hxk⟩
  · intro k hk
    obtain ⟨_, -, P, hmemP, -, hkey⟩ := (C05_threshold db hdb _ minCrossrefs).2.2.2 k hk
    rw [iter_entries hdb, ← hkey]
    exact List.mem_map.2 ⟨P, hmemP, rfl⟩
  · intro pre rest hcit hpre k hk hnc
    subst hcit
    have hmem : k ∈ (db.addExtraCitations (pre ++ Pybtex.star :: rest) minCrossrefs).1 := by
      obtain ⟨tail, ht⟩ := (C05_wildcard_db_order db hdb pre rest hpre).1
      simp only [BibData.addExtraCitations]
      rw [ht]
      simp only [List.mem_append, List.mem_filter, Bool.not_eq_true']
      exact Or.inl (Or.inl (Or.inr ⟨hk, hnc⟩))
    refine ⟨hmem, fun c hck hne hc => hne ?_⟩
    exact eq_of_nodup_lower (C05_no_dup db hdb _ minCrossrefs) hc hmem hck

theorem C05_spelling_exact_nonvacuous :
    DbWF (readAllOf exFile) ∧
    -- the database says `c1`, `C2`, `P`: `C1` cited before the wildcard keeps the citation's spelling,
    -- `c2` and `p` cited after it come out in the database's spelling
    ((readAllOf exFile).addExtraCitations (strs ["C1", "*", "c2", "p"]) 1).1 = strs ["C1", "C2", "d", "x", "P"] ∧
    (substStar (readAllOf exFile).toS (strs ["C1", "*", "c2", "p"])).find? (fun x => keq x "C2".toList) = some "C2".toList ∧
    cited (strs ["C1"]) "C2".toList = false := by decide

/-- **The spelling in the citation list wins — for the reading both engines use, wherever a
wildcard stands, under the quantifier's proviso.**  Let the file be read FILTERED by the citations
(what both engines do).  For every explicit citation `c` (not `*`) whose citations are spelled
consistently (every citation equal to `c` up to case IS `c` — the quantifier's "repeated citations
of a key are spelled consistently"): `c` itself is in the resolved list; it is the only spelling of
that key there; every key the BibTeX engine emits (`cite$`) and every key the Python engine emits
(`entry.key`) that equals `c` up to case is `c`; and when the file holds an entry for `c`, both
engines emit `c`.  (The filtered database stores a cited key under a citation's spelling —
`readFile_spelling` — so even a `*` in front of `c` contributes `c`, not the file's spelling.) -/
theorem C05_citation_spelling_engines (file : List (Str × Entry)) (hf : ∀ p ∈ file, EntryWF p.2)
    (citations : List Str) (minCrossrefs : Int) (c : Str) (hc : c ∈ citations) (hstar : c ≠ Spec.star)
    (hcons : ∀ c' ∈ citations, keq c' c = true → c' = c) :
    ∃ db rep, BibData.readFile (some citations) file = some (db, rep) ∧
      c ∈ (db.addExtraCitations citations minCrossrefs).1 ∧
      (∀ k ∈ (db.addExtraCitations citations minCrossrefs).1, keq k c = true → k = c) ∧
      (∃ outB outP, bibtexEngine file citations minCrossrefs = some outB ∧
          pythonEngine file citations minCrossrefs = some outP ∧
          (∀ k ∈ outB.keys, keq k c = true → k = c) ∧
          (∀ k ∈ outP.keys, keq k c = true → k = c) ∧
          ((find db.toS c).isSome = true → c ∈ outB.keys ∧ c ∈ outP.keys)) := by
  obtain ⟨db, rep, hr, hdb, -⟩ := readFile_spec (some citations) file hf
  have hsp := readFile_spelling citations file hr
  have hnd := C05_no_dup db hdb citations minCrossrefs
  -- `c` is an element of the star-substituted list
  have hcS : c ∈ substStar db.toS citations := by
    unfold substStar
    rw [List.mem_flatMap]
    exact ⟨c, hc, by simp [hstar]⟩
  -- its representative in the cited part is `c` itself
  have hcE : c ∈ db.expandWildcard citations := by
    obtain ⟨k, hk, hck⟩ := (C05_spelling_exact db hdb citations minCrossrefs).2.1 c hcS
    have hkS : k ∈ substStar db.toS citations := by
      rw [expandWildcard_spec hdb] at hk; exact (mem_dedupFrom hk).1
    have hkc : k = c := by
      unfold substStar at hkS
      rw [List.mem_flatMap] at hkS
      obtain ⟨a, ha, hka⟩ := hkS
      by_cases hs : a = Spec.star
      · -- contributed by a wildcard: a stored key, spelled as cited
        simp only [hs, if_true] at hka
        rw [← iter_entries hdb] at hka
        have hcit : cited citations k = true := List.any_eq_true.2 ⟨c, hc, by rw [keq_comm]; exact hck⟩
        exact hcons k (hsp k hka hcit) (by rw [keq_comm]; exact hck)
      · simp only [hs, if_false, List.mem_singleton] at hka
        subst hka
        exact hcons k ha (by rw [keq_comm]; exact hck)
    rw [← hkc]; exact hk
  have hcR : c ∈ (db.addExtraCitations citations minCrossrefs).1 := by
    simp only [BibData.addExtraCitations]; exact List.mem_append_left _ hcE
  have huniq : ∀ k ∈ (db.addExtraCitations citations minCrossrefs).1, keq k c = true → k = c :=
    fun k hk hkc => eq_of_nodup_lower hnd hk hcR hkc
  refine ⟨db, rep, hr, hcR, huniq, ?_⟩
  have hrm := removeMissing_spec hdb (db.addExtraCitations citations minCrossrefs).1
  obtain ⟨es, hes, hkeys⟩ := lookupAll_present hdb (db.addExtraCitations citations minCrossrefs).1
  have hP : pythonEngine file citations minCrossrefs =
      some ⟨es.map (·.key), rep ++ (db.addExtraCitations citations minCrossrefs).2 ++
        (db.removeMissing (db.addExtraCitations citations minCrossrefs).1).2⟩ := by
    simp only [pythonEngine, hr, BibData.removeMissingPy]
    show (match db.lookupAll (db.removeMissing (db.addExtraCitations citations minCrossrefs).1).1 with
      | none => none | some es => _) = _
    rw [hrm.1, hes]
  have hstored : ∀ k ∈ es.map (·.key), keq k c = true → k = c := by
    intro k hk hkc
    obtain ⟨e, he, rfl⟩ := List.mem_map.1 hk
    have hit := lookupAll_keys hdb _ es hes e he
    have hcit : cited citations e.key = true := List.any_eq_true.2 ⟨c, hc, hkc⟩
    exact hcons _ (hsp _ hit hcit) hkc
  refine ⟨_, _, by simp only [bibtexEngine, hr]; rfl, hP, ?_, hstored, ?_⟩
  · intro k hk hkc
    have hk' : k ∈ present db.toS (db.addExtraCitations citations minCrossrefs).1 := by rw [← hrm.1]; exact hk
    exact huniq k (List.mem_filter.1 hk').1 hkc
  · intro hfind
    have hpres : c ∈ present db.toS (db.addExtraCitations citations minCrossrefs).1 :=
      List.mem_filter.2 ⟨hcR, hfind⟩
    refine ⟨by show c ∈ (db.removeMissing _).1; rw [hrm.1]; exact hpres, ?_⟩
    -- some emitted key equals `c` up to case, hence is `c`
    have : lower c ∈ (es.map (·.key)).map lower := by
      rw [hkeys]; exact List.mem_map.2 ⟨c, hpres, rfl⟩
    obtain ⟨k, hk, hkl⟩ := List.mem_map.1 this
    have hkc : k = c := hstored k hk ((keq_iff k c).2 hkl)
    rw [← hkc]; exact hk

theorem C05_citation_spelling_engines_nonvacuous :
    -- the file says `c1`, `C2`, `P`; `c2` and `p` are cited AFTER the wildcard, in another letter case:
    -- both engines emit the citations' spellings (the unfiltered database would give `C2`, `P`:
    -- `C05_spelling_exact_nonvacuous`)
    (∀ p ∈ exFile, EntryWF p.2) ∧
    (∀ c' ∈ strs ["C1", "*", "c2", "p"], keq c' "c2".toList = true → c' = "c2".toList) ∧
    pythonEngine exFile (strs ["C1", "*", "c2", "p"]) 1 = some ⟨strs ["C1", "c2", "d", "x", "p"],
      [Report.badCrossref "d".toList "nowhere".toList]⟩ ∧
    bibtexEngine exFile (strs ["C1", "*", "c2", "p"]) 1 = some ⟨strs ["C1", "c2", "d", "x", "p"],
      [Report.badCrossref "d".toList "nowhere".toList]⟩ ∧
    -- inconsistent spellings (outside the quantifier): the engines disagree - the BibTeX engine emits the
    -- first spelling cited, the Python engine the last one (the spelling the filtered database stores)
    (bibtexEngine exFile (strs ["c1", "C1"]) 3).map (·.keys) = some (strs ["c1"]) ∧
    (pythonEngine exFile (strs ["c1", "C1"]) 3).map (·.keys) = some (strs ["C1"]) := by decide

/-- Reading the file restricted to the wanted citations (what both engines do) and then
resolving gives the same KEYS, and the same dangling references of the cited entries, as reading
the whole file and selecting afterwards, up to the letter case of keys — PROVIDED the ordering
proviso of `Spec.proviso` holds: a wildcard is cited, or every parent referenced by (the
effective entry of) a cited key is itself cited, or absent from the file, or occurs in the file
after the effective entry of a cited child that references it.  Without the proviso the
statement is false: `C05_filtered_neg`.  It says nothing about WHICH entry is stored under an
appended key: that needs more (`C05_filtered_entries_partial`, `C05_filtered_entries_neg`). -/
theorem C05_filtered_eq_unfiltered_partial (file : List (Str × Entry)) (hf : ∀ p ∈ file, EntryWF p.2)
    (citations : List Str) (minCrossrefs : Int) (hprov : proviso (file.map rawToS) citations = true) :
    ∃ U repU F repF, BibData.readFile none file = some (U, repU) ∧
      BibData.readFile (some citations) file = some (F, repF) ∧
      (F.addExtraCitations citations minCrossrefs).1.map lower =
        (U.addExtraCitations citations minCrossrefs).1.map lower ∧
      (dangling F.toS (F.expandWildcard citations)).map low2 =
        (dangling U.toS (U.expandWildcard citations)).map low2 :=
  filtered_eq_unfiltered file hf citations minCrossrefs hprov

theorem C05_filtered_eq_unfiltered_partial_nonvacuous :
    -- the parent comes last: proviso holds; filtered and unfiltered agree, the citation's spelling differs from the file's
    (∀ p ∈ exFile, EntryWF p.2) ∧ proviso (exFile.map rawToS) (strs ["C1", "c2", "d"]) = true ∧
    (BibData.readFile (some (strs ["C1", "c2", "d"])) exFile).map (fun r => r.1.addExtraCitations (strs ["C1", "c2", "d"]) 2) =
      some (strs ["C1", "c2", "d", "P"], [Report.badCrossref "d".toList "nowhere".toList]) ∧
    (BibData.readFile none exFile).map (fun r => r.1.addExtraCitations (strs ["C1", "c2", "d"]) 2) =
      some (strs ["C1", "c2", "d", "P"], [Report.badCrossref "d".toList "nowhere".toList]) ∧
    -- a parent that precedes its children is fine when it is cited itself, or when a wildcard is cited
    proviso ([mk "P" none, mk "c" (some "P")].map rawToS) (strs ["c", "p"]) = true ∧
    proviso ([mk "P" none, mk "c" (some "P")].map rawToS) (strs ["c", "*"]) = true ∧
    proviso ([mk "P" none, mk "c" (some "P")].map rawToS) (strs ["c"]) = false := by decide

/-- "The same result": under the strong ordering proviso `Spec.provisoStrong` — `proviso`, and
the FIRST entry of every uncited parent comes after the effective entry of a cited child that
references it, with the target of its own cross-reference cited, absent or later still — the
filtered reading stores under every key of the resolved list THE SAME ENTRY (type, fields,
persons) as the unfiltered reading, an entry in the one iff in the other, and
`add_extra_citations` gives the same keys and the same reports (dangling references of cited and
of appended entries), up to the letter case of keys. -/
theorem C05_filtered_entries_partial (file : List (Str × Entry)) (hf : ∀ p ∈ file, EntryWF p.2)
    (citations : List Str) (minCrossrefs : Int) (hprov : provisoStrong (file.map rawToS) citations = true) :
    ∃ U repU F repF, BibData.readFile none file = some (U, repU) ∧
      BibData.readFile (some citations) file = some (F, repF) ∧
      (F.addExtraCitations citations minCrossrefs).1.map lower =
        (U.addExtraCitations citations minCrossrefs).1.map lower ∧
      (F.addExtraCitations citations minCrossrefs).2.map Report.lower =
        (U.addExtraCitations citations minCrossrefs).2.map Report.lower ∧
      ∀ k ∈ (U.addExtraCitations citations minCrossrefs).1,
        (F.entries.getItem k).map Entry.content = (U.entries.getItem k).map Entry.content :=
  filtered_entries file hf citations minCrossrefs hprov

/-- entries with distinguishable contents: `@misc{key, note = {v}}` / `@misc{key, note = {v}, crossref = {x}}` -/
def C05Ex.mkv (key v : String) (xref : Option String) : Str × Entry :=
  (key.toList,
   { key := [], type := "misc".toList,
     fields := CIDict.ofPairs (("note".toList, v.toList) ::
       (match xref with | some x => [("crossref".toList, x.toList)] | none => [])),
     persons := CIDict.empty })

/-- what the database holds under `k`: the note -/
def C05Ex.noteOf (r : Option (BibData × List Report)) (k : String) : Option Str :=
  r.bind fun r => (r.1.entries.getItem k.toList).bind fun e => e.fields.getItem "note".toList

theorem C05_filtered_entries_partial_nonvacuous :
    let file := [mkv "c" "vc" (some "P"), mkv "p" "v1" (some "G"), mkv "P" "v2" none, mkv "g" "vg" none]
    (∀ p ∈ file, EntryWF p.2) ∧ provisoStrong (file.map rawToS) (strs ["C"]) = true ∧
    -- the first of the two parents is the one stored, in both readings; its own parent `g` follows it
    noteOf (BibData.readFile (some (strs ["C"])) file) "P" = some "v1".toList ∧
    noteOf (BibData.readFile none file) "P" = some "v1".toList ∧
    (BibData.readFile (some (strs ["C"])) file).map (fun r => r.1.addExtraCitations (strs ["C"]) 1) =
      some (strs ["C", "p"], []) ∧
    -- the proviso fails when a duplicate of the parent precedes the child, or when the parent's own parent precedes it
    provisoStrong ([mkv "a" "v1" none, mkv "c" "vc" (some "a"), mkv "A" "v2" none].map rawToS) (strs ["c"]) = false ∧
    provisoStrong ([mkv "g" "vg" none, mkv "c" "vc" (some "p"), mkv "p" "vp" (some "g")].map rawToS) (strs ["c"]) = false := by
  decide

/-- The weak proviso is not enough for "the same result": the uncited parent `a` (note `v1`)
precedes its cited child `c`, and a second entry with the same key (`A`, note `v2`) follows.
`proviso` holds and both readings resolve to the same keys up to case — but read whole, `a`
keeps the FIRST entry (`v1`, and the second is reported as repeated); read filtered by the
citations, the first one is skipped and the SECOND is stored (`v2`), nothing is reported.
(Finding C05-filtered-duplicate-parent.) -/
theorem C05_filtered_entries_neg :
    let file := [mkv "a" "v1" none, mkv "c" "vc" (some "a"), mkv "A" "v2" none]
    let cits := ["c".toList]
    proviso (file.map rawToS) cits = true ∧ provisoStrong (file.map rawToS) cits = false ∧
    (BibData.readFile none file).map (fun r => (r.1.addExtraCitations cits 1, r.2)) =
      some ((strs ["c", "a"], []), [Report.repeated "A".toList]) ∧
    (BibData.readFile (some cits) file).map (fun r => (r.1.addExtraCitations cits 1, r.2)) =
      some ((strs ["c", "A"], []), []) ∧
    noteOf (BibData.readFile none file) "a" = some "v1".toList ∧
    noteOf (BibData.readFile (some cits) file) "a" = some "v2".toList := by
  decide

/-- Finding #16: the full statement "filtered reading = unfiltered reading" is false of the code.
Witness: the uncited parent `P` precedes its only child `c`; read whole, `c` brings `P` in; read
filtered by the citations, `P` has been skipped before `c` makes it wanted, so `c` has a bad
cross-reference and `P` is not appended — the two results differ even up to case. -/
theorem C05_filtered_neg :
    let file := [mk "P" none, mk "c" (some "P"), mk "x" none]
    let cits := ["c".toList]
    (BibData.readFile none file).map (fun r => (r.1.addExtraCitations cits 1)) =
      some (["c".toList, "P".toList], []) ∧
    (BibData.readFile (some cits) file).map (fun r => (r.1.addExtraCitations cits 1)) =
      some (["c".toList], [Report.badCrossref "c".toList "P".toList]) ∧
    proviso ([mk "P" none, mk "c" (some "P"), mk "x" none].map rawToS) cits = false := by
  decide

end Pybtex.Props
