/-
C15, extension: facts about EVERY source text (no well-formedness hypothesis) — the line a
rejection names is a line of the source and the text of the error spells it; what `required`
returns is the text it consumed.
-/
import PybtexModel.Props.C15
import PybtexModel.Lemmas.BstLineRange

namespace Pybtex.Props
open Pybtex Pybtex.Bst Pybtex.Scanner

/-- **Malformed source is rejected with a syntax error that names the line — the line exists.**
For EVERY source text `src` (any characters, any line breaks, no hypothesis): when `parse_string`
rejects it, the error is one of the three `PybtexSyntaxError` classes, its `lineno` `l` satisfies
`1 ≤ l ≤` the number of lines `str.splitlines` sees in `src` (at least 1), and `str(error)` is
`syntax error in line <l>: <message>` with the decimal spelling of that same `l`
(`PybtexSyntaxError.__str__` as modelled for C16, `Errors.syntaxStr`). -/
theorem C15_error_names_line_of_source (src : Str) (e : Err) (h : parseString src = .error e) :
    ∃ l msg, errLine e = some l ∧ errMessage e = some msg ∧ 1 ≤ l ∧ l ≤ eofLine src ∧
      errStr e = some ("syntax error".toList ++ (" in line ".toList ++ (Nat.repr l).toList) ++
        ": ".toList ++ msg) := by
  exact names_line_of_errIn (parseString_error_line src e h) (parseText_fuel _ e h)

/-- The same for `parse_stream`, for EVERY source whose line breaks are `\n` / `\r\n` only
(`plainBreaks`; a lone `\r` inside a stream line is counted as a line break by the scanner but
not by the stream, see `_neg`): class, `1 ≤ lineno ≤` number of lines, `str(error)` spells it. -/
theorem C15_error_names_line_of_source_stream (src : Str) (hplain : plainBreaks src = true)
    (e : Err) (h : parseStream src = .error e) :
    ∃ l msg, errLine e = some l ∧ errMessage e = some msg ∧ 1 ≤ l ∧ l ≤ eofLine src ∧
      errStr e = some ("syntax error".toList ++ (" in line ".toList ++ (Nat.repr l).toList) ++
        ": ".toList ++ msg) :=
  names_line_of_errIn (parseStream_error_line src hplain e h) (parseText_fuel _ e h)

/-- without `plainBreaks` the bound fails for `parse_stream`: the stream `read\r\rfoo` has ONE
line (only `\n` ends a stream line) and is rejected "in line 3" -/
theorem C15_error_names_line_of_source_stream_neg :
    parseStream "read\r\rfoo".toList = .error (.tokenRequired "BST command".toList 3) ∧
    (streamLines "read\r\rfoo".toList).length = 1 ∧ plainBreaks "read\r\rfoo".toList = false := by
  refine ⟨by rfl, by decide, by decide⟩

/-- a rejected three-line source: the error is on the LAST line (the bound is attained), and the
text of the error is the literal one -/
theorem C15_error_names_line_of_source_nonvacuous :
    parseString "read\n\nfoo {".toList = .error (.tokenRequired "BST command".toList 3) ∧
    eofLine "read\n\nfoo {".toList = 3 ∧
    errStr (.tokenRequired "BST command".toList 3)
      = some "syntax error in line 3: BST command expected".toList ∧
    parseString "ITERATE {x\n\n".toList = .error (.prematureEOF 2) ∧
    eofLine "ITERATE {x\n\n".toList = 2 ∧
    errStr (.prematureEOF 2) = some "syntax error in line 2: premature end of file".toList ∧
    plainBreaks "read\n\nfoo {".toList = true ∧
    parseStream "read\n\nfoo {".toList = .error (.tokenRequired "BST command".toList 3) := by
  refine ⟨by rfl, by decide, by decide, by rfl, by decide, by decide, by decide, by rfl⟩

/-- **What `required` returns is the text it consumed, and only white space moves the line
number** (the scanner pieces every parser function is made of): for each of the three pattern
lists `bst.py` hands to `Scanner.required` — the five token patterns of `parse_group`, `[NAME]` of
`parse_command`, `[LBRACE]` — a token `(kind, value)` returned from state `st` satisfies: the text
after the white space skipped is `value ++` the text that remains, `value` is not empty, and the
line number afterwards is the one `eat_whitespace` reached. -/
theorem C15_token_is_consumed_text {κ : Type} (pats : List (κ × Pattern))
    (hp : ∀ kp ∈ pats, PatSound kp.2) (d : Option Str) (a : Bool) (st st' : St) (k : κ) (v : Str)
    (h : required pats d a st = .ok ((k, v), st')) :
    (eatWs st).rest = v ++ st'.rest ∧ v ≠ [] ∧ st'.line = (eatWs st).line ∧
      st.line ≤ st'.line := by
  rw [required_eq] at h
  split at h
  · split at h <;> cases h
  · split at h
    · rename_i k' v' r' hfm
      cases h
      obtain ⟨hv, hs⟩ := firstMatch_sound pats hp _ _ _ _ hfm
      exact ⟨hs, hv, rfl, Nat.le_add_right _ _⟩
    · cases h

/-- the hypothesis of `C15_token_is_consumed_text` holds for the three pattern lists of `bst.py`,
and a concrete scan: behind `" \n "` the integer token `#-12` of `#-12}` is returned on line 2 -/
theorem C15_token_is_consumed_text_nonvacuous :
    (∀ kp ∈ groupPats, PatSound kp.2) ∧
    (∀ kp ∈ [(TokKind.name, namePat)], PatSound kp.2) ∧
    (∀ kp ∈ [(TokKind.lbrace, lbracePat)], PatSound kp.2) ∧
    required groupPats none false ⟨" \n #-12}".toList, 1⟩
      = .ok ((.integer, "#-12".toList), ⟨"}".toList, 2⟩) := by
  refine ⟨groupPats_sound, ?_, ?_, by decide +kernel⟩
  · intro kp hkp; simp only [List.mem_singleton] at hkp; subst hkp; exact namePat_sound
  · intro kp hkp; simp only [List.mem_singleton] at hkp; subst hkp; exact litPat_sound _

end Pybtex.Props
