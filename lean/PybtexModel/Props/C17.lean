/-
C17 — string / bytes / stream / file entry points agree; I/O faults become pybtex errors.

Property theorems only.  Model: `Model/IO.lean` (follows /repo with the proposed fixes C17-1..3),
reference for the plug-in registry: `Spec/Plugins.lean`, helper lemmas and the Boolean table checks:
`Lemmas/IO.lean`, regenerated tables: `Gen/Plugins.lean`, `Gen/PluginClasses.lean`.

Abstract throughout (parameters of every statement): the codec, the plug-in's own parsing / printing
core, ElementTree, the opener, the bytes behind a handle, kpsewhich, the environment.
-/
import PybtexModel.Lemmas.IO
import PybtexModel.Gen.Plugins

namespace Pybtex.Props
open Pybtex Pybtex.IO

/-! ## readers -/

/-- **Parse entry points** (BaseParser, both `unicode_io` values, and the BibTeX class).
If the encoding can represent the text (`dec (enc s) = s`), then parsing the encoded bytes, a stream
holding the document, a file-like object, a file containing the bytes, and `parse_files` with the name
split into base + suffix, are all the same computation as parsing the string: same database, same error. -/
theorem C17_parse_entry_points {Db E Tree H : Type}
    (k : ReaderKind) (hk : k ≠ .bibtexml)
    (core : ReaderCore Db E Tree) (c : Codec) (encName : Str) (env : Env H) (content : H → Bytes)
    (data : Db) (s : Str) (p : Path) (h : H)
    (hrt : c.dec (c.enc s) = .ok s)
    (hfile : env.isFile p = true) (hopen : ∀ mode kw, env.opener p mode kw = .ok h)
    (hcontent : content h = c.enc s) :
    parseBytes k core c data (c.enc s) = parseString k core c data s ∧
    parseStream k core data (docStream k c s) = parseString k core c data s ∧
    (parseFile k core c encName env content data (.stream (docStream k c s)) none).2 = parseString k core c data s ∧
    (parseFile k core c encName env content data (.path p) none).2 = parseString k core c data s ∧
    (∀ base sfx, base ++ sfx = p →
      (parseFiles k core c encName env content (some sfx) data [base]).2 = parseString k core c data s) := by
  have hfilePath : (parseFile k core c encName env content data (.path p) none).2 = parseString k core c data s := by
    cases k with
    | bibtexml => exact absurd rfl hk
    | bibtex =>
      simp [parseFile, ReaderKind.unicodeIO, openUnicode, pyOpen, openExisting, hfile, hopen, readOpened,
        hcontent, hrt, parseStream, parseString]
    | base u =>
      cases u <;>
      simp [parseFile, ReaderKind.unicodeIO, openUnicode, openRaw, pyOpen, openExisting, hfile, hopen, readOpened,
        hcontent, hrt, parseStream, parseString]
  refine ⟨?_, ?_, ?_, hfilePath, ?_⟩
  · cases k with
    | bibtexml => exact absurd rfl hk
    | bibtex => simp [parseBytes, ReaderKind.unicodeIO, hrt]
    | base u => cases u <;> simp [parseBytes, parseString, ReaderKind.unicodeIO, hrt]
  · cases k with
    | bibtexml => exact absurd rfl hk
    | bibtex => simp [docStream, ReaderKind.unicodeIO, parseStream, parseString]
    | base u => cases u <;> simp [docStream, ReaderKind.unicodeIO, parseStream, parseString]
  · cases k with
    | bibtexml => exact absurd rfl hk
    | bibtex =>
      simp [parseFile, docStream, ReaderKind.unicodeIO, openUnicode, pyOpen, readOpened, parseStream, parseString]
    | base u =>
      cases u <;>
      simp [parseFile, docStream, ReaderKind.unicodeIO, openUnicode, openRaw, pyOpen, readOpened, parseStream, parseString]
  · intro base sfx hp
    subst hp
    have : (parseFile k core c encName env content data (.path base) (some sfx)).2 =
        (parseFile k core c encName env content data (.path (base ++ sfx)) none).2 := by
      simp [parseFile]
    simp only [parseFiles]
    rw [← hfilePath, ← this]
    cases (parseFile k core c encName env content data (.path base) (some sfx)).2 <;> rfl

/-- the hypotheses of `C17_parse_entry_points` hold in a concrete world, for both `unicode_io` values
and a non-ASCII document, and the common result is the core's answer on the document -/
theorem C17_parse_entry_points_nonvacuous :
    let s := "@a{k, t = {café}}".toList
    let content : Path → Bytes := fun _ => Toy.enc s
    Toy.codec.dec (Toy.codec.enc s) = .ok s ∧
    Toy.env.isFile "f.bib".toList = true ∧
    (∀ mode kw, mode.contains 'w' = false → Toy.env.opener "f.bib".toList mode kw = .ok "f.bib".toList) ∧
    (parseFile (.base true) Toy.reader Toy.codec "L1".toList Toy.env content [] (.path "f.bib".toList) none).2
      = .ok [.text s] ∧
    (parseFile (.base false) Toy.reader Toy.codec "L1".toList Toy.env content [] (.path "f.bib".toList) none).2
      = .ok [.binary (Toy.enc s)] ∧
    parseBytes (.base true) Toy.reader Toy.codec [] (Toy.enc s) = .ok [.text s] ∧
    parseString (.base false) Toy.reader Toy.codec [] s = .ok [.binary (Toy.enc s)] := by
  refine ⟨by decide, by decide, ?_, by decide, by decide, by decide, by decide⟩
  intro mode kw hm
  simp only [Toy.env, hm, Bool.false_eq_true, if_false, if_true]

/-- **Parse entry points, BibTeXML.**  An XML byte document says itself how it is encoded, so the bytes
that correspond to the text `s` are any `b` that ElementTree reads as it reads `s` (for instance
`enc (xmlDecl name ++ s)`, what the BibTeXML writer produces).  For such bytes: `parse_bytes`,
`parse_stream`, a file-like object and a file containing them all equal `parse_string s`, whatever
`encoding` the parser was created with. -/
theorem C17_parse_entry_points_bibtexml {Db E Tree H : Type}
    (core : ReaderCore Db E Tree) (c : Codec) (encName : Str) (env : Env H) (content : H → Bytes)
    (data : Db) (s : Str) (b : Bytes) (p : Path) (h : H)
    (het : core.fromBytes b = core.fromStr s)
    (hfile : env.isFile p = true) (hopen : ∀ mode kw, env.opener p mode kw = .ok h)
    (hcontent : content h = b) :
    parseBytes .bibtexml core c data b = parseString .bibtexml core c data s ∧
    parseStream .bibtexml core data (.binary b) = parseString .bibtexml core c data s ∧
    (parseFile .bibtexml core c encName env content data (.stream (.binary b)) none).2
      = parseString .bibtexml core c data s ∧
    (parseFile .bibtexml core c encName env content data (.path p) none).2
      = parseString .bibtexml core c data s := by
  refine ⟨?_, ?_, ?_, ?_⟩
  · simp [parseBytes, parseString, het]
  · simp [parseStream, parseString, het]
  · simp [parseFile, ReaderKind.unicodeIO, openRaw, pyOpen, readOpened, parseStream, parseString, het]
  · simp [parseFile, ReaderKind.unicodeIO, openRaw, pyOpen, openExisting, hfile, hopen, readOpened, hcontent,
      parseStream, parseString, het]

theorem C17_parse_entry_points_bibtexml_nonvacuous :
    let s := "<f>café</f>".toList
    let b := Toy.enc (xmlDecl "L1".toList ++ s)
    Toy.reader.fromBytes b = Toy.reader.fromStr s ∧
    parseBytes .bibtexml Toy.reader Toy.codec ([] : List Stream) b = .ok [.text s] := by
  decide

/-! ## writers -/

/-- **Write entry points** (BaseWriter, both `unicode_io` values) — the clauses that hold without proviso.
`unicode_io` classes: `to_bytes` is `to_string` encoded, error for error.
Byte classes: `to_string` is `to_bytes` decoded; so `to_bytes` is `to_string` encoded as soon as the codec
re-encodes what it decodes; and `write_file` to a name that can be opened leaves exactly the bytes of
`to_bytes` in that file (after a single open attempt).
Both: a file-like object receives what `write_stream` writes, and an error of the plug-in's core is the
same error from every entry point. -/
theorem C17_write_entry_points {Db E H S : Type}
    (u : Bool) (core : WriterCore Db E) (c utf8 : Codec) (encName : Str) (env : Env H)
    (d : Db) (p : Path) (h : H) (hopen : ∀ mode kw, env.opener p mode kw = .ok h) :
    (u = true → toBytes (.base u) core c encName d = (toStr (.base u) core c utf8 encName d).map c.enc) ∧
    (u = false → ∀ b, toBytes (.base u) core c encName d = .ok b →
        toStr (.base u) core c utf8 encName d = (c.dec b).mapError WErr.unicodeDecode ∧
        ((∀ b' s', c.dec b' = .ok s' → c.enc s' = b') →
          ∀ s, toStr (.base u) core c utf8 encName d = .ok s → b = c.enc s) ∧
        writeFile (.base u) core c encName env d (.path p : FileArg S)
          = ([.tryOpen p ['w', 'b'] none], .ok (.file h b))) ∧
    (∀ (st : S) payload, writeStream (.base u) core c encName d = .ok payload →
        writeFile (.base u) core c encName env d (.stream st) = ([], .ok (.stream st payload))) ∧
    (∀ e, toBytes (.base u) core c encName d = .error e →
        (writeFile (.base u) core c encName env d (.path p : FileArg S)).2 = .error e ∧
        toStr (.base u) core c utf8 encName d = .error e) := by
  cases u with
  | true =>
    refine ⟨?_, ?_, ?_, ?_⟩
    · intro _
      simp only [toBytes, toStr, writeStream]
      cases core.writeText d <;> rfl
    · intro hu; cases hu
    · intro st payload hp
      simp [writeFile, WriterKind.unicodeIO, openUnicode, pyOpen, hp]
    · intro e he
      simp only [toBytes, writeStream] at he
      cases hw : core.writeText d with
      | ok s => simp [hw] at he
      | error e' =>
        simp only [hw, Except.error.injEq] at he
        subst he
        simp [writeFile, WriterKind.unicodeIO, openUnicode, pyOpen, openOrCreate, hopen, writeStream, hw, toStr]
  | false =>
    refine ⟨?_, ?_, ?_, ?_⟩
    · intro hu; cases hu
    · intro _ b hb
      simp only [toBytes, writeStream] at hb
      cases hw : core.writeBytes d with
      | error e => simp [hw] at hb
      | ok b' =>
        simp only [hw, Except.ok.injEq] at hb
        subst hb
        refine ⟨?_, ?_, ?_⟩
        · simp only [toStr, writeStream, hw]
          cases c.dec b' <;> rfl
        · intro hcodec s hs
          simp only [toStr, writeStream, hw] at hs
          cases hdec : c.dec b' with
          | error m => simp [hdec] at hs
          | ok s' =>
            simp only [hdec, Except.ok.injEq] at hs
            subst hs
            exact (hcodec _ _ hdec).symm
        · simp [writeFile, WriterKind.unicodeIO, openRaw, pyOpen, openOrCreate, hopen, writeStream, hw]
    · intro st payload hp
      simp [writeFile, WriterKind.unicodeIO, openRaw, pyOpen, hp]
    · intro e he
      simp only [toBytes, writeStream] at he
      cases hw : core.writeBytes d with
      | ok s => simp [hw] at he
      | error e' =>
        simp only [hw, Except.error.injEq] at he
        subst he
        simp [writeFile, WriterKind.unicodeIO, openRaw, pyOpen, openOrCreate, hopen, writeStream, hw, toStr]

theorem C17_write_entry_points_nonvacuous :
    let d := "café\n".toList
    (∀ mode kw, mode.contains 'w' = true → Toy.env.opener "/out/x.bib".toList mode kw = .ok "/out/x.bib".toList) ∧
    toStr (.base true) Toy.writer Toy.codec Toy.codec "L1".toList d = .ok d ∧
    toBytes (.base true) Toy.writer Toy.codec "L1".toList d = .ok (Toy.enc d) ∧
    toStr (.base false) Toy.writer Toy.codec Toy.codec "L1".toList d = .ok d ∧
    writeFile (.base false) Toy.writer Toy.codec "L1".toList Toy.env d (.path "/out/x.bib".toList : FileArg Unit)
      = ([.tryOpen "/out/x.bib".toList "wb".toList none], .ok (.file "/out/x.bib".toList (Toy.enc d))) := by
  refine ⟨?_, by decide, by decide, by decide, by decide⟩
  intro mode kw hm
  simp only [Toy.env, hm, if_true]
  decide

/-- **`write_file` of a `unicode_io` class writes exactly `to_bytes`** — PROVIDED the document is not
empty or the codec encodes the empty string as no bytes (known finding `C17-empty-document-bom`: see
`C17_write_file_neg`).  One open attempt, in text mode, with the encoding. -/
theorem C17_write_file_partial {Db E H S : Type}
    (core : WriterCore Db E) (c : Codec) (encName : Str) (env : Env H)
    (d : Db) (p : Path) (h : H) (hopen : ∀ mode kw, env.opener p mode kw = .ok h)
    (doc : Str) (hdoc : core.writeText d = .ok doc) (hne : doc ≠ [] ∨ c.enc [] = []) :
    toBytes (.base true) core c encName d = .ok (c.enc doc) ∧
    writeFile (.base true) core c encName env d (.path p : FileArg S)
      = ([.tryOpen p ['w'] (some encName)], .ok (.file h (c.enc doc))) := by
  have htf : textFile c doc = c.enc doc := by
    unfold textFile
    rcases hne with hne | hne
    · cases doc with
      | nil => exact absurd rfl hne
      | cons x r => rfl
    · cases doc with
      | nil => simp [hne]
      | cons x r => rfl
  constructor
  · simp [toBytes, writeStream, hdoc]
  · simp [writeFile, WriterKind.unicodeIO, openUnicode, pyOpen, openOrCreate, hopen, writeStream, hdoc, htf]

theorem C17_write_file_partial_nonvacuous :
    let d := "café\n".toList
    Toy.writer.writeText d = .ok d ∧ (d ≠ [] ∨ Toy.codec.enc [] = []) ∧
    (Toy.writer.writeText [] = .ok [] ∧ ([] ≠ ([] : Str) ∨ Toy.codec.enc [] = [])) ∧
    writeFile (.base true) Toy.writer Toy.codec "L1".toList Toy.env d (.path "/out/x.bib".toList : FileArg Unit)
      = ([.tryOpen "/out/x.bib".toList "w".toList (some "L1".toList)], .ok (.file "/out/x.bib".toList (Toy.enc d))) := by
  refine ⟨by decide, by decide, by decide, by decide⟩

/-- The proviso of `C17_write_file_partial` cannot be dropped: for the EMPTY document and a codec that
writes a byte-order mark (as UTF-16 does) `to_bytes` is the mark, while the file written by `write_file`
stays empty — "writing to a file writes exactly those bytes" fails there. -/
theorem C17_write_file_neg :
    toStr (.base true) Toy.writer Toy.bomCodec Toy.codec "BOM".toList [] = .ok [] ∧
    toBytes (.base true) Toy.writer Toy.bomCodec "BOM".toList [] = .ok [255, 254] ∧
    writeFile (.base true) Toy.writer Toy.bomCodec "BOM".toList Toy.env [] (.path "/out/x.bib".toList : FileArg Unit)
      = ([.tryOpen "/out/x.bib".toList "w".toList (some "BOM".toList)], .ok (.file "/out/x.bib".toList [])) := by
  refine ⟨by decide, by decide, by decide⟩

/-- **Write entry points, BibTeXML.**  `to_bytes` is the XML declaration naming the encoding, the
`to_string` document and the final newline, encoded; `write_file` leaves exactly those bytes.
(`hshape`: the generated document ends in one newline and has no other outer white space — `to_string`
strips it.) -/
theorem C17_write_entry_points_bibtexml {Db E H S : Type}
    (core : WriterCore Db E) (c utf8 : Codec) (encName : Str) (env : Env H)
    (d : Db) (p : Path) (h : H) (body : Str)
    (hutf8 : ∀ t, utf8.dec (utf8.enc t) = .ok t)
    (hbody : core.xmlBody d = .ok body) (hshape : body = strip body ++ ['\n'])
    (hopen : ∀ mode kw, env.opener p mode kw = .ok h) :
    ∃ doc, toStr .bibtexml core c utf8 encName d = .ok doc ∧
      toBytes .bibtexml core c encName d = .ok (c.enc (xmlDecl encName ++ doc ++ ['\n'])) ∧
      (writeFile .bibtexml core c encName env d (.path p : FileArg S)).2
        = .ok (.file h (c.enc (xmlDecl encName ++ doc ++ ['\n']))) := by
  refine ⟨strip body, ?_, ?_, ?_⟩
  · simp [toStr, hbody, hutf8]
  · simp only [toBytes, writeStream, hbody]
    rw [List.append_assoc, ← hshape]
  · simp only [writeFile, WriterKind.unicodeIO, openRaw, pyOpen, openOrCreate, hopen, writeStream, hbody,
      Bool.false_eq_true, if_false, mode_wb, if_true]
    rw [List.append_assoc, ← hshape]

theorem C17_write_entry_points_bibtexml_nonvacuous :
    let d := "<f>café</f>".toList
    Toy.writer.xmlBody d = .ok (d ++ ['\n']) ∧ d ++ ['\n'] = strip (d ++ ['\n']) ++ ['\n'] ∧
    toBytes .bibtexml Toy.writer Toy.codec "L1".toList d = .ok (Toy.enc (xmlDecl "L1".toList ++ d ++ ['\n'])) := by
  decide

/-! ## the plug-in tables -/

/-- **Suffix = name**, over the regenerated tables.  For every entry `(base.suffixes, sfx, k)` of a
suffix table: (i) `find_plugin(base, filename=f)` returns `k` for EVERY file name `f = dir/stem.sfx`
(any directory prefix, any stem that is not periods only), (ii) `k` is also what some name or alias of
the base group selects; and (iii) every class registered under a name of a base group that declares a
`default_suffix` is what a file name with that suffix selects.  An edit of the tables in /repo that
breaks any of this breaks the `decide`. -/
theorem C17_suffix_eq_name :
    (∀ base dflt g sfx k, (base, dflt) ∈ Gen.defaultPlugins → (g, sfx, k) ∈ Gen.installedPlugins →
        g = base ++ ".suffixes".toList →
        (∀ dir stem, goodDir dir = true → goodStem stem = true →
          findPlugin Gen.installedPlugins Gen.defaultPlugins [] base .none (some (dir ++ stem ++ sfx)) = .ok k) ∧
        (∃ n, findPlugin Gen.installedPlugins Gen.defaultPlugins [] base (.str n) none = .ok k)) ∧
    (∀ base dflt n k s, (base, dflt) ∈ Gen.defaultPlugins → (base, n, k) ∈ Gen.installedPlugins →
        dget Gen.classDefaultSuffix k = some (some s) →
        ∀ dir stem, goodDir dir = true → goodStem stem = true →
          findPlugin Gen.installedPlugins Gen.defaultPlugins [] base .none (some (dir ++ stem ++ s)) = .ok k) := by
  have h1 : suffixTableOK Gen.installedPlugins Gen.defaultPlugins = true := by decide +kernel
  have h2 : defaultSuffixOK Gen.installedPlugins Gen.defaultPlugins Gen.classDefaultSuffix = true := by decide +kernel
  constructor
  · intro base dflt g sfx k hb he hg
    have hd := dhas_of_mem _ _ _ hb
    have := List.all_eq_true.1 (List.all_eq_true.1 h1 _ hb) _ he
    simp only [hg, if_true, suffixEntryOK, Bool.and_eq_true, isOk_iff, List.any_eq_true] at this
    obtain ⟨⟨hs, hl⟩, e, _, hn⟩ := this
    refine ⟨fun dir stem hdir hstem => ?_, e.2.1, hn⟩
    rw [findPlugin_by_suffix _ _ _ _ _ _ _ hd hdir hstem hs, hl]
  · intro base dflt n k s hb he hs dir stem hdir hstem
    have hd := dhas_of_mem _ _ _ hb
    have := List.all_eq_true.1 (List.all_eq_true.1 h2 _ hb) _ he
    simp only [if_true, hs, Bool.and_eq_true, isOk_iff] at this
    rw [findPlugin_by_suffix _ _ _ _ _ _ _ hd hdir hstem this.1, this.2]

/-- the quantifiers of `C17_suffix_eq_name` range over something: five reader suffixes, e.g. `.bibtexml` -/
theorem C17_suffix_eq_name_nonvacuous :
    ("pybtex.database.input".toList, "bibtex".toList) ∈ Gen.defaultPlugins ∧
    ("pybtex.database.input.suffixes".toList, ".bibtexml".toList, "pybtex.database.input.bibtexml:Parser".toList)
      ∈ Gen.installedPlugins ∧
    goodDir "/tmp/a.b/".toList = true ∧ goodStem "..x.y".toList = true ∧
    findPlugin Gen.installedPlugins Gen.defaultPlugins [] "pybtex.database.input".toList .none
      (some "/tmp/a.b/..x.y.bibtexml".toList) = .ok "pybtex.database.input.bibtexml:Parser".toList ∧
    findPlugin Gen.installedPlugins Gen.defaultPlugins [] "pybtex.database.input".toList
      (.str "bibtexml".toList) none = .ok "pybtex.database.input.bibtexml:Parser".toList := by
  decide +kernel

/-- The regenerated tables are well formed: no (group, name) twice, every group is a base group of
`_DEFAULT_PLUGINS` or its `.aliases` / `.suffixes` companion, every default plug-in exists, and what
`importlib.metadata` reports is what /repo/setup.py declares.  (How the installed reader / writer classes
are wired is checked in `Props/WiringC17.lean`.) -/
theorem C17_tables_wf :
    keysNodup Gen.installedPlugins = true ∧
    groupsKnown Gen.installedPlugins Gen.defaultPlugins = true ∧
    defaultsExist Gen.installedPlugins Gen.defaultPlugins = true ∧
    Gen.installedPlugins = Gen.declaredPlugins := by
  refine ⟨by decide +kernel, by decide +kernel, by decide +kernel, by decide +kernel⟩

/-! ## the run-time registry -/

/-- **Run-time plug-ins**, in the registry reached by ANY history of calls from the empty registry,
for any installed table, and any key `(g, n)` that passes the argument checks:
(a) if the key is free (neither registered nor installed) or the call is forced, `register_plugin`
    returns `True`, afterwards exactly that key yields `k`, and every other key is untouched;
(b) if the key is taken and the call is not forced, it returns `False` and changes nothing — this covers
    the second registration of a run-time plug-in as well as an installed entry;
(c) (a) and (b) are the behaviour of the one-table reference, for the whole history (results and
    final table). -/
theorem C17_runtime_plugins (tbl : Installed) (defaults : List (Str × Str)) (ops : List PlugOp)
    (g n : Str) (k : Cls) (base : Str)
    (hb : baseGroup g n = .ok base) (hd : dhas defaults base = true) :
    let R := (plugRun tbl defaults [] ops).1
    (∀ force, (eff tbl R g n = none ∨ force = true) →
        ∃ R', registerPlugin tbl defaults R g n k force = .ok (R', true) ∧
          loadEntryPoint tbl R' g n false = .ok k ∧
          ∀ g' n', ¬ (g' = g ∧ n' = n) →
            loadEntryPoint tbl R' g' n' false = loadEntryPoint tbl R g' n' false) ∧
    (∀ k0, eff tbl R g n = some k0 →
        registerPlugin tbl defaults R g n k false = .ok (R, false) ∧
        loadEntryPoint tbl R g n false = .ok k0) ∧
    (eff tbl R = (specRun defaults (installedLookup tbl) ops).1 ∧
      (plugRun tbl defaults [] ops).2 = (specRun defaults (installedLookup tbl) ops).2) := by
  intro R
  refine ⟨?_, ?_, ?_⟩
  · intro force hfree
    obtain ⟨R', h1, h2⟩ := registerPlugin_refines tbl defaults R g n k force base hb hd
    have hreg : Spec.Plugins.register (eff tbl R) g n k force
        = (fun g' n' => if g' = g ∧ n' = n then some k else eff tbl R g' n', true) := by
      simp only [Spec.Plugins.register]
      rcases hfree with hf | hf
      · simp [hf]
      · simp [hf]
    rw [hreg] at h1 h2
    refine ⟨R', h1, ?_, ?_⟩
    · rw [loadEntryPoint_exact, h2]; simp [Spec.Plugins.load, optToExcept]
    · intro g' n' hne
      rw [loadEntryPoint_exact, loadEntryPoint_exact, h2]
      simp [Spec.Plugins.load, hne]
  · intro k0 hk
    obtain ⟨R', h1, _⟩ := registerPlugin_refines tbl defaults R g n k false base hb hd
    have hreg : Spec.Plugins.register (eff tbl R) g n k false = (eff tbl R, false) := by
      simp [Spec.Plugins.register, hk]
    constructor
    · -- the registry itself is unchanged, not only its meaning
      have hsome : ((runtimeGet R g n).isSome || (installedLookup tbl g n).isSome) = true := by
        simp only [eff] at hk
        cases hr : runtimeGet R g n with
        | some x => simp
        | none => simp only [hr] at hk; simp [hk]
      simp [registerPlugin, hb, hd, hsome]
    · rw [loadEntryPoint_exact]; simp [Spec.Plugins.load, hk, optToExcept]
  · have := plugRun_refines tbl defaults [] ops
    rw [eff_nil] at this
    exact this

theorem C17_runtime_plugins_nonvacuous :
    let tbl := Gen.installedPlugins
    let dfl := Gen.defaultPlugins
    let g := "pybtex.style.formatting".toList
    baseGroup g "yippikayee".toList = .ok g ∧ dhas dfl g = true ∧
    (plugRun tbl dfl []
      [.register g "yippikayee".toList "K1".toList false,
       .find g (.str "yippikayee".toList) none,
       .register g "yippikayee".toList "K2".toList false,
       .find g (.str "yippikayee".toList) none,
       .register g "yippikayee".toList "K2".toList true,
       .find g (.str "yippikayee".toList) none,
       .register g "plain".toList "K2".toList false,
       .find g (.str "plain".toList) none]).2
    = [.bool true, .cls "K1".toList, .bool false, .cls "K1".toList, .bool true, .cls "K2".toList,
       .bool false, .cls "pybtex.style.formatting.plain:Style".toList] := by
  decide +kernel

/-- **Found exactly like installed ones.**  After a successful registration (any earlier registry `R`):
a name is found by name; an alias is found by name as long as no real name of the base group hides it
(the same precedence installed names have over installed aliases); a suffix is found from every file
name `dir/stem.sfx`. -/
theorem C17_runtime_found_like_installed (tbl : Installed) (defaults : List (Str × Str)) (R R' : Registry)
    (base : Str) (c : Char) (n : Str) (k : Cls) (force : Bool) (hd : dhas defaults base = true) :
    (registerPlugin tbl defaults R base (c :: n) k force = .ok (R', true) →
        findPlugin tbl defaults R' base (.str (c :: n)) none = .ok k) ∧
    (registerPlugin tbl defaults R (base ++ ".aliases".toList) (c :: n) k force = .ok (R', true) →
        eff tbl R' base (c :: n) = none →
        findPlugin tbl defaults R' base (.str (c :: n)) none = .ok k) ∧
    (registerPlugin tbl defaults R (base ++ ".suffixes".toList) (c :: n) k force = .ok (R', true) →
        goodSuffix (c :: n) = true →
        ∀ dir stem, goodDir dir = true → goodStem stem = true →
          findPlugin tbl defaults R' base .none (some (dir ++ stem ++ c :: n)) = .ok k) := by
  have key : ∀ g, registerPlugin tbl defaults R g (c :: n) k force = .ok (R', true) →
      eff tbl R' g (c :: n) = some k := by
    intro g h
    unfold registerPlugin at h
    cases hb : baseGroup g (c :: n) with
    | error e => simp [hb] at h
    | ok b =>
      simp only [hb] at h
      split at h
      · cases h
      · split at h
        · cases h
        · simp only [Except.ok.injEq, Prod.mk.injEq, and_true] at h
          subst h
          simp [eff, runtimeGet_runtimeSet]
  have hdg : ∃ dflt, dget defaults base = some dflt := by
    simp only [dhas] at hd
    cases hg : dget defaults base with
    | none => simp [hg] at hd
    | some x => exact ⟨x, rfl⟩
  obtain ⟨dflt, hdg⟩ := hdg
  refine ⟨fun h => ?_, fun h hfree => ?_, fun h hs dir stem hdir hstem => ?_⟩
  · simp only [findPlugin, hdg, loadEntryPoint_aliases, Spec.Plugins.findName, key _ h, optToExcept]
  · simp only [findPlugin, hdg, loadEntryPoint_aliases, Spec.Plugins.findName, hfree, key _ h, optToExcept]
  · rw [findPlugin_by_suffix _ _ _ _ _ _ _ hd hdir hstem hs, loadEntryPoint_exact]
    simp only [Spec.Plugins.load, key _ h, optToExcept]

/-- **Installed entries are never shadowed unless forced**: after ANY history in which no registration
is forced, every installed key still yields its installed class. -/
theorem C17_installed_not_shadowed (tbl : Installed) (defaults : List (Str × Str)) (ops : List PlugOp)
    (hu : unforced ops = true) (g n : Str) (k0 : Cls) (hi : installedLookup tbl g n = some k0) :
    loadEntryPoint tbl (plugRun tbl defaults [] ops).1 g n false = .ok k0 := by
  have hns := noShadow_run tbl defaults [] ops (noShadow_nil tbl) hu
  rw [loadEntryPoint_exact]
  simp only [Spec.Plugins.load, eff]
  cases hr : runtimeGet (plugRun tbl defaults [] ops).1 g n with
  | none => simp [hi, optToExcept]
  | some x =>
    have := hns g n (by simp [hr])
    rw [hi] at this; cases this

/-- … and forcing is what it takes: one forced registration on an installed key replaces it. -/
theorem C17_installed_not_shadowed_nonvacuous :
    let g := "pybtex.database.input".toList
    installedLookup Gen.installedPlugins g "yaml".toList = some "pybtex.database.input.bibyaml:Parser".toList ∧
    unforced [.register g "yaml".toList "K".toList false, .register (g ++ ".aliases".toList) "yaml".toList "K".toList false] = true ∧
    loadEntryPoint Gen.installedPlugins
      (plugRun Gen.installedPlugins Gen.defaultPlugins [] [.register g "yaml".toList "K".toList true]).1
      g "yaml".toList false = .ok "K".toList := by
  decide +kernel

/-! ## opening files -/

/-- **Open faults.**  For every world (`env` is arbitrary, so every pattern of failures), every name,
mode and encoding:
(1) a file-like object comes back untouched and nothing is opened;
(2) whatever fails, the error is the pybtex error for the name the caller gave;
(3) reading: one attempt — at the name if it is a file, else at what `kpsewhich` finds, else at the name;
    failure of the attempt, or of running `kpsewhich`, is the pybtex error carrying that failure's text;
(4) writing: success of the first attempt is success; on failure, without `TEXMFOUTPUT` the error is
    immediate (one attempt); with it there is a second attempt at `posixpath.join(TEXMFOUTPUT, name)`,
    whose success is success, and whose failure reports the FIRST failure, for the original name. -/
theorem C17_open_faults {H S : Type} (env : Env H) (p : Path) (mode : Str) (kw : Option Str) :
    (∀ s : S, pyOpen env (.stream s) mode kw = ([], .ok (.passthrough s))) ∧
    (∀ e, (pyOpen (S := S) env (.path p) mode kw).2 = .error e → e.filename = p) ∧
    (mode.contains 'w' = false →
      (env.isFile p = true →
        pyOpen (S := S) env (.path p) mode kw = ([.tryOpen p mode kw],
          match env.opener p mode kw with
          | .ok h => .ok (.handle h)
          | .error e => .error ⟨p, e.strerror⟩)) ∧
      (env.isFile p = false →
        (∀ e, env.locate p = .error e →
          pyOpen (S := S) env (.path p) mode kw = ([.locate p], .error ⟨p, e.strerror⟩)) ∧
        (∀ found, env.locate p = .ok found →
          let target := match found with | some q => if q.isEmpty then p else q | none => p
          pyOpen (S := S) env (.path p) mode kw = ([.locate p, .tryOpen target mode kw],
            match env.opener target mode kw with
            | .ok h => .ok (.handle h)
            | .error e => .error ⟨p, e.strerror⟩)))) ∧
    (mode.contains 'w' = true →
      (∀ h, env.opener p mode kw = .ok h →
        pyOpen (S := S) env (.path p) mode kw = ([.tryOpen p mode kw], .ok (.handle h))) ∧
      (∀ e1, env.opener p mode kw = .error e1 →
        (dget env.environ "TEXMFOUTPUT".toList = none →
          pyOpen (S := S) env (.path p) mode kw = ([.tryOpen p mode kw], .error ⟨p, e1.strerror⟩)) ∧
        (∀ dir, dget env.environ "TEXMFOUTPUT".toList = some dir →
          (∀ h, env.opener (posixJoin dir p) mode kw = .ok h →
            pyOpen (S := S) env (.path p) mode kw
              = ([.tryOpen p mode kw, .tryOpen (posixJoin dir p) mode kw], .ok (.handle h))) ∧
          (∀ e2, env.opener (posixJoin dir p) mode kw = .error e2 →
            pyOpen (S := S) env (.path p) mode kw
              = ([.tryOpen p mode kw, .tryOpen (posixJoin dir p) mode kw], .error ⟨p, e1.strerror⟩))))) := by
  refine ⟨fun s => rfl, ?_, ?_, ?_⟩
  · intro e he
    simp only [pyOpen] at he
    split at he
    · cases he
    · cases he; rfl
  · intro hm
    refine ⟨fun hf => ?_, fun hf => ⟨fun e he => ?_, fun found hfound => ?_⟩⟩
    · simp only [pyOpen, hm, Bool.false_eq_true, if_false, openExisting, hf, if_true]
      cases env.opener p mode kw <;> rfl
    · simp only [pyOpen, hm, Bool.false_eq_true, if_false, openExisting, hf, he]
    · simp only [pyOpen, hm, Bool.false_eq_true, if_false, openExisting, hf, hfound]
      cases env.opener _ mode kw <;> rfl
  · intro hm
    refine ⟨fun h hh => ?_, fun e1 he1 => ⟨fun hnone => ?_, fun dir hdir => ⟨fun h hh => ?_, fun e2 he2 => ?_⟩⟩⟩
    · simp only [pyOpen, hm, if_true, openOrCreate, hh]
    · simp only [pyOpen, hm, if_true, openOrCreate, he1, hnone]
    · simp only [pyOpen, hm, if_true, openOrCreate, he1, hdir, hh]
    · simp only [pyOpen, hm, if_true, openOrCreate, he1, hdir, he2]

/-- every branch of `C17_open_faults` is inhabited by the toy world: read of an existing file, read of a
missing one, write that succeeds at once, write that succeeds at the fall-back, write that fails twice -/
theorem C17_open_faults_nonvacuous :
    pyOpen (S := Unit) Toy.env (.path "f.bib".toList) "rb".toList none
      = ([.tryOpen "f.bib".toList "rb".toList none], .ok (.handle "f.bib".toList)) ∧
    pyOpen (S := Unit) Toy.env (.path "g.bib".toList) "rb".toList none
      = ([.locate "g.bib".toList, .tryOpen "g.bib".toList "rb".toList none],
         .error ⟨"g.bib".toList, "No such file or directory".toList⟩) ∧
    pyOpen (S := Unit) Toy.env (.path "/out/a.bbl".toList) "w".toList none
      = ([.tryOpen "/out/a.bbl".toList "w".toList none], .ok (.handle "/out/a.bbl".toList)) ∧
    pyOpen (S := Unit) Toy.env (.path "a.bbl".toList) "w".toList none
      = ([.tryOpen "a.bbl".toList "w".toList none, .tryOpen "/out/a.bbl".toList "w".toList none],
         .ok (.handle "/out/a.bbl".toList)) ∧
    pyOpen (S := Unit) Toy.envRO (.path "a.bbl".toList) "w".toList none
      = ([.tryOpen "a.bbl".toList "w".toList none, .tryOpen "/ro/a.bbl".toList "w".toList none],
         .error ⟨"a.bbl".toList, "Permission denied".toList⟩) ∧
    (OpenErr.message ⟨"a.bbl".toList, "Permission denied".toList⟩) = "unable to open a.bbl. Permission denied".toList := by
  refine ⟨by decide +kernel, by decide +kernel, by decide +kernel, by decide +kernel, by decide +kernel, by decide +kernel⟩

/-- The fall-back path is the directory, a slash, the name — for a relative name and a directory that
does not already end in a slash; an absolute name is retried as it is (as `posixpath.join` has it). -/
theorem C17_fallback_path (dir p : Path) :
    (p.head? ≠ some '/' → dir ≠ [] → dir.getLast? ≠ some '/' → posixJoin dir p = dir ++ '/' :: p) ∧
    (p.head? = some '/' → posixJoin dir p = p) := by
  constructor
  · intro h1 h2 h3
    simp [posixJoin, h1, h2, h3]
  · intro h; simp [posixJoin, h]

end Pybtex.Props
