/-
C17 — string / bytes / stream / file entry points agree; I/O faults become pybtex errors.

Property theorems only.  Model: `Model/IO.lean` (follows /repo with the proposed fixes C17-1..3),
reference for the plug-in registry: `Spec/Plugins.lean`, helper lemmas and the Boolean table checks:
`Lemmas/IO.lean`, regenerated tables: `Gen/Plugins.lean`, `Gen/PluginClasses.lean`.

Abstract throughout (parameters of every statement): the codec, the plug-in's own parsing / printing
core, ElementTree, the opener, the bytes behind a handle, kpsewhich, the environment.
-/
import PybtexModel.Lemmas.IO
import PybtexModel.Gen.Plugins

namespace Pybtex.Props
open Pybtex Pybtex.IO

/-! ## readers -/

/-- **What a file adds to a string: universal newlines, and nothing else.**  For every reader class, when
the name is a file, the ONE `open` call `parse_file` makes succeeds and the file holds `enc s`:
a `unicode_io` class parses the file as it parses the string `univNl s` — `s` with every `\r\n` and lone
`\r` turned into `\n` by the text-mode file — and a byte class as it parses `s`.  The translated text
contains no carriage return, and a text without carriage return is not changed. -/
theorem C17_parse_file_newlines {Db E H : Type}
    (k : ReaderKind)
    (core : ReaderCore Db E) (c : Codec) (encName : Str) (env : Env H) (content : H → Bytes)
    (data : Db) (s : Str) (p : Path) (h : H)
    (hrt : c.dec (c.enc s) = .ok s)
    (hfile : env.isFile p = true)
    (hopen : env.opener (.str p) (if k.unicodeIO then ['r'] else ['r', 'b'])
      (if k.unicodeIO then some encName else none) = .ok h)
    (hcontent : content h = c.enc s) :
    (parseFile k core c encName env content data (.path p) none).2
      = parseString k core c data (if k.unicodeIO then univNl s else s) ∧
    '\r' ∉ univNl s ∧ ('\r' ∉ s → univNl s = s) := by
  refine ⟨?_, noCR_univNl s, univNl_of_noCR s⟩
  cases k with
  | bibtex =>
    simp only [ReaderKind.unicodeIO, if_true] at hopen
    simp [parseFile, ReaderKind.unicodeIO, openUnicode, pyOpen, openExisting, hfile, hopen, readOpened,
      hcontent, hrt, parseStream, parseString]
  | base u =>
    cases u
    · simp only [ReaderKind.unicodeIO, Bool.false_eq_true, if_false] at hopen
      simp [parseFile, ReaderKind.unicodeIO, openRaw, pyOpen, openExisting, hfile, hopen, readOpened,
        hcontent, parseStream, parseString]
    · simp only [ReaderKind.unicodeIO, if_true] at hopen
      simp [parseFile, ReaderKind.unicodeIO, openUnicode, pyOpen, openExisting, hfile, hopen, readOpened,
        hcontent, hrt, parseStream, parseString]

/-- a document with both kinds of line end: the text class is handed the translated text -/
theorem C17_parse_file_newlines_nonvacuous :
    let s := "a\r\nb\rc\n".toList
    let content : PathArg → Bytes := fun _ => Toy.enc s
    univNl s = "a\nb\nc\n".toList ∧
    (parseFile (.base true) Toy.reader Toy.codec "L1".toList Toy.env content [] (.path "f.bib".toList) none).2
      = .ok [.text "a\nb\nc\n".toList] ∧
    (parseFile (.base false) Toy.reader Toy.codec "L1".toList Toy.env content [] (.path "f.bib".toList) none).2
      = .ok [.binary (Toy.enc s)] := by
  intro s content
  have h1 := (C17_parse_file_newlines (.base true) Toy.reader Toy.codec "L1".toList Toy.env content [] s
    "f.bib".toList (.str "f.bib".toList) (by decide) (by decide) (by decide) rfl).1
  have h2 := (C17_parse_file_newlines (.base false) Toy.reader Toy.codec "L1".toList Toy.env content [] s
    "f.bib".toList (.str "f.bib".toList) (by decide) (by decide) (by decide) rfl).1
  have hu : univNl s = "a\nb\nc\n".toList := by decide
  refine ⟨hu, ?_, ?_⟩
  · rw [h1]; simp only [ReaderKind.unicodeIO, if_true, hu]; decide
  · rw [h2]; decide

/-- **The same without "the name is a file"** (audit-d, C17 finding 1).  `C17_parse_file_newlines` fixes
WHERE the one `open` call is made (`hfile`: at the name itself).  Here the hypothesis is only that
`pybtex.io._open` — whatever it does: the name itself, the `bytes` path `kpsewhich` printed, the name
again when `kpsewhich` knows nothing (`C17_open_faults` (3), `C17_kpsewhich`) — ends with a handle whose
file holds `enc s`.  Conclusion as before: text classes see `univNl s`, byte classes see `s`. -/
theorem C17_parse_file_any_location {Db E H : Type}
    (k : ReaderKind)
    (core : ReaderCore Db E) (c : Codec) (encName : Str) (env : Env H) (content : H → Bytes)
    (data : Db) (s : Str) (p : Path) (h : H)
    (hrt : c.dec (c.enc s) = .ok s)
    (hopen : (pyOpen (S := Stream) env (.path p) (if k.unicodeIO then ['r'] else ['r', 'b'])
      (if k.unicodeIO then some encName else none)).2 = .ok (.handle h))
    (hcontent : content h = c.enc s) :
    (parseFile k core c encName env content data (.path p) none).2
      = parseString k core c data (if k.unicodeIO then univNl s else s) ∧
    (('\r' ∉ s ∨ k.unicodeIO = false) →
      (parseFile k core c encName env content data (.path p) none).2 = parseString k core c data s) := by
  have main : (parseFile k core c encName env content data (.path p) none).2
      = parseString k core c data (if k.unicodeIO then univNl s else s) := by
    cases k with
    | bibtex =>
      simp only [ReaderKind.unicodeIO, if_true] at hopen
      simp [parseFile, ReaderKind.unicodeIO, openUnicode, hopen, readOpened,
        hcontent, hrt, parseStream, parseString]
    | base u =>
      cases u
      · simp only [ReaderKind.unicodeIO, Bool.false_eq_true, if_false] at hopen
        simp [parseFile, ReaderKind.unicodeIO, openRaw, hopen, readOpened,
          hcontent, parseStream, parseString]
      · simp only [ReaderKind.unicodeIO, if_true] at hopen
        simp [parseFile, ReaderKind.unicodeIO, openUnicode, hopen, readOpened,
          hcontent, hrt, parseStream, parseString]
  refine ⟨main, fun hcr => ?_⟩
  rw [main]
  rcases hcr with hcr | hcr
  · cases hu : k.unicodeIO with
    | false => simp
    | true => simp only [if_true]; rw [univNl_of_noCR s hcr]
  · simp [hcr]

/-- `C17_parse_file_any_location` instantiated where `C17_parse_file_newlines` does not apply: `g.bib`
is NOT a file of the toy world, `kpsewhich` prints `/texmf/g.bib`, and that `bytes` path is what is
opened (the events say so); the document has both kinds of line end. -/
theorem C17_parse_file_any_location_nonvacuous :
    let s := "a\r\nb\rc\n".toList
    let content : PathArg → Bytes := fun _ => Toy.enc s
    Toy.env.isFile "g.bib".toList = false ∧
    parseFile (.base true) Toy.reader Toy.codec "L1".toList Toy.env content [] (.path "g.bib".toList) none
      = ([.locate "g.bib".toList, .tryOpen (.bytes (Toy.enc "/texmf/g.bib".toList)) "r".toList (some "L1".toList)],
         .ok [.text "a\nb\nc\n".toList]) ∧
    (parseFile (.base false) Toy.reader Toy.codec "L1".toList Toy.env content [] (.path "g.bib".toList) none).2
      = parseString (.base false) Toy.reader Toy.codec [] s := by
  intro s content
  have h2 := (C17_parse_file_any_location (.base false) Toy.reader Toy.codec "L1".toList Toy.env content [] s
    "g.bib".toList (.bytes (Toy.enc "/texmf/g.bib".toList)) (by decide) (by decide +kernel) rfl).2 (Or.inr rfl)
  exact ⟨by decide, by decide +kernel, h2⟩

/-- **Parse entry points** (BaseParser with both `unicode_io` values, and the classes whose `parse_string`
is the text core: BibTeX, and BibTeXML after fix C17-4).
If the encoding can represent the text (`dec (enc s) = s` — the ONLY fact about the codec that is used)
and, for a `unicode_io` class, the text contains no carriage return (`hnl`, a decidable condition; what
happens otherwise is `C17_parse_file_newlines`), then parsing the encoded bytes, a stream holding the
document, a file-like object, a file containing the bytes, and `parse_files` with the name split into
base + suffix, are all the same computation as parsing the string: same database, same error.
About the world only this is assumed: the name is a file, and the ONE `open` call `parse_file` makes (text
mode with the encoding, or `rb`) succeeds and yields those bytes. -/
theorem C17_parse_entry_points {Db E H : Type}
    (k : ReaderKind)
    (core : ReaderCore Db E) (c : Codec) (encName : Str) (env : Env H) (content : H → Bytes)
    (data : Db) (s : Str) (p : Path) (h : H)
    (hrt : c.dec (c.enc s) = .ok s)
    (hnl : k.unicodeIO = true → '\r' ∉ s)
    (hfile : env.isFile p = true)
    (hopen : env.opener (.str p) (if k.unicodeIO then ['r'] else ['r', 'b'])
      (if k.unicodeIO then some encName else none) = .ok h)
    (hcontent : content h = c.enc s) :
    parseBytes k core c data (c.enc s) = parseString k core c data s ∧
    parseStream k core data (docStream k c s) = parseString k core c data s ∧
    (parseFile k core c encName env content data (.stream (docStream k c s)) none).2 = parseString k core c data s ∧
    (parseFile k core c encName env content data (.path p) none).2 = parseString k core c data s ∧
    (∀ base sfx, base ++ sfx = p →
      (parseFiles k core c encName env content (some sfx) data [base]).2 = parseString k core c data s) := by
  have hfilePath : (parseFile k core c encName env content data (.path p) none).2 = parseString k core c data s := by
    rw [(C17_parse_file_newlines k core c encName env content data s p h hrt hfile hopen hcontent).1]
    cases hu : k.unicodeIO with
    | false => simp
    | true => simp only [if_true]; rw [univNl_of_noCR s (hnl hu)]
  refine ⟨?_, ?_, ?_, hfilePath, ?_⟩
  · cases k with
    | bibtex => simp [parseBytes, ReaderKind.unicodeIO, hrt]
    | base u => cases u <;> simp [parseBytes, parseString, ReaderKind.unicodeIO, hrt]
  · cases k with
    | bibtex => simp [docStream, ReaderKind.unicodeIO, parseStream, parseString]
    | base u => cases u <;> simp [docStream, ReaderKind.unicodeIO, parseStream, parseString]
  · cases k with
    | bibtex =>
      simp [parseFile, docStream, ReaderKind.unicodeIO, openUnicode, pyOpen, readOpened, parseStream, parseString]
    | base u =>
      cases u <;>
      simp [parseFile, docStream, ReaderKind.unicodeIO, openUnicode, openRaw, pyOpen, readOpened, parseStream, parseString]
  · intro base sfx hp
    subst hp
    have : (parseFile k core c encName env content data (.path base) (some sfx)).2 =
        (parseFile k core c encName env content data (.path (base ++ sfx)) none).2 := by
      simp [parseFile]
    simp only [parseFiles]
    rw [← hfilePath, ← this]
    cases (parseFile k core c encName env content data (.path base) (some sfx)).2 <;> rfl

/-- `C17_parse_entry_points` INSTANTIATED in a concrete world (the hypotheses are discharged by
evaluation), for both `unicode_io` values and a non-ASCII document; the common result is the core's
answer on the document. -/
theorem C17_parse_entry_points_nonvacuous :
    let s := "@a{k, t = {café}}".toList
    let content : PathArg → Bytes := fun _ => Toy.enc s
    ((parseFile (.base true) Toy.reader Toy.codec "L1".toList Toy.env content [] (.path "f.bib".toList) none).2
        = parseString (.base true) Toy.reader Toy.codec [] s ∧
      parseBytes (.base true) Toy.reader Toy.codec [] (Toy.enc s) = parseString (.base true) Toy.reader Toy.codec [] s) ∧
    ((parseFile (.base false) Toy.reader Toy.codec "L1".toList Toy.env content [] (.path "f.bib".toList) none).2
        = parseString (.base false) Toy.reader Toy.codec [] s ∧
      (parseFiles (.base false) Toy.reader Toy.codec "L1".toList Toy.env content (some ".bib".toList) [] ["f".toList]).2
        = parseString (.base false) Toy.reader Toy.codec [] s) ∧
    parseString (.base true) Toy.reader Toy.codec [] s = .ok [.text s] ∧
    parseString (.base false) Toy.reader Toy.codec [] s = .ok [.binary (Toy.enc s)] := by
  intro s content
  have h1 := C17_parse_entry_points (.base true) Toy.reader Toy.codec "L1".toList Toy.env content [] s
    "f.bib".toList (.str "f.bib".toList) (by decide) (fun _ => by decide) (by decide) (by decide) rfl
  have h2 := C17_parse_entry_points (.base false) Toy.reader Toy.codec "L1".toList Toy.env content [] s
    "f.bib".toList (.str "f.bib".toList) (by decide) (fun _ => by decide) (by decide) (by decide) rfl
  exact ⟨⟨h1.2.2.2.1, h1.1⟩, ⟨h2.2.2.2.1, h2.2.2.2.2 "f".toList ".bib".toList (by decide)⟩, by decide, by decide⟩

/-- **Parse entry points, BibTeXML** (the reader after fix C17-4: a `unicode_io` class whose `parse_string`
hands the text to ElementTree).  The bytes the BibTeXML writer produces for the text `s` are the DECLARED
document `enc (xmlDecl name ++ s ++ "\n")`.  Hypotheses, all explicit:
`hrt`   the codec named by `encoding` represents that document (`dec (enc doc) = doc`) — nothing is assumed
        about HOW the codec is called (`utf8`, `U8`, `utf-8-sig`, `utf-32`, `utf-16-le` … all qualify);
`hdecl` ElementTree, given a `str`, ignores the XML declaration in it (it reads the declared text as it
        reads the text);
`hnl`   the declared document contains no carriage return (otherwise: `C17_parse_file_newlines`);
and the one `open` call succeeds.  Then `parse_bytes`, `parse_stream`, a file-like object and a file
containing those bytes all equal `parse_string s`.
(For the UNDECLARED bytes `enc s` the same holds without `hdecl`: that is `C17_parse_entry_points` with
`k = .bibtex`.) -/
theorem C17_parse_entry_points_bibtexml {Db E H : Type}
    (core : ReaderCore Db E) (c : Codec) (encName : Str) (env : Env H) (content : H → Bytes)
    (data : Db) (s : Str) (p : Path) (h : H)
    (hrt : c.dec (c.enc (xmlDecl encName ++ s ++ ['\n'])) = .ok (xmlDecl encName ++ s ++ ['\n']))
    (hdecl : core.parseText data (xmlDecl encName ++ s ++ ['\n']) = core.parseText data s)
    (hnl : '\r' ∉ xmlDecl encName ++ s ++ ['\n'])
    (hfile : env.isFile p = true)
    (hopen : env.opener (.str p) ['r'] (some encName) = .ok h)
    (hcontent : content h = c.enc (xmlDecl encName ++ s ++ ['\n'])) :
    parseBytes .bibtex core c data (c.enc (xmlDecl encName ++ s ++ ['\n'])) = parseString .bibtex core c data s ∧
    parseStream .bibtex core data (.text (xmlDecl encName ++ s ++ ['\n'])) = parseString .bibtex core c data s ∧
    (parseFile .bibtex core c encName env content data (.stream (.text (xmlDecl encName ++ s ++ ['\n']))) none).2
      = parseString .bibtex core c data s ∧
    (parseFile .bibtex core c encName env content data (.path p) none).2
      = parseString .bibtex core c data s := by
  have key : parseString .bibtex core c data (xmlDecl encName ++ s ++ ['\n']) = parseString .bibtex core c data s := by
    simp only [parseString, hdecl]
  have := C17_parse_entry_points .bibtex core c encName env content data (xmlDecl encName ++ s ++ ['\n']) p h
    hrt (fun _ => hnl) hfile hopen hcontent
  rw [key] at this
  exact ⟨this.1, this.2.1, this.2.2.1, this.2.2.2.1⟩

/-- `C17_parse_entry_points_bibtexml` instantiated: Latin-1-like codec called `utf8` in the declaration. -/
theorem C17_parse_entry_points_bibtexml_nonvacuous :
    let s := "<f>café</f>".toList
    let doc := xmlDecl "utf8".toList ++ s ++ ['\n']
    let content : PathArg → Bytes := fun _ => Toy.enc doc
    parseBytes .bibtex Toy.reader Toy.codec ([] : List Stream) (Toy.enc doc)
      = parseString .bibtex Toy.reader Toy.codec [] s ∧
    (parseFile .bibtex Toy.reader Toy.codec "utf8".toList Toy.env content [] (.path "f.bib".toList) none).2
      = parseString .bibtex Toy.reader Toy.codec [] s ∧
    parseString .bibtex Toy.reader Toy.codec ([] : List Stream) s = .ok [.text s] := by
  intro s doc content
  have h := C17_parse_entry_points_bibtexml Toy.reader Toy.codec "utf8".toList Toy.env content [] s
    "f.bib".toList (.str "f.bib".toList) (by decide) (by decide) (by decide) (by decide) (by decide) rfl
  exact ⟨h.1, h.2.2.2, by decide⟩

/-- **`parse_files` is the sequential composition of `parse_file` on one parser.**
No file: the database is returned as it is and nothing is opened.  A list `fs1 ++ fs2`: first `fs1`, then
(on the database that produced, with its events first) `fs2`.  A failure in the middle: when the files of
`fs1` were read and the next file `f` fails, the call fails with THAT error, the events are those of
`fs1` followed by those of the failing attempt, and no file after `f` is ever looked at. -/
theorem C17_parse_files {Db E H : Type}
    (k : ReaderKind) (core : ReaderCore Db E) (c : Codec) (encName : Str) (env : Env H) (content : H → Bytes)
    (sfx : Option Str) (data : Db) :
    parseFiles k core c encName env content sfx data [] = ([], .ok data) ∧
    (∀ f, parseFiles k core c encName env content sfx data [f]
        = parseFile k core c encName env content data (.path f) sfx) ∧
    (∀ fs1 fs2 d', (parseFiles k core c encName env content sfx data fs1).2 = .ok d' →
        parseFiles k core c encName env content sfx data (fs1 ++ fs2) =
          ((parseFiles k core c encName env content sfx data fs1).1 ++
              (parseFiles k core c encName env content sfx d' fs2).1,
            (parseFiles k core c encName env content sfx d' fs2).2)) ∧
    (∀ fs1 f fs2 d' e, (parseFiles k core c encName env content sfx data fs1).2 = .ok d' →
        (parseFile k core c encName env content d' (.path f) sfx).2 = .error e →
        parseFiles k core c encName env content sfx data (fs1 ++ f :: fs2) =
          ((parseFiles k core c encName env content sfx data fs1).1 ++
              (parseFile k core c encName env content d' (.path f) sfx).1, .error e)) := by
  refine ⟨rfl, ?_, ?_, ?_⟩
  · intro f
    simp only [parseFiles]
    generalize parseFile k core c encName env content data (.path f) sfx = r
    obtain ⟨ev, res⟩ := r
    cases res <;> simp
  · intro fs1 fs2 d' h
    rw [parseFiles_append, h]
  · intro fs1 f fs2 d' e h hf
    rw [parseFiles_append, h]
    simp only [parseFiles, hf]

/-- three files, the second one missing: the first is read, the error is the second one's, the third is
never opened (its name does not occur among the events) -/
theorem C17_parse_files_nonvacuous :
    let content : PathArg → Bytes := fun _ => Toy.enc "x".toList
    parseFiles (.base false) Toy.reader Toy.codec "L1".toList Toy.env content (some ".bib".toList) []
        ["f".toList, "h".toList, "f".toList]
      = ([.tryOpen (.str "f.bib".toList) "rb".toList none, .locate "h.bib".toList,
          .tryOpen (.str "h.bib".toList) "rb".toList none],
         .error (.open ⟨"h.bib".toList, "No such file or directory".toList⟩)) ∧
    parseFiles (.base false) Toy.reader Toy.codec "L1".toList Toy.env content (some ".bib".toList) []
        ["f".toList, "f".toList]
      = ([.tryOpen (.str "f.bib".toList) "rb".toList none, .tryOpen (.str "f.bib".toList) "rb".toList none],
         .ok [.binary (Toy.enc "x".toList), .binary (Toy.enc "x".toList)]) := by
  refine ⟨by decide +kernel, by decide +kernel⟩

/-! ## writers -/

/-- **Write entry points** (BaseWriter, both `unicode_io` values) — the clauses that hold without proviso.
`unicode_io` classes: `to_bytes` is `to_string` encoded, error for error.
Byte classes: `to_string` is `to_bytes` decoded; so `to_bytes` is `to_string` encoded as soon as the codec
re-encodes what it decodes; and `write_file` to a name that can be opened leaves exactly the bytes of
`to_bytes` in that file (after a single open attempt).
Both: a file-like object receives what `write_stream` writes, and an error of the plug-in's core is the
same error from every entry point.  About the world only this is assumed: the ONE `open` call `write_file`
makes (text mode with the encoding, or `wb`) succeeds. -/
theorem C17_write_entry_points {Db E H S : Type}
    (u : Bool) (core : WriterCore Db E) (c utf8 : Codec) (encName : Str) (env : Env H)
    (d : Db) (p : Path) (h : H)
    (hopen : env.opener (.str p) (if u then ['w'] else ['w', 'b']) (if u then some encName else none) = .ok h) :
    (u = true → toBytes (.base u) core c encName d = (toStr (.base u) core c utf8 encName d).map c.enc) ∧
    (u = false → ∀ b, toBytes (.base u) core c encName d = .ok b →
        toStr (.base u) core c utf8 encName d = (c.dec b).mapError WErr.unicodeDecode ∧
        ((∀ b' s', c.dec b' = .ok s' → c.enc s' = b') →
          ∀ s, toStr (.base u) core c utf8 encName d = .ok s → b = c.enc s) ∧
        writeFile (.base u) core c encName env d (.path p : FileArg S)
          = ([.tryOpen (.str p) ['w', 'b'] none], .ok (.file h b))) ∧
    (∀ (st : S) payload, writeStream (.base u) core c encName d = .ok payload →
        writeFile (.base u) core c encName env d (.stream st) = ([], .ok (.stream st payload))) ∧
    (∀ e, toBytes (.base u) core c encName d = .error e →
        (writeFile (.base u) core c encName env d (.path p : FileArg S)).2 = .error e ∧
        toStr (.base u) core c utf8 encName d = .error e) := by
  cases u with
  | true =>
    simp only [if_true] at hopen
    refine ⟨?_, ?_, ?_, ?_⟩
    · intro _
      simp only [toBytes, toStr, writeStream]
      cases core.writeText d <;> rfl
    · intro hu; cases hu
    · intro st payload hp
      simp only [writeStream] at hp
      cases hw : core.writeText d with
      | error e' => simp [hw] at hp
      | ok chunks =>
        simp only [hw, Except.ok.injEq] at hp
        subst hp
        simp [writeFile, WriterKind.unicodeIO, openUnicode, pyOpen, hw]
    · intro e he
      simp only [toBytes, writeStream] at he
      cases hw : core.writeText d with
      | ok s => simp [hw] at he
      | error e' =>
        simp only [hw, Except.error.injEq] at he
        subst he
        simp [writeFile, WriterKind.unicodeIO, openUnicode, pyOpen, openOrCreate, hopen, writeStream, hw, toStr]
  | false =>
    simp only [Bool.false_eq_true, if_false] at hopen
    refine ⟨?_, ?_, ?_, ?_⟩
    · intro hu; cases hu
    · intro _ b hb
      simp only [toBytes, writeStream] at hb
      cases hw : core.writeBytes d with
      | error e => simp [hw] at hb
      | ok b' =>
        simp only [hw, Except.ok.injEq] at hb
        subst hb
        refine ⟨?_, ?_, ?_⟩
        · simp only [toStr, writeStream, hw]
          cases c.dec b' <;> rfl
        · intro hcodec s hs
          simp only [toStr, writeStream, hw] at hs
          cases hdec : c.dec b' with
          | error m => simp [hdec] at hs
          | ok s' =>
            simp only [hdec, Except.ok.injEq] at hs
            subst hs
            exact (hcodec _ _ hdec).symm
        · simp [writeFile, WriterKind.unicodeIO, openRaw, pyOpen, openOrCreate, hopen, writeStream, hw]
    · intro st payload hp
      simp [writeFile, WriterKind.unicodeIO, openRaw, pyOpen, hp]
    · intro e he
      simp only [toBytes, writeStream] at he
      cases hw : core.writeBytes d with
      | ok s => simp [hw] at he
      | error e' =>
        simp only [hw, Except.error.injEq] at he
        subst he
        simp [writeFile, WriterKind.unicodeIO, openRaw, pyOpen, openOrCreate, hopen, writeStream, hw, toStr]

/-- `C17_write_entry_points` INSTANTIATED in the toy world (a byte plug-in and a `unicode_io` plug-in,
non-ASCII document): the hypothesis is discharged by evaluation. -/
theorem C17_write_entry_points_nonvacuous :
    let d := "café\n".toList
    toBytes (.base true) Toy.writer Toy.codec "L1".toList d
      = (toStr (.base true) Toy.writer Toy.codec Toy.codec "L1".toList d).map Toy.codec.enc ∧
    toStr (.base true) Toy.writer Toy.codec Toy.codec "L1".toList d = .ok d ∧
    toStr (.base false) Toy.writer Toy.codec Toy.codec "L1".toList d = .ok d ∧
    writeFile (.base false) Toy.writer Toy.codec "L1".toList Toy.env d (.path "/out/x.bib".toList : FileArg Unit)
      = ([.tryOpen (.str "/out/x.bib".toList) "wb".toList none], .ok (.file (.str "/out/x.bib".toList) (Toy.enc d))) := by
  intro d
  have h1 := C17_write_entry_points (S := Unit) true Toy.writer Toy.codec Toy.codec "L1".toList Toy.env d
    "/out/x.bib".toList (.str "/out/x.bib".toList) (by decide)
  have h2 := C17_write_entry_points (S := Unit) false Toy.writer Toy.codec Toy.codec "L1".toList Toy.env d
    "/out/x.bib".toList (.str "/out/x.bib".toList) (by decide)
  have hb : toBytes (.base false) Toy.writer Toy.codec "L1".toList d = .ok (Toy.enc d) := by decide
  exact ⟨h1.1 rfl, by decide, by decide, (h2.2.1 rfl _ hb).2.2⟩

/-- **`write_file` of a `unicode_io` class writes exactly `to_bytes`** — PROVIDED `write_stream` calls
`stream.write` at least once, or the codec encodes the empty string as no bytes (known finding
`C17-empty-document-bom`: see `C17_write_file_neg`).  One open attempt, in text mode, with the encoding.
`chunks` are the strings handed to `write`; the document is their concatenation. -/
theorem C17_write_file_partial {Db E H S : Type}
    (core : WriterCore Db E) (c : Codec) (encName : Str) (env : Env H)
    (d : Db) (p : Path) (h : H) (hopen : env.opener (.str p) ['w'] (some encName) = .ok h)
    (chunks : List Str) (hdoc : core.writeText d = .ok chunks) (hne : chunks ≠ [] ∨ c.enc [] = []) :
    toStr (.base true) core c c encName d = .ok chunks.flatten ∧
    toBytes (.base true) core c encName d = .ok (c.enc chunks.flatten) ∧
    writeFile (.base true) core c encName env d (.path p : FileArg S)
      = ([.tryOpen (.str p) ['w'] (some encName)], .ok (.file h (c.enc chunks.flatten))) := by
  have htf : textFile c chunks = c.enc chunks.flatten := by
    unfold textFile
    rcases hne with hne | hne
    · cases chunks with
      | nil => exact absurd rfl hne
      | cons x r => rfl
    · cases chunks with
      | nil => simp [hne]
      | cons x r => rfl
  refine ⟨?_, ?_, ?_⟩
  · simp [toStr, writeStream, hdoc]
  · simp [toBytes, writeStream, hdoc]
  · simp [writeFile, WriterKind.unicodeIO, openUnicode, pyOpen, openOrCreate, hopen, hdoc, htf]

/-- `C17_write_file_partial` instantiated three times: a non-empty document; the EMPTY document under a
codec without byte-order mark (second disjunct); and an empty document written with ONE `write("")` call
under a byte-order-mark codec (first disjunct: the file then does hold the mark). -/
theorem C17_write_file_partial_nonvacuous :
    let d := "café\n".toList
    let w1 : WriterCore Str Unit := { Toy.writer with writeText := fun d => .ok [d] }
    writeFile (.base true) Toy.writer Toy.codec "L1".toList Toy.env d (.path "/out/x.bib".toList : FileArg Unit)
      = ([.tryOpen (.str "/out/x.bib".toList) "w".toList (some "L1".toList)],
         .ok (.file (.str "/out/x.bib".toList) (Toy.enc d))) ∧
    writeFile (.base true) Toy.writer Toy.codec "L1".toList Toy.env [] (.path "/out/x.bib".toList : FileArg Unit)
      = ([.tryOpen (.str "/out/x.bib".toList) "w".toList (some "L1".toList)],
         .ok (.file (.str "/out/x.bib".toList) [])) ∧
    writeFile (.base true) w1 Toy.bomCodec "BOM".toList Toy.env [] (.path "/out/x.bib".toList : FileArg Unit)
      = ([.tryOpen (.str "/out/x.bib".toList) "w".toList (some "BOM".toList)],
         .ok (.file (.str "/out/x.bib".toList) [255, 254])) := by
  intro d w1
  have h1 := C17_write_file_partial (S := Unit) Toy.writer Toy.codec "L1".toList Toy.env d "/out/x.bib".toList
    (.str "/out/x.bib".toList) (by decide) [d] rfl (Or.inl (by decide))
  have h2 := C17_write_file_partial (S := Unit) Toy.writer Toy.codec "L1".toList Toy.env [] "/out/x.bib".toList
    (.str "/out/x.bib".toList) (by decide) [] rfl (Or.inr (by decide))
  have h3 := C17_write_file_partial (S := Unit) w1 Toy.bomCodec "BOM".toList Toy.env [] "/out/x.bib".toList
    (.str "/out/x.bib".toList) (by decide) [[]] rfl (Or.inl (by decide))
  refine ⟨?_, h2.2.2, h3.2.2⟩
  have := h1.2.2
  simp only [List.flatten_cons, List.flatten_nil, List.append_nil] at this
  exact this

/-- The proviso of `C17_write_file_partial` cannot be dropped: for the EMPTY document written without any
`write` call (what the BibTeX writer does for an empty database) and a codec that writes a byte-order mark
(as UTF-16 does) `to_bytes` is the mark, while the file written by `write_file` stays empty — "writing to a
file writes exactly those bytes" fails there. -/
theorem C17_write_file_neg :
    toStr (.base true) Toy.writer Toy.bomCodec Toy.codec "BOM".toList [] = .ok [] ∧
    toBytes (.base true) Toy.writer Toy.bomCodec "BOM".toList [] = .ok [255, 254] ∧
    writeFile (.base true) Toy.writer Toy.bomCodec "BOM".toList Toy.env [] (.path "/out/x.bib".toList : FileArg Unit)
      = ([.tryOpen (.str "/out/x.bib".toList) "w".toList (some "BOM".toList)], .ok (.file (.str "/out/x.bib".toList) [])) := by
  refine ⟨by decide, by decide, by decide⟩

/-- **Write entry points, BibTeXML.**  `to_bytes` is the XML declaration naming the encoding, the
`to_string` document and the final newline, encoded; `write_file` leaves exactly those bytes.
(`hshape`: the generated document ends in one newline and has no other outer white space — `to_string`
strips it.) -/
theorem C17_write_entry_points_bibtexml {Db E H S : Type}
    (core : WriterCore Db E) (c utf8 : Codec) (encName : Str) (env : Env H)
    (d : Db) (p : Path) (h : H) (body : Str)
    (hutf8 : ∀ t, utf8.dec (utf8.enc t) = .ok t)
    (hbody : core.xmlBody d = .ok body) (hshape : body = strip body ++ ['\n'])
    (hopen : env.opener (.str p) ['w', 'b'] none = .ok h) :
    ∃ doc, toStr .bibtexml core c utf8 encName d = .ok doc ∧
      toBytes .bibtexml core c encName d = .ok (c.enc (xmlDecl encName ++ doc ++ ['\n'])) ∧
      (writeFile .bibtexml core c encName env d (.path p : FileArg S)).2
        = .ok (.file h (c.enc (xmlDecl encName ++ doc ++ ['\n']))) := by
  refine ⟨strip body, ?_, ?_, ?_⟩
  · simp [toStr, hbody, hutf8]
  · simp only [toBytes, writeStream, hbody]
    rw [List.append_assoc, ← hshape]
  · simp only [writeFile, WriterKind.unicodeIO, openRaw, pyOpen, openOrCreate, hopen, writeStream, hbody,
      Bool.false_eq_true, if_false, mode_wb, if_true]
    rw [List.append_assoc, ← hshape]

/-- `C17_write_entry_points_bibtexml` instantiated (the toy codec round-trips code points below 256 only,
so the instance uses the identity-on-bytes view of it for `utf8` on an 8-bit document) -/
theorem C17_write_entry_points_bibtexml_nonvacuous :
    let d := "<f>café</f>".toList
    Toy.writer.xmlBody d = .ok (d ++ ['\n']) ∧ d ++ ['\n'] = strip (d ++ ['\n']) ++ ['\n'] ∧
    toStr .bibtexml Toy.writer Toy.codec Toy.codec "L1".toList d = .ok d ∧
    toBytes .bibtexml Toy.writer Toy.codec "L1".toList d = .ok (Toy.enc (xmlDecl "L1".toList ++ d ++ ['\n'])) ∧
    (writeFile .bibtexml Toy.writer Toy.codec "L1".toList Toy.env d (.path "/out/x.xml".toList : FileArg Unit)).2
      = .ok (.file (.str "/out/x.xml".toList) (Toy.enc (xmlDecl "L1".toList ++ d ++ ['\n']))) := by
  decide

/-- **Write entry points, BibTeXML — what holds WITHOUT the shape hypothesis** (audit-d, C17 finding 2), and
with the UTF-8 hypothesis for the document at hand only (`hutf8`: the hard-wired UTF-8 codec represents
THIS body; nothing is assumed about other texts).  `body` = the characters the pretty-XML writer sends
through the XMLGenerator after the declaration (abstract: `WriterCore.xmlBody`; the text-level pretty
printer is not modelled).  Then `to_string` is `strip body`, `to_bytes` is `enc (declaration ++ body)`,
`write_file` leaves exactly `to_bytes` after one `wb` open — and the property's sentence "`to_bytes` is the
`to_string` document plus declaration (and final newline)" holds for this document IF AND ONLY IF the
declared documents coincide, which is exactly `hshape` of `C17_write_entry_points_bibtexml`. -/
theorem C17_write_entry_points_bibtexml_body {Db E H S : Type}
    (core : WriterCore Db E) (c utf8 : Codec) (encName : Str) (env : Env H)
    (d : Db) (p : Path) (h : H) (body : Str)
    (hutf8 : utf8.dec (utf8.enc body) = .ok body)
    (hbody : core.xmlBody d = .ok body)
    (hopen : env.opener (.str p) ['w', 'b'] none = .ok h) :
    toStr .bibtexml core c utf8 encName d = .ok (strip body) ∧
    toBytes .bibtexml core c encName d = .ok (c.enc (xmlDecl encName ++ body)) ∧
    writeFile .bibtexml core c encName env d (.path p : FileArg S)
      = ([.tryOpen (.str p) ['w', 'b'] none], .ok (.file h (c.enc (xmlDecl encName ++ body)))) ∧
    (xmlDecl encName ++ body = xmlDecl encName ++ strip body ++ ['\n'] ↔ body = strip body ++ ['\n']) := by
  refine ⟨?_, ?_, ?_, ?_⟩
  · simp [toStr, hbody, hutf8]
  · simp only [toBytes, writeStream, hbody]
  · simp only [writeFile, WriterKind.unicodeIO, openRaw, pyOpen, openOrCreate, hopen, writeStream, hbody,
      Bool.false_eq_true, if_false, mode_wb, if_true]
  · rw [List.append_assoc]
    exact ⟨fun hx => List.append_cancel_left hx, fun hx => by rw [← hx]⟩

/-- `C17_write_entry_points_bibtexml_body` instantiated in the toy world -/
theorem C17_write_entry_points_bibtexml_body_nonvacuous :
    let d := "<f>café</f>".toList
    toStr .bibtexml Toy.writer Toy.codec Toy.codec "L1".toList d = .ok d ∧
    writeFile .bibtexml Toy.writer Toy.codec "L1".toList Toy.env d (.path "/out/x.xml".toList : FileArg Unit)
      = ([.tryOpen (.str "/out/x.xml".toList) "wb".toList none],
         .ok (.file (.str "/out/x.xml".toList) (Toy.enc (xmlDecl "L1".toList ++ d ++ ['\n'])))) := by
  intro d
  have h := C17_write_entry_points_bibtexml_body (S := Unit) Toy.writer Toy.codec Toy.codec "L1".toList Toy.env d
    "/out/x.xml".toList (.str "/out/x.xml".toList) (d ++ ['\n']) (by decide +kernel) rfl (by decide)
  refine ⟨?_, ?_⟩
  · rw [h.1]; decide +kernel
  · rw [h.2.2.1, List.append_assoc]; rfl

/-- The shape hypothesis of `C17_write_entry_points_bibtexml` cannot be dropped: a writer core whose XML
body ends in TWO newlines (or starts with a blank) has `to_bytes ≠ enc (declaration ++ to_string ++ "\n")`.
That the real `_PrettyXMLWriter` produces a body of the required shape is an assumption about code that is
not modelled; the correspondence check exercises it on every BibTeXML case. -/
theorem C17_write_entry_points_bibtexml_shape_neg :
    let w : WriterCore Str Unit := { Toy.writer with xmlBody := fun d => .ok (d ++ ['\n', '\n']) }
    let d := "<f/>".toList
    toStr .bibtexml w Toy.codec Toy.codec "L1".toList d = .ok d ∧
    toBytes .bibtexml w Toy.codec "L1".toList d = .ok (Toy.enc (xmlDecl "L1".toList ++ d ++ ['\n', '\n'])) ∧
    toBytes .bibtexml w Toy.codec "L1".toList d ≠ .ok (Toy.enc (xmlDecl "L1".toList ++ d ++ ['\n'])) := by
  refine ⟨by decide +kernel, by decide +kernel, by decide +kernel⟩

/-! ## the plug-in tables -/

/-- **Suffix = name**, over the regenerated tables.  For every entry `(base.suffixes, sfx, k)` of a
suffix table: (i) `find_plugin(base, filename=f)` returns `k` for EVERY file name `f = dir/stem.sfx`
(any directory prefix, any stem that is not periods only), (ii) `k` is also what some name or alias of
the base group selects; and (iii) every class registered under a name of a base group that declares a
`default_suffix` is what a file name with that suffix selects.  An edit of the tables in /repo that
breaks any of this breaks the `decide`. -/
theorem C17_suffix_eq_name :
    (∀ base dflt g sfx k, (base, dflt) ∈ Gen.defaultPlugins → (g, sfx, k) ∈ Gen.installedPlugins →
        g = base ++ ".suffixes".toList →
        (∀ dir stem, goodDir dir = true → goodStem stem = true →
          findPlugin Gen.installedPlugins Gen.defaultPlugins [] base .none (some (dir ++ stem ++ sfx)) = .ok k) ∧
        (∃ n, findPlugin Gen.installedPlugins Gen.defaultPlugins [] base (.str n) none = .ok k)) ∧
    (∀ base dflt n k s, (base, dflt) ∈ Gen.defaultPlugins → (base, n, k) ∈ Gen.installedPlugins →
        dget Gen.classDefaultSuffix k = some (some s) →
        ∀ dir stem, goodDir dir = true → goodStem stem = true →
          findPlugin Gen.installedPlugins Gen.defaultPlugins [] base .none (some (dir ++ stem ++ s)) = .ok k) := by
  have h1 : suffixTableOK Gen.installedPlugins Gen.defaultPlugins = true := by decide +kernel
  have h2 : defaultSuffixOK Gen.installedPlugins Gen.defaultPlugins Gen.classDefaultSuffix = true := by decide +kernel
  constructor
  · intro base dflt g sfx k hb he hg
    have hd := dhas_of_mem _ _ _ hb
    have := List.all_eq_true.1 (List.all_eq_true.1 h1 _ hb) _ he
    simp only [hg, if_true, suffixEntryOK, Bool.and_eq_true, isOk_iff, List.any_eq_true] at this
    obtain ⟨⟨hs, hl⟩, e, _, hn⟩ := this
    refine ⟨fun dir stem hdir hstem => ?_, e.2.1, hn⟩
    rw [findPlugin_by_suffix _ _ _ _ _ _ _ hd hdir hstem hs, hl]
  · intro base dflt n k s hb he hs dir stem hdir hstem
    have hd := dhas_of_mem _ _ _ hb
    have := List.all_eq_true.1 (List.all_eq_true.1 h2 _ hb) _ he
    simp only [if_true, hs, Bool.and_eq_true, isOk_iff] at this
    rw [findPlugin_by_suffix _ _ _ _ _ _ _ hd hdir hstem this.1, this.2]

/-- the quantifiers of `C17_suffix_eq_name` range over something: five reader suffixes, e.g. `.bibtexml` -/
theorem C17_suffix_eq_name_nonvacuous :
    ("pybtex.database.input".toList, "bibtex".toList) ∈ Gen.defaultPlugins ∧
    ("pybtex.database.input.suffixes".toList, ".bibtexml".toList, "pybtex.database.input.bibtexml:Parser".toList)
      ∈ Gen.installedPlugins ∧
    goodDir "/tmp/a.b/".toList = true ∧ goodStem "..x.y".toList = true ∧
    findPlugin Gen.installedPlugins Gen.defaultPlugins [] "pybtex.database.input".toList .none
      (some "/tmp/a.b/..x.y.bibtexml".toList) = .ok "pybtex.database.input.bibtexml:Parser".toList ∧
    findPlugin Gen.installedPlugins Gen.defaultPlugins [] "pybtex.database.input".toList
      (.str "bibtexml".toList) none = .ok "pybtex.database.input.bibtexml:Parser".toList := by
  decide +kernel

/-- The regenerated tables are well formed: no (group, name) twice, every group is a base group of
`_DEFAULT_PLUGINS` or its `.aliases` / `.suffixes` companion, every default plug-in exists, and what
`importlib.metadata` reports is what /repo/setup.py declares.  (How the installed reader / writer classes
are wired is checked in `Props/WiringC17.lean`.) -/
theorem C17_tables_wf :
    keysNodup Gen.installedPlugins = true ∧
    groupsKnown Gen.installedPlugins Gen.defaultPlugins = true ∧
    defaultsExist Gen.installedPlugins Gen.defaultPlugins = true ∧
    Gen.installedPlugins = Gen.declaredPlugins := by
  refine ⟨by decide +kernel, by decide +kernel, by decide +kernel, by decide +kernel⟩

/-! ## the run-time registry -/

/-- **Run-time plug-ins**, in the registry reached by ANY history of calls from the empty registry,
for any installed table, and any key `(g, n)` that passes the argument checks:
(a) if the key is free (neither registered nor installed) or the call is forced, `register_plugin`
    returns `True`, afterwards exactly that key yields `k`, and every other key is untouched;
(b) if the key is taken and the call is not forced, it returns `False` and changes nothing — this covers
    the second registration of a run-time plug-in as well as an installed entry;
(c) (a) and (b) are the behaviour of the one-table reference, for the whole history (results and
    final table). -/
theorem C17_runtime_plugins (tbl : Installed) (defaults : List (Str × Str)) (ops : List PlugOp)
    (g n : Str) (k : Cls) (base : Str)
    (hb : baseGroup g n = .ok base) (hd : dhas defaults base = true) :
    let R := (plugRun tbl defaults [] ops).1
    (∀ force, (eff tbl R g n = none ∨ force = true) →
        ∃ R', registerPlugin tbl defaults R g n k force = .ok (R', true) ∧
          loadEntryPoint tbl R' g n false = .ok k ∧
          ∀ g' n', ¬ (g' = g ∧ n' = n) →
            loadEntryPoint tbl R' g' n' false = loadEntryPoint tbl R g' n' false) ∧
    (∀ k0, eff tbl R g n = some k0 →
        registerPlugin tbl defaults R g n k false = .ok (R, false) ∧
        loadEntryPoint tbl R g n false = .ok k0) ∧
    (eff tbl R = (specRun defaults (installedLookup tbl) ops).1 ∧
      (plugRun tbl defaults [] ops).2 = (specRun defaults (installedLookup tbl) ops).2) := by
  intro R
  refine ⟨?_, ?_, ?_⟩
  · intro force hfree
    obtain ⟨R', h1, h2⟩ := registerPlugin_refines tbl defaults R g n k force base hb hd
    have hreg : Spec.Plugins.register (eff tbl R) g n k force
        = (fun g' n' => if g' = g ∧ n' = n then some k else eff tbl R g' n', true) := by
      simp only [Spec.Plugins.register]
      rcases hfree with hf | hf
      · simp [hf]
      · simp [hf]
    rw [hreg] at h1 h2
    refine ⟨R', h1, ?_, ?_⟩
    · rw [loadEntryPoint_exact, h2]; simp [Spec.Plugins.load, optToExcept]
    · intro g' n' hne
      rw [loadEntryPoint_exact, loadEntryPoint_exact, h2]
      simp [Spec.Plugins.load, hne]
  · intro k0 hk
    obtain ⟨R', h1, _⟩ := registerPlugin_refines tbl defaults R g n k false base hb hd
    have hreg : Spec.Plugins.register (eff tbl R) g n k false = (eff tbl R, false) := by
      simp [Spec.Plugins.register, hk]
    constructor
    · -- the registry itself is unchanged, not only its meaning
      have hsome : ((runtimeGet R g n).isSome || (installedLookup tbl g n).isSome) = true := by
        simp only [eff] at hk
        cases hr : runtimeGet R g n with
        | some x => simp
        | none => simp only [hr] at hk; simp [hk]
      simp [registerPlugin, hb, hd, hsome]
    · rw [loadEntryPoint_exact]; simp [Spec.Plugins.load, hk, optToExcept]
  · have := plugRun_refines tbl defaults [] ops
    rw [eff_nil] at this
    exact this

theorem C17_runtime_plugins_nonvacuous :
    let tbl := Gen.installedPlugins
    let dfl := Gen.defaultPlugins
    let g := "pybtex.style.formatting".toList
    baseGroup g "yippikayee".toList = .ok g ∧ dhas dfl g = true ∧
    (plugRun tbl dfl []
      [.register g "yippikayee".toList "K1".toList false,
       .find g (.str "yippikayee".toList) none,
       .register g "yippikayee".toList "K2".toList false,
       .find g (.str "yippikayee".toList) none,
       .register g "yippikayee".toList "K2".toList true,
       .find g (.str "yippikayee".toList) none,
       .register g "plain".toList "K2".toList false,
       .find g (.str "plain".toList) none]).2
    = [.bool true, .cls "K1".toList, .bool false, .cls "K1".toList, .bool true, .cls "K2".toList,
       .bool false, .cls "pybtex.style.formatting.plain:Style".toList] := by
  decide +kernel

/-- **Found exactly like installed ones.**  After a successful registration (any earlier registry `R`):
a name is found by name; an alias is found by name as long as no real name of the base group hides it
(the same precedence installed names have over installed aliases); a suffix is found from every file
name `dir/stem.sfx`. -/
theorem C17_runtime_found_like_installed (tbl : Installed) (defaults : List (Str × Str)) (R R' : Registry)
    (base : Str) (c : Char) (n : Str) (k : Cls) (force : Bool) (hd : dhas defaults base = true) :
    (registerPlugin tbl defaults R base (c :: n) k force = .ok (R', true) →
        findPlugin tbl defaults R' base (.str (c :: n)) none = .ok k) ∧
    (registerPlugin tbl defaults R (base ++ ".aliases".toList) (c :: n) k force = .ok (R', true) →
        eff tbl R' base (c :: n) = none →
        findPlugin tbl defaults R' base (.str (c :: n)) none = .ok k) ∧
    (registerPlugin tbl defaults R (base ++ ".suffixes".toList) (c :: n) k force = .ok (R', true) →
        goodSuffix (c :: n) = true →
        ∀ dir stem, goodDir dir = true → goodStem stem = true →
          findPlugin tbl defaults R' base .none (some (dir ++ stem ++ c :: n)) = .ok k) := by
  have key : ∀ g, registerPlugin tbl defaults R g (c :: n) k force = .ok (R', true) →
      eff tbl R' g (c :: n) = some k := by
    intro g h
    unfold registerPlugin at h
    cases hb : baseGroup g (c :: n) with
    | error e => simp [hb] at h
    | ok b =>
      simp only [hb] at h
      split at h
      · cases h
      · split at h
        · cases h
        · simp only [Except.ok.injEq, Prod.mk.injEq, and_true] at h
          subst h
          simp [eff, runtimeGet_runtimeSet]
  have hdg : ∃ dflt, dget defaults base = some dflt := by
    simp only [dhas] at hd
    cases hg : dget defaults base with
    | none => simp [hg] at hd
    | some x => exact ⟨x, rfl⟩
  obtain ⟨dflt, hdg⟩ := hdg
  refine ⟨fun h => ?_, fun h hfree => ?_, fun h hs dir stem hdir hstem => ?_⟩
  · simp only [findPlugin, hdg, loadEntryPoint_aliases, Spec.Plugins.findName, key _ h, optToExcept]
  · simp only [findPlugin, hdg, loadEntryPoint_aliases, Spec.Plugins.findName, hfree, key _ h, optToExcept]
  · rw [findPlugin_by_suffix _ _ _ _ _ _ _ hd hdir hstem hs, loadEntryPoint_exact]
    simp only [Spec.Plugins.load, key _ h, optToExcept]

/-- **Installed entries are never shadowed unless forced**: after ANY history in which no registration
is forced, every installed key still yields its installed class. -/
theorem C17_installed_not_shadowed (tbl : Installed) (defaults : List (Str × Str)) (ops : List PlugOp)
    (hu : unforced ops = true) (g n : Str) (k0 : Cls) (hi : installedLookup tbl g n = some k0) :
    loadEntryPoint tbl (plugRun tbl defaults [] ops).1 g n false = .ok k0 := by
  have hns := noShadow_run tbl defaults [] ops (noShadow_nil tbl) hu
  rw [loadEntryPoint_exact]
  simp only [Spec.Plugins.load, eff]
  cases hr : runtimeGet (plugRun tbl defaults [] ops).1 g n with
  | none => simp [hi, optToExcept]
  | some x =>
    have := hns g n (by simp [hr])
    rw [hi] at this; cases this

/-- … and forcing is what it takes: one forced registration on an installed key replaces it. -/
theorem C17_installed_not_shadowed_nonvacuous :
    let g := "pybtex.database.input".toList
    installedLookup Gen.installedPlugins g "yaml".toList = some "pybtex.database.input.bibyaml:Parser".toList ∧
    unforced [.register g "yaml".toList "K".toList false, .register (g ++ ".aliases".toList) "yaml".toList "K".toList false] = true ∧
    loadEntryPoint Gen.installedPlugins
      (plugRun Gen.installedPlugins Gen.defaultPlugins [] [.register g "yaml".toList "K".toList true]).1
      g "yaml".toList false = .ok "K".toList := by
  decide +kernel

/-! ## opening files -/

/-- **Open faults.**  For every world (`env` is arbitrary, so every pattern of failures), every name,
mode and encoding:
(1) a file-like object comes back untouched and nothing is opened;
(2) whatever fails, the error is the pybtex error for the name the caller gave;
(3) reading: one attempt — at the name if it is a file, else at what `kpsewhich` returns (the bytes it
    printed, see `C17_kpsewhich`), else at the name; failure of the attempt, or of running `kpsewhich`, is
    the pybtex error carrying that failure's text;
(4) writing: success of the first attempt is success; on failure, without `TEXMFOUTPUT` the error is
    immediate (one attempt); with it there is a second attempt at `posixpath.join(TEXMFOUTPUT, name)`,
    whose success is success, and whose failure reports the FIRST failure, for the original name. -/
theorem C17_open_faults {H S : Type} (env : Env H) (p : Path) (mode : Str) (kw : Option Str) :
    (∀ s : S, pyOpen env (.stream s) mode kw = ([], .ok (.passthrough s))) ∧
    (∀ e, (pyOpen (S := S) env (.path p) mode kw).2 = .error e → e.filename = p) ∧
    (mode.contains 'w' = false →
      (env.isFile p = true →
        pyOpen (S := S) env (.path p) mode kw = ([.tryOpen (.str p) mode kw],
          match env.opener (.str p) mode kw with
          | .ok h => .ok (.handle h)
          | .error e => .error ⟨p, e.strerror⟩)) ∧
      (env.isFile p = false →
        (∀ e, kpsewhich env p = .error e →
          pyOpen (S := S) env (.path p) mode kw = ([.locate p], .error ⟨p, e.strerror⟩)) ∧
        (∀ found, kpsewhich env p = .ok found →
          let target : PathArg := match found with
            | some q => if q.isEmpty then .str p else .bytes q
            | none => .str p
          pyOpen (S := S) env (.path p) mode kw = ([.locate p, .tryOpen target mode kw],
            match env.opener target mode kw with
            | .ok h => .ok (.handle h)
            | .error e => .error ⟨p, e.strerror⟩)))) ∧
    (mode.contains 'w' = true →
      (∀ h, env.opener (.str p) mode kw = .ok h →
        pyOpen (S := S) env (.path p) mode kw = ([.tryOpen (.str p) mode kw], .ok (.handle h))) ∧
      (∀ e1, env.opener (.str p) mode kw = .error e1 →
        (dget env.environ "TEXMFOUTPUT".toList = none →
          pyOpen (S := S) env (.path p) mode kw = ([.tryOpen (.str p) mode kw], .error ⟨p, e1.strerror⟩)) ∧
        (∀ dir, dget env.environ "TEXMFOUTPUT".toList = some dir →
          (∀ h, env.opener (.str (posixJoin dir p)) mode kw = .ok h →
            pyOpen (S := S) env (.path p) mode kw
              = ([.tryOpen (.str p) mode kw, .tryOpen (.str (posixJoin dir p)) mode kw], .ok (.handle h))) ∧
          (∀ e2, env.opener (.str (posixJoin dir p)) mode kw = .error e2 →
            pyOpen (S := S) env (.path p) mode kw
              = ([.tryOpen (.str p) mode kw, .tryOpen (.str (posixJoin dir p)) mode kw],
                 .error ⟨p, e1.strerror⟩))))) := by
  refine ⟨fun s => rfl, ?_, ?_, ?_⟩
  · intro e he
    simp only [pyOpen] at he
    split at he
    · cases he
    · cases he; rfl
  · intro hm
    refine ⟨fun hf => ?_, fun hf => ⟨fun e he => ?_, fun found hfound => ?_⟩⟩
    · simp only [pyOpen, hm, Bool.false_eq_true, if_false, openExisting, hf, if_true]
      cases env.opener (.str p) mode kw <;> rfl
    · simp only [pyOpen, hm, Bool.false_eq_true, if_false, openExisting, hf, he]
    · simp only [pyOpen, hm, Bool.false_eq_true, if_false, openExisting, hf, hfound]
      cases env.opener _ mode kw <;> rfl
  · intro hm
    refine ⟨fun h hh => ?_, fun e1 he1 => ⟨fun hnone => ?_, fun dir hdir => ⟨fun h hh => ?_, fun e2 he2 => ?_⟩⟩⟩
    · simp only [pyOpen, hm, if_true, openOrCreate, hh]
    · simp only [pyOpen, hm, if_true, openOrCreate, he1, hnone]
    · simp only [pyOpen, hm, if_true, openOrCreate, he1, hdir, hh]
    · simp only [pyOpen, hm, if_true, openOrCreate, he1, hdir, he2]

/-- every branch of `C17_open_faults` is inhabited by the toy world: read of an existing file, read of a
missing one that `kpsewhich` does not know, read through what `kpsewhich` printed (a `bytes` path, the
trailing newline removed), a `kpsewhich` that cannot be started, write that succeeds at once, write that
succeeds at the fall-back, write that fails twice -/
theorem C17_open_faults_nonvacuous :
    pyOpen (S := Unit) Toy.env (.path "f.bib".toList) "rb".toList none
      = ([.tryOpen (.str "f.bib".toList) "rb".toList none], .ok (.handle (.str "f.bib".toList))) ∧
    pyOpen (S := Unit) Toy.env (.path "h.bib".toList) "rb".toList none
      = ([.locate "h.bib".toList, .tryOpen (.str "h.bib".toList) "rb".toList none],
         .error ⟨"h.bib".toList, "No such file or directory".toList⟩) ∧
    pyOpen (S := Unit) Toy.env (.path "g.bib".toList) "rb".toList none
      = ([.locate "g.bib".toList, .tryOpen (.bytes (Toy.enc "/texmf/g.bib".toList)) "rb".toList none],
         .ok (.handle (.bytes (Toy.enc "/texmf/g.bib".toList)))) ∧
    pyOpen (S := Unit) Toy.env (.path "k.bib".toList) "rb".toList none
      = ([.locate "k.bib".toList], .error ⟨"k.bib".toList, "No such file or directory".toList⟩) ∧
    pyOpen (S := Unit) Toy.env (.path "/out/a.bbl".toList) "w".toList none
      = ([.tryOpen (.str "/out/a.bbl".toList) "w".toList none], .ok (.handle (.str "/out/a.bbl".toList))) ∧
    pyOpen (S := Unit) Toy.env (.path "a.bbl".toList) "w".toList none
      = ([.tryOpen (.str "a.bbl".toList) "w".toList none, .tryOpen (.str "/out/a.bbl".toList) "w".toList none],
         .ok (.handle (.str "/out/a.bbl".toList))) ∧
    pyOpen (S := Unit) Toy.envRO (.path "a.bbl".toList) "w".toList none
      = ([.tryOpen (.str "a.bbl".toList) "w".toList none, .tryOpen (.str "/ro/a.bbl".toList) "w".toList none],
         .error ⟨"a.bbl".toList, "Permission denied".toList⟩) ∧
    (OpenErr.message ⟨"a.bbl".toList, "Permission denied".toList⟩) = "unable to open a.bbl. Permission denied".toList := by
  refine ⟨by decide +kernel, by decide +kernel, by decide +kernel, by decide +kernel, by decide +kernel,
    by decide +kernel, by decide +kernel, by decide +kernel⟩

/-- **`kpsewhich`** (pybtex/kpathsea.py), for every behaviour of the program:
(1) it cannot be started (`Popen` raises `OSError`: not installed, not executable): that error, which
    `pybtex.io` turns into the pybtex error for the name asked for — and nothing is opened;
(2) it exits with a non-zero return code: `None`, whatever it printed — the name itself is opened;
(3) it exits with 0: the bytes it printed WITHOUT the trailing run of ASCII white space (the output is
    that result followed by white space only, and the result does not end in white space); if that is
    empty the name itself is opened, otherwise exactly those bytes are opened, as a `bytes` path. -/
theorem C17_kpsewhich {H S : Type} (env : Env H) (p : Path) (mode : Str) (kw : Option Str)
    (hm : mode.contains 'w' = false) (hf : env.isFile p = false) :
    (∀ e, env.runKpsewhich p = .error e →
        kpsewhich env p = .error e ∧
        pyOpen (S := S) env (.path p) mode kw = ([.locate p], .error ⟨p, e.strerror⟩)) ∧
    (∀ rc out, env.runKpsewhich p = .ok (rc, out) → rc ≠ 0 →
        kpsewhich env p = .ok none ∧
        (pyOpen (S := S) env (.path p) mode kw).1 = [.locate p, .tryOpen (.str p) mode kw]) ∧
    (∀ out, env.runKpsewhich p = .ok (0, out) →
        ∃ q, kpsewhich env p = .ok (some q) ∧
          (∃ ws, out = q ++ ws ∧ ws.all isAsciiWsByte = true) ∧
          (∀ x, q.getLast? = some x → isAsciiWsByte x = false) ∧
          (q = [] → (pyOpen (S := S) env (.path p) mode kw).1 = [.locate p, .tryOpen (.str p) mode kw]) ∧
          (q ≠ [] → pyOpen (S := S) env (.path p) mode kw = ([.locate p, .tryOpen (.bytes q) mode kw],
            match env.opener (.bytes q) mode kw with
            | .ok h => .ok (.handle h)
            | .error e => .error ⟨p, e.strerror⟩))) := by
  have hof := (C17_open_faults (S := S) env p mode kw).2.2.1 hm
  refine ⟨fun e he => ?_, fun rc out hr hrc => ?_, fun out hr => ?_⟩
  · have hk : kpsewhich env p = .error e := by simp [kpsewhich, he]
    exact ⟨hk, (hof.2 hf).1 e hk⟩
  · have hk : kpsewhich env p = .ok none := by simp [kpsewhich, hr, hrc]
    refine ⟨hk, ?_⟩
    have := (hof.2 hf).2 none hk
    simp only at this
    rw [this]
  · have hk : kpsewhich env p = .ok (some (rstripBytes out)) := by simp [kpsewhich, hr]
    have hs := rstripBytes_spec out
    refine ⟨rstripBytes out, hk, hs.1, hs.2, fun hq => ?_, fun hq => ?_⟩
    · have := (hof.2 hf).2 _ hk
      simp only [hq, List.isEmpty_nil, if_true] at this
      rw [this]
    · have := (hof.2 hf).2 _ hk
      have hne : (rstripBytes out).isEmpty = false := by
        cases h : rstripBytes out with
        | nil => exact absurd h hq
        | cons x r => rfl
      simp only [hne, Bool.false_eq_true, if_false] at this
      exact this

/-- the three behaviours of the program in the toy world: printed a path and a newline (the newline is
removed, the rest is opened as bytes), return code 1, cannot be started -/
theorem C17_kpsewhich_nonvacuous :
    kpsewhich Toy.env "g.bib".toList = .ok (some (Toy.enc "/texmf/g.bib".toList)) ∧
    kpsewhich Toy.env "h.bib".toList = .ok none ∧
    kpsewhich Toy.env "k.bib".toList = .error ⟨"No such file or directory".toList⟩ ∧
    rstripBytes (Toy.enc "/a b \t\r\n\n ".toList) = Toy.enc "/a b".toList ∧
    rstripBytes (Toy.enc " \n".toList) = [] := by
  refine ⟨by decide +kernel, by decide +kernel, by decide +kernel, by decide +kernel, by decide +kernel⟩

/-- The fall-back path is the directory, a slash, the name — for a relative name and a directory that
does not already end in a slash; an absolute name is retried as it is (as `posixpath.join` has it). -/
theorem C17_fallback_path (dir p : Path) :
    (p.head? ≠ some '/' → dir ≠ [] → dir.getLast? ≠ some '/' → posixJoin dir p = dir ++ '/' :: p) ∧
    (p.head? = some '/' → posixJoin dir p = p) := by
  constructor
  · intro h1 h2 h3
    simp [posixJoin, h1, h2, h3]
  · intro h; simp [posixJoin, h]

/-! ## `enumerate_plugin_names`, and the module-level functions -/

/-- **`enumerate_plugin_names`**, for every installed table, registry and group:
(a) the names it yields are EXACTLY the names an exact lookup in that group finds — run-time and
    installed ones alike; in particular a name that is registered only in the `.aliases` (or `.suffixes`)
    companion group is never listed;
(b) order: the run-time names of the group (each once, in registration order), then the installed ones;
(c) a registration in any OTHER group — so every alias and every suffix registration — leaves the
    enumeration of the group as it was. -/
theorem C17_enumerate_plugin_names (tbl : Installed) (defaults : List (Str × Str)) (R : Registry) (g : Str) :
    (∀ n, n ∈ enumeratePluginNames tbl R g ↔ ∃ k, loadEntryPoint tbl R g n false = .ok k) ∧
    (∃ rt, enumeratePluginNames tbl R g = rt ++ installedNames tbl g ∧
        ∀ n, n ∈ rt ↔ (runtimeGet R g n).isSome = true) ∧
    (∀ g' n k force R' b, g' ≠ g → registerPlugin tbl defaults R g' n k force = .ok (R', b) →
        enumeratePluginNames tbl R' g = enumeratePluginNames tbl R g) := by
  refine ⟨fun n => ?_, ?_, ?_⟩
  · rw [mem_enumerate_iff, loadEntryPoint_exact]
    simp only [Spec.Plugins.load]
    cases eff tbl R g n <;> simp [optToExcept]
  · refine ⟨(match dget R g with | none => [] | some d => dkeys d), rfl, fun n => ?_⟩
    simp only [runtimeGet]
    cases dget R g with
    | none => simp
    | some d => exact mem_dkeys_iff d n
  · intro g' n k force R' b hne h
    unfold registerPlugin at h
    cases hb : baseGroup g' n with
    | error e => simp [hb] at h
    | ok base =>
      simp only [hb] at h
      split at h
      · cases h
      · split at h
        · cases h; rfl
        · simp only [Except.ok.injEq, Prod.mk.injEq] at h
          obtain ⟨h1, _⟩ := h
          subst h1
          simp only [enumeratePluginNames, dget_runtimeSet_ne R g' n k g hne.symm]

/-- a name and an alias registered at run time: the name is listed first, the alias is not listed, the
installed names follow -/
theorem C17_enumerate_plugin_names_nonvacuous :
    let g := "pybtex.database.input".toList
    let R := (plugRun Gen.installedPlugins Gen.defaultPlugins []
      [.register g "n1".toList "K1".toList false, .register (g ++ ".aliases".toList) "a1".toList "K2".toList false,
       .register g "n2".toList "K1".toList false, .register g "n1".toList "K3".toList true]).1
    enumeratePluginNames Gen.installedPlugins R g
      = ["n1".toList, "n2".toList, "bibtex".toList, "bibtexml".toList, "yaml".toList] ∧
    findPlugin Gen.installedPlugins Gen.defaultPlugins R g (.str "a1".toList) none = .ok "K2".toList := by
  decide +kernel

/-- **The module-level functions** (`pybtex.database.parse_file / parse_string / parse_bytes`,
`BibliographyData.to_file / to_string / to_bytes`) choose the class with `find_plugin` and then call the
class's entry point (to which the theorems above apply):
a plug-in CLASS given as the format is used as it is; without a format and without a file name (an unnamed
stream) the default plug-in of the group is used; and, over the regenerated tables, every reader / writer
suffix entry selects from EVERY file name `dir/stem.sfx` the class that some format name selects —
choosing the format from the file suffix equals naming it. -/
theorem C17_module_functions :
    (∀ tbl defaults R k f, readerFor tbl defaults R (.cls k) f = .ok k ∧ writerFor tbl defaults R (.cls k) f = .ok k) ∧
    (readerFor Gen.installedPlugins Gen.defaultPlugins [] .none none
        = readerFor Gen.installedPlugins Gen.defaultPlugins [] (.str "bibtex".toList) none ∧
      writerFor Gen.installedPlugins Gen.defaultPlugins [] .none none
        = writerFor Gen.installedPlugins Gen.defaultPlugins [] (.str "bibtex".toList) none) ∧
    (∀ sfx k, ("pybtex.database.input.suffixes".toList, sfx, k) ∈ Gen.installedPlugins →
        ∃ n, readerFor Gen.installedPlugins Gen.defaultPlugins [] (.str n) none = .ok k ∧
          ∀ dir stem, goodDir dir = true → goodStem stem = true →
            readerFor Gen.installedPlugins Gen.defaultPlugins [] .none (some (dir ++ stem ++ sfx)) = .ok k) ∧
    (∀ sfx k, ("pybtex.database.output.suffixes".toList, sfx, k) ∈ Gen.installedPlugins →
        ∃ n, writerFor Gen.installedPlugins Gen.defaultPlugins [] (.str n) none = .ok k ∧
          ∀ dir stem, goodDir dir = true → goodStem stem = true →
            writerFor Gen.installedPlugins Gen.defaultPlugins [] .none (some (dir ++ stem ++ sfx)) = .ok k) := by
  refine ⟨fun _ _ _ _ _ => ⟨rfl, rfl⟩, ⟨by decide +kernel, by decide +kernel⟩, ?_, ?_⟩
  · intro sfx k he
    have hb : ("pybtex.database.input".toList, "bibtex".toList) ∈ Gen.defaultPlugins := by decide +kernel
    obtain ⟨h1, n, h2⟩ := C17_suffix_eq_name.1 _ _ _ sfx k hb he rfl
    exact ⟨n, h2, h1⟩
  · intro sfx k he
    have hb : ("pybtex.database.output".toList, "bibtex".toList) ∈ Gen.defaultPlugins := by decide +kernel
    obtain ⟨h1, n, h2⟩ := C17_suffix_eq_name.1 _ _ _ sfx k hb he rfl
    exact ⟨n, h2, h1⟩

theorem C17_module_functions_nonvacuous :
    ("pybtex.database.input.suffixes".toList, ".yaml".toList, "pybtex.database.input.bibyaml:Parser".toList)
      ∈ Gen.installedPlugins ∧
    ("pybtex.database.output.suffixes".toList, ".bibtexml".toList, "pybtex.database.output.bibtexml:Writer".toList)
      ∈ Gen.installedPlugins ∧
    readerFor Gen.installedPlugins Gen.defaultPlugins [] .none (some "a/b.yaml".toList)
      = readerFor Gen.installedPlugins Gen.defaultPlugins [] (.str "yaml".toList) none := by
  decide +kernel

end Pybtex.Props
