/-
C20 — `.aux` files are read faithfully: citations, style, data, nested inputs.

Property theorems only.  The model of `pybtex/auxfile.py` is `Model/AuxFile.lean` (`parse fs fuel p`
= `pybtex.auxfile.parse_file(p)` under `errors.capture()` on the file system `fs`), what a
document means is `Spec/AuxFile.lean` (`events`, `citations`, `style`, `data`, `reports`, `fatal`),
the lemmas are in `Lemmas/AuxFile.lean`.

All statements are for every file system `fs : Path → Option (List Str)` (files of any length,
any lines), every nesting depth `d`, every start file.  `closedDepth fs d p` is the decidable
well-formedness condition "reading `p` never nests more than `d` files deep and every included file
exists"; `depthOk` is the same without the existence requirement.  Inclusion cycles are outside
the property (Python recurses until it fails).
-/
import PybtexModel.Lemmas.AuxFile
import PybtexModel.Lemmas.AuxFileReports

namespace Pybtex.Props
open Pybtex Pybtex.Aux Pybtex.Aux.Spec

/-! ### the regular expression -/

/-- The one regular expression of the parser classifies every line exactly as the specification
does (`Spec.classify`); and a line has argument `arg` for the command `name` exactly when it reads
`\name{arg}tail rest`, with no newline in `arg` and `tail`, no `}` in `tail` (so `arg` ends at the
LAST `}` of the line), and `rest` empty or starting at a newline. -/
theorem C20_command_shape (line : Str) :
    Spec.classify line =
      (match matchCommand line with
       | none => .other
       | some (.citation, v) => .citation (splitComma v)
       | some (.bibstyle, v) => .bibstyle v
       | some (.bibdata, v) => .bibdata (splitComma v)
       | some (.input, v) => .input v) ∧
    (∀ name arg, Spec.argOf name line = some arg ↔
      ∃ tail rest, line = '\\' :: name ++ '{' :: arg ++ '}' :: tail ++ rest ∧
        '\n' ∉ arg ∧ '\n' ∉ tail ∧ '}' ∉ tail ∧ (rest = [] ∨ ∃ r, rest = '\n' :: r)) := by
  refine ⟨?_, fun name arg => argOf_shape name line arg⟩
  rw [classify_eq]
  cases matchCommand line with
  | none => rfl
  | some cv => obtain ⟨c, v⟩ := cv; cases c <;> rfl

/-- near misses and the greedy group, on concrete lines -/
theorem C20_command_shape_nonvacuous :
    matchCommand "\\citation{a}{b} % x".toList = some (.citation, "a}{b".toList) ∧
    matchCommand "\\citationx{q}".toList = none ∧
    matchCommand "\\citation{nobrace".toList = none ∧
    matchCommand " \\citation{a}".toList = none ∧
    Spec.classify "\\@input{chap1.aux}".toList = .input "chap1.aux".toList := by decide

/-- `str.split(',')` as the code performs it is the comma split of the specification, which is the
only list of comma-free parts that joins back to the string with commas. -/
theorem C20_comma_lists (s : Str) :
    pySplit ',' s = splitComma s ∧ joinWith [','] (splitComma s) = s ∧
    (∀ p ∈ splitComma s, ',' ∉ p) ∧
    (∀ parts : List Str, parts ≠ [] → (∀ p ∈ parts, ',' ∉ p) → joinWith [','] parts = s →
      parts = splitComma s) :=
  ⟨pySplit_eq s, splitComma_join s, splitComma_no_comma s,
   fun parts hne hp hj => by rw [← hj, splitComma_unique parts hne hp]⟩

/-! ### the denotation -/

/-- The parse of a closed document of any nesting depth is exactly its denotation: either the fatal
error of the specification, raised with everything reported so far, or the state holding the
specification's style, data, citations and reports (`canon` is the private spelling dictionary). -/
theorem C20_parse_spec (fs : FS) (d fuel : Nat) (p : Path)
    (hcl : closedDepth fs d p = true) (hle : d ≤ fuel) :
    ∃ canon, parse fs fuel p =
      (match Spec.fatal (events fs d p) with
       | some k => .error ⟨.aux ⟨k, p, none, none⟩, reports (events fs d p)⟩
       | none => .ok ⟨some ⟨p, none, none⟩, style (events fs d p), data (events fs d p),
                      citations (events fs d p), canon, reports (events fs d p)⟩) :=
  ⟨_, parse_spec fs d fuel p hcl hle⟩

/-- `demoFS` (Lemmas/AuxFile.lean, section 8): `t.aux` includes `u.aux` includes `v.aux` -/
theorem C20_parse_spec_nonvacuous :
    closedDepth demoFS 3 "t.aux".toList = true ∧ Spec.fatal (events demoFS 3 "t.aux".toList) = none ∧
    (events demoFS 3 "t.aux".toList).length = 12 ∧ (reports (events demoFS 3 "t.aux".toList)).length = 4 := by
  decide

/-- Reading yields exactly the keys of the `\citation` lines, in reading order, comma lists
expanded, repeats kept, `\@input` files read in place. -/
theorem C20_citations_spec (fs : FS) (d fuel : Nat) (p : Path) (st : St)
    (hcl : closedDepth fs d p = true) (hle : d ≤ fuel) (h : parse fs fuel p = .ok st) :
    st.citations = citations (events fs d p) := by
  rw [parse_spec fs d fuel p hcl hle] at h
  cases hf : Spec.fatal (events fs d p) with
  | some k => rw [hf] at h; cases h
  | none => rw [hf] at h; cases h; rfl

/-- The style is the argument of the first `\bibstyle`, the data the comma-separated argument of
the first `\bibdata`, over the in-place unfolding. -/
theorem C20_style_data_spec (fs : FS) (d fuel : Nat) (p : Path) (st : St)
    (hcl : closedDepth fs d p = true) (hle : d ≤ fuel) (h : parse fs fuel p = .ok st) :
    st.style = style (events fs d p) ∧ st.data = data (events fs d p) := by
  rw [parse_spec fs d fuel p hcl hle] at h
  cases hf : Spec.fatal (events fs d p) with
  | some k => rw [hf] at h; cases h
  | none => rw [hf] at h; cases h; exact ⟨rfl, rfl⟩

theorem C20_citations_spec_nonvacuous :
    closedDepth demoFS 3 "t.aux".toList = true ∧
    (∃ st, parse demoFS 4 "t.aux".toList = .ok st ∧
      st.citations = ["a".toList, "B".toList, "b".toList, "a}{c".toList, "A".toList] ∧
      st.style = some "plain".toList ∧ st.data = some ["z".toList]) := by
  refine ⟨by decide, _, rfl, ?_⟩
  decide

theorem C20_style_data_spec_nonvacuous :
    style (events demoFS 3 "t.aux".toList) = some "plain".toList ∧
    data (events demoFS 3 "t.aux".toList) = some ["z".toList] := by decide

/-- Every other line is ignored.  Deleting every line that is not one of the four commands from
every file (or, read backwards, inserting such lines anywhere) changes nothing in the outcome —
citations, style, data, the fatal error, the kind and file of every report — except the line numbers
and line texts shown in the reports.  Line by line: such a line only moves the context. -/
theorem C20_other_lines_ignored (fs : FS) (d fuel : Nat) (p : Path)
    (hcl : closedDepth fs d p = true) (hle : d ≤ fuel) :
    outcome (parse (commandLinesOnly fs) fuel p) = outcome (parse fs fuel p) ∧
    (∀ (inp : St → Path → Except Abort St) (st : St) (c : Ctx) (l : Str) (n : Nat),
      st.context = some c → Spec.classify l = .other →
      parseLine inp st l n =
        .ok { st with context := some ⟨c.filename, some n, some (strip l)⟩ }) := by
  refine ⟨parse_strip fs d fuel p hcl hle, ?_⟩
  intro inp st c l n hc hl
  rw [parseLine_eq inp st c hc l n, hl]
  simp [applyEvent]

theorem C20_other_lines_ignored_nonvacuous :
    commandLinesOnly demoFS "v.aux".toList = some ["\\citation{a}{c}".toList] ∧
    (commandLinesOnly demoFS "t.aux".toList).map List.length = some 6 ∧
    captured (parse demoFS 4 "t.aux".toList) ≠ captured (parse (commandLinesOnly demoFS) 4 "t.aux".toList) := by
  decide

/-! ### reports -/

/-- The reports are exactly those of the specification, in order — nothing else is reported —
whether the parse returns or ends in a fatal error. -/
theorem C20_reports_spec (fs : FS) (d fuel : Nat) (p : Path)
    (hcl : closedDepth fs d p = true) (hle : d ≤ fuel) :
    captured (parse fs fuel p) = reports (events fs d p) :=
  captured_parse fs d fuel p hcl hle

theorem C20_reports_spec_nonvacuous :
    closedDepth demoFS 3 "t.aux".toList = true ∧
    (reports (events demoFS 3 "t.aux".toList)).map (fun r => (r.file, r.lineno)) =
      [("u.aux".toList, some 1), ("t.aux".toList, some 5), ("t.aux".toList, some 6), ("t.aux".toList, some 7)] := by
  decide

/-- A second `\bibstyle` (`\bibdata`) — an event `e` of that kind with an earlier one among the
events `pre` read before it, in whatever files — is reported with the file, line number and text of
that line, and the first value is the one kept. -/
theorem C20_duplicates_reported (fs : FS) (d fuel : Nat) (p : Path)
    (hcl : closedDepth fs d p = true) (hle : d ≤ fuel)
    (pre post : List Event) (e : Event) (hev : events fs d p = pre ++ e :: post) :
    (∀ s s0, e.item = .bibstyle s → style pre = some s0 →
      ⟨.anotherBibstyle, e.file, some e.lineno, some e.text⟩ ∈ captured (parse fs fuel p) ∧
      ∀ st, parse fs fuel p = .ok st → st.style = some s0) ∧
    (∀ ns ns0, e.item = .bibdata ns → data pre = some ns0 →
      ⟨.anotherBibdata, e.file, some e.lineno, some e.text⟩ ∈ captured (parse fs fuel p) ∧
      ∀ st, parse fs fuel p = .ok st → st.data = some ns0) := by
  rw [captured_parse fs d fuel p hcl hle, hev]
  constructor
  · intro s s0 hi hs
    refine ⟨mem_reports_of_split pre post e _ (by simp [reportsOf, hi, hs, located]), ?_⟩
    intro st hst
    rw [(C20_style_data_spec fs d fuel p st hcl hle hst).1, hev]
    simp [style, List.findSome?_append] at hs ⊢
    simp [hs]
  · intro ns ns0 hi hs
    refine ⟨mem_reports_of_split pre post e _ (by simp [reportsOf, hi, hs, located]), ?_⟩
    intro st hst
    rw [(C20_style_data_spec fs d fuel p st hcl hle hst).2, hev]
    simp [data, List.findSome?_append] at hs ⊢
    simp [hs]

theorem C20_duplicates_reported_nonvacuous :
    captured (parse demoFS 4 "t.aux".toList) =
      [⟨.caseMismatch "b".toList "B".toList, "u.aux".toList, some 1, some "\\citation{b}".toList⟩,
       ⟨.caseMismatch "A".toList "a".toList, "t.aux".toList, some 5, some "\\citation{A}".toList⟩,
       ⟨.anotherBibstyle, "t.aux".toList, some 6, some "\\bibstyle{alpha}".toList⟩,
       ⟨.anotherBibdata, "t.aux".toList, some 7, some "\\bibdata{x,y}".toList⟩] := by decide

/-- A key cited in a spelling different from the spelling of its most recent citation (same key up
to case; earlier on the same line, on an earlier line, or in another file) is reported, with both
spellings, at the file, line number and text of the citing line. -/
theorem C20_case_mismatch_reported (fs : FS) (d fuel : Nat) (p : Path)
    (hcl : closedDepth fs d p = true) (hle : d ≤ fuel)
    (pre post : List Event) (e : Event) (hev : events fs d p = pre ++ e :: post)
    (keys k1 k2 : List Str) (k k' : Str) (hi : e.item = .citation keys) (hk : keys = k1 ++ k :: k2)
    (hlast : lastSpelling (citations pre ++ k1) k = some k') (hne : k ≠ k') :
    ⟨.caseMismatch k k', e.file, some e.lineno, some e.text⟩ ∈ captured (parse fs fuel p) := by
  rw [captured_parse fs d fuel p hcl hle, hev]
  apply mem_reports_of_split
  simp only [reportsOf, hi, hk, mismatches_append, mismatches, hlast, List.map_append, List.mem_append,
    List.mem_map]
  exact Or.inr (Or.inl ⟨(k, k'), by simp [hne], rfl⟩)

theorem C20_case_mismatch_reported_nonvacuous :
    lastSpelling ["a".toList, "B".toList, "b".toList] "B".toList = some "b".toList ∧
    lastSpelling ["a".toList, "B".toList] "c".toList = none ∧
    mismatches ["a".toList] ["A".toList, "a".toList, "a".toList] =
      [("A".toList, "a".toList), ("a".toList, "A".toList)] := by decide

/-- **"A key cited in two different spellings is reported"** — the wording of the property, which is NOT
literally what the code checks (audit-d, C20 finding 3): `handle_citation` compares a key with the MOST
RECENT spelling of the same key (`C20_case_mismatch_reported`), so the citations `a, A, a` give TWO
reports and `a, A, A` give one (`C20_two_spellings_reported_nonvacuous`).  The two readings agree on
WHETHER a key is reported, for every closed document:
(1) if a key occurs among the citations of the document in two different spellings (equal up to
    `str.lower()`, different as strings — on one line, on different lines, in different files), at least
    one case-mismatch report is made for that key;
(2) every case-mismatch report names two different spellings of one key, both of which are cited in the
    document.
How MANY reports there are and where is `C20_reports_spec` / `C20_case_mismatch_reported`. -/
theorem C20_two_spellings_reported (fs : FS) (d fuel : Nat) (p : Path)
    (hcl : closedDepth fs d p = true) (hle : d ≤ fuel) :
    (∀ k k', k ∈ citations (events fs d p) → k' ∈ citations (events fs d p) →
        lowerPy k = lowerPy k' → k ≠ k' →
        ∃ r ∈ captured (parse fs fuel p), ∃ a b, r.kind = .caseMismatch a b ∧ lowerPy a = lowerPy k) ∧
    (∀ r ∈ captured (parse fs fuel p), ∀ a b, r.kind = .caseMismatch a b →
        a ∈ citations (events fs d p) ∧ b ∈ citations (events fs d p) ∧ lowerPy b = lowerPy a ∧ a ≠ b) := by
  rw [captured_parse fs d fuel p hcl hle]
  have hiff := fun a b => caseMismatch_reportsAfter a b (events fs d p) []
  have hnil : citations ([] : List Event) = [] := rfl
  constructor
  · intro k k' hk hk' hf hne
    rcases mismatches_of_clash (lowerPy k) (citations (events fs d p)) []
        ⟨k, k', by simpa using hk, by simpa using hk', rfl, hf.symm, hne⟩ with ⟨ab, hab, hfab⟩ | ⟨x, _, hx, _⟩
    · obtain ⟨r, hr, hkind⟩ := (hiff ab.1 ab.2).2 (by rw [hnil]; exact hab)
      exact ⟨r, hr, ab.1, ab.2, hkind, hfab⟩
    · cases hx
  · intro r hr a b hkind
    have hm := (hiff a b).1 ⟨r, hr, hkind⟩
    rw [hnil] at hm
    obtain ⟨h1, h2, h3, h4⟩ := mem_mismatches _ [] (a, b) hm
    exact ⟨h1, by simpa using h2, h3, h4⟩

/-- the hypotheses of (1) hold in `demoFS` (`a` on line 2 of `t.aux`, `A` on line 5, after the nested
files); and the count is that of the "most recent spelling" reading: `a, A, a` two reports, `a, A, A` one,
`a, A, a, A` three -/
theorem C20_two_spellings_reported_nonvacuous :
    closedDepth demoFS 4 "t.aux".toList = true ∧
    "a".toList ∈ citations (events demoFS 4 "t.aux".toList) ∧
    "A".toList ∈ citations (events demoFS 4 "t.aux".toList) ∧
    lowerPy "a".toList = lowerPy "A".toList ∧
    mismatches [] ["a".toList, "A".toList, "a".toList] = [("A".toList, "a".toList), ("a".toList, "A".toList)] ∧
    mismatches [] ["a".toList, "A".toList, "A".toList] = [("A".toList, "a".toList)] ∧
    (mismatches [] ["a".toList, "A".toList, "a".toList, "A".toList]).length = 3 := by
  refine ⟨by decide, by decide, by decide, by decide, by decide, by decide, by decide⟩

/-- Reports made after returning from nested files carry the outer file and the right line: for a
top-level file `l1 ++ l :: l3`, whatever problem line `l` causes — given all the events read before
it, which include the complete contents of every file the lines `l1` include — is reported with
file `p`, line number `|l1| + 1` and the text of `l`. -/
theorem C20_context_after_input (fs : FS) (d fuel : Nat) (p : Path)
    (hcl : closedDepth fs (d + 1) p = true) (hle : d + 1 ≤ fuel)
    (l1 l3 : List Str) (l : Str) (hfs : fs p = some (l1 ++ l :: l3)) (r : Report)
    (hr : r ∈ reportsOf (lineEvents (events fs d) p l1 1) ⟨p, l1.length + 1, strip l, Spec.classify l⟩) :
    r ∈ captured (parse fs fuel p) ∧
    r.file = p ∧ r.lineno = some (l1.length + 1) ∧ r.line = some (strip l) := by
  constructor
  · rw [captured_parse fs (d + 1) fuel p hcl hle]
    simp only [events, hfs, lineEvents_append, lineEvents]
    rw [Nat.add_comm 1 l1.length]
    exact mem_reports_of_split _ _ _ r hr
  · simp only [reportsOf] at hr
    split at hr
    · split at hr
      · simp only [List.mem_singleton] at hr; subst hr; exact ⟨rfl, rfl, rfl⟩
      · cases hr
    · split at hr
      · simp only [List.mem_singleton] at hr; subst hr; exact ⟨rfl, rfl, rfl⟩
      · cases hr
    · simp only [List.mem_map] at hr
      obtain ⟨kk, _, rfl⟩ := hr
      exact ⟨rfl, rfl, rfl⟩
    · cases hr

/-- in `demoFS` the lines 5–7 of `t.aux` follow the `\@input` of `u.aux` (which includes `v.aux`);
the duplicate `\bibdata` on line 7 is a duplicate only because of the `\bibdata` inside `u.aux` -/
theorem C20_context_after_input_nonvacuous :
    (⟨.anotherBibdata, "t.aux".toList, some 7, some "\\bibdata{x,y}".toList⟩ : Report) ∈
      reportsOf (lineEvents (events demoFS 2) "t.aux".toList
        ["\\relax ".toList, "\\citation{a,B}".toList, "\\bibstyle{plain}".toList,
         "\\@input{u.aux}".toList, "\\citation{A}".toList, "\\bibstyle{alpha}".toList] 1)
        ⟨"t.aux".toList, 7, strip "\\bibdata{x,y}".toList, Spec.classify "\\bibdata{x,y}".toList⟩ := by
  decide

/-- **Every report is located at a real line of a real file, at any depth** (audit-d, C20 finding 2: the
second half of `C20_context_after_input` unfolds the event supplied in its own hypothesis).  For a closed
document, EVERY report the parse makes — in the top file or in a nested one, before or after an
`\@input` — names a file `r.file` of the file system and a line number `n ≥ 1` such that line `n` of that
file exists, `r.line` is that line without surrounding white space, and that line IS the command that
causes this kind of problem: a `\citation` line listing the reported key, a `\bibstyle` line, a
`\bibdata` line.  No reference to events, to the parser's context stack or to the position of the
line relative to nested files. -/
theorem C20_reports_located (fs : FS) (d fuel : Nat) (p : Path)
    (hcl : closedDepth fs d p = true) (hle : d ≤ fuel) (r : Report) (hr : r ∈ captured (parse fs fuel p)) :
    ∃ lines n l, fs r.file = some lines ∧ r.lineno = some n ∧ 1 ≤ n ∧ lines[n - 1]? = some l ∧
      r.line = some (strip l) ∧
      (match r.kind with
       | .caseMismatch a _ => ∃ keys, Spec.classify l = .citation keys ∧ a ∈ keys
       | .anotherBibstyle => ∃ s, Spec.classify l = .bibstyle s
       | .anotherBibdata => ∃ ns, Spec.classify l = .bibdata ns
       | _ => False) := by
  rw [captured_parse fs d fuel p hcl hle] at hr
  obtain ⟨e, he, hf, hn, hl, hk⟩ := reportsAfter_mem r (events fs d p) [] hr
  obtain ⟨lines, l, hfs, h1, hline, ht, hi⟩ := events_mem fs d p e he
  refine ⟨lines, e.lineno, l, by rw [hf]; exact hfs, hn, h1, hline, by rw [hl, ht], ?_⟩
  rw [← hi]
  exact hk

/-- the four reports of `demoFS`: one inside the nested file `u.aux` (line 1), three in `t.aux` AFTER the
nested files (lines 5, 6, 7); the hypotheses of `C20_reports_located` hold -/
theorem C20_reports_located_nonvacuous :
    closedDepth demoFS 4 "t.aux".toList = true ∧
    (captured (parse demoFS 4 "t.aux".toList)).map (fun r => (r.file, r.lineno, r.line)) =
      [("u.aux".toList, some 1, some "\\citation{b}".toList), ("t.aux".toList, some 5, some "\\citation{A}".toList),
       ("t.aux".toList, some 6, some "\\bibstyle{alpha}".toList), ("t.aux".toList, some 7, some "\\bibdata{x,y}".toList)] := by
  refine ⟨by decide, by decide⟩

/-! ### fatal errors -/

/-- A document without `\bibdata` is a fatal error (raised, not reported — whatever the reporting
mode); so is one with `\bibdata` but without `\bibstyle`; the error names the top-level file and no
line.  A document with both parses. -/
theorem C20_missing_fatal (fs : FS) (d fuel : Nat) (p : Path)
    (hcl : closedDepth fs d p = true) (hle : d ≤ fuel) :
    (data (events fs d p) = none →
      parse fs fuel p = .error ⟨.aux ⟨.noBibdata, p, none, none⟩, reports (events fs d p)⟩) ∧
    ((data (events fs d p)).isSome = true → style (events fs d p) = none →
      parse fs fuel p = .error ⟨.aux ⟨.noBibstyle, p, none, none⟩, reports (events fs d p)⟩) ∧
    ((data (events fs d p)).isSome = true → (style (events fs d p)).isSome = true →
      ∃ st, parse fs fuel p = .ok st) := by
  rw [parse_spec fs d fuel p hcl hle]
  refine ⟨fun h => ?_, fun h1 h2 => ?_, fun h1 h2 => ?_⟩
  · simp [Spec.fatal, h]
  · cases hd : data (events fs d p) with
    | none => simp [hd] at h1
    | some ns => simp [Spec.fatal, hd, h2]
  · cases hd : data (events fs d p) with
    | none => simp [hd] at h1
    | some ns =>
      cases hs : style (events fs d p) with
      | none => simp [hs] at h2
      | some s => simp [Spec.fatal, hd, hs]

theorem C20_missing_fatal_nonvacuous :
    parse demoFS 4 "u.aux".toList = .error ⟨.aux ⟨.noBibstyle, "u.aux".toList, none, none⟩, []⟩ ∧
    parse demoFS 4 "v.aux".toList = .error ⟨.aux ⟨.noBibdata, "v.aux".toList, none, none⟩, []⟩ := by
  constructor <;> rfl

/-! ### termination -/

/-- Fuel ≥ inclusion depth suffices: for acyclic inclusion of depth ≤ `d` (included files may be
missing) the model never runs out of fuel and its result is the same for every fuel ≥ `d`, from
every state.  And when the files can be listed so that no file includes itself or a file listed
before it (a topological order — exists iff inclusion is acyclic), every file has depth at most
(number of files + 1): that fuel always suffices. -/
theorem C20_terminates_acyclic (fs : FS) (d fuel : Nat) (p : Path) (st : St) (tl : Bool)
    (hd : depthOk fs d p = true) (hle : d ≤ fuel) :
    parseFile fs fuel st p tl = parseFile fs d st p tl ∧
    (∀ a, parseFile fs fuel st p tl = .error a → a.fatal ≠ .outOfFuel) ∧
    (∀ files : List (Path × List Str), topoOk [] files = true →
      ∀ q, depthOk (fsOf files) (files.length + 1) q = true) := by
  refine ⟨parseFile_fuel fs d fuel p st tl hd hle, ?_, ?_⟩
  · rw [parseFile_fuel fs d fuel p st tl hd hle]
    exact parseFile_noFuel fs d p st tl hd
  · intro files ht q
    exact topo_depth files files [] [] rfl (by simp) ht q (by simp)

theorem C20_terminates_acyclic_nonvacuous :
    depthOk demoFS 3 "t.aux".toList = true ∧ depthOk demoFS 2 "t.aux".toList = false ∧
    topoOk [] [("t".toList, ["\\@input{u}".toList, "\\@input{v}".toList]), ("u".toList, ["\\@input{v}".toList]),
               ("v".toList, ["\\@input{gone}".toList])] = true ∧
    topoOk [] [("t".toList, ["\\@input{u}".toList]), ("u".toList, ["\\@input{t}".toList])] = false ∧
    (∀ n, n ≤ 6 → depthOk (fsOf [("t".toList, ["\\@input{t}".toList])]) n "t".toList = false) := by
  decide

/-- On every file system (cyclic or not), with every fuel, from every state: the parser never
dereferences a missing context (Python: no `AttributeError` on `self.context`), and it returns
with a context set. -/
theorem C20_no_internal_error (fs : FS) (fuel : Nat) (st : St) (p : Path) (tl : Bool) :
    (∀ a, parseFile fs fuel st p tl = .error a → a.fatal ≠ .attributeError) ∧
    (∀ s, parseFile fs fuel st p tl = .ok s → s.context.isSome = true) :=
  parseFile_good fs fuel st p tl


/-! ### keys outside ASCII -/

/-- "The same key up to case" is Python's `str.lower()` on whole strings (`lowerPy`, from the
interpreter's own tables), not ASCII lower-casing: `É`/`é`, `Д`/`д` and the Kelvin sign / `k` are
spellings of one key (cited one after the other they are reported), `ß` and `SS` are not
(`lower()`, not `casefold()`); the string-level rules count too: `ΟΔΟΣ` and `οδος` (final sigma)
are one key, `ΟΔΟΣ` and `οδοσ` are two, and `İ` (U+0130) is the key `i̇` (two characters). -/
theorem C20_case_mismatch_unicode :
    lastSpelling ["É".toList] "é".toList = some "É".toList ∧
    lastSpelling ["д".toList] "Д".toList = some "д".toList ∧
    lastSpelling [[Char.ofNat 0x212A]] "k".toList = some [Char.ofNat 0x212A] ∧
    lastSpelling ["ß".toList] "SS".toList = none ∧
    lastSpelling ["ΟΔΟΣ".toList] "οδος".toList = some "ΟΔΟΣ".toList ∧
    lastSpelling ["ΟΔΟΣ".toList] "οδοσ".toList = none ∧
    lastSpelling [[Char.ofNat 0x130]] [Char.ofNat 0x69, Char.ofNat 0x307] = some [Char.ofNat 0x130] ∧
    mismatches [] ["É".toList, "é".toList, "é".toList] = [("é".toList, "É".toList)] := by
  decide +kernel

/-! ### a nested file that cannot be opened -/

/-- The non-closed case.  On an acyclic inclusion (depth ≤ `d`, files may be missing) reading stops
at the first `\@input` — in reading order, at any depth — whose file `m` cannot be opened: the parse
ends in the pybtex I/O error naming `m` (`PybtexError('unable to open m …')`), and what has been
reported by then are exactly the problems of the events read before it (the spec's reports of
`(eventsUntilMissing …).1`, which ends with that `\@input` line).  `m` is indeed absent from the file
system; and when nothing is missing, `eventsUntilMissing` is the complete unfolding `events` the
other theorems speak about. -/
theorem C20_missing_include (fs : FS) (d fuel : Nat) (p : Path)
    (hd : depthOk fs d p = true) (hle : d ≤ fuel) :
    (∀ m, (eventsUntilMissing fs d p).2 = some m →
      parse fs fuel p = .error ⟨.cannotOpen m, reports (eventsUntilMissing fs d p).1⟩ ∧ fs m = none) ∧
    (closedDepth fs d p = true → eventsUntilMissing fs d p = (events fs d p, none)) :=
  ⟨fun m hm => ⟨parse_missing fs d fuel p m hd hle hm, eventsUntilMissing_missing fs d p m hm⟩,
   eventsUntilMissing_closed fs d p⟩

/-- a case mismatch is reported on line 2, then `gone.aux` cannot be opened; the `\bibdata` line
after the `\@input` is never read; a missing file two levels down -/
theorem C20_missing_include_nonvacuous :
    parse (fsOf [("t.aux".toList, ["\\citation{a}".toList, "\\citation{A}".toList,
                                   "\\@input{gone.aux}".toList, "\\bibdata{x}".toList])]) 3 "t.aux".toList =
      .error ⟨.cannotOpen "gone.aux".toList,
              [⟨.caseMismatch "A".toList "a".toList, "t.aux".toList, some 2, some "\\citation{A}".toList⟩]⟩ ∧
    (eventsUntilMissing (fsOf [("t".toList, ["\\@input{u}".toList, "\\bibdata{x}".toList]),
                               ("u".toList, ["\\bibstyle{s}".toList, "\\@input{v}".toList, "\\bibstyle{s}".toList])])
        3 "t".toList).2 = some "v".toList ∧
    ((eventsUntilMissing (fsOf [("t".toList, ["\\@input{u}".toList, "\\bibdata{x}".toList]),
                               ("u".toList, ["\\bibstyle{s}".toList, "\\@input{v}".toList, "\\bibstyle{s}".toList])])
        3 "t".toList).1.map fun e => (e.file, e.lineno)) =
      [("t".toList, 1), ("u".toList, 1), ("u".toList, 2)] := by
  refine ⟨by rfl, by decide +kernel, by decide +kernel⟩

/-! ### `Engine.make_bibliography` -/

/-- `Engine.make_bibliography` consumes exactly the denotation: on a closed document without fatal
problem it calls `format_from_files` with the names of the first `\bibdata` (comma list expanded)
each extended by the reader's suffix, the style of the first `\bibstyle` (or the explicitly given
style), and the citations of the document in reading order, repeats kept; a fatal problem of the
document is raised unchanged before anything is formatted. -/
theorem C20_engine_consumes (fs : FS) (d fuel : Nat) (p : Path) (suffix : Str)
    (hcl : closedDepth fs d p = true) (hle : d ≤ fuel) :
    (∀ k, Spec.fatal (events fs d p) = some k → ∀ so,
      makeBibliographyArgs fs fuel p so suffix = .error ⟨.aux ⟨k, p, none, none⟩, reports (events fs d p)⟩) ∧
    (Spec.fatal (events fs d p) = none →
      ∃ ns s, data (events fs d p) = some ns ∧ style (events fs d p) = some s ∧
        makeBibliographyArgs fs fuel p none suffix =
          .ok ⟨ns.map (· ++ suffix), some s, citations (events fs d p)⟩ ∧
        ∀ s', makeBibliographyArgs fs fuel p (some s') suffix =
          .ok ⟨ns.map (· ++ suffix), some s', citations (events fs d p)⟩) := by
  constructor
  · intro k hk so
    simp only [makeBibliographyArgs, parse_spec fs d fuel p hcl hle, hk]
  · intro hf
    cases hdat : data (events fs d p) with
    | none => simp [Spec.fatal, hdat] at hf
    | some ns =>
      cases hsty : style (events fs d p) with
      | none => simp [Spec.fatal, hdat, hsty] at hf
      | some s =>
        refine ⟨ns, s, rfl, rfl, ?_, fun s' => ?_⟩ <;>
          simp only [makeBibliographyArgs, parse_spec fs d fuel p hcl hle, hf, hdat, hsty]

theorem C20_engine_consumes_nonvacuous :
    makeBibliographyArgs demoFS 4 "t.aux".toList none ".bib".toList =
      .ok ⟨["z.bib".toList], some "plain".toList,
           ["a".toList, "B".toList, "b".toList, "a}{c".toList, "A".toList]⟩ ∧
    makeBibliographyArgs demoFS 4 "v.aux".toList none ".bib".toList =
      .error ⟨.aux ⟨.noBibdata, "v.aux".toList, none, none⟩, []⟩ := by
  constructor <;> rfl

end Pybtex.Props
