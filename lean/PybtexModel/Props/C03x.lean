/-
C03, extension: fuel is provably sufficient for straight-line code, and facts about the
function-level entry points of `Model/InterpFn.lean` (the ops `bstbuiltin` / `bstsort` of the
driver).

`C03_fuel_mono` / `C03_deterministic` say that a run that finishes does not depend on the fuel, but
claim nothing about WHEN a run finishes.  Here: a function body that calls no other function body
(`straight`: literals, function literals, quoted names, names bound to anything but a `FUNCTION` or
one of the three code-executing built-ins `if$` / `while$` / `call.type$`) finishes within
`length + 3` units of fuel, whatever the state — so for the exhaustively enumerated straight-line
programs of the check the fuel of the model is not an assumption.
-/
import PybtexModel.Lemmas.Interp
import PybtexModel.Model.InterpFn
import PybtexModel.Gen.BstBuiltins

namespace Pybtex.Props
open Pybtex Pybtex.Interp Pybtex.BstSem

theorem pop_ne_fuel (s : St) : ∀ e, pop s = .error e → e ≠ .outOfFuel := by
  intro e h
  unfold pop at h
  split at h
  · cases h; intro h; cases h
  · cases h

theorem popInt_ne_fuel (s : St) : ∀ e, popInt s = .error e → e ≠ .outOfFuel := by
  intro e h
  unfold popInt at h
  split at h
  · rename_i e' he; cases h; exact pop_ne_fuel s _ he
  · cases h
  · cases h; intro h; cases h

theorem popStr_ne_fuel (s : St) : ∀ e, popStr s = .error e → e ≠ .outOfFuel := by
  intro e h
  unfold popStr at h
  split at h
  · rename_i e' he; cases h; exact pop_ne_fuel s _ he
  · cases h
  · cases h
  · cases h; intro h; cases h

theorem curEntry_ne_fuel (s : St) : ∀ e, curEntry s = .error e → e ≠ .outOfFuel := by
  intro e h
  unfold curEntry at h
  repeat' (split at h)
  all_goals first
    | (cases h; done)
    | (cases h; intro h; cases h)

theorem fmtErr_ne_fuel (e : FmtErr) : fmtErrToIErr e ≠ .outOfFuel := by
  cases e <;> (intro h; cases h)

/-- closes a leaf `… = .error .outOfFuel → False` of a built-in that runs no code -/
local macro "fuel_leaf" : tactic => `(tactic| first
  | (intro h; cases h; done)
  | (intro h; injection h with h; subst h; exact absurd rfl (pop_ne_fuel _ _ (by assumption)))
  | (intro h; injection h with h; subst h; exact absurd rfl (popInt_ne_fuel _ _ (by assumption)))
  | (intro h; injection h with h; subst h; exact absurd rfl (popStr_ne_fuel _ _ (by assumption)))
  | (intro h; injection h with h; subst h; exact absurd rfl (curEntry_ne_fuel _ _ (by assumption)))
  | (intro h; injection h with h; exact absurd h (fmtErr_ne_fuel _)))

/-- A built-in that executes no code needs one unit of fuel: it never runs out of it. -/
theorem prim_finished (f : Nat) (b : Builtin) (s : St) (hb : b.executes = false) :
    Finished (runBuiltin (f + 1) b s) := by
  unfold Finished
  cases b
  case callType => cases hb
  case if_ => cases hb
  case while_ => cases hb
  all_goals
    simp only [runBuiltin]
    repeat' split
    all_goals fuel_leaf

/-- executing a plain variable object needs two units of fuel -/
theorem obj_finished (f : Nat) (o : VarObj) (s : St) (ho : o.plain = true) : Finished (execObj (f + 2) o s) := by
  cases o with
  | func body => cases ho
  | builtin b =>
    have hb : b.executes = false := by
      simp only [VarObj.plain] at ho
      cases h : b.executes <;> simp_all
    exact prim_finished f b s hb
  | _ =>
    unfold Finished
    simp only [execObj]
    repeat' split
    all_goals fuel_leaf

/-- one element of a straight-line body needs three units of fuel -/
theorem tok_finished (f : Nat) (t : BTok) (s : St) (ht : straightTok s.vars t = true) : Finished (execTok (f + 3) t s) := by
  cases t with
  | name n =>
    simp only [straightTok] at ht
    simp only [execTok]
    cases hv : s.vars.getItem n with
    | none => intro h; cases h
    | some o =>
      rw [hv] at ht
      exact obj_finished f o s ht
  | quoted n =>
    unfold Finished
    simp only [execTok]
    split <;> (intro h; cases h)
  | _ => intro h; cases h

/-- the class of a name (plain or not) survives any execution: only values of globals change -/
theorem plain_persist {v v' : CIDict VarObj} (h : VarsPersist v v') (t : BTok) : straightTok v' t = straightTok v t := by
  cases t with
  | name n =>
    simp only [straightTok]
    rcases h n with h | ⟨a, b, h1, h2⟩ | ⟨a, b, h1, h2⟩
    · rw [h]
    · rw [h1, h2]; rfl
    · rw [h1, h2]; rfl
  | _ => rfl

theorem straight_persist {v v' : CIDict VarObj} (h : VarsPersist v v') (body : List BTok) : straight v' body = straight v body := by
  unfold straight
  induction body with
  | nil => rfl
  | cons t ts ih => simp only [List.all_cons, plain_persist h t, ih]

/-- **Fuel suffices for straight-line code.**  A body that calls no other function body finishes
(with a state or with an error other than "out of fuel") within `length + 3` units of fuel, from
every state. -/
theorem straight_finished (body : List BTok) : ∀ (s : St) (f : Nat), straight s.vars body = true →
    Finished (execBody (body.length + 3 + f) body s) := by
  induction body with
  | nil =>
    intro s f _
    have e : ([] : List BTok).length + 3 + f = (f + 2) + 1 := by simp only [List.length_nil]; omega
    rw [e]
    intro h; cases h
  | cons t ts ih =>
    intro s f hs
    simp only [straight, List.all_cons, Bool.and_eq_true] at hs
    have e : (t :: ts).length + 3 + f = (ts.length + 3 + f) + 1 := by simp only [List.length_cons]; omega
    rw [e]
    simp only [execBody]
    have e2 : ts.length + 3 + f = (ts.length + f) + 3 := by omega
    cases ht : execTok (ts.length + 3 + f) t s with
    | error err =>
      have := tok_finished (ts.length + f) t s hs.1
      rw [← e2, ht] at this
      exact this
    | ok s1 =>
      have hfr : Frame s s1 := (exec_frame _).2.2.1 t s s1 ht
      have hs1 : straight s1.vars ts = true := by
        rw [straight_persist hfr.vars ts]; exact hs.2
      exact ih s1 f hs1

/-- `C03_straight_line_fuel`: for a straight-line body (`straight s.vars body`: every element is a
literal, a function literal, a quoted name, or a name that is unbound or bound to an object other
than a `FUNCTION` and the built-ins `if$` / `while$` / `call.type$`) and EVERY state `s`:
(1) the run finishes within `length + 3` units of fuel, and (2) every larger amount of fuel gives
the very same result — so the outcome (final state or error) of straight-line code is a function
of the code and the state alone, and the fuel parameter of the model is no restriction there. -/
theorem C03_straight_line_fuel (body : List BTok) (s : St) (h : straight s.vars body = true) :
    Finished (execBody (body.length + 3) body s) ∧
    ∀ m, body.length + 3 ≤ m → execBody m body s = execBody (body.length + 3) body s := by
  have h0 := straight_finished body s 0 h
  exact ⟨h0, fun m hm => (fuel_mono_all _ m hm).2.2.2.1 body s h0⟩

/-- non-vacuous and sharp: `"ab{c}d" #3 text.prefix$ duplicate$ * 'gx` is straight-line in the
initial variable table, runs to a two-element stack with fuel `5 + 3`, and `length + 2` units are
not enough in general (`#1 #2 +` with fuel 5, `C03_fuel_mono_nonvacuous`). -/
theorem C03_straight_line_fuel_nonvacuous :
    straight initVars [.str "ab{c}d".toList, .int 3, .name "text.prefix$".toList, .name "duplicate$".toList, .name "*".toList] = true ∧
    (execBody 8 [.str "ab{c}d".toList, .int 3, .name "text.prefix$".toList, .name "duplicate$".toList, .name "*".toList]
      { vars := initVars }).toOption.map (·.stack.map printVal) = some ["ab{c}ab{c}".toList] ∧
    straight initVars [.int 1, .fn [], .fn [], .name "if$".toList] = false := by
  decide +kernel

/-- [model wiring + `C03_sort`] the function-level entry `sortOnly` (op `bstsort`: `command_sort`
alone) is the `SORT` command of the model on the state that holds exactly the given citation list
and `sort.key$` entries: whatever is proved about `SORT` (`C03_sort`, `C03_sort_unique`) is what
the op compares with `Interpreter.command_sort`. -/
theorem C03_sort_only (cites : List (Str × Option Str)) (inp : Input) (fuel : Nat) :
    sortOnly cites =
      (runCommand fuel inp ⟨"SORT".toList, []⟩
        { fresh with citations := cites.map (·.1),
                     entryVars := cites.filterMap fun c => c.2.map fun k => (c.1, [("sort.key$".toList, Val.str k)]) }).map (·.citations) := by
  have hS : upper "SORT".toList = "SORT".toList := by decide
  simp only [sortOnly, runCommand_sort _ _ ⟨"SORT".toList, []⟩ _ hS]
  split <;> (rename_i heq; rw [heq]; rfl)

/-- `sortOnly` on keys that differ in letter case only, a non-ASCII key, an empty and a never
assigned key: code-point order, stable -/
theorem C03_sort_only_nonvacuous :
    (sortOnly [("k1".toList, some "b".toList), ("k2".toList, some "B".toList), ("k3".toList, none), ("k4".toList, some "é".toList),
              ("k5".toList, some "".toList), ("k6".toList, some "B".toList)]).toOption =
      some ["k3".toList, "k5".toList, "k2".toList, "k6".toList, "k1".toList, "k4".toList] := by
  decide +kernel

/-- [model wiring] the function-level entry `applyNamed` (op `bstbuiltin`) is what executing the
name does inside a function body: `execTok` of `name` with one more unit of fuel, for a bound name -/
theorem C03_apply_named (fuel : Nat) (name : Str) (s : St) (o : VarObj) (h : s.vars.getItem name = some o) :
    applyNamed fuel name s = execTok (fuel + 1) (.name name) s := by
  simp only [applyNamed, execTok, h]

/-! ### the tables the model hard-codes, against the source read on every run (`Gen/BstBuiltins.lean`) -/

/-- Python class name (and value of an `Integer`) of a variable object -/
def varClass : VarObj → String × Int
  | .gint v => ("Integer", v)
  | .gstr _ => ("String", 0)
  | .eint _ => ("EntryInteger", 0)
  | .estr _ => ("EntryString", 0)
  | .field _ => ("Field", 0)
  | .crossref => ("Crossref", 0)
  | .func _ => ("Function", 0)
  | .builtin _ => ("Builtin", 0)

/-- the model's `runCommand` has a branch for the command name -/
def knowsCommand (c : String) : Bool :=
  match runCommand 1 noInput ⟨c.toList, []⟩ fresh with
  | .error (.internal w) => w != "unknown command"
  | _ => true

/-- `C03_tables_match_source`: the tables the interpreter model hard-codes are those of the source
tree the check runs on (regenerated into `Gen/BstBuiltins.lean` on every run; the build fails when
they drift apart): (1, 2) the names in `builtinTable` are exactly the keys of
`pybtex.bibtex.builtins.builtins`; (3) the other initial variables of `Interpreter.__init__`
(`global.max$` = 20000, `entry.max$` = 250 as `Integer`, `sort.key$` as `EntryString`) are in
`initVars` with that class and value, and (4) nothing else is; (5) `runCommand` has a branch for every
`command_*` method of `Interpreter`, (6) not for another name, and (7) every command the `.bst` parser
accepts (`BstParser.COMMANDS`, C15's regenerated table) is one of them, so the "Unknown command"
branch of `Interpreter.run` cannot be reached from a parsed file. -/
theorem C03_tables_match_source :
    (builtinTable.map (·.1)).all (Gen.bstBuiltinNames.contains ·) = true ∧
    Gen.bstBuiltinNames.all ((builtinTable.map (·.1)).contains ·) = true ∧
    Gen.bstInitVars.all (fun p =>
      match initVars.getItem p.1.toList with
      | some o => varClass o == (p.2.1, p.2.2)
      | none => false) = true ∧
    initVars.dict.length = Gen.bstBuiltinNames.length + Gen.bstInitVars.length ∧
    Gen.bstCommandMethods.all knowsCommand = true ∧
    knowsCommand "NOSUCH" = false ∧
    Gen.bstCommands.all (fun c => Gen.bstCommandMethods.contains (String.ofList c.1)) = true := by
  decide +kernel

end Pybtex.Props
