/-
C03, extension: TERMINATION of loop-free style code within an explicit fuel bound.

`C03_straight_line_fuel` covers bodies that execute no other body.  Here: bodies that call
`FUNCTION`s and use `if$`, as long as (`loopFree d vars body`, a Boolean computed from the text of
the body, the function bodies in the variable table and the entry types of the database that has
been read, `Lemmas/LoopFree.lean`)
* no `while$` can be reached,
* the reachable call graph has depth at most `d` (so it is acyclic); `call.type$` counts as a call
  of the object every entry type of the database (and `default.type`) is bound to,
* every reachable `if$` is applied to two values pushed by the two elements just before it
  (function literals / quoted names: the way every `.bst` file writes a conditional).
Such a body finishes from that state within `fuelBound d s body` units of fuel, and every larger
amount of fuel gives the same result; so do `EXECUTE`, `ITERATE` and `REVERSE` of such a function.

The third condition cannot be dropped: `{X} X` with `X = duplicate$ #1 swap$ duplicate$ if$`
mentions no `while$` and calls no `FUNCTION` at all, yet runs forever
(`C03_loop_free_terminates_neg`): `if$` applied to a value that `duplicate$` copied.
-/
import PybtexModel.Lemmas.LoopFree

namespace Pybtex.Props
open Pybtex Pybtex.Interp Pybtex.BstSem
open Pybtex.Bst (Command)

/-- `C03_loop_free_terminates`: for every depth `d`, body and state `s` with `loopFree d s body`
(no reachable `while$`; every called `FUNCTION` body is loop-free at depth `d - 1`; every `if$`
directly follows two pushes whose function literal / quoted `FUNCTION` is loop-free at depth
`d - 1`; `call.type$` only if every entry type of `s.db` and `default.type` is unbound, bound to an
object that runs no code, or to a `FUNCTION` that is loop-free at depth `d - 1`): (1) the run
finishes (a state, or an error other than "out of fuel") within `fuelBound d s body` units of fuel,
(2) with every larger amount of fuel too, and (3) with the very same result. -/
theorem C03_loop_free_terminates (d : Nat) (body : List BTok) (s : St) (h : loopFree d s body = true) :
    Finished (execBody (fuelBound d s body) body s) ∧
    ∀ m, fuelBound d s body ≤ m →
      Finished (execBody m body s) ∧ execBody m body s = execBody (fuelBound d s body) body s := by
  have h0 := level_hyp (kindFn s.vars) (typesOf s.db) d body s _ rfl (typesIn_typesOf _) h (Nat.le_refl _)
  refine ⟨h0, fun m hm => ⟨level_hyp (kindFn s.vars) (typesOf s.db) d body s m rfl (typesIn_typesOf _) h hm, ?_⟩⟩
  exact (fuel_mono_all _ m hm).2.2.2.1 body s h0

/-- the variable table of the non-vacuity examples: the initial one plus
`FUNCTION {f} { #1 { "a" } 'skip$ if$ }`, `FUNCTION {g} { f f * }`, `FUNCTION {default.type} { f }`
and `FUNCTION {rec} { #0 { rec } 'skip$ if$ }` (recursive) -/
def demoVars : CIDict VarObj :=
  (((initVars.setItem "f".toList (.func [.int 1, .fn [.str "a".toList], .quoted "skip$".toList, .name "if$".toList])).setItem
    "g".toList (.func [.name "f".toList, .name "F".toList, .name "*".toList])).setItem
    "default.type".toList (.func [.name "f".toList])).setItem
    "rec".toList (.func [.int 0, .fn [.name "rec".toList], .quoted "skip$".toList, .name "if$".toList])

/-- `g #0 { g } 'f if$ *` -/
def demoBody : List BTok :=
  [.name "g".toList, .int 0, .fn [.name "g".toList], .quoted "f".toList, .name "if$".toList, .name "*".toList]

def demoEntry (k ty : String) : Str × Pybtex.Entry :=
  (k.toList, { key := k.toList, type := ty.toList, fields := CIDict.empty, persons := CIDict.empty })

/-- a database with an entry of type `g` (a `FUNCTION`) and one of type `misc` (unbound:
`default.type` runs) -/
def demoDb : BibData :=
  { entries := CIDict.ofPairs [demoEntry "k1" "g", demoEntry "k2" "misc"], wanted := none, citations := CISet.empty }

/-- the same with an entry whose type is the name of a recursive function -/
def badDb : BibData :=
  { entries := CIDict.ofPairs [demoEntry "k1" "g", demoEntry "k2" "rec"], wanted := none, citations := CISet.empty }

def demoSt : St := { vars := demoVars, db := some demoDb, citations := ["k1".toList, "k2".toList] }

def outOfFuel : Except IErr St → Bool
  | .error .outOfFuel => true
  | _ => false

/-- non-vacuous: `g #0 { g } 'f if$ *` (calls `g`, which calls `f` twice, which uses `if$`; then an
`if$` on a function literal and a quoted `FUNCTION`) is loop-free at depth 4 — not at depth 3 —, its
bound is 30 (20 units are needed, 19 are not enough), it runs to the stack `["aaa"]`; `call.type$`
for the entry `k2` (type `misc`, unbound, so `default.type` runs) is loop-free at depth 3 and leaves
`["a"]`; and the predicate rejects `while$`, `call.type$` when an entry has the type `rec`, an `if$`
on swapped values, and the recursive `rec` at every depth tried. -/
theorem C03_loop_free_terminates_nonvacuous :
    loopFree 4 demoSt demoBody = true ∧ loopFree 3 demoSt demoBody = false ∧
    fuelBound 4 demoSt demoBody = 30 ∧
    (execBody 30 demoBody demoSt).toOption.map (·.stack.map printVal) = some ["aaa".toList] ∧
    (execBody 20 demoBody demoSt).toOption.map (·.stack.map printVal) = some ["aaa".toList] ∧
    outOfFuel (execBody 19 demoBody demoSt) = true ∧
    loopFree 3 { demoSt with cur := some "k2".toList } [.name "call.type$".toList] = true ∧
    (execBody (fuelBound 3 { demoSt with cur := some "k2".toList } [.name "call.type$".toList]) [.name "call.type$".toList]
      { demoSt with cur := some "k2".toList }).toOption.map (·.stack.map printVal) = some ["a".toList] ∧
    loopFree 5 demoSt [.fn [], .fn [], .name "while$".toList] = false ∧
    loopFree 40 { demoSt with db := some badDb } [.name "call.type$".toList] = false ∧
    loopFree 5 demoSt [.int 1, .fn [], .fn [], .name "swap$".toList, .name "if$".toList] = false ∧
    loopFree 40 demoSt [.name "rec".toList] = false := by
  decide +kernel

/-! ### the restriction on `if$` is needed -/

/-- `duplicate$ #1 swap$ duplicate$ if$` -/
def omegaX : List BTok :=
  [.name "duplicate$".toList, .int 1, .name "swap$".toList, .name "duplicate$".toList, .name "if$".toList]

/-- `{ duplicate$ #1 swap$ duplicate$ if$ } duplicate$ #1 swap$ duplicate$ if$` -/
def omegaProg : List BTok := .fn omegaX :: omegaX

def omegaSt : St := { vars := initVars, stack := [.fn omegaX] }

theorem outOfFuel_eq {r : Except IErr St} (h : outOfFuel r = true) : r = .error .outOfFuel := by
  cases r with
  | ok s => cases h
  | error e => cases e <;> first | rfl | cases h

def isBuiltin (b : Builtin) : Option VarObj → Bool
  | some (.builtin b') => b == b'
  | _ => false

theorem isBuiltin_eq {b : Builtin} {o : Option VarObj} (h : isBuiltin b o = true) : o = some (.builtin b) := by
  unfold isBuiltin at h
  split at h
  · rw [eq_of_beq h]
  · cases h

/-- one round of the loop: nine units of fuel later the same body runs in the same state -/
theorem omega_step (n : Nat) : execBody (n + 9) omegaX omegaSt = execBody n omegaX omegaSt := by
  have hd : initVars.getItem "duplicate$".toList = some (.builtin .duplicate) := isBuiltin_eq (by decide +kernel)
  have hs : initVars.getItem "swap$".toList = some (.builtin .swap) := isBuiltin_eq (by decide +kernel)
  have hi : initVars.getItem "if$".toList = some (.builtin .if_) := isBuiltin_eq (by decide +kernel)
  simp only [omegaX, omegaSt, execBody, execTok, execObj, runBuiltin, execVal, pop, popInt, push, hd, hs, hi]
  rw [if_pos (by decide)]
  split <;> (rename_i h; exact h.symm)

theorem omega_diverges : ∀ n, execBody n omegaX omegaSt = .error .outOfFuel
  | 0 => outOfFuel_eq (by decide +kernel)
  | 1 => outOfFuel_eq (by decide +kernel)
  | 2 => outOfFuel_eq (by decide +kernel)
  | 3 => outOfFuel_eq (by decide +kernel)
  | 4 => outOfFuel_eq (by decide +kernel)
  | 5 => outOfFuel_eq (by decide +kernel)
  | 6 => outOfFuel_eq (by decide +kernel)
  | 7 => outOfFuel_eq (by decide +kernel)
  | 8 => outOfFuel_eq (by decide +kernel)
  | n + 9 => by rw [omega_step n]; exact omega_diverges n

/-- the names a body mentions, function literals included -/
def namesOf : Nat → List BTok → List Str
  | 0, _ => []
  | d + 1, body => body.flatMap fun t =>
    match t with
    | .name n => [n]
    | .quoted n => [n]
    | .fn b => namesOf d b
    | _ => []

/-- `C03_loop_free_terminates_neg`: "no `while$` reachable and an acyclic call graph" alone does NOT
give termination.  The program `{X} X`, `X = duplicate$ #1 swap$ duplicate$ if$`, mentions only
`duplicate$`, `swap$` and `if$` — built-ins, no `while$`, no `call.type$`, no `FUNCTION`: its call
graph is empty — and from the initial state it is out of fuel with EVERY amount of fuel (`if$`
executes a function value that `duplicate$` copied, which executes itself again).  Accordingly
`loopFree` rejects it at every depth: `if$` must be applied to values pushed just before it. -/
theorem C03_loop_free_terminates_neg :
    (namesOf 3 omegaProg).all (fun n => n = "duplicate$".toList ∨ n = "swap$".toList ∨ n = "if$".toList) = true ∧
    (∀ n, execBody n omegaProg { vars := initVars } = .error .outOfFuel) ∧
    ∀ d, loopFree d { vars := initVars } omegaProg = false := by
  have hdiv : ∀ n, execBody n omegaProg { vars := initVars } = .error .outOfFuel := by
    intro n
    match n with
    | 0 => rfl
    | 1 => rfl
    | n + 2 =>
      show execBody (n + 1) omegaX omegaSt = _
      exact omega_diverges _
  refine ⟨by decide +kernel, hdiv, fun d => ?_⟩
  cases h : loopFree d { vars := initVars } omegaProg with
  | false => rfl
  | true =>
    have := (C03_loop_free_terminates d omegaProg { vars := initVars } h).1
    exact absurd (hdiv _) this

/-! ### `EXECUTE`, `ITERATE`, `REVERSE` -/

/-- `C03_loop_free_execute`: the command `EXECUTE {t}` (hypotheses: the command name is `EXECUTE`
in any letter case, its argument group starts with `t`, and `[t]` is loop-free at depth `d` in the
state) finishes with every amount of fuel from `fuelBound d s [t]` on — the fuel the model's
`runCommand` is given — and the result does not depend on it. -/
theorem C03_loop_free_execute (d : Nat) (inp : Input) (c : Command) (s : St) (t : BTok) (ts : List BTok)
    (hc : upper c.name = "EXECUTE".toList) (hg : c.groups = [t :: ts]) (h : loopFree d s [t] = true) :
    ∀ m, fuelBound d s [t] ≤ m →
      Finished (runCommand m inp c s) ∧ runCommand m inp c s = runCommand (fuelBound d s [t]) inp c s := by
  have key : ∀ m, fuelBound d s [t] ≤ m → Finished (execTok m t s) := by
    intro m hm hbad
    have := ((C03_loop_free_terminates d [t] s h).2 (m + 1) (by omega)).1
    apply this
    simp only [execBody, hbad]
  intro m hm
  rw [runCommand_execute m inp c s t ts hc hg, runCommand_execute _ inp c s t ts hc hg]
  exact ⟨key m hm, (fuel_mono_all _ m hm).2.2.1 t s (key _ (Nat.le_refl _))⟩

/-- non-vacuous: `EXECUTE {g}` in the state of `C03_loop_free_terminates_nonvacuous` -/
theorem C03_loop_free_execute_nonvacuous :
    upper "execute".toList = "EXECUTE".toList ∧ loopFree 3 demoSt [.name "g".toList] = true ∧
    (runCommand (fuelBound 3 demoSt [.name "g".toList]) noInput ⟨"execute".toList, [[.name "g".toList]]⟩ demoSt).toOption.map
      (·.stack.map printVal) = some ["aa".toList] := by
  decide +kernel

/-- `C03_loop_free_iterate`: the commands `ITERATE {f}` and `REVERSE {f}` (hypotheses: the command
name is one of the two in any letter case, the argument group starts with a token naming `f`, `f`
is bound in the state, and `[f]` is loop-free at depth `d` in the state — `f` may be `call.type$`)
finish with every amount of fuel from `fuelBound d s [f]` on, whatever the number of entries (the
fuel is per entry), and the result does not depend on the fuel. -/
theorem C03_loop_free_iterate (d : Nat) (inp : Input) (c : Command) (s : St) (t : BTok) (ts : List BTok)
    (f : Str) (o : VarObj)
    (hc : upper c.name = "ITERATE".toList ∨ upper c.name = "REVERSE".toList) (hg : c.groups = [t :: ts])
    (ht : tokName t = .ok f) (ho : s.vars.getItem f = some o) (h : loopFree d s [.name f] = true) :
    ∀ m, fuelBound d s [.name f] ≤ m →
      Finished (runCommand m inp c s) ∧
      runCommand m inp c s = runCommand (fuelBound d s [.name f]) inp c s := by
  have hKn : kindFn s.vars f = kindOf (some o) := by simp only [kindFn, ho]
  have key : ∀ m, fuelBound d s [.name f] ≤ m → ∀ ks, Finished (iterate m o ks s) := by
    intro m hm ks
    cases d with
    | zero =>
      exact iterate_level _ _ _ _ (fun _ _ _ _ _ h => by cases h) f o m hKn h hm ks s rfl (typesIn_typesOf _)
    | succ d =>
      exact iterate_level _ _ _ _ (level_hyp _ _ d) f o m hKn h hm ks s rfl (typesIn_typesOf _)
  intro m hm
  rcases hc with hc | hc
  · rw [runCommand_iterate m inp c s t ts f o hc hg ht ho, runCommand_iterate _ inp c s t ts f o hc hg ht ho]
    exact ⟨key m hm _, iterate_mono o _ m hm _ s (key _ (Nat.le_refl _) _)⟩
  · rw [runCommand_reverse m inp c s t ts f o hc hg ht ho, runCommand_reverse _ inp c s t ts f o hc hg ht ho]
    exact ⟨key m hm _, iterate_mono o _ m hm _ s (key _ (Nat.le_refl _) _)⟩

/-- non-vacuous: `ITERATE {call.type$}` over the two entries of the example database (types `g`
and `misc`) is loop-free at depth 3 — not at depth 2 — with bound 22 (17 units are needed) and leaves `"a"` (from
`default.type`) above `"aa"` (from `g`); `REVERSE` the other way round -/
theorem C03_loop_free_iterate_nonvacuous :
    upper "iterate".toList = "ITERATE".toList ∧ (tokName (.name "call.type$".toList)).toOption = some "call.type$".toList ∧
    (demoSt.vars.getItem "call.type$".toList).isSome = true ∧
    loopFree 3 demoSt [.name "call.type$".toList] = true ∧ loopFree 2 demoSt [.name "call.type$".toList] = false ∧
    fuelBound 3 demoSt [.name "call.type$".toList] = 22 ∧
    outOfFuel (runCommand 16 noInput ⟨"iterate".toList, [[.name "call.type$".toList]]⟩ demoSt) = true ∧
    (runCommand (fuelBound 3 demoSt [.name "call.type$".toList]) noInput ⟨"iterate".toList, [[.name "call.type$".toList]]⟩
      demoSt).toOption.map (·.stack.map printVal) = some ["a".toList, "aa".toList] ∧
    (runCommand (fuelBound 3 demoSt [.name "call.type$".toList]) noInput ⟨"REVERSE".toList, [[.name "call.type$".toList]]⟩
      demoSt).toOption.map (·.stack.map printVal) = some ["aa".toList, "a".toList] := by
  decide +kernel

end Pybtex.Props
