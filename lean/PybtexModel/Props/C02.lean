/-
C02 — write/read round trip and cross-format conversion preserve the database.

Property theorems only.  Models: `Model/BibWrite.lean` (the three writers, the YAML / BibTeXML
readers, `lower()`, `convert`), `Model/BibParse.lean` (the `.bib` reader), `Model/Names.lean`
(`Person(...)`).  Domain predicates and closed forms: `Spec/BibWrite.lean`.  Helper lemmas:
`Lemmas/BibWriteSplit.lean` (`split_tex_string` as a flat scan), `Lemmas/BibWriteNames.lean` (tokens,
names), `Lemmas/BibWritePieces.lean` (completeness of splitting), `Lemmas/BibWriteDb.lean` (the BibTeX
writer's text against the `.bib` reader, over the printer/parser lemmas of C01),
`Lemmas/BibWriteYaml.lean`, `Lemmas/BibWriteXml.lean`, `Lemmas/BibWriteChain.lean`,
`Lemmas/BibWriteChainOn.lean` (the chain lemmas with the serialiser hypothesis per tree, `chainLog`).

The model follows the code after the repairs proposed_fixes/C02-1 (`_format_name` / `__str__` keep
an empty First part) and C02-2 (BibTeXML reader: role detection on the lower-cased tag).
-/
import PybtexModel.Lemmas.BibWriteChain
import PybtexModel.Lemmas.BibWriteChainOn
import PybtexModel.Lemmas.BibWriteQuant
import PybtexModel.Lemmas.BibWriteSerial
import PybtexModel.Lemmas.BibWriteRepr
import PybtexModel.Props.C04

namespace Pybtex.Props
open Pybtex Pybtex.Spec Pybtex.Bib Pybtex.BibSpec Pybtex.BibWrite Pybtex.C02

/-! ### example persons -/

/-- "van Beethoven, Jr, Ludwig X." -/
def c02P1 : Person :=
  { first := ["Ludwig".toList], middle := ["X.".toList], prelast := ["van".toList],
    last := ["Beethoven".toList], lineage := ["Jr".toList] }
/-- a Jr part without first name (section 4 #19): written "Last, Jr," -/
def c02P2 : Person := { last := ["Last".toList], lineage := ["Jr".toList] }
/-- two Last tokens, no von, no first name: written "World Bank," -/
def c02P3 : Person := { last := ["World".toList, "Bank".toList] }
/-- braces, a special character, a quote, a backslash, a protected comma and " and " -/
def c02P4 : Person :=
  { first := ["{\\'E}mile".toList], prelast := ["de".toList, "la".toList],
    last := ["Vall{\\'e}e".toList, "{Poussin, and Co}".toList, "O\"Q\\x".toList] }

/-! ### 1. persons -/

/-- **Name round trip.**  For every person satisfying the explicit predicate `WFPerson` (what
`Person(string)` produces — see `C02_wfperson_of_parse` — with no token ending in a backslash),
the text `_format_name` writes and the text `__str__` gives are read back by `Person(text)` as the
same person (same five token lists), nothing reported; and both texts coincide (`personStr` is
`__str__` after repair C02-1; it is `Person.toStr` whenever no empty First part has to be kept). -/
theorem C02_person_roundtrip (p : Person) (h : WFPerson p = true) :
    mkPerson (formatName p) [] [] [] [] [] = .ok (p, false) ∧
    mkPerson (personStr p) [] [] [] [] [] = .ok (p, false) ∧
    personStr p = formatName p ∧
    -- `Person.toStr` of `Model/Names.lean` (the text without the trailing comma of repair C02-1)
    (keepsEmptyFirst p = false → mkPerson p.toStr [] [] [] [] [] = .ok (p, false)) := by
  have hg := personGood_of_wf h
  have h2 : mkPerson (personStr p) [] [] [] [] [] = .ok (p, false) := by
    rw [personStr_eq_format hg]; exact mkPerson_format hg
  refine ⟨mkPerson_format hg, h2, personStr_eq_format hg, fun hk => ?_⟩
  have : personStr p = p.toStr := by simp [personStr, hk]
  rw [← this]; exact h2

theorem C02_person_roundtrip_nonvacuous :
    WFPerson c02P1 = true ∧ formatName c02P1 = "van Beethoven, Jr, Ludwig X.".toList ∧
    WFPerson c02P2 = true ∧ formatName c02P2 = "Last, Jr,".toList ∧
    WFPerson c02P3 = true ∧ formatName c02P3 = "World Bank,".toList ∧
    WFPerson c02P4 = true ∧
      formatName c02P4 = "de la Vall{\\'e}e {Poussin, and Co} O\"Q\\x, {\\'E}mile".toList := by
  decide +kernel

/-- why the empty First part has to be kept (repair C02-1): without the trailing comma the reader
takes the Jr part for the first name, resp. the first Last token for the first name -/
theorem C02_person_roundtrip_comma_needed :
    mkPerson "Last, Jr".toList [] [] [] [] [] =
      .ok ({ first := ["Jr".toList], last := ["Last".toList] }, false) ∧
    mkPerson "World Bank".toList [] [] [] [] [] =
      .ok ({ first := ["World".toList], last := ["Bank".toList] }, false) ∧
    mkPerson "Last, Jr,".toList [] [] [] [] [] = .ok (c02P2, false) ∧
    mkPerson "World Bank,".toList [] [] [] [] [] = .ok (c02P3, false) := by
  decide +kernel

/-- the proviso "no token ends in a backslash" cannot be dropped: `a\` followed by the joining
blank is read as the separator `\ ` (the person is `Person('A\\\\ B C')`) -/
theorem C02_person_roundtrip_backslash_neg :
    let p : Person := { first := ["A\\".toList], middle := ["B".toList], last := ["C".toList] }
    mkPerson "A\\\\ B C".toList [] [] [] [] [] = .ok (p, false) ∧
    WFPersonCore p = true ∧ WFPerson p = false ∧
    mkPerson (formatName p) [] [] [] [] [] =
      .ok ({ first := ["A".toList], middle := ["B".toList], last := ["C".toList] }, false) := by
  decide +kernel

/-- **The five part texts** (`get_part_as_text`, the YAML / BibTeXML path): `Person(first=…,
middle=…, prelast=…, last=…, lineage=…)` built from the blank-joined token lists gives the person
back, whenever its tokens are clean (no structural condition on the five lists is needed). -/
theorem C02_person_parts_roundtrip (p : Person)
    (h : (personTokens p).all (fun t => tokCore t && noBsEnd t) = true) :
    mkPerson [] (partText p.first) (partText p.middle) (partText p.prelast) (partText p.last)
      (partText p.lineage) = .ok (p, false) := by
  apply mkPerson_parts
  intro t ht
  simp only [List.all_eq_true, Bool.and_eq_true] at h
  exact ⟨(h t ht).1, (h t ht).2⟩

theorem C02_person_parts_roundtrip_nonvacuous :
    (personTokens c02P4).all (fun t => tokCore t && noBsEnd t) = true ∧
    partText c02P4.last = "Vall{\\'e}e {Poussin, and Co} O\"Q\\x".toList ∧
    -- a person no name string denotes (two first names, a von token inside Last)
    (personTokens { first := ["A".toList, "B".toList], last := ["x".toList, "Y".toList] }).all
      (fun t => tokCore t && noBsEnd t) = true := by
  decide +kernel

/-- **The domain is what the reader produces.**  Every person `Person(name)` returns for a
brace-balanced name (nesting ≤ 100) with at least one von / Last token satisfies `WFPersonCore`:
tokens non-empty, balanced, without brace-level-0 white space, tie or comma; `last ≠ []`; no von
token inside `last.dropLast`; `prelast` empty or ending in a von token; at most one first name,
and no middle name without one.  (`WFPerson` adds only "no token ends in a backslash".) -/
theorem C02_wfperson_of_parse (name : Str) (p : Person) (b : Bool)
    (hbal : litScan false 0 name = some 0) (h : parseName name = .ok (p, b))
    (hvl : p.prelast ++ p.last ≠ []) :
    WFPersonCore p = true := by
  have hne : name ≠ [] := by
    rintro rfl
    have : parseName [] = .error .valueError := by decide +kernel
    rw [this] at h; cases h
  have hparts := goodSrc_comma_parts hbal
  have hpres := (C04_tokens_preserved name p b h).2
  -- every token comes from a good source
  have htok : ∀ t ∈ personTokens p, tokCore t = true ∧
      (t ∈ Spec.caseTokens name → Spec.caseKnown t = true) := by
    intro t ht
    have hcore : tokCore t = true := by
      revert hpres
      cases hc : splitTex .comma name with
      | nil => intro hp; exact hp.elim
      | cons a r =>
        have ha : GoodSrc a := hparts a (by rw [hc]; simp)
        cases r with
        | nil =>
          intro hp
          simp only [] at hp
          -- one part: the name itself has no comma at brace level 0
          have hname : GoodSrc name := by
            refine ⟨hbal, ?_⟩
            have hb := litScan_depthAfter name 0 0 hbal
            obtain ⟨q, qs, h1, h2, _⟩ := splitLoop_main .comma (name.length + 1) name none (by omega) hb (Or.inl hne)
            have hraw : splitTexRaw .comma name = q :: qs := by rw [splitTexRaw, h1]; rfl
            have hlen : (splitTex .comma name).length = (q :: qs).length := by
              have : splitTex .comma name = (splitTexRaw .comma name).map strip := by simp [splitTex, splitTexRaw]
              rw [this, hraw]; simp
            rw [hc] at hlen
            have hqs : qs = [] := by
              simp only [List.length_cons, List.length_nil] at hlen
              exact List.eq_nil_of_length_eq_zero (by omega)
            subst hqs
            have hq : name = q := h2.singleton_inv
            have := flat_comma_pieces name 0 none [] (by intro y; rfl) q
              (by rw [← splitTexRaw_flat .comma name hb hne, hraw]; simp)
            rw [hq]; exact this
          apply tokCore_of_src hname
          rw [← hp.1]
          simp only [personTokens, hp.2, List.append_nil] at ht
          exact ht
        | cons c r' =>
          have hcS : GoodSrc c := hparts c (by rw [hc]; simp)
          cases r' with
          | nil =>
            intro hp
            simp only [] at hp
            simp only [personTokens, hp.2.1, List.append_nil, List.mem_append] at ht
            rcases ht with ((h1 | h1) | h1) | h1
            · exact tokCore_of_src hcS t (by rw [← hp.2.2]; simp [h1])
            · exact tokCore_of_src hcS t (by rw [← hp.2.2]; simp [h1])
            · exact tokCore_of_src ha t (by rw [← hp.1]; simp [h1])
            · exact tokCore_of_src ha t (by rw [← hp.1]; simp [h1])
          | cons d r'' =>
            intro hp
            simp only [] at hp
            have hrest : GoodSrc (joinWith [' '] (d :: r'')) :=
              goodSrc_join _ (fun x hx => hparts x (by rw [hc]; simp [hx]))
            simp only [personTokens, List.mem_append] at ht
            rcases ht with (((h1 | h1) | h1) | h1) | h1
            · exact tokCore_of_src hrest t (by rw [← hp.2.2]; simp [h1])
            · exact tokCore_of_src hrest t (by rw [← hp.2.2]; simp [h1])
            · exact tokCore_of_src ha t (by rw [← hp.1]; simp [h1])
            · exact tokCore_of_src ha t (by rw [← hp.1]; simp [h1])
            · exact tokCore_of_src hcS t (by rw [← hp.2.1]; exact h1)
    refine ⟨hcore, fun _ => ?_⟩
    simp only [tokCore, Bool.and_eq_true, beq_iff_eq] at hcore
    exact Names.caseKnown_of_scan (litScan_scan hcore.2)
  -- the case-deciding tokens are tokens of the person
  have hk : ∀ t ∈ Spec.caseTokens name, Spec.caseKnown t = true := by
    intro t ht
    have hmem : t ∈ personTokens p := by
      have hp := hpres
      unfold Spec.caseTokens at ht
      revert hp ht
      cases hc : splitTex .comma name with
      | nil => intro ht _; simp at ht
      | cons a r =>
        cases r with
        | nil =>
          intro ht hp
          simp only [] at hp ht
          rw [← hp.1] at ht
          simp only [personTokens, List.mem_append] at ht ⊢
          rcases ht with ((h1 | h1) | h1) | h1 <;> simp [h1]
        | cons c r' =>
          cases r' with
          | nil =>
            intro ht hp
            simp only [] at hp ht
            have := Names.mem_of_mem_dropLast ht
            rw [← hp.1] at this
            simp only [personTokens, List.mem_append] at this ⊢
            rcases this with h1 | h1 <;> simp [h1]
          | cons d r'' =>
            intro ht hp
            simp only [] at hp ht
            have := Names.mem_of_mem_dropLast ht
            rw [← hp.1] at this
            simp only [personTokens, List.mem_append] at this ⊢
            rcases this with h1 | h1 <;> simp [h1]
    exact (htok t hmem).2 ht
  obtain ⟨_, h2, h3, h4, _⟩ := C04_von_longest name p b h
  have hfirst := (C04_tokens_preserved name p b h).1
  have hlast : p.last ≠ [] := h4 hvl
  have hf1 : p.first.length ≤ 1 := by
    rw [hfirst]; simp only [List.length_take]; omega
  have hf2 : p.first = [] → p.middle = [] := by
    intro hf
    rw [hf] at hfirst
    simp only [List.nil_append] at hfirst
    cases hm : p.middle with
    | nil => rfl
    | cons x xs => rw [hm] at hfirst; simp at hfirst
  simp only [WFPersonCore, Bool.and_eq_true, List.all_eq_true, decide_eq_true_eq, Bool.or_eq_true,
    Bool.not_eq_true']
  refine ⟨⟨⟨⟨⟨fun t ht => (htok t ht).1, hlast⟩, h2⟩, ?_⟩, hf1⟩, ?_⟩
  · by_cases hp : p.prelast = []
    · exact Or.inl hp
    · right
      obtain ⟨t, ht, hv⟩ := h3 hp
      rw [ht]; simpa using hv
  · by_cases hf : p.first = []
    · exact Or.inr (hf2 hf)
    · exact Or.inl hf

theorem C02_wfperson_of_parse_nonvacuous :
    litScan false 0 "de la Vall{\\'e}e {Poussin, and Co} O\"Q\\x, {\\'E}mile".toList = some 0 ∧
    parseName "de la Vall{\\'e}e {Poussin, and Co} O\"Q\\x, {\\'E}mile".toList = .ok (c02P4, false) ∧
    c02P4.prelast ++ c02P4.last ≠ [] ∧
    parseName "Last, Jr,".toList = .ok (c02P2, false) ∧ parseName "World Bank,".toList = .ok (c02P3, false) := by
  decide +kernel

/-! ### 2. BibTeX: staged — field, entry, database -/

/-- a database using every construct: a preamble, mixed-case key / type / field names / role, braces,
quotes (braced spelling), a backslash, `@ , =`, persons with von / Jr / special characters, a Jr part
without first name, an entry without any field -/
def c02E1 : Entry :=
  { key := "Knuth:84".toList, type := "article".toList, origType := "Article".toList,
    fields := [("Title".toList, "The {\\TeX}book, vol. 1 = @A".toList), ("note".toList, "q \"x\" q".toList),
               ("year".toList, "1984".toList)],
    persons := [("AUTHOR".toList, [c02P1, c02P2]), ("editor".toList, [c02P4])] }
def c02E2 : Entry :=
  { key := "k2".toList, type := "misc".toList, origType := "misc".toList, fields := [], persons := [] }
def c02Db : BibData :=
  { entries := [c02E1, c02E2], preamble := ["\\newcommand{\\x}{y}".toList, " z".toList] }
/-- one entry with a field called `Type` -/
def c02DbType : BibData :=
  { entries := [{ key := "k".toList, type := "a".toList, origType := "a".toList,
                  fields := [("Type".toList, "x".toList)], persons := [] }] }

/-- **Field.**  A good value (balanced, nesting ≤ 100) that the encoder leaves alone is written as
`,\n    name = "value"` — `{value}` when it contains a double quote — and that spelling is a
well-formed literal of the `.bib` grammar (`pieceOk` of C01). -/
theorem C02_bibtex_field (encode : Str → Str) (n v : Str) (hv : litScan false 0 v = some 0)
    (henc : encode v = v) :
    writeField encode n v = .ok (fieldText (n, v)) ∧
    quote v = .ok (renderPiece (.lit v) { spelling := spellOf v }) ∧
    (∀ m, pieceOk m (.lit v) { spelling := spellOf v } = true) :=
  ⟨writeField_ok ⟨hv, henc⟩, quote_ok hv, fun m => pieceOk_spell m hv⟩

theorem C02_bibtex_field_nonvacuous :
    litScan false 0 "q {\"x\"} q".toList = some 0 ∧
    fieldText ("note".toList, "q {\"x\"} q".toList) = ",\n    note = {q {\"x\"} q}".toList ∧
    fieldText ("Title".toList, "A {B}".toList) = ",\n    Title = \"A {B}\"".toList := by
  decide +kernel

/-- **Entry.**  For an entry of the domain (`entryOkW`): the writer's text is `entryText e`; when
the entry has a role or a field it is the rendering (`Spec/Bib.lean`, C01) of the entry command
whose fields are the roles (value = the ` and `-joined names) followed by the fields, under the
writer's layout, and that command is well-formed for C01 (`cmdOk`); and the command denotes exactly
the entry — in particular every name list is read back as the same persons. -/
theorem C02_bibtex_entry (encode : Str → Str) (henc : ∀ s, Safe s = true → encode s = s)
    (keys : List Str) (e : Entry) (h : entryOkW keys e = true) :
    writeEntry encode e = .ok (entryText e) ∧
    (rawFields e ≠ [] →
      entryText e = renderCmd (.entry e.origType e.key (docOfRaw (rawFields e))) (entryLayout e) ∧
      cmdOk initMacros keys (.entry e.origType e.key (docOfRaw (rawFields e))) (entryLayout e) = true) ∧
    denoteEntry initMacros e.origType e.key (docOfRaw (rawFields e)) = e ∧
    (∀ r ∈ e.persons, personsOf (formatNames r.2) = r.2) := by
  have hg := entryGood_of_ok h
  refine ⟨writeEntry_ok henc hg, fun hne => ⟨entryText_render hne, cmdOk_entry hg initMacros⟩,
    entry_denote hg initMacros, fun r hr => ?_⟩
  exact (names_read_back r.2 (hg.roles r hr).ne (hg.roles r hr).persons).1

theorem C02_bibtex_entry_nonvacuous :
    entryOkW [] c02E1 = true ∧ rawFields c02E1 ≠ [] ∧
    entryOkW ["knuth:84".toList] c02E2 = true ∧ rawFields c02E2 = [] := by
  decide +kernel

/-- **BibTeX round trip.**  For every database of the domain `WFDb` and every encoder that leaves
strings free of `# % & _ ~` alone, the writer succeeds and the `.bib` reader (either error mode)
reads its text back without raising or reporting anything, as the same entries — keys, entry types
as written, fields with their values in order, persons per role in order — and the same preamble
(as one string). -/
theorem C02_bibtex_roundtrip (encode : Str → Str) (henc : ∀ s, Safe s = true → encode s = s)
    (d : BibData) (h : WFDb d = true) (strict : Bool) :
    ∃ text, writeStream encode d = .ok text ∧
      (parseBib text strict none).2 = none ∧ (parseBib text strict none).1.errs = [] ∧
      (parseBib text strict none).1.db.entries = d.entries ∧
      (parseBib text strict none).1.db.preamble = canonPreamble d ∧
      ((parseBib text strict none).1.db.preamble).flatten = d.preambleText := by
  obtain ⟨text, s', h1, h2, h3, h4, h5⟩ := parseBib_written henc d h strict
  refine ⟨text, h1, ?_⟩
  rw [h2]
  exact ⟨rfl, h3, h4, h5, by rw [h5]; exact canonPreamble_text d⟩

theorem C02_bibtex_roundtrip_nonvacuous :
    WFDb c02Db = true ∧ (∀ s, Safe s = true → (id : Str → Str) s = s) := by
  exact ⟨by decide +kernel, fun _ _ => rfl⟩

/-- the text written for the example and what the reader makes of it (kernel evaluation) -/
theorem C02_bibtex_roundtrip_example :
    writeStream id c02Db = .ok
      ("@preamble{\"\\newcommand{\\x}{y} z\"}\n\n@Article{Knuth:84,\n    AUTHOR = \"van Beethoven, Jr, Ludwig X. and Last, Jr,\",\n    editor = {de la Vall{\\'e}e {Poussin, and Co} O\"Q\\x, {\\'E}mile},\n    Title = \"The {\\TeX}book, vol. 1 = @A\",\n    note = {q \"x\" q},\n    year = \"1984\"\n}\n\n@misc{k2\n}\n").toList := by
  decide +kernel

/-! ### 3. YAML and BibTeXML: pybtex's own conversion logic -/

/-- **YAML.**  Given a serialiser that is lossless ON THE ONE TREE the YAML writer builds for this
database (`yaml.load (yaml.dump t) = t` for `t = _to_dict(d)`; PyYAML is not lossless on every tree,
e.g. U+0085), reading back what the YAML writer wrote yields the same entries — keys, entry types,
fields in order, roles in order, persons through their five name-part strings — and the preamble
as one string; nothing is reported.  Domain `WFDbTree true`: no field is called `type` (the key is
taken by the entry type).  The first conjunct needs no serialiser at all. -/
theorem C02_yaml_logic (S : Serial) (d : BibData)
    (hS : S.loadY (S.dumpY (toDictYaml d)) = some (toDictYaml d))
    (h : WFDbTree true d = true) :
    ofDictYaml (toDictYaml d) = .ok { db := canonDb d, badNames := [], repeated := [], others := 0 } ∧
    readFmt S .yaml (S.dumpY (toDictYaml d)) =
      .ok { db := canonDb d, badNames := [], repeated := [], others := 0 } ∧
    roundTrip S .yaml d = .ok (canonDb d) := by
  refine ⟨Yaml.yaml_roundtrip d h, ?_, ?_⟩
  · simp only [readFmt, hS, Yaml.yaml_roundtrip d h]
  · simp only [roundTrip, writeFmt, readFmt, hS, Yaml.yaml_roundtrip d h]

/-- **BibTeXML.**  Given a serialiser of element trees that is lossless ON THE ONE TREE the
BibTeXML writer builds for this database (the XML libraries are not lossless on every tree: names
and characters XML cannot hold), reading back what the writer wrote yields the same entries (field
order, roles in any letter case, the five name parts), nothing reported; the format has no place
for the preamble.  The first conjunct needs no serialiser at all. -/
theorem C02_xml_logic (S : Serial) (d : BibData)
    (hS : S.loadX (S.dumpX (toTreeXml d)) = some (toTreeXml d))
    (h : WFDbTree false d = true) :
    ofTreeXml (toTreeXml d) =
      .ok { db := { entries := d.entries, preamble := [] }, badNames := [], repeated := [], others := 0 } ∧
    readFmt S .bibtexml (S.dumpX (toTreeXml d)) =
      .ok { db := { entries := d.entries, preamble := [] }, badNames := [], repeated := [], others := 0 } ∧
    roundTrip S .bibtexml d = .ok { entries := d.entries, preamble := [] } := by
  refine ⟨xml_roundtrip d h, ?_, ?_⟩
  · simp only [readFmt, hS, xml_roundtrip d h]
  · simp only [roundTrip, writeFmt, readFmt, hS, xml_roundtrip d h]

theorem C02_yaml_logic_nonvacuous : WFDbTree true c02Db = true ∧ WFDbTree false c02Db = true := by
  decide +kernel

theorem C02_xml_logic_nonvacuous :
    WFDbTree false c02Db = true ∧
    -- a field called `Type` is fine for BibTeXML, not for YAML
    WFDbTree false c02DbType = true ∧ WFDbTree true c02DbType = false := by
  decide +kernel

/-! ### 4. chains of formats, lower-casing -/

/-- **Chains.**  For ANY list of formats (not only up to three) such that the database lies in the
domain of each, with serialisers that are lossless on the trees pybtex hands them ALONG THIS CHAIN
(`stages true fs d`: the databases written, in closed form — `LosslessOn` asks nothing about any
other tree): writing in the first format, converting from each format to the next (`convert`,
`preserve_case = True`) and reading the last text back ends with the entries it started from; the
preamble comes back as one string and is lost exactly when BibTeXML is on the way.  Only the final
database is described here; that nothing is reported on the way is `C02_chain_steps`. -/
theorem C02_chain (S : Serial) (henc : ∀ s, Safe s = true → S.encode s = s)
    (fs : List Fmt) (d : BibData) (h : ∀ f ∈ fs, inDomain f d = true)
    (hL : ∀ p ∈ stages true fs d, LosslessOn S p.1 p.2) :
    chain S true fs d = .ok (chainDb fs d) := by
  rw [chain_true_on henc fs d h hL, fold_canonFor]

theorem C02_chain_nonvacuous :
    (∀ f ∈ [Fmt.bibtex, Fmt.yaml, Fmt.bibtexml, Fmt.bibtex], inDomain f c02Db = true) ∧
    (chainDb [Fmt.bibtex, Fmt.yaml] c02Db).preamble = ["\\newcommand{\\x}{y} z".toList] ∧
    (chainDb [Fmt.bibtex, Fmt.bibtexml, Fmt.yaml] c02Db).preamble = [] := by
  decide +kernel

/-- **Lower-casing.**  With `preserve_case = False` (at least one conversion, i.e. two formats) the
chain ends with the entries of `lowerSpec d` — keys, entry types, field names and role names
lower-cased, nothing else touched — and the same preamble as without lower-casing.  The serialisers
are asked to be lossless only on the trees written along this chain (`stages false …`: the first
database as it is, the later ones lower-cased). -/
theorem C02_lower (S : Serial) (henc : ∀ s, Safe s = true → S.encode s = s)
    (f1 f2 : Fmt) (fs : List Fmt) (d : BibData) (h : ∀ f ∈ f1 :: f2 :: fs, inDomain f d = true)
    (hL : ∀ p ∈ stages false (f1 :: f2 :: fs) d, LosslessOn S p.1 p.2) :
    ∃ d', chain S false (f1 :: f2 :: fs) d = .ok d' ∧ d'.entries = (lowerSpec d).entries ∧
      d'.preamble = (chainDb (f1 :: f2 :: fs) d).preamble :=
  chain_false_on henc f1 f2 fs d h hL

theorem C02_lower_nonvacuous :
    (∀ f ∈ [Fmt.yaml, Fmt.bibtex, Fmt.bibtexml], inDomain f c02Db = true) ∧
    (lowerSpec c02Db).entries.map (fun e => (e.key, e.origType, e.fields.map (·.1), e.persons.map (·.1))) =
      [("knuth:84".toList, "article".toList, ["title".toList, "note".toList, "year".toList],
        ["author".toList, "editor".toList]), ("k2".toList, "misc".toList, [], [])] := by
  decide +kernel

/-- **Nothing is reported on the way** (pipeline level, both `preserve_case` modes).  `chainLog` is
`chain` keeping, per step, the reader's whole result and what `lower()` reports (first conjunct: it
computes the same database, no hypotheses).  For a database in the domain of every format of the
chain and serialisers lossless on the trees written along it, every step is written without error
and read back with NOTHING reported (no bad name, no repeated key, no other problem), `lower()`
reports nothing, and the database read at each step is `canonFor` of the one written (`stages`). -/
theorem C02_chain_steps (S : Serial) (henc : ∀ s, Safe s = true → S.encode s = s) (preserveCase : Bool)
    (fs : List Fmt) (d : BibData) (h : ∀ f ∈ fs, inDomain f d = true)
    (hL : ∀ p ∈ stages preserveCase fs d, LosslessOn S p.1 p.2) :
    (chainLog S preserveCase fs d).map (·.1) = chain S preserveCase fs d ∧
    ∃ d', chainLog S preserveCase fs d =
        .ok (d', (stages preserveCase fs d).map fun p => (cleanRead (canonFor p.1 p.2), [])) ∧
      chain S preserveCase fs d = .ok d' :=
  ⟨chainLog_db S preserveCase fs d, chainLog_clean henc preserveCase fs d h hL⟩

/-- a serialiser that — like PyYAML and the XML libraries — refuses every text containing U+0085
(NEXT LINE): it is NOT lossless on every tree -/
def c02Picky : Serial :=
  { encode := id
    dumpY := Ser.dumpY
    loadY := fun s => if s.contains (Char.ofNat 0x85) then none else Ser.loadY s
    dumpX := Ser.dumpX
    loadX := fun s => if s.contains (Char.ofNat 0x85) then none else Ser.loadX s }

/-- the text written for `d` in the format `f` contains no U+0085 -/
def c02NoNel (f : Fmt) (d : BibData) : Bool :=
  match f with
  | .bibtex => true
  | .yaml => !(Ser.dumpY (toDictYaml d)).contains (Char.ofNat 0x85)
  | .bibtexml => !(Ser.dumpX (toTreeXml d)).contains (Char.ofNat 0x85)

theorem c02Picky_on {f : Fmt} {d : BibData} (h : c02NoNel f d = true) : LosslessOn c02Picky f d := by
  cases f with
  | bibtex => trivial
  | yaml =>
    simp only [c02NoNel, Bool.not_eq_true'] at h
    show (if (Ser.dumpY (toDictYaml d)).contains (Char.ofNat 0x85) = true then none
      else Ser.loadY (Ser.dumpY (toDictYaml d))) = some (toDictYaml d)
    rw [h]; simp [Ser.loadY_dumpY]
  | bibtexml =>
    simp only [c02NoNel, Bool.not_eq_true'] at h
    show (if (Ser.dumpX (toTreeXml d)).contains (Char.ofNat 0x85) = true then none
      else Ser.loadX (Ser.dumpX (toTreeXml d))) = some (toTreeXml d)
    rw [h]; simp [Ser.loadX_dumpX]

/-- the per-tree hypothesis is really weaker than "lossless on every tree": the serialiser
`c02Picky` loses a tree (a string containing U+0085), so the ∀-tree hypothesis is FALSE of it, yet it
is lossless on every tree written along the chains of the example — in both `preserve_case` modes —
and `C02_chain` / `C02_lower` / `C02_chain_steps` apply to it -/
theorem C02_chain_steps_nonvacuous :
    c02Picky.loadY (c02Picky.dumpY (.str [Char.ofNat 0x85])) = none ∧
    ¬ (∀ t, c02Picky.loadY (c02Picky.dumpY t) = some t) ∧
    (∀ pc, ∀ p ∈ stages pc [.bibtex, .yaml, .bibtexml, .yaml] c02Db, LosslessOn c02Picky p.1 p.2) ∧
    chain c02Picky true [.bibtex, .yaml, .bibtexml, .yaml] c02Db =
      .ok (chainDb [.bibtex, .yaml, .bibtexml, .yaml] c02Db) ∧
    (∃ d', chain c02Picky false [.bibtex, .yaml, .bibtexml, .yaml] c02Db = .ok d' ∧
      d'.entries = (lowerSpec c02Db).entries) ∧
    (stages false [.bibtex, .yaml, .bibtexml, .yaml] c02Db).length = 4 := by
  have h0 : c02Picky.loadY (c02Picky.dumpY (.str [Char.ofNat 0x85])) = none := by
    show (if (Ser.dumpY (.str [Char.ofNat 0x85])).contains (Char.ofNat 0x85) = true then none
      else Ser.loadY (Ser.dumpY (.str [Char.ofNat 0x85]))) = none
    rw [if_pos (by decide +kernel)]
  have hL : ∀ pc, ∀ p ∈ stages pc [.bibtex, .yaml, .bibtexml, .yaml] c02Db, LosslessOn c02Picky p.1 p.2 := by
    intro pc p hp
    apply c02Picky_on
    have hall : ∀ pc, (stages pc [.bibtex, .yaml, .bibtexml, .yaml] c02Db).all
        (fun p => c02NoNel p.1 p.2) = true := by decide +kernel
    exact (List.all_eq_true.1 (hall pc)) p hp
  have hdom : ∀ f ∈ [Fmt.bibtex, Fmt.yaml, Fmt.bibtexml, Fmt.yaml], inDomain f c02Db = true := by
    decide +kernel
  refine ⟨h0, fun hall => ?_, hL, C02_chain c02Picky (fun _ _ => rfl) _ c02Db hdom (hL true), ?_, by decide +kernel⟩
  · rw [hall] at h0; cases h0
  · obtain ⟨d', a, b, _⟩ := C02_lower c02Picky (fun _ _ => rfl) .bibtex .yaml [.bibtexml, .yaml] c02Db hdom (hL false)
    exact ⟨d', a, b⟩

/-- **`lower()` changes letter case only.**  `BibliographyData.lower()` on a database with
identifiers distinct up to case (every domain above) is `lowerSpec` and reports nothing; `lowerSpec`
keeps the number and order of entries, fields, roles and persons, every value and every person, and
the preamble; each key / entry type / field name / role name is the lower-cased old one; the domains
are closed under it. -/
theorem C02_lower_only_case (d : BibData) :
    ((∃ y, WFDbTree y d = true) → dbLower d = (lowerSpec d, [])) ∧
    (lowerSpec d).preamble = d.preamble ∧
    (lowerSpec d).entries.map (·.key) = d.entries.map (fun e => lowerU e.key) ∧
    (lowerSpec d).entries.map (·.origType) = d.entries.map (·.type) ∧
    (lowerSpec d).entries.map (fun e => e.fields.map (·.2)) = d.entries.map (fun e => e.fields.map (·.2)) ∧
    (lowerSpec d).entries.map (fun e => e.fields.map (·.1)) = d.entries.map (fun e => e.fields.map (lowerU ·.1)) ∧
    (lowerSpec d).entries.map (fun e => e.persons.map (·.2)) = d.entries.map (fun e => e.persons.map (·.2)) ∧
    (lowerSpec d).entries.map (fun e => e.persons.map (·.1)) = d.entries.map (fun e => e.persons.map (lowerU ·.1)) ∧
    (∀ f, inDomain f d = true → inDomain f (lowerSpec d) = true) := by
  refine ⟨fun ⟨y, hy⟩ => dbLower_spec hy, rfl, ?_, ?_, ?_, ?_, ?_, ?_, fun f hf => inDomain_lower hf⟩ <;>
    simp [lowerSpec, lowerEntrySpec, Function.comp_def]

/-! ### 5. identifiers beyond ASCII -/

/-- **The readers' name tests under `str.lower()`.**  The code decides "is this a person role" by
`name.lower() in Person.valid_roles` and "is this the type key" by `name.lower() == 'type'`, with
Python's Unicode `str.lower()`; the models use the ASCII lower-casing of the `.bib` reader for these
two tests.  Both give the same answer for EVERY string: the only non-ASCII character with an ASCII
lower-case form is U+212A KELVIN SIGN (→ `k`), and none of the words contains a `k` (facts checked
by kernel evaluation over the whole regenerated lower-case table).  Lower-casing an identifier
changes neither test, never yields an ASCII capital, and stays inside `lowerDomain`. -/
theorem C02_name_tests_unicode (n : Str) :
    isPersonField (lowerU n) = isPersonField n ∧
    (lowerU n = "type".toList ↔ lower n = "type".toList) ∧
    (∀ w ∈ Gen.personRoles.map lower, lowerU n = w ↔ lower n = w) ∧
    lower (lowerU n) = lowerU n ∧ lowerU (lowerU n) = lowerU n ∧
    (lowerDomain n = true → lowerDomain (lowerU n) = true) ∧
    (isAsciiStr n = true → lowerU n = lower n) := by
  refine ⟨isPersonField_lowerU n, lowerU_eq_type n, fun w hw => ?_, lower_lowerU n, lowerU_idem n,
    lowerDomain_lowerU, lowerU_ascii⟩
  have := personRoles_plain
  simp only [List.all_eq_true] at this
  exact lowerU_eq_word (this w hw)

/-- non-ASCII identifiers: `lower()` follows `str.lower()` (Ä → ä, ẞ → ß, ǅ → ǆ, Ж → ж; `ß` stays, it is
not case-folded to `ss`), the YAML / BibTeXML domains hold such databases, the BibTeX domain does not
(keys are asked to be ASCII there) -/
def c02DbU : BibData :=
  { entries := [{ key := "ÄB".toList, type := "étude".toList, origType := "Étude".toList,
                  fields := [("Straße".toList, "x".toList), ("NIÑO".toList, "y".toList)], persons := [] },
                { key := "ẞǅЖ".toList, type := "misc".toList, origType := "misc".toList, fields := [], persons := [] }] }

theorem C02_name_tests_unicode_nonvacuous :
    WFDbTree true c02DbU = true ∧ WFDbTree false c02DbU = true ∧ WFDb c02DbU = false ∧
    (lowerSpec c02DbU).entries.map (fun e => (e.key, e.origType, e.type, e.fields.map (·.1))) =
      [("äb".toList, "étude".toList, "étude".toList, ["straße".toList, "niño".toList]),
       ("ßǆж".toList, "misc".toList, "misc".toList, [])] ∧
    (dbLower c02DbU).1.entries.map (·.key) = ["äb".toList, "ßǆж".toList] ∧ (dbLower c02DbU).2 = [] ∧
    -- the Kelvin sign: lower-cased to an ASCII `k`
    lowerU [Char.ofNat 0x212A] = "k".toList ∧ isPersonField "AUTHOR".toList = true := by
  decide +kernel

/-! ### 6. the stated quantifier and the four recorded findings

The property quantifies over "every database whose values are brace-balanced TeX strings
(white-space-normalised for BibTeX) and whose persons are expressible in BibTeX name syntax":
`WFDbQ f` (`Spec/BibWrite.lean`).  The claimed domains `inDomain f` are smaller.  What is missing is
exactly four classes of databases on which the code does NOT round-trip; each has a kernel-evaluated
counterexample below and an entry in `known_findings.json`. -/

/-- **Round trip on the stated quantifier, minus the four recorded restrictions.**  A database of
the quantifier's domain for the format `f` in which every role is author / editor (any letter case)
with at least one person, which has no field called `type` when `f` is YAML, and none of `# % & _ ~`
in a value, a written name list or the preamble when `f` is BibTeX, lies in the claimed domain and
is written without error and read back with nothing reported as `canonFor f d`: the entries as
written; the preamble LIST joined into one string (dropped for BibTeXML).  `WFDbQ` is our
formalisation of the quantifier; what it excludes beyond the published text is listed at
`C02_quantifier_exact`.  The serialiser is asked to be lossless on the one tree written for `d`. -/
theorem C02_quantifier_partial (S : Serial) (henc : ∀ s, Safe s = true → S.encode s = s)
    (f : Fmt) (d : BibData) (hL : LosslessOn S f d)
    (hq : WFDbQ f d = true) (hn : noFinding f d = true) :
    inDomain f d = true ∧ roundTrip S f d = .ok (canonFor f d) ∧
    (∃ text, writeFmt S f d = .ok text ∧ readFmt S f text = .ok (cleanRead (canonFor f d))) ∧
    (canonFor f d).entries = d.entries ∧
    (canonFor f d).preamble = (if f = .bibtexml then [] else canonPreamble d) :=
  ⟨inDomain_of_Q hq hn, roundTrip_on henc hL (inDomain_of_Q hq hn),
    readBack_on henc hL (inDomain_of_Q hq hn), canonFor_entries f d, by cases f <;> rfl⟩

/-- **The claimed domain is exactly `WFDbQ` minus the four restrictions** (for each format).
`WFDbQ` is OUR formalisation of the stated quantifier (`Spec/BibWrite.lean`), so "nothing else is
excluded" holds relative to `WFDbQ`, not relative to the published text.  `WFDbQ` itself excludes,
beyond that text: a text field called author / editor; a role called `type`; a field name equal up
to case to a role name of the same entry; identifiers containing U+0130 / U+03A3 (`lowerDomain`);
persons outside `WFPerson` (the shape `Person(name)` yields — at most one first name, no von token
inside Last, … — and no token ending in a backslash), also for YAML / BibTeXML where the shape is
not needed (`C02_person_parts_roundtrip`); for BibTeX moreover: entry types, field and role names
that are not NAMEs of the `.bib` grammar, the reserved types comment / preamble / string, keys that
are empty, non-ASCII or contain white space, a comma or `}`, brace nesting above 100, a written
name list that is not white-space-normalised (also inside braces), a name with a brace-level-0
` and ` inside, a preamble whose joined text is not balanced and white-space-normalised.  It asks nothing of YAML / BibTeXML values (representability in YAML / XML is the
per-tree hypothesis `LosslessOn` of the round-trip theorems). -/
theorem C02_quantifier_exact (f : Fmt) (d : BibData) :
    inDomain f d = true ↔ (WFDbQ f d = true ∧ noFinding f d = true) :=
  inDomain_iff_Q f d

def c02Knuth : Person := { first := ["Donald".toList], middle := ["E.".toList], last := ["Knuth".toList] }
def c02One (ty : String) (fields : List (String × String)) (persons : List (Str × List Person)) : BibData :=
  { entries := [{ key := "k".toList, type := ty.toList, origType := ty.toList,
                  fields := fields.map fun f => (f.1.toList, f.2.toList), persons := persons }] }
/-- `add_person(Person('Knuth, Donald E.'), 'translator')` -/
def c02DbRole : BibData := c02One "book" [("title", "T")] [("translator".toList, [c02Knuth])]
/-- `persons['author'] = []` -/
def c02DbEmpty : BibData := c02One "book" [("title", "T")] [("author".toList, [])]
/-- a techreport with its standard field `type` -/
def c02DbTypeF : BibData := c02One "techreport" [("title", "T"), ("type", "Research Note")] []
def c02DbFive : BibData := c02One "misc" [("note", "R&D 100% a_b #1 x~y")] []

theorem C02_quantifier_partial_nonvacuous :
    (∀ f ∈ [Fmt.bibtex, Fmt.yaml, Fmt.bibtexml], WFDbQ f c02Db = true ∧ noFinding f c02Db = true) ∧
    -- the four witnesses lie in the quantifier's domain of every format, and outside the claimed one
    (∀ d ∈ [c02DbRole, c02DbEmpty, c02DbTypeF, c02DbFive],
      ∀ f ∈ [Fmt.bibtex, Fmt.yaml, Fmt.bibtexml], WFDbQ f d = true) ∧
    (∀ f ∈ [Fmt.bibtex, Fmt.yaml, Fmt.bibtexml], inDomain f c02DbRole = false ∧ inDomain f c02DbEmpty = false) ∧
    inDomain .yaml c02DbTypeF = false ∧ inDomain .bibtex c02DbFive = false ∧
    -- a field called `type` is no obstacle for BibTeX / BibTeXML, the five characters none for YAML / BibTeXML
    inDomain .bibtex c02DbTypeF = true ∧ inDomain .bibtexml c02DbTypeF = true ∧
    inDomain .yaml c02DbFive = true ∧ inDomain .bibtexml c02DbFive = true := by
  decide +kernel

/-- what a reader makes of an entry: the type as written, the fields, the roles -/
structure C02View where
  ty : Str
  fields : List (Str × Str)
  persons : List (Str × List Person)
deriving DecidableEq

def c02Seen (r : Except WErr ReadRes) : Option (List C02View) :=
  match r with
  | .ok x => some (x.db.entries.map fun e => ⟨e.origType, e.fields, e.persons⟩)
  | .error _ => none

def c02Bib (encode : Str → Str) (d : BibData) : Option (List C02View) :=
  match writeStream encode d with
  | .ok text => c02Seen (readFmt ⟨encode, fun _ => [], fun _ => none, fun _ => [], fun _ => none⟩ .bibtex text)
  | .error _ => none

/-- **Finding `C02-role-not-author-editor`** (the round trip fails inside the stated quantifier): a
person stored under the role `translator` comes back as a TEXT FIELD called translator in every
format — BibTeX: the written name; YAML: `str()` of the list of dictionaries; BibTeXML: the
indentation in front of the first person element — and the entry has no persons any more. -/
theorem C02_other_role_neg :
    c02Bib id c02DbRole =
      some [⟨"book".toList, [("translator".toList, "Knuth, Donald E.".toList), ("title".toList, "T".toList)], []⟩] ∧
    c02Seen (ofDictYaml (toDictYaml c02DbRole)) =
      some [⟨"book".toList, [("title".toList, "T".toList),
        ("translator".toList, "[OrderedDict({'first': 'Donald', 'middle': 'E.', 'last': 'Knuth'})]".toList)], []⟩] ∧
    c02Seen (ofTreeXml (toTreeXml c02DbRole)) =
      some [⟨"book".toList, [("title".toList, "T".toList), ("translator".toList, "\n                ".toList)], []⟩] := by
  decide +kernel

/-- **Finding `C02-empty-role`**: a role without persons is gone after every round trip. -/
theorem C02_empty_role_neg :
    c02Bib id c02DbEmpty = some [⟨"book".toList, [("title".toList, "T".toList)], []⟩] ∧
    c02Seen (ofDictYaml (toDictYaml c02DbEmpty)) = some [⟨"book".toList, [("title".toList, "T".toList)], []⟩] ∧
    c02Seen (ofTreeXml (toTreeXml c02DbEmpty)) = some [⟨"book".toList, [("title".toList, "T".toList)], []⟩] ∧
    c02DbEmpty.entries.map (·.persons) = [[("author".toList, [])]] := by
  decide +kernel

/-- **Finding `C02-yaml-type-field`**: through YAML the value of a field spelled `type` becomes the
entry type and the field is gone; spelled `Type` the field is dropped.  BibTeX and BibTeXML carry it. -/
theorem C02_yaml_type_neg :
    c02Seen (ofDictYaml (toDictYaml c02DbTypeF)) = some [⟨"Research Note".toList, [("title".toList, "T".toList)], []⟩] ∧
    c02Seen (ofDictYaml (toDictYaml c02DbType)) = some [⟨"a".toList, [], []⟩] ∧
    c02Seen (ofTreeXml (toTreeXml c02DbTypeF)) =
      some [⟨"techreport".toList, [("title".toList, "T".toList), ("type".toList, "Research Note".toList)], []⟩] ∧
    c02Bib id c02DbTypeF =
      some [⟨"techreport".toList, [("title".toList, "T".toList), ("type".toList, "Research Note".toList)], []⟩] := by
  decide +kernel

/-- **Finding `C02-five-characters`**: with the encoder that re-escapes `# % & _ ~` (`encodeLatex`:
what latexcodec does to these five characters) the value is written escaped and read back escaped. -/
theorem C02_five_neg :
    writeStream encodeLatex c02DbFive =
      .ok "@misc{k,\n    note = \"R\\&D 100\\% a\\_b \\#1 x\\textasciitilde y\"\n}\n".toList ∧
    c02Bib encodeLatex c02DbFive =
      some [⟨"misc".toList, [("note".toList, "R\\&D 100\\% a\\_b \\#1 x\\textasciitilde y".toList)], []⟩] ∧
    c02Bib id c02DbFive = some [⟨"misc".toList, [("note".toList, "R&D 100% a_b #1 x~y".toList)], []⟩] := by
  decide +kernel

/-! ### 7. the serialiser hypotheses have a witness -/

/-- **A lossless `Serial` exists.**  `Ser.witness` (`Lemmas/BibWriteSerial.lean`: the identity
encoder, value trees and element trees printed in a prefix code and parsed back) satisfies the three
serialiser hypotheses of `C02_yaml_logic`, `C02_xml_logic`, `C02_chain`, `C02_lower` for EVERY tree
(those theorems ask them only for the trees written: `LosslessOn`; a serialiser that is lossless on
those but not on every tree is exhibited in `C02_chain_steps_nonvacuous`);
instantiated with it the chain theorems hold without any hypothesis left: a chain through all three
formats gives the example database back, and with lower-casing its lower-cased entries. -/
theorem C02_serial_witness :
    (∀ s, Safe s = true → Ser.witness.encode s = s) ∧
    (∀ t, Ser.witness.loadY (Ser.witness.dumpY t) = some t) ∧
    (∀ t, Ser.witness.loadX (Ser.witness.dumpX t) = some t) ∧
    chain Ser.witness true [.bibtex, .yaml, .bibtexml, .yaml] c02Db =
      .ok (chainDb [.bibtex, .yaml, .bibtexml, .yaml] c02Db) ∧
    (∃ d', chain Ser.witness false [.yaml, .bibtex, .bibtexml] c02Db = .ok d' ∧
      d'.entries = (lowerSpec c02Db).entries) := by
  have h1 : ∀ s, Safe s = true → Ser.witness.encode s = s := fun _ _ => rfl
  have h2 : ∀ t, Ser.witness.loadY (Ser.witness.dumpY t) = some t := Ser.loadY_dumpY
  have h3 : ∀ t, Ser.witness.loadX (Ser.witness.dumpX t) = some t := Ser.loadX_dumpX
  refine ⟨h1, h2, h3, C02_chain Ser.witness h1 _ c02Db ?_ (fun p _ => losslessOn_of_all h2 h3 p.1 p.2), ?_⟩
  · decide +kernel
  · obtain ⟨d', a, b, _⟩ := C02_lower Ser.witness h1 .yaml .bibtex [.bibtexml] c02Db (by decide +kernel)
      (fun p _ => losslessOn_of_all h2 h3 p.1 p.2)
    exact ⟨d', a, b⟩

/-! ### 8. repr / eval -/

/-- **`eval(repr(db))`.**  `Entry.__repr__` prints the constructor call `Entry(type as written,
fields=[(name, value), …], persons={role: [Person(str(p)), …]})` (after repair C02-4; `entryRepr`),
`BibliographyData.__repr__` the list of `(key, Entry(…))` pairs and the preamble list (`dbRepr`).
Evaluating the calls (`Entry.__init__`, `Person(text)`, `add_entry`; Python's own `repr` / `eval` of
strings, lists, tuples and dictionaries taken to be lossless) gives the database back — keys, types as
written, fields, every role (ANY role name, empty roles too) with its persons, and the preamble LIST
unjoined — whenever keys / field names / role names are distinct up to case and the persons are
`WFPerson` (their `str()` is read back: `C02_person_roundtrip`).  Nothing is reported. -/
theorem C02_repr_logic (d : BibData) (h : reprOkDb d = true) :
    dbEval (dbRepr d) = .ok (d, []) ∧
    (∀ e ∈ d.entries, entryEval e.key (entryRepr e) = .ok e) := by
  refine ⟨dbEval_repr h, fun e he => entryEval_repr ?_⟩
  simp only [reprOkDb, Bool.and_eq_true, List.all_eq_true] at h
  exact h.2 e he

theorem C02_repr_logic_nonvacuous :
    reprOkDb c02Db = true ∧
    -- the four finding witnesses are fine for repr / eval (the role translator, the empty role, the field type)
    reprOkDb c02DbRole = true ∧ reprOkDb c02DbEmpty = true ∧ reprOkDb c02DbTypeF = true ∧ reprOkDb c02DbU = true ∧
    entryRepr c02E1 =
      { ty := "Article".toList,
        fields := [("Title".toList, "The {\\TeX}book, vol. 1 = @A".toList), ("note".toList, "q \"x\" q".toList),
                   ("year".toList, "1984".toList)],
        persons := [("AUTHOR".toList, ["van Beethoven, Jr, Ludwig X.".toList, "Last, Jr,".toList]),
                    ("editor".toList, ["de la Vall{\\'e}e {Poussin, and Co} O\"Q\\x, {\\'E}mile".toList])] } := by
  decide +kernel

end Pybtex.Props
