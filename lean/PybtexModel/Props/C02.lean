/-
C02 — write/read round trip and cross-format conversion preserve the database.

Property theorems only.  Models: `Model/BibWrite.lean` (the three writers, the YAML / BibTeXML
readers, `lower()`, `convert`), `Model/BibParse.lean` (the `.bib` reader), `Model/Names.lean`
(`Person(...)`).  Domain predicates and closed forms: `Spec/BibWrite.lean`.  Helper lemmas:
`Lemmas/BibWriteSplit.lean` (`split_tex_string` as a flat scan), `Lemmas/BibWriteNames.lean` (tokens,
names), `Lemmas/BibWritePieces.lean` (completeness of splitting).

The model follows the code after the repairs proposed_fixes/C02-1 (`_format_name` / `__str__` keep
an empty First part) and C02-2 (BibTeXML reader: role detection on the lower-cased tag).
-/
import PybtexModel.Lemmas.BibWritePieces
import PybtexModel.Props.C04

namespace Pybtex.Props
open Pybtex Pybtex.Spec Pybtex.Bib Pybtex.BibSpec Pybtex.BibWrite Pybtex.C02

/-! ### example persons -/

/-- "van Beethoven, Jr, Ludwig X." -/
def c02P1 : Person :=
  { first := ["Ludwig".toList], middle := ["X.".toList], prelast := ["van".toList],
    last := ["Beethoven".toList], lineage := ["Jr".toList] }
/-- a Jr part without first name (section 4 #19): written "Last, Jr," -/
def c02P2 : Person := { last := ["Last".toList], lineage := ["Jr".toList] }
/-- two Last tokens, no von, no first name: written "World Bank," -/
def c02P3 : Person := { last := ["World".toList, "Bank".toList] }
/-- braces, a special character, a quote, a backslash, a protected comma and " and " -/
def c02P4 : Person :=
  { first := ["{\\'E}mile".toList], prelast := ["de".toList, "la".toList],
    last := ["Vall{\\'e}e".toList, "{Poussin, and Co}".toList, "O\"Q\\x".toList] }

/-! ### 1. persons -/

/-- **Name round trip.**  For every person satisfying the explicit predicate `WFPerson` (what
`Person(string)` produces — see `C02_wfperson_of_parse` — with no token ending in a backslash),
the text `_format_name` writes and the text `__str__` gives are read back by `Person(text)` as the
same person (same five token lists), nothing reported; and both texts coincide. -/
theorem C02_person_roundtrip (p : Person) (h : WFPerson p = true) :
    mkPerson (formatName p) [] [] [] [] [] = .ok (p, false) ∧
    mkPerson (personStr p) [] [] [] [] [] = .ok (p, false) ∧
    personStr p = formatName p := by
  have hg := personGood_of_wf h
  refine ⟨mkPerson_format hg, ?_, personStr_eq_format hg⟩
  rw [personStr_eq_format hg]; exact mkPerson_format hg

theorem C02_person_roundtrip_nonvacuous :
    WFPerson c02P1 = true ∧ formatName c02P1 = "van Beethoven, Jr, Ludwig X.".toList ∧
    WFPerson c02P2 = true ∧ formatName c02P2 = "Last, Jr,".toList ∧
    WFPerson c02P3 = true ∧ formatName c02P3 = "World Bank,".toList ∧
    WFPerson c02P4 = true ∧
      formatName c02P4 = "de la Vall{\\'e}e {Poussin, and Co} O\"Q\\x, {\\'E}mile".toList := by
  decide +kernel

/-- why the empty First part has to be kept (repair C02-1): without the trailing comma the reader
takes the Jr part for the first name, resp. the first Last token for the first name -/
theorem C02_person_roundtrip_comma_needed :
    mkPerson "Last, Jr".toList [] [] [] [] [] =
      .ok ({ first := ["Jr".toList], last := ["Last".toList] }, false) ∧
    mkPerson "World Bank".toList [] [] [] [] [] =
      .ok ({ first := ["World".toList], last := ["Bank".toList] }, false) ∧
    mkPerson "Last, Jr,".toList [] [] [] [] [] = .ok (c02P2, false) ∧
    mkPerson "World Bank,".toList [] [] [] [] [] = .ok (c02P3, false) := by
  decide +kernel

/-- the proviso "no token ends in a backslash" cannot be dropped: `a\` followed by the joining
blank is read as the separator `\ ` (the person is `Person('A\\\\ B C')`) -/
theorem C02_person_roundtrip_backslash_neg :
    let p : Person := { first := ["A\\".toList], middle := ["B".toList], last := ["C".toList] }
    mkPerson "A\\\\ B C".toList [] [] [] [] [] = .ok (p, false) ∧
    WFPersonCore p = true ∧ WFPerson p = false ∧
    mkPerson (formatName p) [] [] [] [] [] =
      .ok ({ first := ["A".toList], middle := ["B".toList], last := ["C".toList] }, false) := by
  decide +kernel

/-- **The five part texts** (`get_part_as_text`, the YAML / BibTeXML path): `Person(first=…,
middle=…, prelast=…, last=…, lineage=…)` built from the blank-joined token lists gives the person
back, whenever its tokens are clean (no structural condition on the five lists is needed). -/
theorem C02_person_parts_roundtrip (p : Person)
    (h : (personTokens p).all (fun t => tokCore t && noBsEnd t) = true) :
    mkPerson [] (partText p.first) (partText p.middle) (partText p.prelast) (partText p.last)
      (partText p.lineage) = .ok (p, false) := by
  apply mkPerson_parts
  intro t ht
  simp only [List.all_eq_true, Bool.and_eq_true] at h
  exact ⟨(h t ht).1, (h t ht).2⟩

theorem C02_person_parts_roundtrip_nonvacuous :
    (personTokens c02P4).all (fun t => tokCore t && noBsEnd t) = true ∧
    partText c02P4.last = "Vall{\\'e}e {Poussin, and Co} O\"Q\\x".toList ∧
    -- a person no name string denotes (two first names, a von token inside Last)
    (personTokens { first := ["A".toList, "B".toList], last := ["x".toList, "Y".toList] }).all
      (fun t => tokCore t && noBsEnd t) = true := by
  decide +kernel

/-- **The domain is what the reader produces.**  Every person `Person(name)` returns for a
brace-balanced name (nesting ≤ 100) with at least one von / Last token satisfies `WFPersonCore`:
tokens non-empty, balanced, without brace-level-0 white space, tie or comma; `last ≠ []`; no von
token inside `last.dropLast`; `prelast` empty or ending in a von token; at most one first name,
and no middle name without one.  (`WFPerson` adds only "no token ends in a backslash".) -/
theorem C02_wfperson_of_parse (name : Str) (p : Person) (b : Bool)
    (hbal : litScan false 0 name = some 0) (h : parseName name = .ok (p, b))
    (hvl : p.prelast ++ p.last ≠ []) :
    WFPersonCore p = true := by
  have hne : name ≠ [] := by
    rintro rfl
    have : parseName [] = .error .valueError := by decide +kernel
    rw [this] at h; cases h
  have hparts := goodSrc_comma_parts hbal
  have hpres := (C04_tokens_preserved name p b h).2
  -- every token comes from a good source
  have htok : ∀ t ∈ personTokens p, tokCore t = true ∧
      (t ∈ Spec.caseTokens name → Spec.caseKnown t = true) := by
    intro t ht
    have hcore : tokCore t = true := by
      revert hpres
      cases hc : splitTex .comma name with
      | nil => intro hp; exact hp.elim
      | cons a r =>
        have ha : GoodSrc a := hparts a (by rw [hc]; simp)
        cases r with
        | nil =>
          intro hp
          simp only [] at hp
          -- one part: the name itself has no comma at brace level 0
          have hname : GoodSrc name := by
            refine ⟨hbal, ?_⟩
            have hb := litScan_depthAfter name 0 0 hbal
            obtain ⟨q, qs, h1, h2, _⟩ := splitLoop_main .comma (name.length + 1) name none (by omega) hb (Or.inl hne)
            have hraw : splitTexRaw .comma name = q :: qs := by rw [splitTexRaw, h1]; rfl
            have hlen : (splitTex .comma name).length = (q :: qs).length := by
              have : splitTex .comma name = (splitTexRaw .comma name).map strip := by simp [splitTex, splitTexRaw]
              rw [this, hraw]; simp
            rw [hc] at hlen
            have hqs : qs = [] := by
              simp only [List.length_cons, List.length_nil] at hlen
              exact List.eq_nil_of_length_eq_zero (by omega)
            subst hqs
            have hq : name = q := h2.singleton_inv
            have := flat_comma_pieces name 0 none [] (by intro y; rfl) q
              (by rw [← splitTexRaw_flat .comma name hb hne, hraw]; simp)
            rw [hq]; exact this
          apply tokCore_of_src hname
          rw [← hp.1]
          simp only [personTokens, hp.2, List.append_nil] at ht
          exact ht
        | cons c r' =>
          have hcS : GoodSrc c := hparts c (by rw [hc]; simp)
          cases r' with
          | nil =>
            intro hp
            simp only [] at hp
            simp only [personTokens, hp.2.1, List.append_nil, List.mem_append] at ht
            rcases ht with ((h1 | h1) | h1) | h1
            · exact tokCore_of_src hcS t (by rw [← hp.2.2]; simp [h1])
            · exact tokCore_of_src hcS t (by rw [← hp.2.2]; simp [h1])
            · exact tokCore_of_src ha t (by rw [← hp.1]; simp [h1])
            · exact tokCore_of_src ha t (by rw [← hp.1]; simp [h1])
          | cons d r'' =>
            intro hp
            simp only [] at hp
            have hrest : GoodSrc (joinWith [' '] (d :: r'')) :=
              goodSrc_join _ (fun x hx => hparts x (by rw [hc]; simp [hx]))
            simp only [personTokens, List.mem_append] at ht
            rcases ht with (((h1 | h1) | h1) | h1) | h1
            · exact tokCore_of_src hrest t (by rw [← hp.2.2]; simp [h1])
            · exact tokCore_of_src hrest t (by rw [← hp.2.2]; simp [h1])
            · exact tokCore_of_src ha t (by rw [← hp.1]; simp [h1])
            · exact tokCore_of_src ha t (by rw [← hp.1]; simp [h1])
            · exact tokCore_of_src hcS t (by rw [← hp.2.1]; exact h1)
    refine ⟨hcore, fun _ => ?_⟩
    simp only [tokCore, Bool.and_eq_true, beq_iff_eq] at hcore
    exact Names.caseKnown_of_scan (litScan_scan hcore.2)
  -- the case-deciding tokens are tokens of the person
  have hk : ∀ t ∈ Spec.caseTokens name, Spec.caseKnown t = true := by
    intro t ht
    have hmem : t ∈ personTokens p := by
      have hp := hpres
      unfold Spec.caseTokens at ht
      revert hp ht
      cases hc : splitTex .comma name with
      | nil => intro ht _; simp at ht
      | cons a r =>
        cases r with
        | nil =>
          intro ht hp
          simp only [] at hp ht
          rw [← hp.1] at ht
          simp only [personTokens, List.mem_append] at ht ⊢
          rcases ht with ((h1 | h1) | h1) | h1 <;> simp [h1]
        | cons c r' =>
          cases r' with
          | nil =>
            intro ht hp
            simp only [] at hp ht
            have := Names.mem_of_mem_dropLast ht
            rw [← hp.1] at this
            simp only [personTokens, List.mem_append] at this ⊢
            rcases this with h1 | h1 <;> simp [h1]
          | cons d r'' =>
            intro ht hp
            simp only [] at hp ht
            have := Names.mem_of_mem_dropLast ht
            rw [← hp.1] at this
            simp only [personTokens, List.mem_append] at this ⊢
            rcases this with h1 | h1 <;> simp [h1]
    exact (htok t hmem).2 ht
  obtain ⟨_, h2, h3, h4, _⟩ := C04_von_longest name p b hk h
  have hfirst := (C04_tokens_preserved name p b h).1
  have hlast : p.last ≠ [] := h4 hvl
  have hf1 : p.first.length ≤ 1 := by
    rw [hfirst]; simp only [List.length_take]; omega
  have hf2 : p.first = [] → p.middle = [] := by
    intro hf
    rw [hf] at hfirst
    simp only [List.nil_append] at hfirst
    cases hm : p.middle with
    | nil => rfl
    | cons x xs => rw [hm] at hfirst; simp at hfirst
  simp only [WFPersonCore, Bool.and_eq_true, List.all_eq_true, decide_eq_true_eq, Bool.or_eq_true,
    Bool.not_eq_true']
  refine ⟨⟨⟨⟨⟨fun t ht => (htok t ht).1, hlast⟩, h2⟩, ?_⟩, hf1⟩, ?_⟩
  · by_cases hp : p.prelast = []
    · exact Or.inl hp
    · right
      obtain ⟨t, ht, hv⟩ := h3 hp
      rw [ht]; simpa using hv
  · by_cases hf : p.first = []
    · exact Or.inr (hf2 hf)
    · exact Or.inl hf

theorem C02_wfperson_of_parse_nonvacuous :
    litScan false 0 "de la Vall{\\'e}e {Poussin, and Co} O\"Q\\x, {\\'E}mile".toList = some 0 ∧
    parseName "de la Vall{\\'e}e {Poussin, and Co} O\"Q\\x, {\\'E}mile".toList = .ok (c02P4, false) ∧
    c02P4.prelast ++ c02P4.last ≠ [] ∧
    parseName "Last, Jr,".toList = .ok (c02P2, false) ∧ parseName "World Bank,".toList = .ok (c02P3, false) := by
  decide +kernel

end Pybtex.Props
