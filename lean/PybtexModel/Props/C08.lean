/-
C08 — rich text behaves like a string of (character, markup) pairs.

Property theorems only.  The model of `pybtex/richtext.py` is `Model/RichText.lean` (`RT`, `mk` =
the constructor, `build` = the object a tree of nested constructor calls denotes, one function
per method); the reference semantics a reader has to agree with is `Spec/RichText.lean`
(`sem` = the string of (atom, markup stack) pairs a tree denotes, `Abs` = class of the object +
that string, and the plain list operations `Flat.*` / `Abs.*`); helper lemmas are in
`Lemmas/RichText.lean`.

`Normal` is the decidable invariant "hereditarily: no empty part, no nested `Text`, no two adjacent
parts of the same type info"; `C08_mk_sem` shows every constructed object satisfies it and
`C08_normal_preserved` / `C08_history_normal` that every operation preserves it.
-/
import PybtexModel.Lemmas.RichText
import PybtexModel.Lemmas.RichTextU
import PybtexModel.Lemmas.RichTextNormal
import PybtexModel.Gen.RichText

namespace Pybtex.Props
open Pybtex Pybtex.RT

/-- every terminator of `textutils.terminators` (regenerated from /repo) is one character, and the
white-space pattern `String.split()` uses is the one the model implements -/
theorem C08_tables :
    (∀ x ∈ Gen.terminators, x.length = 1) ∧ Gen.whitespacePattern = "\\s+" := by decide

/-- the compiled patterns are the ones the model implements, with the flags the model assumes: `\s` is
Unicode white space (flags = `re.UNICODE` = 32 only; `re.ASCII` would narrow it), `delimiter_re` is
`([\s\-])` with its capturing group -/
theorem C08_tables_flags :
    Gen.whitespaceFlags = 32 ∧ Gen.delimiterPattern = "([\\s\\-])" ∧ Gen.delimiterFlags = 32 := by decide

/-- **Construction.** The constructor (`BaseMultipartText.__init__`: drop the empty parts, unpack
`Text` children, merge similar neighbours) does not change the string of pairs; hence the object
built from *any* tree of nested constructor calls denotes what the tree denotes, has the class of
the outermost call, and is in normal form. -/
theorem C08_mk_sem :
    (∀ ctx k ps, sem ctx (mk k ps) = sem ctx (.node k ps)) ∧
    (∀ ctx t, sem ctx (build t) = sem ctx t) ∧
    (∀ t, abs (build t) = abs t) ∧
    (∀ t, Normal (build t) = true) ∧
    (∀ k ps, (∀ p ∈ ps, Normal p = true) → Normal (mk k ps) = true) :=
  ⟨sem_mk, fun ctx t => sem_build t ctx, abs_build, normal_build, normal_mk⟩

/-- **Grouping never matters.** Associativity, dropping of empty parts, flattening of nested
`Text`s and merging of adjacent similar texts leave the string of pairs unchanged – and because
normal forms are unique (`C08_eq_iff_sem`) the constructor returns *the same object* (`==`) for
any two argument lists of objects that denote the same string. -/
theorem C08_grouping_laws :
    -- associativity of concatenation
    (∀ ctx a b c, sem ctx (add (add a b) c) = sem ctx (add a (add b c))) ∧
    -- a part without characters can be dropped anywhere
    (∀ ctx k ps e rs, len e = 0 → sem ctx (mk k (ps ++ e :: rs)) = sem ctx (mk k (ps ++ rs))) ∧
    -- a `Text` among the arguments is the same as its parts
    (∀ ctx k ps qs rs, sem ctx (mk k (ps ++ mk .text qs :: rs)) = sem ctx (mk k (ps ++ qs ++ rs))) ∧
    -- two adjacent texts with the same class and parameters are the same as one
    (∀ ctx k k' ps qs qs' rs,
      sem ctx (mk k (ps ++ mk k' qs :: mk k' qs' :: rs)) = sem ctx (mk k (ps ++ mk k' (qs ++ qs') :: rs))) ∧
    -- consequently: equal denotations of the arguments ⇒ equal objects
    (∀ k ps qs, (∀ p ∈ ps, Normal p = true) → (∀ q ∈ qs, Normal q = true) →
      semL [] ps = semL [] qs → eq (mk k ps) (mk k qs) = true) := by
  refine ⟨?_, ?_, ?_, ?_, ?_⟩
  · intro ctx a b c; simp [sem_add, List.append_assoc]
  · intro ctx k ps e rs he
    simp [sem_mk, sem, semL_append, semL, sem_nil_of_len _ e he]
  · intro ctx k ps qs rs
    simp [sem_mk, sem, semL_append, semL, Kind.markup, List.append_assoc]
  · intro ctx k k' ps qs qs' rs
    simp [sem_mk, sem, semL_append, semL, List.append_assoc]
  · intro k ps qs hp hq h
    rw [eq_iff]
    apply abs_inj _ _ (normal_mk k ps hp) (normal_mk k qs hq)
    apply abs_ext rfl
    simp only [abs_atoms, sem_mk, sem]
    rw [semL_ctx, h, ← semL_ctx]

/-- **Equality.** `==` is total (it never raises) and, on objects (normal forms), `a == b` holds
exactly when `a` and `b` have the same class and denote the same string of pairs.  For trees of
constructor calls: the built objects are equal iff the trees have the same outermost class and
the same denotation – nesting, grouping, empty parts play no role. -/
theorem C08_eq_iff_sem :
    (∀ a b, eq a b = true ↔ a = b) ∧
    (∀ a b, Normal a = true → Normal b = true → (eq a b = true ↔ abs a = abs b)) ∧
    (∀ r₁ r₂, eq (build r₁) (build r₂) = true ↔ (top r₁ = top r₂ ∧ sem [] r₁ = sem [] r₂)) := by
  refine ⟨fun a b => eq_iff a b, ?_, ?_⟩
  · intro a b ha hb
    rw [eq_iff]
    exact ⟨fun h => by rw [h], abs_inj a b ha hb⟩
  · intro r₁ r₂
    rw [eq_iff]
    constructor
    · intro h
      have := congrArg abs h
      rw [abs_build, abs_build] at this
      exact ⟨congrArg Abs.top this, congrArg Abs.atoms this⟩
    · rintro ⟨h1, h2⟩
      apply abs_inj _ _ (normal_build r₁) (normal_build r₂)
      rw [abs_build, abs_build]
      exact abs_ext h1 h2

/-- the hypotheses of `C08_eq_iff_sem` / `C08_grouping_laws` are satisfiable by non-trivial
trees: two different groupings of the same text are equal objects, a different markup is not -/
theorem C08_eq_iff_sem_nonvacuous :
    eq (build (.node .text [.str "ab".toList, .node (.tag "em".toList) [.str "c".toList], .node (.tag "em".toList) [.str "d".toList]]))
       (build (.node .text [.str "a".toList, .node .text [.str "b".toList, .str []],
          .node (.tag "em".toList) [.node .text [.str "cd".toList]]])) = true ∧
    eq (build (.node .text [.node (.tag "em".toList) [.str "c".toList]]))
       (build (.node .text [.node (.tag "strong".toList) [.str "c".toList]])) = false := by decide +kernel

/-- **Concatenation.** `a + b` denotes the concatenation (as a `Text`). -/
theorem C08_add (a b : RT) :
    abs (add a b) = Abs.add (abs a) (abs b) ∧ ∀ ctx, sem ctx (add a b) = sem ctx a ++ sem ctx b :=
  ⟨abs_add a b, fun ctx => sem_add ctx a b⟩

/-- **append.** The appended text is placed inside the outermost markup of the receiver
(for a `String`/`Symbol` receiver `append` is `+`); the class of the receiver is kept. -/
theorem C08_append (t x : RT) :
    abs (append t x) = Abs.append (abs t) (abs x) ∧
    ∀ ctx k ps, sem ctx (append (.node k ps) x) = sem ctx (.node k ps) ++ sem (ctx ++ k.markup) x :=
  ⟨abs_append t x, fun ctx k ps => sem_append_node ctx k ps x⟩

/-- **join.** `sep.join(parts)` denotes the parts intercalated with the separator (`str.join`). -/
theorem C08_join (sep : RT) (parts : List RT) :
    abs (join sep parts) = Abs.join (abs sep) (parts.map abs) ∧
    ∀ ctx, sem ctx (join sep parts) = joinWith (sem ctx sep) (parts.map (sem ctx)) :=
  ⟨abs_join sep parts, fun ctx => sem_join ctx sep parts⟩

/-- **len / str.** `len(text)` is the number of pairs, `str(text)` their characters. -/
theorem C08_len (t : RT) (ctx : List Markup) :
    len t = (sem ctx t).length ∧ toStr t = Flat.toStr (sem ctx t) :=
  ⟨(sem_length t ctx).symm, (toStr_sem t ctx).symm⟩

/-- **Slicing.** For ALL integers `i j` (negative, beyond the ends, `j < i`) and for missing
bounds, `text[i:j]` denotes Python's slice `s[i:j]` of the string of pairs, inside any markup
context; the class is kept (the empty slice of a symbol is an empty string). -/
theorem C08_slice (t : RT) :
    (∀ ctx (i j : Int), sem ctx (getSlice t (some i) (some j)) = pySlice (sem ctx t) i j) ∧
    (∀ ctx i j, sem ctx (getSlice t i j) = Flat.slice (sem ctx t) i j) ∧
    (∀ i j, abs (getSlice t i j) = Abs.slice (abs t) i j) ∧
    (Normal t = true → ∀ i j, Normal (getSlice t i j) = true) :=
  ⟨fun ctx i j => sem_getSlice ctx t (some i) (some j), fun ctx i j => sem_getSlice ctx t i j,
   abs_getSlice t, normal_getSlice t⟩

/-- **Indexing.** `text[i]` raises `IndexError` exactly when `i` is out of range (as for a Python
string) and otherwise is the one-pair slice at `i` (counted from the end for negative `i`). -/
theorem C08_index (t : RT) (i : Int) :
    (getIndex t i).map abs = Abs.index (abs t) i ∧
    (getIndex t i = .error .indexError ↔ ¬(-(len t : Int) ≤ i ∧ i < (len t : Int))) := by
  refine ⟨abs_getIndex t i, ?_⟩
  constructor
  · intro h hr
    obtain ⟨r, hr', _⟩ := sem_getIndex_ok [] t i hr
    rw [hr'] at h; cases h
  · exact getIndex_error t i

/-- **Case.** `upper()` / `lower()` map the characters pointwise, leave every markup stack and
every symbol alone and leave the characters under `Protected` untouched; the class is kept.
Hence they commute with slicing and with concatenation – as objects (`==`), not only as strings. -/
theorem C08_case (t : RT) :
    abs (upperT t) = Abs.caseMap upperC (abs t) ∧ abs (lowerT t) = Abs.caseMap lowerC (abs t) ∧
    (Normal t = true → ∀ i j,
      eq (upperT (getSlice t i j)) (getSlice (upperT t) i j) = true ∧
      eq (lowerT (getSlice t i j)) (getSlice (lowerT t) i j) = true) ∧
    (Normal t = true → ∀ u, Normal u = true →
      eq (upperT (add t u)) (add (upperT t) (upperT u)) = true ∧
      eq (lowerT (add t u)) (add (lowerT t) (lowerT u)) = true) := by
  refine ⟨abs_upperT t, abs_lowerT t, ?_, ?_⟩
  · intro hn i j
    have h1 : abs (upperT (getSlice t i j)) = abs (getSlice (upperT t) i j) := by
      rw [abs_upperT, abs_getSlice, abs_getSlice, abs_upperT, abs_caseMap_slice]
    have h2 : abs (lowerT (getSlice t i j)) = abs (getSlice (lowerT t) i j) := by
      rw [abs_lowerT, abs_getSlice, abs_getSlice, abs_lowerT, abs_caseMap_slice]
    constructor
    · rw [eq_iff]
      exact abs_inj _ _ (normal_caseMap _ _ (normal_getSlice t hn i j))
        (normal_getSlice _ (normal_caseMap _ _ hn) i j) h1
    · rw [eq_iff]
      exact abs_inj _ _ (normal_caseMap _ _ (normal_getSlice t hn i j))
        (normal_getSlice _ (normal_caseMap _ _ hn) i j) h2
  · intro hn u hu
    have h1 : abs (upperT (add t u)) = abs (add (upperT t) (upperT u)) := by
      rw [abs_upperT, abs_add, abs_add, abs_upperT, abs_upperT, abs_caseMap_add]
    have h2 : abs (lowerT (add t u)) = abs (add (lowerT t) (lowerT u)) := by
      rw [abs_lowerT, abs_add, abs_add, abs_lowerT, abs_lowerT, abs_caseMap_add]
    constructor
    · rw [eq_iff]
      exact abs_inj _ _ (normal_caseMap _ _ (normal_add _ _ hn hu))
        (normal_add _ _ (normal_caseMap _ _ hn) (normal_caseMap _ _ hu)) h1
    · rw [eq_iff]
      exact abs_inj _ _ (normal_caseMap _ _ (normal_add _ _ hn hu))
        (normal_add _ _ (normal_caseMap _ _ hn) (normal_caseMap _ _ hu)) h2

theorem C08_case_nonvacuous :
    abs (upperT (build (.node .text [.str "a ".toList, .node .prot [.str "b".toList], .sym "nbsp".toList])))
      = ⟨.multi .text, [(.ch 'A', []), (.ch ' ', []), (.ch 'b', [.prot]), (.sym "nbsp".toList, [])]⟩ := by decide +kernel

/-- **capfirst.** `self[:1].upper() + self[1:]` on the string of pairs; `Protected` is left alone. -/
theorem C08_capfirst (t : RT) : abs (capfirst t) = Abs.capfirst (abs t) := abs_capfirst t

/-- **capitalize.** `self[:1].upper() + self[1:].lower()` on the string of pairs; `Protected` is
left alone. -/
theorem C08_capitalize (t : RT) : abs (capitalize t) = Abs.capitalize (abs t) := abs_capitalize t

/-- **add_period.** A period is appended (inside the outermost markup) exactly when the text is
non-empty and its last pair is not one of the terminating characters. -/
theorem C08_add_period (t : RT) (h : Normal t = true) :
    abs (addPeriod Gen.terminators (.str ['.']) t)
      = Abs.addPeriod Gen.terminators ⟨.string, [(.ch '.', [])]⟩ (abs t) :=
  abs_addPeriod Gen.terminators C08_tables.1 _ t h

theorem C08_add_period_nonvacuous :
    Normal (build (.node (.tag "em".toList) [.str "Done".toList])) = true ∧
    abs (addPeriod Gen.terminators (.str ['.']) (build (.node (.tag "em".toList) [.str "Ok".toList])))
      = ⟨.multi (.tag "em".toList), [(.ch 'O', [.tag "em".toList]), (.ch 'k', [.tag "em".toList]),
          (.ch '.', [.tag "em".toList])]⟩ := by decide +kernel

/-- **split.** (1) At a one-character separator `c` (any `keep_empty_parts`): the pieces are the
list split of the string of pairs at the occurrences of `c` that are not under `Protected` (empty
pieces dropped unless kept).  (2) `split()` – white space, empty pieces not kept, Python's
`str.split()` –: the non-empty pieces of the list split at the unprotected white-space
characters, however the white space is distributed over parts and markup.  In both cases every
piece has the receiver's class and is in normal form (for any separator); a `Symbol` and a
`Protected` are never split.  (3) `c.join(text.split(c))` denotes the text with the markup of the
separators removed – in particular it has the same characters. -/
theorem C08_split (t : RT) (keep : Option Bool) :
    (∀ c, (split (.lit c []) t keep).map abs
        = Abs.split (.lit c []) (keepDefault (.lit c []) keep) (abs t)) ∧
    (keepDefault .ws keep = false → (split .ws t keep).map abs = Abs.split .ws false (abs t)) ∧
    (∀ sep, (∀ r ∈ split sep t keep, top r = top t) ∧
      (Normal t = true → ∀ r ∈ split sep t keep, Normal r = true)) ∧
    (∀ c, top t ≠ .symbol ∧ top t ≠ .multi .prot →
      sem [] (join (.str [c]) (split (.lit c []) t none))
        = (sem [] t).map fun y => if Flat.isSep (.lit c []) y then (.ch c, []) else y) := by
  refine ⟨fun c => abs_split_lit c t keep, abs_split_ws t keep,
    fun sep => ⟨top_split t sep keep, fun h => normal_split t h sep keep⟩, ?_⟩
  intro c ht
  rw [sem_join, sem_split_lit c t none [] rfl ht]
  simp only [keepDefault, keepF, Bool.or_true, sem, List.map_cons, List.map_nil]
  rw [List.filter_eq_self.2 (fun _ _ => rfl)]
  exact joinWith_splitOnP _ _ _

theorem C08_split_nonvacuous :
    (split .ws (build (.node .text [.str "a ".toList, .node (.tag "em".toList) [.str " b".toList],
        .node .prot [.str " c".toList]])) none).map abs
      = [⟨.multi .text, [(.ch 'a', [])]⟩,
         ⟨.multi .text, [(.ch 'b', [.tag "em".toList]), (.ch ' ', [.prot]), (.ch 'c', [.prot])]⟩] ∧
    (split (.lit ',' []) (build (.node .text [.str "a,".toList, .node (.tag "em".toList) [.str ",b".toList],
        .node .prot [.str "c,d".toList]])) none).map abs
      = [⟨.multi .text, [(.ch 'a', [])]⟩, ⟨.multi .text, []⟩,
         ⟨.multi .text, [(.ch 'b', [.tag "em".toList]), (.ch 'c', [.prot]), (.ch ',', [.prot]), (.ch 'd', [.prot])]⟩] := by
  decide +kernel

/-- **startswith / endswith / in** are sound for the string of pairs: a positive answer means
the text really begins / ends with / contains the characters asked for, spelled inside one and
the same markup (matches that straddle a markup boundary are not reported – documented
behaviour).  The only exception: the empty `String` starts and ends with `""`. -/
theorem C08_prefix_suffix_contains (t : RT) (h : Normal t = true) (ctx : List Markup) :
    (∀ ps, startsWith ps t = true → Flat.startsWith ps (sem ctx t) = true ∨ (t = .str [] ∧ [] ∈ ps)) ∧
    (∀ ps, endsWith ps t = true → Flat.endsWith ps (sem ctx t) = true ∨ (t = .str [] ∧ [] ∈ ps)) ∧
    (∀ item, item ≠ [] → contains item t = true → Flat.hasWindow item (sem ctx t) = true) :=
  ⟨fun ps => startsWith_sound ps t ctx h, fun ps => endsWith_sound ps t ctx h,
   fun item hi => contains_sound item hi t ctx⟩

theorem C08_prefix_suffix_contains_nonvacuous :
    startsWith ["Lo".toList] (build (.node .text [.node (.tag "em".toList) [.str "Long".toList], .str "cat".toList])) = true ∧
    startsWith ["Longc".toList] (build (.node .text [.node (.tag "em".toList) [.str "Long".toList], .str "cat".toList])) = false ∧
    contains "at".toList (build (.node .text [.node (.tag "em".toList) [.str "Long".toList], .str "cat".toList])) = true := by
  decide +kernel

/-- **Limit of the property as stated (documented behaviour of the code).**  Matching is part-wise:
a multi-character separator, prefix, suffix or substring that straddles a markup boundary is not
found, although the characters of the text contain it – `Text('a,', Tag('em', ' b')).split(', ')`
is one piece, `'ab' in Text(Tag('em', 'a'), 'b')` is false.  (For `in` / `startswith` / `endswith`
the doc-strings and the test-suite pin this; `split` inherits it.)  This is why `C08_split` is
stated for one-character separators and white space, and `C08_prefix_suffix_contains` as soundness. -/
theorem C08_partwise_neg :
    (split (.lit ',' [' ']) (build (.node .text [.str "a,".toList, .node (.tag "em".toList) [.str " b".toList]])) none).map toStr
      = ["a, b".toList] ∧
    strSplit (.lit ',' [' ']) "a, b".toList = ["a".toList, "b".toList] ∧
    contains "ab".toList (build (.node .text [.node (.tag "em".toList) [.str "a".toList], .str "b".toList])) = false ∧
    isInfix "ab".toList (toStr (build (.node .text [.node (.tag "em".toList) [.str "a".toList], .str "b".toList]))) = true := by
  decide +kernel

/-- **isalpha.** True iff the text is non-empty and every pair is an alphabetic character
(a symbol never is). -/
theorem C08_isalpha (t : RT) (h : Normal t = true) (ctx : List Markup) :
    isAlphaT t = Flat.isAlpha (sem ctx t) := isAlphaT_spec t ctx h

theorem C08_isalpha_nonvacuous :
    isAlphaT (build (.node .text [.str "ab".toList, .node (.tag "em".toList) [.str "C".toList]])) = true ∧
    isAlphaT (build (.node .text [.str "ab".toList, .sym "nbsp".toList])) = false := by decide +kernel

/-- **Rendering.** Rendering with the tracing backend (the public observation point) returns
exactly the string of pairs; with `C08_mk_sem`: what is rendered depends only on the denotation
of the tree the text was built from, never on grouping or nesting. -/
theorem C08_render (t : RT) :
    render traceBackend t = some (sem [] t) ∧ render traceBackend (build t) = some (sem [] t) :=
  ⟨render_trace t, by rw [render_trace, sem_build]⟩

/-- **Histories.** Any finite sequence of operations (`+` on either side, `append`, `join`,
slices, indices – including the ones that raise –, `upper`, `lower`, `capfirst`, `capitalize`,
`add_period`, `split()` at white space or at a one-character separator followed by the choice
of a piece), applied on top of one another to an object, yields step by step exactly the abstract values obtained by
running the corresponding list operations on the string of pairs. -/
theorem C08_history (t : RT) (ht : Normal t = true) (ops : List Op)
    (hops : ∀ op ∈ ops, op.OperandsNormal = true ∧ op.Covered = true) :
    (run Gen.terminators t ops).map (Except.map abs)
      = Abs.run Gen.terminators (abs t) (ops.map Op.abs) :=
  run_abs Gen.terminators C08_tables.1 ops t ht hops

/-- a non-trivial history satisfying the hypotheses (with a slice whose stop precedes its start,
an index out of range and a split): the texts after each step are
`AB CD,E`, `B CD,`, (IndexError), `B CD,x`, `B CD`, ``, `` -/
theorem C08_history_nonvacuous :
    Normal (build (.node .text [.str "ab ".toList, .node (.tag "em".toList) [.str "cd,e".toList]])) = true ∧
    ([Op.upper, .slice (some 1) (some (-1)), .index 9, .append (.str "x".toList),
      .splitPick (.lit ',' []) none 0, .slice (some 3) (some 1), .addPeriod].all
        fun op => op.OperandsNormal && op.Covered) = true ∧
    (run Gen.terminators (build (.node .text [.str "ab ".toList, .node (.tag "em".toList) [.str "cd,e".toList]]))
      [.upper, .slice (some 1) (some (-1)), .index 9, .append (.str "x".toList),
       .splitPick (.lit ',' []) none 0, .slice (some 3) (some 1), .addPeriod]).map
        (fun r => match r with | .ok x => some (toStr x) | .error _ => none)
      = [some "AB CD,E".toList, some "B CD,".toList, none, some "B CD,x".toList,
         some "B CD".toList, some [], some []] := by decide +kernel


/-! ## Second part: the interpreter's Unicode case mapping and letters, `add_period(period)`, completeness of
`startswith` / `endswith` / `in`, histories over all operations -/

/-- the ASCII fragment of the interpreter's tables is the ASCII case mapping of `Model/Basic.lean`
(kernel evaluation over the 128 code points) -/
theorem C08_unicode_ascii_bridge (c : Char) (h : c.toNat < 128) :
    uniCase.up c = [upperC c] ∧ uniCase.lo c = [lowerC c] ∧ uniCase.alpha c = isAlpha c := by
  have key : (List.range 128).all (fun n =>
      uniCase.up (Char.ofNat n) == [upperC (Char.ofNat n)] && uniCase.lo (Char.ofNat n) == [lowerC (Char.ofNat n)] &&
      uniCase.alpha (Char.ofNat n) == isAlpha (Char.ofNat n)) = true := by decide +kernel
  simp only [List.all_eq_true, List.mem_range, Bool.and_eq_true, beq_iff_eq] at key
  have := key c.toNat h
  rw [Char.ofNat_toNat] at this
  exact ⟨this.1.1, this.1.2, this.2⟩

/-- what the regenerated tables say about the characters the generators use as witnesses: é É ǅ Cyrillic map one to
one; ß, ŉ, İ have longer images; `lower` leaves ß alone (`casefold` would not); 毛 is a letter without case -/
theorem C08_unicode_tables :
    uniCase.up 'é' = ['É'] ∧ uniCase.lo 'É' = ['é'] ∧ uniCase.up 'ǅ' = ['Ǆ'] ∧ uniCase.lo 'ǅ' = ['ǆ'] ∧
    uniCase.up 'ж' = ['Ж'] ∧ uniCase.up 'ß' = ['S', 'S'] ∧ uniCase.lo 'ß' = ['ß'] ∧
    uniCase.up 'ŉ' = ['ʼ', 'N'] ∧ uniCase.lo 'İ' = ['i', Char.ofNat 0x307] ∧
    uniCase.alpha 'é' = true ∧ uniCase.alpha '毛' = true ∧ uniCase.up '毛' = ['毛'] ∧ uniCase.alpha '€' = false := by
  decide +kernel

/-- **Case, for any case mapping** (in particular the interpreter's Unicode tables `uniCase`, where the image of a
character may be longer than one character: ß → SS).  `upper()` / `lower()` replace every character that is not under
`Protected` by its image, every character of the image carrying the markup of the character it came from; symbols,
protected characters and the class are kept; the result is an object (normal form).  They commute with
concatenation as objects.  For the ASCII mapping these are the `upperT` / `lowerT` of `C08_case`. -/
theorem C08_case_full (cs : CaseSys) (t : RT) :
    abs (upperG cs t) = Abs.caseMapFull cs.up (abs t) ∧ abs (lowerG cs t) = Abs.caseMapFull cs.lo (abs t) ∧
    (Normal t = true → Normal (upperG cs t) = true ∧ Normal (lowerG cs t) = true) ∧
    (Normal t = true → ∀ u, Normal u = true →
      eq (upperG cs (add t u)) (add (upperG cs t) (upperG cs u)) = true ∧
      eq (lowerG cs (add t u)) (add (lowerG cs t) (lowerG cs u)) = true) := by
  refine ⟨abs_upperG cs t, abs_lowerG cs t, fun hn => ⟨normal_caseMap _ _ hn, normal_caseMap _ _ hn⟩, ?_⟩
  intro hn u hu
  have h1 : abs (upperG cs (add t u)) = abs (add (upperG cs t) (upperG cs u)) := by
    rw [abs_upperG, abs_add, abs_add, abs_upperG, abs_upperG, abs_caseMapFull_add]
  have h2 : abs (lowerG cs (add t u)) = abs (add (lowerG cs t) (lowerG cs u)) := by
    rw [abs_lowerG, abs_add, abs_add, abs_lowerG, abs_lowerG, abs_caseMapFull_add]
  constructor
  · rw [eq_iff]
    exact abs_inj _ _ (normal_caseMap _ _ (normal_add _ _ hn hu))
      (normal_add _ _ (normal_caseMap _ _ hn) (normal_caseMap _ _ hu)) h1
  · rw [eq_iff]
    exact abs_inj _ _ (normal_caseMap _ _ (normal_add _ _ hn hu))
      (normal_add _ _ (normal_caseMap _ _ hn) (normal_caseMap _ _ hu)) h2

theorem C08_case_full_nonvacuous :
    abs (upperG uniCase (build (.node .text [.str "Straße é".toList, .node .prot [.str "ß".toList], .sym "nbsp".toList])))
      = ⟨.multi .text, [(.ch 'S', []), (.ch 'T', []), (.ch 'R', []), (.ch 'A', []), (.ch 'S', []), (.ch 'S', []),
          (.ch 'E', []), (.ch ' ', []), (.ch 'É', []), (.ch 'ß', [.prot]), (.sym "nbsp".toList, [])]⟩ ∧
    toStr (lowerG uniCase (.str "Straße É".toList)) = "straße é".toList := by decide +kernel

/-- **Case and slicing** (`slice-then-upper = upper-then-slice`) hold – as objects – on the texts where the case
mapping keeps the length: every unprotected character has a one-character upper- and lower-case image
(`Flat.lenPreserving`, decidable; all of ASCII, é, Cyrillic, ǅ … satisfy it, ß ŉ ǰ İ ﬁ … do not).  There the mapping is
pointwise and the length is kept. -/
theorem C08_case_slice_partial (cs : CaseSys) (t : RT) (hn : Normal t = true)
    (hd : Flat.lenPreserving cs (sem [] t) = true) :
    (∀ i j, eq (upperG cs (getSlice t i j)) (getSlice (upperG cs t) i j) = true ∧
            eq (lowerG cs (getSlice t i j)) (getSlice (lowerG cs t) i j) = true) ∧
    len (upperG cs t) = len t ∧ len (lowerG cs t) = len t := by
  obtain ⟨hu, hl⟩ := single_of_lenPreserving cs _ hd
  refine ⟨fun i j => ⟨?_, ?_⟩, ?_, ?_⟩
  · have h1 : abs (upperG cs (getSlice t i j)) = abs (getSlice (upperG cs t) i j) := by
      rw [abs_upperG, abs_getSlice, abs_getSlice, abs_upperG, abs_caseMapFull_slice _ _ _ _ hu]
    rw [eq_iff]
    exact abs_inj _ _ (normal_caseMap _ _ (normal_getSlice t hn i j)) (normal_getSlice _ (normal_caseMap _ _ hn) i j) h1
  · have h1 : abs (lowerG cs (getSlice t i j)) = abs (getSlice (lowerG cs t) i j) := by
      rw [abs_lowerG, abs_getSlice, abs_getSlice, abs_lowerG, abs_caseMapFull_slice _ _ _ _ hl]
    rw [eq_iff]
    exact abs_inj _ _ (normal_caseMap _ _ (normal_getSlice t hn i j)) (normal_getSlice _ (normal_caseMap _ _ hn) i j) h1
  · rw [← sem_length (upperG cs t) [], ← sem_length t []]
    have := congrArg Abs.atoms (abs_upperG cs t)
    simp only [abs_atoms, Abs.caseMapFull] at this
    rw [this, mapCaseFull_length_single _ _ hu]
  · rw [← sem_length (lowerG cs t) [], ← sem_length t []]
    have := congrArg Abs.atoms (abs_lowerG cs t)
    simp only [abs_atoms, Abs.caseMapFull] at this
    rw [this, mapCaseFull_length_single _ _ hl]

theorem C08_case_slice_partial_nonvacuous :
    Normal (build (.node .text [.str "éa ".toList, .node (.tag "em".toList) [.str "Жǅ".toList]])) = true ∧
    Flat.lenPreserving uniCase (sem [] (build (.node .text [.str "éa ".toList, .node (.tag "em".toList) [.str "Жǅ".toList]]))) = true ∧
    toStr (upperG uniCase (build (.node .text [.str "éa ".toList, .node (.tag "em".toList) [.str "Жǅ".toList]]))) = "ÉA ЖǄ".toList := by
  decide +kernel

/-- **Limit: where the image of a character is longer than the character the laws that relate case and
slicing fail – exactly as they fail for Python strings** (`'ß'.upper()[:1] = 'S'`, `'ß'[:1].upper() = 'SS'`): the
length grows, slice-then-upper differs from upper-then-slice.  `lower()` keeps ß (`casefold()` would give `ss`). -/
theorem C08_case_slice_neg :
    Flat.lenPreserving uniCase (sem [] (.str "ß".toList)) = false ∧
    len (upperG uniCase (.str "ß".toList)) = 2 ∧
    toStr (getSlice (upperG uniCase (.str "ß".toList)) none (some 1)) = "S".toList ∧
    toStr (upperG uniCase (getSlice (.str "ß".toList) none (some 1))) = "SS".toList ∧
    eq (upperG uniCase (getSlice (.str "ß".toList) none (some 1))) (getSlice (upperG uniCase (.str "ß".toList)) none (some 1)) = false ∧
    toStr (lowerG uniCase (.str "ß".toList)) = "ß".toList := by decide +kernel

/-- **capfirst / capitalize, for any case mapping**: `self[:1].upper() + self[1:]` and
`self[:1].upper() + self[1:].lower()` on the string of pairs; `Protected` is left alone; the results are objects. -/
theorem C08_capfirst_capitalize_full (cs : CaseSys) (t : RT) :
    abs (capfirstG cs t) = Abs.capfirstG cs (abs t) ∧ abs (capitalizeG cs t) = Abs.capitalizeG cs (abs t) ∧
    (Normal t = true → Normal (capfirstG cs t) = true ∧ Normal (capitalizeG cs t) = true) :=
  ⟨abs_capfirstG cs t, abs_capitalizeG cs t, fun h => ⟨normal_capfirstG cs t h, normal_capitalizeG cs t h⟩⟩

theorem C08_capfirst_capitalize_full_nonvacuous :
    toStr (capitalizeG uniCase (build (.node (.tag "em".toList) [.str "ßÉ".toList, .node .prot [.str "É".toList]]))) = "SSéÉ".toList ∧
    toStr (capfirstG uniCase (.str "éÉ".toList)) = "ÉÉ".toList := by decide +kernel

/-- **isalpha, for any letter test** (in particular the interpreter's `str.isalpha` table): true iff the text is
non-empty and every pair is a letter (a symbol never is). -/
theorem C08_isalpha_full (alpha : Char → Bool) (t : RT) (h : Normal t = true) (ctx : List Markup) :
    isAlphaG alpha t = Flat.isAlphaG alpha (sem ctx t) := isAlphaG_spec alpha t ctx h

theorem C08_isalpha_full_nonvacuous :
    isAlphaG uniCase.alpha (build (.node .text [.str "éß".toList, .node (.tag "em".toList) [.str "毛Ж".toList]])) = true ∧
    isAlphaG uniCase.alpha (build (.node .text [.str "é€".toList])) = false ∧
    isAlphaT (.str "é".toList) = false := by decide +kernel

/-- **add_period(period)** for ANY period (a `str`, a `Text`, a `Tag` …): it is appended – inside the outermost
markup of the receiver, with its own markup – exactly when the text is non-empty and its last pair is not one of
the terminating characters; otherwise the text is returned as it is. -/
theorem C08_add_period_any (period t : RT) (h : Normal t = true) :
    abs (addPeriod Gen.terminators period t) = Abs.addPeriod Gen.terminators (abs period) (abs t) ∧
    (Normal period = true → Normal (addPeriod Gen.terminators period t) = true) :=
  ⟨abs_addPeriod Gen.terminators C08_tables.1 period t h, fun hp => normal_addPeriod _ _ t h hp⟩

theorem C08_add_period_any_nonvacuous :
    abs (addPeriod Gen.terminators (build (.node (.tag "b".toList) [.str "!".toList]))
          (build (.node (.tag "em".toList) [.str "Ok".toList])))
      = ⟨.multi (.tag "em".toList), [(.ch 'O', [.tag "em".toList]), (.ch 'k', [.tag "em".toList]),
          (.ch '!', [.tag "em".toList, .tag "b".toList])]⟩ ∧
    toStr (addPeriod Gen.terminators (.str "!".toList) (.str "Ok?".toList)) = "Ok?".toList := by decide +kernel

/-- **Equality with a value that is not a rich text** (`'a'`, `None`, `5` …) is `False`: `==` is total. -/
theorem C08_eq_other (t : RT) : eqVal t .other = false ∧ ∀ u, eqVal t (.text u) = eq t u := ⟨rfl, fun _ => rfl⟩

/-- **startswith / endswith / in are exact for the part-wise reading, and sound for the string operation.**
On objects (normal forms) the answer of the code is true EXACTLY when some alternative is spelled at the beginning /
at the end / somewhere *inside one and the same markup* (completeness added to `C08_prefix_suffix_contains`; the
empty-string corner cases are the ones of `Abs.startsWith` / `Abs.contains`).  A positive answer is always a match of
the Python string operation on the characters (`*Full`).  The converse fails exactly when the match straddles a
markup boundary: recorded finding `C08-partwise-matching`, witnesses in `C08_partwise_neg` / `C08_matching_neg`. -/
theorem C08_matching_partial (t : RT) (h : Normal t = true) :
    (∀ ps, startsWith ps t = Abs.startsWith ps (abs t)) ∧
    (∀ ps, endsWith ps t = Abs.endsWith ps (abs t)) ∧
    (∀ item, contains item t = Abs.contains item (abs t)) ∧
    (∀ ps, startsWith ps t = true → Abs.startsWithFull ps (abs t) = true) ∧
    (∀ ps, endsWith ps t = true → Abs.endsWithFull ps (abs t) = true) ∧
    (∀ item, contains item t = true → Abs.containsFull item (abs t) = true) ∧
    (∀ q s, Flat.startsWith1 q s = true → Flat.startsWithFull1 q s = true) ∧
    (∀ q s, Flat.endsWith1 q s = true → Flat.endsWithFull1 q s = true) ∧
    (∀ q s, Flat.hasWindow q s = true → Flat.hasWindowFull q s = true) := by
  refine ⟨fun ps => startsWith_exact ps t h, fun ps => endsWith_exact ps t h, fun item => contains_exact item t h,
    ?_, ?_, ?_, startsWithFull1_of_startsWith1, endsWithFull1_of_endsWith1, hasWindowFull_of_hasWindow⟩
  · intro ps hs; rw [startsWith_exact ps t h] at hs; simp [Abs.startsWithFull, hs]
  · intro ps hs; rw [endsWith_exact ps t h] at hs; simp [Abs.endsWithFull, hs]
  · intro item hs; rw [contains_exact item t h] at hs; simp [Abs.containsFull, hs]

theorem C08_matching_partial_nonvacuous :
    Normal (build (.node .text [.node (.tag "em".toList) [.str "Long".toList], .str "cat".toList])) = true ∧
    startsWith ["Lo".toList] (build (.node .text [.node (.tag "em".toList) [.str "Long".toList], .str "cat".toList])) = true ∧
    Abs.startsWithFull ["Lo".toList] (abs (build (.node .text [.node (.tag "em".toList) [.str "Long".toList], .str "cat".toList]))) = true := by
  decide +kernel

/-- **The finding, on concrete witnesses**: the Python string operation on the characters finds a prefix / suffix /
substring / separator / white-space run that straddles a markup boundary, the code (= the part-wise reading) does
not: `Text(Tag('em','a'),'b')` starts and ends with `'ab'` and contains it; `Text('a ', Tag('em',' b'))
.split(None, keep_empty_parts=True)` has an empty piece between the two blanks where `re.split(r'\s+')` has none. -/
theorem C08_matching_neg :
    startsWith ["ab".toList] (build (.node .text [.node (.tag "em".toList) [.str "a".toList], .str "b".toList])) = false ∧
    Abs.startsWithFull ["ab".toList] (abs (build (.node .text [.node (.tag "em".toList) [.str "a".toList], .str "b".toList]))) = true ∧
    endsWith ["ab".toList] (build (.node .text [.node (.tag "em".toList) [.str "a".toList], .str "b".toList])) = false ∧
    Abs.endsWithFull ["ab".toList] (abs (build (.node .text [.node (.tag "em".toList) [.str "a".toList], .str "b".toList]))) = true ∧
    contains "ab".toList (build (.node .text [.node (.tag "em".toList) [.str "a".toList], .str "b".toList])) = false ∧
    Abs.containsFull "ab".toList (abs (build (.node .text [.node (.tag "em".toList) [.str "a".toList], .str "b".toList]))) = true ∧
    (split .ws (build (.node .text [.str "a ".toList, .node (.tag "em".toList) [.str " b".toList]])) (some true)).map toStr
      = ["a".toList, [], "b".toList] ∧
    (Abs.splitG true .ws true (abs (build (.node .text [.str "a ".toList, .node (.tag "em".toList) [.str " b".toList]])))).map
        (fun a => Flat.toStr a.atoms) = ["a".toList, [], "b".toList] ∧
    (Abs.splitG false .ws true (abs (build (.node .text [.str "a ".toList, .node (.tag "em".toList) [.str " b".toList]])))).map
        (fun a => Flat.toStr a.atoms) = ["a".toList, "b".toList] ∧
    (Abs.splitG false (.lit ',' [' ']) true (abs (build (.node .text [.str "a,".toList, .node (.tag "em".toList) [.str " b".toList]])))).map
        (fun a => Flat.toStr a.atoms) = ["a".toList, "b".toList] := by
  decide +kernel

/-- **split at the compiled pattern `textutils.delimiter_re` = `([\s\-])`** (what `abbreviate()` uses): the pieces are
the list split of the string of pairs at every white-space character or hyphen that is not under `Protected`, each
separator kept as a piece of its own (capturing group); empty pieces are dropped only if `keep_empty_parts=False`;
every piece has the receiver's class and is an object; a `Symbol` and a `Protected` are never split; glued together
the pieces of a list split spell the text again, markup included. -/
theorem C08_split_regex (t : RT) (keep : Option Bool) :
    (splitRe .delim t keep).map abs = Abs.splitReG true .delim (keepRe keep) (abs t) ∧
    (∀ re, ∀ r ∈ splitRe re t keep, top r = top t) ∧
    (Normal t = true → ∀ re, ∀ r ∈ splitRe re t keep, Normal r = true) ∧
    (∀ s : Flat, (Flat.splitKeepGo Flat.isDelim s []).flatten = s) :=
  ⟨abs_splitRe_delim t keep, fun re => top_splitBy _ t _, fun h re => normal_splitBy _ t h _,
   fun s => by simpa using splitKeepGo_flatten Flat.isDelim s []⟩

theorem C08_split_regex_nonvacuous :
    (splitRe .delim (build (.node .text [.str "a b-".toList, .node (.tag "em".toList) [.str "c".toList],
        .node .prot [.str "d e".toList]])) none).map abs
      = [⟨.multi .text, [(.ch 'a', [])]⟩, ⟨.multi .text, [(.ch ' ', [])]⟩, ⟨.multi .text, [(.ch 'b', [])]⟩,
         ⟨.multi .text, [(.ch '-', [])]⟩,
         ⟨.multi .text, [(.ch 'c', [.tag "em".toList]), (.ch 'd', [.prot]), (.ch ' ', [.prot]), (.ch 'e', [.prot])]⟩] := by
  decide +kernel

/-- **abbreviate()** acts on the string of pairs as the composition of the list operations: the text is cut at the
unprotected delimiters (kept), every piece that `isalpha()` becomes its first pair followed by a period (inside the
outermost markup of the piece, unless that pair is a terminator), everything is glued together again.  Protected text
is one piece with whatever surrounds it and is never abbreviated apart; the result is an object; no `IndexError`
can escape. -/
theorem C08_abbreviate (alpha : Char → Bool) (t : RT) (h : Normal t = true) :
    (abbreviate alpha Gen.terminators t).map abs = Abs.abbreviate alpha Gen.terminators (abs t) ∧
    (∀ r, abbreviate alpha Gen.terminators t = .ok r → Normal r = true) :=
  ⟨abs_abbreviate alpha Gen.terminators C08_tables.1 t h, fun r hr => normal_abbreviate alpha Gen.terminators t r h hr⟩

theorem C08_abbreviate_nonvacuous :
    (match abbreviate uniCase.alpha Gen.terminators (build (.node .text [.str "Élan vital-".toList,
        .node (.tag "em".toList) [.str "x2 ".toList], .node .prot [.str "B C".toList]])) with
      | .ok r => some (toStr r)
      | .error _ => none) = some "É. v.-x2 B C".toList ∧
    (match abbreviate uniCase.alpha Gen.terminators (build (.node (.tag "em".toList) [.str "Jean Luc".toList])) with
      | .ok r => some (abs r)
      | .error _ => none)
      = some ⟨.multi .text, [(.ch 'J', [.tag "em".toList]), (.ch '.', [.tag "em".toList]), (.ch ' ', [.tag "em".toList]),
          (.ch 'L', [.tag "em".toList]), (.ch '.', [.tag "em".toList])]⟩ := by
  decide +kernel

/-- **Histories over all operations, for any case mapping.**  Any finite sequence of operations (`+` on either side,
`append`, `join`, slices, indices – including the ones that raise –, `upper`, `lower`, `capfirst`, `capitalize`,
`add_period(period)` with any period, `abbreviate()`, `split()` at white space, at a one-character separator or at
`delimiter_re` followed by the choice of a piece), applied on top of one another to an object, yields step by step exactly
the abstract values obtained by running the corresponding list operations on the string of pairs – with the
interpreter's Unicode case mapping (`uniCase`) in particular, also where the text changes its length. -/
theorem C08_history_full (cs : CaseSys) (t : RT) (ht : Normal t = true) (ops : List OpG)
    (hops : ∀ op ∈ ops, op.OperandsNormal = true ∧ op.Covered = true) :
    (runG cs Gen.terminators t ops).map (Except.map abs)
      = Abs.runG cs Gen.terminators (abs t) (ops.map OpG.abs) :=
  runG_abs cs Gen.terminators C08_tables.1 ops t ht hops

/-- a non-trivial history with the Unicode mapping: `straße é` → upper (longer) → slice → add_period('!') → lower →
capitalize → index out of range → abbreviate → a piece of the split at the delimiters -/
theorem C08_history_full_nonvacuous :
    ([OpG.upper, .slice (some 4) (some (-1)), .addPeriod (.str "!".toList), .lower, .capitalize, .index 9, .abbreviate,
      .splitRePick .delim none 1].all fun op => op.OperandsNormal && op.Covered) = true ∧
    (runG uniCase Gen.terminators (build (.node .text [.str "stra".toList, .node (.tag "em".toList) [.str "ße é".toList]]))
      [.upper, .slice (some 4) (some (-1)), .addPeriod (.str "!".toList), .lower, .capitalize, .index 9, .abbreviate,
       .splitRePick .delim none 1]).map
        (fun r => match r with | .ok x => some (toStr x) | .error _ => none)
      = [some "STRASSE É".toList, some "SSE ".toList, some "SSE !".toList, some "sse !".toList, some "Sse !".toList, none,
         some "S. !".toList, some " ".toList] := by
  decide +kernel

/-- **Normal form is preserved by concatenation, append and join** (for slice, index, case,
capfirst / capitalize, add_period, split, abbreviate this is part of `C08_slice`, `C08_case_full`,
`C08_capfirst_capitalize_full`, `C08_add_period_any`, `C08_split`, `C08_split_regex`,
`C08_abbreviate`): applied to objects (normal forms) `+`, `append` and `join` return objects — no
empty part, no nested `Text`, no two adjacent similar parts; and `split` at ANY separator (also the
multi-character ones and `split(None, keep_empty_parts=True)`, whose pieces are not characterised by
a theorem) returns objects. -/
theorem C08_normal_preserved :
    (∀ a b, Normal a = true → Normal b = true → Normal (add a b) = true) ∧
    (∀ t x, Normal t = true → Normal x = true → Normal (append t x) = true) ∧
    (∀ sep l, Normal sep = true → (∀ p ∈ l, Normal p = true) → Normal (join sep l) = true) ∧
    (∀ t sep keep, Normal t = true → ∀ r ∈ split sep t keep, Normal r = true) :=
  ⟨normal_add, normal_append, normal_join, fun t sep keep h => normal_split t h sep keep⟩

/-- two `em` tags side by side are NOT an object as a raw tree, but `+`, `append`, `join` of the two
objects give objects (the constructor inside merges the similar neighbours) -/
theorem C08_normal_preserved_nonvacuous :
    Normal (build (.node (.tag "em".toList) [.str "a".toList])) = true ∧
    Normal (.node .text [.node (.tag "em".toList) [.str "a".toList], .node (.tag "em".toList) [.str "b".toList]]) = false ∧
    Normal (add (build (.node (.tag "em".toList) [.str "a".toList])) (build (.node (.tag "em".toList) [.str "b".toList]))) = true ∧
    Normal (append (build (.node .text [.node (.tag "em".toList) [.str "a".toList]])) (build (.node (.tag "em".toList) [.str "b".toList]))) = true ∧
    Normal (join (build (.node (.tag "em".toList) [.str ",".toList]))
      [build (.node (.tag "em".toList) [.str "a".toList]), .str [], build (.node (.tag "em".toList) [.str "b".toList])]) = true ∧
    (split (.lit ',' [' ']) (build (.node .text [.str "a, ".toList, .node (.tag "em".toList) [.str "b".toList]])) none).all Normal = true := by
  decide +kernel

/-- **Normal form is an invariant of every history** — stated (in `C08_history` / `C08_history_full` it
is only used inside the proof).  For ANY finite sequence of operations whose operands are objects —
including the operations NOT covered by the history theorems (split at a multi-character separator,
`split(None, keep_empty_parts=True)`, split at the dash pattern) — every text a step returns is an
object, for the ASCII and for any case mapping. -/
theorem C08_history_normal (t : RT) (ht : Normal t = true) :
    (∀ (ops : List Op), (∀ op ∈ ops, op.OperandsNormal = true) →
      ∀ x, Except.ok x ∈ run Gen.terminators t ops → Normal x = true) ∧
    (∀ (cs : CaseSys) (ops : List OpG), (∀ op ∈ ops, op.OperandsNormal = true) →
      ∀ x, Except.ok x ∈ runG cs Gen.terminators t ops → Normal x = true) :=
  ⟨fun ops ho => run_normal Gen.terminators ops t ht ho, fun cs ops ho => runG_normal cs Gen.terminators ops t ht ho⟩

/-- a history with an operation outside `Covered` (split at the two-character separator `", "`) and
operands that are objects: all outcomes are objects -/
theorem C08_history_normal_nonvacuous :
    ([OpG.add (build (.node (.tag "em".toList) [.str "c, d".toList])), .splitPick (.lit ',' [' ']) none 1, .upper,
      .joinWith [.str "x".toList, build (.node (.tag "em".toList) [.str "y".toList])]].all fun op => op.OperandsNormal) = true ∧
    ([OpG.add (build (.node (.tag "em".toList) [.str "c, d".toList])), .splitPick (.lit ',' [' ']) none 1, .upper,
      .joinWith [.str "x".toList, build (.node (.tag "em".toList) [.str "y".toList])]].all fun op => op.Covered) = false ∧
    (runG uniCase Gen.terminators (build (.node .text [.str "ab ".toList, .node (.tag "em".toList) [.str "e".toList]]))
      [.add (build (.node (.tag "em".toList) [.str "c, d".toList])), .splitPick (.lit ',' [' ']) none 1, .upper,
       .joinWith [.str "x".toList, build (.node (.tag "em".toList) [.str "y".toList])]]).map
        (fun r => match r with | .ok x => some (toStr x, Normal x) | .error _ => none)
      = [some ("ab ec, d".toList, true), some ("d".toList, true), some ("D".toList, true), some ("xDy".toList, true)] := by
  decide +kernel

end Pybtex.Props
