/-
C08 — rich text behaves like a string of (character, markup) pairs.

Property theorems only.  The model of `pybtex/richtext.py` is `Model/RichText.lean` (`RT`, `mk` =
the constructor, `build` = the object a tree of nested constructor calls denotes, one function
per method); the reference semantics a reader has to agree with is `Spec/RichText.lean`
(`sem` = the string of (atom, markup stack) pairs a tree denotes, `Abs` = class of the object +
that string, and the plain list operations `Flat.*` / `Abs.*`); helper lemmas are in
`Lemmas/RichText.lean`.

`Normal` is the decidable invariant "hereditarily: no empty part, no nested `Text`, no two adjacent
parts of the same type info"; `C08_mk_sem` shows every constructed object satisfies it and
`C08_history` that every operation preserves it.
-/
import PybtexModel.Lemmas.RichText
import PybtexModel.Gen.RichText

namespace Pybtex.Props
open Pybtex Pybtex.RT

/-- every terminator of `textutils.terminators` (regenerated from /repo) is one character, and the
white-space pattern `String.split()` uses is the one the model implements -/
theorem C08_tables :
    (∀ x ∈ Gen.terminators, x.length = 1) ∧ Gen.whitespacePattern = "\\s+" := by decide

/-- **Construction.** The constructor (`BaseMultipartText.__init__`: drop the empty parts, unpack
`Text` children, merge similar neighbours) does not change the string of pairs; hence the object
built from *any* tree of nested constructor calls denotes what the tree denotes, has the class of
the outermost call, and is in normal form. -/
theorem C08_mk_sem :
    (∀ ctx k ps, sem ctx (mk k ps) = sem ctx (.node k ps)) ∧
    (∀ ctx t, sem ctx (build t) = sem ctx t) ∧
    (∀ t, abs (build t) = abs t) ∧
    (∀ t, Normal (build t) = true) ∧
    (∀ k ps, (∀ p ∈ ps, Normal p = true) → Normal (mk k ps) = true) :=
  ⟨sem_mk, fun ctx t => sem_build t ctx, abs_build, normal_build, normal_mk⟩

/-- **Grouping never matters.** Associativity, dropping of empty parts, flattening of nested
`Text`s and merging of adjacent similar texts leave the string of pairs unchanged – and because
normal forms are unique (`C08_eq_iff_sem`) the constructor returns *the same object* (`==`) for
any two argument lists of objects that denote the same string. -/
theorem C08_grouping_laws :
    -- associativity of concatenation
    (∀ ctx a b c, sem ctx (add (add a b) c) = sem ctx (add a (add b c))) ∧
    -- a part without characters can be dropped anywhere
    (∀ ctx k ps e rs, len e = 0 → sem ctx (mk k (ps ++ e :: rs)) = sem ctx (mk k (ps ++ rs))) ∧
    -- a `Text` among the arguments is the same as its parts
    (∀ ctx k ps qs rs, sem ctx (mk k (ps ++ mk .text qs :: rs)) = sem ctx (mk k (ps ++ qs ++ rs))) ∧
    -- two adjacent texts with the same class and parameters are the same as one
    (∀ ctx k k' ps qs qs' rs,
      sem ctx (mk k (ps ++ mk k' qs :: mk k' qs' :: rs)) = sem ctx (mk k (ps ++ mk k' (qs ++ qs') :: rs))) ∧
    -- consequently: equal denotations of the arguments ⇒ equal objects
    (∀ k ps qs, (∀ p ∈ ps, Normal p = true) → (∀ q ∈ qs, Normal q = true) →
      semL [] ps = semL [] qs → eq (mk k ps) (mk k qs) = true) := by
  refine ⟨?_, ?_, ?_, ?_, ?_⟩
  · intro ctx a b c; simp [sem_add, List.append_assoc]
  · intro ctx k ps e rs he
    simp [sem_mk, sem, semL_append, semL, sem_nil_of_len _ e he]
  · intro ctx k ps qs rs
    simp [sem_mk, sem, semL_append, semL, Kind.markup, List.append_assoc]
  · intro ctx k k' ps qs qs' rs
    simp [sem_mk, sem, semL_append, semL, List.append_assoc]
  · intro k ps qs hp hq h
    rw [eq_iff]
    apply abs_inj _ _ (normal_mk k ps hp) (normal_mk k qs hq)
    apply abs_ext rfl
    simp only [abs_atoms, sem_mk, sem]
    rw [semL_ctx, h, ← semL_ctx]

/-- **Equality.** `==` is total (it never raises) and, on objects (normal forms), `a == b` holds
exactly when `a` and `b` have the same class and denote the same string of pairs.  For trees of
constructor calls: the built objects are equal iff the trees have the same outermost class and
the same denotation – nesting, grouping, empty parts play no role. -/
theorem C08_eq_iff_sem :
    (∀ a b, eq a b = true ↔ a = b) ∧
    (∀ a b, Normal a = true → Normal b = true → (eq a b = true ↔ abs a = abs b)) ∧
    (∀ r₁ r₂, eq (build r₁) (build r₂) = true ↔ (top r₁ = top r₂ ∧ sem [] r₁ = sem [] r₂)) := by
  refine ⟨fun a b => eq_iff a b, ?_, ?_⟩
  · intro a b ha hb
    rw [eq_iff]
    exact ⟨fun h => by rw [h], abs_inj a b ha hb⟩
  · intro r₁ r₂
    rw [eq_iff]
    constructor
    · intro h
      have := congrArg abs h
      rw [abs_build, abs_build] at this
      exact ⟨congrArg Abs.top this, congrArg Abs.atoms this⟩
    · rintro ⟨h1, h2⟩
      apply abs_inj _ _ (normal_build r₁) (normal_build r₂)
      rw [abs_build, abs_build]
      exact abs_ext h1 h2

/-- the hypotheses of `C08_eq_iff_sem` / `C08_grouping_laws` are satisfiable by non-trivial
trees: two different groupings of the same text are equal objects, a different markup is not -/
theorem C08_eq_iff_sem_nonvacuous :
    eq (build (.node .text [.str "ab".toList, .node (.tag "em".toList) [.str "c".toList], .node (.tag "em".toList) [.str "d".toList]]))
       (build (.node .text [.str "a".toList, .node .text [.str "b".toList, .str []],
          .node (.tag "em".toList) [.node .text [.str "cd".toList]]])) = true ∧
    eq (build (.node .text [.node (.tag "em".toList) [.str "c".toList]]))
       (build (.node .text [.node (.tag "strong".toList) [.str "c".toList]])) = false := by decide +kernel

/-- **Concatenation.** `a + b` denotes the concatenation (as a `Text`). -/
theorem C08_add (a b : RT) :
    abs (add a b) = Abs.add (abs a) (abs b) ∧ ∀ ctx, sem ctx (add a b) = sem ctx a ++ sem ctx b :=
  ⟨abs_add a b, fun ctx => sem_add ctx a b⟩

/-- **append.** The appended text is placed inside the outermost markup of the receiver
(for a `String`/`Symbol` receiver `append` is `+`); the class of the receiver is kept. -/
theorem C08_append (t x : RT) :
    abs (append t x) = Abs.append (abs t) (abs x) ∧
    ∀ ctx k ps, sem ctx (append (.node k ps) x) = sem ctx (.node k ps) ++ sem (ctx ++ k.markup) x :=
  ⟨abs_append t x, fun ctx k ps => sem_append_node ctx k ps x⟩

/-- **join.** `sep.join(parts)` denotes the parts intercalated with the separator (`str.join`). -/
theorem C08_join (sep : RT) (parts : List RT) :
    abs (join sep parts) = Abs.join (abs sep) (parts.map abs) ∧
    ∀ ctx, sem ctx (join sep parts) = joinWith (sem ctx sep) (parts.map (sem ctx)) :=
  ⟨abs_join sep parts, fun ctx => sem_join ctx sep parts⟩

/-- **len / str.** `len(text)` is the number of pairs, `str(text)` their characters. -/
theorem C08_len (t : RT) (ctx : List Markup) :
    len t = (sem ctx t).length ∧ toStr t = Flat.toStr (sem ctx t) :=
  ⟨(sem_length t ctx).symm, (toStr_sem t ctx).symm⟩

/-- **Slicing.** For ALL integers `i j` (negative, beyond the ends, `j < i`) and for missing
bounds, `text[i:j]` denotes Python's slice `s[i:j]` of the string of pairs, inside any markup
context; the class is kept (the empty slice of a symbol is an empty string). -/
theorem C08_slice (t : RT) :
    (∀ ctx (i j : Int), sem ctx (getSlice t (some i) (some j)) = pySlice (sem ctx t) i j) ∧
    (∀ ctx i j, sem ctx (getSlice t i j) = Flat.slice (sem ctx t) i j) ∧
    (∀ i j, abs (getSlice t i j) = Abs.slice (abs t) i j) ∧
    (Normal t = true → ∀ i j, Normal (getSlice t i j) = true) :=
  ⟨fun ctx i j => sem_getSlice ctx t (some i) (some j), fun ctx i j => sem_getSlice ctx t i j,
   abs_getSlice t, normal_getSlice t⟩

/-- **Indexing.** `text[i]` raises `IndexError` exactly when `i` is out of range (as for a Python
string) and otherwise is the one-pair slice at `i` (counted from the end for negative `i`). -/
theorem C08_index (t : RT) (i : Int) :
    (getIndex t i).map abs = Abs.index (abs t) i ∧
    (getIndex t i = .error .indexError ↔ ¬(-(len t : Int) ≤ i ∧ i < (len t : Int))) := by
  refine ⟨abs_getIndex t i, ?_⟩
  constructor
  · intro h hr
    obtain ⟨r, hr', _⟩ := sem_getIndex_ok [] t i hr
    rw [hr'] at h; cases h
  · exact getIndex_error t i

/-- **Case.** `upper()` / `lower()` map the characters pointwise, leave every markup stack and
every symbol alone and leave the characters under `Protected` untouched; the class is kept.
Hence they commute with slicing and with concatenation – as objects (`==`), not only as strings. -/
theorem C08_case (t : RT) :
    abs (upperT t) = Abs.caseMap upperC (abs t) ∧ abs (lowerT t) = Abs.caseMap lowerC (abs t) ∧
    (Normal t = true → ∀ i j,
      eq (upperT (getSlice t i j)) (getSlice (upperT t) i j) = true ∧
      eq (lowerT (getSlice t i j)) (getSlice (lowerT t) i j) = true) ∧
    (Normal t = true → ∀ u, Normal u = true →
      eq (upperT (add t u)) (add (upperT t) (upperT u)) = true ∧
      eq (lowerT (add t u)) (add (lowerT t) (lowerT u)) = true) := by
  refine ⟨abs_upperT t, abs_lowerT t, ?_, ?_⟩
  · intro hn i j
    have h1 : abs (upperT (getSlice t i j)) = abs (getSlice (upperT t) i j) := by
      rw [abs_upperT, abs_getSlice, abs_getSlice, abs_upperT, abs_caseMap_slice]
    have h2 : abs (lowerT (getSlice t i j)) = abs (getSlice (lowerT t) i j) := by
      rw [abs_lowerT, abs_getSlice, abs_getSlice, abs_lowerT, abs_caseMap_slice]
    constructor
    · rw [eq_iff]
      exact abs_inj _ _ (normal_caseMap _ _ (normal_getSlice t hn i j))
        (normal_getSlice _ (normal_caseMap _ _ hn) i j) h1
    · rw [eq_iff]
      exact abs_inj _ _ (normal_caseMap _ _ (normal_getSlice t hn i j))
        (normal_getSlice _ (normal_caseMap _ _ hn) i j) h2
  · intro hn u hu
    have h1 : abs (upperT (add t u)) = abs (add (upperT t) (upperT u)) := by
      rw [abs_upperT, abs_add, abs_add, abs_upperT, abs_upperT, abs_caseMap_add]
    have h2 : abs (lowerT (add t u)) = abs (add (lowerT t) (lowerT u)) := by
      rw [abs_lowerT, abs_add, abs_add, abs_lowerT, abs_lowerT, abs_caseMap_add]
    constructor
    · rw [eq_iff]
      exact abs_inj _ _ (normal_caseMap _ _ (normal_add _ _ hn hu))
        (normal_add _ _ (normal_caseMap _ _ hn) (normal_caseMap _ _ hu)) h1
    · rw [eq_iff]
      exact abs_inj _ _ (normal_caseMap _ _ (normal_add _ _ hn hu))
        (normal_add _ _ (normal_caseMap _ _ hn) (normal_caseMap _ _ hu)) h2

theorem C08_case_nonvacuous :
    abs (upperT (build (.node .text [.str "a ".toList, .node .prot [.str "b".toList], .sym "nbsp".toList])))
      = ⟨.multi .text, [(.ch 'A', []), (.ch ' ', []), (.ch 'b', [.prot]), (.sym "nbsp".toList, [])]⟩ := by decide +kernel

/-- **capfirst.** `self[:1].upper() + self[1:]` on the string of pairs; `Protected` is left alone. -/
theorem C08_capfirst (t : RT) : abs (capfirst t) = Abs.capfirst (abs t) := abs_capfirst t

/-- **capitalize.** `self[:1].upper() + self[1:].lower()` on the string of pairs; `Protected` is
left alone. -/
theorem C08_capitalize (t : RT) : abs (capitalize t) = Abs.capitalize (abs t) := abs_capitalize t

/-- **add_period.** A period is appended (inside the outermost markup) exactly when the text is
non-empty and its last pair is not one of the terminating characters. -/
theorem C08_add_period (t : RT) (h : Normal t = true) :
    abs (addPeriod Gen.terminators (.str ['.']) t)
      = Abs.addPeriod Gen.terminators ⟨.string, [(.ch '.', [])]⟩ (abs t) :=
  abs_addPeriod Gen.terminators C08_tables.1 _ t h

theorem C08_add_period_nonvacuous :
    Normal (build (.node (.tag "em".toList) [.str "Done".toList])) = true ∧
    abs (addPeriod Gen.terminators (.str ['.']) (build (.node (.tag "em".toList) [.str "Ok".toList])))
      = ⟨.multi (.tag "em".toList), [(.ch 'O', [.tag "em".toList]), (.ch 'k', [.tag "em".toList]),
          (.ch '.', [.tag "em".toList])]⟩ := by decide +kernel

/-- **split.** (1) At a one-character separator `c` (any `keep_empty_parts`): the pieces are the
list split of the string of pairs at the occurrences of `c` that are not under `Protected` (empty
pieces dropped unless kept).  (2) `split()` – white space, empty pieces not kept, Python's
`str.split()` –: the non-empty pieces of the list split at the unprotected white-space
characters, however the white space is distributed over parts and markup.  In both cases every
piece has the receiver's class and is in normal form (for any separator); a `Symbol` and a
`Protected` are never split.  (3) `c.join(text.split(c))` denotes the text with the markup of the
separators removed – in particular it has the same characters. -/
theorem C08_split (t : RT) (keep : Option Bool) :
    (∀ c, (split (.lit c []) t keep).map abs
        = Abs.split (.lit c []) (keepDefault (.lit c []) keep) (abs t)) ∧
    (keepDefault .ws keep = false → (split .ws t keep).map abs = Abs.split .ws false (abs t)) ∧
    (∀ sep, (∀ r ∈ split sep t keep, top r = top t) ∧
      (Normal t = true → ∀ r ∈ split sep t keep, Normal r = true)) ∧
    (∀ c, top t ≠ .symbol ∧ top t ≠ .multi .prot →
      sem [] (join (.str [c]) (split (.lit c []) t none))
        = (sem [] t).map fun y => if Flat.isSep (.lit c []) y then (.ch c, []) else y) := by
  refine ⟨fun c => abs_split_lit c t keep, abs_split_ws t keep,
    fun sep => ⟨top_split t sep keep, fun h => normal_split t h sep keep⟩, ?_⟩
  intro c ht
  rw [sem_join, sem_split_lit c t none [] rfl ht]
  simp only [keepDefault, keepF, Bool.or_true, sem, List.map_cons, List.map_nil]
  rw [List.filter_eq_self.2 (fun _ _ => rfl)]
  exact joinWith_splitOnP _ _ _

theorem C08_split_nonvacuous :
    (split .ws (build (.node .text [.str "a ".toList, .node (.tag "em".toList) [.str " b".toList],
        .node .prot [.str " c".toList]])) none).map abs
      = [⟨.multi .text, [(.ch 'a', [])]⟩,
         ⟨.multi .text, [(.ch 'b', [.tag "em".toList]), (.ch ' ', [.prot]), (.ch 'c', [.prot])]⟩] ∧
    (split (.lit ',' []) (build (.node .text [.str "a,".toList, .node (.tag "em".toList) [.str ",b".toList],
        .node .prot [.str "c,d".toList]])) none).map abs
      = [⟨.multi .text, [(.ch 'a', [])]⟩, ⟨.multi .text, []⟩,
         ⟨.multi .text, [(.ch 'b', [.tag "em".toList]), (.ch 'c', [.prot]), (.ch ',', [.prot]), (.ch 'd', [.prot])]⟩] := by
  decide +kernel

/-- **startswith / endswith / in** are sound for the string of pairs: a positive answer means
the text really begins / ends with / contains the characters asked for, spelled inside one and
the same markup (matches that straddle a markup boundary are not reported – documented
behaviour).  The only exception: the empty `String` starts and ends with `""`. -/
theorem C08_prefix_suffix_contains (t : RT) (h : Normal t = true) (ctx : List Markup) :
    (∀ ps, startsWith ps t = true → Flat.startsWith ps (sem ctx t) = true ∨ (t = .str [] ∧ [] ∈ ps)) ∧
    (∀ ps, endsWith ps t = true → Flat.endsWith ps (sem ctx t) = true ∨ (t = .str [] ∧ [] ∈ ps)) ∧
    (∀ item, item ≠ [] → contains item t = true → Flat.hasWindow item (sem ctx t) = true) :=
  ⟨fun ps => startsWith_sound ps t ctx h, fun ps => endsWith_sound ps t ctx h,
   fun item hi => contains_sound item hi t ctx⟩

theorem C08_prefix_suffix_contains_nonvacuous :
    startsWith ["Lo".toList] (build (.node .text [.node (.tag "em".toList) [.str "Long".toList], .str "cat".toList])) = true ∧
    startsWith ["Longc".toList] (build (.node .text [.node (.tag "em".toList) [.str "Long".toList], .str "cat".toList])) = false ∧
    contains "at".toList (build (.node .text [.node (.tag "em".toList) [.str "Long".toList], .str "cat".toList])) = true := by
  decide +kernel

/-- **Limit of the property as stated (documented behaviour of the code).**  Matching is part-wise:
a multi-character separator, prefix, suffix or substring that straddles a markup boundary is not
found, although the characters of the text contain it – `Text('a,', Tag('em', ' b')).split(', ')`
is one piece, `'ab' in Text(Tag('em', 'a'), 'b')` is false.  (For `in` / `startswith` / `endswith`
the doc-strings and the test-suite pin this; `split` inherits it.)  This is why `C08_split` is
stated for one-character separators and white space, and `C08_prefix_suffix_contains` as soundness. -/
theorem C08_partwise_neg :
    (split (.lit ',' [' ']) (build (.node .text [.str "a,".toList, .node (.tag "em".toList) [.str " b".toList]])) none).map toStr
      = ["a, b".toList] ∧
    strSplit (.lit ',' [' ']) "a, b".toList = ["a".toList, "b".toList] ∧
    contains "ab".toList (build (.node .text [.node (.tag "em".toList) [.str "a".toList], .str "b".toList])) = false ∧
    isInfix "ab".toList (toStr (build (.node .text [.node (.tag "em".toList) [.str "a".toList], .str "b".toList]))) = true := by
  decide +kernel

/-- **isalpha.** True iff the text is non-empty and every pair is an alphabetic character
(a symbol never is). -/
theorem C08_isalpha (t : RT) (h : Normal t = true) (ctx : List Markup) :
    isAlphaT t = Flat.isAlpha (sem ctx t) := isAlphaT_spec t ctx h

theorem C08_isalpha_nonvacuous :
    isAlphaT (build (.node .text [.str "ab".toList, .node (.tag "em".toList) [.str "C".toList]])) = true ∧
    isAlphaT (build (.node .text [.str "ab".toList, .sym "nbsp".toList])) = false := by decide +kernel

/-- **Rendering.** Rendering with the tracing backend (the public observation point) returns
exactly the string of pairs; with `C08_mk_sem`: what is rendered depends only on the denotation
of the tree the text was built from, never on grouping or nesting. -/
theorem C08_render (t : RT) :
    render traceBackend t = some (sem [] t) ∧ render traceBackend (build t) = some (sem [] t) :=
  ⟨render_trace t, by rw [render_trace, sem_build]⟩

/-- **Histories.** Any finite sequence of operations (`+` on either side, `append`, `join`,
slices, indices – including the ones that raise –, `upper`, `lower`, `capfirst`, `capitalize`,
`add_period`, `split()` at white space or at a one-character separator followed by the choice
of a piece), applied on top of one another to an object, yields step by step exactly the abstract values obtained by
running the corresponding list operations on the string of pairs. -/
theorem C08_history (t : RT) (ht : Normal t = true) (ops : List Op)
    (hops : ∀ op ∈ ops, op.OperandsNormal = true ∧ op.Covered = true) :
    (run Gen.terminators t ops).map (Except.map abs)
      = Abs.run Gen.terminators (abs t) (ops.map Op.abs) :=
  run_abs Gen.terminators C08_tables.1 ops t ht hops

/-- a non-trivial history satisfying the hypotheses (with a slice whose stop precedes its start,
an index out of range and a split): the texts after each step are
`AB CD,E`, `B CD,`, (IndexError), `B CD,x`, `B CD`, ``, `` -/
theorem C08_history_nonvacuous :
    Normal (build (.node .text [.str "ab ".toList, .node (.tag "em".toList) [.str "cd,e".toList]])) = true ∧
    ([Op.upper, .slice (some 1) (some (-1)), .index 9, .append (.str "x".toList),
      .splitPick (.lit ',' []) none 0, .slice (some 3) (some 1), .addPeriod].all
        fun op => op.OperandsNormal && op.Covered) = true ∧
    (run Gen.terminators (build (.node .text [.str "ab ".toList, .node (.tag "em".toList) [.str "cd,e".toList]]))
      [.upper, .slice (some 1) (some (-1)), .index 9, .append (.str "x".toList),
       .splitPick (.lit ',' []) none 0, .slice (some 3) (some 1), .addPeriod]).map
        (fun r => match r with | .ok x => some (toStr x) | .error _ => none)
      = [some "AB CD,E".toList, some "B CD,".toList, none, some "B CD,x".toList,
         some "B CD".toList, some [], some []] := by decide +kernel

end Pybtex.Props
