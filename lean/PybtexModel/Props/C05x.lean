/-
C05 — citation resolution, second file of property theorems: the constructor path, the Python
engine's `format_bibliography` on a GIVEN database (incl. `citations=None`), the entry points'
defaults, `min_crossrefs ≤ 1`, and the domain on which the models' ASCII key folding is Python's
`str.lower()`.  Model: `Model/CitationsX.lean`; helper lemmas: `Lemmas/CitationsX.lean`.
-/
import PybtexModel.Props.C05
import PybtexModel.Lemmas.CitationsX
import PybtexModel.Lemmas.ReadWhole

namespace Pybtex.Props
open Pybtex Spec
open C05Ex

/-- [tie to the source] The constants the hand-written model and specification use are the ones
`harness/tablegen/c05.py` reads from /repo on every run: the cross-reference field, the wildcard,
the defaults `citations=['*']` and one common `min_crossrefs` of the entry points, one wording of
the missing-entry report in both engines.  A change of any of them in /repo breaks this proof. -/
theorem C05_constants_tied :
    Pybtex.xrefName = Gen.C05.xrefField ∧ Pybtex.star = Gen.C05.wildcard ∧
    Spec.xrefName = Gen.C05.xrefField ∧ Spec.star = Gen.C05.wildcard ∧
    Gen.C05.pyEngineCitations = [Spec.star] ∧ Gen.C05.bibtexEngineCitations = [Spec.star] ∧
    Gen.C05.bibtexEngineMinCrossrefs = Gen.C05.pyEngineMinCrossrefs ∧
    Gen.C05.styleMinCrossrefs = Gen.C05.pyEngineMinCrossrefs ∧
    Gen.C05.dataMinCrossrefs = Gen.C05.pyEngineMinCrossrefs ∧
    Gen.C05.parserMinCrossrefs = Gen.C05.pyEngineMinCrossrefs ∧
    Gen.C05.msgMissingInterpreter.toList = Gen.C05.msgMissingStyle.toList := by decide

theorem C05_constants_tied_nonvacuous :
    -- the wording of the three reports, parameters substituted once (a key that looks like a placeholder stays)
    (Report.missingEntry "k{0}".toList).text = "missing database entry for \"k{0}\"".toList ∧
    (Report.repeated "a%s".toList).text = "repeated bibliography entry: a%s".toList ∧
    (Report.badCrossref "{crossref}".toList "p".toList).text =
      "bad cross-reference: entry \"{crossref}\" refers to entry \"p\" which does not exist.".toList := by decide

/-- The database `BibliographyData(entries, wanted_entries=w)` / `add_entries` builds from a
sequence of (key, entry) pairs is the database the `.bib` reader builds from a file with those
entries — same containers, same reports, same outcome: the reader's parse-time test
(`want_current_entry` / `SkipEntry`) decides nothing `add_entry` would not decide.  So every C05
theorem about reader-built databases is a theorem about constructor-built ones. -/
theorem C05_constructor_eq_reader (wanted : Option (List Str)) (file : List (Str × Entry)) :
    BibData.ofEntries wanted file = BibData.readFile wanted file :=
  addEntries_eq_readEntries file _

theorem C05_constructor_eq_reader_nonvacuous :
    (BibData.ofEntries (some (strs ["C1"])) exFile).map (fun r => (CIDict.iter r.1.entries, r.2)) = some (strs ["C1", "P"], []) ∧
    (BibData.ofEntries none (exFile ++ [mk "p" none])).map (fun r => (CIDict.iter r.1.entries, r.2)) =
      some (strs ["c1", "C2", "d", "x", "P"], [Report.repeated "p".toList]) := by decide

/-- `BaseStyle.format_bibliography(bib_data, citations)` on ANY well-formed database (read whole,
read filtered, or built by hand), any citation list, any threshold: it never ends in `KeyError`;
the entries it formats are exactly the resolved citations that have an entry, in order, each under
the DATABASE's spelling of its key (`entry.key`; equal to the resolved list up to case); it reports
exactly the dangling cross-references of the resolved list and then every resolved key without an
entry as missing. -/
theorem C05_format_bibliography_spec (db : BibData) (hdb : DbWF db) (citations : List Str) (minCrossrefs : Int) :
    let res := resolved db.toS citations minCrossrefs
    ∃ out, db.formatBibliography (some citations) minCrossrefs = some out ∧
      out.keys = (present db.toS res).filterMap (fun c => (find db.toS c).map (·.key)) ∧
      out.keys.map lower = (present db.toS res).map lower ∧
      out.reports = (dangling db.toS res).map (fun p => Report.badCrossref p.1 p.2) ++
        (missing db.toS res).map Report.missingEntry := by
  intro res
  have hs := C05_crossref_spec db hdb citations minCrossrefs
  have hrm := removeMissing_spec hdb res
  obtain ⟨es, hes, hk⟩ := lookupAll_present_exact hdb res
  obtain ⟨es', hes', hk'⟩ := lookupAll_present hdb res
  have hee : es' = es := Option.some.inj (hes'.symm.trans hes)
  subst hee
  refine ⟨⟨es'.map (·.key), (dangling db.toS res).map (fun p => Report.badCrossref p.1 p.2) ++
      (missing db.toS res).map Report.missingEntry⟩, ?_, hk, hk', rfl⟩
  simp only [BibData.formatBibliography, BibData.removeMissingPy, hs]
  show (match db.lookupAll (db.removeMissing res).1 with | none => none | some es => _) = _
  rw [hrm.1, hes, hrm.2]

theorem C05_format_bibliography_spec_nonvacuous :
    DbWF (readAllOf exFile) ∧
    -- cited as `C1`, `c2`; stored as `c1`, `C2`: the database's spelling is shown; `P` reaches the threshold; `nope` is missing
    (readAllOf exFile).formatBibliography (some (strs ["C1", "nope", "c2", "d"])) 2 =
      some ⟨strs ["c1", "C2", "d", "P"],
        [Report.badCrossref "d".toList "nowhere".toList, Report.missingEntry "nope".toList]⟩ := by decide

/-- `format_bibliography(bib_data)` without a citation list (`citations=None`) on any well-formed
database, any threshold: it is `format_bibliography(bib_data, ['*'])`; it formats EVERY entry of the
database, in database order, under the database's keys — also when an entry's key is `*` —, appends
nothing, reports no missing entry, and reports exactly the dangling cross-references of all entries. -/
theorem C05_none_is_whole_database (db : BibData) (hdb : DbWF db) (minCrossrefs : Int) :
    db.formatBibliography none minCrossrefs = db.formatBibliography (some [Pybtex.star]) minCrossrefs ∧
    db.formatBibliography none minCrossrefs =
      some ⟨CIDict.iter db.entries,
        (dangling db.toS (keys db.toS)).map (fun p => Report.badCrossref p.1 p.2)⟩ := by
  have hwf := toS_wf hdb
  have hit := iter_entries hdb
  have hE1 : db.expandWildcard (CIDict.iter db.entries) = CIDict.iter db.entries := by
    rw [expandWildcard_spec hdb, hit]; exact expanded_keys _ hwf
  have hE2 := (C05_wildcard_db_order db hdb [] [] (by simp)).2
  have h1 : db.formatBibliography none minCrossrefs = db.formatBibliography (some [Pybtex.star]) minCrossrefs := by
    simp only [BibData.formatBibliography, BibData.addExtraCitations, hE1, hE2]
  refine ⟨h1, ?_⟩
  obtain ⟨out, ho, hk, -, hr⟩ := C05_format_bibliography_spec db hdb (CIDict.iter db.entries) minCrossrefs
  have hdef : db.formatBibliography none minCrossrefs =
      db.formatBibliography (some (CIDict.iter db.entries)) minCrossrefs := rfl
  rw [hdef, ho]
  have hres : resolved db.toS (CIDict.iter db.entries) minCrossrefs = keys db.toS := by
    rw [hit]; unfold resolved; rw [expanded_keys _ hwf, extra_keys_nil, List.append_nil]
  rw [hres] at hk hr
  have hfm : ∀ l : List Str, (∀ k ∈ l, k ∈ keys db.toS) →
      l.filterMap (fun c => (find db.toS c).map (·.key)) = l ∧ present db.toS l = l ∧ missing db.toS l = [] := by
    intro l
    induction l with
    | nil => intro _; exact ⟨rfl, rfl, rfl⟩
    | cons a l ih =>
      intro h
      obtain ⟨i1, i2, i3⟩ := ih (fun k hk => h k (List.mem_cons_of_mem _ hk))
      have ha := find_key_of_mem hwf (h a (by simp))
      cases hf : find db.toS a with
      | none => simp [hf] at ha
      | some e =>
        unfold present at i2 ⊢
        unfold missing at i3 ⊢
        refine ⟨?_, ?_, ?_⟩
        · simp only [List.filterMap_cons, ha, i1]
        · simp only [List.filter_cons, hf, Option.isSome_some, if_true, i2]
        · simp only [List.filter_cons, hf, Option.isNone_some, Bool.false_eq_true, if_false, i3]
  obtain ⟨f1, f2, f3⟩ := hfm (keys db.toS) (fun _ h => h)
  rw [f2, f1] at hk
  rw [f3, List.map_nil, List.append_nil] at hr
  cases out with
  | mk ks rs =>
    simp only at hk hr
    rw [hk, hr, hit]

theorem C05_none_is_whole_database_nonvacuous :
    (readAllOf exFile).formatBibliography none 2 =
      some ⟨strs ["c1", "C2", "d", "x", "P"], [Report.badCrossref "d".toList "nowhere".toList]⟩ ∧
    -- an entry whose key is the wildcard
    (readAllOf [mk "a" none, mk "*" (some "a"), mk "b" none]).formatBibliography none 1 =
      some ⟨strs ["a", "*", "b"], []⟩ := by decide

/-- [model wiring] The Python engine is: read the files filtered by the citations, then
`format_bibliography(bib_data, citations)`; the reader's reports come first.  With
`C05_format_bibliography_spec` this gives the engine's keys in exact spelling: the stored key of
every resolved citation that has an entry. -/
theorem C05_python_engine_factors (file : List (Str × Entry)) (citations : List Str) (minCrossrefs : Int) :
    pythonEngine file citations minCrossrefs =
      (BibData.readFile (some citations) file).bind fun r =>
        (r.1.formatBibliography (some citations) minCrossrefs).map fun o => ⟨o.keys, r.2 ++ o.reports⟩ := by
  unfold pythonEngine BibData.formatBibliography
  cases BibData.readFile (some citations) file with
  | none => rfl
  | some r =>
    obtain ⟨db, rep⟩ := r
    simp only [Option.bind_some]
    cases db.lookupAll (db.removeMissingPy (db.addExtraCitations citations minCrossrefs).1).1 with
    | none => rfl
    | some es => simp [List.append_assoc]

/-- Reading a file WHOLE (`wanted_entries=None`), every file of well-formed entries: it never raises;
the database is the specification's `readAll` of the file — the FIRST entry of every key (up to
case) in file order, under the key as spelled there —; and exactly the later entries whose key is
already there are reported as repeated, in file order.  (The reference values `db` / `repeated` of
the check's clause `read_first_wins` are these.) -/
theorem C05_read_whole_first_wins (file : List (Str × Entry)) (hf : ∀ p ∈ file, EntryWF p.2) :
    ∃ db, BibData.readFile none file =
        some (db, (repeatedFrom [] (file.map rawToS)).map Report.repeated) ∧
      DbWF db ∧ db.toS = readAll (file.map rawToS) :=
  readFile_none_spec file hf

theorem C05_read_whole_first_wins_nonvacuous :
    let file := [mkv "a" "v1" none, mkv "B" "v2" (some "A"), mkv "A" "v3" none, mkv "b" "v4" none]
    (∀ p ∈ file, EntryWF p.2) ∧
    keys (readAll (file.map rawToS)) = strs ["a", "B"] ∧
    repeatedFrom [] (file.map rawToS) = strs ["A", "b"] ∧
    (BibData.readFile none file).map (fun r => (CIDict.iter r.1.entries, r.2)) =
      some (strs ["a", "B"], [Report.repeated "A".toList, Report.repeated "b".toList]) ∧
    noteOf (BibData.readFile none file) "A" = some "v1".toList := by decide

/-- "Reading everything and selecting afterwards", from the FILE to the formatted entries, with no
hypothesis on the database: for every file of well-formed entries, citation list and threshold,
`style.format_bibliography(parse(file), citations)` never raises, formats exactly the resolved
citations — resolved against `readAll file` — that have an entry, in order, each under the spelling
of the first entry of that key in the file, and reports the dangling cross-references of the
resolved list, then the resolved keys without an entry. -/
theorem C05_style_whole_spec (file : List (Str × Entry)) (hf : ∀ p ∈ file, EntryWF p.2)
    (citations : List Str) (minCrossrefs : Int) :
    let sdb := readAll (file.map rawToS)
    let res := resolved sdb citations minCrossrefs
    ∃ out, styleWhole file (some citations) minCrossrefs = some out ∧
      out.keys = (present sdb res).filterMap (fun c => (find sdb c).map (·.key)) ∧
      out.keys.map lower = (present sdb res).map lower ∧
      out.reports = (dangling sdb res).map (fun p => Report.badCrossref p.1 p.2) ++
        (missing sdb res).map Report.missingEntry := by
  intro sdb res
  obtain ⟨db, hr, hdb, ht⟩ := readFile_none_spec file hf
  obtain ⟨out, ho, h1, h2, h3⟩ := C05_format_bibliography_spec db hdb citations minCrossrefs
  rw [ht] at h1 h2 h3
  exact ⟨out, by simp only [styleWhole, hr, ho], h1, h2, h3⟩

theorem C05_style_whole_spec_nonvacuous :
    styleWhole exFile (some (strs ["C1", "nope", "c2"])) 2 =
      some ⟨strs ["c1", "C2", "P"], [Report.missingEntry "nope".toList]⟩ ∧
    styleWhole exFile none 2 =
      some ⟨strs ["c1", "C2", "d", "x", "P"], [Report.badCrossref "d".toList "nowhere".toList]⟩ := by decide

/-- `min_crossrefs ≤ 1` behaves as 1 (a threshold of 0 or below does not append unreferenced entries). -/
theorem C05_min_crossrefs_floor (db : BibData) (hdb : DbWF db) (citations : List Str) (minCrossrefs : Int)
    (hm : minCrossrefs ≤ 1) :
    db.addExtraCitations citations minCrossrefs = db.addExtraCitations citations 1 := by
  rw [C05_crossref_spec db hdb, C05_crossref_spec db hdb]
  simp only [resolved, extra, extraFrom_floor _ minCrossrefs hm]

theorem C05_min_crossrefs_floor_nonvacuous :
    (readAllOf exFile).addExtraCitations (strs ["c1"]) (-3) = (strs ["c1", "P"], []) ∧
    (readAllOf exFile).addExtraCitations (strs ["c1"]) 0 = (strs ["c1", "P"], []) ∧
    (readAllOf exFile).addExtraCitations (strs ["c1"]) 2 = (strs ["c1"], []) := by decide

/-- Key folding, PARTIAL: on every key in `foldDomain` — all ASCII strings, and all strings whose
non-ASCII characters `str.lower()` leaves alone (ß, ς, ŉ, ǰ, ﬁ, é, Cyrillic lower case, CJK …) — the
ASCII folding `lower` of the C05 models and specification IS Python's `str.lower()` (`lowerPy`, the
model of CPython's `do_lower` over the interpreter's regenerated tables), so "equal up to case" in
every C05 theorem is Python's notion there.  Outside the domain it is not: `C05_fold_neg`. -/
theorem C05_fold_is_python_lower_partial (k : Str) (h : foldDomain k = true) : lower k = lowerPy k :=
  (lowerPyAux_of_foldDomain k h []).symm

/-- every ASCII key is in the domain -/
theorem C05_fold_ascii (k : Str) (h : ∀ c ∈ k, c.toNat < 128) : foldDomain k = true := by
  unfold foldDomain
  rw [List.all_eq_true]
  exact fun c hc => foldDomainC_ascii c (h c hc)

theorem C05_fold_is_python_lower_partial_nonvacuous :
    foldDomain "WEIß2004".toList = true ∧ lower "WEIß2004".toList = "weiß2004".toList ∧
    foldDomain "ﬁX-ς1ŉǰ".toList = true ∧ foldDomain "Жук".toList = false ∧
    keq "Straße".toList "STRAßE".toList = true := by decide +kernel

/-- witness: a non-ASCII capital letter is folded by Python and not by the models (keys with such
characters are outside the modelled domain; the generators keep them out) -/
theorem C05_fold_neg :
    foldDomain "É".toList = false ∧ lower "É".toList ≠ lowerPy "É".toList ∧
    lowerPy "É".toList = "é".toList := by decide +kernel

end Pybtex.Props
