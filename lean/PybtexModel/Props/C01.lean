import PybtexModel.Model.Basic
namespace Pybtex.Props
end Pybtex.Props
