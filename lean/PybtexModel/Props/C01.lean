/-
C01 — BibTeX (.bib) parsing is faithful and independent of surface syntax.

Property theorems only.  The model of the reader is `Model/BibParse.lean`, the reference notions
(abstract documents `ADoc`, the denotation `denote`, layouts and `render`, the well-formedness
predicate `WF`) are in `Spec/Bib.lean`, the printer/parser lemmas in `Lemmas/BibRoundTrip.lean`
and `Lemmas/BibProcess.lean`.

The resulting line number is quantified existentially: no error is reported on a well-formed
document, so it is not observable here (line numbers are the subject of C10).
-/
import PybtexModel.Lemmas.BibRoundTrip

namespace Pybtex.Props
open Pybtex Pybtex.Bib Pybtex.BibSpec

/-! ### the example used by the non-vacuity instances: both delimiters, a
macro # literal # month concatenation, quoted / braced / bare-number literals, an author field,
`@string`, `@preamble`, `@comment`, junk, CR / LF / CRLF / TAB white space, case masks -/

def c01Doc : ADoc := [
  .junk "free text, = { } \" #\n".toList,
  .strdef "JV".toList [.lit "Journal of ".toList, .lit "V".toList],
  .preamble [.lit "\\newcommand{\\x}{y} ".toList, .macro "feb".toList],
  .comment "ignored text".toList,
  .entry "Article".toList "Key1".toList [
     ("Title".toList, [.lit "A  {B} c".toList]),
     ("journal".toList, [.macro "jv".toList, .lit " x ".toList, .macro "jan".toList]),
     ("year".toList, [.lit "1993".toList]),
     ("AUTHOR".toList, [.lit "Knuth, Donald E. and Leslie Lamport".toList])],
  .entry "misc".toList "k)".toList [("note".toList, [.lit "q {\"} q".toList])]]

def c01Layout : Layout := [
  {},
  { paren := true, afterAt := " ".toList, mask := [.up, .low, .up], beforeOpen := "\n".toList,
    afterOpen := "\r\n".toList, nameMask := [.low], beforeEq := "\t".toList, afterEq := " ".toList,
    pieces := [{ spelling := .quoted }, { spelling := .braced, beforeHash := " ".toList, afterHash := "\r".toList }],
    afterValue := "\n".toList, afterClose := "\n\n".toList },
  { mask := [.up], pieces := [{}, { mask := [.up, .keep, .up], beforeHash := " ".toList }],
    afterClose := "\n".toList },
  { paren := true, mask := [.keep, .up], afterClose := "\n".toList },
  { afterOpen := " ".toList, mask := [.low, .up], afterKey := " ".toList,
    fields := [
      { beforeName := "\n  ".toList, mask := [.low], beforeEq := " ".toList, afterEq := " ".toList,
        pieces := [{ spelling := .quoted }] },
      { beforeName := "\r\n  ".toList, mask := [.up, .up],
        pieces := [{ mask := [.up] }, { spelling := .quoted, beforeHash := " ".toList, afterHash := " ".toList },
                   { mask := [.keep, .up], afterHash := "\t".toList }],
        afterValue := " ".toList },
      { beforeName := "\n".toList, pieces := [{ spelling := .bare }] },
      { beforeName := " ".toList, afterEq := " ".toList, pieces := [{}], afterValue := "\n".toList }],
    trailing := true, afterTrailing := "\n".toList, afterClose := "\n".toList },
  { paren := true, fields := [{ beforeName := " ".toList, pieces := [{}] }] }]

/- The example renders to (checked by evaluation; CR shown as \r):
free text, = { } " #
@ StRing
(\r
jV	= "Journal of " #\r{V}
)

@Preamble{{\newcommand{\x}{y} } #FeB}
@cOmment(ignored text)
@aRticle{ Key1 ,
  title = "A  {B} c",\r
  JOurnal=Jv # " x "#	jAn ,
year=1993, AUTHOR= {Knuth, Donald E. and Leslie Lamport}
,
}
@misc(k), note={q {"} q})
-/

theorem c01_example_wf : WF c01Doc c01Layout := by decide +kernel

/-! ### stage 2: values -/

/-- **Value round trip.**  Let `v` be a well-formed value under the piece layouts `ls` (literals
brace-balanced with nesting ≤ 100, quoted spelling only without a level-0 `"`, bare spelling only
for non-empty digit strings, macro names NAMEs defined in `m`; any case mask on macro names, any
white space around `#`).  If the reader's macro dictionary implements the table `m` and the input
is the rendering of `v` followed by white space `w` and a character `c` that is neither white
space nor `#`, such that what follows the rendering does not start with a NAME character
(`,` `}` `)` qualify, with or without white space in front), then `parseValue` succeeds, consumes
exactly the rendering and `w`, stores the expanded pieces (literal text / macro value looked up
case-insensitively) and changes nothing else: in particular nothing is reported. -/
theorem C01_value_roundtrip (m : Macros) (v : Value) (ls : List PieceLayout) (s : St)
    (w : Str) (c : Char) (r : Str)
    (hs : s.rest = renderValue v ls ++ (w ++ c :: r))
    (hv : valueOk m v ls = true)
    (hm : CIDict.Inv s.macros ∧ CIDict.abs s.macros = m)
    (hw : wsOk w = true) (hc : isWs c = false) (hc' : c ≠ '#')
    (hn : ∀ x ∈ (w ++ c :: r).head?, isNameChar x = false) :
    ∃ ln', parseValue s =
      .ok () { s with rest := c :: r, ln := ln', curValue := expandPieces m v } :=
  BibRT.parseValue_value m v ls s [] w c r (by simpa using hs) BibRT.AllWs.nil hv hm
    (BibRT.allWs_of_wsOk hw) hc hc' hn

/-- instance: `Jv # " x "#\tjAn ,` in a state whose macro table is the months plus `jv` -/
theorem C01_value_roundtrip_nonvacuous :
    let m : Macros := OMap.set initMacros "JV".toList "Journal of V".toList
    let v : Value := [.macro "jv".toList, .lit " x ".toList, .macro "jan".toList]
    let ls : List PieceLayout := [{ mask := [.up] },
      { spelling := .quoted, beforeHash := " ".toList, afterHash := " ".toList },
      { mask := [.keep, .up], afterHash := "\t".toList }]
    renderValue v ls = "Jv # \" x \"#\tjAn".toList ∧ valueOk m v ls = true ∧
    wsOk " ".toList = true ∧ isWs ',' = false ∧ ',' ≠ '#' ∧
    (∀ x ∈ (" ".toList ++ ',' :: "\n}".toList).head?, isNameChar x = false) ∧
    expandPieces m v = ["Journal of V".toList, " x ".toList, "January".toList] := by
  refine ⟨by decide +kernel, by decide +kernel, by decide +kernel, by decide +kernel, by decide +kernel,
    ?_, by decide +kernel⟩
  intro x hx
  cases hx
  decide +kernel

end Pybtex.Props
