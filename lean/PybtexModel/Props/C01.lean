/-
C01 — BibTeX (.bib) parsing is faithful and independent of surface syntax.

Property theorems only.  The model of the reader is `Model/BibParse.lean`, the reference notions
(abstract documents `ADoc`, the denotation `denote`, layouts and `render`, the well-formedness
predicate `WF`, and for documents that may repeat field names and keys `WFD`, `denoteD`,
`reports`) are in `Spec/Bib.lean`, the printer/parser lemmas in `Lemmas/BibRoundTrip.lean`,
`Lemmas/BibProcess.lean` and (strict mode from continue mode) `Lemmas/BibBefore.lean`.

The resulting line number is quantified existentially: no error is reported on a well-formed
document, so it is not observable here (line numbers are the subject of C10).
-/
import PybtexModel.Lemmas.BibRoundTrip
import PybtexModel.Lemmas.BibBefore
import PybtexModel.Lemmas.BibNorm
import PybtexModel.Lemmas.UniCase
import PybtexModel.Lemmas.BibSplitPoints

namespace Pybtex.Props
open Pybtex Pybtex.Bib Pybtex.BibSpec

/-! ### the example used by the non-vacuity instances: both delimiters, a
macro # literal # month concatenation, quoted / braced / bare-number literals, an author field,
`@string`, `@preamble`, `@comment`, junk, CR / LF / CRLF / TAB white space, case masks, and two
field-less entries: one without the comma (`@x{k3}`) and one with it (`@x(k4 , )`) -/

def c01Doc : ADoc := [
  .junk "free text, = { } \" #\n".toList,
  .strdef "JV".toList [.lit "Journal of ".toList, .lit "V".toList],
  .preamble [.lit "\\newcommand{\\x}{y} ".toList, .macro "feb".toList],
  .comment "ignored text".toList,
  .entry "Article".toList "Key1".toList [
     ("Title".toList, [.lit "A  {B} c".toList]),
     ("journal".toList, [.macro "jv".toList, .lit " x ".toList, .macro "jan".toList]),
     ("year".toList, [.lit "1993".toList]),
     ("AUTHOR".toList, [.lit "Knuth, Donald E. and Leslie Lamport".toList])],
  .entry "misc".toList "k)".toList [("note".toList, [.lit "q {\"} q".toList])],
  .entry "x".toList "k3".toList [],
  .entry "x".toList "k4".toList []]

def c01Layout : Layout := [
  {},
  { paren := true, afterAt := " ".toList, mask := [.up, .low, .up], beforeOpen := "\n".toList,
    afterOpen := "\r\n".toList, nameMask := [.low], beforeEq := "\t".toList, afterEq := " ".toList,
    pieces := [{ spelling := .quoted }, { spelling := .braced, beforeHash := " ".toList, afterHash := "\r".toList }],
    afterValue := "\n".toList, afterClose := "\n\n".toList },
  { mask := [.up], pieces := [{}, { mask := [.up, .keep, .up], beforeHash := " ".toList }],
    afterClose := "\n".toList },
  { paren := true, mask := [.keep, .up], afterClose := "\n".toList },
  { afterOpen := " ".toList, mask := [.low, .up], afterKey := " ".toList,
    fields := [
      { beforeName := "\n  ".toList, mask := [.low], beforeEq := " ".toList, afterEq := " ".toList,
        pieces := [{ spelling := .quoted }] },
      { beforeName := "\r\n  ".toList, mask := [.up, .up],
        pieces := [{ mask := [.up] }, { spelling := .quoted, beforeHash := " ".toList, afterHash := " ".toList },
                   { mask := [.keep, .up], afterHash := "\t".toList }],
        afterValue := " ".toList },
      { beforeName := "\n".toList, pieces := [{ spelling := .bare }] },
      { beforeName := " ".toList, afterEq := " ".toList, pieces := [{}], afterValue := "\n".toList }],
    trailing := true, afterTrailing := "\n".toList, afterClose := "\n".toList },
  { paren := true, fields := [{ beforeName := " ".toList, pieces := [{}] }], afterClose := "\n".toList },
  { afterClose := "\n".toList },
  { paren := true, afterKey := " ".toList, trailing := true, afterTrailing := " ".toList }]

/- The example renders to (checked by evaluation; CR shown as \r):
free text, = { } " #
@ StRing
(\r
jV	= "Journal of " #\r{V}
)

@Preamble{{\newcommand{\x}{y} } #FeB}
@cOmment(ignored text)
@aRticle{ Key1 ,
  title = "A  {B} c",\r
  JOurnal=Jv # " x "#	jAn ,
year=1993, AUTHOR= {Knuth, Donald E. and Leslie Lamport}
,
}
@misc(k), note={q {"} q})
@x{k3}
@x(k4 , )
-/

/-! ### stage 2: values -/

/-- **Value round trip.**  Let `v` be a well-formed value under the piece layouts `ls` (literals
brace-balanced with nesting ≤ 100, quoted spelling only without a level-0 `"`, bare spelling only
for non-empty digit strings, macro names NAMEs defined in `m`; any case mask on macro names, any
white space around `#`).  If the reader's macro dictionary agrees with the table `m` on every
lookup and the input
is the rendering of `v` followed by white space `w` and a character `c` that is neither white
space nor `#`, such that what follows the rendering does not start with a NAME character
(`,` `}` `)` qualify, with or without white space in front), then `parseValue` succeeds, consumes
exactly the rendering and `w`, stores the expanded pieces (literal text / macro value looked up
case-insensitively) and changes nothing else: in particular nothing is reported. -/
theorem C01_value_roundtrip (m : Macros) (v : Value) (ls : List PieceLayout) (s : St)
    (w : Str) (c : Char) (r : Str)
    (hs : s.rest = renderValue v ls ++ (w ++ c :: r))
    (hv : valueOk m v ls = true)
    (hm : ∀ k, s.macros.getItem k = OMap.get m k)
    (hw : wsOk w = true) (hc : isWs c = false) (hc' : c ≠ '#')
    (hn : ∀ x ∈ (w ++ c :: r).head?, isNameChar x = false) :
    ∃ ln', parseValue s =
      .ok () { s with rest := c :: r, ln := ln', curValue := expandPieces m v } :=
  BibRT.parseValue_value m v ls s [] w c r (by simpa using hs) BibRT.AllWs.nil hv hm
    (BibRT.allWs_of_wsOk hw) hc hc' hn

/-- instance: `Jv # " x "#\tjAn ,` in a state whose macro table is the months plus `jv` -/
theorem C01_value_roundtrip_nonvacuous :
    let m : Macros := OMap.set initMacros "JV".toList "Journal of V".toList
    let v : Value := [.macro "jv".toList, .lit " x ".toList, .macro "jan".toList]
    let ls : List PieceLayout := [{ mask := [.up] },
      { spelling := .quoted, beforeHash := " ".toList, afterHash := " ".toList },
      { mask := [.keep, .up], afterHash := "\t".toList }]
    renderValue v ls = "Jv # \" x \"#\tjAn".toList ∧ valueOk m v ls = true ∧
    wsOk " ".toList = true ∧ isWs ',' = false ∧ ',' ≠ '#' ∧
    (∀ x ∈ (" ".toList ++ ',' :: "\n}".toList).head?, isNameChar x = false) ∧
    expandPieces m v = ["Journal of V".toList, " x ".toList, "January".toList] := by
  refine ⟨by decide +kernel, by decide +kernel, by decide +kernel, by decide +kernel, by decide +kernel,
    ?_, by decide +kernel⟩
  intro x hx
  cases hx
  decide +kernel

/-! ### stage 3: fields and commands -/

/-- **Field round trip.**  A rendered field `ws name ws = ws value ws` (any case mask on the name)
followed by a character that is not white space, not `#` and not a NAME character (`,` or the
closing delimiter) is read back by `parseField` as the name *as written* and the expanded pieces
of the value; exactly the rendering is consumed and nothing else changes (no report). -/
theorem C01_field_roundtrip (m : Macros) (f : Str × Value) (l : FieldLayout) (s : St) (c : Char) (r : Str)
    (hs : s.rest = renderField f l ++ c :: r)
    (hn : isName f.1 = true) (hv : valueOk m f.2 l.pieces = true)
    (hw : wsOk l.beforeName = true ∧ wsOk l.beforeEq = true ∧ wsOk l.afterEq = true ∧ wsOk l.afterValue = true)
    (hm : ∀ k, s.macros.getItem k = OMap.get m k)
    (hc : isWs c = false ∧ c ≠ '#' ∧ isNameChar c = false) :
    ∃ ln', parseField s = .ok ()
      { s with rest := c :: r, ln := ln', curFieldName := some (applyMask f.1 l.mask),
               curValue := expandPieces m f.2 } :=
  BibRT.parseField_field m f l s c r hs hn hv hw.1 hw.2.1 hw.2.2.1 hw.2.2.2 hm ⟨hc.1, hc.2.1, hc.2.2⟩

theorem C01_field_roundtrip_nonvacuous :
    let f : Str × Value := ("journal".toList, [.macro "jan".toList, .lit "1".toList])
    let l : FieldLayout :=
      { beforeName := "\r\n  ".toList, mask := [.up, .up], afterEq := "\t".toList,
        pieces := [{ mask := [.up] }, { spelling := .bare, beforeHash := " ".toList }], afterValue := " ".toList }
    renderField f l = "\r\n  JOurnal=\tJan #1 ".toList ∧ isName f.1 = true ∧
    valueOk initMacros f.2 l.pieces = true ∧
    (wsOk l.beforeName = true ∧ wsOk l.beforeEq = true ∧ wsOk l.afterEq = true ∧ wsOk l.afterValue = true) ∧
    (isWs '}' = false ∧ '}' ≠ '#' ∧ isNameChar '}' = false) := by
  decide +kernel

/-- **Entry round trip.**  For a well-formed entry under a command layout (`cmdOk`: type a NAME
other than string/preamble/comment, scannable key, well-formed fields, white space only where
white space is rendered), `parseCommand` started right behind the `@` of the rendering returns
`Cmd.entry` with the type and the field names as written, the key, and for every field the
expanded pieces of its value, in source order; it consumes exactly the rendering up to and
including the closing delimiter (whatever delimiter pair, value spellings, case masks, white
space and trailing comma the layout chooses) and reports nothing. -/
theorem C01_entry_roundtrip (m : Macros) (keys : List Str) (ty key : Str) (fs : List (Str × Value))
    (l : CmdLayout) (s : St) (r : Str)
    (hs : '@' :: s.rest = renderCmd (.entry ty key fs) l ++ r)
    (hok : cmdOk m keys (.entry ty key fs) l = true)
    (hm : ∀ k, s.macros.getItem k = OMap.get m k) (hwant : s.db.wanted = none) :
    ∃ ln' fn cv, parseCommand s =
      .ok (Cmd.entry (applyMask ty l.mask) (some key)
            ((writtenFields fs l.fields).map fun f => (f.1, expandPieces m f.2)))
        { s with rest := l.afterClose ++ r, ln := ln', curKey := some key,
                 curFields := (writtenFields fs l.fields).map fun f => (f.1, expandPieces m f.2),
                 curFieldName := fn, curValue := cv } :=
  BibRT.parseCommand_entry m keys ty key fs l s r hs hok hm hwant

/-- **`@string` round trip.**  The macro table is updated under the written name with the
expansion of the value; the command itself yields nothing. -/
theorem C01_string_roundtrip (m : Macros) (keys : List Str) (n : Str) (v : Value) (l : CmdLayout)
    (s : St) (r : Str)
    (hs : '@' :: s.rest = renderCmd (.strdef n v) l ++ r)
    (hok : cmdOk m keys (.strdef n v) l = true)
    (hm : ∀ k, s.macros.getItem k = OMap.get m k) :
    (∃ ln', parseCommand s = .ok Cmd.string
        { s with rest := l.afterClose ++ r, ln := ln', curKey := none, curFields := [],
                 curFieldName := some (applyMask n l.nameMask), curValue := expandPieces m v,
                 macros := s.macros.setItem (applyMask n l.nameMask) (expand m v) }) ∧
    (∀ k, (s.macros.setItem (applyMask n l.nameMask) (expand m v)).getItem k =
        OMap.get (stepMacros m (.strdef n v)) k) :=
  ⟨BibRT.parseCommand_strdef m keys n v l s r hs hok hm,
   BibRT.macRef_set hm (BibRT.lower_applyMask n l.nameMask) (expand m v)⟩

/-- **`@preamble` round trip.** -/
theorem C01_preamble_roundtrip (m : Macros) (keys : List Str) (v : Value) (l : CmdLayout)
    (s : St) (r : Str)
    (hs : '@' :: s.rest = renderCmd (.preamble v) l ++ r)
    (hok : cmdOk m keys (.preamble v) l = true)
    (hm : ∀ k, s.macros.getItem k = OMap.get m k) :
    ∃ ln', parseCommand s = .ok (Cmd.preamble (expandPieces m v))
        { s with rest := l.afterClose ++ r, ln := ln', curKey := none, curFields := [],
                 curFieldName := none, curValue := expandPieces m v } :=
  BibRT.parseCommand_preamble m keys v l s r hs hok hm

/-- **`@comment` is skipped**: `SkipEntry` right behind the opening delimiter; the `@`-free text,
the closing delimiter and the white space behind it are then passed over by the command loop
like any other junk (see `C01_faithful`). -/
theorem C01_comment_skipped (m : Macros) (keys : List Str) (txt : Str) (l : CmdLayout) (s : St) (r : Str)
    (hs : '@' :: s.rest = renderCmd (.comment txt) l ++ r)
    (hok : cmdOk m keys (.comment txt) l = true) :
    ∃ ln', parseCommand s = .fail .skip
        { s with rest := txt ++ closer l.paren :: (l.afterClose ++ r), ln := ln', curKey := none,
                 curFields := [], curFieldName := none, curValue := [] } :=
  BibRT.parseCommand_comment_cmd m keys txt l s r hs hok

/-! instances of the hypotheses of the four command theorems: the commands of the example document
are well-formed in the macro table / key set that precedes them (the equation on `s.rest` and the
agreement of the macro dictionary are met by choosing the state) -/

theorem C01_string_roundtrip_nonvacuous :
    cmdOk initMacros [] (c01Doc.getD 1 (.junk [])) (c01Layout.getD 1 {}) = true ∧
    renderCmd (c01Doc.getD 1 (.junk [])) (c01Layout.getD 1 {}) =
      "@ StRing\n(\r\njV\t= \"Journal of \" #\r{V}\n)\n\n".toList := by
  decide +kernel

theorem C01_preamble_roundtrip_nonvacuous :
    cmdOk (stepMacros initMacros (c01Doc.getD 1 (.junk []))) [] (c01Doc.getD 2 (.junk [])) (c01Layout.getD 2 {}) = true ∧
    renderCmd (c01Doc.getD 2 (.junk [])) (c01Layout.getD 2 {}) =
      "@Preamble{{\\newcommand{\\x}{y} } #FeB}\n".toList := by
  decide +kernel

theorem C01_comment_skipped_nonvacuous :
    cmdOk initMacros [] (c01Doc.getD 3 (.junk [])) (c01Layout.getD 3 {}) = true ∧
    renderCmd (c01Doc.getD 3 (.junk [])) (c01Layout.getD 3 {}) = "@cOmment(ignored text)\n".toList := by
  decide +kernel

theorem C01_entry_roundtrip_nonvacuous :
    let m1 := stepMacros initMacros (c01Doc.getD 1 (.junk []))
    cmdOk m1 [] (c01Doc.getD 4 (.junk [])) (c01Layout.getD 4 {}) = true ∧
    cmdOk m1 ["key1".toList] (c01Doc.getD 5 (.junk [])) (c01Layout.getD 5 {}) = true ∧
    renderCmd (c01Doc.getD 5 (.junk [])) (c01Layout.getD 5 {}) = "@misc(k), note={q {\"} q})\n".toList := by
  decide +kernel

/-- the two spellings of a field-less entry: without the comma (`trailing := false`) and with it;
in parentheses without the comma white space has to follow the key (`@x(k4)` would be read as
the key `k4)`: not well-formed, `bareKeyOk`) -/
theorem C01_entry_roundtrip_fieldless_nonvacuous :
    cmdOk initMacros [] (c01Doc.getD 6 (.junk [])) (c01Layout.getD 6 {}) = true ∧
    renderCmd (c01Doc.getD 6 (.junk [])) (c01Layout.getD 6 {}) = "@x{k3}\n".toList ∧
    cmdOk initMacros [] (c01Doc.getD 7 (.junk [])) (c01Layout.getD 7 {}) = true ∧
    renderCmd (c01Doc.getD 7 (.junk [])) (c01Layout.getD 7 {}) = "@x(k4 , )".toList ∧
    renderCmd (.entry "x".toList "k4".toList []) { paren := true, afterKey := " ".toList } = "@x(k4 )".toList ∧
    cmdOk initMacros [] (.entry "x".toList "k4".toList []) { paren := true, afterKey := " ".toList } = true ∧
    renderCmd (.entry "x".toList "k4".toList []) { paren := true } = "@x(k4)".toList ∧
    cmdOk initMacros [] (.entry "x".toList "k4".toList []) { paren := true } = false := by
  decide +kernel

/-! ### stage 4: whole documents -/

/-! the example for documents that repeat identifiers: a field named twice in different case
(`T` / `t`), a key used twice in different case (`Key` / `kEY`), a duplicate field inside the dropped
entry (`v`, written `V` by the layout's case mask, and `V`), and a field-less entry -/

def c01DupDoc : ADoc := [
  .entry "a".toList "Key".toList [
    ("T".toList, [.lit "1".toList]), ("t".toList, [.lit "2".toList]), ("u".toList, [.lit "3".toList])],
  .entry "b".toList "kEY".toList [("v".toList, [.lit "4".toList]), ("V".toList, [.lit "5".toList])],
  .entry "c".toList "other".toList []]

def c01DupLayout : Layout := [
  { fields := [{}, {}, {}], afterClose := "\n".toList },
  { fields := [{ mask := [.up] }, {}], afterClose := "\n".toList },
  {}]

/-- **Faithfulness, repeated identifiers included.**  `WFD d L` is `WF d L` without "no two entries
have the same key and no entry has two fields of the same name (up to case)".  For every such
document and layout, reading `render d L` without a wanted-set gives
(continue mode) no exception, exactly the reports `reports (written d L)` in document order — per
entry one `DuplicateField` report (entry key, field name as written, no line) for every field whose
name equals an earlier one of the entry up to case, then, if the key equals the key of an earlier
entry up to case, one `repeated bibliography entry` report — and exactly the database
`denoteD (written d L)`: the first entry of every key, each with the first field of every name;
(strict mode) the same result when there is nothing to report, and otherwise the first report is
raised. -/
theorem C01_faithful_dups (d : ADoc) (L : Layout) (h : WFD d L) :
    ((parseBib (render d L) false none).2 = none ∧
     (parseBib (render d L) false none).1.errs = reports (written d L) ∧
     (parseBib (render d L) false none).1.db =
       { entries := (denoteD (written d L)).entries, preamble := (denoteD (written d L)).preamble }) ∧
    (reports (written d L) = [] →
      (parseBib (render d L) true none).2 = none ∧
      (parseBib (render d L) true none).1.errs = [] ∧
      (parseBib (render d L) true none).1.db =
        { entries := (denoteD (written d L)).entries, preamble := (denoteD (written d L)).preamble }) ∧
    (∀ e tl, reports (written d L) = e :: tl → (parseBib (render d L) true none).2 = some e) := by
  refine ⟨?_, BibRT.parseBib_strictD d L h⟩
  obtain ⟨s', m', keys', h1, hinv⟩ := BibRT.parseBib_faithfulD d L false h (fun hs => by cases hs)
  rw [h1]
  exact ⟨rfl, hinv.errs, hinv.db_eq⟩

/-- the example is `WFD` but not `WF`; its rendering, its reports (the duplicate field of the
dropped entry comes before the report about its key), what it denotes, and the reader run on it -/
theorem C01_faithful_dups_nonvacuous :
    WFD c01DupDoc c01DupLayout ∧ ¬ WF c01DupDoc c01DupLayout ∧
    render c01DupDoc c01DupLayout = "@a{Key,T={1},t={2},u={3}}\n@b{kEY,V={4},V={5}}\n@c{other}".toList ∧
    reports (written c01DupDoc c01DupLayout) =
      [⟨.duplicateField "Key".toList "t".toList, none⟩, ⟨.duplicateField "kEY".toList "V".toList, none⟩,
       ⟨.repeatedEntry "kEY".toList, none⟩] ∧
    (denoteD (written c01DupDoc c01DupLayout)).entries.map (fun e => (e.key, e.origType, e.fields)) =
      [("Key".toList, "a".toList, [("T".toList, "1".toList), ("u".toList, "3".toList)]),
       ("other".toList, "c".toList, [])] ∧
    -- the reader evaluated on the rendering (what the theorem says about this instance)
    (parseBib (render c01DupDoc c01DupLayout) false none).1.errs = reports (written c01DupDoc c01DupLayout) ∧
    (parseBib (render c01DupDoc c01DupLayout) false none).1.db.entries.map (fun e => (e.key, e.fields)) =
      [("Key".toList, [("T".toList, "1".toList), ("u".toList, "3".toList)]), ("other".toList, [])] ∧
    (parseBib (render c01DupDoc c01DupLayout) true none).2 = some ⟨.duplicateField "Key".toList "t".toList, none⟩ := by
  decide +kernel

/-- **Faithfulness.**  For every abstract document `d` and every layout `L` with `WF d L`, reading
the text `render d L` (in either error mode, no wanted-set) raises nothing, reports nothing, and
yields exactly the database the document denotes, with the identifiers spelled as the layout
writes them (`written d L` applies the layout's case masks to entry types and field names, the
only identifiers a database stores): every entry with key, type, fields in source order (values
expanded, concatenated and white-space-normalised), persons split per role, and the preamble
list.  Junk, `@comment` blocks, the delimiter pair, literal spellings, macro-name case, white
space / line ends and trailing commas (also the comma of a field-less entry: `@a{k,}` / `@a{k}`) are
all chosen by `L` and do not appear in the result.
(A corollary of `C01_faithful_dups`: a `WF` document is `WFD`, gives nothing to report, and
`denoteD` agrees with `denote` on it.) -/
theorem C01_faithful (d : ADoc) (L : Layout) (strict : Bool) (h : WF d L) :
    (parseBib (render d L) strict none).2 = none ∧
    (parseBib (render d L) strict none).1.errs = [] ∧
    (parseBib (render d L) strict none).1.db =
      { entries := (denote (written d L)).entries, preamble := (denote (written d L)).preamble } := by
  obtain ⟨hD, hr, hden, _, _⟩ := BibRT.WF_spec d L h
  have hd := C01_faithful_dups d L hD
  cases strict with
  | false => have := hd.1; rw [hr, hden] at this; exact this
  | true => have := hd.2.1 hr; rw [hden] at this; exact this

theorem C01_faithful_nonvacuous : WF c01Doc c01Layout := by decide +kernel

/-- when the layout puts no case mask on entry types and field names the result is the denotation
of the document itself -/
theorem C01_faithful_plain (d : ADoc) (L : Layout) (strict : Bool) (h : WF d L) (hp : plainIds d L = true) :
    (parseBib (render d L) strict none).2 = none ∧
    (parseBib (render d L) strict none).1.errs = [] ∧
    (parseBib (render d L) strict none).1.db =
      { entries := (denote d).entries, preamble := (denote d).preamble } := by
  have := C01_faithful d L strict h
  rwa [BibRT.written_plain d L hp] at this

theorem C01_faithful_plain_nonvacuous :
    WF c01Doc [{}, {}, {}, {}, { fields := [{}, {}, {}, {}] }, { paren := true }] ∧
    plainIds c01Doc [{}, {}, {}, {}, { fields := [{}, {}, {}, {}] }, { paren := true }] = true ∧
    plainIds c01Doc c01Layout = false := by
  decide +kernel

/-- what the example denotes (as written): four entries, the preamble, the person list -/
theorem C01_faithful_example :
    (denote (written c01Doc c01Layout)).entries.map (fun e => (e.key, e.origType, e.type)) =
      [("Key1".toList, "aRticle".toList, "article".toList), ("k)".toList, "misc".toList, "misc".toList),
       ("k3".toList, "x".toList, "x".toList), ("k4".toList, "x".toList, "x".toList)] ∧
    (denote (written c01Doc c01Layout)).entries.map (·.fields) =
      [[("title".toList, "A {B} c".toList), ("JOurnal".toList, "Journal of V x January".toList),
        ("year".toList, "1993".toList)],
       [("note".toList, "q {\"} q".toList)], [], []] ∧
    (denote (written c01Doc c01Layout)).entries.map (fun e => e.persons.map fun r => (r.1, r.2.map Person.toStr)) =
      [[("AUTHOR".toList, ["Knuth, Donald E.".toList, "Lamport, Leslie".toList])], [], [], []] ∧
    (denote (written c01Doc c01Layout)).preamble = ["\\newcommand{\\x}{y} February".toList] := by
  decide +kernel

/-- **Layout independence.**  Two well-formed layouts of the same document give
(1) equal databases when they spell entry types and field names alike (`written` agrees) —
whatever they choose for delimiters, literal spellings, concatenation white space, macro-name
and keyword case, white space / line ends, trailing commas (junk and comments are part of `d`
and never reach the database: see (3));
(2) in general databases that differ only in the stored spelling of entry types, field names and
role names: equal after `ciEntry` (which lower-cases exactly those), with equal preambles; keys,
lower-cased types, values, persons and all orders coincide;
(3) and each agrees in this sense with the denotation of `d` itself, which does not depend on
the junk and comment commands of `d` at all (`denote` ignores them by definition). -/
theorem C01_layout_independent (d : ADoc) (L₁ L₂ : Layout) (strict₁ strict₂ : Bool)
    (h₁ : WF d L₁) (h₂ : WF d L₂) :
    (written d L₁ = written d L₂ →
      (parseBib (render d L₁) strict₁ none).1.db = (parseBib (render d L₂) strict₂ none).1.db) ∧
    ((parseBib (render d L₁) strict₁ none).1.db.entries.map ciEntry =
        (parseBib (render d L₂) strict₂ none).1.db.entries.map ciEntry ∧
      (parseBib (render d L₁) strict₁ none).1.db.preamble =
        (parseBib (render d L₂) strict₂ none).1.db.preamble) ∧
    ((parseBib (render d L₁) strict₁ none).1.db.entries.map ciEntry = (denote d).entries.map ciEntry ∧
      (parseBib (render d L₁) strict₁ none).1.db.preamble = (denote d).preamble) := by
  have f₁ := (C01_faithful d L₁ strict₁ h₁).2.2
  have f₂ := (C01_faithful d L₂ strict₂ h₂).2.2
  have w₁ := BibRT.denote_written d L₁
  have w₂ := BibRT.denote_written d L₂
  refine ⟨fun hw => by rw [f₁, f₂, hw], ?_, ?_⟩
  · rw [f₁, f₂]; exact ⟨w₁.1.trans w₂.1.symm, w₁.2.trans w₂.2.symm⟩
  · rw [f₁]; exact w₁

/-- two different well-formed layouts of the example document (the second: all defaults except
what `WF` forces, i.e. braces, braced literals, no case masks, no white space) -/
theorem C01_layout_independent_nonvacuous :
    WF c01Doc c01Layout ∧ WF c01Doc [{}, {}, {}, {}, { fields := [{}, {}, {}, {}] }, { paren := true }] ∧
    written c01Doc c01Layout ≠ written c01Doc [{}, {}, {}, {}, { fields := [{}, {}, {}, {}] }, { paren := true }] := by
  decide +kernel

/-- **The comma of a field-less entry** (an instance of `C01_layout_independent` (1), stated for the
record): `@a{k,}` and `@a{k}` — two well-formed layouts of a document that differ in nothing but
the `trailing` choice (and the white space behind the comma) of its commands — give the same
database. -/
theorem C01_fieldless_comma_independent (d : ADoc) (L₁ L₂ : Layout) (strict₁ strict₂ : Bool)
    (h₁ : WF d L₁) (h₂ : WF d L₂)
    (hL : L₂.map (fun l => { l with trailing := false, afterTrailing := [] }) =
          L₁.map (fun l => { l with trailing := false, afterTrailing := [] })) :
    (parseBib (render d L₁) strict₁ none).1.db = (parseBib (render d L₂) strict₂ none).1.db := by
  refine (C01_layout_independent d L₁ L₂ strict₁ strict₂ h₁ h₂).1 ?_
  rw [← BibRT.written_noTrailing d L₁, ← BibRT.written_noTrailing d L₂, hL]

/-- the field-less entry `k3` of the example with and without the comma -/
theorem C01_fieldless_comma_independent_nonvacuous :
    let d : ADoc := [.entry "x".toList "k3".toList [], .entry "y".toList "k4".toList []]
    let L₁ : Layout := [{}, { paren := true, afterKey := " ".toList }]
    let L₂ : Layout := [{ trailing := true, afterTrailing := "\n".toList }, { paren := true, afterKey := " ".toList, trailing := true }]
    WF d L₁ ∧ WF d L₂ ∧ render d L₁ = "@x{k3}@y(k4 )".toList ∧ render d L₂ = "@x{k3,\n}@y(k4 ,)".toList ∧
    L₂.map (fun l => { l with trailing := false, afterTrailing := [] }) =
      L₁.map (fun l => { l with trailing := false, afterTrailing := [] }) := by
  decide +kernel

/-- **Junk and comments.**  Two well-formed renderings of two documents that differ only in their
junk and `@comment` commands (`stripJunk` removes both) give equal databases when the remaining
commands are spelled alike, and in general databases equal up to the stored spelling of types,
field names and role names. -/
theorem C01_junk_independent (d₁ d₂ : ADoc) (L₁ L₂ : Layout) (strict₁ strict₂ : Bool)
    (h₁ : WF d₁ L₁) (h₂ : WF d₂ L₂) :
    (stripJunk (written d₁ L₁) = stripJunk (written d₂ L₂) →
      (parseBib (render d₁ L₁) strict₁ none).1.db = (parseBib (render d₂ L₂) strict₂ none).1.db) ∧
    (stripJunk d₁ = stripJunk d₂ →
      (parseBib (render d₁ L₁) strict₁ none).1.db.entries.map ciEntry =
        (parseBib (render d₂ L₂) strict₂ none).1.db.entries.map ciEntry ∧
      (parseBib (render d₁ L₁) strict₁ none).1.db.preamble =
        (parseBib (render d₂ L₂) strict₂ none).1.db.preamble) := by
  have f₁ := (C01_faithful d₁ L₁ strict₁ h₁).2.2
  have f₂ := (C01_faithful d₂ L₂ strict₂ h₂).2.2
  refine ⟨fun hw => ?_, fun hs => ?_⟩
  · rw [f₁, f₂, ← BibRT.denote_stripJunk (written d₁ L₁), hw, BibRT.denote_stripJunk]
  · have w₁ := BibRT.denote_written d₁ L₁
    have w₂ := BibRT.denote_written d₂ L₂
    have e : denote d₁ = denote d₂ := by
      rw [← BibRT.denote_stripJunk d₁, hs, BibRT.denote_stripJunk]
    rw [f₁, f₂]
    exact ⟨by rw [w₁.1, w₂.1, e], by rw [w₁.2, w₂.2, e]⟩

/-- the example document and the same document without junk and comment, in different layouts -/
theorem C01_junk_independent_nonvacuous :
    WF c01Doc c01Layout ∧
    WF (stripJunk c01Doc) [{}, {}, { fields := [{}, {}, {}, {}] }, { paren := true }] ∧
    stripJunk c01Doc ≠ c01Doc ∧ stripJunk (stripJunk c01Doc) = stripJunk c01Doc := by
  decide +kernel

/-- **Identifiers.**  (1) Under `WF` the database is, in closed form, the list of the document's
entries as written (`entriesWith` pairs each with the macro table in force): key as written, type
as written (`origType`) and lower-cased (`type`), every non-person field under its name as written
in source order, every person role under its name as written (`entryOf`).
(2) Macro names are matched case-insensitively: a macro defined under one spelling is found
under every spelling equal up to case.
(3) Field names and keys are matched case-insensitively, document level: for every `WFD` document
(keys and field names may repeat) the reader (continue mode) reports exactly `reports` — a field
whose name equals an earlier one of the entry up to case: `DuplicateField`, dropped; an entry whose
key equals an earlier one up to case: `repeated bibliography entry`, dropped after its fields
were processed — and its entries are, in closed form, the FIRST entry command of every key
(`firstEntries`), each with the FIRST field of every name (`entryOfD` = `entryOf` on `firstFields`),
under the spellings written. -/
theorem C01_identifiers :
    (∀ (d : ADoc) (L : Layout) (strict : Bool), WF d L →
      (parseBib (render d L) strict none).1.db.entries =
        (entriesWith initMacros (written d L)).map entryOf) ∧
    (∀ (dict : CIDict Str) (n n' v : Str), lower n = lower n' → (dict.setItem n v).getItem n' = some v) ∧
    (∀ (d : ADoc) (L : Layout), WFD d L →
      (parseBib (render d L) false none).1.errs = reports (written d L) ∧
      (parseBib (render d L) false none).1.db.entries =
        (firstEntries [] (entriesWith initMacros (written d L))).map entryOfD) := by
  refine ⟨?_, ?_, ?_⟩
  · intro d L strict h
    rw [(C01_faithful d L strict h).2.2]
    exact BibRT.denote_entries d L h
  · intro dict n n' v h; exact BibRT.getItem_setItem_ci dict h v
  · intro d L h
    have hd := (C01_faithful_dups d L h).1
    refine ⟨hd.2.1, ?_⟩
    rw [hd.2.2]
    exact BibRT.denoteD_entries (written d L)

/-- concrete readings: a macro written in another case, a duplicate field and a repeated key
that differ in case only -/
theorem C01_identifiers_nonvacuous :
    ((parseBib "@string{AbC = \"x\"} @a{k, t = aBc # ABC}".toList false none).1.db.entries.map
        (fun e => (e.key, e.fields)) = [("k".toList, [("t".toList, "xx".toList)])]) ∧
    ((parseBib "@a{k, T = 1, t = 2}".toList false none).1.db.entries.map (fun e => (e.key, e.fields)) =
        [("k".toList, [("T".toList, "1".toList)])] ∧
     (parseBib "@a{k, T = 1, t = 2}".toList false none).1.errs =
        [⟨.duplicateField "k".toList "t".toList, none⟩]) ∧
    ((parseBib "@a{Key, t = 1} @b{kEY, t = 2}".toList false none).1.db.entries.map
        (fun e => (e.key, e.fields)) = [("Key".toList, [("t".toList, "1".toList)])] ∧
     (parseBib "@a{Key, t = 1} @b{kEY, t = 2}".toList false none).1.errs =
        [⟨.repeatedEntry "kEY".toList, none⟩]) := by
  decide +kernel

/-- **Months.**  The twelve names `jan … dec` of the regenerated table are defined before any
`@string`: in the state the reader starts from, every spelling `k` of a month name (any case)
is substituted by the table's value without a report, and the reference table `initMacros` used
by `denote` expands it to the same value. -/
theorem C01_months_predefined :
    Gen.monthMacros.map (·.1) = ["jan", "feb", "mar", "apr", "may", "jun", "jul", "aug", "sep", "oct",
      "nov", "dec"].map String.toList ∧
    ∀ p ∈ Gen.monthMacros, ∀ (k text : Str) (strict : Bool), lower k = lower p.1 →
      substituteMacro k { rest := text, macros := CIDict.ofPairs Gen.monthMacros, strict := strict } =
        .ok p.2 { rest := text, macros := CIDict.ofPairs Gen.monthMacros, strict := strict } ∧
      expandPiece initMacros (.macro k) = p.2 := by
  refine ⟨by decide, ?_⟩
  intro p hp k text strict hk
  have h1 : (CIDict.ofPairs Gen.monthMacros).getItem k = some p.2 := by
    rw [BibRT.getItem_lower _ hk]; exact BibRT.months_getItem p hp
  refine ⟨by simp only [substituteMacro, h1], ?_⟩
  have h2 := BibRT.macRef_init k
  rw [h1] at h2
  simp only [expandPiece, ← h2, Option.getD_some]

/-- the month macro in any case inside a document: `month = jAn` reads as `January` -/
theorem C01_months_predefined_nonvacuous :
    (parseBib "@a{k, month = jAn, m2 = DEC # \"-\" # feb}".toList false none).1.db.entries.map (·.fields) =
      [[("month".toList, "January".toList), ("m2".toList, "December-February".toList)]] ∧
    (parseBib "@a{k, month = jAn, m2 = DEC # \"-\" # feb}".toList false none).1.errs = [] := by
  decide +kernel

/-- **A month name can be redefined.**  `@string` overrides whatever the name stood for before —
the predefined month names included — for every later use, in any letter case, and leaves every
other name alone: in the table after `@string{n = v}` a macro `k` expands to the expansion of `v`
(in the table in force at the definition) if `k` equals `n` up to case, and to what it expanded to
before otherwise.  (`denote` threads this table through the document: `stepMacros`.) -/
theorem C01_months_redefinable (m : Macros) (n k : Str) (v : Value) :
    expandPiece (stepMacros m (.strdef n v)) (.macro k) =
      if lower n = lower k then expand m v else expandPiece m (.macro k) := by
  simp only [expandPiece, stepMacros, BibRT.omap_get_set]
  split <;> rfl

/-- `jan` redefined (written `JAN`) between two uses: the first use reads the predefined
`January`, every later one (any case) the new text; `feb` is untouched; nothing is reported -/
theorem C01_months_redefinable_nonvacuous :
    (parseBib "@a{k1, month = jan} @string{JAN = {Ja} # feb} @a{k2, month = Jan # \"-\" # jAN, m2 = feb}".toList
        false none).1.db.entries.map (·.fields) =
      [[("month".toList, "January".toList)],
       [("month".toList, "JaFebruary-JaFebruary".toList), ("m2".toList, "February".toList)]] ∧
    (parseBib "@a{k1, month = jan} @string{JAN = {Ja} # feb} @a{k2, month = Jan # \"-\" # jAN, m2 = feb}".toList
        false none).1.errs = [] ∧
    expandPiece (stepMacros initMacros (.strdef "JAN".toList [.lit "Ja".toList, .macro "feb".toList]))
      (.macro "jan".toList) = "JaFebruary".toList := by
  decide +kernel

/-- **Redefinition at the level of the READER** (`C01_months_redefinable` above is a law of the
reference table alone).  (1) For every well-formed document and layout, in either mode, the entries
the reader returns are the entry commands as written, each evaluated (`entryOf`: expansion,
concatenation, normalisation) in the macro table in force where it stands (`entriesWith`).
(2) That table, for every command after a `@string{n = v}`: the entries of `pre ++ @string{n = v} ::
post` are those of `pre` followed by those of `post` evaluated from the table in which `n` has been
set to the expansion of `v` in the table `T` reached after `pre` — so, by `C01_months_redefinable`,
every later use of `n` in any letter case reads the new text (a month name included) and every other
name reads what it read before, until a further `@string` changes it. -/
theorem C01_months_redefinable_reader :
    (∀ (d : ADoc) (L : Layout) (strict : Bool), WF d L →
      (parseBib (render d L) strict none).1.db.entries =
        (entriesWith initMacros (written d L)).map entryOf) ∧
    (∀ (m : Macros) (pre post : ADoc) (n : Str) (v : Value),
      entriesWith m (pre ++ .strdef n v :: post) =
        entriesWith m pre ++
          entriesWith (OMap.set (pre.foldl stepMacros m) n (expand (pre.foldl stepMacros m) v)) post) ∧
    (∀ (T : Macros) (n k : Str) (v : Value),
      expandPiece (OMap.set T n (expand T v)) (.macro k) =
        if lower n = lower k then expand T v else expandPiece T (.macro k)) := by
  refine ⟨C01_identifiers.1, ?_, fun T n k v => C01_months_redefinable T n k v⟩
  intro m pre
  induction pre generalizing m with
  | nil => intro post n v; simp [entriesWith, stepMacros]
  | cons c pre ih =>
    intro post n v
    cases c with
    | entry ty key fs => simp [entriesWith, stepMacros, ih]
    | strdef n' v' => simp [entriesWith, ih]
    | preamble v' => simp [entriesWith, stepMacros, ih]
    | comment t => simp [entriesWith, stepMacros, ih]
    | junk t => simp [entriesWith, stepMacros, ih]

/-- the document of `C01_months_redefinable_nonvacuous` as an abstract document: well formed, and its
second entry stands behind the `@string` -/
theorem C01_months_redefinable_reader_nonvacuous :
    let d : ADoc := [.entry "a".toList "k1".toList [("month".toList, [.macro "jan".toList])],
      .strdef "JAN".toList [.lit "Ja".toList, .macro "feb".toList],
      .entry "a".toList "k2".toList [("month".toList, [.macro "Jan".toList, .lit "-".toList, .macro "jAN".toList])]]
    WF d [] ∧
    ((entriesWith initMacros (written d [])).map entryOf).map (·.fields) =
      [[("month".toList, "January".toList)], [("month".toList, "JaFebruary-JaFebruary".toList)]] := by
  decide +kernel


/-! ### keys are matched up to `str.lower()`, the Unicode mapping -/

/-- **Key folding.**  Entry keys are the only identifiers of a `.bib` source that may contain
non-ASCII letters (entry types, field names and macro names are NAMEs).  The reader compares them
with `keyFold` = `str.lower()` character by character (`Model/UniCase.lean`, the interpreter's
table; U+0130 and U+03A3 are outside its domain): it is idempotent, coarser than the ASCII folding
used for all other identifiers, and equal to it on ASCII keys. -/
theorem C01_key_folding :
    (∀ k : Str, keyFold (keyFold k) = keyFold k) ∧
    (∀ a b : Str, lower a = lower b → keyFold a = keyFold b) ∧
    (∀ k : Str, (∀ c ∈ k, c.toNat < 128) → keyFold k = lower k) := by
  refine ⟨fun k => lowerU_idem k, fun a b h => lowerU_of_lower h, fun k hk => ?_⟩
  induction k with
  | nil => rfl
  | cons c r ih =>
    have h1 : lowerUC c = lowerC c := lowerUC_ascii c (hk c List.mem_cons_self)
    have h2 := ih (fun d hd => hk d (List.mem_cons_of_mem _ hd))
    simp only [keyFold, lowerU_cons, lower_cons] at h2 ⊢
    rw [h1, h2]

/-- keys that differ in the case of non-ASCII letters are one key (`Äb` / `äB`, `ǅ` / `ǆ`): the
second entry is reported and dropped (an instance of `C01_faithful_dups`); `ß` and `SS` are two keys -/
theorem C01_key_folding_nonvacuous :
    ((parseBib "@a{Äb, t = 1} @b{äB, t = 2} @c{ǅ} @c{ǆ}".toList false none).1.db.entries.map
        (fun e => (e.key, e.fields)) = [("Äb".toList, [("t".toList, "1".toList)]), ("ǅ".toList, [])] ∧
     (parseBib "@a{Äb, t = 1} @b{äB, t = 2} @c{ǅ} @c{ǆ}".toList false none).1.errs =
        [⟨.repeatedEntry "äB".toList, none⟩, ⟨.repeatedEntry "ǆ".toList, none⟩]) ∧
    ((parseBib "@a{ß} @a{SS} @a{ss}".toList false none).1.db.entries.map (·.key) = ["ß".toList, "SS".toList] ∧
     (parseBib "@a{ß} @a{SS} @a{ss}".toList false none).1.errs = [⟨.repeatedEntry "ss".toList, none⟩]) ∧
    keyFold "ÄB".toList ≠ lower "ÄB".toList := by
  decide +kernel


/-! ### the split points of a `#`-concatenation do not matter (`Lemmas/BibSplitPoints.lean`) -/

section SplitPoints
open Pybtex.BibRT (ValEq FieldEq CmdEq DocEq splitDoc₁ splitDoc₂ splitLayout₁ splitLayout₂ splitLayout₃)

/-- **What `ValEq` / `DocEq` hold of** (the hypothesis of the three theorems below is the SEMANTIC
relation "same expansion under every macro table", so those theorems are short corollaries of
`C01_faithful`; the content of "the split points do not matter" is in these rules).  Sufficient
conditions: a literal may be cut anywhere; an empty literal may be inserted or dropped; any cutting
of a literal text at once; macro names may differ in letter case; the relation is a congruence for
`#` and an equivalence.  Necessary: a macro name is never exchangeable for a literal text (not even
the text it currently stands for).  No complete syntactic characterisation (iff) is proved. -/
theorem C01_split_point_rules :
    (∀ (a b : Str) (r : Value), ValEq (.lit (a ++ b) :: r) (.lit a :: .lit b :: r)) ∧
    (∀ r : Value, ValEq (.lit [] :: r) r) ∧
    (∀ (ss : List Str) (r : Value), ValEq (ss.map Piece.lit ++ r) (.lit ss.flatten :: r)) ∧
    (∀ (n n' : Str) (r : Value), lower n = lower n' → ValEq (.macro n :: r) (.macro n' :: r)) ∧
    (∀ v v' w w' : Value, ValEq v v' → ValEq w w' → ValEq (v ++ w) (v' ++ w')) ∧
    (∀ v : Value, ValEq v v) ∧ (∀ v w : Value, ValEq v w → ValEq w v) ∧
    (∀ u v w : Value, ValEq u v → ValEq v w → ValEq u w) ∧
    (∀ n s : Str, ¬ ValEq [.macro n] [.lit s]) := by
  refine ⟨BibRT.valEq_lit_split, BibRT.valEq_lit_nil, BibRT.valEq_lits, ?_, fun _ _ _ _ => BibRT.ValEq.append,
    BibRT.ValEq.refl, fun _ _ => BibRT.ValEq.symm, fun _ _ _ => BibRT.ValEq.trans, BibRT.not_valEq_macro_lit⟩
  intro n n' r h m
  simp only [BibRT.expand_cons, expandPiece, BibRT.omap_get_congr m h]

/-- **Independence of the split points of a value.**  `ValEq v w` says that two values expand to the
same text under every macro table, i.e. they consist of the same macro names in the same order with
the same literal text between them and differ at most in how that text is cut into `#`-pieces
(`valEq_lit_split`: a literal may be cut anywhere, `valEq_lit_nil`: an empty literal may be inserted
or dropped, `ValEq.append`: piecewise; a macro name is never exchanged for its text,
`not_valEq_macro_lit`).  `DocEq` relates two documents command by command: same kinds, types, keys,
field names (in the same order), macro names, comment and junk texts, and `ValEq` values.
If two well-formed renderings are `DocEq` as written (`written` applies the case masks of the layout
to entry types and field names), the reader returns the same database for both, in either error mode:
the choice of split points — together with everything the two layouts choose, which necessarily
differ since the values have different numbers of pieces — does not appear in the result. -/
theorem C01_split_point_independent (d₁ d₂ : ADoc) (L₁ L₂ : Layout) (strict₁ strict₂ : Bool)
    (h₁ : WF d₁ L₁) (h₂ : WF d₂ L₂) (he : DocEq (written d₁ L₁) (written d₂ L₂)) :
    (parseBib (render d₁ L₁) strict₁ none).1.db = (parseBib (render d₂ L₂) strict₂ none).1.db :=
  BibRT.split_point_independent d₁ d₂ L₁ L₂ strict₁ strict₂ h₁ h₂ he

/-- The same for documents that may repeat field names and keys (`WFD`, continue mode): equal
databases AND equal reports — which field is a duplicate and which entry is repeated is decided by
names and keys, never by the cutting of a value. -/
theorem C01_split_point_independent_dups (d₁ d₂ : ADoc) (L₁ L₂ : Layout)
    (h₁ : WFD d₁ L₁) (h₂ : WFD d₂ L₂) (he : DocEq (written d₁ L₁) (written d₂ L₂)) :
    (parseBib (render d₁ L₁) false none).1.db = (parseBib (render d₂ L₂) false none).1.db ∧
    (parseBib (render d₁ L₁) false none).1.errs = (parseBib (render d₂ L₂) false none).1.errs :=
  BibRT.split_point_independent_dups d₁ d₂ L₁ L₂ h₁ h₂ he

/-- When the two documents themselves are `DocEq` (whatever case masks the two layouts put on entry
types and field names), the databases agree up to the stored spelling of entry types, field names
and role names (`ciEntry`), with equal preambles; and under layouts that spell these identifiers
alike (e.g. no case masks, `plainIds`) `DocEq d₁ d₂` gives the hypothesis of
`C01_split_point_independent` (`DocEq.written` for one layout; `written_plain`). -/
theorem C01_split_point_independent_ci (d₁ d₂ : ADoc) (L₁ L₂ : Layout) (strict₁ strict₂ : Bool)
    (h₁ : WF d₁ L₁) (h₂ : WF d₂ L₂) (he : DocEq d₁ d₂) :
    ((parseBib (render d₁ L₁) strict₁ none).1.db.entries.map ciEntry =
        (parseBib (render d₂ L₂) strict₂ none).1.db.entries.map ciEntry ∧
      (parseBib (render d₁ L₁) strict₁ none).1.db.preamble =
        (parseBib (render d₂ L₂) strict₂ none).1.db.preamble) ∧
    (plainIds d₁ L₁ = true → plainIds d₂ L₂ = true → DocEq (written d₁ L₁) (written d₂ L₂)) :=
  BibRT.split_point_independent_ci d₁ d₂ L₁ L₂ strict₁ strict₂ h₁ h₂ he

/-- Non-vacuity: two different documents — `@string{jv = "Journal of V"}` against `"Journal " # "of V"`,
a `@preamble` literal in one piece against three (one of them empty), and the field
`journal = jv # " x " # jan` against `jv # " " # "x" # " " # jan` — and a third rendering that spells
the literals in braces (`jv # { x } # jan`).  All three renderings are well-formed, the documents as
written are `DocEq` (proved from the `ValEq` rules, for all macro tables), the three texts differ in
their `#` structure, and the reader evaluated on them returns the same single entry. -/
theorem C01_split_point_independent_nonvacuous :
    splitDoc₁ ≠ splitDoc₂ ∧
    WF splitDoc₁ splitLayout₁ ∧ WF splitDoc₂ splitLayout₂ ∧ WF splitDoc₁ splitLayout₃ ∧
    DocEq (written splitDoc₁ splitLayout₁) (written splitDoc₂ splitLayout₂) ∧
    DocEq (written splitDoc₁ splitLayout₃) (written splitDoc₂ splitLayout₂) ∧
    render splitDoc₁ splitLayout₁ =
      "@string{jv=\"Journal of V\"}\n@preamble{\"\\x \" # feb}\n@article{k, Journal = jv # \" x \" # jan}".toList ∧
    render splitDoc₂ splitLayout₂ =
      ("@string{jv=\"Journal \" # \"of V\"}\n@preamble{\"\\\" # \"x \" # \"\" # feb}\n" ++
       "@article{k, Journal = jv # \" \" # \"x\" # \" \" # jan}").toList ∧
    render splitDoc₁ splitLayout₃ =
      "@string{jv={Journal of V}}\n@preamble{{\\x } # feb}\n@article{k, Journal = jv # { x } # jan}".toList ∧
    -- the reader evaluated on the second text (what the theorem says about this instance)
    (parseBib (render splitDoc₂ splitLayout₂) false none).1.db.entries.map (fun e => (e.key, e.fields)) =
      [("k".toList, [("Journal".toList, "Journal of V x January".toList)])] ∧
    (parseBib (render splitDoc₂ splitLayout₂) false none).1.db.preamble = ["\\x February".toList] :=
  BibRT.split_point_independent_nonvacuous

end SplitPoints

/-! ### "values white-space-normalised" and "name lists split into persons", characterised

`denote` applies `normalizeWs` and `splitNameList` (the functions of the reader model); the two
theorems below say what these functions compute in terms that do not mention their definitions
(`Lemmas/BibNorm.lean`: `wordsOf`, `IsNormalWs`, `noAnd0` / `noAndIn` / `NameOk0`, `joinSeps`;
`Spec.isAndSep`, `depthAfter`). -/

section Characterised
open Pybtex.BibRT Pybtex.Spec

/-- **White-space normalisation of values, characterised.**  `normalizeWs`
(`textutils.normalize_whitespace`, applied by the reader to every field value, `@preamble` text
and name list) is idempotent; its result has no leading and no trailing white space, no two
adjacent white-space characters, and no white-space character other than the blank; the
non-white-space characters of the text are kept, in order; a text with these four properties
(`IsNormalWs`) is left unchanged, so the image of `normalizeWs` is exactly the set of such texts;
the result is the list of words of the text (`wordsOf`: split at every one of the 29 white-space
code points, drop empty pieces) joined by single blanks; and two texts have the same
normalisation exactly when they have the same words. -/
theorem C01_normalize_spec (s : Str) :
    normalizeWs (normalizeWs s) = normalizeWs s ∧
    (∀ c ∈ (normalizeWs s).head?, isWs c = false) ∧
    (∀ c ∈ (normalizeWs s).getLast?, isWs c = false) ∧
    (∀ a b, [a, b] <:+: normalizeWs s → ¬ (isWs a = true ∧ isWs b = true)) ∧
    (∀ c ∈ normalizeWs s, isWs c = true → c = ' ') ∧
    (normalizeWs s).filter (fun c => !isWs c) = s.filter (fun c => !isWs c) ∧
    (IsNormalWs s → normalizeWs s = s) ∧
    normalizeWs s = joinWith [' '] (wordsOf s) ∧
    (∀ s', normalizeWs s = normalizeWs s' ↔ wordsOf s = wordsOf s') :=
  BibRT.normalize_spec s

/-- **The reference notion `wordsOf` is determined by three equations** (so the shape of its
definition does not matter): no word in the empty text; a non-empty text without white space is
one word; a white-space character separates.  Moreover every word is non-empty and free of white
space, the words concatenated are the non-white-space characters of the text, and every list of
such words is the word list of its blank-separated concatenation. -/
theorem C01_wordsOf_spec :
    wordsOf [] = [] ∧
    (∀ w : Str, w ≠ [] → (∀ c ∈ w, isWs c = false) → wordsOf w = [w]) ∧
    (∀ (u v : Str) (c : Char), isWs c = true → wordsOf (u ++ c :: v) = wordsOf u ++ wordsOf v) ∧
    (∀ s : Str, ∀ w ∈ wordsOf s, w ≠ [] ∧ ∀ c ∈ w, isWs c = false) ∧
    (∀ s : Str, (wordsOf s).flatten = s.filter (fun c => !isWs c)) ∧
    (∀ ws : List Str, (∀ w ∈ ws, w ≠ [] ∧ ∀ c ∈ w, isWs c = false) → wordsOf (joinWith [' '] ws) = ws) :=
  BibRT.wordsOf_spec

/-- Non-vacuity: a value with leading / trailing / repeated white space of several kinds (blank,
TAB, CR, LF, NO-BREAK SPACE U+00A0, EM SPACE U+2003) is normalised as expected, its words are as
expected, the result is in normal form, and a text that is not in normal form exists. -/
theorem C01_normalize_spec_nonvacuous :
    normalizeWs "\u00a0 A \u2003\t{B}\r\n c ".toList = "A {B} c".toList ∧
    wordsOf "\u00a0 A \u2003\t{B}\r\n c ".toList = ["A".toList, "{B}".toList, "c".toList] ∧
    IsNormalWs "A {B} c".toList ∧ ¬ IsNormalWs "A  c".toList ∧ ¬ IsNormalWs "A\tc".toList :=
  BibRT.normalize_spec_nonvacuous

/-- **Name lists are split at the level-0 separators, and only there.**  `splitNameList`
(`split_tex_string(value, ' [Aa][Nn][Dd] ')`, applied by the reader to the normalised value of
every `author` / `editor` field) satisfies, for every spelling `w` of the separator (a blank,
`a`/`A`, `n`/`N`, `d`/`D`, a blank):

1. a braced group with brace-balanced body is one name, whatever the body contains (separator
   matches included);
2. a non-empty brace-balanced text without separator match at brace level 0 (`noAnd0`: no match
   starts at a level-0 position of `a␣`) is one name, stripped;
3. *junction*: such a text `a` (possibly empty) followed by `w` and ANY non-empty text `b` (with
   or without separators, braces balanced or not) is split off: the result is `strip a` followed
   by the names of `b`;
4. the same when nothing follows `w`: a last, empty name;
5. the special case of a brace-free `a` (`noAndIn a`: no suffix of `a␣` that starts inside `a`
   begins with a separator match — `noAndIn_iff`);
6. hence a name list written as names `a₀ w₁ a₁ … wₙ aₙ` with names as in 2. is split into
   exactly `strip a₀, …, strip aₙ`. -/
theorem C01_split_names_spec :
    (∀ body : Str, depthAfter 0 body = some 0 →
      splitNameList ('{' :: body ++ ['}']) = ['{' :: body ++ ['}']]) ∧
    (∀ a : Str, a ≠ [] → depthAfter 0 a = some 0 → noAnd0 a = true → splitNameList a = [strip a]) ∧
    (∀ a w b : Str, depthAfter 0 a = some 0 → noAnd0 a = true → isAndSep w = true → b ≠ [] →
      splitNameList (a ++ w ++ b) = strip a :: splitNameList b) ∧
    (∀ a w : Str, depthAfter 0 a = some 0 → noAnd0 a = true → isAndSep w = true →
      splitNameList (a ++ w) = [strip a, []]) ∧
    (∀ a w b : Str, (∀ c ∈ a, c ≠ '{' ∧ c ≠ '}') → noAndIn a = true → isAndSep w = true → b ≠ [] →
      splitNameList (a ++ w ++ b) = strip a :: splitNameList b) ∧
    (∀ (a : Str) (r : List (Str × Str)), NameOk0 a → (∀ x ∈ r, isAndSep x.1 = true ∧ NameOk0 x.2) →
      splitNameList (joinSeps a r) = strip a :: r.map fun x => strip x.2) :=
  BibRT.split_names_spec

/-- Non-vacuity and sharpness: the hypotheses of the name-list clause hold for the three names of
`{Barnes and Noble} AND Knuth, Donald E. and others` (a group that contains a separator match,
two separator spellings) and the reader's split is the expected one; `noAndIn` cannot be dropped
(`x and` + ` and ` + `y` gives `x`, `and y`); `b ≠ []` cannot be dropped (`x and ` gives `x` and an
empty name, the empty text gives no name); balance cannot be dropped (an unclosed group swallows
the separator). -/
theorem C01_split_names_spec_nonvacuous :
    (NameOk0 "{Barnes and Noble}".toList ∧ NameOk0 "Knuth, Donald E.".toList ∧ NameOk0 "others".toList ∧
      isAndSep " AND ".toList = true ∧ isAndSep " and ".toList = true ∧
      joinSeps "{Barnes and Noble}".toList
          [(" AND ".toList, "Knuth, Donald E.".toList), (" and ".toList, "others".toList)] =
        "{Barnes and Noble} AND Knuth, Donald E. and others".toList) ∧
    splitNameList "{Barnes and Noble} AND Knuth, Donald E. and others".toList =
      ["{Barnes and Noble}".toList, "Knuth, Donald E.".toList, "others".toList] ∧
    (noAndIn "x and".toList = false ∧
      splitNameList ("x and".toList ++ " and ".toList ++ "y".toList) = ["x".toList, "and y".toList]) ∧
    (splitNameList ("x".toList ++ " and ".toList ++ []) = ["x".toList, []] ∧ splitNameList [] = []) ∧
    (noAnd0 "{x".toList = true ∧
      splitNameList ("{x".toList ++ " and ".toList ++ "y".toList) = ["{x and y".toList]) :=
  BibRT.split_names_spec_nonvacuous

end Characterised

end Pybtex.Props
