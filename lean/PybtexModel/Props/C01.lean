/-
C01 — BibTeX (.bib) parsing is faithful and independent of surface syntax.

Property theorems only.  The model of the reader is `Model/BibParse.lean`, the reference notions
(abstract documents `ADoc`, the denotation `denote`, layouts and `render`, the well-formedness
predicate `WF`) are in `Spec/Bib.lean`, the printer/parser lemmas in `Lemmas/BibRoundTrip.lean`
and `Lemmas/BibProcess.lean`.

The resulting line number is quantified existentially: no error is reported on a well-formed
document, so it is not observable here (line numbers are the subject of C10).
-/
import PybtexModel.Lemmas.BibRoundTrip

namespace Pybtex.Props
open Pybtex Pybtex.Bib Pybtex.BibSpec

/-! ### the example used by the non-vacuity instances: both delimiters, a
macro # literal # month concatenation, quoted / braced / bare-number literals, an author field,
`@string`, `@preamble`, `@comment`, junk, CR / LF / CRLF / TAB white space, case masks -/

def c01Doc : ADoc := [
  .junk "free text, = { } \" #\n".toList,
  .strdef "JV".toList [.lit "Journal of ".toList, .lit "V".toList],
  .preamble [.lit "\\newcommand{\\x}{y} ".toList, .macro "feb".toList],
  .comment "ignored text".toList,
  .entry "Article".toList "Key1".toList [
     ("Title".toList, [.lit "A  {B} c".toList]),
     ("journal".toList, [.macro "jv".toList, .lit " x ".toList, .macro "jan".toList]),
     ("year".toList, [.lit "1993".toList]),
     ("AUTHOR".toList, [.lit "Knuth, Donald E. and Leslie Lamport".toList])],
  .entry "misc".toList "k)".toList [("note".toList, [.lit "q {\"} q".toList])]]

def c01Layout : Layout := [
  {},
  { paren := true, afterAt := " ".toList, mask := [.up, .low, .up], beforeOpen := "\n".toList,
    afterOpen := "\r\n".toList, nameMask := [.low], beforeEq := "\t".toList, afterEq := " ".toList,
    pieces := [{ spelling := .quoted }, { spelling := .braced, beforeHash := " ".toList, afterHash := "\r".toList }],
    afterValue := "\n".toList, afterClose := "\n\n".toList },
  { mask := [.up], pieces := [{}, { mask := [.up, .keep, .up], beforeHash := " ".toList }],
    afterClose := "\n".toList },
  { paren := true, mask := [.keep, .up], afterClose := "\n".toList },
  { afterOpen := " ".toList, mask := [.low, .up], afterKey := " ".toList,
    fields := [
      { beforeName := "\n  ".toList, mask := [.low], beforeEq := " ".toList, afterEq := " ".toList,
        pieces := [{ spelling := .quoted }] },
      { beforeName := "\r\n  ".toList, mask := [.up, .up],
        pieces := [{ mask := [.up] }, { spelling := .quoted, beforeHash := " ".toList, afterHash := " ".toList },
                   { mask := [.keep, .up], afterHash := "\t".toList }],
        afterValue := " ".toList },
      { beforeName := "\n".toList, pieces := [{ spelling := .bare }] },
      { beforeName := " ".toList, afterEq := " ".toList, pieces := [{}], afterValue := "\n".toList }],
    trailing := true, afterTrailing := "\n".toList, afterClose := "\n".toList },
  { paren := true, fields := [{ beforeName := " ".toList, pieces := [{}] }] }]

/- The example renders to (checked by evaluation; CR shown as \r):
free text, = { } " #
@ StRing
(\r
jV	= "Journal of " #\r{V}
)

@Preamble{{\newcommand{\x}{y} } #FeB}
@cOmment(ignored text)
@aRticle{ Key1 ,
  title = "A  {B} c",\r
  JOurnal=Jv # " x "#	jAn ,
year=1993, AUTHOR= {Knuth, Donald E. and Leslie Lamport}
,
}
@misc(k), note={q {"} q})
-/

/-! ### stage 2: values -/

/-- **Value round trip.**  Let `v` be a well-formed value under the piece layouts `ls` (literals
brace-balanced with nesting ≤ 100, quoted spelling only without a level-0 `"`, bare spelling only
for non-empty digit strings, macro names NAMEs defined in `m`; any case mask on macro names, any
white space around `#`).  If the reader's macro dictionary agrees with the table `m` on every
lookup and the input
is the rendering of `v` followed by white space `w` and a character `c` that is neither white
space nor `#`, such that what follows the rendering does not start with a NAME character
(`,` `}` `)` qualify, with or without white space in front), then `parseValue` succeeds, consumes
exactly the rendering and `w`, stores the expanded pieces (literal text / macro value looked up
case-insensitively) and changes nothing else: in particular nothing is reported. -/
theorem C01_value_roundtrip (m : Macros) (v : Value) (ls : List PieceLayout) (s : St)
    (w : Str) (c : Char) (r : Str)
    (hs : s.rest = renderValue v ls ++ (w ++ c :: r))
    (hv : valueOk m v ls = true)
    (hm : ∀ k, s.macros.getItem k = OMap.get m k)
    (hw : wsOk w = true) (hc : isWs c = false) (hc' : c ≠ '#')
    (hn : ∀ x ∈ (w ++ c :: r).head?, isNameChar x = false) :
    ∃ ln', parseValue s =
      .ok () { s with rest := c :: r, ln := ln', curValue := expandPieces m v } :=
  BibRT.parseValue_value m v ls s [] w c r (by simpa using hs) BibRT.AllWs.nil hv hm
    (BibRT.allWs_of_wsOk hw) hc hc' hn

/-- instance: `Jv # " x "#\tjAn ,` in a state whose macro table is the months plus `jv` -/
theorem C01_value_roundtrip_nonvacuous :
    let m : Macros := OMap.set initMacros "JV".toList "Journal of V".toList
    let v : Value := [.macro "jv".toList, .lit " x ".toList, .macro "jan".toList]
    let ls : List PieceLayout := [{ mask := [.up] },
      { spelling := .quoted, beforeHash := " ".toList, afterHash := " ".toList },
      { mask := [.keep, .up], afterHash := "\t".toList }]
    renderValue v ls = "Jv # \" x \"#\tjAn".toList ∧ valueOk m v ls = true ∧
    wsOk " ".toList = true ∧ isWs ',' = false ∧ ',' ≠ '#' ∧
    (∀ x ∈ (" ".toList ++ ',' :: "\n}".toList).head?, isNameChar x = false) ∧
    expandPieces m v = ["Journal of V".toList, " x ".toList, "January".toList] := by
  refine ⟨by decide +kernel, by decide +kernel, by decide +kernel, by decide +kernel, by decide +kernel,
    ?_, by decide +kernel⟩
  intro x hx
  cases hx
  decide +kernel

/-! ### stage 3: fields and commands -/

/-- **Field round trip.**  A rendered field `ws name ws = ws value ws` (any case mask on the name)
followed by a character that is not white space, not `#` and not a NAME character (`,` or the
closing delimiter) is read back by `parseField` as the name *as written* and the expanded pieces
of the value; exactly the rendering is consumed and nothing else changes (no report). -/
theorem C01_field_roundtrip (m : Macros) (f : Str × Value) (l : FieldLayout) (s : St) (c : Char) (r : Str)
    (hs : s.rest = renderField f l ++ c :: r)
    (hn : isName f.1 = true) (hv : valueOk m f.2 l.pieces = true)
    (hw : wsOk l.beforeName = true ∧ wsOk l.beforeEq = true ∧ wsOk l.afterEq = true ∧ wsOk l.afterValue = true)
    (hm : ∀ k, s.macros.getItem k = OMap.get m k)
    (hc : isWs c = false ∧ c ≠ '#' ∧ isNameChar c = false) :
    ∃ ln', parseField s = .ok ()
      { s with rest := c :: r, ln := ln', curFieldName := some (applyMask f.1 l.mask),
               curValue := expandPieces m f.2 } :=
  BibRT.parseField_field m f l s c r hs hn hv hw.1 hw.2.1 hw.2.2.1 hw.2.2.2 hm ⟨hc.1, hc.2.1, hc.2.2⟩

theorem C01_field_roundtrip_nonvacuous :
    let f : Str × Value := ("journal".toList, [.macro "jan".toList, .lit "1".toList])
    let l : FieldLayout :=
      { beforeName := "\r\n  ".toList, mask := [.up, .up], afterEq := "\t".toList,
        pieces := [{ mask := [.up] }, { spelling := .bare, beforeHash := " ".toList }], afterValue := " ".toList }
    renderField f l = "\r\n  JOurnal=\tJan #1 ".toList ∧ isName f.1 = true ∧
    valueOk initMacros f.2 l.pieces = true ∧
    (wsOk l.beforeName = true ∧ wsOk l.beforeEq = true ∧ wsOk l.afterEq = true ∧ wsOk l.afterValue = true) ∧
    (isWs '}' = false ∧ '}' ≠ '#' ∧ isNameChar '}' = false) := by
  decide +kernel

/-- **Entry round trip.**  For a well-formed entry under a command layout (`cmdOk`: type a NAME
other than string/preamble/comment, scannable key, well-formed fields, white space only where
white space is rendered), `parseCommand` started right behind the `@` of the rendering returns
`Cmd.entry` with the type and the field names as written, the key, and for every field the
expanded pieces of its value, in source order; it consumes exactly the rendering up to and
including the closing delimiter (whatever delimiter pair, value spellings, case masks, white
space and trailing comma the layout chooses) and reports nothing. -/
theorem C01_entry_roundtrip (m : Macros) (keys : List Str) (ty key : Str) (fs : List (Str × Value))
    (l : CmdLayout) (s : St) (r : Str)
    (hs : '@' :: s.rest = renderCmd (.entry ty key fs) l ++ r)
    (hok : cmdOk m keys (.entry ty key fs) l = true)
    (hm : ∀ k, s.macros.getItem k = OMap.get m k) (hwant : s.db.wanted = none) :
    ∃ ln' fn cv, parseCommand s =
      .ok (Cmd.entry (applyMask ty l.mask) (some key)
            ((writtenFields fs l.fields).map fun f => (f.1, expandPieces m f.2)))
        { s with rest := l.afterClose ++ r, ln := ln', curKey := some key,
                 curFields := (writtenFields fs l.fields).map fun f => (f.1, expandPieces m f.2),
                 curFieldName := fn, curValue := cv } :=
  BibRT.parseCommand_entry m keys ty key fs l s r hs hok hm hwant

/-- **`@string` round trip.**  The macro table is updated under the written name with the
expansion of the value; the command itself yields nothing. -/
theorem C01_string_roundtrip (m : Macros) (keys : List Str) (n : Str) (v : Value) (l : CmdLayout)
    (s : St) (r : Str)
    (hs : '@' :: s.rest = renderCmd (.strdef n v) l ++ r)
    (hok : cmdOk m keys (.strdef n v) l = true)
    (hm : ∀ k, s.macros.getItem k = OMap.get m k) :
    (∃ ln', parseCommand s = .ok Cmd.string
        { s with rest := l.afterClose ++ r, ln := ln', curKey := none, curFields := [],
                 curFieldName := some (applyMask n l.nameMask), curValue := expandPieces m v,
                 macros := s.macros.setItem (applyMask n l.nameMask) (expand m v) }) ∧
    (∀ k, (s.macros.setItem (applyMask n l.nameMask) (expand m v)).getItem k =
        OMap.get (stepMacros m (.strdef n v)) k) :=
  ⟨BibRT.parseCommand_strdef m keys n v l s r hs hok hm,
   BibRT.macRef_set hm (BibRT.lower_applyMask n l.nameMask) (expand m v)⟩

/-- **`@preamble` round trip.** -/
theorem C01_preamble_roundtrip (m : Macros) (keys : List Str) (v : Value) (l : CmdLayout)
    (s : St) (r : Str)
    (hs : '@' :: s.rest = renderCmd (.preamble v) l ++ r)
    (hok : cmdOk m keys (.preamble v) l = true)
    (hm : ∀ k, s.macros.getItem k = OMap.get m k) :
    ∃ ln', parseCommand s = .ok (Cmd.preamble (expandPieces m v))
        { s with rest := l.afterClose ++ r, ln := ln', curKey := none, curFields := [],
                 curFieldName := none, curValue := expandPieces m v } :=
  BibRT.parseCommand_preamble m keys v l s r hs hok hm

/-- **`@comment` is skipped**: `SkipEntry` right behind the opening delimiter; the `@`-free text,
the closing delimiter and the white space behind it are then passed over by the command loop
like any other junk (see `C01_faithful`). -/
theorem C01_comment_skipped (m : Macros) (keys : List Str) (txt : Str) (l : CmdLayout) (s : St) (r : Str)
    (hs : '@' :: s.rest = renderCmd (.comment txt) l ++ r)
    (hok : cmdOk m keys (.comment txt) l = true) :
    ∃ ln', parseCommand s = .fail .skip
        { s with rest := txt ++ closer l.paren :: (l.afterClose ++ r), ln := ln', curKey := none,
                 curFields := [], curFieldName := none, curValue := [] } :=
  BibRT.parseCommand_comment_cmd m keys txt l s r hs hok

/-! instances of the hypotheses of the four command theorems: the commands of the example document
are well-formed in the macro table / key set that precedes them (the equation on `s.rest` and the
agreement of the macro dictionary are met by choosing the state) -/

theorem C01_string_roundtrip_nonvacuous :
    cmdOk initMacros [] (c01Doc.getD 1 (.junk [])) (c01Layout.getD 1 {}) = true ∧
    renderCmd (c01Doc.getD 1 (.junk [])) (c01Layout.getD 1 {}) =
      "@ StRing\n(\r\njV\t= \"Journal of \" #\r{V}\n)\n\n".toList := by
  decide +kernel

theorem C01_preamble_roundtrip_nonvacuous :
    cmdOk (stepMacros initMacros (c01Doc.getD 1 (.junk []))) [] (c01Doc.getD 2 (.junk [])) (c01Layout.getD 2 {}) = true ∧
    renderCmd (c01Doc.getD 2 (.junk [])) (c01Layout.getD 2 {}) =
      "@Preamble{{\\newcommand{\\x}{y} } #FeB}\n".toList := by
  decide +kernel

theorem C01_comment_skipped_nonvacuous :
    cmdOk initMacros [] (c01Doc.getD 3 (.junk [])) (c01Layout.getD 3 {}) = true ∧
    renderCmd (c01Doc.getD 3 (.junk [])) (c01Layout.getD 3 {}) = "@cOmment(ignored text)\n".toList := by
  decide +kernel

theorem C01_entry_roundtrip_nonvacuous :
    let m1 := stepMacros initMacros (c01Doc.getD 1 (.junk []))
    cmdOk m1 [] (c01Doc.getD 4 (.junk [])) (c01Layout.getD 4 {}) = true ∧
    cmdOk m1 ["key1".toList] (c01Doc.getD 5 (.junk [])) (c01Layout.getD 5 {}) = true ∧
    renderCmd (c01Doc.getD 5 (.junk [])) (c01Layout.getD 5 {}) = "@misc(k), note={q {\"} q})".toList := by
  decide +kernel

/-! ### stage 4: whole documents -/

/-- **Faithfulness.**  For every abstract document `d` and every layout `L` with `WF d L`, reading
the text `render d L` (in either error mode, no wanted-set) raises nothing, reports nothing, and
yields exactly the database the document denotes, with the identifiers spelled as the layout
writes them (`written d L` applies the layout's case masks to entry types and field names, the
only identifiers a database stores): every entry with key, type, fields in source order (values
expanded, concatenated and white-space-normalised), persons split per role, and the preamble
list.  Junk, `@comment` blocks, the delimiter pair, literal spellings, macro-name case, white
space / line ends and trailing commas are all chosen by `L` and do not appear in the result. -/
theorem C01_faithful (d : ADoc) (L : Layout) (strict : Bool) (h : WF d L) :
    (parseBib (render d L) strict none).2 = none ∧
    (parseBib (render d L) strict none).1.errs = [] ∧
    (parseBib (render d L) strict none).1.db =
      { entries := (denote (written d L)).entries, preamble := (denote (written d L)).preamble } := by
  obtain ⟨s', m', keys', h1, hinv⟩ := BibRT.parseBib_faithful d L strict h
  rw [h1]
  refine ⟨rfl, hinv.errs, ?_⟩
  have h2 := hinv.entries
  have h3 := hinv.preamble
  have h4 := hinv.proc.wanted
  have h5 := hinv.proc.cit
  generalize s'.db = db at h2 h3 h4 h5
  cases db
  simp only at h2 h3 h4 h5
  simp only [h2, h3, h4, h5]

theorem C01_faithful_nonvacuous : WF c01Doc c01Layout := by decide +kernel

/-- when the layout puts no case mask on entry types and field names the result is the denotation
of the document itself -/
theorem C01_faithful_plain (d : ADoc) (L : Layout) (strict : Bool) (h : WF d L) (hp : plainIds d L = true) :
    (parseBib (render d L) strict none).2 = none ∧
    (parseBib (render d L) strict none).1.errs = [] ∧
    (parseBib (render d L) strict none).1.db =
      { entries := (denote d).entries, preamble := (denote d).preamble } := by
  have := C01_faithful d L strict h
  rwa [BibRT.written_plain d L hp] at this

theorem C01_faithful_plain_nonvacuous :
    WF c01Doc [{}, {}, {}, {}, { fields := [{}, {}, {}, {}] }, { paren := true }] ∧
    plainIds c01Doc [{}, {}, {}, {}, { fields := [{}, {}, {}, {}] }, { paren := true }] = true ∧
    plainIds c01Doc c01Layout = false := by
  decide +kernel

/-- what the example denotes (as written): two entries, the preamble, the person list -/
theorem C01_faithful_example :
    (denote (written c01Doc c01Layout)).entries.map (fun e => (e.key, e.origType, e.type)) =
      [("Key1".toList, "aRticle".toList, "article".toList), ("k)".toList, "misc".toList, "misc".toList)] ∧
    (denote (written c01Doc c01Layout)).entries.map (·.fields) =
      [[("title".toList, "A {B} c".toList), ("JOurnal".toList, "Journal of V x January".toList),
        ("year".toList, "1993".toList)],
       [("note".toList, "q {\"} q".toList)]] ∧
    (denote (written c01Doc c01Layout)).entries.map (fun e => e.persons.map fun r => (r.1, r.2.map Person.toStr)) =
      [[("AUTHOR".toList, ["Knuth, Donald E.".toList, "Lamport, Leslie".toList])], []] ∧
    (denote (written c01Doc c01Layout)).preamble = ["\\newcommand{\\x}{y} February".toList] := by
  decide +kernel

/-- **Layout independence.**  Two well-formed layouts of the same document give
(1) equal databases when they spell entry types and field names alike (`written` agrees) —
whatever they choose for delimiters, literal spellings, concatenation white space, macro-name
and keyword case, white space / line ends, trailing commas (junk and comments are part of `d`
and never reach the database: see (3));
(2) in general databases that differ only in the stored spelling of entry types, field names and
role names: equal after `ciEntry` (which lower-cases exactly those), with equal preambles; keys,
lower-cased types, values, persons and all orders coincide;
(3) and each agrees in this sense with the denotation of `d` itself, which does not depend on
the junk and comment commands of `d` at all (`denote` ignores them by definition). -/
theorem C01_layout_independent (d : ADoc) (L₁ L₂ : Layout) (strict₁ strict₂ : Bool)
    (h₁ : WF d L₁) (h₂ : WF d L₂) :
    (written d L₁ = written d L₂ →
      (parseBib (render d L₁) strict₁ none).1.db = (parseBib (render d L₂) strict₂ none).1.db) ∧
    ((parseBib (render d L₁) strict₁ none).1.db.entries.map ciEntry =
        (parseBib (render d L₂) strict₂ none).1.db.entries.map ciEntry ∧
      (parseBib (render d L₁) strict₁ none).1.db.preamble =
        (parseBib (render d L₂) strict₂ none).1.db.preamble) ∧
    ((parseBib (render d L₁) strict₁ none).1.db.entries.map ciEntry = (denote d).entries.map ciEntry ∧
      (parseBib (render d L₁) strict₁ none).1.db.preamble = (denote d).preamble) := by
  have f₁ := (C01_faithful d L₁ strict₁ h₁).2.2
  have f₂ := (C01_faithful d L₂ strict₂ h₂).2.2
  have w₁ := BibRT.denote_written d L₁
  have w₂ := BibRT.denote_written d L₂
  refine ⟨fun hw => by rw [f₁, f₂, hw], ?_, ?_⟩
  · rw [f₁, f₂]; exact ⟨w₁.1.trans w₂.1.symm, w₁.2.trans w₂.2.symm⟩
  · rw [f₁]; exact w₁

/-- two different well-formed layouts of the example document (the second: all defaults except
what `WF` forces, i.e. braces, braced literals, no case masks, no white space) -/
theorem C01_layout_independent_nonvacuous :
    WF c01Doc c01Layout ∧ WF c01Doc [{}, {}, {}, {}, { fields := [{}, {}, {}, {}] }, { paren := true }] ∧
    written c01Doc c01Layout ≠ written c01Doc [{}, {}, {}, {}, { fields := [{}, {}, {}, {}] }, { paren := true }] := by
  decide +kernel

/-- **Junk and comments.**  Two well-formed renderings of two documents that differ only in their
junk and `@comment` commands (`stripJunk` removes both) give equal databases when the remaining
commands are spelled alike, and in general databases equal up to the stored spelling of types,
field names and role names. -/
theorem C01_junk_independent (d₁ d₂ : ADoc) (L₁ L₂ : Layout) (strict₁ strict₂ : Bool)
    (h₁ : WF d₁ L₁) (h₂ : WF d₂ L₂) :
    (stripJunk (written d₁ L₁) = stripJunk (written d₂ L₂) →
      (parseBib (render d₁ L₁) strict₁ none).1.db = (parseBib (render d₂ L₂) strict₂ none).1.db) ∧
    (stripJunk d₁ = stripJunk d₂ →
      (parseBib (render d₁ L₁) strict₁ none).1.db.entries.map ciEntry =
        (parseBib (render d₂ L₂) strict₂ none).1.db.entries.map ciEntry ∧
      (parseBib (render d₁ L₁) strict₁ none).1.db.preamble =
        (parseBib (render d₂ L₂) strict₂ none).1.db.preamble) := by
  have f₁ := (C01_faithful d₁ L₁ strict₁ h₁).2.2
  have f₂ := (C01_faithful d₂ L₂ strict₂ h₂).2.2
  refine ⟨fun hw => ?_, fun hs => ?_⟩
  · rw [f₁, f₂, ← BibRT.denote_stripJunk (written d₁ L₁), hw, BibRT.denote_stripJunk]
  · have w₁ := BibRT.denote_written d₁ L₁
    have w₂ := BibRT.denote_written d₂ L₂
    have e : denote d₁ = denote d₂ := by
      rw [← BibRT.denote_stripJunk d₁, hs, BibRT.denote_stripJunk]
    rw [f₁, f₂]
    exact ⟨by rw [w₁.1, w₂.1, e], by rw [w₁.2, w₂.2, e]⟩

/-- the example document and the same document without junk and comment, in different layouts -/
theorem C01_junk_independent_nonvacuous :
    WF c01Doc c01Layout ∧
    WF (stripJunk c01Doc) [{}, {}, { fields := [{}, {}, {}, {}] }, { paren := true }] ∧
    stripJunk c01Doc ≠ c01Doc ∧ stripJunk (stripJunk c01Doc) = stripJunk c01Doc := by
  decide +kernel

/-- **Identifiers.**  (1) Under `WF` the database is, in closed form, the list of the document's
entries as written (`entriesWith` pairs each with the macro table in force): key as written, type
as written (`origType`) and lower-cased (`type`), every non-person field under its name as written
in source order, every person role under its name as written (`entryOf`).
(2) Identifiers are matched case-insensitively: a macro defined under one spelling is found
under every spelling equal up to case; a field whose name equals an earlier one of the entry up
to case is reported (`DuplicateField`) and dropped; an entry whose key equals an earlier one up
to case is reported (`repeated bibliography entry`) and dropped. -/
theorem C01_identifiers :
    (∀ (d : ADoc) (L : Layout) (strict : Bool), WF d L →
      (parseBib (render d L) strict none).1.db.entries =
        (entriesWith initMacros (written d L)).map entryOf) ∧
    (∀ (dict : CIDict Str) (n n' v : Str), lower n = lower n' → (dict.setItem n v).getItem n' = some v) ∧
    (∀ (key name : Str) (parts : List Str) (fs : List (Str × List Str)) (seen : List Str) (e : Entry) (s : St),
      s.strict = false → seen.contains (lower name) = true →
      processFields key ((name, parts) :: fs) seen e s =
        processFields key fs seen e { s with errs := s.errs ++ [⟨.duplicateField key name, none⟩] }) ∧
    (∀ (s : St) (key : Str) (e e0 : Entry), s.db.wanted = none → s.strict = false →
      e0 ∈ s.db.entries → lower e0.key = lower key →
      addEntry s key e = .ok () { s with errs := s.errs ++ [⟨.repeatedEntry key, none⟩] }) := by
  refine ⟨?_, ?_, ?_, ?_⟩
  · intro d L strict h
    rw [(C01_faithful d L strict h).2.2]
    exact BibRT.denote_entries d L h
  · intro dict n n' v h; exact BibRT.getItem_setItem_ci dict h v
  · intro key name parts fs seen e s hs hd; exact BibRT.processFields_duplicate key name parts fs seen e s hs hd
  · intro s key e e0 hw hs h0 hk; exact BibRT.addEntry_repeated s key e e0 hw hs h0 hk

/-- concrete readings: a macro written in another case, a duplicate field and a repeated key
that differ in case only -/
theorem C01_identifiers_nonvacuous :
    ((parseBib "@string{AbC = \"x\"} @a{k, t = aBc # ABC}".toList false none).1.db.entries.map
        (fun e => (e.key, e.fields)) = [("k".toList, [("t".toList, "xx".toList)])]) ∧
    ((parseBib "@a{k, T = 1, t = 2}".toList false none).1.db.entries.map (fun e => (e.key, e.fields)) =
        [("k".toList, [("T".toList, "1".toList)])] ∧
     (parseBib "@a{k, T = 1, t = 2}".toList false none).1.errs =
        [⟨.duplicateField "k".toList "t".toList, none⟩]) ∧
    ((parseBib "@a{Key, t = 1} @b{kEY, t = 2}".toList false none).1.db.entries.map
        (fun e => (e.key, e.fields)) = [("Key".toList, [("t".toList, "1".toList)])] ∧
     (parseBib "@a{Key, t = 1} @b{kEY, t = 2}".toList false none).1.errs =
        [⟨.repeatedEntry "kEY".toList, none⟩]) := by
  decide +kernel

/-- **Months.**  The twelve names `jan … dec` of the regenerated table are defined before any
`@string`: in the state the reader starts from, every spelling `k` of a month name (any case)
is substituted by the table's value without a report, and the reference table `initMacros` used
by `denote` expands it to the same value. -/
theorem C01_months_predefined :
    Gen.monthMacros.map (·.1) = ["jan", "feb", "mar", "apr", "may", "jun", "jul", "aug", "sep", "oct",
      "nov", "dec"].map String.toList ∧
    ∀ p ∈ Gen.monthMacros, ∀ (k text : Str) (strict : Bool), lower k = lower p.1 →
      substituteMacro k { rest := text, macros := CIDict.ofPairs Gen.monthMacros, strict := strict } =
        .ok p.2 { rest := text, macros := CIDict.ofPairs Gen.monthMacros, strict := strict } ∧
      expandPiece initMacros (.macro k) = p.2 := by
  refine ⟨by decide, ?_⟩
  intro p hp k text strict hk
  have h1 : (CIDict.ofPairs Gen.monthMacros).getItem k = some p.2 := by
    rw [BibRT.getItem_lower _ hk]; exact BibRT.months_getItem p hp
  refine ⟨by simp only [substituteMacro, h1], ?_⟩
  have h2 := BibRT.macRef_init k
  rw [h1] at h2
  simp only [expandPiece, ← h2, Option.getD_some]

/-- the month macro in any case inside a document: `month = jAn` reads as `January` -/
theorem C01_months_predefined_nonvacuous :
    (parseBib "@a{k, month = jAn, m2 = DEC # \"-\" # feb}".toList false none).1.db.entries.map (·.fields) =
      [[("month".toList, "January".toList), ("m2".toList, "December-February".toList)]] ∧
    (parseBib "@a{k, month = jAn, m2 = DEC # \"-\" # feb}".toList false none).1.errs = [] := by
  decide +kernel

end Pybtex.Props
