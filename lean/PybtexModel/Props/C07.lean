import PybtexModel.Model.Template
namespace Pybtex.Props
end Pybtex.Props
