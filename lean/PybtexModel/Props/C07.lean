/-
C07 — Python-engine bibliography: complete, ordered, uniquely labelled, lossless.

Property theorems only.  The model of the code is `Model/Template.lean` (the template evaluator
`eval`, the sorting and label styles and `formatBibliography` = resolve (C05) → drop missing →
sort → label → template; the templates are INPUTS of the evaluator, serialised from the live style
objects by the harness); the notions a reader has to agree with are in `Spec/PyStyle.lean`;
helper lemmas in `Lemmas/Template.lean`.
-/
import PybtexModel.Lemmas.Template
import PybtexModel.Lemmas.TemplateProt
import PybtexModel.Props.C05
import PybtexModel.Lemmas.UniCase

namespace Pybtex.Props
open Pybtex Pybtex.RT Pybtex.Tmpl Pybtex.Tmpl.Spec

/-! ### a small database and template used by the non-vacuity theorems -/
namespace C07Ex

def s (x : String) : Str := x.toList

/-- `@article{key, author = {… last}, year = {year}, title = {title}, journal = {J}}` -/
def art (key last year title : String) : PEntry :=
  { key := s key, type := s "article",
    fields := CIDict.ofPairs [(s "year", s year), (s "title", s title), (s "journal", s "J")],
    persons := CIDict.ofPairs [(s "author", [{ first := [s "A"], last := [s last] }])] }

/-- an entry without author and title: label from the `key` field -/
def misc (key label : String) : PEntry :=
  { key := s key, type := s "misc", fields := CIDict.ofPairs [(s "key", s label)], persons := CIDict.empty }

/-- cited in the order b, A, c; `b` and `c` have the same sorting key -/
def entries : List PEntry :=
  [art "b" "Zed" "1999" "T", art "A" "Abel" "2001" "On {TeX} things", art "c" "Zed" "1999" "T"]

/-- `toplevel [sentence [names author], sentence(capfirst) [field title], sentence [em [journal], optional [year]]]` -/
def tmpl : T :=
  .join (.sym (s "newblock")) (.sym (s "newblock")) (.sym (s "newblock"))
    [.sentence false false true (.str (s ", ")) [.names (s "author") (.str (s ", ")) (.str (s " and ")) (.str (s ", and "))],
     .sentence true false true (.str (s ", ")) [.field (s "title") .none false],
     .sentence false false true (.str (s ", "))
       [.tag (s "em") [.field (s "journal") .none false], .optional [.field (s "year") .none false],
        .optional [.field (s "note") .none false]]]

def item (name : String) : Item :=
  { template := tmpl, personTemplates := [(s "author", [.lit (.str (s name))])] }

def items (k : Str) : Option Item :=
  if lower k = s "b" then some (item "A Zed") else if lower k = s "a" then some (item "A Abel")
  else if lower k = s "c" then some (item "A Zed") else none

/-- what is observed of a run: `(key, label, str(text))` per entry, or the error -/
def view (r : List Report × Except BibErr (List Formatted)) : BibErr ⊕ List (Str × Str × Str) :=
  match r.2 with
  | .error e => .inl e
  | .ok fs => .inr (fs.map fun f => (f.key, f.label, toStr f.text))

end C07Ex
open C07Ex

/-! ### one formatted entry per resolved citation; order -/

/-- **Complete.** When `format_bibliography` succeeds, the formatted entries are — up to order —
exactly the database entries denoted by the resolved citations (C05's `add_extra_citations`
without the keys that have no entry): one formatted entry per resolved citation, no resolved
citation without its entry, and the keys agree up to letter case.
NOTE (audit): `resolvedKeys` / `resolvedEntries` (Spec/PyStyle.lean) are verbatim the first three
`let`s of the model's `formatBibliography` — the model's own C05 resolution, characterised by the C05
theorems, not an independent notion.  What is established here is that sort, label and template
neither drop nor duplicate an entry of that list; only conjunct 2 (every resolved key denotes its
stored entry) is an independent fact about the prefix. -/
theorem C07_one_per_citation (es : List PEntry) (items : Str → Option Item) (cites : List Str) (mc : Int)
    (sorting : Sorting) (labels : Labels) (rep : List Report) (fs : List Formatted)
    (h : formatBibliography es items cites mc sorting labels = (rep, .ok fs)) :
    (fs.map (·.key)).Perm ((resolvedEntries es cites mc).map (·.key)) ∧
    (resolvedKeys es cites mc).map (storedEntry es) = (resolvedEntries es cites mc).map some ∧
    (fs.map fun f => lower f.key).Perm ((resolvedKeys es cites mc).map lower) ∧
    fs.length = (resolvedKeys es cites mc).length := by
  obtain ⟨ls, -, hkeys, -⟩ := formatBibliography_ok h
  have hperm : (sortEntries sorting (resolvedEntries es cites mc)).Perm (resolvedEntries es cites mc) := by
    cases sorting with
    | none => exact List.Perm.refl _
    | authorYearTitle => exact sortBy_perm _ _
  have h1 : (fs.map (·.key)).Perm ((resolvedEntries es cites mc).map (·.key)) := by
    rw [hkeys]; exact hperm.map _
  have h3 : (fs.map fun f => lower f.key).Perm ((resolvedKeys es cites mc).map lower) := by
    rw [← resolvedEntries_keys]
    have := h1.map lower
    simpa [List.map_map, Function.comp_def] using this
  refine ⟨h1, resolvedKeys_stored es cites mc, h3, ?_⟩
  simpa using h3.length_eq

theorem C07_one_per_citation_nonvacuous :
    resolvedKeys entries [s "b", s "nosuch", s "A", s "B", s "c"] 2 = [s "b", s "A", s "c"] ∧
    view (formatBibliography entries items [s "b", s "nosuch", s "A", s "B", s "c"] 2 .none .number)
      = .inr [(s "b", s "1", s "A Zed.<newblock>T.<newblock>J, 1999."),
             (s "A", s "2", s "A Abel.<newblock>On TeX things.<newblock>J, 2001."),
             (s "c", s "3", s "A Zed.<newblock>T.<newblock>J, 1999.")] := by decide +kernel

/-- **No entry twice.** For a database whose entries are well formed (the C13 invariant of their
field and person containers — what the reader builds, `C05_reader_wf`) no two formatted entries
have the same key, even up to letter case (from `C05_no_dup`). -/
theorem C07_no_duplicates (es : List PEntry) (hwf : ∀ e ∈ es, EntryWF e.toEntry) (items : Str → Option Item)
    (cites : List Str) (mc : Int) (sorting : Sorting) (labels : Labels) (rep : List Report) (fs : List Formatted)
    (h : formatBibliography es items cites mc sorting labels = (rep, .ok fs)) :
    (fs.map fun f => lower f.key).Nodup := by
  have hperm := (C07_one_per_citation es items cites mc sorting labels rep fs h).2.2.1
  rw [hperm.nodup_iff]
  have hnd := C05_no_dup (mkDb es) (mkDb_wf es hwf) cites mc
  exact ((removeMissing_sublist (mkDb es) _).map lower).nodup hnd

theorem C07_no_duplicates_nonvacuous : ∀ e ∈ entries, EntryWF e.toEntry := by decide

/-- **Order, sorting style `none`.** The formatted entries come in the order of the resolved
citations. -/
theorem C07_order_none (es : List PEntry) (items : Str → Option Item) (cites : List Str) (mc : Int)
    (labels : Labels) (rep : List Report) (fs : List Formatted)
    (h : formatBibliography es items cites mc .none labels = (rep, .ok fs)) :
    fs.map (·.key) = (resolvedEntries es cites mc).map (·.key) ∧
    (fs.map fun f => lower f.key) = (resolvedKeys es cites mc).map lower := by
  obtain ⟨ls, -, hkeys, -⟩ := formatBibliography_ok h
  have h1 : fs.map (·.key) = (resolvedEntries es cites mc).map (·.key) := hkeys
  refine ⟨h1, ?_⟩
  rw [← resolvedEntries_keys]
  have := congrArg (List.map lower) h1
  simpa [List.map_map, Function.comp_def] using this

theorem C07_order_none_nonvacuous :
    (view (formatBibliography entries items [s "c", s "*"] 2 .none .number)).elim (fun _ => []) (·.map (·.1))
      = [s "c", s "b", s "A"] := by decide +kernel

/-- The comparison of `author_year_title` — Python's `<` on the key triples
(author/editor key, year, title) — is a strict total order: irreflexive, transitive, and two
different triples are comparable.  (So "no later entry has a smaller key" below means sorted.) -/
theorem C07_key_order :
    (∀ a, tripleLt a a = false) ∧
    (∀ a b c, tripleLt a b = true → tripleLt b c = true → tripleLt a c = true) ∧
    (∀ a b, tripleLt a b = false → tripleLt b a = false → a = b) ∧
    (∀ a, strLt a a = false) ∧
    (∀ a b c, strLt a b = true → strLt b c = true → strLt a c = true) ∧
    (∀ a b, strLt a b = false → strLt b a = false → a = b) :=
  ⟨tripleLt_irrefl, fun _ _ _ => tripleLt_trans, fun _ _ => tripleLt_total,
   strLt_irrefl, fun _ _ _ => strLt_trans, fun _ _ => strLt_total⟩

/-- **Order, sorting style `author_year_title`.** The formatted entries are the resolved entries
rearranged (a permutation) so that no entry has a smaller key triple than an earlier one
(sorted), and entries with the same key triple keep their citation order (stable).
Relative to the C05 resolution (see `C07_one_per_citation`); the key triple is the model's
`sortingKey`, a transliteration of `sorting_key` with no independent specification. -/
theorem C07_order_ayt (es : List PEntry) (items : Str → Option Item) (cites : List Str) (mc : Int)
    (labels : Labels) (rep : List Report) (fs : List Formatted)
    (h : formatBibliography es items cites mc .authorYearTitle labels = (rep, .ok fs)) :
    ∃ sorted : List PEntry, fs.map (·.key) = sorted.map (·.key) ∧
      sorted.Perm (resolvedEntries es cites mc) ∧
      sorted.Pairwise (fun a b => tripleLt (sortingKey b) (sortingKey a) = false) ∧
      ∀ k, sorted.filter (fun e => sortingKey e = k) = (resolvedEntries es cites mc).filter (fun e => sortingKey e = k) := by
  obtain ⟨ls, -, hkeys, -⟩ := formatBibliography_ok h
  refine ⟨sortBy keyLt (resolvedEntries es cites mc), hkeys, sortBy_perm _ _, sortBy_sorted keyLt_strictWeak _, ?_⟩
  intro k
  by_cases hk : ∃ a ∈ resolvedEntries es cites mc, sortingKey a = k
  · obtain ⟨a, -, rfl⟩ := hk
    have := sortBy_stable keyLt_strictWeak a (resolvedEntries es cites mc)
    have hf : (fun e => decide (sortingKey e = sortingKey a)) = eqv keyLt a := by
      funext e
      rw [Bool.eq_iff_iff, eqv_keyLt, decide_eq_true_eq]
      exact eq_comm
    rw [hf]; exact this
  · have hnone : ∀ l : List PEntry, (∀ a ∈ l, a ∈ resolvedEntries es cites mc) →
        l.filter (fun e => sortingKey e = k) = [] := by
      intro l hl
      rw [List.filter_eq_nil_iff]
      intro a ha
      simp only [decide_eq_true_eq]
      intro hak
      exact hk ⟨a, hl a ha, hak⟩
    rw [hnone _ (fun a ha => (sortBy_perm keyLt _).mem_iff.1 ha), hnone _ (fun _ ha => ha)]

/-- the generic facts behind `C07_order_ayt`: for ANY strict weak order `lt` (irreflexive,
transitive, incomparability transitive) the insertion sort `sortBy` that models `sorted(…)`
returns a sorted permutation in which equivalent elements keep their order -/
theorem C07_sort_generic {α : Type} (lt : α → α → Bool) (hirr : ∀ a, lt a a = false)
    (htr : ∀ a b c, lt a b = true → lt b c = true → lt a c = true)
    (hneg : ∀ a b c, lt a b = true → lt a c = true ∨ lt c b = true) (l : List α) :
    (sortBy lt l).Perm l ∧ SortedBy lt (sortBy lt l) ∧
    ∀ a, (sortBy lt l).filter (eqv lt a) = l.filter (eqv lt a) :=
  ⟨sortBy_perm lt l, sortBy_sorted ⟨hirr, htr, hneg⟩ l, fun a => sortBy_stable ⟨hirr, htr, hneg⟩ a l⟩

theorem C07_sort_generic_nonvacuous :
    (∀ a, keyLt a a = false) ∧ (∀ a b c, keyLt a b = true → keyLt b c = true → keyLt a c = true) ∧
    (∀ a b c, keyLt a b = true → keyLt a c = true ∨ keyLt c b = true) ∧
    (sortBy keyLt entries).map (·.key) = [s "A", s "b", s "c"] :=
  ⟨keyLt_strictWeak.irrefl, keyLt_strictWeak.trans, keyLt_strictWeak.negtrans, by decide +kernel⟩

theorem C07_order_ayt_nonvacuous :
    -- cited b, A, c: Abel sorts first; b and c have equal keys and keep their citation order
    (view (formatBibliography entries items [s "b", s "A", s "c"] 2 .authorYearTitle .number)).elim
        (fun _ => []) (·.map fun x => (x.1, x.2.1)) = [(s "A", s "1"), (s "b", s "2"), (s "c", s "3")] ∧
    (view (formatBibliography entries items [s "c", s "A", s "b"] 2 .authorYearTitle .number)).elim
        (fun _ => []) (·.map fun x => (x.1, x.2.1)) = [(s "A", s "1"), (s "c", s "2"), (s "b", s "3")] ∧
    sortingKey (art "b" "Zed" "1999" "T") = (s "zed  a  ", s "1999", s "T") := by decide +kernel

/-! ### labels -/

/-- **Number labels.** The labels are `"1"`, …, `"n"` in output order, hence pairwise distinct
(decimal notation is injective). -/
theorem C07_number_labels (es : List PEntry) (items : Str → Option Item) (cites : List Str) (mc : Int)
    (sorting : Sorting) (rep : List Report) (fs : List Formatted)
    (h : formatBibliography es items cites mc sorting .number = (rep, .ok fs)) :
    fs.map (·.label) = (List.range fs.length).map (fun i => natToStr (i + 1)) ∧
    (fs.map (·.label)).Nodup ∧
    (∀ m n, natToStr m = natToStr n → m = n) ∧
    (∀ n, natToStr n = Nat.toDigits 10 n) := by
  obtain ⟨ls, hls, hkeys, hlab⟩ := formatBibliography_ok h
  simp only [formatLabels, Option.some.injEq] at hls
  have hlen : fs.length = (sortEntries sorting (resolvedEntries es cites mc)).length := by
    have := congrArg List.length hkeys; simpa using this
  refine ⟨?_, ?_, fun _ _ => natToStr_inj, natToStr_eq⟩
  · rw [hlab, ← hls, hlen]; rfl
  · rw [hlab, ← hls]; exact numberLabels_nodup _

theorem C07_number_labels_nonvacuous :
    numberLabels 11 = [s "1", s "2", s "3", s "4", s "5", s "6", s "7", s "8", s "9", s "10", s "11"] := by
  decide +kernel

/-- **Alpha labels (restricted).** The labels are the base labels of `format_label`, in output
order, run through the suffix loop; they are pairwise distinct PROVIDED (`alphaProviso`, a
decidable condition on the list of base labels) no base label occurs more than 26 times and no
base label occurring once equals a base label occurring several times followed by one of the
suffix letters it is given.  Without the proviso: `C07_alpha_labels_neg`. -/
theorem C07_alpha_labels_partial (es : List PEntry) (items : Str → Option Item) (cites : List Str) (mc : Int)
    (sorting : Sorting) (rep : List Report) (fs : List Formatted)
    (h : formatBibliography es items cites mc sorting .alpha = (rep, .ok fs)) :
    ∃ base, (sortEntries sorting (resolvedEntries es cites mc)).mapM formatLabel = some base ∧
      fs.map (·.label) = alphaSuffix base base [] ∧
      (alphaProviso base = true → (fs.map (·.label)).Nodup) := by
  obtain ⟨ls, hls, -, hlab⟩ := formatBibliography_ok h
  simp only [formatLabels, alphaLabels, Option.map_eq_some_iff] at hls
  obtain ⟨base, hb, rfl⟩ := hls
  exact ⟨base, hb, hlab, fun hp => by rw [hlab]; exact alphaSuffix_nodup_top base hp⟩

/-- the suffix loop alone: under the proviso its output has no repetition, for any list of base labels -/
theorem C07_alpha_suffix_partial (base : List Str) (hp : alphaProviso base = true) :
    (alphaSuffix base base []).Nodup ∧ (alphaSuffix base base []).length = base.length :=
  ⟨alphaSuffix_nodup_top base hp, alphaSuffix_length _ _ _⟩

theorem C07_alpha_suffix_partial_nonvacuous :
    alphaProviso [s "ab", s "ab", s "abc", s "x"] = true ∧
    alphaSuffix [s "ab", s "ab", s "abc", s "x"] [s "ab", s "ab", s "abc", s "x"] []
      = [s "aba", s "abb", s "abc", s "x"] := by decide +kernel

theorem C07_alpha_labels_partial_nonvacuous :
    alphaProviso [s "Zed99", s "Abe01", s "Zed99"] = true ∧
    (view (formatBibliography entries items [s "b", s "A", s "c"] 2 .none .alpha)).elim
        (fun _ => []) (·.map fun x => (x.1, x.2.1)) = [(s "b", s "Zed99a"), (s "A", s "Abe01"), (s "c", s "Zed99b")] := by
  decide +kernel

/-- Finding C07-alpha-suffix-collision: the full statement "alpha labels are pairwise distinct"
is false of the code.  Base labels `ab, ab, aba` (e.g. three entries without author whose `key`
fields are `ab`, `ab`, `aba`) receive the labels `aba, abb, aba`: the suffixed first label
collides with the third. -/
theorem C07_alpha_labels_neg :
    alphaSuffix [s "ab", s "ab", s "aba"] [s "ab", s "ab", s "aba"] [] = [s "aba", s "abb", s "aba"] ∧
    alphaProviso [s "ab", s "ab", s "aba"] = false ∧
    (view (formatBibliography [misc "k1" "ab", misc "k2" "ab", misc "k3" "aba"]
        (fun _ => some ⟨.lit (.str (s "x")), [], []⟩) [s "*"] 2 .none .alpha)).elim (fun _ => []) (·.map (·.2.1))
      = [s "aba", s "abb", s "aba"] ∧
    ¬ [s "aba", s "abb", s "aba"].Nodup := by
  refine ⟨by decide +kernel, by decide +kernel, by decide +kernel, by decide⟩

/-! ### missing required fields -/

/-- **The answer does not depend on the fuel.** `eval` is bounded by a fuel parameter (the
nesting depth of the template); two runs that do not run out of fuel give the same result, and
more fuel never changes a result. -/
theorem C07_fuel_irrelevant (ctx : Ctx) (t : T) (n m : Nat) :
    (eval n ctx t ≠ .error .outOfFuel → eval m ctx t ≠ .error .outOfFuel → eval n ctx t = eval m ctx t) ∧
    (eval n ctx t ≠ .error .outOfFuel → n ≤ m → eval m ctx t = eval n ctx t) :=
  ⟨eval_fuel_agree, fun h hm => eval_mono rfl h m hm⟩

theorem C07_fuel_irrelevant_nonvacuous :
    -- with too little fuel the example template runs out of fuel, with enough more fuel changes nothing
    (eval 4 (ctxOf entries (art "A" "Abel" "2001" "T") (item "A Abel")) tmpl).toOption.map toStr = none ∧
    (eval 12 (ctxOf entries (art "A" "Abel" "2001" "T") (item "A Abel")) tmpl).toOption.map toStr
      = some (s "A Abel.<newblock>T.<newblock>J, 2001.") ∧
    (eval 50 (ctxOf entries (art "A" "Abel" "2001" "T") (item "A Abel")) tmpl).toOption.map toStr
      = some (s "A Abel.<newblock>T.<newblock>J, 2001.") := by decide +kernel

/-- **`optional` never propagates a missing field** (it yields the empty text instead). -/
theorem C07_optional_never_missing (fuel : Nat) (ctx : Ctx) (cs : List T) (f : Str) :
    eval fuel ctx (.optional cs) ≠ .error (.missing f) :=
  eval_optional_not_missing fuel ctx cs f

/-- **Missing field, evaluator level (soundness).** If the evaluation of a template fails with
`FieldIsMissing(f)` then `f` is the name of a `field` or `names` node that is outside every
`optional` — a node of the template itself or of a name template of the entry's persons — and
the lookup that node performs finds nothing: for `field`, `_find_field` fails along the whole
cross-reference chain (characterised by `C14_missing_iff`); for `names`, the entry itself has
no persons in that role (cross-references are not followed).  Consequently a template all of
whose required lookups succeed never fails with a missing field. -/
theorem C07_missing_required_eval (fuel : Nat) (ctx : Ctx) (t : T) :
    (∀ f, eval fuel ctx t = .error (.missing f) →
      ∃ lk ∈ allRequired ctx t, lk.name = f ∧ lookupFails ctx lk = true) ∧
    ((∀ lk ∈ allRequired ctx t, lookupFails ctx lk = false) → ∀ f, eval fuel ctx t ≠ .error (.missing f)) := by
  have hs : ∀ f, eval fuel ctx t = .error (.missing f) →
      ∃ lk ∈ allRequired ctx t, lk.name = f ∧ lookupFails ctx lk = true := by
    intro f h
    obtain ⟨lk, h1, h2, h3⟩ := (eval_missing_sound ctx fuel).1 t f h
    exact ⟨lk, by simpa [allRequired] using h3, h1, h2⟩
  refine ⟨hs, ?_⟩
  intro hall f h
  obtain ⟨lk, hm, -, hf⟩ := hs f h
  rw [hall lk hm] at hf; cases hf

theorem C07_missing_required_eval_nonvacuous :
    -- no `journal`: reported, `journal` is a required node whose lookup fails; `note`, `year` are optional
    (match eval 9 (ctxOf [misc "m" "K"] (misc "m" "K") ⟨tmpl, [(s "author", [.lit (.str (s "X"))])], []⟩)
        (.join (.str []) (.str []) (.str []) [.optional [.field (s "note") .none false], .field (s "journal") .none false]) with
      | .error e => some e | .ok _ => none) = some (.missing (s "journal")) ∧
    lookupFails (ctxOf [misc "m" "K"] (misc "m" "K") ⟨tmpl, [], []⟩) (.field (s "journal")) = true ∧
    lookupFails (ctxOf [misc "m" "K"] (misc "m" "K") ⟨tmpl, [], []⟩) (.field (s "key")) = false := by decide +kernel

/-- **Missing field, evaluator level (exact).** For some fuel the evaluation fails with
`FieldIsMissing(f)` if and only if `Missing ctx t f`: going through the template left to right —
all children of a node, the alternatives of a `first_of` only until one is non-empty, never into
a failing `optional` — the first node that fails is a `field`/`names` node named `f` whose lookup
finds nothing.  (By `C07_fuel_irrelevant` every sufficient fuel then gives this answer.) -/
theorem C07_missing_iff (ctx : Ctx) (t : T) (f : Str) :
    (∃ fuel, eval fuel ctx t = .error (.missing f)) ↔ Missing ctx (.node t) f :=
  ⟨fun ⟨fuel, h⟩ => (missing_of_failsWith ctx fuel).1 t f h, fun h => failsWith_of_missing h⟩

/-- **Missing required field, pipeline.** When `format_bibliography` fails with
`FieldIsMissing: missing f in key`, then `key` is the key of one of the resolved entries, every
entry before it in formatting order was formatted without error, the evaluation of that entry's
template failed with `FieldIsMissing(f)`, and `f` names a `field`/`names` node outside every
`optional` whose lookup finds nothing for this entry. -/
theorem C07_missing_required (es : List PEntry) (items : Str → Option Item) (cites : List Str) (mc : Int)
    (sorting : Sorting) (labels : Labels) (rep : List Report) (f key : Str)
    (h : formatBibliography es items cites mc sorting labels = (rep, .error (.missingField f key))) :
    ∃ pre e post it, sortEntries sorting (resolvedEntries es cites mc) = pre ++ e :: post ∧
      e ∈ resolvedEntries es cites mc ∧ e.key = key ∧ items e.key = some it ∧
      eval evalFuel (ctxOf es e it) it.template = .error (.missing f) ∧
      Missing (ctxOf es e it) (.node it.template) f ∧
      (∃ lk ∈ allRequired (ctxOf es e it) it.template, lk.name = f ∧ lookupFails (ctxOf es e it) lk = true) ∧
      ∀ p ∈ pre, ∃ it r, items p.key = some it ∧ eval evalFuel (ctxOf es p it) it.template = .ok r := by
  rw [formatBibliography_eq] at h
  split at h
  · simp only [Prod.mk.injEq] at h; cases h.2
  · rename_i ls hls
    simp only [Prod.mk.injEq] at h
    have hlen := formatLabels_length hls
    obtain ⟨pre, label, e, post, it, hl, hk, hi, he, hpre⟩ := formatEntries_missing _ _ _ _ _ h.2
    have hsnd : sortEntries sorting (resolvedEntries es cites mc) = pre.map Prod.snd ++ e :: post.map Prod.snd := by
      have := congrArg (List.map Prod.snd) hl
      rw [List.map_snd_zip (by omega)] at this
      simpa using this
    have hmem : e ∈ resolvedEntries es cites mc := by
      have hin : e ∈ sortEntries sorting (resolvedEntries es cites mc) := by rw [hsnd]; simp
      cases sorting with
      | none => exact hin
      | authorYearTitle => exact (sortBy_perm _ _).mem_iff.1 hin
    refine ⟨pre.map Prod.snd, e, post.map Prod.snd, it, hsnd, hmem, hk, hi, he,
      (C07_missing_iff _ _ _).1 ⟨_, he⟩, (C07_missing_required_eval _ _ _).1 f he, ?_⟩
    intro p hp
    obtain ⟨q, hq, rfl⟩ := List.mem_map.1 hp
    exact hpre q hq

theorem C07_missing_required_nonvacuous :
    -- `nj` has no journal (required by the third sentence): reported; a missing optional year/note is not
    view (formatBibliography
        [art "b" "Zed" "1999" "T",
         { key := s "nj", type := s "article", fields := CIDict.ofPairs [(s "title", s "T")],
           persons := CIDict.ofPairs [(s "author", [{ last := [s "Zed"] }])] }]
        (fun _ => some (item "Zed")) [s "b", s "nj"] 2 .none .number) = .inl (.missingField (s "journal") (s "nj")) ∧
    view (formatBibliography
        [{ key := s "ny", type := s "article", fields := CIDict.ofPairs [(s "title", s "T"), (s "journal", s "J")],
           persons := CIDict.ofPairs [(s "author", [{ last := [s "Zed"] }])] }]
        (fun _ => some (item "Zed")) [s "ny"] 2 .none .number) = .inr [(s "ny", s "1", s "Zed.<newblock>T.<newblock>J.")] ∧
    requiredNodes tmpl = [.names (s "author"), .field (s "title"), .field (s "journal")] := by
  decide +kernel

/-- **Missing required field, pipeline — the converse** of `C07_missing_required`, under an explicit
fuel hypothesis (`evalFuel = 1000` suffices for the failing entry's template: the evaluation does
not run out of fuel; not proved in general, checked on every case).  If labels can be formed, the
entries in formatting order are `pre ++ e :: post`, every entry of `pre` is formatted without
error, and `Missing` holds for `e`'s template and the field `f` (left to right, the first node that
fails is a `field`/`names` node named `f` outside every failing `optional` whose lookup finds
nothing), then `format_bibliography` fails with `FieldIsMissing: missing f in e.key`. -/
theorem C07_missing_required_conv (es : List PEntry) (items : Str → Option Item) (cites : List Str) (mc : Int)
    (sorting : Sorting) (labels : Labels) (ls : List Str) (pre post : List PEntry) (e : PEntry) (it : Item) (f : Str)
    (hls : formatLabels labels (sortEntries sorting (resolvedEntries es cites mc)) = some ls)
    (hsort : sortEntries sorting (resolvedEntries es cites mc) = pre ++ e :: post)
    (hpre : ∀ p ∈ pre, ∃ it r, items p.key = some it ∧ eval evalFuel (ctxOf es p it) it.template = .ok r)
    (hi : items e.key = some it)
    (hmiss : Missing (ctxOf es e it) (.node it.template) f)
    (hfuel : eval evalFuel (ctxOf es e it) it.template ≠ .error .outOfFuel) :
    (formatBibliography es items cites mc sorting labels).2 = .error (.missingField f e.key) := by
  obtain ⟨fuel, hf⟩ := (C07_missing_iff _ _ _).2 hmiss
  have he : eval evalFuel (ctxOf es e it) it.template = .error (.missing f) := by
    rw [eval_fuel_agree hfuel (by rw [hf]; intro h; cases h), hf]
  have hlen := formatLabels_length hls
  rw [hsort] at hlen
  rw [formatBibliography_eq, hls, hsort]
  simp only
  have hsplit : ls = ls.take pre.length ++ (ls.drop pre.length) := (List.take_append_drop _ _).symm
  have hdrop : ∃ l rest, ls.drop pre.length = l :: rest := by
    cases hd : ls.drop pre.length with
    | nil =>
      have := congrArg List.length hd
      simp only [List.length_drop, List.length_nil, List.length_append, List.length_cons] at this hlen
      omega
    | cons l rest => exact ⟨l, rest, rfl⟩
  obtain ⟨l, rest, hd⟩ := hdrop
  have htl : (ls.take pre.length).length = pre.length := by
    simp only [List.length_take, List.length_append, List.length_cons] at hlen ⊢
    omega
  rw [hsplit, hd, List.zip_append htl, List.zip_cons_cons]
  refine formatEntries_missing_conv (mkDb es) items l e (rest.zip post) it f hi he _ ?_
  intro p hp
  have hp2 : p.2 ∈ pre := (List.of_mem_zip hp).2
  exact hpre p.2 hp2

namespace C07Ex
/-- an article without `journal` (required by the third sentence of `tmpl`) -/
def nj : PEntry :=
  { key := s "nj", type := s "article", fields := CIDict.ofPairs [(s "title", s "T")],
    persons := CIDict.ofPairs [(s "author", [{ last := [s "Zed"] }])] }
def esNj : List PEntry := [art "b" "Zed" "1999" "T", nj]
end C07Ex

theorem C07_missing_required_conv_nonvacuous :
    -- the database of `C07_missing_required_nonvacuous`: `b` is formatted, `nj` has no journal
    (sortEntries .none (resolvedEntries esNj [s "b", s "nj"] 2)).map (·.key) = [s "b", s "nj"] ∧
    (formatLabels .number (sortEntries .none (resolvedEntries esNj [s "b", s "nj"] 2))) = some [s "1", s "2"] ∧
    (eval evalFuel (ctxOf esNj (art "b" "Zed" "1999" "T") (item "Zed")) tmpl).toOption.map toStr
      = some (s "Zed.<newblock>T.<newblock>J, 1999.") ∧
    -- the failing entry: `Missing` holds (through `C07_missing_iff`) and the fuel suffices
    Missing (ctxOf esNj nj (item "Zed")) (.node tmpl) (s "journal") ∧
    eval evalFuel (ctxOf esNj nj (item "Zed")) tmpl ≠ .error .outOfFuel ∧
    view (formatBibliography esNj (fun _ => some (item "Zed")) [s "b", s "nj"] 2 .none .number)
      = .inl (.missingField (s "journal") (s "nj")) := by
  have hev : ∀ (x : Except TErr RT) (e : TErr), (match x with | .error e => some e | .ok _ => none) = some e →
      x = .error e := by
    intro x e h
    cases x with
    | error e' => simp only [Option.some.injEq] at h; rw [h]
    | ok _ => cases h
  have h := hev (eval evalFuel (ctxOf esNj nj (item "Zed")) tmpl) (.missing (s "journal")) (by decide +kernel)
  refine ⟨by decide +kernel, by decide +kernel, by decide +kernel, ?_, ?_, by decide +kernel⟩
  · exact (C07_missing_iff _ _ _).1 ⟨evalFuel, h⟩
  · rw [h]; intro h2; cases h2

/-! ### sentence terminators, protected case -/

/-- **Terminated.** If a template satisfies the syntactic condition `endsInSentence` (a
`sentence` with `add_period`; or a `toplevel` / `join` / `words` / `optional` / `first_of` /
`tag` / `href` all of whose children do; or an empty or terminated literal) then every value it
evaluates to is empty or ends with one of `.`, `?`, `!` — as the last atom of the rich text
(whatever markup surrounds it) and as the last character of `str(text)`.  Lifted to the pipeline:
every formatted entry whose template satisfies the condition is empty or terminated. -/
theorem C07_terminated :
    (∀ fuel ctx t r, endsInSentence t = true → eval fuel ctx t = .ok r →
      len r = 0 ∨ (Flat.terminated Gen.terminators (sem [] r) = true ∧
        ∃ pre c, toStr r = pre ++ [c] ∧ [c] ∈ Gen.terminators)) ∧
    (∀ es items cites mc sorting labels rep fs,
      formatBibliography es items cites mc sorting labels = (rep, .ok fs) →
      ∀ f ∈ fs, (∀ it, items f.key = some it → endsInSentence it.template = true) → Terminated f.text) := by
  constructor
  · intro fuel ctx t r he h
    rcases (eval_terminated ctx fuel).1 t r he h with h' | h'
    · exact Or.inl h'
    · exact Or.inr ⟨h', toStr_of_terminated h'⟩
  · intro es items cites mc sorting labels rep fs h f hf hall
    obtain ⟨e, -, it, hi, hk, he⟩ := formatBibliography_ok_mem h f hf
    exact (eval_terminated _ _).1 _ _ (hall it (by rw [hk]; exact hi)) he

theorem C07_terminated_nonvacuous :
    endsInSentence tmpl = true ∧
    -- a title that already ends with `?` gets no period; the others do
    view (formatBibliography [art "q" "Zed" "1999" "Why?"] (fun _ => some (item "Zed")) [s "q"] 2 .none .number)
      = .inr [(s "q", s "1", s "Zed.<newblock>Why?<newblock>J, 1999.")] := by decide +kernel

/-- **Protected case.** (1) `Text.from_latex` puts every character inside braces under one
`Protected` per brace level (and drops the braces).  (2) `lower`, `upper`, `capfirst`,
`capitalize`, `dashify` — all `apply_func`s of `field` nodes in the shipped styles — leave the
protected atoms (characters with their markup) exactly as they are.  (3) A `sentence` node
(`capfirst`, `capitalize`, `add_period`) leaves the protected atoms of the joined children as
they are: the period it may append is not protected.  (4) So the value of a `field` node has
exactly the protected atoms of the brace structure of the field's value as the codec decodes it
(`decodeOf ctx.decode v`: the real latexcodec result, supplied as data). -/
theorem C07_protected_case :
    (∀ v r, fromLatex v = .ok r → sem [] r = flatLatex 0 v) ∧
    (∀ t, protAtoms (sem [] (lowerT t)) = protAtoms (sem [] t) ∧
          protAtoms (sem [] (upperT t)) = protAtoms (sem [] t) ∧
          protAtoms (sem [] (RT.capfirst t)) = protAtoms (sem [] t) ∧
          protAtoms (sem [] (RT.capitalize t)) = protAtoms (sem [] t) ∧
          protAtoms (sem [] (dashify t)) = protAtoms (sem [] t)) ∧
    (∀ fuel ctx cf cap ap sep cs r, eval (fuel + 1) ctx (.sentence cf cap ap sep cs) = .ok r →
      ∃ parts, evalList fuel ctx cs = .ok parts ∧
        protAtoms (sem [] r) = protAtoms (sem [] (joinParts sep sep sep parts))) ∧
    (∀ fuel ctx name fn r, eval fuel ctx (.field name fn false) = .ok r →
      ∃ v, ctx.entry.findField name ctx.db = some v ∧
        protAtoms (sem [] r) = protAtoms (flatLatex 0 (decodeOf ctx.decode v))) := by
  refine ⟨fun v r h => sem_fromLatex h,
    fun t => ⟨protAtoms_lowerT t, protAtoms_upperT t, protAtoms_capfirst t, protAtoms_capitalize t,
      protAtoms_dashify t⟩, ?_, ?_⟩
  · intro fuel ctx cf cap ap sep cs r h
    rw [eval_sentence] at h
    split at h
    · cases h
    · rename_i parts hp
      simp only [Except.ok.injEq] at h; subst h
      exact ⟨parts, hp, protAtoms_sentenceText _ _ _ _ _⟩
  · intro fuel ctx name fn r h
    cases fuel with
    | zero => simp [eval] at h
    | succ n =>
      simp only [eval] at h
      split at h
      · cases h
      · rename_i v hv
        simp only [Bool.false_eq_true, if_false] at h
        split at h
        · cases h
        · rename_i x hx
          simp only [Except.ok.injEq] at h; subst h
          refine ⟨v, hv, ?_⟩
          rw [← sem_fromLatex hx]
          cases fn with
          | none => rfl
          | dashify => exact protAtoms_dashify x
          | lower => exact protAtoms_lowerT x
          | capitalize => exact protAtoms_capitalize x

theorem C07_protected_case_nonvacuous :
    -- `{TeX}` keeps its case through lower + capfirst + add_period; the rest does not
    (eval 3 (ctxOf [art "b" "Zed" "1999" "on {TeX} THINGS"] (art "b" "Zed" "1999" "on {TeX} THINGS") (item "Zed"))
        (.sentence true false true (.str (s ", ")) [.field (s "title") .lower false])).toOption.map toStr
      = some (s "On TeX things.") ∧
    protAtoms (flatLatex 0 (s "on {TeX} THINGS")) = [(.ch 'T', [.prot]), (.ch 'e', [.prot]), (.ch 'X', [.prot])] := by
  decide +kernel

/-- **Protected case, whole entry.**  `C07_protected_case` is per operation; this is the statement
for a whole template / formatted entry, by induction over ALL templates (same traversal `printed` as
`C07_field_coverage`).  `protChars s` (Spec/PyStyleProt.lean) = the characters of `s` that stand under a
`Protected`, in order, each exactly as it is (same case), without the markup stack (a `tag` / `href`
around a field adds markup, which changes the stack of a protected character but neither the
character nor its being protected); `ProtCovers a b` = `protChars a` is a contiguous run of
`protChars b`.
(1) When a template evaluates to `r`, every printed `field` occurrence has a value whose protected
characters occur, character for character and still protected, among the protected characters of
`r` — whatever `sentence` (capfirst / capitalize / add_period), `join`, `words`/`together`, `tag`,
`href`, `optional`, `first_of`, `names` / `name_part` nodes stand above it.
(2) For a non-raw occurrence the protected atoms of the value are exactly those of the brace
structure of the field's value as the codec decodes it (`flatLatex`), whatever the `apply_func`.
(3) Pipeline: for every formatted entry and every printed non-raw field occurrence of its template,
the brace-protected characters of the (decoded) field value occur, same case and still protected, as
a contiguous run of the protected characters of the entry's text.
NOT stated: where in the text the run stands (that is `C07_field_coverage`, up to case), and
nothing about abbreviated name parts or `href` URLs (not in `printed`). -/
theorem C07_protected_case_pipeline :
    (∀ fuel ctx t r, eval fuel ctx t = .ok r → ∀ o ∈ printed fuel ctx t,
      ∃ val, fieldValue ctx o = some val ∧ ProtCovers (sem [] val) (sem [] r)) ∧
    (∀ ctx o val, fieldValue ctx o = some val → o.raw = false →
      ∃ v, ctx.entry.findField o.name ctx.db = some v ∧
        protAtoms (sem [] val) = protAtoms (flatLatex 0 (decodeOf ctx.decode v))) ∧
    (∀ es items cites mc sorting labels rep fs,
      formatBibliography es items cites mc sorting labels = (rep, .ok fs) →
      ∀ f ∈ fs, ∃ e ∈ resolvedEntries es cites mc, ∃ it, items e.key = some it ∧ f.key = e.key ∧
        ∀ o ∈ printed evalFuel (ctxOf es e it) it.template, o.raw = false →
          ∃ v, (ctxOf es e it).entry.findField o.name (ctxOf es e it).db = some v ∧
            ProtCovers (flatLatex 0 (decodeOf (ctxOf es e it).decode v)) (sem [] f.text)) := by
  refine ⟨fun fuel ctx t r h o ho => (eval_protCoverage ctx fuel).1 t r h o ho,
    fun ctx o val h hr => fieldValue_protAtoms h hr, ?_⟩
  intro es items cites mc sorting labels rep fs h f hf
  obtain ⟨e, hm, it, hi, hk, he⟩ := formatBibliography_ok_mem h f hf
  refine ⟨e, hm, it, hi, hk, ?_⟩
  intro o ho hr
  obtain ⟨val, hv, hc⟩ := (eval_protCoverage _ _).1 _ _ he o ho
  obtain ⟨v, hfv, hp⟩ := fieldValue_protAtoms hv hr
  refine ⟨v, hfv, ?_⟩
  unfold ProtCovers protChars at hc ⊢
  rw [← hp]; exact hc

theorem C07_protected_case_pipeline_nonvacuous :
    -- a lower-casing title field inside a tag inside a capfirst sentence: `{TeX}` and `{B}` survive
    (printed 10 (ctxOf [art "b" "Zed" "1999" "on {TeX} THINGS and {B}ig"] (art "b" "Zed" "1999" "on {TeX} THINGS and {B}ig") (item "Zed"))
        (.sentence true false true (.str (s ", ")) [.tag (s "em") [.field (s "title") .lower false]])).map
        (fun o => (o.name, o.raw)) = [(s "title", false)] ∧
    (eval 10 (ctxOf [art "b" "Zed" "1999" "on {TeX} THINGS and {B}ig"] (art "b" "Zed" "1999" "on {TeX} THINGS and {B}ig") (item "Zed"))
        (.sentence true false true (.str (s ", ")) [.tag (s "em") [.field (s "title") .lower false]])).toOption.map
        (fun r => (toStr r, protChars (sem [] r)))
      = some (s "On TeX things and Big.", [.ch 'T', .ch 'e', .ch 'X', .ch 'B']) ∧
    protChars (flatLatex 0 (s "on {TeX} THINGS and {B}ig")) = [.ch 'T', .ch 'e', .ch 'X', .ch 'B'] ∧
    -- whole pipeline: entry `A` of the example database, title `On {TeX} things`
    (match (formatBibliography entries items [s "A"] 2 .none .number).2 with
      | .ok fs => fs.map (fun f : Formatted => protChars (sem [] f.text)) | .error _ => []) = [[.ch 'T', .ch 'e', .ch 'X']] := by
  decide +kernel

/-! ### field coverage -/

/-- **Field coverage.** By induction over ALL templates: when a template evaluates to `r`, every
`field` node that contributes to the output (`printed`: the nodes evaluated on the successful
path — all children of `join` / `together` / `sentence` / `tag` / `href` / unabbreviated
`name_part`, the name templates a `names` node evaluates, the children of an `optional` that does
not fail, the chosen alternative of a `first_of`; not the URL of an `href`, not abbreviated name
parts) has a value — the field exists (own or inherited), parses, and is passed through the
node's `apply_func` — and the text of that value occurs in `str(r)` as a contiguous piece:
literally, or up to letter case when the node is under a `sentence` with `capfirst`/`capitalize`.
The text of the value is the field's string — as decoded by the codec, `decodeOf ctx.decode v` — with
the braces removed (`apply_func` none), resp.
equal to it up to letter case (`lower`, `capitalize`), resp. has the same atoms apart from the
character `-` and the symbol `ndash` (`dashify`).  Lifted to the pipeline: this holds for
every formatted entry and its template. -/
theorem C07_field_coverage :
    (∀ fuel ctx t r, eval fuel ctx t = .ok r → ∀ o ∈ printed fuel ctx t,
      ∃ val, fieldValue ctx o = some val ∧ Covers o.caseChanged (toStr val) (toStr r)) ∧
    (∀ ctx o val, fieldValue ctx o = some val →
      ∃ v, ctx.entry.findField o.name ctx.db = some v ∧
        (o.raw = true → o.fn = .none → toStr val = v) ∧
        (o.raw = false → o.fn = .none → toStr val = stripBraces (decodeOf ctx.decode v)) ∧
        (o.raw = false → (o.fn = .lower ∨ o.fn = .capitalize) →
          lower (toStr val) = lower (stripBraces (decodeOf ctx.decode v))) ∧
        (o.raw = false → o.fn = .dashify → nonDash (sem [] val) = nonDash (flatLatex 0 (decodeOf ctx.decode v)))) ∧
    (∀ es items cites mc sorting labels rep fs,
      formatBibliography es items cites mc sorting labels = (rep, .ok fs) →
      ∀ f ∈ fs, ∃ e ∈ resolvedEntries es cites mc, ∃ it, items e.key = some it ∧ f.key = e.key ∧
        ∀ o ∈ printed evalFuel (ctxOf es e it) it.template,
          ∃ val, fieldValue (ctxOf es e it) o = some val ∧ Covers o.caseChanged (toStr val) (toStr f.text)) := by
  refine ⟨fun fuel ctx t r h o ho => (eval_coverage ctx fuel).1 t r h o ho, fun ctx o val h => fieldValue_text h, ?_⟩
  intro es items cites mc sorting labels rep fs h f hf
  obtain ⟨e, hm, it, hi, hk, he⟩ := formatBibliography_ok_mem h f hf
  exact ⟨e, hm, it, hi, hk, fun o ho => (eval_coverage _ _).1 _ _ he o ho⟩

theorem C07_field_coverage_nonvacuous :
    -- the three fields the template prints for `A`; `title` is under a sentence with capfirst
    (printed evalFuel (ctxOf entries (art "A" "Abel" "2001" "On {TeX} things") (item "A Abel")) tmpl).map
        (fun o => (o.name, o.caseChanged)) = [(s "title", true), (s "journal", false), (s "year", false)] ∧
    (eval evalFuel (ctxOf entries (art "A" "Abel" "2001" "On {TeX} things") (item "A Abel")) tmpl).toOption.map toStr
      = some (s "A Abel.<newblock>On TeX things.<newblock>J, 2001.") ∧
    stripBraces (s "On {TeX} things") = s "On TeX things" ∧
    -- dashify: runs of unprotected hyphens become one en-dash symbol, a protected hyphen stays
    (match fromLatex (s "11--20, 3{-}4") with | .ok r => some (toStr (dashify r)) | .error _ => none)
      = some (s "11<ndash>20, 3-4") := by decide +kernel

/-! ### name coverage, abbreviation, Unicode keys and labels -/

namespace C07Ex

/-- `plain.NameStyle().format(Person("Donald Ervin Knuth, Jr"), abbr)`:
`join [name_part(tie, abbr)[first + middle], name_part(tie)[von], name_part[last], name_part(before=", ")[jr]]` -/
def knuth (abbr : Bool) : T :=
  .join (.str []) (.str []) (.str [])
    [.namePart (.str []) true abbr [.lit (mk .text [.str (s "Donald")]), .lit (mk .text [.str (s "Ervin")])],
     .namePart (.str []) true false [],
     .namePart (.str []) false false [.lit (mk .text [.str (s "Knuth")])],
     .namePart (.str (s ", ")) false false [.lit (mk .text [.str (s "Jr")])]]

def knuthItem (abbr : Bool) : Item :=
  { template := tmpl, personTemplates := [(s "author", [knuth abbr])] }

end C07Ex

/-- **Name coverage.** By induction over ALL templates (in particular all name-style templates):
when a template evaluates to `r`, every name word on the evaluated path — the literal children of
the `name_part` nodes, reached through the name templates a `names` node evaluates; same
traversal as `printed` — is shown in `str(r)` as a contiguous piece: the word itself, or
`word.abbreviate()` when the `name_part` abbreviates (literally, or up to letter case under a
`sentence` with `capfirst` / `capitalize`).  What `abbreviate()` shows of a word is
`C07_abbreviate`.  Lifted to the pipeline: this holds for every formatted entry.  (That the
shipped name styles put every part of the person — first, von, last, lineage — under a
`name_part` is a fact about the serialised templates, checked by the oracle clause
`name_coverage` on every case.) -/
theorem C07_name_coverage :
    (∀ fuel ctx t r, eval fuel ctx t = .ok r → ∀ o ∈ printedN fuel ctx t,
      Covers o.caseChanged (toStr o.shown) (toStr r)) ∧
    (∀ es items cites mc sorting labels rep fs,
      formatBibliography es items cites mc sorting labels = (rep, .ok fs) →
      ∀ f ∈ fs, ∃ e ∈ resolvedEntries es cites mc, ∃ it, items e.key = some it ∧ f.key = e.key ∧
        ∀ o ∈ printedN evalFuel (ctxOf es e it) it.template,
          Covers o.caseChanged (toStr o.shown) (toStr f.text)) := by
  refine ⟨fun fuel ctx t r h o ho => (eval_nameCoverage ctx fuel).1 t r h o ho, ?_⟩
  intro es items cites mc sorting labels rep fs h f hf
  obtain ⟨e, hm, it, hi, hk, he⟩ := formatBibliography_ok_mem h f hf
  exact ⟨e, hm, it, hi, hk, fun o ho => (eval_nameCoverage _ _).1 _ _ he o ho⟩

theorem C07_name_coverage_nonvacuous :
    -- the five words of "Donald Ervin Knuth, Jr" with abbreviate_names: the first names are shown as initials
    (printedN evalFuel (ctxOf entries (art "A" "Abel" "2001" "T") (knuthItem true)) tmpl).map
        (fun o => (toStr o.text, o.abbr, toStr o.shown))
      = [(s "Donald", true, s "D."), (s "Ervin", true, s "E."), (s "Knuth", false, s "Knuth"), (s "Jr", false, s "Jr")] ∧
    (eval evalFuel (ctxOf entries (art "A" "Abel" "2001" "T") (knuthItem true)) tmpl).toOption.map toStr
      = some (s "D.<nbsp>E. Knuth, Jr.<newblock>T.<newblock>J, 2001.") ∧
    (eval evalFuel (ctxOf entries (art "A" "Abel" "2001" "T") (knuthItem false)) tmpl).toOption.map toStr
      = some (s "Donald<nbsp>Ervin Knuth, Jr.<newblock>T.<newblock>J, 2001.") := by decide +kernel

/-- **`abbreviate()`.** The text is cut at every white-space character and hyphen outside
`Protected` (`abbrPieces`; the separators are pieces of their own, nothing is lost: the pieces
spell the text); the result spells, piece by piece, the first character followed by a period for
a piece that is alphabetic (`str.isalpha`, the interpreter's table) and the piece itself
otherwise — so it contains every piece of the word or its first letter plus `.`; on a plain
string the rich-text operation agrees with `textutils.abbreviate` used for the alpha labels. -/
theorem C07_abbreviate (t : RT) :
    ((abbrPieces t).map toStr).flatten = toStr t ∧
    toStr (abbreviate t) = ((abbrPieces t).map abbrPiece).flatten ∧
    (∀ w, isAlphaTU w = true → ∃ c rest, toStr w = c :: rest ∧ isAlphaN c = true ∧ abbrPiece w = [c, '.']) ∧
    (∀ w, isAlphaTU w = false → abbrPiece w = toStr w) :=
  ⟨abbrPieces_flatten t, toStr_abbreviate_pieces t, fun _ h => abbrPiece_alpha h,
   fun w h => by simp [abbrPiece, h]⟩

theorem C07_abbreviate_nonvacuous :
    -- a protected group is never cut; "É." is not alphabetic (the period) and stays
    (abbrPieces (mk .text [.str (s "Jean-Paul É. "), mk .prot [.str (s "de la")]])).map toStr
      = [s "Jean", s "-", s "Paul", s " ", s "É.", s " ", s "de la"] ∧
    toStr (abbreviate (mk .text [.str (s "Jean-Paul Éric "), mk .prot [.str (s "de la")]])) = s "J.-P. É. de la" ∧
    abbreviateStr (s "Jean-Paul Éric x2") = s "J.-P. É. x2" := by decide +kernel

/-- **Sort keys and alpha labels outside ASCII** (the code uses `str.lower()`, `unicodedata`
NFD and `str.isalpha`; the model uses the interpreter's regenerated tables).  The person key of
`author_year_title` is case-normalised with `str.lower` (`lowerU`): normalising again changes
nothing, and persons that differ in letter case only (ASCII case mapping) have the same key.
`_strip_nonalnum` keeps exactly ASCII letters and digits: those of the text itself and the base
letters of accented characters. -/
theorem C07_unicode_keys :
    (∀ p, lowerU (personKey p) = personKey p) ∧
    (∀ p q : Person, lower (joinWith [' ', ' '] [sp (p.prelast ++ p.last), sp (p.first ++ p.middle), sp p.lineage])
        = lower (joinWith [' ', ' '] [sp (q.prelast ++ q.last), sp (q.first ++ q.middle), sp q.lineage]) →
      personKey p = personKey q) ∧
    (∀ parts, ∀ c ∈ stripNonalnum parts, isAlnum c = true) := by
  refine ⟨?_, fun p q h => lowerU_of_lower h, stripNonalnum_alnum⟩
  intro p
  simp only [personKey, lowerU, List.map_map]
  exact List.map_congr_left fun c _ => lowerUC_idem c

theorem C07_unicode_keys_nonvacuous :
    -- Éz / éa: Python orders the lower-cased keys "éz  " > "éa  " (the ASCII model had "Éz" < "éa")
    personKey { last := [s "Éz"] } = s "éz    " ∧ personKey { last := [s "éa"] } = s "éa    " ∧
    strLt (personKey { last := [s "éa"] }) (personKey { last := [s "Éz"] }) = true ∧
    -- Ångström: NFD + non-combining + [A-Za-z0-9] gives Angstrom, the label of a single author is its first three letters
    stripNonalnum [s "Ångström"] = s "Angstrom" ∧
    formatLabNames [{ first := [s "Anders"], last := [s "Ångström"] }] = some (s "Ang") ∧
    formatLabNames [{ last := [s "Éz"] }, { prelast := [s "de"], last := [s "Ørsted-Ñandú"] }] = some (s "EdN") := by
  decide +kernel

/-- **Alpha base labels** (the `format_label` of the alpha label style, before the suffix letters):
every base label ends with the last two characters of the year when the entry has one; the part
made from a list of persons (`format_lab_names`) consists of ASCII letters, digits and `+` only
(accents are stripped to base letters, everything else is dropped); for an entry of an ordinary
type (not book / inbook / proceedings / manual) with authors the base label is exactly
`format_lab_names(authors)` followed by the year suffix. -/
theorem C07_alpha_base_label :
    (∀ e l, formatLabel e = some l → ∃ b, l = b ++ year2 e) ∧
    (∀ ps l, formatLabNames ps = some l → ∀ c ∈ l, isAlnum c = true ∨ c = '+') ∧
    (∀ e ps, ¬(e.type = "book".toList ∨ e.type = "inbook".toList) → e.type ≠ "proceedings".toList →
      e.type ≠ "manual".toList → getPersons e "author" = some ps →
      formatLabel e = (formatLabNames ps).map (· ++ year2 e)) :=
  ⟨formatLabel_year, formatLabNames_chars, formatLabel_author⟩

theorem C07_alpha_base_label_nonvacuous :
    formatLabel (art "b" "Zed" "1999" "T") = some (s "Zed99") ∧ year2 (art "b" "Zed" "1999" "T") = s "99" ∧
    -- five authors: three initials and "+"; a final "others" counts as "+"
    formatLabNames [{ last := [s "Aa"] }, { last := [s "Bb"] }, { last := [s "Cc"] }, { last := [s "Dd"] }, { last := [s "Ee"] }]
      = some (s "ABC+") ∧
    formatLabNames [{ prelast := [s "von"], last := [s "Ñandú"] }, { last := [s "others"] }] = some (s "vN+") := by
  decide +kernel

end Pybtex.Props
