/-
C12 — brace- and special-character-aware string primitives obey their algebra.

Property theorems only; helper lemmas are in `Lemmas/TeXString.lean`, the model of the code in
`Model/TeXString.lean`, the reference notions (what the reader has to agree with: `substring`,
`depthAfter`, `balanced`, `maxDepth`, `endsInSpecial`/`specialsClosed`, `depthSat`,
`textLength`) in `Spec/TeXString.lean`.
-/
import PybtexModel.Lemmas.TeXString
import PybtexModel.Lemmas.TeXStringU
import PybtexModel.Lemmas.TeXSplit
import PybtexModel.Lemmas.TeXSplitFirst
import PybtexModel.Model.Width
import PybtexModel.Lemmas.WidthPass
import PybtexModel.Lemmas.TeXCaseFull
import PybtexModel.Lemmas.TeXPrefixClosers

namespace Pybtex.Props
open Pybtex Spec TeXU

/-- the example string `ab{\'e x}{c d}e` used by the non-vacuity instances -/
private abbrev ex1 : Str := "ab{\\'e x}{c d}e".toList

/-! ### substring -/

/-- `bibtex_substring` is BibTeX's `substring$`: 1-based, end-relative and extending to the left
for a negative start, clamped to the string, empty for start 0 or length ≤ 0 — for **all**
integer arguments. -/
theorem C12_substring_spec (s : Str) (start len : Int) :
    bibtexSubstring s start len = Spec.substring s start len :=
  bibtexSubstring_eq_spec s start len

/-! ### scanning -/

/-- a brace-balanced string has no unclosed special character -/
theorem C12_balanced_specials_closed (s : Str) (h : balanced s = true) : specialsClosed s = true :=
  specialsClosed_of_balanced s h

theorem C12_balanced_specials_closed_nonvacuous :
    balanced ex1 = true ∧ specialsClosed ex1 = true := by decide

/-- Scanning is lossless: concatenating the tokens gives the string back whenever every special
character is closed (in particular on balanced input); in general the only difference is one
`}` appended after an unclosed special character. -/
theorem C12_scan_lossless (s : Str) (toks : List Tok) (h : scan s = some toks) :
    (specialsClosed s = true → (toks.map Prod.fst).flatten = s) ∧
    (balanced s = true → (toks.map Prod.fst).flatten = s) ∧
    ((toks.map Prod.fst).flatten = s ∨ (toks.map Prod.fst).flatten = s ++ ['}']) := by
  have h1 := scanM_text _ _ _ h
  simp only [tokText, ScanMode.acc, ScanMode.sp, ScanMode.depth, List.nil_append] at h1
  have hc : specialsClosed s = true → (toks.map Prod.fst).flatten = s := by
    intro hs
    simp only [specialsClosed, Bool.not_eq_true'] at hs
    rw [h1, hs]; simp [closeIf]
  refine ⟨hc, fun hb => hc (specialsClosed_of_balanced s hb), ?_⟩
  rw [h1]
  cases endsInSpecial false 0 s <;> simp [closeIf]

theorem C12_scan_lossless_nonvacuous :
    ∃ toks, scan ex1 = some toks ∧ balanced ex1 = true ∧ toks.length = 11 := by decide

/-- without the hypothesis the statement is false: an unclosed special character gets a closing
brace that is not in the input -/
theorem C12_scan_lossless_neg :
    ¬ ∀ (s : Str) (toks : List Tok), scan s = some toks → (toks.map Prod.fst).flatten = s := by
  intro h
  have := h ['{', '\\'] _ rfl
  revert this; decide

/-- On input whose brace depth never goes negative and whose special characters are closed (in
particular on balanced input) every token's level is the running brace depth of the text
consumed up to and including that token; on balanced input the last level is 0. -/
theorem C12_scan_levels (s : Str) (toks : List Tok) (h : scan s = some toks)
    (hd : (depthAfter 0 s).isSome = true) (hs : specialsClosed s = true) :
    (∀ pre t post, toks = pre ++ t :: post →
        depthAfter 0 ((pre ++ [t]).map Prod.fst).flatten = some t.2) ∧
    (balanced s = true → ∀ t, toks.getLast? = some t → t.2 = 0) := by
  obtain ⟨e, he⟩ := Option.isSome_iff_exists.1 hd
  have hsp : endsInSpecial false 0 s = false := by
    simpa [specialsClosed] using hs
  have hl : LevelChain 0 toks := scanM_levels _ _ _ h e he hsp
  refine ⟨hl.prefix, ?_⟩
  intro hb t ht
  obtain ⟨pre, rfl⟩ : ∃ pre, toks = pre ++ [t] := by
    refine ⟨toks.dropLast, ?_⟩
    have hne : toks ≠ [] := by intro h0; simp [h0] at ht
    rw [List.getLast?_eq_some_getLast hne] at ht
    cases ht
    exact (List.dropLast_concat_getLast hne).symm
  have h1 := hl.prefix pre t [] rfl
  have h2 := (C12_scan_lossless s _ h).1 hs
  simp only [tokText] at h1
  rw [h2] at h1
  simp only [balanced, decide_eq_true_eq] at hb
  rw [hb] at h1
  exact (Option.some.inj h1).symm

theorem C12_scan_levels_nonvacuous :
    (scan ex1).isSome = true ∧ (depthAfter 0 ex1).isSome = true ∧ specialsClosed ex1 = true ∧
      balanced ex1 = true := by decide

/-- The scanner fails (`BibTeXError('too many nested braces')`) exactly when the nesting depth
exceeds the limit. -/
theorem C12_scan_total (s : Str) : (scan s).isSome = true ↔ maxDepth 0 s ≤ maxLevel :=
  scanM_isSome_iff (.norm 0) s (by simp [maxLevel])

/-! ### text length -/

/-- `bibtex_len` is the reference text length (braces not counted, a special character counted
once, every other character once) whenever the nesting guard does not fire, and the error
otherwise. -/
theorem C12_len_spec (s : Str) :
    bibtexLen s = if maxDepth 0 s ≤ maxLevel then some (textLength false 0 s) else none := by
  rw [bibtexLen_eq]
  split
  · rename_i hm
    obtain ⟨toks, ht⟩ := Option.isSome_iff_exists.1 ((C12_scan_total s).2 hm)
    rw [ht]
    exact congrArg some (scanM_count _ _ _ ht)
  · rename_i hm
    have : scan s = none := by
      cases h : scan s with
      | none => rfl
      | some t => exact absurd ((C12_scan_total s).1 (by simp [h])) hm
    rw [this]; rfl

/-- the text length of a string without braces is its length -/
theorem C12_len_plain (s : Str) (hs : ∀ c ∈ s, c ≠ '{' ∧ c ≠ '}') : bibtexLen s = some s.length := by
  rw [bibtexLen_eq, scan, scanM_plain s 0 hs]
  exact congrArg some (tokCount_plain s 0 hs)

theorem C12_len_plain_nonvacuous :
    (∀ c ∈ "de la Vallee".toList, c ≠ '{' ∧ c ≠ '}') ∧ bibtexLen "de la Vallee".toList = some 12 :=
  ⟨by simp, by decide⟩

/-- braces themselves are never counted: without a backslash (hence without special characters)
the text length is the number of characters that are not braces -/
theorem C12_len_braces (s : Str) (hs : ∀ c ∈ s, c ≠ '\\') (hm : maxDepth 0 s ≤ maxLevel) :
    bibtexLen s = some (s.filter fun c => c ≠ '{' ∧ c ≠ '}').length := by
  rw [C12_len_spec, if_pos hm, textLength_no_backslash s hs]

theorem C12_len_braces_nonvacuous :
    (∀ c ∈ "a{b{c}}}d{".toList, c ≠ '\\') ∧ maxDepth 0 "a{b{c}}}d{".toList ≤ maxLevel ∧
      bibtexLen "a{b{c}}}d{".toList = some 4 := ⟨by simp, by decide, by decide⟩

/-- a closed special character `{\…}` AT THE HEAD of the string (followed by an arbitrary rest `r`)
counts exactly once, whatever its balanced body; other positions: `C12_len_spec` -/
theorem C12_len_special (body r : Str) (hb : balanced body = true) (hm : maxDepth 1 body ≤ maxLevel) :
    bibtexLen (['{', '\\'] ++ body ++ ['}'] ++ r) = (bibtexLen r).map (1 + ·) := by
  rw [bibtexLen_eq, bibtexLen_eq, scan_special body r hb hm]
  cases scan r with
  | none => rfl
  | some t =>
    simp only [Option.map_some, Option.some.injEq]
    have : isBraceTok ('\\' :: body) = false := isBraceTok_of_head rfl
    simp [tokCount_cons, isBraceTok_open, isBraceTok_close, this]

theorem C12_len_special_nonvacuous :
    balanced "'e{x} y".toList = true ∧ maxDepth 1 "'e{x} y".toList ≤ maxLevel ∧
      bibtexLen (['{', '\\'] ++ "'e{x} y".toList ++ ['}'] ++ "{c d}e".toList) = some 5 := by decide

/-! ### text prefix -/

/-- the text prefix of `n ≥ 0` characters has text length `min n (text length of s)` -/
theorem C12_prefix_len (s p : Str) (n : Int) (m : Nat) (hn : 0 ≤ n)
    (hp : bibtexPrefix s n = some p) (hm : bibtexLen s = some m) :
    bibtexLen p = some (min n.toNat m) := by
  unfold bibtexPrefix at hp
  split at hp
  · cases hp
    have : n.toNat = 0 := by omega
    rw [this]; simp; decide
  · rename_i hpos
    obtain ⟨toks, ht, rfl⟩ := Option.map_eq_some_iff.1 hp
    rw [bibtexLen_eq, ht] at hm
    simp only [Option.map_some, Option.some.injEq] at hm
    obtain ⟨toks', h1, h2⟩ := scanM_prefix n _ _ _ ht 0 (by omega)
    rw [prefixAux_zero_eq_go, bibtexLen_eq, scan, h1]
    simp only [Option.map_some, Option.some.injEq, h2, hm]
    simp

theorem C12_prefix_len_nonvacuous :
    bibtexPrefix ex1 4 = some "ab{\\'e x}{c}".toList ∧ bibtexLen ex1 = some 7 ∧
      bibtexLen "ab{\\'e x}{c}".toList = some 4 := by decide

/-- [model wiring] nothing for a count ≤ 0: the first test of `bibtexPrefix` (model of the repaired
code, fix fd32373) restated; the code is tied to it by the correspondence check -/
theorem C12_prefix_nonpos (s : Str) (n : Int) (hn : n ≤ 0) : bibtexPrefix s n = some [] := by
  simp [bibtexPrefix, hn]

theorem C12_prefix_nonpos_nonvacuous : bibtexPrefix ex1 (-3) = some [] := by decide

/-- The text prefix is a prefix `q` of the string followed by closing braces; when every special
character of the string is closed there are exactly as many of them as braces are open at the
end of `q` (otherwise `q` may include the `}` the scanner appends after the unclosed special
character). -/
theorem C12_prefix_is_prefix (s p : Str) (n : Int) (hp : bibtexPrefix s n = some p) :
    ∃ q k, p = q ++ List.replicate k '}' ∧
      (if specialsClosed s = true then q <+: s ∧ k = depthSat 0 q else q <+: s ++ ['}']) := by
  unfold bibtexPrefix at hp
  split at hp
  · cases hp
    refine ⟨[], 0, rfl, ?_⟩
    split
    · exact ⟨List.nil_prefix, rfl⟩
    · exact List.nil_prefix
  · obtain ⟨toks, ht, rfl⟩ := Option.map_eq_some_iff.1 hp
    rw [prefixAux_zero_eq_go]
    obtain ⟨pre, post, h1, h2⟩ := prefixGo_shape n toks 0 0
    refine ⟨tokText pre, lastLvl 0 pre, h2, ?_⟩
    have htxt := scanM_text _ _ _ ht
    simp only [ScanMode.acc, ScanMode.sp, ScanMode.depth, List.nil_append] at htxt
    have hpre : tokText pre <+: tokText toks := by rw [h1, tokText_append]; exact List.prefix_append _ _
    rw [htxt] at hpre
    split
    · rename_i hs
      have hsp : endsInSpecial false 0 s = false := by simpa [specialsClosed] using hs
      rw [hsp] at hpre
      refine ⟨by simpa [closeIf] using hpre, ?_⟩
      have hc : SatChain 0 toks := scanM_sat _ _ _ ht hsp
      rw [h1] at hc
      exact hc.left.depth.symm
    · rename_i hs
      have hsp : endsInSpecial false 0 s = true := by simpa [specialsClosed] using hs
      rw [hsp] at hpre
      exact hpre

theorem C12_prefix_is_prefix_nonvacuous :
    bibtexPrefix ex1 5 = some ("ab{\\'e x}{c " ++ "}").toList ∧ specialsClosed ex1 = true ∧
      "ab{\\'e x}{c ".toList <+: ex1 ∧ depthSat 0 "ab{\\'e x}{c ".toList = 1 := by decide

/-- the unclosed-special-character branch of `C12_prefix_is_prefix` -/
theorem C12_prefix_is_prefix_nonvacuous' :
    bibtexPrefix "{\\a{b".toList 1 = some "{\\a{b}".toList ∧ specialsClosed "{\\a{b".toList = false := by
  decide

/-- where the brace depth never goes negative, the saturating depth `depthSat` used above is the
brace depth -/
theorem C12_depthSat_depthAfter (q : Str) (e : Nat) (h : depthAfter 0 q = some e) : depthSat 0 q = e :=
  depthSat_of_depthAfter q 0 e h

theorem C12_depthSat_depthAfter_nonvacuous :
    depthAfter 0 "ab{\\'e x}{c ".toList = some 1 ∧ depthSat 0 "ab{\\'e x}{c ".toList = 1 := by decide

/-! ### purify -/

/-- every character of a purified string is an (ASCII) letter, a digit or a space -/
theorem C12_purify_range (s p : Str) (h : bibtexPurify s = some p) :
    ∀ c ∈ p, isAlnum c = true ∨ c = ' ' := by
  obtain ⟨toks, _, rfl⟩ := Option.map_eq_some_iff.1 h
  intro c hc
  obtain ⟨l, hl, hcl⟩ := List.mem_flatten.1 hc
  obtain ⟨t, _, rfl⟩ := List.mem_map.1 hl
  exact purifyTok_range t c hcl

/-- purify is idempotent -/
theorem C12_purify_idem (s p : Str) (h : bibtexPurify s = some p) : bibtexPurify p = some p :=
  purify_fixed p (C12_purify_range s p h)

theorem C12_purify_range_nonvacuous : bibtexPurify ex1 = some "abexc de".toList := by decide

theorem C12_purify_idem_nonvacuous :
    bibtexPurify ex1 = some "abexc de".toList ∧
      bibtexPurify "abexc de".toList = some "abexc de".toList := by decide

/-! ### case change -/

/-- case change keeps the letters up to case (and every other character) when every special
character is closed -/
theorem C12_case_letters (s r : Str) (m : CaseMode) (hs : specialsClosed s = true)
    (h : changeCase s m = some r) : lower r = lower s := by
  obtain ⟨toks, ht, rfl⟩ := Option.map_eq_some_iff.1 h
  rw [changeCaseAux_eq, lower_caseToks]
  have := (C12_scan_lossless s toks ht).1 hs
  simp only [tokText]; rw [this]

/-- case change preserves the length when every special character is closed -/
theorem C12_case_len_partial (s r : Str) (m : CaseMode) (hs : specialsClosed s = true)
    (h : changeCase s m = some r) : r.length = s.length :=
  length_eq_of_lower_eq (C12_case_letters s r m hs h)

theorem C12_case_letters_nonvacuous :
    specialsClosed ex1 = true ∧ changeCase ex1 .u = some "AB{\\'e X}{c d}E".toList := by decide

theorem C12_case_len_partial_nonvacuous :
    specialsClosed ex1 = true ∧ changeCase ex1 .u = some "AB{\\'e X}{c d}E".toList := by decide

/-- the hypothesis is needed: after an unclosed special character the result is one character
longer (and has one more non-letter) than the input -/
theorem C12_case_len_neg :
    ¬ ∀ (s r : Str) (m : CaseMode), changeCase s m = some r → r.length = s.length := by
  intro h
  have := h ['{', '\\'] _ .l rfl
  revert this; decide

theorem C12_case_letters_neg :
    ¬ ∀ (s r : Str) (m : CaseMode), changeCase s m = some r → lower r = lower s := by
  intro h
  have := h ['{', '\\'] _ .l rfl
  revert this; decide

/-- case change is idempotent when every special character is closed -/
theorem C12_case_idem_partial (s r : Str) (m : CaseMode) (hs : specialsClosed s = true)
    (h : changeCase s m = some r) : changeCase r m = some r := by
  have hlow := C12_case_letters s r m hs h
  obtain ⟨toks, ht, rfl⟩ := Option.map_eq_some_iff.1 h
  rw [changeCaseAux_eq] at hlow ⊢
  -- the result scans into tokens of the same shape
  obtain ⟨toks', h1, h2⟩ := scanM_skel _ _ _ ht _ hlow
  have hsp : endsInSpecial false 0 s = false := by simpa [specialsClosed] using hs
  have htxt := scanM_text _ _ _ h1
  simp only [ScanMode.acc, ScanMode.sp, ScanMode.depth, List.nil_append,
    endsInSpecial_of_lower_eq s _ false 0 hlow, hsp, closeIf, List.append_nil] at htxt
  have heq : toks' = caseToks m .start toks := shape_eq h2 (caseToks_shape m toks .start) htxt
  subst heq
  simp only [changeCase, scan, h1, Option.map_some, changeCaseAux_eq, caseToks_idem]

theorem C12_case_idem_partial_nonvacuous :
    specialsClosed "aB{\\'E x}{c D}e: Fg".toList = true ∧
      changeCase "aB{\\'E x}{c D}e: Fg".toList .t = some "ab{\\'E x}{c D}e: Fg".toList ∧
      changeCase "ab{\\'E x}{c D}e: Fg".toList .t = some "ab{\\'E x}{c D}e: Fg".toList := by decide

/-- the hypothesis is needed: with a further open brace inside an unclosed special character
every application appends another `}` -/
theorem C12_case_idem_neg :
    ¬ ∀ (s r : Str) (m : CaseMode), changeCase s m = some r → changeCase r m = some r := by
  intro h
  have := h ['{', '\\', '{'] _ .l rfl
  revert this; decide

/-- Inside braces case change changes nothing except the non-command words of a special
character: the result is the concatenation of converted tokens with the same levels, where a
token at level ≥ 1 that is not a special character (level 1, starting with a backslash) is
unchanged, and in a special character the words (split at spaces) that start with a backslash
are unchanged while the other words keep their letters up to case. -/
theorem C12_case_braces (s r : Str) (m : CaseMode) (toks : List Tok) (hs : scan s = some toks)
    (h : changeCase s m = some r) :
    ∃ toks' : List Tok, r = (toks'.map Prod.fst).flatten ∧
      List.Forall₂ (fun t t' : Tok =>
        t'.2 = t.2 ∧
        (1 ≤ t.2 → ¬ (t.2 = 1 ∧ startsWithBackslash t.1 = true) → t'.1 = t.1) ∧
        (t.2 = 1 → startsWithBackslash t.1 = true →
          ∃ ws', t'.1 = joinWith [' '] ws' ∧
            List.Forall₂ (fun w w' => (startsWithBackslash w = true → w' = w) ∧ lower w' = lower w)
              (splitSpace t.1) ws')) toks toks' := by
  simp only [changeCase, hs, Option.map_some, Option.some.injEq] at h
  subst h
  exact ⟨caseToks m .start toks, changeCaseAux_eq m toks .start, caseToks_rel m toks .start⟩

theorem C12_case_braces_nonvacuous :
    changeCase "a{\\'e x \\aa}{c d}{{\\o}}".toList .u = some "A{\\'e X \\aa}{c d}{{\\o}}".toList := by
  decide

/-! ### top-level splitting -/

/-- top-level splitting never splits inside braces: on balanced input every part is balanced -/
theorem C12_split_braces (sep : Sep) (s : Str) (hb : balanced s = true) :
    ∀ p ∈ splitTexRaw sep s, balanced p = true := by
  by_cases hs : s = []
  · subst hs; intro p hp; simp [splitTexRaw, splitLoop_succ, headStep, finish] at hp
  · simp only [balanced, decide_eq_true_eq] at hb
    obtain ⟨p, ps, h1, _, h3⟩ := splitLoop_main sep (s.length + 1) s none (by omega) hb (Or.inl hs)
    rw [splitTexRaw, h1]
    exact h3

/-- top-level splitting drops only separators: on balanced input the input is the parts in order
with one separator match between consecutive parts (nothing for the empty string) -/
theorem C12_split_drops_seps (sep : Sep) (s : Str) (hb : balanced s = true) :
    (s = [] → splitTexRaw sep s = []) ∧
    (s ≠ [] → SplitsTo
      (match sep with
        | .space => isSpaceSep
        | .comma => fun m => m == [',']
        | .hyphen => fun m => m == ['-']
        | .and => isAndSep) s (splitTexRaw sep s)) := by
  constructor
  · intro hs; subst hs; simp [splitTexRaw, splitLoop_succ, headStep, finish]
  · intro hs
    simp only [balanced, decide_eq_true_eq] at hb
    obtain ⟨p, ps, h1, h2, _⟩ := splitLoop_main sep (s.length + 1) s none (by omega) hb (Or.inl hs)
    rw [splitTexRaw, h1]
    cases sep <;> exact h2

theorem C12_split_braces_nonvacuous :
    balanced "ab{\\'e x}{c d}e fg~ h".toList = true ∧
      splitTexRaw .space "ab{\\'e x}{c d}e fg~ h".toList =
        ["ab{\\'e x}{c d}e".toList, "fg".toList, "h".toList] ∧
      splitTexRaw .and "{a and b} And c".toList = ["{a and b}".toList, "c".toList] := by
  decide +kernel

theorem C12_split_drops_seps_nonvacuous :
    balanced "a, {b, c},d".toList = true ∧
      splitTexRaw .comma "a, {b, c},d".toList = ["a".toList, " {b, c}".toList, "d".toList] := by
  decide +kernel

/-- the fuel of the two loops of the model (length + 1) is never exhausted: more fuel gives the
same result -/
theorem C12_split_fuel (sep : Sep) (s : Str) (fuel : Nat) (h : s.length < fuel) :
    splitLoop sep fuel s [] none = splitTexRaw sep s ∧
    reSplitAux sep fuel none [] s = reSplit sep s :=
  ⟨splitLoop_fuel sep fuel (s.length + 1) s [] none h (by omega),
   reSplitAux_fuel sep fuel (s.length + 1) none [] s h (by omega)⟩

/-! ## Round 2

### the primitives over the character tables of the running interpreter

`Model/TeXStringU.lean` has the character-class dependent primitives generic in the character
operations; `uniOps` = `str.isalnum`, `str.isalpha` and the single-character part of
`str.lower` / `str.upper` of the interpreter the check runs on (regenerated tables).  This is what
the correspondence check drives.  `caseDomain` (decidable) is the set of strings on which
character-by-character case mapping IS `str.lower` / `str.upper`; the theorems below hold for the
model on every string, they speak about the code on `caseDomain` (outside: known finding
C12-case-length-changing-letter, the clauses are then checked on the implementation alone). -/

/-- the generic primitives at the ASCII operations are the primitives of round 1 (the theorems
above are about the same functions) -/
theorem C12_generic_at_ascii (s : Str) (m : CaseMode) :
    bibtexPurifyG asciiOps s = bibtexPurify s ∧ changeCaseG asciiOps s m = changeCase s m ∧
      bibtexFirstLetterG asciiOps s = bibtexFirstLetter s :=
  ⟨bibtexPurifyG_ascii s, changeCaseG_ascii s m, bibtexFirstLetterG_ascii s⟩

/-- purify yields only alphanumerics (`str.isalnum` of the running interpreter) and blanks -/
theorem C12_purify_range_unicode (s p : Str) (h : bibtexPurifyG uniOps s = some p) :
    ∀ c ∈ p, isAlnumU c = true ∨ c = ' ' := by
  obtain ⟨toks, _, rfl⟩ := Option.map_eq_some_iff.1 h
  intro c hc
  obtain ⟨l, hl, hcl⟩ := List.mem_flatten.1 hc
  obtain ⟨t, _, rfl⟩ := List.mem_map.1 hl
  exact purifyTokG_range uniOps t c hcl

/-- purify is idempotent (Unicode alphanumerics) -/
theorem C12_purify_idem_unicode (s p : Str) (h : bibtexPurifyG uniOps s = some p) :
    bibtexPurifyG uniOps p = some p :=
  purifyG_fixed uniOps uniOps_alnum_braces.1 uniOps_alnum_braces.2 p (C12_purify_range_unicode s p h)

/-- é ² ① 中 are alphanumerics, the combining accent and the dash are not -/
theorem C12_purify_range_unicode_nonvacuous :
    bibtexPurifyG uniOps "é²①中{\\'e}–x".toList = some "é²①中ex".toList ∧
      bibtexPurifyG uniOps "é²①中ex".toList = some "é²①中ex".toList := by decide +kernel

theorem C12_purify_idem_unicode_nonvacuous :
    bibtexPurifyG uniOps "Straße-1".toList = some "Straße 1".toList ∧
      bibtexPurifyG uniOps "Straße 1".toList = some "Straße 1".toList := by decide +kernel

/-- "Equal up to case" has a canonical form: `caseFoldC c = lower (upper c)` absorbs both case
mappings and leaves the structural characters (braces, backslash, blank, colon, white space)
alone and unreachable.  (`lower` alone is not canonical: ı ↦ I ↦ i.) -/
theorem C12_case_fold_canonical (c : Char) :
    caseFoldC (lowerUC c) = caseFoldC c ∧ caseFoldC (upperUC c) = caseFoldC c ∧
      (∀ x, isStruct x = true → (caseFoldC c = x ↔ c = x)) :=
  ⟨caseFoldC_lowerUC c, caseFoldC_upperUC c, fun _ hx => caseFoldC_struct hx⟩

theorem C12_case_fold_canonical_nonvacuous :
    caseFoldC 'ı' = 'i' ∧ caseFoldC 'I' = 'i' ∧ lowerUC 'ı' = 'ı' ∧ caseFoldC 'ſ' = 's' ∧
      caseFoldC 'É' = 'é' ∧ caseFoldC '{' = '{' ∧ isStruct '{' = true := by decide +kernel

/-- case change keeps every letter up to case and every other character (when every special
character is closed) -/
theorem C12_case_letters_unicode (s r : Str) (m : CaseMode) (hs : specialsClosed s = true)
    (h : changeCaseG uniOps s m = some r) : r.map caseFoldC = s.map caseFoldC :=
  uniLaws.case_letters s r m hs h

/-- case change preserves the length (when every special character is closed); this is a fact
about the code on `caseDomain` only -/
theorem C12_case_len_unicode (s r : Str) (m : CaseMode) (hs : specialsClosed s = true)
    (h : changeCaseG uniOps s m = some r) : r.length = s.length :=
  length_eq_of_fold_eq (C12_case_letters_unicode s r m hs h)

/-- case change is idempotent (when every special character is closed) -/
theorem C12_case_idem_unicode (s r : Str) (m : CaseMode) (hs : specialsClosed s = true)
    (h : changeCaseG uniOps s m = some r) : changeCaseG uniOps r m = some r :=
  uniLaws.case_idem s r m hs h

theorem C12_case_letters_unicode_nonvacuous :
    specialsClosed "éA{\\'e ıx}{c é}ſ: Дg".toList = true ∧
      changeCaseG uniOps "éA{\\'e ıx}{c é}ſ: Дg".toList .u =
        some "ÉA{\\'e IX}{c é}S: ДG".toList ∧
      changeCaseG uniOps "ÉA{\\'e IX}{c é}S: ДG".toList .u =
        some "ÉA{\\'e IX}{c é}S: ДG".toList := by decide +kernel

theorem C12_case_len_unicode_nonvacuous :
    caseDomain "École {\\'e}".toList = true ∧
      changeCaseG uniOps "École {\\'e}".toList .l = some "école {\\'e}".toList := by decide +kernel

theorem C12_case_idem_unicode_nonvacuous :
    changeCaseG uniOps "ÉCOLE: ÉTÉ".toList .t = some "École: Été".toList ∧
      changeCaseG uniOps "École: Été".toList .t = some "École: Été".toList := by
  decide +kernel

/-- [model wiring] the domain of the case-changing model evaluated on literals: a plain string is
inside; `Straße`, İ, ŉ, ǰ, ﬁ and the capital sigma are outside (there the model keeps the length,
the code does not: ß ↦ SS); the sizes of the two regenerated tables.  That EVERY letter of the two
tables is outside is the definition of `caseDomainC`, not a consequence of this theorem. -/
theorem C12_case_domain :
    caseDomain "Strasse {\\ss} éıſ".toList = true ∧ caseDomain "Straße".toList = false ∧
      caseDomain [Char.ofNat 0x130] = false ∧ caseDomain [Char.ofNat 0x149] = false ∧
      caseDomain [Char.ofNat 0x1F0] = false ∧ caseDomain [Char.ofNat 0xFB01] = false ∧
      caseDomain [Char.ofNat 0x3A3] = false ∧
      Gen.upperMultiC12.length = 102 ∧ Gen.lowerMulti = [0x130] := by decide +kernel

/-- inside braces case change changes nothing except the non-command words of a special
character (Unicode case mapping; letters up to case by `caseFoldC`) -/
theorem C12_case_braces_unicode (s r : Str) (m : CaseMode) (toks : List Tok) (hs : scan s = some toks)
    (h : changeCaseG uniOps s m = some r) :
    ∃ toks' : List Tok, r = (toks'.map Prod.fst).flatten ∧
      List.Forall₂ (fun t t' : Tok =>
        t'.2 = t.2 ∧
        (1 ≤ t.2 → ¬ (t.2 = 1 ∧ startsWithBackslash t.1 = true) → t'.1 = t.1) ∧
        (t.2 = 1 → startsWithBackslash t.1 = true →
          ∃ ws', t'.1 = joinWith [' '] ws' ∧
            List.Forall₂ (fun w w' => (startsWithBackslash w = true → w' = w) ∧ w'.map caseFoldC = w.map caseFoldC)
              (splitSpace t.1) ws')) toks toks' := by
  simp only [changeCaseG, hs, Option.map_some, Option.some.injEq] at h
  subst h
  exact ⟨caseToksG uniOps m .start toks, changeCaseAuxG_eq uniOps m toks .start, uniLaws.caseToks_rel m toks .start⟩

theorem C12_case_braces_unicode_nonvacuous :
    changeCaseG uniOps "é{\\'e é \\aa}{c é}{{\\o}}".toList .u =
      some "É{\\'e É \\aa}{c é}{{\\o}}".toList := by decide +kernel

/-! ### the mode string of `change.case$` -/

/-- Every mode letter: the built-in looks at the FIRST character of the mode string only, in either
case (`l L`, `u U`, `t T`; no other character of Unicode lower-cases to one of them); an empty
mode string and any other first character are BibTeX errors. -/
theorem C12_change_case_mode (o : CharOps) (s : Str) :
    changeCaseBuiltin o s [] = .error .emptyMode ∧
    ∀ (c : Char) (rest : Str), changeCaseBuiltin o s (c :: rest) =
      (let run := fun m => match changeCaseG o s m with | none => Except.error BuiltinErr.tooDeep | some r => .ok r
       if c = 'l' ∨ c = 'L' then run .l
       else if c = 'u' ∨ c = 'U' then run .u
       else if c = 't' ∨ c = 'T' then run .t
       else .error .incorrectMode) := by
  refine ⟨rfl, fun c rest => ?_⟩
  obtain ⟨h1, h2, h3⟩ := lowerUC_mode c
  simp only [changeCaseBuiltin, modeLetter, h1, h2, h3]
  by_cases hl : c = 'l' ∨ c = 'L'
  · simp only [if_pos hl]; cases changeCaseG o s CaseMode.l <;> rfl
  · simp only [if_neg hl]
    by_cases hu : c = 'u' ∨ c = 'U'
    · simp only [if_pos hu]; cases changeCaseG o s CaseMode.u <;> rfl
    · simp only [if_neg hu]
      by_cases ht : c = 't' ∨ c = 'T'
      · simp only [if_pos ht]; cases changeCaseG o s CaseMode.t <;> rfl
      · simp only [if_neg ht]

/-- observable part of a built-in's result (for the decidable instances below) -/
private def obs : Except BuiltinErr Str → Option Str × Option BuiltinErr
  | .ok r => (some r, none)
  | .error e => (none, some e)

theorem C12_change_case_mode_nonvacuous :
    obs (changeCaseBuiltin uniOps "aB cD".toList "Title".toList) = (some "ab cd".toList, none) ∧
      obs (changeCaseBuiltin uniOps "aB".toList "U".toList) = (some "AB".toList, none) ∧
      obs (changeCaseBuiltin uniOps "aB".toList "x".toList) = (none, some .incorrectMode) ∧
      obs (changeCaseBuiltin uniOps "aB".toList []) = (none, some .emptyMode) := by decide +kernel

/-! ### splitting: strip, every input, maximality -/

/-- what the call sites get: the unstripped pieces, each stripped of the white space at its two
ends, and — for the default separator only — the empty ones dropped; `split_name_list` strips and
keeps empties.  Conjuncts 1–2 are [model wiring] (the definition of `splitTex` / `splitNameList`
unfolded, `rfl`): a bridge from the theorems about `splitTexRaw` to the call sites.  The proved
content is conjunct 3: `strip` removes nothing but white space at the two ends
(`p = l ++ strip p ++ r` with `l`, `r` white space). -/
theorem C12_split_strip (sep : Sep) (s : Str) :
    splitTex sep s = (if sep = .space then ((splitTexRaw sep s).map strip).filter (· ≠ [])
                      else (splitTexRaw sep s).map strip) ∧
    splitNameList s = (splitTexRaw .and s).map strip ∧
    (∀ p : Str, ∃ l r, p = l ++ strip p ++ r ∧ l.all isWs = true ∧ r.all isWs = true) :=
  ⟨rfl, rfl, strip_decomp⟩

theorem C12_split_strip_nonvacuous :
    splitTexRaw .comma "a , {b, c},  ,d ".toList = ["a ".toList, " {b, c}".toList, "  ".toList, "d ".toList] ∧
      splitTex .comma "a , {b, c},  ,d ".toList = ["a".toList, "{b, c}".toList, [], "d".toList] ∧
      splitNameList "A and  and B".toList = ["A".toList, [], "B".toList] := by decide +kernel

/-- on balanced input the stripped parts (what the call sites get) are balanced as well -/
theorem C12_split_stripped_balanced (sep : Sep) (s : Str) (hb : balanced s = true) :
    ∀ p ∈ splitTex sep s, balanced p = true := by
  intro p hp
  have key : ∀ q ∈ (splitTexRaw sep s).map strip, balanced q = true := by
    intro q hq
    obtain ⟨q0, hq0, rfl⟩ := List.mem_map.1 hq
    exact balanced_strip q0 (C12_split_braces sep s hb q0 hq0)
  rw [(C12_split_strip sep s).1] at hp
  split at hp
  · exact key p (List.mem_filter.1 hp).1
  · exact key p hp

theorem C12_split_stripped_balanced_nonvacuous :
    balanced "de {la Vall{\\'e}e} ~Poussin ".toList = true ∧
      splitTex .space "de {la Vall{\\'e}e} ~Poussin ".toList = ["de".toList, "{la Vall{\\'e}e}".toList, "Poussin".toList] := by
  decide +kernel

/-- EVERY string (balanced or not), after the repair of `_find_closing_brace`: the input is the
parts in order with one separator match between consecutive parts, and every dropped separator
lies at brace level 0, where the level is the running brace depth in which an unmatched closing
brace is an ordinary character — a group that is never closed extends to the end of the string
and is never split. -/
theorem C12_split_top (sep : Sep) (s : Str) :
    (s = [] → splitTexRaw sep s = []) ∧
    (s ≠ [] → SplitsTop
      (match sep with
        | .space => isSpaceSep
        | .comma => fun m => m == [',']
        | .hyphen => fun m => m == ['-']
        | .and => isAndSep) s (splitTexRaw sep s)) := by
  constructor
  · intro hs; subst hs; simp [splitTexRaw, splitLoop_succ, headStep, finish]
  · intro hs
    obtain ⟨p, ps, h1, h2, _⟩ := splitLoop_gen sep (s.length + 1) s none (by omega) (Or.inl hs)
    rw [splitTexRaw, h1]
    cases sep <;> exact h2

/-- the group of `{x{y} z w` is never closed: nothing is split (before the repair the code gave
`{x{y}`, `z`, `w`); an unmatched closing brace is an ordinary character -/
theorem C12_split_top_nonvacuous :
    splitTexRaw .space "{x{y} z w".toList = ["{x{y} z w".toList] ∧
      splitTexRaw .space "a} b {c d".toList = ["a}".toList, "b".toList, "{c d".toList] ∧
      depthSat 0 "a}".toList = 0 ∧ balanced "{x{y} z w".toList = false := by decide +kernel

/-- MAXIMALITY, every string: no part contains a match of the separator at brace level 0 (level as
in `C12_split_top`; for the default separator a match is a white-space character or a tie that
does not follow a backslash).  With `C12_split_top` / `C12_split_drops_seps`: no splitter that
leaves a brace-level-0 separator inside a part qualifies.  This does NOT yet determine the parts
(`a and and b`, `a\ b`: `C12_split_leftmost_nonvacuous`); `C12_split_leftmost` does. -/
theorem C12_split_maximal (sep : Sep) (s : Str) :
    ∀ p ∈ splitTexRaw sep s, ¬ HasTopSep
      (match sep with
        | .space => spaceMatchAfter
        | .comma => commaMatchAfter
        | .hyphen => hyphenMatchAfter
        | .and => andMatchAfter) p := by
  intro p hp
  by_cases hs : s = []
  · subst hs; simp [splitTexRaw, splitLoop_succ, headStep, finish] at hp
  · obtain ⟨q, qs, h1, _, h3⟩ := splitLoop_gen sep (s.length + 1) s none (by omega) (Or.inl hs)
    rw [splitTexRaw, h1] at hp
    have := not_hasTopSep_of_topFree sep p (h3 p (by simpa using hp))
    cases sep <;> exact this

/-- a tie after a backslash is no separator, a brace-level-0 blank is: `HasTopSep` holds of the
unsplit text and of none of its parts -/
theorem C12_split_maximal_nonvacuous :
    HasTopSep spaceMatchAfter "a\\~b {c d}~e".toList ∧
      splitTexRaw .space "a\\~b {c d}~e".toList = ["a\\~b".toList, "{c d}".toList, "e".toList] ∧
      splitTexRaw .and "a and b\tand\tc".toList = ["a".toList, "b\tand\tc".toList] :=
  ⟨⟨"a\\~b".toList, [' '], "{c d}~e".toList, by decide, by decide, by decide⟩, by decide +kernel, by decide +kernel⟩

/-- The two halves together (this closes the loophole that `SplitsTo.one` alone leaves: a splitter
that never splits satisfies `C12_split_drops_seps` but not this): for every non-empty string the
pieces are A decomposition of the input into parts WITHOUT a top-level separator match, separated
by top-level separator matches.  Such a decomposition need not be unique (overlapping ` and and `,
a backslash before a blank, a run of blanks cut in the middle); THE decomposition is the
leftmost-match one of `C12_split_leftmost`. -/
theorem C12_split_characterised (sep : Sep) (s : Str) (hs : s ≠ []) :
    SplitsTop
      (match sep with
        | .space => isSpaceSep
        | .comma => fun m => m == [',']
        | .hyphen => fun m => m == ['-']
        | .and => isAndSep) s (splitTexRaw sep s) ∧
    ∀ p ∈ splitTexRaw sep s, ¬ HasTopSep
      (match sep with
        | .space => spaceMatchAfter
        | .comma => commaMatchAfter
        | .hyphen => hyphenMatchAfter
        | .and => andMatchAfter) p :=
  ⟨(C12_split_top sep s).2 hs, C12_split_maximal sep s⟩

/-- the unsplit text is a (trivial) `SplitsTo` decomposition of itself, but it has a top-level
separator: it is not what the splitter may return -/
theorem C12_split_characterised_nonvacuous :
    SplitsTo isSpaceSep "a b".toList ["a b".toList] ∧ HasTopSep spaceMatchAfter "a b".toList ∧
      splitTexRaw .space "a b".toList = ["a".toList, "b".toList] :=
  ⟨SplitsTo.one _, ⟨"a".toList, [' '], "b".toList, by decide, by decide, by decide⟩, by decide +kernel⟩

/-- LEFTMOST MATCH, every non-empty string — this pins the parts down.  The pieces are THE
first-match decomposition (`Spec.SplitsFirst`, written without the matcher of the model): the
input is the parts in order with one COMPLETE separator match between consecutive parts (for the
default separator the whole greedy run: it begins a match and cannot be continued); each of these
matches lies at brace level 0 (level as in `C12_split_top`) and is the FIRST one after the previous
cut — no match begins at a brace-level-0 position inside the part before it, not even one reaching
beyond that part — and no match begins at level 0 in the last part.  And this decomposition is
unique: any list of parts with these properties IS the result.  (What `re.split` does with the
text between two brace groups; that the hand-written matchers follow `re` is checked by the
correspondence.) -/
theorem C12_split_leftmost (sep : Sep) (s : Str) (hs : s ≠ []) :
    SplitsFirst
      (match sep with
        | .space => spaceBeginsAfter
        | .comma => commaBeginsAfter
        | .hyphen => hyphenBeginsAfter
        | .and => andBeginsAfter)
      (match sep with
        | .space => spaceFullMatch
        | .comma => commaFullMatch
        | .hyphen => hyphenFullMatch
        | .and => andFullMatch) s (splitTexRaw sep s) ∧
    ∀ L : List Str, SplitsFirst
      (match sep with
        | .space => spaceBeginsAfter
        | .comma => commaBeginsAfter
        | .hyphen => hyphenBeginsAfter
        | .and => andBeginsAfter)
      (match sep with
        | .space => spaceFullMatch
        | .comma => commaFullMatch
        | .hyphen => hyphenFullMatch
        | .and => andFullMatch) s L → L = splitTexRaw sep s := by
  have h := splitTexRaw_splitsFirst sep s hs
  have hu : ∀ L : List Str, SplitsFirst (beginsOf sep) (fullOf sep) s L → L = splitTexRaw sep s :=
    fun L hL => splitsFirst_unique sep hL h
  cases sep <;> exact ⟨h, hu⟩

/-- the two strings on which `C12_split_characterised` leaves a choice: `a and and b` — the other
candidate `a and | b` also consists of parts without a top-level separator, separated by a
top-level separator, but it is not the first-match decomposition; `a\ b` — the backslash belongs
to the separator (`\ ` is a unit of the pattern), the candidate `a\ | b` is rejected -/
theorem C12_split_leftmost_nonvacuous :
    splitTexRaw .and "a and and b".toList = ["a".toList, "and b".toList] ∧
      (SplitsTop isAndSep "a and and b".toList ["a and".toList, "b".toList] ∧
        ∀ p ∈ ["a and".toList, "b".toList], ¬ HasTopSep andMatchAfter p) ∧
      ¬ SplitsFirst andBeginsAfter andFullMatch "a and and b".toList ["a and".toList, "b".toList] ∧
      splitTexRaw .space "a\\ b".toList = ["a".toList, "b".toList] ∧
      ¬ SplitsFirst spaceBeginsAfter spaceFullMatch "a\\ b".toList ["a\\".toList, "b".toList] ∧
      splitTexRaw .space "a \\ ~\tb".toList = ["a".toList, "b".toList] ∧
      ¬ SplitsFirst spaceBeginsAfter spaceFullMatch "a \\ ~\tb".toList ["a".toList, [], "b".toList] := by
  have e1 : splitTexRaw .and "a and and b".toList = ["a".toList, "and b".toList] := by decide +kernel
  have e2 : splitTexRaw .space "a\\ b".toList = ["a".toList, "b".toList] := by decide +kernel
  have e3 : splitTexRaw .space "a \\ ~\tb".toList = ["a".toList, "b".toList] := by decide +kernel
  refine ⟨e1, ⟨?_, ?_⟩, ?_, e2, ?_, e3, ?_⟩
  · exact SplitsTop.cons "a and".toList " and ".toList "b".toList _ (by decide) (by decide) (SplitsTop.one _)
  · intro p hp
    have hfree : topFree .and p = true := by
      simp only [List.mem_cons, List.not_mem_nil, or_false] at hp
      rcases hp with rfl | rfl <;> decide +kernel
    exact not_hasTopSep_of_topFree .and p hfree
  · intro h
    have := (C12_split_leftmost .and "a and and b".toList (by decide)).2 _ h
    rw [e1] at this
    revert this; decide
  · intro h
    have := (C12_split_leftmost .space "a\\ b".toList (by decide)).2 _ h
    rw [e2] at this
    revert this; decide
  · intro h
    have := (C12_split_leftmost .space "a \\ ~\tb".toList (by decide)).2 _ h
    rw [e3] at this
    revert this; decide

/-- the same for the stripped parts the call sites get -/
theorem C12_split_maximal_stripped (sep : Sep) (s : Str) :
    ∀ p ∈ splitTex sep s, ¬ HasTopSep
      (match sep with
        | .space => spaceMatchAfter
        | .comma => commaMatchAfter
        | .hyphen => hyphenMatchAfter
        | .and => andMatchAfter) p := by
  intro p hp
  have key : ∀ q ∈ (splitTexRaw sep s).map strip, ¬ HasTopSep (matchAfterOf sep) q := by
    intro q hq
    obtain ⟨q0, hq0, rfl⟩ := List.mem_map.1 hq
    rintro ⟨a, m, b, he, hd, hm⟩
    obtain ⟨l, r, hq, hl, _⟩ := strip_decomp q0
    have hlb : ∀ c ∈ l, c ≠ '{' := fun c hc => (isWs_not_brace (List.all_eq_true.1 hl c hc)).1
    have h0 := C12_split_maximal sep s q0 hq0
    apply h0
    refine ⟨l ++ a, m, b ++ r, by rw [hq, he]; simp, ?_, ?_⟩
    · rw [depthSat_append, depthSat_noOpen l hlb, hd]
    · cases sep <;> simp only [matchAfterOf] at hm ⊢ <;> try exact hm
      -- the default separator: a tie must still not follow a backslash
      simp only [spaceMatchAfter] at hm ⊢
      split at hm
      · rename_i c
        simp only [Bool.or_eq_true, Bool.and_eq_true, decide_eq_true_eq] at hm ⊢
        rcases hm with hw | ⟨hc, hl2⟩
        · exact Or.inl hw
        · refine Or.inr ⟨hc, ?_⟩
          cases a with
          | nil =>
            simp only [List.append_nil]
            intro hbs
            have := List.all_eq_true.1 hl '\\' (List.mem_of_getLast? hbs)
            revert this; decide
          | cons x y =>
            rw [List.getLast?_append]
            cases hgl : (x :: y).getLast? with
            | none => simp at hgl
            | some z => rw [hgl] at hl2; simpa using hl2
      · cases hm
  have hfin : ¬ HasTopSep (matchAfterOf sep) p := by
    rw [(C12_split_strip sep s).1] at hp
    split at hp
    · exact key p (List.mem_filter.1 hp).1
    · exact key p hp
  clear key hp
  cases sep <;> exact hfin

theorem C12_split_maximal_stripped_nonvacuous :
    splitTex .space " a\\~b  {c d}~e ".toList = ["a\\~b".toList, "{c d}".toList, "e".toList] := by decide +kernel

/-! ### first letter, abbreviation, width (anchored mechanism; no clause of the statement) -/

/-- `bibtex_first_letter`: the first token in scan order that is a special character with
something after its backslash (answered in braces) or a letter; nothing if there is none.  A
brace-level-0 backslash is not a special character and is skipped. -/
theorem C12_first_letter_spec (o : CharOps) (s : Str) :
    bibtexFirstLetterG o s = (scan s).map (Spec.firstLetterOf o.alpha) := by
  simp only [bibtexFirstLetterG]
  congr 1
  funext toks
  exact firstLetterAuxG_eq_spec o toks

theorem C12_first_letter_spec_nonvacuous :
    bibtexFirstLetterG uniOps "\\'Emile Zola".toList = some "E".toList ∧
      bibtexFirstLetterG uniOps "{\\TeX} markup".toList = some "{\\TeX}".toList ∧
      bibtexFirstLetterG uniOps "1{\\}Édouard".toList = some "É".toList ∧
      bibtexFirstLetterG uniOps "123 {}".toList = some [] := by decide +kernel

/-- without braces and backslashes the first letter is the first letter -/
theorem C12_first_letter_plain (o : CharOps) (s : Str) (hs : ∀ c ∈ s, c ≠ '{' ∧ c ≠ '}' ∧ c ≠ '\\') :
    bibtexFirstLetterG o s = some (match s.find? o.alpha with | some c => [c] | none => []) := by
  rw [bibtexFirstLetterG, scan, scanM_plain s 0 (fun c hc => ⟨(hs c hc).1, (hs c hc).2.1⟩)]
  exact congrArg some (firstLetterAuxG_plain o s 0 hs)

theorem C12_first_letter_plain_nonvacuous :
    (∀ c ∈ "12 d'Aviano".toList, c ≠ '{' ∧ c ≠ '}' ∧ c ≠ '\\') ∧
      bibtexFirstLetterG uniOps "12 d'Aviano".toList = some "d".toList := ⟨by simp, by decide +kernel⟩

/-- [model wiring] `bibtex_abbreviate`, success direction only: the first letters of the top-level
hyphen pieces (stripped), those without a letter skipped, in order, joined with the delimiter
(default `.-`).  The statement unfolds `bibtexAbbreviateG` (`mapM` as `Forall₂`); the last conjunct
is a tautology.  What the pieces and the letters are: `C12_split_leftmost`, `C12_first_letter_spec`. -/
theorem C12_abbreviate_spec (o : CharOps) (s r : Str) (delim : Option Str)
    (h : bibtexAbbreviateG o s delim = some r) :
    ∃ letters : List Str,
      List.Forall₂ (fun piece l => bibtexFirstLetterG o piece = some l) (splitTex .hyphen s) letters ∧
      r = joinWith (delim.getD ['.', '-']) (letters.filter (· ≠ [])) ∧
      ∀ l ∈ letters.filter (· ≠ []), l ≠ [] := by
  simp only [bibtexAbbreviateG] at h
  cases hm : (splitTex .hyphen s).mapM (bibtexFirstLetterG o) with
  | none => simp [hm] at h
  | some letters =>
    simp [hm] at h
    refine ⟨letters, mapM_some_forall₂ _ _ _ hm, ?_, ?_⟩
    · rw [← h]
      congr 1
      apply List.filter_congr
      intro x _
      simp
    intro l hl
    simpa using (List.mem_filter.1 hl).2

theorem C12_abbreviate_spec_nonvacuous :
    bibtexAbbreviateG uniOps "Jean--Pierre".toList none = some "J.-P".toList ∧
      bibtexAbbreviateG uniOps "Jean-{\\'E}mile-{x-y}".toList (some ['.']) = some "J.{\\'E}.x".toList ∧
      bibtexAbbreviateG uniOps "-A-".toList none = some "A".toList := by decide +kernel

/-- `bibtex_width` of a string without braces: the sum of the character widths -/
theorem C12_width_plain (w : Char → Int) (s : Str) (hs : ∀ c ∈ s, c ≠ '{' ∧ c ≠ '}') :
    bibtexWidth w s = some (s.map w).sum := by
  rw [bibtexWidth, scan, scanM_plain s 0 hs]
  exact congrArg some (width_plain_toks w s 0 (fun c hc => (hs c hc).1) false (Or.inl rfl))

theorem C12_width_plain_nonvacuous :
    (∀ c ∈ "abc".toList, c ≠ '{' ∧ c ≠ '}') ∧ bibtexWidthStd "abc".toList = some 1500 := ⟨by simp, by decide +kernel⟩

/-- a closed special character: its two braces, plus the characters after the first one of its
command (inner braces not counted), minus 1000 ("two braces") -/
theorem C12_width_special (w : Char → Int) (body r : Str) (hb : balanced body = true)
    (hm : maxDepth 1 body ≤ maxLevel) :
    bibtexWidth w (['{', '\\'] ++ body ++ ['}'] ++ r) =
      (bibtexWidth w r).map fun x => w '{' + (specialWidth w body - 1000) + w '}' + x := by
  rw [bibtexWidth, bibtexWidth, scan_special body r hb hm]
  cases scan r with
  | none => rfl
  | some t =>
    simp only [Option.map_some, Option.some.injEq, widthToks]
    have h1 : widthTok w false (['{'], 1) = w '{' := by simp [widthTok, startsWithBackslash]
    have h2 : widthTok w true ('\\' :: body, 1) = specialWidth w body - 1000 := by
      simp [widthTok, startsWithBackslash, specialWidth]
    have h3 : ∀ b, widthTok w b (['}'], 0) = w '}' := by intro b; simp [widthTok]
    have f3 : decide (((['}'], 0) : Tok) = (['{'], 1)) = false := by simp
    rw [decide_true, h1, h2, h3, f3]
    omega

theorem C12_width_special_nonvacuous :
    balanced "'c{d}".toList = true ∧ maxDepth 1 "'c{d}".toList ≤ maxLevel ∧
      bibtexWidthStd "ab{\\'c{d}}".toList = some 2056 := by decide +kernel

/-- **`bibtex_width` without the scanner.**  On every string within the nesting limit `bibtex_width`
is the one-pass width `Spec.widthOnePass` (`Spec/TeXString.lean`: a brace counter and nothing else):
outside a special character EVERY character adds its own width — braces and backslashes included,
at any brace level; a special character is a `{` at brace level 0 immediately followed by a
backslash, up to the matching `}` or the end of the string, and nothing else (after the repair
C03-2 a backslash further inside an ordinary group is an ordinary character).  What the TEXT of a
special character adds is pybtex's rule (every character behind the backslash and the character
after it, braces excepted; recorded finding `C03-width-special-char-contents`), stated inside
`widthPass`. -/
theorem C12_width_onepass (w : Char → Int) (s : Str) (hd : maxDepth 0 s ≤ maxLevel) :
    bibtexWidth w s = some (Spec.widthOnePass w s) := by
  obtain ⟨toks, ht⟩ := Option.isSome_iff_exists.1 ((C12_scan_total s).2 hd)
  exact WidthPass.bibtexWidth_eq_onePass w ht

/-- **"This function takes the literal literally".**  A string without special character (no `{` at
brace level 0 is immediately followed by a backslash: `Spec.noSpecial`) has the width of its
characters, whatever they are: braces, backslashes, groups nested to any depth within the limit. -/
theorem C12_width_literal (w : Char → Int) (s : Str) (hd : maxDepth 0 s ≤ maxLevel)
    (hn : Spec.noSpecial s = true) :
    bibtexWidth w s = some (s.map w).sum := by
  rw [C12_width_onepass w s hd, Spec.widthOnePass, WidthPass.widthPass_noSpecial w s 0 hn]

/-- the strings of the repaired defect: `{x\y}` is an ordinary group, its five characters count
(500 + 528 + 500 + 528 + 500); a special character in front or behind keeps its own rule -/
theorem C12_width_literal_nonvacuous :
    maxDepth 0 "{x\\y}".toList ≤ maxLevel ∧ Spec.noSpecial "{x\\y}".toList = true ∧
    bibtexWidthStd "{x\\y}".toList = some 2556 ∧ bibtexWidthStd "{xy}".toList = some 2056 ∧
    bibtexWidthStd "a{x\\y}b".toList = some 3612 ∧ bibtexWidthStd "{x{\\y}}".toList = some 3556 ∧
    Spec.noSpecial "{\\'c}".toList = false ∧ bibtexWidthStd "{\\'c}{x\\y}".toList = some 3000 ∧
    Spec.widthOnePass widthOf "ab{\\'c{d}}".toList = 2056 ∧ Spec.widthOnePass widthOf "ab{\\'c{".toList = 1500 := by
  decide +kernel

/-! ### case change with `str.lower` / `str.upper` as string operations (no domain restriction)

`Model/TeXCaseFull.lean`: the model the driver answers with for EVERY string — the interpreter's full case
mapping (ß ↦ SS, İ ↦ i̇ …) and the final-sigma rule of `str.lower` included. -/

/-- [model wiring] run with character-by-character operations, the word-level model is the
character-level model of the theorems above -/
theorem C12_case_full_wiring (o : CharOps) (s : Str) (m : CaseMode) :
    changeCaseW (charWordOps o) s m = changeCaseG o s m :=
  changeCaseW_char o s m

/-- on `caseDomain` (no letter whose case mapping changes the length, no capital sigma) the model with
the interpreter's string methods IS the character-by-character model, for `change_case` and for the
`change.case$` built-in with any mode string: every `_unicode` theorem above is a theorem about
what the check compares with the code there -/
theorem C12_case_full_on_domain (s : Str) (h : caseDomain s = true) :
    (∀ m, changeCaseW pyWordOps s m = changeCaseG uniOps s m) ∧
    (∀ mode, changeCaseBuiltinW pyWordOps s mode = changeCaseBuiltin uniOps s mode) := by
  refine ⟨fun m => changeCaseW_domain s m h, fun mode => ?_⟩
  simp only [changeCaseBuiltinW, changeCaseBuiltin]
  cases modeLetter mode with
  | error e => rfl
  | ok m => simp only [changeCaseW_domain s m h]; rfl

theorem C12_case_full_on_domain_nonvacuous :
    caseDomain "Éa: {\\x É}ıſ".toList = true ∧
      changeCaseW pyWordOps "Éa: {\\x É}ıſ".toList .u = some "ÉA: {\\x É}IS".toList := by
  decide +kernel

/-- length and letters for the unrestricted model, under both hypotheses: every special character
closed, no length-changing letter and no capital sigma -/
theorem C12_case_len_full_partial (s r : Str) (m : CaseMode) (hd : caseDomain s = true)
    (hs : specialsClosed s = true) (h : changeCaseW pyWordOps s m = some r) :
    r.length = s.length ∧ r.map caseFoldC = s.map caseFoldC := by
  rw [changeCaseW_domain s m hd] at h
  exact ⟨C12_case_len_unicode s r m hs h, C12_case_letters_unicode s r m hs h⟩

theorem C12_case_len_full_partial_nonvacuous :
    caseDomain "ab{\\'e x}É".toList = true ∧ specialsClosed "ab{\\'e x}É".toList = true ∧
      changeCaseW pyWordOps "ab{\\'e x}É".toList .u = some "AB{\\'e X}É".toList := by
  decide +kernel

/-- without `caseDomain` length preservation fails although every special character is closed: ß ↦ SS,
İ ↦ i + U+0307, ﬁ inside a special character ↦ FI (finding C12-case-length-changing-letter, now a
machine-checked fact about the model the check drives) -/
theorem C12_case_len_full_neg :
    specialsClosed "ß".toList = true ∧ changeCaseW pyWordOps "ß".toList .u = some "SS".toList ∧
      changeCaseW pyWordOps [Char.ofNat 0x130] .l = some [Char.ofNat 0x69, Char.ofNat 0x307] ∧
      changeCaseW pyWordOps "{\\x ﬁ}".toList .u = some "{\\x FI}".toList := by
  decide +kernel

/-- EVERY string, every mode (no hypothesis): case change never shortens the string -/
theorem C12_case_len_full_ge (s r : Str) (m : CaseMode) (h : changeCaseW pyWordOps s m = some r) :
    s.length ≤ r.length :=
  changeCaseW_length_ge pyWordOps pyWordOps_grows s r m h

/-- and the capital sigma: at brace level 0 the code lower-cases character by character, so Σ never becomes a
final sigma there; inside a special character whole words are lower-cased and the final-sigma rule of `str.lower`
applies (ΑΣ ↦ ας, but ΑΣ'α ↦ ασ'α) -/
theorem C12_case_len_full_ge_nonvacuous :
    changeCaseW pyWordOps "ΑΣ".toList .l = some "ασ".toList ∧
      changeCaseW pyWordOps "{\\x ΑΣ}".toList .l = some "{\\x ας}".toList ∧
      changeCaseW pyWordOps "{\\x ΑΣ'α Σ}".toList .l = some "{\\x ασ'α σ}".toList ∧
      changeCaseW pyWordOps "{\\x ΑΣ}".toList .t = some "{\\x ΑΣ}".toList := by
  decide +kernel

/-! ### the text prefix closes the groups it opened -/

/-- EVERY string in which every special character is closed, every count: scanning the text prefix with
BibTeX's rule (a `}` at depth 0 does not lower the depth: `depthSat`) ends at depth 0, i.e. every group the
prefix opened is closed — also behind unmatched closing braces, where a net count of braces says something
else; and the prefix is a prefix `q` of the string followed by EXACTLY `depthSat 0 q` closers -/
theorem C12_prefix_closes_opened (s p : Str) (n : Int) (hs : specialsClosed s = true)
    (hp : bibtexPrefix s n = some p) :
    depthSat 0 p = 0 ∧ ∃ q, q <+: s ∧ p = q ++ List.replicate (depthSat 0 q) '}' := by
  obtain ⟨q, k, hpq, h⟩ := C12_prefix_is_prefix s p n hp
  rw [if_pos hs] at h
  obtain ⟨hq, hk⟩ := h
  subst hk
  exact ⟨by rw [hpq]; exact depthSat_closed q, q, hq, hpq⟩

/-- unmatched closing braces in front of the group the prefix ends in: the group is closed (a net count of
braces would leave it open) -/
theorem C12_prefix_closes_opened_nonvacuous :
    specialsClosed "}cd {efg} h".toList = true ∧ bibtexPrefix "}cd {efg} h".toList 4 = some "}cd {e}".toList ∧
      depthSat 0 "}cd {e}".toList = 0 ∧ depthSat 0 "}cd {e".toList = 1 ∧
      bibtexPrefix "x}y{z{w".toList 7 = some "x}y{z{w}}".toList := by
  decide

/-! ### brace-free strings: case change against the interpreter's own string methods -/

/-- EVERY string without braces (any letters, the length-changing ones and the capital sigma included):
`change_case(s, 'u')` IS `s.upper()`; `change_case(s, 'l')` lower-cases character by character
(`''.join(c.lower() for c in s)`), which is `s.lower()` whenever `s` has no capital sigma -/
theorem C12_case_plain_str_methods (s : Str) (hs : ∀ c ∈ s, c ≠ '{' ∧ c ≠ '}') :
    changeCaseW pyWordOps s .u = some (upperPy s) ∧
    changeCaseW pyWordOps s .l = some (s.flatMap fun c => lowerPy [c]) ∧
    ((∀ c ∈ s, isCapitalSigma c = false) → changeCaseW pyWordOps s .l = some (lowerPy s)) :=
  ⟨changeCaseW_plain_u s hs, changeCaseW_plain_l s hs,
   fun h => by rw [changeCaseW_plain_l s hs, flatMap_lowerPy_sigmaFree s h]⟩

/-- Straße ΑΣ: upper-cased to STRASSE ΑΣ; lower-cased character by character the sigma is not final although
`str.lower` of the whole string makes it final -/
theorem C12_case_plain_str_methods_nonvacuous :
    changeCaseW pyWordOps "Straße ΑΣ".toList .u = some "STRASSE ΑΣ".toList ∧
      changeCaseW pyWordOps "Straße ΑΣ".toList .l = some "straße ασ".toList ∧
      lowerPy "Straße ΑΣ".toList = "straße ας".toList := by
  decide +kernel

/-- `str.lower` and `str.upper` of the interpreter (as modelled from its regenerated tables) are idempotent
on EVERY string — the two facts about them the idempotence clause rests on -/
theorem C12_word_ops_idem (w : Str) : lowerPy (lowerPy w) = lowerPy w ∧ upperPy (upperPy w) = upperPy w :=
  ⟨lowerPy_idem w, upperPy_idem w⟩

theorem C12_word_ops_idem_nonvacuous :
    upperPy "ǰﬁß".toList = [Char.ofNat 0x4A, Char.ofNat 0x30C, 'F', 'I', 'S', 'S'] ∧
      lowerPy [Char.ofNat 0x130, Char.ofNat 0x3A3] = [Char.ofNat 0x69, Char.ofNat 0x307, Char.ofNat 0x3C2] := by
  decide +kernel

/-- EVERY string without braces, length-changing letters included (no `caseDomain`): upper-casing is idempotent -/
theorem C12_case_upper_idem_plain (s r : Str) (hs : ∀ c ∈ s, c ≠ '{' ∧ c ≠ '}')
    (h : changeCaseW pyWordOps s .u = some r) : changeCaseW pyWordOps r .u = some r :=
  changeCaseW_plain_u_idem s r hs h

theorem C12_case_upper_idem_plain_nonvacuous :
    changeCaseW pyWordOps "aß: ŉ".toList .u = some ("ASS: ".toList ++ [Char.ofNat 0x2BC, 'N']) := by
  decide +kernel

/-- EVERY string, every mode, no `caseDomain` and no closedness hypothesis: the result is the input token by
token, levels kept; a token inside braces (level ≥ 1) that is not a special character is unchanged; of a special
character the words (pieces between blanks) stay in place, command words are unchanged and every other word is
itself, its `str.lower` or its `str.upper` -/
theorem C12_case_braces_full (s r : Str) (m : CaseMode) (toks : List Tok) (hs : scan s = some toks)
    (h : changeCaseW pyWordOps s m = some r) :
    ∃ toks' : List Tok, r = (toks'.map Prod.fst).flatten ∧
      List.Forall₂ (fun t t' : Tok =>
        t'.2 = t.2 ∧
        (1 ≤ t.2 → ¬ (t.2 = 1 ∧ startsWithBackslash t.1 = true) → t'.1 = t.1) ∧
        (t.2 = 1 → startsWithBackslash t.1 = true →
          ∃ ws', t'.1 = joinWith [' '] ws' ∧
            List.Forall₂ (fun w w' => (startsWithBackslash w = true → w' = w) ∧
                (w' = w ∨ w' = lowerPy w ∨ w' = upperPy w))
              (splitSpace t.1) ws')) toks toks' := by
  simp only [changeCaseW, hs, Option.map_some, Option.some.injEq] at h
  subst h
  exact ⟨caseToksW pyWordOps m .start toks, changeCaseAuxW_eq pyWordOps m toks .start,
    caseToksW_rel pyWordOps m toks .start⟩

theorem C12_case_braces_full_nonvacuous :
    changeCaseW pyWordOps "ß{\\'e ß \\aa}{c ß}{{\\o}}".toList .u =
      some "SS{\\'e SS \\aa}{c ß}{{\\o}}".toList := by decide +kernel

end Pybtex.Props
