/-
C12 — brace- and special-character-aware string primitives obey their algebra.

Property theorems only; helper lemmas are in `Lemmas/TeXString.lean`, the model of the code in
`Model/TeXString.lean`, the reference notions (what the reader has to agree with: `substring`,
`depthAfter`, `balanced`, `maxDepth`, `endsInSpecial`/`specialsClosed`, `depthSat`,
`textLength`) in `Spec/TeXString.lean`.
-/
import PybtexModel.Lemmas.TeXString

namespace Pybtex.Props
open Pybtex Spec

/-- the example string `ab{\'e x}{c d}e` used by the non-vacuity instances -/
private abbrev ex1 : Str := "ab{\\'e x}{c d}e".toList

/-! ### substring -/

/-- `bibtex_substring` is BibTeX's `substring$`: 1-based, end-relative and extending to the left
for a negative start, clamped to the string, empty for start 0 or length ≤ 0 — for **all**
integer arguments. -/
theorem C12_substring_spec (s : Str) (start len : Int) :
    bibtexSubstring s start len = Spec.substring s start len :=
  bibtexSubstring_eq_spec s start len

/-! ### scanning -/

/-- a brace-balanced string has no unclosed special character -/
theorem C12_balanced_specials_closed (s : Str) (h : balanced s = true) : specialsClosed s = true :=
  specialsClosed_of_balanced s h

theorem C12_balanced_specials_closed_nonvacuous :
    balanced ex1 = true ∧ specialsClosed ex1 = true := by decide

/-- Scanning is lossless: concatenating the tokens gives the string back whenever every special
character is closed (in particular on balanced input); in general the only difference is one
`}` appended after an unclosed special character. -/
theorem C12_scan_lossless (s : Str) (toks : List Tok) (h : scan s = some toks) :
    (specialsClosed s = true → (toks.map Prod.fst).flatten = s) ∧
    (balanced s = true → (toks.map Prod.fst).flatten = s) ∧
    ((toks.map Prod.fst).flatten = s ∨ (toks.map Prod.fst).flatten = s ++ ['}']) := by
  have h1 := scanM_text _ _ _ h
  simp only [tokText, ScanMode.acc, ScanMode.sp, ScanMode.depth, List.nil_append] at h1
  have hc : specialsClosed s = true → (toks.map Prod.fst).flatten = s := by
    intro hs
    simp only [specialsClosed, Bool.not_eq_true'] at hs
    rw [h1, hs]; simp [closeIf]
  refine ⟨hc, fun hb => hc (specialsClosed_of_balanced s hb), ?_⟩
  rw [h1]
  cases endsInSpecial false 0 s <;> simp [closeIf]

theorem C12_scan_lossless_nonvacuous :
    ∃ toks, scan ex1 = some toks ∧ balanced ex1 = true ∧ toks.length = 11 := by decide

/-- without the hypothesis the statement is false: an unclosed special character gets a closing
brace that is not in the input -/
theorem C12_scan_lossless_neg :
    ¬ ∀ (s : Str) (toks : List Tok), scan s = some toks → (toks.map Prod.fst).flatten = s := by
  intro h
  have := h ['{', '\\'] _ rfl
  revert this; decide

/-- On input whose brace depth never goes negative and whose special characters are closed (in
particular on balanced input) every token's level is the running brace depth of the text
consumed up to and including that token; on balanced input the last level is 0. -/
theorem C12_scan_levels (s : Str) (toks : List Tok) (h : scan s = some toks)
    (hd : (depthAfter 0 s).isSome = true) (hs : specialsClosed s = true) :
    (∀ pre t post, toks = pre ++ t :: post →
        depthAfter 0 ((pre ++ [t]).map Prod.fst).flatten = some t.2) ∧
    (balanced s = true → ∀ t, toks.getLast? = some t → t.2 = 0) := by
  obtain ⟨e, he⟩ := Option.isSome_iff_exists.1 hd
  have hsp : endsInSpecial false 0 s = false := by
    simpa [specialsClosed] using hs
  have hl : LevelChain 0 toks := scanM_levels _ _ _ h e he hsp
  refine ⟨hl.prefix, ?_⟩
  intro hb t ht
  obtain ⟨pre, rfl⟩ : ∃ pre, toks = pre ++ [t] := by
    refine ⟨toks.dropLast, ?_⟩
    have hne : toks ≠ [] := by intro h0; simp [h0] at ht
    rw [List.getLast?_eq_some_getLast hne] at ht
    cases ht
    exact (List.dropLast_concat_getLast hne).symm
  have h1 := hl.prefix pre t [] rfl
  have h2 := (C12_scan_lossless s _ h).1 hs
  simp only [tokText] at h1
  rw [h2] at h1
  simp only [balanced, decide_eq_true_eq] at hb
  rw [hb] at h1
  exact (Option.some.inj h1).symm

theorem C12_scan_levels_nonvacuous :
    (scan ex1).isSome = true ∧ (depthAfter 0 ex1).isSome = true ∧ specialsClosed ex1 = true ∧
      balanced ex1 = true := by decide

/-- The scanner fails (`BibTeXError('too many nested braces')`) exactly when the nesting depth
exceeds the limit. -/
theorem C12_scan_total (s : Str) : (scan s).isSome = true ↔ maxDepth 0 s ≤ maxLevel :=
  scanM_isSome_iff (.norm 0) s (by simp [maxLevel])

/-! ### text length -/

/-- `bibtex_len` is the reference text length (braces not counted, a special character counted
once, every other character once) whenever the nesting guard does not fire, and the error
otherwise. -/
theorem C12_len_spec (s : Str) :
    bibtexLen s = if maxDepth 0 s ≤ maxLevel then some (textLength false 0 s) else none := by
  rw [bibtexLen_eq]
  split
  · rename_i hm
    obtain ⟨toks, ht⟩ := Option.isSome_iff_exists.1 ((C12_scan_total s).2 hm)
    rw [ht]
    exact congrArg some (scanM_count _ _ _ ht)
  · rename_i hm
    have : scan s = none := by
      cases h : scan s with
      | none => rfl
      | some t => exact absurd ((C12_scan_total s).1 (by simp [h])) hm
    rw [this]; rfl

/-- the text length of a string without braces is its length -/
theorem C12_len_plain (s : Str) (hs : ∀ c ∈ s, c ≠ '{' ∧ c ≠ '}') : bibtexLen s = some s.length := by
  rw [bibtexLen_eq, scan, scanM_plain s 0 hs]
  exact congrArg some (tokCount_plain s 0 hs)

theorem C12_len_plain_nonvacuous :
    (∀ c ∈ "de la Vallee".toList, c ≠ '{' ∧ c ≠ '}') ∧ bibtexLen "de la Vallee".toList = some 12 :=
  ⟨by simp, by decide⟩

/-- braces themselves are never counted: without a backslash (hence without special characters)
the text length is the number of characters that are not braces -/
theorem C12_len_braces (s : Str) (hs : ∀ c ∈ s, c ≠ '\\') (hm : maxDepth 0 s ≤ maxLevel) :
    bibtexLen s = some (s.filter fun c => c ≠ '{' ∧ c ≠ '}').length := by
  rw [C12_len_spec, if_pos hm, textLength_no_backslash s hs]

theorem C12_len_braces_nonvacuous :
    (∀ c ∈ "a{b{c}}}d{".toList, c ≠ '\\') ∧ maxDepth 0 "a{b{c}}}d{".toList ≤ maxLevel ∧
      bibtexLen "a{b{c}}}d{".toList = some 4 := ⟨by simp, by decide, by decide⟩

/-- a closed special character `{\…}` at depth 0 counts exactly once, whatever its body -/
theorem C12_len_special (body r : Str) (hb : balanced body = true) (hm : maxDepth 1 body ≤ maxLevel) :
    bibtexLen (['{', '\\'] ++ body ++ ['}'] ++ r) = (bibtexLen r).map (1 + ·) := by
  rw [bibtexLen_eq, bibtexLen_eq, scan_special body r hb hm]
  cases scan r with
  | none => rfl
  | some t =>
    simp only [Option.map_some, Option.some.injEq]
    have : isBraceTok ('\\' :: body) = false := isBraceTok_of_head rfl
    simp [tokCount_cons, isBraceTok_open, isBraceTok_close, this]

theorem C12_len_special_nonvacuous :
    balanced "'e{x} y".toList = true ∧ maxDepth 1 "'e{x} y".toList ≤ maxLevel ∧
      bibtexLen (['{', '\\'] ++ "'e{x} y".toList ++ ['}'] ++ "{c d}e".toList) = some 5 := by decide

/-! ### text prefix -/

/-- the text prefix of `n ≥ 0` characters has text length `min n (text length of s)` -/
theorem C12_prefix_len (s p : Str) (n : Int) (m : Nat) (hn : 0 ≤ n)
    (hp : bibtexPrefix s n = some p) (hm : bibtexLen s = some m) :
    bibtexLen p = some (min n.toNat m) := by
  unfold bibtexPrefix at hp
  split at hp
  · cases hp
    have : n.toNat = 0 := by omega
    rw [this]; simp; decide
  · rename_i hpos
    obtain ⟨toks, ht, rfl⟩ := Option.map_eq_some_iff.1 hp
    rw [bibtexLen_eq, ht] at hm
    simp only [Option.map_some, Option.some.injEq] at hm
    obtain ⟨toks', h1, h2⟩ := scanM_prefix n _ _ _ ht 0 (by omega)
    rw [prefixAux_zero_eq_go, bibtexLen_eq, scan, h1]
    simp only [Option.map_some, Option.some.injEq, h2, hm]
    simp

theorem C12_prefix_len_nonvacuous :
    bibtexPrefix ex1 4 = some "ab{\\'e x}{c}".toList ∧ bibtexLen ex1 = some 7 ∧
      bibtexLen "ab{\\'e x}{c}".toList = some 4 := by decide

/-- nothing for a count ≤ 0 -/
theorem C12_prefix_nonpos (s : Str) (n : Int) (hn : n ≤ 0) : bibtexPrefix s n = some [] := by
  simp [bibtexPrefix, hn]

theorem C12_prefix_nonpos_nonvacuous : bibtexPrefix ex1 (-3) = some [] := by decide

/-- The text prefix is a prefix `q` of the string followed by closing braces; when every special
character of the string is closed there are exactly as many of them as braces are open at the
end of `q` (otherwise `q` may include the `}` the scanner appends after the unclosed special
character). -/
theorem C12_prefix_is_prefix (s p : Str) (n : Int) (hp : bibtexPrefix s n = some p) :
    ∃ q k, p = q ++ List.replicate k '}' ∧
      (if specialsClosed s = true then q <+: s ∧ k = depthSat 0 q else q <+: s ++ ['}']) := by
  unfold bibtexPrefix at hp
  split at hp
  · cases hp
    refine ⟨[], 0, rfl, ?_⟩
    split
    · exact ⟨List.nil_prefix, rfl⟩
    · exact List.nil_prefix
  · obtain ⟨toks, ht, rfl⟩ := Option.map_eq_some_iff.1 hp
    rw [prefixAux_zero_eq_go]
    obtain ⟨pre, post, h1, h2⟩ := prefixGo_shape n toks 0 0
    refine ⟨tokText pre, lastLvl 0 pre, h2, ?_⟩
    have htxt := scanM_text _ _ _ ht
    simp only [ScanMode.acc, ScanMode.sp, ScanMode.depth, List.nil_append] at htxt
    have hpre : tokText pre <+: tokText toks := by rw [h1, tokText_append]; exact List.prefix_append _ _
    rw [htxt] at hpre
    split
    · rename_i hs
      have hsp : endsInSpecial false 0 s = false := by simpa [specialsClosed] using hs
      rw [hsp] at hpre
      refine ⟨by simpa [closeIf] using hpre, ?_⟩
      have hc : SatChain 0 toks := scanM_sat _ _ _ ht hsp
      rw [h1] at hc
      exact hc.left.depth.symm
    · rename_i hs
      have hsp : endsInSpecial false 0 s = true := by simpa [specialsClosed] using hs
      rw [hsp] at hpre
      exact hpre

theorem C12_prefix_is_prefix_nonvacuous :
    bibtexPrefix ex1 5 = some ("ab{\\'e x}{c " ++ "}").toList ∧ specialsClosed ex1 = true ∧
      "ab{\\'e x}{c ".toList <+: ex1 ∧ depthSat 0 "ab{\\'e x}{c ".toList = 1 := by decide

/-- the unclosed-special-character branch of `C12_prefix_is_prefix` -/
theorem C12_prefix_is_prefix_nonvacuous' :
    bibtexPrefix "{\\a{b".toList 1 = some "{\\a{b}".toList ∧ specialsClosed "{\\a{b".toList = false := by
  decide

/-- where the brace depth never goes negative, the saturating depth `depthSat` used above is the
brace depth -/
theorem C12_depthSat_depthAfter (q : Str) (e : Nat) (h : depthAfter 0 q = some e) : depthSat 0 q = e :=
  depthSat_of_depthAfter q 0 e h

theorem C12_depthSat_depthAfter_nonvacuous :
    depthAfter 0 "ab{\\'e x}{c ".toList = some 1 ∧ depthSat 0 "ab{\\'e x}{c ".toList = 1 := by decide

/-! ### purify -/

/-- every character of a purified string is an (ASCII) letter, a digit or a space -/
theorem C12_purify_range (s p : Str) (h : bibtexPurify s = some p) :
    ∀ c ∈ p, isAlnum c = true ∨ c = ' ' := by
  obtain ⟨toks, _, rfl⟩ := Option.map_eq_some_iff.1 h
  intro c hc
  obtain ⟨l, hl, hcl⟩ := List.mem_flatten.1 hc
  obtain ⟨t, _, rfl⟩ := List.mem_map.1 hl
  exact purifyTok_range t c hcl

/-- purify is idempotent -/
theorem C12_purify_idem (s p : Str) (h : bibtexPurify s = some p) : bibtexPurify p = some p :=
  purify_fixed p (C12_purify_range s p h)

theorem C12_purify_range_nonvacuous : bibtexPurify ex1 = some "abexc de".toList := by decide

theorem C12_purify_idem_nonvacuous :
    bibtexPurify ex1 = some "abexc de".toList ∧
      bibtexPurify "abexc de".toList = some "abexc de".toList := by decide

/-! ### case change -/

/-- case change keeps the letters up to case (and every other character) when every special
character is closed -/
theorem C12_case_letters (s r : Str) (m : CaseMode) (hs : specialsClosed s = true)
    (h : changeCase s m = some r) : lower r = lower s := by
  obtain ⟨toks, ht, rfl⟩ := Option.map_eq_some_iff.1 h
  rw [changeCaseAux_eq, lower_caseToks]
  have := (C12_scan_lossless s toks ht).1 hs
  simp only [tokText]; rw [this]

/-- case change preserves the length when every special character is closed -/
theorem C12_case_len_partial (s r : Str) (m : CaseMode) (hs : specialsClosed s = true)
    (h : changeCase s m = some r) : r.length = s.length :=
  length_eq_of_lower_eq (C12_case_letters s r m hs h)

theorem C12_case_letters_nonvacuous :
    specialsClosed ex1 = true ∧ changeCase ex1 .u = some "AB{\\'e X}{c d}E".toList := by decide

theorem C12_case_len_partial_nonvacuous :
    specialsClosed ex1 = true ∧ changeCase ex1 .u = some "AB{\\'e X}{c d}E".toList := by decide

/-- the hypothesis is needed: after an unclosed special character the result is one character
longer (and has one more non-letter) than the input -/
theorem C12_case_len_neg :
    ¬ ∀ (s r : Str) (m : CaseMode), changeCase s m = some r → r.length = s.length := by
  intro h
  have := h ['{', '\\'] _ .l rfl
  revert this; decide

theorem C12_case_letters_neg :
    ¬ ∀ (s r : Str) (m : CaseMode), changeCase s m = some r → lower r = lower s := by
  intro h
  have := h ['{', '\\'] _ .l rfl
  revert this; decide

/-- case change is idempotent when every special character is closed -/
theorem C12_case_idem_partial (s r : Str) (m : CaseMode) (hs : specialsClosed s = true)
    (h : changeCase s m = some r) : changeCase r m = some r := by
  have hlow := C12_case_letters s r m hs h
  obtain ⟨toks, ht, rfl⟩ := Option.map_eq_some_iff.1 h
  rw [changeCaseAux_eq] at hlow ⊢
  -- the result scans into tokens of the same shape
  obtain ⟨toks', h1, h2⟩ := scanM_skel _ _ _ ht _ hlow
  have hsp : endsInSpecial false 0 s = false := by simpa [specialsClosed] using hs
  have htxt := scanM_text _ _ _ h1
  simp only [ScanMode.acc, ScanMode.sp, ScanMode.depth, List.nil_append,
    endsInSpecial_of_lower_eq s _ false 0 hlow, hsp, closeIf, List.append_nil] at htxt
  have heq : toks' = caseToks m .start toks := shape_eq h2 (caseToks_shape m toks .start) htxt
  subst heq
  simp only [changeCase, scan, h1, Option.map_some, changeCaseAux_eq, caseToks_idem]

theorem C12_case_idem_partial_nonvacuous :
    specialsClosed "aB{\\'E x}{c D}e: Fg".toList = true ∧
      changeCase "aB{\\'E x}{c D}e: Fg".toList .t = some "ab{\\'E x}{c D}e: Fg".toList ∧
      changeCase "ab{\\'E x}{c D}e: Fg".toList .t = some "ab{\\'E x}{c D}e: Fg".toList := by decide

/-- the hypothesis is needed: with a further open brace inside an unclosed special character
every application appends another `}` -/
theorem C12_case_idem_neg :
    ¬ ∀ (s r : Str) (m : CaseMode), changeCase s m = some r → changeCase r m = some r := by
  intro h
  have := h ['{', '\\', '{'] _ .l rfl
  revert this; decide

/-- Inside braces case change changes nothing except the non-command words of a special
character: the result is the concatenation of converted tokens with the same levels, where a
token at level ≥ 1 that is not a special character (level 1, starting with a backslash) is
unchanged, and in a special character the words (split at spaces) that start with a backslash
are unchanged while the other words keep their letters up to case. -/
theorem C12_case_braces (s r : Str) (m : CaseMode) (toks : List Tok) (hs : scan s = some toks)
    (h : changeCase s m = some r) :
    ∃ toks' : List Tok, r = (toks'.map Prod.fst).flatten ∧
      List.Forall₂ (fun t t' : Tok =>
        t'.2 = t.2 ∧
        (1 ≤ t.2 → ¬ (t.2 = 1 ∧ startsWithBackslash t.1 = true) → t'.1 = t.1) ∧
        (t.2 = 1 → startsWithBackslash t.1 = true →
          ∃ ws', t'.1 = joinWith [' '] ws' ∧
            List.Forall₂ (fun w w' => (startsWithBackslash w = true → w' = w) ∧ lower w' = lower w)
              (splitSpace t.1) ws')) toks toks' := by
  simp only [changeCase, hs, Option.map_some, Option.some.injEq] at h
  subst h
  exact ⟨caseToks m .start toks, changeCaseAux_eq m toks .start, caseToks_rel m toks .start⟩

theorem C12_case_braces_nonvacuous :
    changeCase "a{\\'e x \\aa}{c d}{{\\o}}".toList .u = some "A{\\'e X \\aa}{c d}{{\\o}}".toList := by
  decide

/-! ### top-level splitting -/

/-- top-level splitting never splits inside braces: on balanced input every part is balanced -/
theorem C12_split_braces (sep : Sep) (s : Str) (hb : balanced s = true) :
    ∀ p ∈ splitTexRaw sep s, balanced p = true := by
  by_cases hs : s = []
  · subst hs; intro p hp; simp [splitTexRaw, splitLoop_succ, headStep, finish] at hp
  · simp only [balanced, decide_eq_true_eq] at hb
    obtain ⟨p, ps, h1, _, h3⟩ := splitLoop_main sep (s.length + 1) s none (by omega) hb (Or.inl hs)
    rw [splitTexRaw, h1]
    exact h3

/-- top-level splitting drops only separators: on balanced input the input is the parts in order
with one separator match between consecutive parts (nothing for the empty string) -/
theorem C12_split_drops_seps (sep : Sep) (s : Str) (hb : balanced s = true) :
    (s = [] → splitTexRaw sep s = []) ∧
    (s ≠ [] → SplitsTo
      (match sep with
        | .space => isSpaceSep
        | .comma => fun m => m == [',']
        | .hyphen => fun m => m == ['-']
        | .and => isAndSep) s (splitTexRaw sep s)) := by
  constructor
  · intro hs; subst hs; simp [splitTexRaw, splitLoop_succ, headStep, finish]
  · intro hs
    simp only [balanced, decide_eq_true_eq] at hb
    obtain ⟨p, ps, h1, h2, _⟩ := splitLoop_main sep (s.length + 1) s none (by omega) hb (Or.inl hs)
    rw [splitTexRaw, h1]
    cases sep <;> exact h2

theorem C12_split_braces_nonvacuous :
    balanced "ab{\\'e x}{c d}e fg~ h".toList = true ∧
      splitTexRaw .space "ab{\\'e x}{c d}e fg~ h".toList =
        ["ab{\\'e x}{c d}e".toList, "fg".toList, "h".toList] ∧
      splitTexRaw .and "{a and b} And c".toList = ["{a and b}".toList, "c".toList] := by
  decide +kernel

theorem C12_split_drops_seps_nonvacuous :
    balanced "a, {b, c},d".toList = true ∧
      splitTexRaw .comma "a, {b, c},d".toList = ["a".toList, " {b, c}".toList, "d".toList] := by
  decide +kernel

/-- the fuel of the two loops of the model (length + 1) is never exhausted: more fuel gives the
same result -/
theorem C12_split_fuel (sep : Sep) (s : Str) (fuel : Nat) (h : s.length < fuel) :
    splitLoop sep fuel s [] none = splitTexRaw sep s ∧
    reSplitAux sep fuel none [] s = reSplit sep s :=
  ⟨splitLoop_fuel sep fuel (s.length + 1) s [] none h (by omega),
   reSplitAux_fuel sep fuel (s.length + 1) none [] s h (by omega)⟩

end Pybtex.Props
