/-
C07 (extension) — the shipped styles inside the model: name styles (`Model/NameStyle.lean`), the seventeen templates of
`unsrt.py` and the configuration of `BaseStyle.__init__` (`Model/UnsrtStyle.lean`); reference notions in
`Spec/UnsrtStyle.lean`.  Property theorems only.
-/
import PybtexModel.Props.C07
import PybtexModel.Spec.UnsrtStyle

namespace Pybtex.Props
open Pybtex Pybtex.RT Pybtex.Tmpl Pybtex.Tmpl.Spec Pybtex.Tmpl.Unsrt
open C07Ex

/-! ### helper facts (local) -/

private theorem litsOf_map_lit (rs : List RT) : litsOf (rs.map T.lit) = rs := by
  induction rs with
  | nil => rfl
  | cons r rs ih => simp [litsOf, ih]

private theorem printedNL_lits (ctx : Ctx) (rs : List RT) : ∀ n, printedNL n ctx (rs.map T.lit) = [] := by
  induction rs with
  | nil => intro n; cases n <;> simp [printedNL]
  | cons r rs ih =>
    intro n
    cases n with
    | zero => simp [printedNL]
    | succ n => cases n <;> simp [printedNL, printedN, ih]

private theorem printedN_namePart (ctx : Ctx) (n : Nat) (before : RT) (tie abbr : Bool) (rs : List RT) :
    printedN (n + 1) ctx (namePartNode before tie abbr rs) = occs abbr rs := by
  simp only [namePartNode, printedN, litsOf_map_lit, printedNL_lits, occs]
  cases abbr <;> simp

private theorem printedN_join4 (ctx : Ctx) (n : Nat) (a b c d : T) :
    printedN (n + 6) ctx (joinDefault [a, b, c, d]) =
      printedN (n + 4) ctx a ++ (printedN (n + 3) ctx b ++ (printedN (n + 2) ctx c ++ printedN (n + 1) ctx d)) := by
  simp [joinDefault, printedN, printedNL]

/-! ### name styles -/

/-- **The shipped name styles show every word of a person.**  When `plain` / `lastfirst` `NameStyle().format(person,
abbr)` produces a template `t` (i.e. every word parses), the four lists of rich texts `fm` (first + middle names), `von`,
`last`, `jr` are `Text.from_latex` of the person's words, and the name words on the evaluated path of `t` (`printedN`, the
notion of `C07_name_coverage`) are exactly these — `plain`: first+middle, von, last, lineage; `lastfirst`: von, last,
lineage, first+middle — with the abbreviation flag on the first and middle names only, and equal to `abbr`. -/
theorem C07_name_style_parts (st : NameStyle) (dec : List (Str × Str)) (p : Person) (abbr : Bool) (t : T)
    (h : formatName st dec p abbr = .ok t) :
    ∃ fm von last jr, richTexts dec (p.first ++ p.middle) = .ok fm ∧ richTexts dec p.prelast = .ok von ∧
      richTexts dec p.last = .ok last ∧ richTexts dec p.lineage = .ok jr ∧
      ∀ fuel ctx, printedN (fuel + 6) ctx t = nameOccs st abbr fm von last jr := by
  cases st with
  | plain =>
    simp only [formatName] at h
    split at h; · cases h
    rename_i fm hfm
    split at h; · cases h
    rename_i von hvon
    split at h; · cases h
    rename_i last hlast
    split at h; · cases h
    rename_i jr hjr
    simp only [Except.ok.injEq] at h; subst h
    exact ⟨fm, von, last, jr, hfm, hvon, hlast, hjr, fun fuel ctx => by simp only [printedN_join4, printedN_namePart, nameOccs]⟩
  | lastfirst =>
    simp only [formatName] at h
    split at h; · cases h
    rename_i von hvon
    split at h; · cases h
    rename_i last hlast
    split at h; · cases h
    rename_i jr hjr
    split at h; · cases h
    rename_i fm hfm
    simp only [Except.ok.injEq] at h; subst h
    exact ⟨fm, von, last, jr, hfm, hvon, hlast, hjr, fun fuel ctx => by simp only [printedN_join4, printedN_namePart, nameOccs]⟩

private theorem richTexts_mem {dec : List (Str × Str)} : ∀ {ws : List Str} {rs : List RT}, richTexts dec ws = .ok rs →
    ∀ w ∈ ws, ∃ r ∈ rs, fromLatex (decodeOf dec w) = .ok r := by
  intro ws
  induction ws with
  | nil => intro rs _ w hw; cases hw
  | cons w0 ws ih =>
    intro rs h w hw
    simp only [richTexts] at h
    split at h; · cases h
    rename_i r0 hr0
    split at h; · cases h
    rename_i rs' hrs'
    simp only [Except.ok.injEq] at h; subst h
    rcases List.mem_cons.1 hw with rfl | hw
    · exact ⟨r0, by simp, hr0⟩
    · obtain ⟨r, hr, hfl⟩ := ih hrs' w hw
      exact ⟨r, by simp [hr], hfl⟩

/-- **Every word of a person is in the formatted name** (composition of `C07_name_style_parts` with
`C07_name_coverage`).  If the name style produces the template `t` for the person and `t` evaluates to `r` (fuel at least
6: the nesting depth of a name template), then for every word `w` of the person `Text.from_latex(w)` succeeds with some
rich text `x`, and `str(r)` contains, as a contiguous piece, `str(x)` — for a word of the von, last or lineage part, and
for a first or middle name without `abbr` — resp. `str(x.abbreviate())` for a first or middle name with `abbr`
(what `abbreviate()` shows of a word: `C07_abbreviate`). -/
theorem C07_person_words_shown (st : NameStyle) (dec : List (Str × Str)) (p : Person) (abbr : Bool) (t : T)
    (h : formatName st dec p abbr = .ok t) (fuel : Nat) (ctx : Ctx) (r : RT) (he : eval (fuel + 6) ctx t = .ok r) :
    (∀ w ∈ p.first ++ p.middle, ∃ x, fromLatex (decodeOf dec w) = .ok x ∧
      toStr (if abbr then abbreviate x else x) <:+: toStr r) ∧
    (∀ w ∈ p.prelast ++ p.last ++ p.lineage, ∃ x, fromLatex (decodeOf dec w) = .ok x ∧ toStr x <:+: toStr r) := by
  obtain ⟨fm, von, last, jr, hfm, hvon, hlast, hjr, hp⟩ := C07_name_style_parts st dec p abbr t h
  have hcov := C07_name_coverage.1 (fuel + 6) ctx t r he
  rw [hp fuel ctx] at hcov
  have key : ∀ (b : Bool) (rs : List RT) (x : RT), x ∈ rs → occs b rs ⊆ nameOccs st abbr fm von last jr →
      toStr (if b then abbreviate x else x) <:+: toStr r := by
    intro b rs x hx hsub
    have hm : (⟨x, b, false⟩ : NOcc) ∈ occs b rs := List.mem_map.2 ⟨x, hx, rfl⟩
    have := hcov _ (hsub hm)
    simpa [Covers, NOcc.shown] using this
  constructor
  · intro w hw
    obtain ⟨x, hx, hfl⟩ := richTexts_mem hfm w hw
    refine ⟨x, hfl, key abbr fm x hx ?_⟩
    cases st <;> intro o ho <;> simp [nameOccs, ho]
  · intro w hw
    rcases List.mem_append.1 hw with hw | hw
    · rcases List.mem_append.1 hw with hw | hw
      · obtain ⟨x, hx, hfl⟩ := richTexts_mem hvon w hw
        refine ⟨x, hfl, ?_⟩
        have := key false von x hx (by cases st <;> intro o ho <;> simp [nameOccs, ho])
        simpa using this
      · obtain ⟨x, hx, hfl⟩ := richTexts_mem hlast w hw
        refine ⟨x, hfl, ?_⟩
        have := key false last x hx (by cases st <;> intro o ho <;> simp [nameOccs, ho])
        simpa using this
    · obtain ⟨x, hx, hfl⟩ := richTexts_mem hjr w hw
      refine ⟨x, hfl, ?_⟩
      have := key false jr x hx (by cases st <;> intro o ho <;> simp [nameOccs, ho])
      simpa using this

namespace C07Ex
/-- `Person("de Sartre, Jr, Jean-Paul")` -/
def sartre : Person := { first := [s "Jean-Paul"], prelast := [s "de"], last := [s "Sartre"], lineage := [s "Jr"] }
def noEntry : Ctx :=
  { entry := { key := [], type := [], fields := CIDict.empty, persons := CIDict.empty }, db := none, personTemplates := [] }
/-- the template both shipped name styles build from the four parts of `sartre` (plain order) -/
def sartrePlain (abbr : Bool) : T :=
  joinDefault [namePartNode emptyStr true abbr [mk .text [.str (s "Jean-Paul")]], namePartNode emptyStr true false [mk .text [.str (s "de")]],
    namePartNode emptyStr false false [mk .text [.str (s "Sartre")]], namePartNode commaSpace false false [mk .text [.str (s "Jr")]]]
def sartreLastFirst (abbr : Bool) : T :=
  joinDefault [namePartNode emptyStr true false [mk .text [.str (s "de")]], namePartNode emptyStr false false [mk .text [.str (s "Sartre")]],
    namePartNode commaSpace false false [mk .text [.str (s "Jr")]], namePartNode commaSpace false abbr [mk .text [.str (s "Jean-Paul")]]]
def shown (t : T) : Option Str := (eval 9 noEntry t).toOption.map toStr
end C07Ex

theorem C07_person_words_shown_nonvacuous :
    -- "Jean-Paul de Sartre, Jr" in both styles: the templates the model builds, and what they evaluate to (with
    -- abbreviation the first name is shown by its initials)
    (formatName .plain [] sartre true = .ok (sartrePlain true) ∧ formatName .lastfirst [] sartre true = .ok (sartreLastFirst true)) ∧
    (shown (sartrePlain true) = some (s "J.-P. de<nbsp>Sartre, Jr") ∧
     shown (sartrePlain false) = some (s "Jean-Paul de<nbsp>Sartre, Jr") ∧
     shown (sartreLastFirst true) = some (s "de<nbsp>Sartre, Jr, J.-P.") ∧
     shown (sartreLastFirst false) = some (s "de<nbsp>Sartre, Jr, Jean-Paul") ∧
     -- a word with unbalanced braces: no template (PybtexSyntaxError)
     (formatName .plain [] { last := [s "a}b"] } false).toOption.isNone = true) :=
  ⟨⟨by rfl, by rfl⟩, by decide +kernel⟩

/-! ### the shipped templates -/

/-- `format_name` templates read no field: nothing in them can be reported missing -/
theorem C07_name_style_requires_nothing (st : NameStyle) (dec : List (Str × Str)) (p : Person) (abbr : Bool) (t : T)
    (h : formatName st dec p abbr = .ok t) : requiredNodes t = [] := by
  have hl : ∀ rs : List RT, requiredNodesL (rs.map T.lit) = [] := by
    intro rs; induction rs with
    | nil => rfl
    | cons r rs ih => simp [requiredNodesL, requiredNodes, ih]
  cases st <;> simp only [formatName] at h <;>
    (split at h; · cases h) <;> (split at h; · cases h) <;> (split at h; · cases h) <;> (split at h; · cases h) <;>
    (simp only [Except.ok.injEq] at h; subst h; simp [joinDefault, namePartNode, requiredNodes, requiredNodesL, hl])

private def endsOK (ty : Str) (has : Bool) : Bool :=
  match templateFn ty with
  | some f => endsInSentence (f ⟨has, false⟩) && endsInSentence (f ⟨has, true⟩)
  | none => false

private theorem ends_table :
    (∀ n ∈ endsAlways, endsOK n.toList true = true ∧ endsOK n.toList false = true) ∧
    (∀ n ∈ endsWithEditor, endsOK n.toList true = true) := by decide +kernel

private theorem ends_of_ok {e : PEntry} {t : T} {has : Bool} (h : getTemplate e = some t) (hh : (edInfo e).has = has)
    (hok : endsOK e.type has = true) : endsInSentence t = true := by
  simp only [getTemplate] at h
  simp only [endsOK] at hok
  cases hf : templateFn e.type with
  | none => simp [hf] at h
  | some f =>
    simp only [hf, Option.some.injEq] at h hok
    subst h
    simp only [Bool.and_eq_true] at hok
    have hi : edInfo e = ⟨has, (edInfo e).many⟩ := by cases hi : edInfo e; simp_all
    rw [hi]
    cases (edInfo e).many
    · exact hok.1
    · exact hok.2

private theorem lookup_shipped {cfg : StyleConfig} {dec : List (Str × Str)} :
    ∀ {es : List PEntry} {tbl : List (Str × Option Item)}, shippedTable cfg dec es = .ok tbl → (es.map (·.key)).Nodup →
      ∀ e ∈ es, ∃ it, shippedItem cfg dec e = .ok it ∧ lookupItem tbl e.key = it := by
  intro es
  induction es with
  | nil => intro tbl _ _ e he; cases he
  | cons e0 es ih =>
    intro tbl h hnd e he
    simp only [shippedTable] at h
    split at h; · cases h
    rename_i it0 hit0
    split at h; · cases h
    rename_i l hl
    simp only [Except.ok.injEq] at h; subst h
    simp only [List.map_cons, List.nodup_cons] at hnd
    rcases List.mem_cons.1 he with rfl | he'
    · exact ⟨it0, hit0, by simp [lookupItem]⟩
    · obtain ⟨it, h1, h2⟩ := ih hl hnd.2 e he'
      refine ⟨it, h1, ?_⟩
      have hne : ¬ e0.key = e.key := fun hk => hnd.1 (by rw [hk]; exact List.mem_map.2 ⟨e, he', rfl⟩)
      simpa [lookupItem, hne] using h2

/-- **Terminating punctuation for the shipped styles.**  (1) For thirteen entry types (article, booklet, dataset, manual,
mastersthesis, misc, online, patent, phdthesis, proceedings, software, techreport, unpublished) and for book / inbook
entries that have an editor (`terminatingEntry`), the template the model of `unsrt.py` builds satisfies the syntactic
condition `endsInSentence` of `C07_terminated` — for EVERY entry, no longer a monitored invariant of sampled templates.
(2) Pipeline: when a shipped style (`formatBibliographyShipped`: model templates, model name styles) formats a database
whose keys are pairwise distinct, every formatted entry belongs to a database entry with the same key, and if that entry
is a `terminatingEntry` its text is empty or ends with `.`, `?` or `!`. -/
theorem C07_shipped_terminated :
    (∀ e t, getTemplate e = some t → terminatingEntry e = true → endsInSentence t = true) ∧
    (∀ cfg dec es cites mc rep fs, (es.map (·.key)).Nodup →
      formatBibliographyShipped cfg dec es cites mc = some (rep, .ok fs) →
      ∀ f ∈ fs, ∃ e ∈ es, f.key = e.key ∧ (terminatingEntry e = true → Terminated f.text)) := by
  have part1 : ∀ e t, getTemplate e = some t → terminatingEntry e = true → endsInSentence t = true := by
    intro e t h ht
    simp only [terminatingEntry, Bool.or_eq_true, Bool.and_eq_true, typeIn, List.any_eq_true, decide_eq_true_eq] at ht
    rcases ht with ⟨n, hn, hty⟩ | ⟨⟨n, hn, hty⟩, hed⟩
    · have := ends_table.1 n hn
      rw [hty] at this
      cases hh : (edInfo e).has
      · exact ends_of_ok h hh this.2
      · exact ends_of_ok h hh this.1
    · have := ends_table.2 n hn
      rw [hty] at this
      exact ends_of_ok h (by simpa [edInfo] using hed) this
  refine ⟨part1, ?_⟩
  intro cfg dec es cites mc rep fs hnd h f hf
  simp only [formatBibliographyShipped] at h
  split at h; · cases h
  rename_i tbl htbl
  simp only [Option.some.injEq] at h
  obtain ⟨e, hm, it, hi, hk, he⟩ := formatBibliography_ok_mem h f hf
  have hes : e ∈ es := by
    simp only [resolvedEntries, List.mem_filterMap, storedEntry] at hm
    obtain ⟨k, -, hfind⟩ := hm
    exact List.mem_of_find?_eq_some hfind
  refine ⟨e, hes, hk, fun hte => ?_⟩
  obtain ⟨it', h1, h2⟩ := lookup_shipped htbl hnd e hes
  rw [hi] at h2; subst h2
  simp only [shippedItem] at h1
  split at h1; · cases h1
  split at h1
  · cases h1
  · rename_i pts _ t ht
    simp only [Except.ok.injEq, Option.some.injEq] at h1; subst h1
    rcases C07_terminated.1 _ _ _ _ (part1 e t ht hte) he with h0 | h0
    · exact Or.inl h0
    · exact Or.inr h0.1

private def reqOK (n : String) (has : Bool) : Bool :=
  match templateFn n.toList with
  | some f => decide (requiredNodes (f ⟨has, false⟩) = requiredOf n has) && decide (requiredNodes (f ⟨has, true⟩) = requiredOf n has)
  | none => false

private theorem req_table : ∀ n ∈ templateTable.map (·.1), reqOK n true = true ∧ reqOK n false = true := by decide +kernel

/-- **The required fields of the shipped styles.**  For each of the seventeen entry types the lookups the shipped
template performs outside every `optional` (`requiredNodes`, the notion of `C07_missing_required_eval`: only these can be
reported as `FieldIsMissing`, the name templates adding none: `C07_name_style_requires_nothing`) are the ones listed in
`Spec.requiredOf`: e.g. article = author, title, journal, year; book / inbook = editor (standing for author-or-editor),
title, publisher, year; proceedings = title, year and the editor role only when the entry has one; misc, dataset, online,
patent, software = nothing. -/
theorem C07_shipped_required (n : String) (hn : n ∈ templateTable.map (·.1)) (e : PEntry) (t : T) (hty : e.type = n.toList)
    (h : getTemplate e = some t) : requiredNodes t = requiredOf n (hasEditor e) := by
  have hok := req_table n hn
  simp only [getTemplate, hty] at h
  simp only [reqOK] at hok
  cases hf : templateFn n.toList with
  | none => simp [hf] at h
  | some f =>
    simp only [hf, Option.some.injEq, Bool.and_eq_true, decide_eq_true_eq] at h hok
    subst h
    have hi : edInfo e = ⟨hasEditor e, manyEditors e⟩ := rfl
    rw [hi]
    cases hasEditor e <;> cases manyEditors e <;> simp_all

theorem C07_shipped_required_nonvacuous :
    getTemplate (art "A" "Abel" "2001" "T") = some articleTemplate ∧
    requiredOf "article" false = [.names (s "author"), .field (s "title"), .field (s "journal"), .field (s "year")] ∧
    (templateTable.map (·.1)).length = 17 ∧ terminatingEntry (art "A" "Abel" "2001" "T") = true ∧
    terminatingEntry { art "A" "Abel" "2001" "T" with type := s "incollection" } = false :=
  ⟨by rfl, by decide +kernel, by decide +kernel, by decide +kernel, by decide +kernel⟩

/-- **Entry types.**  The model has a template for exactly the entry types for which the live style object has a
`get_<type>_template` method (`Gen.pyStyleTypes`, regenerated from /repo on every run); for any other type
`format_entry` raises the `BibliographyDataError` whose message `noTemplateMessage` composes from the regenerated pieces. -/
theorem C07_shipped_types :
    templateTable.map (fun p => p.1.toList) = Gen.pyStyleTypes ∧
    (∀ e, (getTemplate e).isSome = Gen.pyStyleTypes.contains e.type) ∧
    noTemplateMessage (s "webpage") (s "k1") = s "entry type \"webpage\" of entry \"k1\" is not defined by the style" := by
  have h1 : templateTable.map (fun p => p.1.toList) = Gen.pyStyleTypes := by decide +kernel
  refine ⟨h1, ?_, by decide +kernel⟩
  intro e
  have h2 : (getTemplate e).isSome = (templateTable.find? fun p => p.1.toList = e.type).isSome := by
    simp only [getTemplate, templateFn]
    cases templateTable.find? (fun p => decide (p.1.toList = e.type)) <;> rfl
  rw [h2, ← h1, Bool.eq_iff_iff]
  simp only [List.find?_isSome, List.contains_eq_mem, List.mem_map, decide_eq_true_eq]

/-- **Configuration.**  `Style(**options)` of the four shipped formatting styles, from the class attributes and group
defaults regenerated from /repo: unsrt = plain names, number labels, citation order; plain = sorted by
author_year_title; alpha = alpha labels, sorted; unsrtalpha = alpha labels, citation order; an explicitly given
`label_style` / `name_style` / `sorting_style` / `abbreviate_names` always wins. -/
theorem C07_style_configuration :
    configure (s "unsrt") none none none false = some ⟨.plain, .number, .none, false⟩ ∧
    configure (s "plain") none none none false = some ⟨.plain, .number, .authorYearTitle, false⟩ ∧
    configure (s "alpha") none none none false = some ⟨.plain, .alpha, .authorYearTitle, false⟩ ∧
    configure (s "unsrtalpha") none none none false = some ⟨.plain, .alpha, .none, false⟩ ∧
    (∀ st ∈ ["unsrt", "plain", "alpha", "unsrtalpha"], ∀ l ∈ [("number", Labels.number), ("alpha", Labels.alpha)],
      ∀ n ∈ [("plain", NameStyle.plain), ("lastfirst", NameStyle.lastfirst)],
      ∀ so ∈ [("none", Sorting.none), ("author_year_title", Sorting.authorYearTitle)], ∀ b ∈ [false, true],
      configure st.toList (some l.1.toList) (some n.1.toList) (some so.1.toList) b = some ⟨n.2, l.2, so.2, b⟩) := by
  decide +kernel

/-- **[model wiring] The shipped pipeline is `format_bibliography` on the model's own items**, so that every C07
theorem stated for arbitrary `items` (completeness, order, labels, missing fields, coverage, protected case) applies to
it verbatim; without a citation list the citations are the keys of the database in file order. -/
theorem C07_shipped_pipeline (cfg : StyleConfig) (dec : List (Str × Str)) (es : List PEntry) (cites : Option (List Str))
    (mc : Int) (r : List Report × Except BibErr (List Formatted))
    (h : formatBibliographyShipped cfg dec es cites mc = some r) :
    ∃ tbl, shippedTable cfg dec es = .ok tbl ∧
      r = formatBibliography es (lookupItem tbl) (cites.getD (allKeys es)) mc cfg.sorting cfg.labels := by
  simp only [formatBibliographyShipped] at h
  split at h; · cases h
  rename_i tbl htbl
  simp only [Option.some.injEq] at h
  refine ⟨tbl, htbl, ?_⟩
  rw [← h]; cases cites <;> rfl

end Pybtex.Props
