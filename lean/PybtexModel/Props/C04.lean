/-
C04 — personal names are split into first / von / last / jr parts as BibTeX does.

Property theorems only; helper lemmas are in `Lemmas/Names.lean`, the model of the code
(`Person.__init__`, `Person._parse_string` and its local helpers) in `Model/Names.lean`, the
rule a reader has to agree with in `Spec/Names.lean` (`Spec.split`, `Spec.vonLast`,
`Spec.tokenCase`/`Spec.isLow`, the table of BibTeX's built-in foreign characters
`Spec.builtinCase`, and `Spec.caseTokens` — the tokens whose case the rule examines).
Tokenisation and comma splitting are the C12 primitives `splitTex .space` / `splitTex .comma`.

The model follows the code after the proposed repairs C04-1 (`is_von_name` no longer lets
`too many nested braces` escape: an over-nested token that does not start with a cased character
has no case), C04-2 (`special_char_islower` knows the case of BibTeX's thirteen built-in
foreign characters) and C04-3 (`is_von_name` takes a brace-level-1 item starting with a backslash
for a special character only when it directly follows the brace that opens its group: an ordinary
group is passed over whatever it contains, as in bibtex.web).  With them model and rule agree on
EVERY string; none of the theorems below has a "scans within the nesting limit" hypothesis any
more, and the rule equals the scanner-free restatement of bibtex.web's `von_token_found` on every
token within the nesting limit (`C04_case_bibtex_partial`).

Character classes: "letter", "upper case", "lower case" are `isAlphaN` / `isUpperN` / `isLowerN`
(`Model/Names.lean`): Python's `str.isalpha` / `isupper` / `islower` on one character, as
code-point ranges regenerated from the running interpreter (`Gen/Unicode.lean`).  Model and
rule use the same classes; `C04_char_classes` records what the rule relies on about them.

The concrete names used by the `_nonvacuous` witnesses (`nameVP`, `nameVB`, `tokDeepLower`,
`nameDeepLower`, `nameDeep`, and the non-ASCII `nameMao`, `nameBenGurion`, `nameBeneden`,
`nameAkahi`, `nameCircled`, `nameMixed`) are defined at the end of `Lemmas/Names.lean`.

`parseName` is `_parse_string` on the stripped argument (`mkPerson` strips and calls it only
for a non-empty result, as `Person.__init__` does).
-/
import PybtexModel.Lemmas.Names
import PybtexModel.Lemmas.NamesCase
import PybtexModel.Props.C12

namespace Pybtex.Props
open Pybtex Spec Names

/-! ### 0. the character classes -/

/-- What the rule relies on about the interpreter's character tables (each part is, or follows
from, a kernel-evaluated check of the regenerated tables):
no character is both upper and lower case; below U+0080 the classes are the ASCII ones; white
space, braces, backslash, comma, tie, hyphen and digits are in none of the classes; a first
character that is a letter or cased is an ordinary brace-level-0 character (the first token of
the scan); and the first-character clause of `Spec.tokenCase` changes nothing for a token that
scans unless it starts with a cased character that is not a letter — otherwise the token's case
is the one of its first brace-level-0 letter or special character. -/
theorem C04_char_classes :
    (∀ c, isUpperN c = true → isLowerN c = false) ∧
    (∀ c : Char, c.toNat < 128 →
      isAlphaN c = isAlpha c ∧ isUpperN c = isUpperA c ∧ isLowerN c = isLowerA c) ∧
    (∀ c, (isWs c = true ∨ isDigit c = true ∨ c ∈ ['{', '}', '\\', ',', '~', '-']) →
      isAlphaN c = false ∧ isUpperN c = false ∧ isLowerN c = false) ∧
    (∀ c r, (isAlphaN c = true ∨ isUpperN c = true ∨ isLowerN c = true) →
      scan (c :: r) = (scan r).map (([c], 0) :: ·)) ∧
    (∀ tok, (∀ c r, tok = c :: r → (isUpperN c = true ∨ isLowerN c = true) → isAlphaN c = true) →
      ∀ toks, scan tok = some toks → Spec.tokenCase tok = Spec.tokCaseOf toks) := by
  refine ⟨fun _ => upper_lower_disjoint, fun _ => ascii_classes, ?_, fun _ r h => scan_cons_classed r h,
    tokenCase_eq_scan⟩
  intro c h
  rcases h with h | h | h
  · exact ws_no_class h
  · exact digit_no_class h
  · apply structural_no_class
    simp only [List.mem_cons, List.not_mem_nil, or_false] at h
    rcases h with rfl | rfl | rfl | rfl | rfl | rfl <;> decide

/-- The classes are independent beyond ASCII: letters without case (CJK, Hebrew, Hangul, the
ʻokina, titlecase ǅ), cased letters outside ASCII (É é Ж ж Ω ω), cased characters that are not
letters (Ⓐ ⓐ), a combining mark (U+0301) in no class. -/
theorem C04_char_classes_nonvacuous :
    (∀ c ∈ "毛בן김ʻǅ".toList, isAlphaN c = true ∧ isUpperN c = false ∧ isLowerN c = false) ∧
    (∀ c ∈ "ÉЖΩ".toList, isAlphaN c = true ∧ isUpperN c = true ∧ isLowerN c = false) ∧
    (∀ c ∈ "éжω".toList, isAlphaN c = true ∧ isUpperN c = false ∧ isLowerN c = true) ∧
    (isAlphaN 'Ⓐ' = false ∧ isUpperN 'Ⓐ' = true) ∧ (isAlphaN 'ⓐ' = false ∧ isLowerN 'ⓐ' = true) ∧
    (isAlphaN (Char.ofNat 0x301) = false ∧ isUpperN (Char.ofNat 0x301) = false ∧
      isLowerN (Char.ofNat 0x301) = false) ∧
    Spec.tokenCase "ⓐB".toList = .lower ∧ (scan "ⓐB".toList).map Spec.tokCaseOf = some .upper := by
  -- (the three `∀ c ∈ …` parts are evaluated as `List.all`: the instance `decide` finds for a bounded
  -- quantifier recurses too deeply in the kernel on the far end of the letter table)
  have h1 : ("毛בן김ʻǅ".toList.all fun c => isAlphaN c && !isUpperN c && !isLowerN c) = true := by decide +kernel
  have h2 : ("ÉЖΩ".toList.all fun c => isAlphaN c && isUpperN c && !isLowerN c) = true := by decide +kernel
  have h3 : ("éжω".toList.all fun c => isAlphaN c && !isUpperN c && isLowerN c) = true := by decide +kernel
  refine ⟨fun c hc => ?_, fun c hc => ?_, fun c hc => ?_, by decide +kernel, by decide +kernel,
    by decide +kernel, by decide +kernel, by decide +kernel⟩
  · simpa [and_assoc] using List.all_eq_true.mp h1 c hc
  · simpa [and_assoc] using List.all_eq_true.mp h2 c hc
  · simpa [and_assoc] using List.all_eq_true.mp h3 c hc

/-! ### 1. the model is the BibTeX rule -/

/-- `_parse_string` computes exactly the BibTeX split, for EVERY non-empty string. -/
theorem C04_matches_spec (name : Str) (hne : name ≠ []) :
    parseName name = .ok (Spec.split name) :=
  parseName_eq_split hne

theorem C04_matches_spec_nonvacuous :
    nameVP ≠ [] ∧
    parseName nameVP = .ok
      ({ first := ["Charles".toList], middle := ["Louis".toList, "Xavier".toList, "Joseph".toList],
         prelast := ["de".toList, "la".toList],
         last := ["Vall{\\'e}e".toList, "Poussin".toList], lineage := [] }, false) ∧
    nameVB ≠ [] ∧
    parseName nameVB = .ok
      ({ first := ["Ludwig".toList], middle := [], prelast := ["von".toList],
         last := ["Beethoven".toList], lineage := ["Jr".toList] }, false) := by
  decide +kernel

/-- Names with letters outside ASCII: letters without case (CJK, Hebrew, the ʻokina) never make
a von part; non-ASCII capitals / small letters (É, Ж, ван, ω) behave like ASCII ones; a cased
character that is not a letter (Ⓐ, ⓐ) decides the case as first character only; the titlecase
letter ǅ is a letter without case. -/
theorem C04_matches_spec_nonvacuous_unicode :
    (∀ n ∈ [nameMao, nameBenGurion, nameBeneden, nameAkahi, nameCircled, nameMixed], n ≠ []) ∧
    parseName nameMao = .ok ({ first := ["毛".toList], last := ["泽东".toList] }, false) ∧
    parseName nameBenGurion = .ok
      ({ first := ["\u05d3\u05d5\u05d3".toList], middle := ["\u05d1\u05df".toList],
         last := ["\u05d2\u05d5\u05e8\u05d9\u05d5\u05df".toList] }, false) ∧
    parseName nameBeneden = .ok
      ({ first := ["Édouard".toList], prelast := ["van".toList], last := ["Beneden".toList] }, false) ∧
    parseName nameAkahi = .ok
      ({ first := ["Leilani".toList], last := ["ʻAkahi".toList, "Kealoha".toList] }, false) ∧
    parseName nameCircled = .ok
      ({ first := ["Ⓐb".toList], prelast := ["ⓐb".toList], last := ["1ⓐX".toList, "Z".toList] }, false) ∧
    parseName nameMixed = .ok
      ({ first := ["Жан".toList], prelast := ["ван".toList, "ωmega".toList],
         last := ["ǅx".toList, "Ωmega".toList] }, false) := by
  decide +kernel

/-- Names written the way real `.bib` files write them: a line break (with indentation) inside
the name, a tab, CR LF, a no-break space, U+2028 and U+001F are token separators like the blank,
also mixed with ties and control spaces in one name. -/
theorem C04_matches_spec_nonvacuous_whitespace :
    parseName "Ludwig\n    van\tBeethoven".toList = .ok
      ({ first := ["Ludwig".toList], prelast := ["van".toList], last := ["Beethoven".toList] }, false) ∧
    parseName "von\r\nBeethoven,\n Jr,\u00a0Ludwig\u2028X.".toList = .ok
      ({ first := ["Ludwig".toList], middle := ["X.".toList], prelast := ["von".toList],
         last := ["Beethoven".toList], lineage := ["Jr".toList] }, false) ∧
    parseName "A~\n\\ b\u001f\t~C".toList = .ok
      ({ first := ["A".toList], prelast := ["b".toList], last := ["C".toList] }, false) := by
  decide +kernel

/-- Whenever `_parse_string` succeeds, its result is the rule's split computed with
"`is_von_name` answers yes" as the lower-case test (the tie to `is_von_name` itself). -/
theorem C04_matches_rule_any (name : Str) (r : Person × Bool) (h : parseName name = .ok r) :
    r = splitWith isVonB name :=
  parseName_ok h (fun t _ b hb => by simp [isVonB, hb])

theorem C04_matches_rule_any_nonvacuous : ∃ r, parseName nameVB = .ok r :=
  ⟨_, C04_matches_spec_nonvacuous.2.2.2⟩

/-- Case of one token: on EVERY non-empty token `is_von_name` is the rule's "the token is
lower-case" (a cased first character; else the first brace-level-0 letter, or the case of the
special character that comes first). -/
theorem C04_case_of_token (t : Str) (hne : t ≠ []) :
    isVonName t = .ok (Spec.isLow t) :=
  isVonName_eq hne

theorem C04_case_of_token_nonvacuous :
    let t := "{\\'e}cole".toList
    t ≠ [] ∧ Spec.isLow t = true ∧
    Spec.isLow "{\\'E}cole".toList = false ∧ Spec.isLow "{\\relax von}".toList = true := by
  decide +kernel

/-- tokens with non-ASCII characters: lower-case é / ж / ω first; a letter without case decides
"not lower-case" (毛x, ʻakahi, ǅx) even when small letters follow, also after a non-letter
(`(毛x`); special characters with non-ASCII letters; ⓐ counts in first position only. -/
theorem C04_case_of_token_nonvacuous_unicode :
    (∀ t ∈ ["école", "жан", "ωmega", "ⓐB", "{\\'é}cole", "{\\relax ж}", "1é", "\u0301x"].map String.toList,
      t ≠ [] ∧ Spec.isLow t = true) ∧
    (∀ t ∈ ["École", "毛x", "ʻakahi", "ǅx", "(毛x", "1ⓐX", "Ⓐb", "{\\'É}cole", "{\\relax 毛}x", "김"].map String.toList,
      t ≠ [] ∧ Spec.isLow t = false) := by
  decide +kernel

/-- **The case rule without the scanner — bibtex.web's rule.**
`Spec.tokenCase` (the rule of `C04_case_of_token` / `C04_matches_spec`) is stated on the token list of
the shared scanner `scan`; "brace level 0" and "special character" are the scanner's notions there.
`Spec.tokenCaseBibtex` restates the rule of bibtex.web §§ 397–401 (`von_token_found`) as one pass
over the characters with a brace counter only (a cased first character decides; else the first
brace-level-0 letter; a `{` at level 0 immediately followed by a backslash starts a special
character, which decides; every other group is skipped, whatever it contains).  The two agree — and
`is_von_name` answers by the scanner-free rule — on EVERY non-empty token that starts with a cased
character or nests at most 100 levels (`Spec.maxDepth`, C12): after the repair C04-3 nothing else is
asked.  The nesting clause cannot be dropped (`C04_overnested_case`: pybtex's scanner limit, which
BibTeX does not have). -/
theorem C04_case_bibtex_partial (t : Str) (hne : t ≠ [])
    (h : Spec.firstCased t = true ∨ Spec.maxDepth 0 t ≤ maxLevel) :
    Spec.tokenCase t = Spec.tokenCaseBibtex t ∧
    isVonName t = .ok (decide (Spec.tokenCaseBibtex t = .lower)) := by
  have key : Spec.tokenCase t = Spec.tokenCaseBibtex t := by
    rcases h with h | hd
    · match t, hne with
      | c :: r, _ =>
        simp only [Spec.firstCased, List.head?_cons, Bool.or_eq_true] at h
        unfold Spec.tokenCase Spec.tokenCaseBibtex
        rcases h with h | h
        · simp [Spec.charCase, h]
        · have hu : isUpperN c = false := by
            cases hu : isUpperN c with
            | false => rfl
            | true => rw [upper_lower_disjoint hu] at h; cases h
          simp [Spec.charCase, h, hu]
    · obtain ⟨toks, ht⟩ := Option.isSome_iff_exists.1 ((C12_scan_total t).2 hd)
      exact tokenCase_eq_bibtex ht
  refine ⟨key, ?_⟩
  rw [isVonName_eq hne, Spec.isLow, key]

theorem C04_case_bibtex_partial_nonvacuous :
    (∀ t ∈ ["{\\'e}cole", "{\\relax von}", "{x}von", "{{\\x}}von", "a{x\\y}", "1{\\'E}x", "}von", "{x\\y}von",
        "{x}{\\y}von", "{x\\}n"].map String.toList,
      t ≠ [] ∧ Spec.maxDepth 0 t ≤ maxLevel) ∧
    Spec.tokenCaseBibtex "{\\relax von}".toList = .lower ∧ Spec.tokenCaseBibtex "{{\\x}}von".toList = .lower ∧
    Spec.tokenCaseBibtex "1{\\'E}x".toList = .upper ∧
    -- over-nested but starting with a cased character: the first disjunct
    Spec.firstCased tokDeepLower = true ∧ ¬ Spec.maxDepth 0 tokDeepLower ≤ maxLevel := by
  decide +kernel

/-- **A backslash inside an ordinary group does not make a special character** (instance of
`C04_case_bibtex_partial`, by kernel evaluation; the behaviour repaired by C04-3).  In `{x\y}von`
the group `{x\y}` is an ordinary group — the brace that opens it is not followed by a backslash — so,
as bibtex.web does, it is passed over and the first brace-level-0 letter `v` makes the token
lower-case: `Person('Jean {x\y}von Last')` has the von part `{x\y}von`, like `{xy}von`.  The scanner
still hands the inner backslash out as a brace-level-1 token that starts with a backslash; it no
longer counts, because it does not directly follow the token of the opening brace.  A group opened
at level 0 that DOES start with a backslash is a special character wherever it stands in the token:
`{x}{\y}von` has no case (the special character `\y` contains no letter after its control sequence),
`{x}{\o}x` is lower-case by the table of built-in foreign characters. -/
theorem C04_case_bibtex_ordinary_group :
    let t := "{x\\y}von".toList
    Spec.maxDepth 0 t ≤ maxLevel ∧
    Spec.tokenCaseBibtex t = .lower ∧ Spec.tokenCase t = .lower ∧ isVonName t = .ok true ∧
    scan t = some [(['{'], 1), (['x'], 1), (['\\'], 1), (['y'], 1), (['}'], 0), (['v'], 0), (['o'], 0), (['n'], 0)] ∧
    parseName "Jean {x\\y}von Last".toList =
      .ok ({ first := ["Jean".toList], prelast := ["{x\\y}von".toList], last := ["Last".toList] }, false) ∧
    parseName "Jean {xy}von Last".toList =
      .ok ({ first := ["Jean".toList], prelast := ["{xy}von".toList], last := ["Last".toList] }, false) ∧
    Spec.tokenCase "{x}{\\y}von".toList = .caseless ∧ Spec.tokenCaseBibtex "{x}{\\y}von".toList = .caseless ∧
    isVonName "{x}{\\o}x".toList = .ok true ∧ isVonName "{x\\o}X".toList = .ok false := by
  decide +kernel

/-- **The whole split against the scanner-free rule.**  `Spec.splitBibtex` is the rule `Spec.split`
with the case of every token decided by `Spec.tokenCaseBibtex` (bibtex.web's `von_token_found`
restated without the scanner) instead of `Spec.tokenCase`.  The model of `Person._parse_string`
equals it on every non-empty name whose case-deciding tokens (`Spec.caseTokens`: every token of a
name without commas; the tokens of the first comma part except its final one otherwise) each start
with a cased character or nest at most 100 levels — i.e. `C04_matches_spec` no longer depends on
the scanner's notions of brace level and special character there (tokens are still those of the
shared tokeniser `splitTex`). -/
theorem C04_matches_bibtex_rule (name : Str) (hne : name ≠ [])
    (h : ∀ t ∈ Spec.caseTokens name, Spec.firstCased t = true ∨ Spec.maxDepth 0 t ≤ maxLevel) :
    parseName name = .ok (Spec.splitBibtex name) := by
  rw [C04_matches_spec name hne, split_eq_splitBy, Spec.splitBibtex]
  congr 1
  apply splitBy_congr
  intro t hmem
  by_cases ht : t = []
  · subst ht; decide
  · simp only [Spec.isLow, Spec.isLowBibtex, (C04_case_bibtex_partial t ht (h t hmem)).1]

/-- names with a backslash inside an ordinary group, in the three comma forms: the case-deciding
tokens are within the nesting limit, and the split by the scanner-free rule is the expected one -/
theorem C04_matches_bibtex_rule_nonvacuous :
    (∀ n ∈ ["Jean {x\\y}von Last", "von {x\\o}x Last, First", "{x\\y}von {x}{\\y}von Last, Jr, First"].map String.toList,
      n ≠ [] ∧ ∀ t ∈ Spec.caseTokens n, Spec.maxDepth 0 t ≤ maxLevel) ∧
    Spec.splitBibtex "Jean {x\\y}von Last".toList =
      ({ first := ["Jean".toList], prelast := ["{x\\y}von".toList], last := ["Last".toList] }, false) ∧
    Spec.splitBibtex "von {x\\o}x Last, First".toList =
      ({ first := ["First".toList], prelast := ["von".toList, "{x\\o}x".toList], last := ["Last".toList] }, false) ∧
    Spec.splitBibtex "{x\\y}von {x}{\\y}von Last, Jr, First".toList =
      ({ first := ["First".toList], prelast := ["{x\\y}von".toList], last := ["{x}{\\y}von".toList, "Last".toList],
         lineage := ["Jr".toList] }, false) := by
  decide +kernel

/-- A token whose braces nest deeper than the scanner follows them (more than 100 levels): its
case is the case of its first character — upper, lower, or none at all — and `is_von_name`
answers accordingly instead of raising. -/
theorem C04_overnested_case (t : Str) (hne : t ≠ []) (hs : scan t = none) :
    Spec.tokenCase t = (match t with | c :: _ => Spec.charCase c | [] => .caseless) ∧
    isVonName t = .ok (match t with | c :: _ => isLowerN c | [] => false) := by
  match t, hne with
  | c :: r, _ =>
    have key : Spec.tokenCase (c :: r) = Spec.charCase c := by
      cases hu : isUpperN c with
      | true => simp [Spec.tokenCase, Spec.charCase, hu]
      | false =>
        cases hl : isLowerN c with
        | true => simp [Spec.tokenCase, Spec.charCase, hu, hl]
        | false => rw [tokenCase_uncased_first hu hl, hs]; simp [Spec.charCase, hu, hl]
    refine ⟨key, ?_⟩
    rw [isVonName_eq (by simp), Spec.isLow, key, charCase_lower]

/-- `a{{…}} B` (the first token starts with a lower-case letter and nests 101 braces) has a von
part; `{{…}} B` (101 braces, nothing cased in front) parses with a caseless first token. -/
theorem C04_overnested_case_nonvacuous :
    tokDeepLower ≠ [] ∧ scan tokDeepLower = none ∧
    parseName nameDeepLower = .ok ({ prelast := [tokDeepLower], last := [['B']] }, false) ∧
    Spec.split nameDeepLower = ({ prelast := [tokDeepLower], last := [['B']] }, false) ∧
    scan (nameDeep.take 202) = none ∧
    parseName nameDeep = .ok ({ first := [nameDeep.take 202], last := [['B']] }, false) := by
  decide +kernel

/-- BibTeX's built-in foreign characters: a special character whose control sequence (the letters
after the backslash, ended by a non-letter or by the end of the special character) is one of
`\i \j \oe \ae \aa \o \l \ss` is lower case, one of `\OE \AE \AA \O \L` upper case — whatever
follows the control sequence; `special_char_islower` answers accordingly. -/
theorem C04_builtin_special_chars (cs rest : Str) (k : Spec.TokCase)
    (hcs : cs.all isAlphaN = true) (hrest : ∀ c r, rest = c :: r → isAlphaN c = false)
    (hk : Spec.builtinCase cs = some k) :
    Spec.specialCase ('\\' :: cs ++ rest) = k ∧
    specialCharIsLower ('\\' :: cs ++ rest) = decide (k = .lower) := by
  have htw : (cs ++ rest).takeWhile isAlphaN = cs := takeWhile_append_stop hcs hrest
  have h1 : Spec.specialCase ('\\' :: cs ++ rest) = k := by
    simp only [Spec.specialCase, List.cons_append, List.drop_succ_cons, List.drop_zero, htw, hk]
  exact ⟨h1, by rw [specialCharIsLower_eq, h1]⟩

/-- all thirteen; `{\o}stergaard` is a von token, `{\O}stergaard` is not, `{\O e}` is upper case
although a small letter follows, `{\oe}` is lower case although no letter follows, `{\oslash x}`
is not a built-in. -/
theorem C04_builtin_special_chars_nonvacuous :
    (∀ cs ∈ ["i", "j", "oe", "ae", "aa", "o", "l", "ss"].map String.toList,
      cs.all isAlphaN = true ∧ Spec.builtinCase cs = some .lower) ∧
    (∀ cs ∈ ["OE", "AE", "AA", "O", "L"].map String.toList,
      cs.all isAlphaN = true ∧ Spec.builtinCase cs = some .upper) ∧
    Spec.isLow "{\\o}stergaard".toList = true ∧ Spec.isLow "{\\O}stergaard".toList = false ∧
    Spec.isLow "{\\O e}".toList = false ∧ Spec.isLow "{\\oe}".toList = true ∧
    Spec.isLow "{\\ss}x".toList = true ∧ Spec.isLow "{\\Oe}x".toList = false ∧
    Spec.isLow "{\\oslash X}".toList = false ∧
    parseName "Jens {\\o}stergaard Hansen".toList = .ok
      ({ first := ["Jens".toList], prelast := ["{\\o}stergaard".toList], last := ["Hansen".toList] }, false) := by
  decide +kernel

/-! ### 2. totality -/

/-- `_parse_string` succeeds on EVERY non-empty string — no `IndexError`, no `ValueError`, no
`too many nested braces` — and reports "too many commas" exactly when there are more than three
comma parts. -/
theorem C04_total (name : Str) (hne : name ≠ []) :
    ∃ p, parseName name = .ok (p, decide ((splitTex .comma name).length > 3)) := by
  refine ⟨(Spec.split name).1, ?_⟩
  rw [parseName_eq_split hne, split_eq, ← splitWith_tooMany isLow name]

theorem C04_total_nonvacuous :
    parseName "a, b, c, d e".toList = .ok
      ({ first := ["c".toList], middle := ["d".toList, "e".toList], prelast := [],
         last := ["a".toList], lineage := ["b".toList] }, true) ∧
    parseName "~".toList = .ok ({}, false) ∧
    (∃ p, parseName nameDeep = .ok (p, false)) := by
  refine ⟨by decide +kernel, by decide +kernel, _, C04_overnested_case_nonvacuous.2.2.2.2.2⟩

/-- `Person(string, first, middle, prelast, last, lineage)` succeeds for ANY six strings; "too
many commas" is reported exactly when the stripped string has more than three comma parts. -/
theorem C04_total_person (s f m p l j : Str) :
    ∃ P, mkPerson s f m p l j =
      .ok (P, decide (strip s ≠ [] ∧ (splitTex .comma (strip s)).length > 3)) := by
  unfold mkPerson
  simp only []
  by_cases hne : strip s = []
  · simp [hne]
  · obtain ⟨p0, hp0⟩ := C04_total (strip s) hne
    rw [if_pos hne, hp0]
    simp [hne]

theorem C04_total_person_nonvacuous :
    mkPerson " a, b, c, d ".toList [] [] [] [] [] = .ok
      ({ first := ["c".toList], middle := ["d".toList], last := ["a".toList], lineage := ["b".toList] }, true) ∧
    (∃ P, mkPerson nameDeep nameDeep nameDeep [] [] [] = .ok (P, false)) ∧
    mkPerson [] [] [] [] [] [] = .ok ({}, false) := by
  refine ⟨by decide +kernel, ?_, by decide +kernel⟩
  obtain ⟨P, hP⟩ := C04_total_person nameDeep nameDeep nameDeep [] [] []
  have hb : decide (strip nameDeep ≠ [] ∧ (splitTex .comma (strip nameDeep)).length > 3) = false := by
    decide +kernel
  rw [hb] at hP
  exact ⟨P, hP⟩

/-- the tokens `_parse_string` works with are never empty; a non-empty string has a comma part -/
theorem C04_tokens_nonempty (s : Str) :
    (∀ t ∈ splitTex .space s, t ≠ []) ∧ (s ≠ [] → splitTex .comma s ≠ []) :=
  ⟨fun _ ht => splitTex_space_ne_nil ht, splitTex_comma_ne_nil⟩

/-! ### 3. nothing lost, duplicated or reordered -/

/-- On success: without a comma the four name lists concatenate to the tokens of the string;
with commas von+Last are the tokens of the first part, Jr those of the second (none when there
are two parts), First those of the last part — for more than three parts the remaining parts
joined by blanks.  `first_names` is the first token of First. -/
theorem C04_tokens_preserved (name : Str) (p : Person) (b : Bool)
    (h : parseName name = .ok (p, b)) :
    p.first = (p.first ++ p.middle).take 1 ∧
    match splitTex .comma name with
    | [] => False
    | [_] => p.first ++ p.middle ++ p.prelast ++ p.last = splitTex .space name ∧ p.lineage = []
    | [p0, pl] =>
      p.prelast ++ p.last = splitTex .space p0 ∧ p.lineage = [] ∧
      p.first ++ p.middle = splitTex .space pl
    | p0 :: p1 :: rest =>
      p.prelast ++ p.last = splitTex .space p0 ∧ p.lineage = splitTex .space p1 ∧
      p.first ++ p.middle = splitTex .space (joinWith [' '] rest) := by
  have hr := C04_matches_rule_any name _ h
  have hne : name ≠ [] := by
    rintro rfl
    have : parseName [] = .error .valueError := by decide +kernel
    rw [this] at h; cases h
  have h1 := splitWith_first isVonB name
  have h2 := splitWith_tokens isVonB name
  rw [← hr] at h1 h2
  refine ⟨h1, ?_⟩
  have hc := splitTex_comma_ne_nil hne
  revert h2 hc
  generalize splitTex .comma name = parts
  intro h2 hc
  match parts, hc with
  | [_], _ => exact h2
  | [_, _], _ => exact h2
  | _ :: _ :: _ :: _, _ => exact h2

theorem C04_tokens_preserved_nonvacuous :
    (∃ p b, parseName nameVP = .ok (p, b)) ∧ (∃ p b, parseName nameVB = .ok (p, b)) ∧
    (∃ p, parseName "a, b, c, d e".toList = .ok (p, true)) := by
  exact ⟨⟨_, _, C04_matches_spec_nonvacuous.2.1⟩, ⟨_, _, C04_matches_spec_nonvacuous.2.2.2⟩,
    ⟨_, C04_total_nonvacuous.1⟩⟩

/-! ### 4. the von part -/

/-- von is the longest run that ends with a lower-case token and still leaves a last name (all
three forms): the von/Last boundary is the rule's; no lower-case token is left in Last before
its final token; von, when present, ends with a lower-case token; Last is not empty unless
there is no von-Last token at all; a lower-case token before the final one forces a von part. -/
theorem C04_von_longest (name : Str) (p : Person) (b : Bool)
    (h : parseName name = .ok (p, b)) :
    (p.prelast, p.last) = Spec.vonLast (p.prelast ++ p.last) ∧
    (∀ t ∈ p.last.dropLast, Spec.isLow t = false) ∧
    (p.prelast ≠ [] → ∃ t, p.prelast.getLast? = some t ∧ Spec.isLow t = true) ∧
    (p.prelast ++ p.last ≠ [] → p.last ≠ []) ∧
    ((∃ t ∈ (p.prelast ++ p.last).dropLast, Spec.isLow t = true) → p.prelast ≠ []) := by
  have hr : (p, b) = splitWith isLow name := parseName_ok_isLow h
  have hv := splitWith_vonLast isLow name
  rw [← hr] at hv
  simp only [] at hv
  have hp := vonLastWith_props isLow (p.prelast ++ p.last)
  rw [← hv] at hp
  exact ⟨by rw [vonLast_eq]; exact hv, hp.1, hp.2.1, hp.2.2.1, hp.2.2.2.1⟩

theorem C04_von_longest_nonvacuous :
    ∃ p b, parseName nameVP = .ok (p, b) ∧ p.prelast ≠ [] ∧
      ∃ t ∈ (p.prelast ++ p.last).dropLast, Spec.isLow t = true :=
  ⟨_, _, C04_matches_spec_nonvacuous.2.1, by decide +kernel, by decide +kernel⟩

/-- No-comma form ("First von Last"): no token of First is lower-case; von, when present,
starts with a lower-case token (the first one of the name); a lower-case token before the
final token forces a von part. -/
theorem C04_case_rule (name : Str) (p : Person) (b : Bool) (a : Str)
    (hp : splitTex .comma name = [a])
    (h : parseName name = .ok (p, b)) :
    (∀ t ∈ p.first ++ p.middle, Spec.isLow t = false) ∧
    (p.prelast ≠ [] → ∃ t, p.prelast.head? = some t ∧ Spec.isLow t = true) ∧
    ((∃ t ∈ (splitTex .space name).dropLast, Spec.isLow t = true) → p.prelast ≠ []) := by
  have hr : (p, b) = splitWith isLow name := parseName_ok_isLow h
  have := splitWith_one isLow name a hp
  rw [← hr] at this
  exact this

theorem C04_case_rule_nonvacuous :
    splitTex .comma nameVP = [nameVP] ∧
    (∃ p b, parseName nameVP = .ok (p, b) ∧ p.first ++ p.middle ≠ [] ∧ p.prelast ≠ []) :=
  ⟨by decide +kernel, _, _, C04_matches_spec_nonvacuous.2.1, by decide +kernel, by decide +kernel⟩

/-! ### 5. explicit part arguments -/

/-- `Person(first=…, middle=…, prelast=…, last=…, lineage=…)`: every explicit part is
tokenised by the same `splitTex .space`; after a string they are appended to its parts. -/
theorem C04_parts_same_tokenisation (f m p l j : Str) :
    mkPerson [] f m p l j = .ok
      ({ first := splitTex .space f, middle := splitTex .space m, prelast := splitTex .space p,
         last := splitTex .space l, lineage := splitTex .space j }, false) ∧
    ∀ s P b, mkPerson s f m p l j = .ok (P, b) →
      ∃ p0, (if strip s ≠ [] then parseName (strip s) = .ok (p0, b) else p0 = {} ∧ b = false) ∧
        P = { first := p0.first ++ splitTex .space f, middle := p0.middle ++ splitTex .space m,
              prelast := p0.prelast ++ splitTex .space p, last := p0.last ++ splitTex .space l,
              lineage := p0.lineage ++ splitTex .space j } := by
  constructor
  · simp [mkPerson, strip, rstrip, lstrip]
  · intro s P b h
    unfold mkPerson at h
    simp only [] at h
    split at h
    · cases h
    · rename_i p0 r hb
      cases h
      refine ⟨p0, ?_, rfl⟩
      split at hb
      · rename_i hne; rw [if_pos hne]; exact hb
      · rename_i hne; rw [if_neg hne]; cases hb; exact ⟨rfl, rfl⟩

theorem C04_parts_same_tokenisation_nonvacuous :
    mkPerson [] "Ludwig".toList "van~der".toList [] "Beethoven {Jr {III}}".toList "jr".toList = .ok
      ({ first := ["Ludwig".toList], middle := ["van".toList, "der".toList], prelast := [],
         last := ["Beethoven".toList, "{Jr {III}}".toList], lineage := ["jr".toList] }, false) ∧
    mkPerson "  Ludwig van Beethoven ".toList [] "X.".toList [] [] "jr".toList = .ok
      ({ first := ["Ludwig".toList], middle := ["X.".toList], prelast := ["van".toList],
         last := ["Beethoven".toList], lineage := ["jr".toList] }, false) := by
  decide +kernel

/-! ### 6. braced groups are never split (reduction to C12) -/

/-- Every returned token is a non-empty token of `splitTex .space s`, where `s` is the name
itself (no-comma form), one of its first two comma parts, or the remaining comma parts joined
by blanks.  Hence whatever C12 proves about the tokens of `splitTex .space` (contiguous,
brace-balanced pieces; braced groups atomic) holds for every name part. -/
theorem C04_braces_atomic (name : Str) (p : Person) (b : Bool)
    (h : parseName name = .ok (p, b)) :
    ∀ t ∈ p.first ++ p.middle ++ p.prelast ++ p.last ++ p.lineage,
      t ≠ [] ∧
      ∃ s, (s = name ∨ s ∈ (splitTex .comma name).take 2 ∨
            s = joinWith [' '] ((splitTex .comma name).drop 2)) ∧ t ∈ splitTex .space s := by
  have hp := (C04_tokens_preserved name p b h).2
  have key : ∀ t ∈ p.first ++ p.middle ++ p.prelast ++ p.last ++ p.lineage,
      ∃ s, (s = name ∨ s ∈ (splitTex .comma name).take 2 ∨
            s = joinWith [' '] ((splitTex .comma name).drop 2)) ∧ t ∈ splitTex .space s := by
    intro t ht
    revert hp
    cases hc : splitTex .comma name with
    | nil => intro hp; exact hp.elim
    | cons a r =>
      cases r with
      | nil =>
        intro hp
        simp only [] at hp
        refine ⟨name, Or.inl rfl, ?_⟩
        rw [hp.2, List.append_nil, hp.1] at ht
        exact ht
      | cons c r' =>
        cases r' with
        | nil =>
          intro hp
          simp only [] at hp
          rw [hp.2.1, List.append_nil] at ht
          have : t ∈ (p.prelast ++ p.last) ++ (p.first ++ p.middle) := by
            simp only [List.mem_append] at ht ⊢
            rcases ht with ((h | h) | h) | h <;> simp [h]
          rw [hp.1, hp.2.2] at this
          rcases List.mem_append.mp this with h1 | h1
          · exact ⟨a, Or.inr (Or.inl (by simp)), h1⟩
          · exact ⟨c, Or.inr (Or.inl (by simp)), h1⟩
        | cons d r'' =>
          intro hp
          simp only [] at hp
          have : t ∈ (p.prelast ++ p.last) ++ p.lineage ++ (p.first ++ p.middle) := by
            simp only [List.mem_append] at ht ⊢
            rcases ht with (((h | h) | h) | h) | h <;> simp [h]
          rw [hp.1, hp.2.1, hp.2.2] at this
          rcases List.mem_append.mp this with h1 | h1
          · rcases List.mem_append.mp h1 with h1 | h1
            · exact ⟨a, Or.inr (Or.inl (by simp)), h1⟩
            · exact ⟨c, Or.inr (Or.inl (by simp)), h1⟩
          · exact ⟨_, Or.inr (Or.inr rfl), by simpa using h1⟩
  intro t ht
  obtain ⟨s, hs, hts⟩ := key t ht
  exact ⟨splitTex_space_ne_nil hts, s, hs, hts⟩

theorem C04_braces_atomic_nonvacuous :
    parseName "{von Last}, {Jr, III}, First~{de la}".toList = .ok
      ({ first := ["First".toList], middle := ["{de la}".toList], prelast := [],
         last := ["{von Last}".toList], lineage := ["{Jr, III}".toList] }, false) := by
  decide +kernel

/-- The constructor as a whole, for ANY six arguments: `Person(string, first, middle, prelast,
last, lineage)` is the rule's split of the stripped string (nothing for a blank string) with the
tokens of each explicit part appended; "too many commas" as the rule says. -/
theorem C04_person_matches_spec (s f m p l j : Str) :
    mkPerson s f m p l j = .ok
      (let base : Person × Bool := if strip s = [] then ({}, false) else Spec.split (strip s)
       ({ first := base.1.first ++ splitTex .space f, middle := base.1.middle ++ splitTex .space m,
          prelast := base.1.prelast ++ splitTex .space p, last := base.1.last ++ splitTex .space l,
          lineage := base.1.lineage ++ splitTex .space j }, base.2)) := by
  unfold mkPerson
  simp only []
  by_cases hne : strip s = []
  · simp [hne]
  · rw [if_pos hne, parseName_eq_split hne, if_neg hne]

theorem C04_person_matches_spec_nonvacuous :
    mkPerson "  Ludwig\nvan Beethoven ".toList [] "X.".toList [] [] "jr".toList = .ok
      ({ first := ["Ludwig".toList], middle := ["X.".toList], prelast := ["van".toList],
         last := ["Beethoven".toList], lineage := ["jr".toList] }, false) ∧
    mkPerson " \t".toList [] [] "de la".toList "X".toList [] = .ok
      ({ prelast := ["de".toList, "la".toList], last := ["X".toList] }, false) := by
  decide +kernel

/-- Braced groups are never split: in a name whose braces are balanced every returned token is
itself brace-balanced (so no group is cut by a token boundary or by a comma), in all comma forms
incl. "too many commas"; likewise every token of a balanced explicit part argument.  (From
`C12_split_braces` — the raw pieces of `split_tex_string` on balanced input are balanced — since
stripping and joining comma parts by blanks keep the balance.) -/
theorem C04_groups_never_split :
    (∀ s : Str, balanced s = true → ∀ t ∈ splitTex .space s, balanced t = true) ∧
    (∀ (name : Str) (p : Person) (b : Bool), balanced name = true → parseName name = .ok (p, b) →
      ∀ t ∈ p.first ++ p.middle ++ p.prelast ++ p.last ++ p.lineage, balanced t = true) := by
  have tok : ∀ (sep : Sep) (s : Str), balanced s = true → ∀ t ∈ splitTex sep s, balanced t = true :=
    fun sep s hs => splitTex_balanced_of_raw (C12_split_braces sep s hs)
  refine ⟨tok .space, ?_⟩
  intro name p b hb h t ht
  obtain ⟨_, s, hs, hts⟩ := C04_braces_atomic name p b h t ht
  have hparts := tok .comma name hb
  refine tok .space s ?_ t hts
  rcases hs with rfl | hs | rfl
  · exact hb
  · exact hparts s (List.mem_of_mem_take hs)
  · exact balanced_joinWith_blank _ (fun x hx => hparts x (List.mem_of_mem_drop hx))

theorem C04_groups_never_split_nonvacuous :
    balanced "{von Last}, {Jr, III}, First~{de la}".toList = true ∧
    (∃ p b, parseName "{von Last}, {Jr, III}, First~{de la}".toList = .ok (p, b)) ∧
    balanced "a {b, {c d}} e, f, g, h {i, j}".toList = true ∧
    parseName "a {b, {c d}} e, f, g, h {i, j}".toList = .ok
      ({ first := ["g".toList], middle := ["h".toList, "{i, j}".toList], prelast := ["a".toList],
         last := ["{b, {c d}}".toList, "e".toList], lineage := ["f".toList] }, true) := by
  refine ⟨by decide +kernel, ⟨_, _, C04_braces_atomic_nonvacuous⟩, by decide +kernel, by decide +kernel⟩

end Pybtex.Props
