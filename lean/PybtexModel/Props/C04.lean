/-
C04 — personal names are split into first / von / last / jr parts as BibTeX does.

Property theorems only; helper lemmas are in `Lemmas/Names.lean`, the model of the code
(`Person.__init__`, `Person._parse_string` and its local helpers) in `Model/Names.lean`, the
rule a reader has to agree with in `Spec/Names.lean` (`Spec.split`, `Spec.vonLast`,
`Spec.tokenCase`/`Spec.isLow`, and the two hypotheses-vocabulary definitions `Spec.caseTokens`
— the tokens whose case the rule examines — and `Spec.caseKnown` — the token scans within the
brace-nesting limit, or starts with an upper-case character).  Tokenisation and comma splitting
are the C12 primitives `splitTex .space` / `splitTex .comma`.

Character classes: "letter", "upper case", "lower case" are `isAlphaN` / `isUpperN` / `isLowerN`
(`Model/Names.lean`): Python's `str.isalpha` / `isupper` / `islower` on one character, as
code-point ranges regenerated from the running interpreter (`Gen/Unicode.lean`).  Model and
rule use the same classes; `C04_char_classes` records what the rule relies on about them.

The concrete names used by the `_nonvacuous` / `_neg` witnesses (`nameVP`, `nameVB`,
`tokDeepLower`, `nameDeepLower`, `nameDeep`, and the non-ASCII `nameMao`, `nameBenGurion`,
`nameBeneden`, `nameAkahi`, `nameCircled`, `nameMixed`) are defined at the end of
`Lemmas/Names.lean`.

`parseName` is `_parse_string` on the stripped argument (`mkPerson` strips and calls it only
for a non-empty result, as `Person.__init__` does).
-/
import PybtexModel.Lemmas.Names

namespace Pybtex.Props
open Pybtex Spec Names

/-! ### 0. the character classes -/

/-- What the rule relies on about the interpreter's character tables (each part is, or follows
from, a kernel-evaluated check of the regenerated tables):
no character is both upper and lower case; below U+0080 the classes are the ASCII ones; white
space, braces, backslash, comma, tie, hyphen and digits are in none of the classes; a first
character that is a letter or cased is an ordinary brace-level-0 character (the first token of
the scan); and the first-character clause of `Spec.tokenCase` changes nothing unless the token
starts with a cased character that is not a letter — otherwise the token's case is the one of
its first brace-level-0 letter or special character. -/
theorem C04_char_classes :
    (∀ c, isUpperN c = true → isLowerN c = false) ∧
    (∀ c : Char, c.toNat < 128 →
      isAlphaN c = isAlpha c ∧ isUpperN c = isUpperA c ∧ isLowerN c = isLowerA c) ∧
    (∀ c, (isWs c = true ∨ isDigit c = true ∨ c ∈ ['{', '}', '\\', ',', '~', '-']) →
      isAlphaN c = false ∧ isUpperN c = false ∧ isLowerN c = false) ∧
    (∀ c r, (isAlphaN c = true ∨ isUpperN c = true ∨ isLowerN c = true) →
      scan (c :: r) = (scan r).map (([c], 0) :: ·)) ∧
    (∀ tok, (∀ c r, tok = c :: r → (isUpperN c = true ∨ isLowerN c = true) → isAlphaN c = true) →
      Spec.tokenCase tok = (scan tok).map Spec.tokCaseOf) := by
  refine ⟨fun _ => upper_lower_disjoint, fun _ => ascii_classes, ?_, fun _ r h => scan_cons_classed r h,
    tokenCase_eq_scan⟩
  intro c h
  rcases h with h | h | h
  · exact ws_no_class h
  · exact digit_no_class h
  · apply structural_no_class
    simp only [List.mem_cons, List.not_mem_nil, or_false] at h
    rcases h with rfl | rfl | rfl | rfl | rfl | rfl <;> decide

/-- The classes are independent beyond ASCII: letters without case (CJK, Hebrew, Hangul, the
ʻokina, titlecase ǅ), cased letters outside ASCII (É é Ж ж Ω ω), cased characters that are not
letters (Ⓐ ⓐ), a combining mark (U+0301) in no class. -/
theorem C04_char_classes_nonvacuous :
    (∀ c ∈ "毛בן김ʻǅ".toList, isAlphaN c = true ∧ isUpperN c = false ∧ isLowerN c = false) ∧
    (∀ c ∈ "ÉЖΩ".toList, isAlphaN c = true ∧ isUpperN c = true ∧ isLowerN c = false) ∧
    (∀ c ∈ "éжω".toList, isAlphaN c = true ∧ isUpperN c = false ∧ isLowerN c = true) ∧
    (isAlphaN 'Ⓐ' = false ∧ isUpperN 'Ⓐ' = true) ∧ (isAlphaN 'ⓐ' = false ∧ isLowerN 'ⓐ' = true) ∧
    (isAlphaN (Char.ofNat 0x301) = false ∧ isUpperN (Char.ofNat 0x301) = false ∧
      isLowerN (Char.ofNat 0x301) = false) ∧
    Spec.tokenCase "ⓐB".toList = some .lower ∧ (scan "ⓐB".toList).map Spec.tokCaseOf = some .upper := by
  decide +kernel

/-! ### 1. the model is the BibTeX rule -/

/-- `_parse_string` computes exactly the BibTeX split, for every non-empty string all of
whose case-deciding tokens have a decidable case (they scan within the nesting limit or start
with an upper-case character; `is_von_name` does not even look further in the latter case). -/
theorem C04_matches_spec (name : Str) (hne : name ≠ [])
    (hk : ∀ t ∈ Spec.caseTokens name, Spec.caseKnown t = true) :
    parseName name = .ok (Spec.split name) := by
  cases h : parseName name with
  | error e =>
    obtain ⟨_, t, ht, _, hc⟩ := parseName_error hne h
    rw [hk t ht] at hc; cases hc
  | ok r =>
    rw [split_eq, parseName_ok h (fun t ht b hb => isVonName_ok hb (hk t ht))]

theorem C04_matches_spec_nonvacuous :
    (nameVP ≠ [] ∧ ∀ t ∈ Spec.caseTokens nameVP, Spec.caseKnown t = true) ∧
    parseName nameVP = .ok
      ({ first := ["Charles".toList], middle := ["Louis".toList, "Xavier".toList, "Joseph".toList],
         prelast := ["de".toList, "la".toList],
         last := ["Vall{\\'e}e".toList, "Poussin".toList], lineage := [] }, false) ∧
    (nameVB ≠ [] ∧ ∀ t ∈ Spec.caseTokens nameVB, Spec.caseKnown t = true) ∧
    parseName nameVB = .ok
      ({ first := ["Ludwig".toList], middle := [], prelast := ["von".toList],
         last := ["Beethoven".toList], lineage := ["Jr".toList] }, false) := by
  decide +kernel

/-- Names with letters outside ASCII: letters without case (CJK, Hebrew, the ʻokina) never make
a von part; non-ASCII capitals / small letters (É, Ж, ван, ω) behave like ASCII ones; a cased
character that is not a letter (Ⓐ, ⓐ) decides the case as first character only; the titlecase
letter ǅ is a letter without case. -/
theorem C04_matches_spec_nonvacuous_unicode :
    (∀ n ∈ [nameMao, nameBenGurion, nameBeneden, nameAkahi, nameCircled, nameMixed],
      n ≠ [] ∧ ∀ t ∈ Spec.caseTokens n, Spec.caseKnown t = true) ∧
    parseName nameMao = .ok ({ first := ["毛".toList], last := ["泽东".toList] }, false) ∧
    parseName nameBenGurion = .ok
      ({ first := ["\u05d3\u05d5\u05d3".toList], middle := ["\u05d1\u05df".toList],
         last := ["\u05d2\u05d5\u05e8\u05d9\u05d5\u05df".toList] }, false) ∧
    parseName nameBeneden = .ok
      ({ first := ["Édouard".toList], prelast := ["van".toList], last := ["Beneden".toList] }, false) ∧
    parseName nameAkahi = .ok
      ({ first := ["Leilani".toList], last := ["ʻAkahi".toList, "Kealoha".toList] }, false) ∧
    parseName nameCircled = .ok
      ({ first := ["Ⓐb".toList], prelast := ["ⓐb".toList], last := ["1ⓐX".toList, "Z".toList] }, false) ∧
    parseName nameMixed = .ok
      ({ first := ["Жан".toList], prelast := ["ван".toList, "ωmega".toList],
         last := ["ǅx".toList, "Ωmega".toList] }, false) := by
  decide +kernel

/-- The same with the plain hypothesis "every case-deciding token scans". -/
theorem C04_matches_spec_of_scan (name : Str) (hne : name ≠ [])
    (hs : ∀ t ∈ Spec.caseTokens name, (scan t).isSome = true) :
    parseName name = .ok (Spec.split name) :=
  C04_matches_spec name hne (fun t ht => caseKnown_of_scan (hs t ht))

theorem C04_matches_spec_of_scan_nonvacuous :
    nameVP ≠ [] ∧ ∀ t ∈ Spec.caseTokens nameVP, (scan t).isSome = true := by decide +kernel

/-- Whenever `_parse_string` succeeds, its result is the rule's split computed with
"`is_von_name` answers yes" as the lower-case test — no hypothesis on the string. -/
theorem C04_matches_rule_any (name : Str) (r : Person × Bool) (h : parseName name = .ok r) :
    r = splitWith isVonB name :=
  parseName_ok h (fun t _ b hb => by simp [isVonB, hb])

theorem C04_matches_rule_any_nonvacuous : ∃ r, parseName nameVB = .ok r :=
  ⟨_, C04_matches_spec_nonvacuous.2.2.2⟩

/-- The hypothesis of `C04_matches_spec` cannot be dropped for tokens that start with a
lower-case letter: `is_von_name` answers "lower-case" from the first character alone, while the
rule gives no case to a token nested deeper than the limit.  (Success alone does not imply
agreement with `Spec.split`.) -/
theorem C04_matches_spec_neg :
    parseName nameDeepLower = .ok ({ prelast := [tokDeepLower], last := [['B']] }, false) ∧
    Spec.split nameDeepLower = ({ first := [tokDeepLower], last := [['B']] }, false) ∧
    (∀ t ∈ Spec.caseTokens nameDeepLower,
      (match t with | c :: _ => isAlphaN c && isLowerN c | [] => false) = true ∨
        (scan t).isSome = true) := by
  decide +kernel

/-- Case of one token: for a non-empty token whose case is decidable `is_von_name` is the
rule's "the token is lower-case" (a cased first character; else the first brace-level-0 letter,
or the first letter after the control sequence of a special character that comes first). -/
theorem C04_case_of_token (t : Str) (hne : t ≠ []) (hk : Spec.caseKnown t = true) :
    isVonName t = .ok (Spec.isLow t) :=
  isVonName_eq_isLow hne hk

theorem C04_case_of_token_nonvacuous :
    let t := "{\\'e}cole".toList
    t ≠ [] ∧ Spec.caseKnown t = true ∧ Spec.isLow t = true ∧
    Spec.isLow "{\\'E}cole".toList = false ∧ Spec.isLow "{\\relax von}".toList = true := by
  decide +kernel

/-- tokens with non-ASCII characters: lower-case é / ж / ω first; a letter without case decides
"not lower-case" (毛x, ʻakahi, ǅx) even when small letters follow, also after a non-letter
(`(毛x`); special characters with non-ASCII letters; ⓐ counts in first position only. -/
theorem C04_case_of_token_nonvacuous_unicode :
    (∀ t ∈ ["école", "жан", "ωmega", "ⓐB", "{\\'é}cole", "{\\relax ж}", "1é", "\u0301x"].map String.toList,
      t ≠ [] ∧ Spec.caseKnown t = true ∧ Spec.isLow t = true) ∧
    (∀ t ∈ ["École", "毛x", "ʻakahi", "ǅx", "(毛x", "1ⓐX", "Ⓐb", "{\\'É}cole", "{\\relax 毛}x", "김"].map String.toList,
      t ≠ [] ∧ Spec.caseKnown t = true ∧ Spec.isLow t = false) := by
  decide +kernel

/-! ### 2. totality -/

/-- `_parse_string` on a non-empty string never raises `IndexError`/`ValueError`: it returns a
person, reporting "too many commas" exactly when there are more than three comma parts, or it
raises `too many nested braces`, and then one of the case-deciding tokens does not scan. -/
theorem C04_total (name : Str) (hne : name ≠ []) :
    (∃ p, parseName name = .ok (p, decide ((splitTex .comma name).length > 3))) ∨
    (parseName name = .error .tooDeep ∧
      ∃ t ∈ Spec.caseTokens name, scan t = none ∧ Spec.caseKnown t = false) := by
  cases h : parseName name with
  | error e =>
    obtain ⟨he, ht⟩ := parseName_error hne h
    subst he
    exact Or.inr ⟨rfl, ht⟩
  | ok r =>
    left
    have := C04_matches_rule_any name r h
    refine ⟨r.1, ?_⟩
    rw [← splitWith_tooMany isVonB name, ← this]

theorem C04_total_nonvacuous :
    parseName "a, b, c, d e".toList = .ok
      ({ first := ["c".toList], middle := ["d".toList, "e".toList], prelast := [],
         last := ["a".toList], lineage := ["b".toList] }, true) ∧
    parseName "~".toList = .ok ({}, false) ∧
    parseName nameDeep = .error .tooDeep := by
  decide +kernel

/-- `Person(string, first, middle, prelast, last, lineage)` for ANY six strings: a person, or
`too many nested braces` from a token of the stripped, non-empty `string`. -/
theorem C04_total_person (s f m p l j : Str) :
    (∃ P b, mkPerson s f m p l j = .ok (P, b)) ∨
    (mkPerson s f m p l j = .error .tooDeep ∧ strip s ≠ [] ∧
      ∃ t ∈ Spec.caseTokens (strip s), scan t = none ∧ Spec.caseKnown t = false) := by
  cases h : mkPerson s f m p l j with
  | ok r => exact Or.inl ⟨r.1, r.2, rfl⟩
  | error e =>
    obtain ⟨he, hne, hp⟩ := mkPerson_error h
    subst he
    exact Or.inr ⟨rfl, hne, (parseName_error hne hp).2⟩

/-- the tokens `_parse_string` works with are never empty; a non-empty string has a comma part -/
theorem C04_tokens_nonempty (s : Str) :
    (∀ t ∈ splitTex .space s, t ≠ []) ∧ (s ≠ [] → splitTex .comma s ≠ []) :=
  ⟨fun _ ht => splitTex_space_ne_nil ht, splitTex_comma_ne_nil⟩

/-! ### 3. nothing lost, duplicated or reordered -/

/-- On success: without a comma the four name lists concatenate to the tokens of the string;
with commas von+Last are the tokens of the first part, Jr those of the second (none when there
are two parts), First those of the last part — for more than three parts the remaining parts
joined by blanks.  `first_names` is the first token of First. -/
theorem C04_tokens_preserved (name : Str) (p : Person) (b : Bool)
    (h : parseName name = .ok (p, b)) :
    p.first = (p.first ++ p.middle).take 1 ∧
    match splitTex .comma name with
    | [] => False
    | [_] => p.first ++ p.middle ++ p.prelast ++ p.last = splitTex .space name ∧ p.lineage = []
    | [p0, pl] =>
      p.prelast ++ p.last = splitTex .space p0 ∧ p.lineage = [] ∧
      p.first ++ p.middle = splitTex .space pl
    | p0 :: p1 :: rest =>
      p.prelast ++ p.last = splitTex .space p0 ∧ p.lineage = splitTex .space p1 ∧
      p.first ++ p.middle = splitTex .space (joinWith [' '] rest) := by
  have hr := C04_matches_rule_any name _ h
  have hne : name ≠ [] := by
    rintro rfl
    have : parseName [] = .error .valueError := by decide +kernel
    rw [this] at h; cases h
  have h1 := splitWith_first isVonB name
  have h2 := splitWith_tokens isVonB name
  rw [← hr] at h1 h2
  refine ⟨h1, ?_⟩
  have hc := splitTex_comma_ne_nil hne
  revert h2 hc
  generalize splitTex .comma name = parts
  intro h2 hc
  match parts, hc with
  | [_], _ => exact h2
  | [_, _], _ => exact h2
  | _ :: _ :: _ :: _, _ => exact h2

theorem C04_tokens_preserved_nonvacuous :
    (∃ p b, parseName nameVP = .ok (p, b)) ∧ (∃ p b, parseName nameVB = .ok (p, b)) ∧
    (∃ p, parseName "a, b, c, d e".toList = .ok (p, true)) := by
  exact ⟨⟨_, _, C04_matches_spec_nonvacuous.2.1⟩, ⟨_, _, C04_matches_spec_nonvacuous.2.2.2⟩,
    ⟨_, C04_total_nonvacuous.1⟩⟩

/-! ### 4. the von part -/

/-- von is the longest run that ends with a lower-case token and still leaves a last name (all
three forms): the von/Last boundary is the rule's; no lower-case token is left in Last before
its final token; von, when present, ends with a lower-case token; Last is not empty unless
there is no von-Last token at all; a lower-case token before the final one forces a von part. -/
theorem C04_von_longest (name : Str) (p : Person) (b : Bool)
    (hk : ∀ t ∈ Spec.caseTokens name, Spec.caseKnown t = true)
    (h : parseName name = .ok (p, b)) :
    (p.prelast, p.last) = Spec.vonLast (p.prelast ++ p.last) ∧
    (∀ t ∈ p.last.dropLast, Spec.isLow t = false) ∧
    (p.prelast ≠ [] → ∃ t, p.prelast.getLast? = some t ∧ Spec.isLow t = true) ∧
    (p.prelast ++ p.last ≠ [] → p.last ≠ []) ∧
    ((∃ t ∈ (p.prelast ++ p.last).dropLast, Spec.isLow t = true) → p.prelast ≠ []) := by
  have hr : (p, b) = splitWith isLow name :=
    parseName_ok h (fun t ht b hb => isVonName_ok hb (hk t ht))
  have hv := splitWith_vonLast isLow name
  rw [← hr] at hv
  simp only [] at hv
  have hp := vonLastWith_props isLow (p.prelast ++ p.last)
  rw [← hv] at hp
  exact ⟨by rw [vonLast_eq]; exact hv, hp.1, hp.2.1, hp.2.2.1, hp.2.2.2.1⟩

theorem C04_von_longest_nonvacuous :
    (∀ t ∈ Spec.caseTokens nameVP, Spec.caseKnown t = true) ∧
    (∃ p b, parseName nameVP = .ok (p, b) ∧ p.prelast ≠ [] ∧
      ∃ t ∈ (p.prelast ++ p.last).dropLast, Spec.isLow t = true) :=
  ⟨C04_matches_spec_nonvacuous.1.2, _, _, C04_matches_spec_nonvacuous.2.1, by decide +kernel, by decide +kernel⟩

/-- No-comma form ("First von Last"): no token of First is lower-case; von, when present,
starts with a lower-case token (the first one of the name); a lower-case token before the
final token forces a von part. -/
theorem C04_case_rule (name : Str) (p : Person) (b : Bool) (a : Str)
    (hp : splitTex .comma name = [a])
    (hk : ∀ t ∈ splitTex .space name, Spec.caseKnown t = true)
    (h : parseName name = .ok (p, b)) :
    (∀ t ∈ p.first ++ p.middle, Spec.isLow t = false) ∧
    (p.prelast ≠ [] → ∃ t, p.prelast.head? = some t ∧ Spec.isLow t = true) ∧
    ((∃ t ∈ (splitTex .space name).dropLast, Spec.isLow t = true) → p.prelast ≠ []) := by
  have hk' : ∀ t ∈ Spec.caseTokens name, Spec.caseKnown t = true := by
    simpa [Spec.caseTokens, hp] using hk
  have hr : (p, b) = splitWith isLow name :=
    parseName_ok h (fun t ht b hb => isVonName_ok hb (hk' t ht))
  have := splitWith_one isLow name a hp
  rw [← hr] at this
  exact this

theorem C04_case_rule_nonvacuous :
    splitTex .comma nameVP = [nameVP] ∧
    (∀ t ∈ splitTex .space nameVP, Spec.caseKnown t = true) ∧
    (∃ p b, parseName nameVP = .ok (p, b) ∧ p.first ++ p.middle ≠ [] ∧ p.prelast ≠ []) :=
  ⟨by decide +kernel, by decide +kernel, _, _, C04_matches_spec_nonvacuous.2.1, by decide +kernel, by decide +kernel⟩

/-! ### 5. explicit part arguments -/

/-- `Person(first=…, middle=…, prelast=…, last=…, lineage=…)`: every explicit part is
tokenised by the same `splitTex .space`; after a string they are appended to its parts. -/
theorem C04_parts_same_tokenisation (f m p l j : Str) :
    mkPerson [] f m p l j = .ok
      ({ first := splitTex .space f, middle := splitTex .space m, prelast := splitTex .space p,
         last := splitTex .space l, lineage := splitTex .space j }, false) ∧
    ∀ s P b, mkPerson s f m p l j = .ok (P, b) →
      ∃ p0, (if strip s ≠ [] then parseName (strip s) = .ok (p0, b) else p0 = {} ∧ b = false) ∧
        P = { first := p0.first ++ splitTex .space f, middle := p0.middle ++ splitTex .space m,
              prelast := p0.prelast ++ splitTex .space p, last := p0.last ++ splitTex .space l,
              lineage := p0.lineage ++ splitTex .space j } := by
  constructor
  · simp [mkPerson, strip, rstrip, lstrip]
  · intro s P b h
    unfold mkPerson at h
    simp only [] at h
    split at h
    · cases h
    · rename_i p0 r hb
      cases h
      refine ⟨p0, ?_, rfl⟩
      split at hb
      · rename_i hne; rw [if_pos hne]; exact hb
      · rename_i hne; rw [if_neg hne]; cases hb; exact ⟨rfl, rfl⟩

theorem C04_parts_same_tokenisation_nonvacuous :
    mkPerson [] "Ludwig".toList "van~der".toList [] "Beethoven {Jr {III}}".toList "jr".toList = .ok
      ({ first := ["Ludwig".toList], middle := ["van".toList, "der".toList], prelast := [],
         last := ["Beethoven".toList, "{Jr {III}}".toList], lineage := ["jr".toList] }, false) ∧
    mkPerson "  Ludwig van Beethoven ".toList [] "X.".toList [] [] "jr".toList = .ok
      ({ first := ["Ludwig".toList], middle := ["X.".toList], prelast := ["van".toList],
         last := ["Beethoven".toList], lineage := ["jr".toList] }, false) := by
  decide +kernel

/-! ### 6. braced groups are never split (reduction to C12) -/

/-- Every returned token is a non-empty token of `splitTex .space s`, where `s` is the name
itself (no-comma form), one of its first two comma parts, or the remaining comma parts joined
by blanks.  Hence whatever C12 proves about the tokens of `splitTex .space` (contiguous,
brace-balanced pieces; braced groups atomic) holds for every name part. -/
theorem C04_braces_atomic (name : Str) (p : Person) (b : Bool)
    (h : parseName name = .ok (p, b)) :
    ∀ t ∈ p.first ++ p.middle ++ p.prelast ++ p.last ++ p.lineage,
      t ≠ [] ∧
      ∃ s, (s = name ∨ s ∈ (splitTex .comma name).take 2 ∨
            s = joinWith [' '] ((splitTex .comma name).drop 2)) ∧ t ∈ splitTex .space s := by
  have hp := (C04_tokens_preserved name p b h).2
  have key : ∀ t ∈ p.first ++ p.middle ++ p.prelast ++ p.last ++ p.lineage,
      ∃ s, (s = name ∨ s ∈ (splitTex .comma name).take 2 ∨
            s = joinWith [' '] ((splitTex .comma name).drop 2)) ∧ t ∈ splitTex .space s := by
    intro t ht
    revert hp
    cases hc : splitTex .comma name with
    | nil => intro hp; exact hp.elim
    | cons a r =>
      cases r with
      | nil =>
        intro hp
        simp only [] at hp
        refine ⟨name, Or.inl rfl, ?_⟩
        rw [hp.2, List.append_nil, hp.1] at ht
        exact ht
      | cons c r' =>
        cases r' with
        | nil =>
          intro hp
          simp only [] at hp
          rw [hp.2.1, List.append_nil] at ht
          have : t ∈ (p.prelast ++ p.last) ++ (p.first ++ p.middle) := by
            simp only [List.mem_append] at ht ⊢
            rcases ht with ((h | h) | h) | h <;> simp [h]
          rw [hp.1, hp.2.2] at this
          rcases List.mem_append.mp this with h1 | h1
          · exact ⟨a, Or.inr (Or.inl (by simp)), h1⟩
          · exact ⟨c, Or.inr (Or.inl (by simp)), h1⟩
        | cons d r'' =>
          intro hp
          simp only [] at hp
          have : t ∈ (p.prelast ++ p.last) ++ p.lineage ++ (p.first ++ p.middle) := by
            simp only [List.mem_append] at ht ⊢
            rcases ht with (((h | h) | h) | h) | h <;> simp [h]
          rw [hp.1, hp.2.1, hp.2.2] at this
          rcases List.mem_append.mp this with h1 | h1
          · rcases List.mem_append.mp h1 with h1 | h1
            · exact ⟨a, Or.inr (Or.inl (by simp)), h1⟩
            · exact ⟨c, Or.inr (Or.inl (by simp)), h1⟩
          · exact ⟨_, Or.inr (Or.inr rfl), by simpa using h1⟩
  intro t ht
  obtain ⟨s, hs, hts⟩ := key t ht
  exact ⟨splitTex_space_ne_nil hts, s, hs, hts⟩

theorem C04_braces_atomic_nonvacuous :
    parseName "{von Last}, {Jr, III}, First~{de la}".toList = .ok
      ({ first := ["First".toList], middle := ["{de la}".toList], prelast := [],
         last := ["{von Last}".toList], lineage := ["{Jr, III}".toList] }, false) := by
  decide +kernel

end Pybtex.Props
