/-
C10 — the `.bib` reader is total: located pybtex errors only, confined to the bad entry.

Property theorems only, about the model `Model/BibParse.lean` (`Pybtex.Bib.parseBib`, which the
correspondence check compares with `pybtex.database.parse_string` in capture and strict mode).
Helper lemmas: `Lemmas/BibTotal.lean`.

`parseBib text strict wanted macros0 roles` returns the final reader state (`db`, the list `errs`
of problems reported through `handle_error`, the unread `rest`) and the error that left the
reader (`some e` = raised).  All theorems hold for every text, mode, wanted-set, initial macro
table and person-field list.
-/
import PybtexModel.Lemmas.BibDepth

namespace Pybtex.Props
open Pybtex Pybtex.Bib

/-- **Totality.**  The model is a total function (structural recursion; its loops carry a fuel
argument = remaining length + 1).  The content: the fuel never runs out and no impossible
branch is taken — no error of kind `internal` is ever reported or raised; and when nothing was
raised the whole text has been read (no `@` is left unread: reading continued after each error).
(`nameTooDeep`, the `BibTeXError` of `Person()` on a name nested deeper than 100 braces, is *not*
excluded here: it is reachable through an initial macro table `macros0` with such a value; see
`C10_total_wellnested`.) -/
theorem C10_total (text : Str) (strict : Bool) (wanted : Option (List Str))
    (macros0 : List (Str × Str)) (roles : List Str) :
    (∀ e ∈ (parseBib text strict wanted macros0 roles).1.errs, e.kind ≠ .internal) ∧
    (∀ e, (parseBib text strict wanted macros0 roles).2 = some e → e.kind ≠ .internal) ∧
    ((parseBib text strict wanted macros0 roles).2 = none →
      '@' ∉ (parseBib text strict wanted macros0 roles).1.rest) := by
  obtain ⟨hI, _, hE, hR⟩ := parseBib_good text strict wanted macros0 roles
  exact ⟨fun e he => (hI.2.2 e he).1, fun e he => (hE e he).1, fun h hc => hR h _ hc rfl⟩

/-- **No nesting error from `Person()`.**  `VOK v` says that the braces of `v` are balanced and
never nested deeper than 100.  If every value of the initial macro table is such (the month names
are, see `_nonvacuous`), then every value the reader assembles is (strings are cut off by the
`max_level` guard of `parse_string`, macros and `#` only concatenate balanced pieces), every name
piece handed to `Person()` is a segment of such a value, and `scan_bibtex_string`'s guard never
fires: no error of kind `nameTooDeep` is reported or raised, in either mode — so with
`C10_total` only the reader's own located/data errors remain, and continue mode raises nothing
at all. -/
theorem C10_total_wellnested (text : Str) (strict : Bool) (wanted : Option (List Str))
    (macros0 : List (Str × Str)) (roles : List Str) (hm : ∀ p ∈ macros0, VOK p.2) :
    (∀ e ∈ (parseBib text strict wanted macros0 roles).1.errs, e.kind ≠ .nameTooDeep) ∧
    (∀ e, (parseBib text strict wanted macros0 roles).2 = some e → e.kind ≠ .nameTooDeep) ∧
    (parseBib text false wanted macros0 roles).2 = none := by
  obtain ⟨h1, h2⟩ := parseBib_noDeep text strict wanted macros0 roles hm
  refine ⟨h1, h2, ?_⟩
  have h3 := (parseBib_noDeep text false wanted macros0 roles hm).2
  rcases (parseBib_sim text wanted macros0 roles).1 with h | h
  · exact h
  · exact absurd rfl (h3 _ h)

/-- the default macro table (month names) meets the hypothesis; a name nested 100 deep is read
(`{`×100 inside the quoted string is the deepest `parse_string` lets through) -/
theorem C10_total_wellnested_nonvacuous :
    (∀ p ∈ Gen.monthMacros, VOK p.2) ∧
    (parseBib ("@a{k, author = \"".toList ++ List.replicate 100 '{' ++ "x".toList ++
        List.replicate 100 '}' ++ " Y\"}".toList) false none).1.errs = [] ∧
    (parseBib ("@a{k, author = \"".toList ++ List.replicate 100 '{' ++ "x".toList ++
        List.replicate 100 '}' ++ " Y\"}".toList) false none).1.db.entries.map
          (fun e => e.persons.map (fun r => r.2.length)) = [[1]] := by
  decide +kernel

/-- **Located.**  Every syntax error (`TokenRequired`, `PrematureEOF`, "too many nested braces",
"unbalanced braces", `UndefinedMacro`) that is reported or raised carries a line number, and that
number is a line of the text: `1 ≤ ℓ ≤ 1 + (number of line breaks \r\n | \r | \n)`. -/
theorem C10_located (text : Str) (strict : Bool) (wanted : Option (List Str))
    (macros0 : List (Str × Str)) (roles : List Str) (e : Err)
    (he : e ∈ (parseBib text strict wanted macros0 roles).1.errs ∨
          (parseBib text strict wanted macros0 roles).2 = some e)
    (hk : (∃ d, e.kind = .tokenRequired d) ∨ e.kind = .prematureEOF ∨ e.kind = .tooManyBraces ∨
          e.kind = .unbalancedBraces ∨ (∃ n, e.kind = .undefinedMacro n)) :
    ∃ l, e.line = some l ∧ 1 ≤ l ∧ l ≤ 1 + countNl text := by
  obtain ⟨hI, _, hE, _⟩ := parseBib_good text strict wanted macros0 roles
  have hok : okErr (1 + countNl text) e := by
    rcases he with he | he
    · exact hI.2.2 e he
    · exact hE e he
  apply hok.2
  rcases hk with ⟨d, h⟩ | h | h | h | ⟨n, h⟩ <;> rw [h] <;> rfl

/-- a text with two entries and one error on its second line: the hypotheses of `C10_located` are
met by a reported error (continue mode) and by a raised one (strict mode), and the bound is tight -/
theorem C10_located_nonvacuous :
    (parseBib "@a{k, t = 1}\n@b{j, u = }\n".toList false none).1.errs
        = [⟨.tokenRequired "field value", some 2⟩] ∧
    (parseBib "@a{k, t = 1}\n@b{j, u = }\n".toList false none).2 = none ∧
    (parseBib "@a{k, t = 1}\n@b{j, u = }\n".toList false none).1.db.entries.map (·.key)
        = ["k".toList, "j".toList] ∧
    (parseBib "@a{k, t = 1}\n@b{j, u = }\n".toList true none).2
        = some ⟨.tokenRequired "field value", some 2⟩ ∧
    (parseBib "@a{k, t = 1}\r\n@b{j, u = ".toList false none).1.errs = [⟨.prematureEOF, some 2⟩] ∧
    1 + countNl "@a{k, t = 1}\r\n@b{j, u = ".toList = 2 := by decide +kernel

/-- **Modes.**  Strict reading is continue-mode (capture / non-strict) reading cut at the first
problem.  Let `c` be the continue-mode run and `t` the strict run of the same text.
* `c` raises nothing — except the `BibTeXError` of `Person()` on a name nested deeper than 100
  braces, which `pybtex` does not route through `handle_error`; that one is unreachable when the
  initial macro values are well nested (`C10_total_wellnested`: then `c.2 = none`);
* if `c` reported nothing, `t` ends exactly like `c` (same outcome, same database, same unread rest);
* if `c` reported `e` first, `t` raises `e`. -/
theorem C10_modes (text : Str) (wanted : Option (List Str)) (macros0 : List (Str × Str))
    (roles : List Str) :
    let c := parseBib text false wanted macros0 roles
    let t := parseBib text true wanted macros0 roles
    (c.2 = none ∨ c.2 = some ⟨.nameTooDeep, none⟩) ∧
    (c.1.errs = [] → t.2 = c.2 ∧ t.1.db = c.1.db ∧ t.1.rest = c.1.rest ∧ t.1.errs = []) ∧
    (∀ e tl, c.1.errs = e :: tl → t.2 = some e) := by
  intro c t
  obtain ⟨h1, h2⟩ := parseBib_sim text wanted macros0 roles
  have h0 : (initSt text false wanted macros0 roles).errs = [] := rfl
  rw [h0] at h2
  refine ⟨h1, ?_, ?_⟩
  · intro hc
    rcases h2 with ⟨_, h2⟩ | ⟨e, tl, s', h2, _⟩
    · have ht : t = (setStrict c.1, c.2) := h2
      rw [ht]
      exact ⟨rfl, rfl, rfl, hc⟩
    · rw [show (parseBib text false wanted macros0 roles).1.errs = [] from hc] at h2
      cases h2
  · intro e tl hc
    rcases h2 with ⟨h2, _⟩ | ⟨e', tl', s', h2, h3⟩
    · rw [show (parseBib text false wanted macros0 roles).1.errs = e :: tl from hc] at h2
      cases h2
    · rw [show (parseBib text false wanted macros0 roles).1.errs = e :: tl from hc] at h2
      simp only [List.nil_append, List.cons.injEq] at h2
      show (parseBib text true wanted macros0 roles).2 = _
      rw [h3, h2.1]

/-- both cases of `C10_modes` occur: an error-free text with two entries, and a text whose first
problem (an undefined macro, line 2) is raised in strict mode while continue mode goes on, reports
a second problem and keeps both entries -/
theorem C10_modes_nonvacuous :
    (parseBib "@a{k, t = 1}\n@b{j, u = {x}}".toList false none).1.errs = [] ∧
    (parseBib "@a{k, t = 1}\n@b{j, u = {x}}".toList true none).2 = none ∧
    (parseBib "@a{k, t = 1}\n@b{j, u = {x}}".toList true none).1.db.entries.map (·.key)
      = ["k".toList, "j".toList] ∧
    (parseBib "@a{k, t = 1}\n@b{j, u = x, v = }".toList false none).1.errs
      = [⟨.undefinedMacro "x".toList, some 2⟩, ⟨.tokenRequired "field value", some 2⟩] ∧
    (parseBib "@a{k, t = 1}\n@b{j, u = x, v = }".toList false none).1.db.entries.map (·.key)
      = ["k".toList, "j".toList] ∧
    (parseBib "@a{k, t = 1}\n@b{j, u = x, v = }".toList true none).2
      = some ⟨.undefinedMacro "x".toList, some 2⟩ := by decide +kernel

/-- **Nothing read later alters what was read before.**  `afterCommands k …` is the reader state
after the first `k` commands of the text (the command loop stopped after `k` rounds).  Its entries,
preamble and reported problems are initial segments of those of the complete run: entries are only
ever appended — never changed, reordered or removed — whatever follows, well-formed or not. -/
theorem C10_prefix_stable (text : Str) (strict : Bool) (wanted : Option (List Str))
    (macros0 : List (Str × Str)) (roles : List Str) (k : Nat) :
    (afterCommands k text strict wanted macros0 roles).db.entries
        <+: (parseBib text strict wanted macros0 roles).1.db.entries ∧
    (afterCommands k text strict wanted macros0 roles).db.preamble
        <+: (parseBib text strict wanted macros0 roles).1.db.preamble ∧
    (afterCommands k text strict wanted macros0 roles).errs
        <+: (parseBib text strict wanted macros0 roles).1.errs := by
  have h := parseLoop_prefix k (text.length + 1) _ (initSt_inv text strict wanted macros0 roles)
    (Nat.lt_succ_self _)
  rw [← parseBib_eq] at h
  exact ⟨h.2.2.2.2.1, h.2.2.2.2.2, h.2.2.2.1⟩

/-- `afterCommands` with enough rounds is the complete run, and it does stop in between: after one
command of this text only the first entry is there and nothing has been reported yet -/
theorem C10_prefix_stable_nonvacuous :
    (∀ text strict wanted macros0 roles,
      afterCommands (text.length + 1) text strict wanted macros0 roles
        = (parseBib text strict wanted macros0 roles).1) ∧
    (afterCommands 1 "@a{k, t = 1}\n@b{j, u = }\n@c{l}".toList false none Gen.monthMacros
        Gen.personRoles).db.entries.map (·.key) = ["k".toList] ∧
    (afterCommands 1 "@a{k, t = 1}\n@b{j, u = }\n@c{l}".toList false none Gen.monthMacros
        Gen.personRoles).errs = [] ∧
    (afterCommands 2 "@a{k, t = 1}\n@b{j, u = }\n@c{l}".toList false none Gen.monthMacros
        Gen.personRoles).db.entries.map (·.key) = ["k".toList, "j".toList] ∧
    (parseBib "@a{k, t = 1}\n@b{j, u = }\n@c{l}".toList false none).1.db.entries.map (·.key)
        = ["k".toList, "j".toList, "l".toList] ∧
    (parseBib "@a{k, t = 1}\n@b{j, u = }\n@c{l}".toList false none).1.errs
        = [⟨.tokenRequired "field value", some 2⟩] :=
  ⟨fun _ _ _ _ _ => rfl, by decide +kernel⟩

/-- **Confinement, per command.**  Whatever the `k+1`-st command of the text looks like —
well-formed or not — reading and processing it appends at most one entry and at most one preamble
item to what was there after `k` commands, and leaves every earlier item as it was.  In particular
a malformed entry leaves at most one (partial) entry behind.  (Parsing a command never touches the
bibliography data at all: `parseCommand_db`; only processing its result appends.) -/
theorem C10_confined_step (text : Str) (strict : Bool) (wanted : Option (List Str))
    (macros0 : List (Str × Str)) (roles : List Str) (k : Nat) :
    (∃ l, (afterCommands (k + 1) text strict wanted macros0 roles).db.entries
        = (afterCommands k text strict wanted macros0 roles).db.entries ++ l ∧ l.length ≤ 1) ∧
    (∃ l, (afterCommands (k + 1) text strict wanted macros0 roles).db.preamble
        = (afterCommands k text strict wanted macros0 roles).db.preamble ++ l ∧ l.length ≤ 1) :=
  parseLoop_step k _

/-- **Confinement fails when the malformed entry contains an `@`** (known finding
`C10-at-inside-malformed-entry`).  The second command `@misc{k, t = x y @misc{z, u = 1} }` has
balanced braces and quotes.  Reading resynchronises at the `@` inside it, so a bogus entry `z`
(`u = 1`) is read from the wreckage; the later, well-formed `@misc{z, v = 2}` is then rejected as a
repeated entry.  Without the malformed command the text yields `p` and the real `z` (`v = 2`). -/
theorem C10_confined_neg :
    (parseBib "@misc{p, t = 1}\n@misc{k, t = x y @misc{z, u = 1} }\n@misc{z, v = 2}\n".toList
        false none).1.db.entries.map (fun e => (e.key, e.fields))
      = [("p".toList, [("t".toList, "1".toList)]), ("k".toList, [("t".toList, [])]),
         ("z".toList, [("u".toList, "1".toList)])] ∧
    (parseBib "@misc{p, t = 1}\n@misc{k, t = x y @misc{z, u = 1} }\n@misc{z, v = 2}\n".toList
        false none).1.errs
      = [⟨.undefinedMacro "x".toList, some 2⟩, ⟨.tokenRequired "'}'", some 2⟩,
         ⟨.repeatedEntry "z".toList, none⟩] ∧
    (parseBib "@misc{p, t = 1}\n\n@misc{z, v = 2}\n".toList
        false none).1.db.entries.map (fun e => (e.key, e.fields))
      = [("p".toList, [("t".toList, "1".toList)]), ("z".toList, [("v".toList, "2".toList)])] := by
  decide +kernel

/-- **Confinement also fails for a lone `@`** (a command truncated right after its `@`; it has no
brace, no quote and no further `@`).  `@` is one of `NAME_CHARS`, so the command name is read
across the line break from the next command: `@misc{z, v = 2}` is read as an entry of type `@misc`,
and nothing is reported.  Hence `C10_confined_partial` in the form "balanced braces and quotes, no
`@` after the first character" is false; it would need "the command name ends inside the malformed
command" as well. -/
theorem C10_confined_lone_at_neg :
    (parseBib "@\n@misc{z, v = 2}\n".toList false none).1.db.entries.map
        (fun e => (e.key, e.origType)) = [("z".toList, "@misc".toList)] ∧
    (parseBib "@\n@misc{z, v = 2}\n".toList false none).1.errs = [] ∧
    (parseBib "\n@misc{z, v = 2}\n".toList false none).1.db.entries.map
        (fun e => (e.key, e.origType)) = [("z".toList, "misc".toList)] := by
  decide +kernel

end Pybtex.Props
