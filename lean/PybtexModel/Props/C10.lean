/-
C10 — the `.bib` reader is total: located pybtex errors only, confined to the bad entry.

Property theorems only, about the model `Model/BibParse.lean` (`Pybtex.Bib.parseBib`, which the
correspondence check compares with `pybtex.database.parse_string` in capture and strict mode).
Helper lemmas: `Lemmas/BibTotal.lean`, `BibNest`, `BibDepth`; `Lemmas/BibLocal.lean` for the positive
confinement statements (locality of reading, resynchronisation, independence);
`Lemmas/BibLocate.lean` for the exact position of the syntax errors (`C10_located_exact`, at the end).

`parseBib text strict wanted macros0 roles` returns the final reader state (`db`, the list `errs`
of problems reported through `handle_error`, the unread `rest`) and the error that left the
reader (`some e` = raised).  All theorems hold for every text, mode, wanted-set, initial macro
table and person-field list.
-/
import PybtexModel.Lemmas.BibDepth
import PybtexModel.Lemmas.BibLocal
import PybtexModel.Lemmas.BibLocate
import PybtexModel.Lemmas.BibBefore
import PybtexModel.Lemmas.BibBridge
import PybtexModel.Lemmas.BibBeforeAny

namespace Pybtex.Props
open Pybtex Pybtex.Bib

/-- **Totality.**  The model is a total function (structural recursion; its loops carry a fuel
argument = remaining length + 1).  The content: the fuel never runs out and no impossible
branch is taken — no error of kind `internal` is ever reported or raised; and when nothing was
raised the whole text has been read (no `@` is left unread: reading continued after each error).
(`nameTooDeep`, the `BibTeXError` of `Person()` on a name nested deeper than 100 braces, is *not*
excluded here: it is reachable through an initial macro table `macros0` with such a value; see
`C10_total_wellnested`.) -/
theorem C10_total (text : Str) (strict : Bool) (wanted : Option (List Str))
    (macros0 : List (Str × Str)) (roles : List Str) :
    (∀ e ∈ (parseBib text strict wanted macros0 roles).1.errs, e.kind ≠ .internal) ∧
    (∀ e, (parseBib text strict wanted macros0 roles).2 = some e → e.kind ≠ .internal) ∧
    ((parseBib text strict wanted macros0 roles).2 = none →
      '@' ∉ (parseBib text strict wanted macros0 roles).1.rest) := by
  obtain ⟨hI, _, hE, hR⟩ := parseBib_good text strict wanted macros0 roles
  exact ⟨fun e he => (hI.2.2 e he).1, fun e he => (hE e he).1, fun h hc => hR h _ hc rfl⟩

/-- **No nesting error from `Person()`.**  `VOK v` says that the braces of `v` are balanced and
never nested deeper than 100.  If every value of the initial macro table is such (the month names
are, see `_nonvacuous`), then every value the reader assembles is (strings are cut off by the
`max_level` guard of `parse_string`, macros and `#` only concatenate balanced pieces), every name
piece handed to `Person()` is a segment of such a value, and `scan_bibtex_string`'s guard never
fires: no error of kind `nameTooDeep` is reported or raised, in either mode — so with
`C10_total` only the reader's own located/data errors remain, and continue mode raises nothing
at all. -/
theorem C10_total_wellnested (text : Str) (strict : Bool) (wanted : Option (List Str))
    (macros0 : List (Str × Str)) (roles : List Str) (hm : ∀ p ∈ macros0, VOK p.2) :
    (∀ e ∈ (parseBib text strict wanted macros0 roles).1.errs, e.kind ≠ .nameTooDeep) ∧
    (∀ e, (parseBib text strict wanted macros0 roles).2 = some e → e.kind ≠ .nameTooDeep) ∧
    (parseBib text false wanted macros0 roles).2 = none := by
  obtain ⟨h1, h2⟩ := parseBib_noDeep text strict wanted macros0 roles hm
  refine ⟨h1, h2, ?_⟩
  have h3 := (parseBib_noDeep text false wanted macros0 roles hm).2
  rcases (parseBib_sim text wanted macros0 roles).1 with h | h
  · exact h
  · exact absurd rfl (h3 _ h)

/-- the default macro table (month names) meets the hypothesis; a name nested 100 deep is read
(`{`×100 inside the quoted string is the deepest `parse_string` lets through) -/
theorem C10_total_wellnested_nonvacuous :
    (∀ p ∈ Gen.monthMacros, VOK p.2) ∧
    (parseBib ("@a{k, author = \"".toList ++ List.replicate 100 '{' ++ "x".toList ++
        List.replicate 100 '}' ++ " Y\"}".toList) false none).1.errs = [] ∧
    (parseBib ("@a{k, author = \"".toList ++ List.replicate 100 '{' ++ "x".toList ++
        List.replicate 100 '}' ++ " Y\"}".toList) false none).1.db.entries.map
          (fun e => e.persons.map (fun r => r.2.length)) = [[1]] := by
  decide +kernel

/-- **Located.**  Every syntax error (`TokenRequired`, `PrematureEOF`, "too many nested braces",
"unbalanced braces", `UndefinedMacro`) that is reported or raised carries a line number, and that
number is a line of the text: `1 ≤ ℓ ≤ 1 + (number of line breaks \r\n | \r | \n)`. -/
theorem C10_located (text : Str) (strict : Bool) (wanted : Option (List Str))
    (macros0 : List (Str × Str)) (roles : List Str) (e : Err)
    (he : e ∈ (parseBib text strict wanted macros0 roles).1.errs ∨
          (parseBib text strict wanted macros0 roles).2 = some e)
    (hk : (∃ d, e.kind = .tokenRequired d) ∨ e.kind = .prematureEOF ∨ e.kind = .tooManyBraces ∨
          e.kind = .unbalancedBraces ∨ (∃ n, e.kind = .undefinedMacro n)) :
    ∃ l, e.line = some l ∧ 1 ≤ l ∧ l ≤ 1 + countNl text := by
  obtain ⟨hI, _, hE, _⟩ := parseBib_good text strict wanted macros0 roles
  have hok : okErr (1 + countNl text) e := by
    rcases he with he | he
    · exact hI.2.2 e he
    · exact hE e he
  apply hok.2
  rcases hk with ⟨d, h⟩ | h | h | h | ⟨n, h⟩ <;> rw [h] <;> rfl

/-- a text with two entries and one error on its second line: the hypotheses of `C10_located` are
met by a reported error (continue mode) and by a raised one (strict mode), and the bound is tight -/
theorem C10_located_nonvacuous :
    (parseBib "@a{k, t = 1}\n@b{j, u = }\n".toList false none).1.errs
        = [⟨.tokenRequired "field value", some 2⟩] ∧
    (parseBib "@a{k, t = 1}\n@b{j, u = }\n".toList false none).2 = none ∧
    (parseBib "@a{k, t = 1}\n@b{j, u = }\n".toList false none).1.db.entries.map (·.key)
        = ["k".toList, "j".toList] ∧
    (parseBib "@a{k, t = 1}\n@b{j, u = }\n".toList true none).2
        = some ⟨.tokenRequired "field value", some 2⟩ ∧
    (parseBib "@a{k, t = 1}\r\n@b{j, u = ".toList false none).1.errs = [⟨.prematureEOF, some 2⟩] ∧
    1 + countNl "@a{k, t = 1}\r\n@b{j, u = ".toList = 2 := by decide +kernel

/-- **Modes.**  Strict reading is continue-mode (capture / non-strict) reading cut at the first
problem.  Let `c` be the continue-mode run and `t` the strict run of the same text.
* `c` raises nothing — except the `BibTeXError` of `Person()` on a name nested deeper than 100
  braces, which `pybtex` does not route through `handle_error`; that one is unreachable when the
  initial macro values are well nested (`C10_total_wellnested`: then `c.2 = none`);
* if `c` reported nothing, `t` ends exactly like `c` (same outcome, same database, same unread rest);
* if `c` reported `e` first, `t` raises `e`. -/
theorem C10_modes (text : Str) (wanted : Option (List Str)) (macros0 : List (Str × Str))
    (roles : List Str) :
    let c := parseBib text false wanted macros0 roles
    let t := parseBib text true wanted macros0 roles
    (c.2 = none ∨ c.2 = some ⟨.nameTooDeep, none⟩) ∧
    (c.1.errs = [] → t.2 = c.2 ∧ t.1.db = c.1.db ∧ t.1.rest = c.1.rest ∧ t.1.errs = []) ∧
    (∀ e tl, c.1.errs = e :: tl → t.2 = some e) := by
  intro c t
  obtain ⟨h1, h2⟩ := parseBib_sim text wanted macros0 roles
  have h0 : (initSt text false wanted macros0 roles).errs = [] := rfl
  rw [h0] at h2
  refine ⟨h1, ?_, ?_⟩
  · intro hc
    rcases h2 with ⟨_, h2⟩ | ⟨e, tl, s', h2, _⟩
    · have ht : t = (setStrict c.1, c.2) := h2
      rw [ht]
      exact ⟨rfl, rfl, rfl, hc⟩
    · rw [show (parseBib text false wanted macros0 roles).1.errs = [] from hc] at h2
      cases h2
  · intro e tl hc
    rcases h2 with ⟨h2, _⟩ | ⟨e', tl', s', h2, h3⟩
    · rw [show (parseBib text false wanted macros0 roles).1.errs = e :: tl from hc] at h2
      cases h2
    · rw [show (parseBib text false wanted macros0 roles).1.errs = e :: tl from hc] at h2
      simp only [List.nil_append, List.cons.injEq] at h2
      show (parseBib text true wanted macros0 roles).2 = _
      rw [h3, h2.1]

/-- both cases of `C10_modes` occur: an error-free text with two entries, and a text whose first
problem (an undefined macro, line 2) is raised in strict mode while continue mode goes on, reports
a second problem and keeps both entries -/
theorem C10_modes_nonvacuous :
    (parseBib "@a{k, t = 1}\n@b{j, u = {x}}".toList false none).1.errs = [] ∧
    (parseBib "@a{k, t = 1}\n@b{j, u = {x}}".toList true none).2 = none ∧
    (parseBib "@a{k, t = 1}\n@b{j, u = {x}}".toList true none).1.db.entries.map (·.key)
      = ["k".toList, "j".toList] ∧
    (parseBib "@a{k, t = 1}\n@b{j, u = x, v = }".toList false none).1.errs
      = [⟨.undefinedMacro "x".toList, some 2⟩, ⟨.tokenRequired "field value", some 2⟩] ∧
    (parseBib "@a{k, t = 1}\n@b{j, u = x, v = }".toList false none).1.db.entries.map (·.key)
      = ["k".toList, "j".toList] ∧
    (parseBib "@a{k, t = 1}\n@b{j, u = x, v = }".toList true none).2
      = some ⟨.undefinedMacro "x".toList, some 2⟩ := by decide +kernel

/-- **Nothing read later alters what was read before.**  `afterCommands k …` is the reader state
after the first `k` commands of the text (the command loop stopped after `k` rounds).  Its entries,
preamble and reported problems are initial segments of those of the complete run: entries are only
ever appended — never changed, reordered or removed — whatever follows, well-formed or not. -/
theorem C10_prefix_stable (text : Str) (strict : Bool) (wanted : Option (List Str))
    (macros0 : List (Str × Str)) (roles : List Str) (k : Nat) :
    (afterCommands k text strict wanted macros0 roles).db.entries
        <+: (parseBib text strict wanted macros0 roles).1.db.entries ∧
    (afterCommands k text strict wanted macros0 roles).db.preamble
        <+: (parseBib text strict wanted macros0 roles).1.db.preamble ∧
    (afterCommands k text strict wanted macros0 roles).errs
        <+: (parseBib text strict wanted macros0 roles).1.errs := by
  have h := parseLoop_prefix k (text.length + 1) _ (initSt_inv text strict wanted macros0 roles)
    (Nat.lt_succ_self _)
  rw [← parseBib_eq] at h
  exact ⟨h.2.2.2.2.1, h.2.2.2.2.2, h.2.2.2.1⟩

/-- `afterCommands` with enough rounds is the complete run, and it does stop in between: after one
command of this text only the first entry is there and nothing has been reported yet -/
theorem C10_prefix_stable_nonvacuous :
    (∀ text strict wanted macros0 roles,
      afterCommands (text.length + 1) text strict wanted macros0 roles
        = (parseBib text strict wanted macros0 roles).1) ∧
    (afterCommands 1 "@a{k, t = 1}\n@b{j, u = }\n@c{l}".toList false none Gen.monthMacros
        Gen.personRoles).db.entries.map (·.key) = ["k".toList] ∧
    (afterCommands 1 "@a{k, t = 1}\n@b{j, u = }\n@c{l}".toList false none Gen.monthMacros
        Gen.personRoles).errs = [] ∧
    (afterCommands 2 "@a{k, t = 1}\n@b{j, u = }\n@c{l}".toList false none Gen.monthMacros
        Gen.personRoles).db.entries.map (·.key) = ["k".toList, "j".toList] ∧
    (parseBib "@a{k, t = 1}\n@b{j, u = }\n@c{l}".toList false none).1.db.entries.map (·.key)
        = ["k".toList, "j".toList, "l".toList] ∧
    (parseBib "@a{k, t = 1}\n@b{j, u = }\n@c{l}".toList false none).1.errs
        = [⟨.tokenRequired "field value", some 2⟩] :=
  ⟨fun _ _ _ _ _ => rfl, by decide +kernel⟩

/-- **Confinement, per command.**  Whatever the `k+1`-st command of the text looks like —
well-formed or not — reading and processing it appends at most one entry and at most one preamble
item to what was there after `k` commands, and leaves every earlier item as it was.  In particular
a malformed entry leaves at most one (partial) entry behind.  (Parsing a command never touches the
bibliography data at all: `parseCommand_db`; only processing its result appends.) -/
theorem C10_confined_step (text : Str) (strict : Bool) (wanted : Option (List Str))
    (macros0 : List (Str × Str)) (roles : List Str) (k : Nat) :
    (∃ l, (afterCommands (k + 1) text strict wanted macros0 roles).db.entries
        = (afterCommands k text strict wanted macros0 roles).db.entries ++ l ∧ l.length ≤ 1) ∧
    (∃ l, (afterCommands (k + 1) text strict wanted macros0 roles).db.preamble
        = (afterCommands k text strict wanted macros0 roles).db.preamble ++ l ∧ l.length ≤ 1) :=
  parseLoop_step k _

/-- **Confinement fails when the malformed entry contains an `@`** (known finding
`C10-at-inside-malformed-entry`).  The second command `@misc{k, t = x y @misc{z, u = 1} }` has
balanced braces and quotes.  Reading resynchronises at the `@` inside it, so a bogus entry `z`
(`u = 1`) is read from the wreckage; the later, well-formed `@misc{z, v = 2}` is then rejected as a
repeated entry.  Without the malformed command the text yields `p` and the real `z` (`v = 2`). -/
theorem C10_confined_neg :
    (parseBib "@misc{p, t = 1}\n@misc{k, t = x y @misc{z, u = 1} }\n@misc{z, v = 2}\n".toList
        false none).1.db.entries.map (fun e => (e.key, e.fields))
      = [("p".toList, [("t".toList, "1".toList)]), ("k".toList, [("t".toList, [])]),
         ("z".toList, [("u".toList, "1".toList)])] ∧
    (parseBib "@misc{p, t = 1}\n@misc{k, t = x y @misc{z, u = 1} }\n@misc{z, v = 2}\n".toList
        false none).1.errs
      = [⟨.undefinedMacro "x".toList, some 2⟩, ⟨.tokenRequired "'}'", some 2⟩,
         ⟨.repeatedEntry "z".toList, none⟩] ∧
    (parseBib "@misc{p, t = 1}\n\n@misc{z, v = 2}\n".toList
        false none).1.db.entries.map (fun e => (e.key, e.fields))
      = [("p".toList, [("t".toList, "1".toList)]), ("z".toList, [("v".toList, "2".toList)])] := by
  decide +kernel

/-- **Confinement also fails for a lone `@`** (a command truncated right after its `@`; it has no
brace, no quote and no further `@`).  `@` is one of `NAME_CHARS`, so the command name is read
across the line break from the next command: `@misc{z, v = 2}` is read as an entry of type `@misc`,
and nothing is reported.  Hence `C10_confined_partial` in the form "balanced braces and quotes, no
`@` after the first character" is false; it would need "the command name ends inside the malformed
command" as well. -/
theorem C10_confined_lone_at_neg :
    (parseBib "@\n@misc{z, v = 2}\n".toList false none).1.db.entries.map
        (fun e => (e.key, e.origType)) = [("z".toList, "@misc".toList)] ∧
    (parseBib "@\n@misc{z, v = 2}\n".toList false none).1.errs = [] ∧
    (parseBib "\n@misc{z, v = 2}\n".toList false none).1.db.entries.map
        (fun e => (e.key, e.origType)) = [("z".toList, "misc".toList)] := by
  decide +kernel

/-! ### Confinement after a malformed entry: the positive statements

`loopStep s` (`Lemmas/BibTotal.lean`) is ONE ROUND of the command loop of `parse_bibliography` /
`Parser.parse_string` from the loop-top state `s`: skip to the next `@`, read the command
(`parse_command`, with its own `handle_error`), process it (`process_entry` / `process_preamble`),
handle a syntax error that escaped.  `.inr s'` = the loop goes on from `s'`; `.inl (s', raised)` =
the loop stops in state `s'` (`raised = none`: no `@` left; `some e`: `e` left the reader).
`parseLoop (fuel + 1) s` is `loopStep s` followed by `parseLoop fuel` (`parseLoop_succ`).
`Step.st` / `Step.err` are the state and the raised error of a round's outcome. -/

/-- example state: the reader after `@misc{p, t = 1}` + line break has been read (line 1, the
line break still unread) -/
def exS0 : St := (parseBib "@misc{p, t = 1}\n".toList false none).1
def exBad : Str := "@misc{k, t = x y}\n".toList
def exPost : Str := "@misc{z, v = 2}\n".toList
/-- an entry to insert -/
def exK : Entry := { key := "k".toList, type := "misc".toList, origType := "misc".toList, fields := [], persons := [] }
/-- the state after the round on `exBad` alone -/
def exS1 : St := Step.st (loopStep { exS0 with rest := exBad })

/-- `f` is local at `s`: if the run of `f` on the unread text `s.rest` did not run into the end of
the text (`Res.stop`: a `PrematureEOF`; the fuel error `internal` never occurs, `C10_total`) and
stopped strictly before it — it left a character unread, or it raised a syntax error (a syntax
error other than `PrematureEOF` is always raised in front of, or just behind, a character of the
text) —, then on `s.rest ++ c`, for EVERY continuation `c`, `f` returns the same value or the same
error (same line: lines are computed from the consumed text), makes the same state changes, and
leaves `c` unread behind what it left unread before.  (`St.appRest c n t` is `t` with `c` appended
to the unread text `t.rest` — and, for the ghost `errAt` = "the unread text at each reported
problem", to the entries behind the first `n`, i.e. to those of the problems that `f` itself
reported: they were reported with `c` unread as well.  Nothing else changes.) -/
def LocalAt {α : Type} (f : St → Bib.Res α) (s : St) : Prop :=
  ¬ (f s).stop → ((f s).st.rest ≠ [] ∨ (f s).synFail) →
    ∀ c, f { s with rest := s.rest ++ c } = (f s).mapSt (St.appRest c s.errAt.length)

/-- **Locality of every scanner / parse function** of `LowLevelParser`: `get_token` (= `optional`),
`required`, `parse_value_part` (strings with their nested braces, numbers, macro names),
`parse_value`, `parse_field`, `parse_entry_body` (key and all fields), `parse_string_body`.
(`parse_command`, whose `except` clause turns a syntax error into a reported problem, and the
processing of the command are covered by `C10_round_local`.) -/
theorem C10_scan_local (s : St) :
    (∀ pats, LocalAt (getToken pats) s) ∧ (∀ pats desc, LocalAt (required pats desc) s) ∧
    LocalAt parseValuePart s ∧ LocalAt parseValue s ∧ LocalAt parseField s ∧
    (∀ paren, LocalAt (parseEntryBody paren) s) ∧ LocalAt parseStringBody s := by
  exact ⟨fun pats => local_of_T _ s (fun T s0 h => getToken_T T pats s0 (Or.inl h)),
    fun pats desc => local_of_T _ s (fun T s0 h => required_T T pats desc s0 (Or.inl h)),
    local_of_T _ s (fun T s0 h => parseValuePart_T T s0 h),
    local_of_T _ s (fun T s0 h => parseValue_T T s0 h),
    local_of_T _ s (fun T s0 h => parseField_T T s0 h),
    fun paren => local_of_T _ s (fun T s0 h => parseEntryBody_T T paren s0 h),
    local_of_T _ s (fun T s0 h => parseStringBody_T T s0 h)⟩

/-- the premises of `LocalAt` occur: `parse_value` on `{a {b} c} # x, u` reads two parts (the
second an undefined macro, reported) and stops in front of `, u`; on `"a}` it raises "unbalanced
braces" behind the last character of the text — nothing left unread, still local; whereas on
`{a` it runs into the end of the text (`PrematureEOF`: not local, cf. `C10_round_local_neg`) -/
theorem C10_scan_local_nonvacuous :
    (¬ (parseValue { exS0 with rest := "{a {b} c} # x, u".toList }).stop ∧
     (parseValue { exS0 with rest := "{a {b} c} # x, u".toList }).st.rest = ", u".toList ∧
     (parseValue { exS0 with rest := "{a {b} c} # x, u".toList }).st.curValue = ["a {b} c".toList, []] ∧
     (parseValue { exS0 with rest := "{a {b} c} # x, u".toList }).st.errs
       = [⟨.undefinedMacro "x".toList, some 1⟩]) ∧
    (¬ (parseValue { exS0 with rest := "\"a}".toList }).stop ∧
     (parseValue { exS0 with rest := "\"a}".toList }).synFail ∧
     (parseValue { exS0 with rest := "\"a}".toList }).st.rest = []) ∧
    (parseValue { exS0 with rest := "{a".toList }).stop := by
  decide +kernel

/-- **Locality of reading** ("the reader never looks further than one character beyond what it
consumes"), for one whole round.  Suppose the round on the unread text `s.rest` alone finds its `@`
and does not run into the end of the text: no `PrematureEOF` is among the problems it reports
(`errs` beyond the old ones) and, if an error leaves the reader (strict mode), it is not
`PrematureEOF` and is raised in front of an unread character.  Then for EVERY continuation `c` the
round on `s.rest ++ c` has the same outcome: the same command read, the same entry / preamble item
appended, the same problems with the same line numbers (they are computed from the consumed text),
the same macro table — and it leaves `c` unread behind what it left unread before.
(`Step.appRest c n` appends `c` to the unread text of the outcome — and, in the ghost `errAt` that
records the unread text at each reported problem, to the entries behind the first
`n = s.errAt.length`, i.e. to those of the problems reported in this round, which were reported with
`c` unread as well — and changes nothing else.)
`Lemmas/BibLocal.lean` proves the same for every scanner / parse function below
(`getToken_T`, `required_T`, `strLoop_T`, `parseValue_T`, …, `parseCommand_T`, `processCmd_T`).
Unlike for a single token, "stopped before the end of the text" is NOT enough here: see
`C10_round_local_neg`. -/
theorem C10_round_local (s : St) (c : Str) (hln : 1 ≤ s.ln) (hat : '@' ∈ s.rest)
    (hE : ∀ e ∈ (Step.st (loopStep s)).errs.drop s.errs.length, e.kind ≠ .prematureEOF)
    (hR : ∀ e, Step.err (loopStep s) = some e →
      e.kind ≠ .prematureEOF ∧ (Step.st (loopStep s)).rest ≠ []) :
    loopStep { s with rest := s.rest ++ c } = Step.appRest c s.errAt.length (loopStep s) :=
  loopStep_local s c hln hat hE hR

/-- **Resynchronisation.**  Unread text `a` that contains no `@` (what a round that reported a
syntax error left behind, empty or not) does not influence the next round: on `a ++ c` the reader
skips to the first `@` of `c` and goes on exactly as on `c` alone — with the line counter advanced
by the line breaks of `a` (`countNl (a ++ c) - countNl c`; this is `countNl a` unless `a` ends in
`\r` and `c` starts with `\n`).  If `c` has no `@` either, the loop stops. -/
theorem C10_resync (s : St) (a c : Str) (ha : '@' ∉ a) :
    ('@' ∉ c → loopStep { s with rest := a ++ c } = .inl ({ s with rest := a ++ c }, none)) ∧
    ('@' ∈ c → loopStep { s with rest := a ++ c } =
      loopStep { s with rest := c, ln := s.ln + (countNl (a ++ c) - countNl c) }) :=
  loopStep_resync s a c ha

/-- `reframe k R n l Pr s`: the state `s` in another context — the line counter is `k` higher (and
so is the line of every problem reported so far), the problems `R` and the preamble items `Pr` were
there before everything else, the entries `l` were inserted behind the first `n` entries.  The
unread text, the macro table, the settings (`strict`, `roles`, wanted-set, citations), the
unnamed-entry counter and the ghost `errAt` are those of `s`. -/
def reframe (k : Nat) (R : List Err) (n : Nat) (l : List Entry) (Pr : List Str) (s : St) : St :=
  { s with ln := s.ln + k, errs := R ++ s.errs.map (shiftErr k),
           db := { s.db with entries := s.db.entries.take n ++ l ++ s.db.entries.drop n,
                             preamble := Pr ++ s.db.preamble } }

theorem reframe_eq (k : Nat) (R : List Err) (n : Nat) (l : List Entry) (Pr : List Str) (s : St) :
    reframe k R n l Pr s = ({ k := k, R := R, n := n, l := l, Pr := Pr } : Tr).app s := by
  apply St.ext' <;> try rfl
  · show s.rest = s.rest ++ []
    simp
  · show s.errAt = [] ++ s.errAt.map (· ++ [])
    simp

/-- **Independence of a round from what was read before.**  A round does not depend on the entries,
preamble items and problems collected so far, nor on the absolute value of the line counter — with
the single exception of the repeated-key check of `add_entry`.  Precisely: run the round from `s`
and from `reframe k R n l Pr s` (same unread text, macro table, settings, counter; other problems
and preamble items in front, entries `l` inserted, lines shifted by `k`).  Unless the second run
reports (behind the problems it started with) or raises a repeated-entry error for a key of one of
the inserted entries `l` — keys compared as `add_entry` compares them, by `keyFold` = `str.lower()` —, both rounds
have the same outcome: the second one is the `reframe` of the first (same command, same appended
entry / preamble item, same new problems with lines shifted by `k`, same macro table, same unread
text). -/
theorem C10_round_independent {N : Nat} (s : St) (hI : Inv N s) (k : Nat) (R : List Err) (n : Nat)
    (l : List Entry) (Pr : List Str) (hn : n ≤ s.db.entries.length)
    (hK : ∀ key, l.any (fun e => keyFold e.key = keyFold key) = true →
      errRep key ∉ (Step.st (loopStep (reframe k R n l Pr s))).errs.drop (R.length + s.errs.length) ∧
      Step.err (loopStep (reframe k R n l Pr s)) ≠ some (errRep key)) :
    loopStep (reframe k R n l Pr s) =
      match loopStep s with
      | .inl (s', raised) => .inl (reframe k R n l Pr s', raised.map (shiftErr k))
      | .inr s' => .inr (reframe k R n l Pr s') := by
  have h := loopStep_T ({ k := k, R := R, n := n, l := l, Pr := Pr } : Tr) (R.length + s.errs.length) s hI hn
    (by rw [T_errs_len]; exact Nat.le_refl _) (Or.inl rfl)
    (by rw [← reframe_eq]; exact hK)
  rw [← reframe_eq] at h
  rw [h]
  cases loopStep s with
  | inl r => obtain ⟨s', o⟩ := r; simp only [Step.mapT, reframe_eq]
  | inr s' => simp only [Step.mapT, reframe_eq]

/-- **Confinement after a self-contained command** — the positive counterpart of
`C10_confined_neg` / `C10_confined_lone_at_neg`.  `S` is any loop-top state, `bad` and `post` any
texts.  Operational hypotheses, all about the round on `bad` ALONE (`S` with unread text `bad`):
* `hround`: the loop goes on after it, in state `S1` (it reported its errors, or none);
* `hE`: it did not run into the end of the text — none of the problems it reported is
  `PrematureEOF` (this is what "its own braces and quotes are balanced" means operationally: a
  string or a body left open reads on into `post`);
* `hat`: what it left unread of `bad` contains no `@` (cf. the two negative witnesses).
`A` = the run on `bad ++ post`; `B` = the run on `post` alone from the same state `S`, with the
three things a command hands on to later ones as `bad` left them: macro table (`@string`),
wanted-set (`crossref` of an entry that was added) and unnamed-entry counter
(`carry S S1 post`; see `C10_confined_after_partial` for the case that `bad` leaves them alone).
* `hK`, exception (b): the run `A` does not report (behind the problems of `bad`) or raise a
  repeated-entry error for the key of the (at most one, `C10_confined_step`) entry that `bad`
  left behind — i.e. no later entry of `post` reuses that key.
Then everything read from `post` is what is read from `post` alone: `A`'s entries / preamble items /
problems are those of the round on `bad` followed by EXACTLY the entries / preamble items /
problems that `B` adds to those of `S`, the problems with their lines shifted by the line breaks
in front of `post`; and `A` raises what `B` raises. -/
theorem C10_confined_after {N : Nat} (S S1 : St) (bad post : Str)
    (hI : Inv N { S with rest := bad ++ post })
    (hround : loopStep { S with rest := bad } = .inr S1)
    (hE : ∀ e ∈ S1.errs.drop S.errs.length, e.kind ≠ .prematureEOF)
    (hat : '@' ∉ S1.rest) :
    let A := parseLoop ((bad ++ post).length + 1) { S with rest := bad ++ post }
    let B := parseLoop (post.length + 1) (carry S S1 post)
    let δ := countNl (bad ++ post) - countNl post
    (∀ key, (S1.db.entries.drop S.db.entries.length).any (fun e => keyFold e.key = keyFold key) = true →
        errRep key ∉ A.1.errs.drop S1.errs.length ∧ A.2 ≠ some (errRep key)) →
    A.1.db.entries = S1.db.entries ++ B.1.db.entries.drop S.db.entries.length ∧
    A.1.db.preamble = S1.db.preamble ++ B.1.db.preamble.drop S.db.preamble.length ∧
    A.1.errs = S1.errs ++ (B.1.errs.drop S.errs.length).map (shiftErr δ) ∧
    A.2 = B.2.map (shiftErr δ) := by
  intro A B δ hK
  exact parseLoop_confined S S1 bad post A B hI hround hE hat rfl rfl hK

/-- **Confinement after a self-contained command that hands nothing on.**  If moreover the round on
`bad` left the macro table, the wanted-set and the unnamed-entry counter as they were, `B` is
simply the run on `post` alone from `S`: apart from (a) the at most one partial entry of `bad`
and (b) later entries reusing its key, the malformed command alters nothing that is read after it.
The two extra hypotheses `hun`, `hw` cannot be dropped (`C10_confined_after_unnamed_neg`,
`C10_confined_after_wanted_neg`); with `wanted = none` (plain `parse_string`) `hw` always holds. -/
theorem C10_confined_after_partial {N : Nat} (S S1 : St) (bad post : Str)
    (hI : Inv N { S with rest := bad ++ post })
    (hround : loopStep { S with rest := bad } = .inr S1)
    (hE : ∀ e ∈ S1.errs.drop S.errs.length, e.kind ≠ .prematureEOF)
    (hat : '@' ∉ S1.rest)
    (hmac : S1.macros = S.macros) (hun : S1.unnamed = S.unnamed) (hw : S1.db.wanted = S.db.wanted) :
    let A := parseLoop ((bad ++ post).length + 1) { S with rest := bad ++ post }
    let B := parseLoop (post.length + 1) { S with rest := post }
    let δ := countNl (bad ++ post) - countNl post
    (∀ key, (S1.db.entries.drop S.db.entries.length).any (fun e => keyFold e.key = keyFold key) = true →
        errRep key ∉ A.1.errs.drop S1.errs.length ∧ A.2 ≠ some (errRep key)) →
    A.1.db.entries = S1.db.entries ++ B.1.db.entries.drop S.db.entries.length ∧
    A.1.db.preamble = S1.db.preamble ++ B.1.db.preamble.drop S.db.preamble.length ∧
    A.1.errs = S1.errs ++ (B.1.errs.drop S.errs.length).map (shiftErr δ) ∧
    A.2 = B.2.map (shiftErr δ) := by
  intro A B δ hK
  have e : carry S S1 post = { S with rest := post } := by
    apply St.ext' <;> try rfl
    · exact hmac
    · apply Db.ext' <;> try rfl
      exact hw
    · exact hun
  have := C10_confined_after S S1 bad post hI hround hE hat
  simp only [e] at this
  exact this hK

/-- **The same for whole texts**, with the malformed command at the head of the text: if the first
round of reading `bad` alone goes on (state `S1`), reports no `PrematureEOF`, leaves no `@`
unread and leaves macro table, unnamed-entry counter and wanted-set as they were initially, then
reading `bad ++ post` yields what the round on `bad` yielded followed by exactly what reading
`post` alone yields — entries, preamble items, problems (lines shifted by the line breaks of
`bad`), raised error — unless a later entry is reported as repeating the key of the partial entry
of `bad`. -/
theorem C10_confined_after_head (bad post : Str) (strict : Bool) (wanted : Option (List Str))
    (macros0 : List (Str × Str)) (roles : List Str) (S1 : St)
    (hround : loopStep (initSt bad strict wanted macros0 roles) = .inr S1)
    (hE : ∀ e ∈ S1.errs, e.kind ≠ .prematureEOF)
    (hat : '@' ∉ S1.rest)
    (hmac : S1.macros = CIDict.ofPairs macros0) (hun : S1.unnamed = 1)
    (hw : S1.db.wanted = (initSt bad strict wanted macros0 roles).db.wanted) :
    let A := parseBib (bad ++ post) strict wanted macros0 roles
    let B := parseBib post strict wanted macros0 roles
    let δ := countNl (bad ++ post) - countNl post
    (∀ key, S1.db.entries.any (fun e => keyFold e.key = keyFold key) = true →
        errRep key ∉ A.1.errs.drop S1.errs.length ∧ A.2 ≠ some (errRep key)) →
    A.1.db.entries = S1.db.entries ++ B.1.db.entries ∧
    A.1.db.preamble = S1.db.preamble ++ B.1.db.preamble ∧
    A.1.errs = S1.errs ++ B.1.errs.map (shiftErr δ) ∧
    A.2 = B.2.map (shiftErr δ) := by
  intro A B δ hK
  have he : (initSt [] strict wanted macros0 roles).db.entries = [] := by cases wanted <;> rfl
  have hp : (initSt [] strict wanted macros0 roles).db.preamble = [] := by cases wanted <;> rfl
  have h := C10_confined_after_partial (initSt [] strict wanted macros0 roles) S1 bad post
    (initSt_inv (bad ++ post) strict wanted macros0 roles) hround
    (fun e he => hE e he) hat hmac hun hw
  simp only [he, hp, List.length_nil, List.drop_zero] at h
  exact h hK

/-! ### Witnesses: the hypotheses are met on concrete texts, and cannot be dropped -/

theorem Step.eq_inr {r : Step} (h : r.isRight = true) : r = .inr (Step.st r) := by
  cases r with
  | inl x => cases h
  | inr s => rfl

theorem CIDict.ext' {a b : CIDict Str} (h1 : a.dict = b.dict) (h2 : a.keys = b.keys) : a = b := by
  cases a; cases b; simp_all

/-- the hypotheses of `C10_round_local` hold for the malformed `@misc{k, t = x y}` (an undefined
macro and a missing `}` are reported, `y}` + line break stay unread), so the round is the same in
front of any continuation — here `exPost`, and the outcome is as computed -/
theorem C10_round_local_nonvacuous :
    (1 ≤ ({ exS0 with rest := exBad } : St).ln ∧ '@' ∈ ({ exS0 with rest := exBad } : St).rest ∧
     (∀ e ∈ (Step.st (loopStep { exS0 with rest := exBad })).errs.drop
        ({ exS0 with rest := exBad } : St).errs.length, e.kind ≠ .prematureEOF) ∧
     (∀ e, Step.err (loopStep { exS0 with rest := exBad }) = some e →
        e.kind ≠ .prematureEOF ∧ (Step.st (loopStep { exS0 with rest := exBad })).rest ≠ [])) ∧
    exS1.errs = [⟨.undefinedMacro "x".toList, some 1⟩, ⟨.tokenRequired "'}'", some 1⟩] ∧
    exS1.rest = "y}\n".toList ∧
    (Step.st (loopStep { exS0 with rest := exBad ++ exPost })).rest = "y}\n".toList ++ exPost ∧
    (Step.st (loopStep { exS0 with rest := exBad ++ exPost })).errs = exS1.errs := by
  have h : Step.err (loopStep { exS0 with rest := exBad }) = none := by decide +kernel
  refine ⟨⟨by decide +kernel, by decide +kernel, by decide +kernel, fun e he => ?_⟩,
    by decide +kernel, by decide +kernel, by decide +kernel, by decide +kernel⟩
  rw [h] at he; cases he

/-- **"Stopped before the end of the text" is not enough for locality.**  The round on
`@a{k, t = {x y` alone leaves `x y` unread (non-empty) — but it got there by running into the end
of the text inside the braced string: `PrematureEOF` is reported *at the position where the string
began*.  In front of `}}` the same round reads a complete entry and reports nothing.  (Same in
pybtex: `parse_string` raises `PrematureEOF` without consuming what it scanned.) -/
theorem C10_round_local_neg :
    (Step.st (loopStep { exS0 with rest := "@a{k, t = {x y".toList })).rest = "x y".toList ∧
    (Step.st (loopStep { exS0 with rest := "@a{k, t = {x y".toList })).errs
      = [⟨.prematureEOF, some 1⟩] ∧
    (Step.st (loopStep { exS0 with rest := "@a{k, t = {x y".toList ++ "}}".toList })).rest = [] ∧
    (Step.st (loopStep { exS0 with rest := "@a{k, t = {x y".toList ++ "}}".toList })).errs = [] ∧
    (Step.st (loopStep { exS0 with rest := "@a{k, t = {x y".toList })).db.entries.map
      (fun e => (e.key, e.fields)) = [("p".toList, [("t".toList, "1".toList)]), ("k".toList, [])] ∧
    (Step.st (loopStep { exS0 with rest := "@a{k, t = {x y".toList ++ "}}".toList })).db.entries.map
      (fun e => (e.key, e.fields))
      = [("p".toList, [("t".toList, "1".toList)]), ("k".toList, [("t".toList, "x y".toList)])] := by
  decide +kernel

/-- `C10_resync` on what `exBad` left unread: `y}` + line break has no `@`; in front of `exPost`
the next round starts one line further down, in front of nothing the loop stops -/
theorem C10_resync_nonvacuous :
    '@' ∉ exS1.rest ∧ '@' ∈ exPost ∧ '@' ∉ ([] : Str) ∧
    countNl (exS1.rest ++ exPost) - countNl exPost = 1 ∧
    (Step.st (loopStep { exS1 with rest := exS1.rest ++ exPost })).db.entries.map (·.key)
      = ["p".toList, "k".toList, "z".toList] := by
  decide +kernel

/-- `C10_round_independent`: the round on `exPost` from `exS0`, and from `exS0` in another
context (one line further down, a problem and a preamble item in front, the entry `k` inserted
behind the first entry): the hypotheses hold, the round appends the same entry `z` -/
theorem C10_round_independent_nonvacuous :
    Inv 2 { exS0 with rest := exPost } ∧ 1 ≤ ({ exS0 with rest := exPost } : St).db.entries.length ∧
    (∀ key, [exK].any (fun e => keyFold e.key = keyFold key) = true →
      errRep key ∉ (Step.st (loopStep (reframe 1 [⟨.prematureEOF, some 1⟩] 1
          [exK]
          ["x".toList] { exS0 with rest := exPost }))).errs.drop
          ([(⟨.prematureEOF, some 1⟩ : Err)].length + ({ exS0 with rest := exPost } : St).errs.length) ∧
      Step.err (loopStep (reframe 1 [⟨.prematureEOF, some 1⟩] 1
          [exK]
          ["x".toList] { exS0 with rest := exPost })) ≠ some (errRep key)) ∧
    (Step.st (loopStep (reframe 1 [⟨.prematureEOF, some 1⟩] 1
        [exK]
        ["x".toList] { exS0 with rest := exPost }))).db.entries.map (·.key)
      = ["p".toList, "k".toList, "z".toList] ∧
    (Step.st (loopStep { exS0 with rest := exPost })).db.entries.map (·.key)
      = ["p".toList, "z".toList] := by
  have h1 : (Step.st (loopStep (reframe 1 [⟨.prematureEOF, some 1⟩] 1
        [exK]
        ["x".toList] { exS0 with rest := exPost }))).errs.drop
        ([(⟨.prematureEOF, some 1⟩ : Err)].length + ({ exS0 with rest := exPost } : St).errs.length) = [] := by
    decide +kernel
  have h2 : Step.err (loopStep (reframe 1 [⟨.prematureEOF, some 1⟩] 1
        [exK]
        ["x".toList] { exS0 with rest := exPost })) = none := by decide +kernel
  have h3 : ({ exS0 with rest := exPost } : St).errs = [] := by decide +kernel
  refine ⟨⟨by decide +kernel, by decide +kernel, fun e he => ?_⟩, by decide +kernel,
    fun key _ => ⟨?_, ?_⟩, by decide +kernel, by decide +kernel⟩
  · rw [h3] at he; cases he
  · rw [h1]; exact List.not_mem_nil
  · rw [h2]; exact fun h => by cases h

/-- the hypotheses of `C10_confined_after` and `C10_confined_after_partial` hold for
`S = exS0`, `bad = @misc{k, t = x y}`, `post = @misc{z, v = 2}` (each followed by a line break):
the round on `bad` alone goes on, reports two problems (none `PrematureEOF`), leaves `y}` unread,
leaves the partial entry `k` behind and macro table, counter and wanted-set alone; the run on
`bad ++ post` reports nothing further.  And the conclusion, evaluated: `p, k, z` against `p, z`. -/
theorem C10_confined_after_nonvacuous :
    Inv 3 { exS0 with rest := exBad ++ exPost } ∧
    loopStep { exS0 with rest := exBad } = .inr exS1 ∧
    (∀ e ∈ exS1.errs.drop exS0.errs.length, e.kind ≠ .prematureEOF) ∧
    '@' ∉ exS1.rest ∧
    exS1.macros = exS0.macros ∧ exS1.unnamed = exS0.unnamed ∧ exS1.db.wanted = exS0.db.wanted ∧
    (∀ key, (exS1.db.entries.drop exS0.db.entries.length).any (fun e => keyFold e.key = keyFold key) = true →
      errRep key ∉ (parseLoop ((exBad ++ exPost).length + 1) { exS0 with rest := exBad ++ exPost }).1.errs.drop
        exS1.errs.length ∧
      (parseLoop ((exBad ++ exPost).length + 1) { exS0 with rest := exBad ++ exPost }).2 ≠ some (errRep key)) ∧
    exS1.errs.drop exS0.errs.length
      = [⟨.undefinedMacro "x".toList, some 1⟩, ⟨.tokenRequired "'}'", some 1⟩] ∧
    (exS1.db.entries.drop exS0.db.entries.length).map (fun e => (e.key, e.fields))
      = [("k".toList, [("t".toList, [])])] ∧
    (parseLoop ((exBad ++ exPost).length + 1) { exS0 with rest := exBad ++ exPost }).1.db.entries.map
      (fun e => (e.key, e.fields)) = [("p".toList, [("t".toList, "1".toList)]), ("k".toList, [("t".toList, [])]),
        ("z".toList, [("v".toList, "2".toList)])] ∧
    (parseLoop (exPost.length + 1) { exS0 with rest := exPost }).1.db.entries.map
      (fun e => (e.key, e.fields)) = [("p".toList, [("t".toList, "1".toList)]),
        ("z".toList, [("v".toList, "2".toList)])] := by
  have h0 : ({ exS0 with rest := exBad ++ exPost } : St).errs = [] := by decide +kernel
  have h1 : (parseLoop ((exBad ++ exPost).length + 1) { exS0 with rest := exBad ++ exPost }).1.errs.drop
      exS1.errs.length = [] := by decide +kernel
  have h2 : (parseLoop ((exBad ++ exPost).length + 1) { exS0 with rest := exBad ++ exPost }).2 = none := by
    decide +kernel
  have hw1 : exS1.db.wanted = none := by decide +kernel
  have hw0 : exS0.db.wanted = none := by decide +kernel
  refine ⟨⟨by decide +kernel, by decide +kernel, fun e he => ?_⟩,
    Step.eq_inr (by decide +kernel), by decide +kernel, by decide +kernel,
    CIDict.ext' (by decide +kernel) (by decide +kernel), by decide +kernel, by rw [hw1, hw0],
    fun key _ => ⟨?_, ?_⟩, by decide +kernel, by decide +kernel, by decide +kernel, by decide +kernel⟩
  · rw [h0] at he; cases he
  · rw [h1]; exact List.not_mem_nil
  · rw [h2]; exact fun h => by cases h

/-- **The unnamed-entry counter is handed on** (`hun` of `C10_confined_after_partial` cannot be
dropped).  `@misc{ }` is self-contained in the sense of `C10_confined_after` (one `TokenRequired`,
only `}` and the line break left unread, macro table untouched), but it leaves the entry
`unnamed-1` behind and advances the counter: the keyless (itself malformed) entry after it is read
as `unnamed-2`, alone it is `unnamed-1`.  pybtex does the same (`unnamed_entry_counter`). -/
theorem C10_confined_after_unnamed_neg :
    (parseBib "@misc{ }\n@misc{,t=1}\n".toList false none).1.db.entries.map (·.key)
      = ["unnamed-1".toList, "unnamed-2".toList] ∧
    (parseBib "@misc{ }\n@misc{,t=1}\n".toList false none).1.errs
      = [⟨.tokenRequired "entry key", some 1⟩, ⟨.tokenRequired "entry key", some 2⟩] ∧
    (parseBib "\n@misc{,t=1}\n".toList false none).1.db.entries.map (·.key) = ["unnamed-1".toList] ∧
    (Step.st (loopStep { rest := "@misc{ }\n".toList, macros := initMacros })).rest = "}\n".toList ∧
    (Step.st (loopStep { rest := "@misc{ }\n".toList, macros := initMacros })).unnamed = 2 := by
  decide +kernel

/-- **The wanted-set is handed on** (`hw` cannot be dropped when reading with `wanted_entries`).
With only `k` wanted, the malformed but self-contained `@misc{k, crossref = {z}, t = x y}` leaves a
partial entry `k` whose `crossref` makes `z` wanted: the later `@misc{z, v = 2}` is read; without
the malformed entry it is skipped.  pybtex does the same (`add_entry` extends `wanted_entries`). -/
theorem C10_confined_after_wanted_neg :
    (parseBib "@misc{k, crossref = {z}, t = x y}\n@misc{z, v = 2}\n".toList false
        (some ["k".toList])).1.db.entries.map (·.key) = ["k".toList, "z".toList] ∧
    (parseBib "\n@misc{z, v = 2}\n".toList false (some ["k".toList])).1.db.entries.map (·.key) = [] := by
  decide +kernel

/-- the three extra hypotheses of `C10_confined_after_partial` (and, `exS0` being the reader's
state after a first entry, the remaining ones: `C10_confined_after_nonvacuous`) hold for the
example -/
theorem C10_confined_after_partial_nonvacuous :
    exS1.macros = exS0.macros ∧ exS1.unnamed = exS0.unnamed ∧ exS1.db.wanted = exS0.db.wanted :=
  ⟨C10_confined_after_nonvacuous.2.2.2.2.1, C10_confined_after_nonvacuous.2.2.2.2.2.1,
   C10_confined_after_nonvacuous.2.2.2.2.2.2.1⟩

/-- the hypotheses of `C10_confined_after_head` hold for `bad = @misc{k, t = x y}`,
`post = @misc{z, v = 2}` (each with a line break) in the default setting; the conclusion, evaluated:
`k, z` with the two problems of `bad`, against `z` without problems -/
theorem C10_confined_after_head_nonvacuous :
    loopStep (initSt exBad false none Gen.monthMacros Gen.personRoles) =
      .inr (Step.st (loopStep (initSt exBad false none Gen.monthMacros Gen.personRoles))) ∧
    (∀ e ∈ (Step.st (loopStep (initSt exBad false none Gen.monthMacros Gen.personRoles))).errs,
      e.kind ≠ .prematureEOF) ∧
    '@' ∉ (Step.st (loopStep (initSt exBad false none Gen.monthMacros Gen.personRoles))).rest ∧
    (Step.st (loopStep (initSt exBad false none Gen.monthMacros Gen.personRoles))).macros
      = CIDict.ofPairs Gen.monthMacros ∧
    (Step.st (loopStep (initSt exBad false none Gen.monthMacros Gen.personRoles))).unnamed = 1 ∧
    (parseBib (exBad ++ exPost) false none).1.errs
      = [⟨.undefinedMacro "x".toList, some 1⟩, ⟨.tokenRequired "'}'", some 1⟩] ∧
    (parseBib (exBad ++ exPost) false none).1.db.entries.map (·.key) = ["k".toList, "z".toList] ∧
    (parseBib exPost false none).1.db.entries.map (·.key) = ["z".toList] :=
  ⟨Step.eq_inr (by decide +kernel), by decide +kernel, by decide +kernel,
   CIDict.ext' (by decide +kernel) (by decide +kernel), by decide +kernel, by decide +kernel,
   by decide +kernel, by decide +kernel⟩

/-- **Strict mode, the complement of `C10_confined_after_head`.**  The hypothesis `hround` of the
confinement-after theorems ("the loop goes on after the round on `bad`") fails in strict mode as soon
as `bad` reports anything: the round raises.  What happens then is this, for every wanted-set, macro
table and person-field list and EVERY continuation `post`: if the first round on `bad` ALONE stops
the reader with the error `e` (state `s`) — it is not `PrematureEOF`, no `PrematureEOF` was reported
and the error is raised in front of an unread character (the hypotheses of `C10_round_local`) — then
reading `bad ++ post` stops in the same way: the same error `e` (same line) leaves the reader, with
the same database and the same problems, and ALL of `post` is still unread behind what `bad` left
unread.  Nothing of `post` is looked at, and nothing of `post` can alter what `bad` yields. -/
theorem C10_confined_after_head_strict (bad post : Str) (strict : Bool) (wanted : Option (List Str))
    (macros0 : List (Str × Str)) (roles : List Str) (s : St) (e : Err)
    (hat : '@' ∈ bad)
    (hstop : loopStep (initSt bad strict wanted macros0 roles) = .inl (s, some e))
    (hE : ∀ e' ∈ s.errs, e'.kind ≠ .prematureEOF)
    (he : e.kind ≠ .prematureEOF) (hrest : s.rest ≠ []) :
    let A := parseBib (bad ++ post) strict wanted macros0 roles
    A.2 = some e ∧ A.1.db = s.db ∧ A.1.errs = s.errs ∧ A.1.rest = s.rest ++ post ∧
    A.1.macros = s.macros ∧ A.1.unnamed = s.unnamed := by
  intro A
  have hloc := C10_round_local (initSt bad strict wanted macros0 roles) post (Nat.le_refl 1) hat
    (by rw [hstop]; intro e' he'; exact hE e' (List.mem_of_mem_drop he'))
    (by rw [hstop]; intro e' he'; cases he'; exact ⟨he, hrest⟩)
  have hinit : ({ initSt bad strict wanted macros0 roles with
      rest := (initSt bad strict wanted macros0 roles).rest ++ post } : St)
      = initSt (bad ++ post) strict wanted macros0 roles := rfl
  rw [hinit, hstop] at hloc
  have hA : A = parseLoop ((bad ++ post).length + 1) (initSt (bad ++ post) strict wanted macros0 roles) := rfl
  rw [hA, parseLoop_succ, hloc]
  simp only [Step.appRest]
  trivial

/-- strict mode on `bad = @misc{k, t = x y}`: the round raises the undefined macro `x` (line 1) in
front of the unread ` y}` + line break; with `post = @misc{z, v = 2}` behind it the reader stops in
exactly the same way and `post` is unread -/
theorem C10_confined_after_head_strict_nonvacuous :
    '@' ∈ exBad ∧
    Step.err (loopStep (initSt exBad true none Gen.monthMacros Gen.personRoles))
      = some ⟨.undefinedMacro "x".toList, some 1⟩ ∧
    (loopStep (initSt exBad true none Gen.monthMacros Gen.personRoles)).isLeft = true ∧
    (∀ e' ∈ (Step.st (loopStep (initSt exBad true none Gen.monthMacros Gen.personRoles))).errs,
      e'.kind ≠ .prematureEOF) ∧
    (Step.st (loopStep (initSt exBad true none Gen.monthMacros Gen.personRoles))).rest = " y}\n".toList ∧
    (parseBib (exBad ++ exPost) true none).2 = some ⟨.undefinedMacro "x".toList, some 1⟩ ∧
    (parseBib (exBad ++ exPost) true none).1.rest = " y}\n".toList ++ exPost ∧
    (parseBib (exBad ++ exPost) true none).1.db.entries.map (·.key) = [] := by
  decide +kernel

/-! ### The exact position of the syntax errors

The reader state carries a ghost list `errAt`, filled by `handle_error` and read by nothing: for
every problem of `errs`, in the same order, the unread text at the moment the problem was handed to
`handle_error`.  For a `PybtexSyntaxError` this is the `pos` of its `error_context_info`
(`pos = len(text) - len(unread)`). -/

/-- **Located exactly.**  `C10_located` bounds the line of a syntax error; this says which line it
is.  `synKind k = true` ⇔ `k` is one of the `PybtexSyntaxError`s `TokenRequired`, `PrematureEOF`,
"too many nested braces", "unbalanced braces", `UndefinedMacro`.  For every text, mode, wanted-set,
macro table and person-field list, with `r` = the run of the reader:
* (a) the ghost `errAt` has one entry per reported problem (so `List.zip r.1.errs r.1.errAt` pairs
  the `i`-th problem with the unread text `b` at the moment it was reported);
* (b) for every reported syntax error `e` with its unread text `b`: `b` is a suffix of the text
  (the error sits at the position `len(text) - len(b)`), and `e.line` is exactly
  `1 + (line breaks of the text) - (line breaks of b)` = the line of that position;
* (c) if `e` is `TokenRequired`, `b` is not empty and its first character is not white space: the
  error is located AT the offending character (not at the white space in front of it).
  (`PrematureEOF` raised by `get_token` has `b = ""`, but `parse_string` raises `PrematureEOF`
  with the unread text at the START of the chunk it scanned — see `_nonvacuous` — so for
  `PrematureEOF` only (b) holds in general.)
* (d) the same for a syntax error that LEAVES the reader (strict mode), with `b` = the unread text
  of the final state: the state does not change between the creation of the error and the point
  where it is raised out of `parse_string`;
* finally, in terms of the CONSUMED prefix `a` (`text = a ++ b`): the line is `1 +` the line
  breaks of `a`, unless the position separates a `\r` from its `\n` (`update_lineno` counts
  `\r\n` once).
The data errors of the reader (duplicate field, repeated entry, invalid name) carry no line at all:
`C10_located_data_neg`. -/
theorem C10_located_exact (text : Str) (strict : Bool) (wanted : Option (List Str))
    (macros0 : List (Str × Str)) (roles : List Str) :
    let r := parseBib text strict wanted macros0 roles
    r.1.errAt.length = r.1.errs.length ∧
    (∀ p ∈ List.zip r.1.errs r.1.errAt, synKind p.1.kind = true →
      p.2 <:+ text ∧ p.1.line = some (1 + countNl text - countNl p.2) ∧
      (∀ d, p.1.kind = .tokenRequired d → p.2 ≠ [] ∧ ∀ c ∈ p.2.head?, isWs c = false)) ∧
    (∀ e, r.2 = some e → synKind e.kind = true →
      r.1.rest <:+ text ∧ e.line = some (1 + countNl text - countNl r.1.rest) ∧
      (∀ d, e.kind = .tokenRequired d → r.1.rest ≠ [] ∧ ∀ c ∈ r.1.rest.head?, isWs c = false)) ∧
    (∀ a b, text = a ++ b → ¬ (a.getLast? = some '\r' ∧ b.head? = some '\n') →
      1 + countNl text - countNl b = 1 + countNl a) := by
  intro r
  obtain ⟨hL, hE⟩ := parseBib_loc text strict wanted macros0 roles
  refine ⟨hL.2.2.1, fun p hp hs => (hL.2.2.2 p hp).line_eq hs, fun e he hs => (hE e he).line_eq hs,
    fun a b hab h => ?_⟩
  subst hab
  exact countNl_consumed a b h

/-- the cases of `C10_located_exact` occur.  (1) `@b{j, u = }` on line 2: `TokenRequired` at the
`}` — the unread text is `}` + line break, one of the two line breaks is still unread, line
`1 + 2 - 1`.  (2) a text with `\r\n`, continue mode: the undefined macro `x` is reported behind its
name, the missing `}` at the `y` (not at the blank in front of it), both on line 1; the entry cut
off by the end of the text gives `PrematureEOF` on line 2 with nothing unread.  (3) strict mode: the
first of these errors leaves the reader, whose unread text is that of the report in continue mode.
(4) `PrematureEOF` out of `parse_string`: reported with the whole string body `x y` unread. -/
theorem C10_located_exact_nonvacuous :
    ((parseBib "@a{k, t = 1}\n@b{j, u = }\n".toList false none).1.errs
        = [⟨.tokenRequired "field value", some 2⟩] ∧
     (parseBib "@a{k, t = 1}\n@b{j, u = }\n".toList false none).1.errAt = ["}\n".toList] ∧
     1 + countNl "@a{k, t = 1}\n@b{j, u = }\n".toList - countNl "}\n".toList = 2) ∧
    ((parseBib "@a{k, t = x y}\r\n@b{j".toList false none).1.errs
        = [⟨.undefinedMacro "x".toList, some 1⟩, ⟨.tokenRequired "'}'", some 1⟩,
           ⟨.prematureEOF, some 2⟩] ∧
     (parseBib "@a{k, t = x y}\r\n@b{j".toList false none).1.errAt
        = [" y}\r\n@b{j".toList, "y}\r\n@b{j".toList, []] ∧
     1 + countNl "@a{k, t = x y}\r\n@b{j".toList - countNl "y}\r\n@b{j".toList = 1 ∧
     1 + countNl "@a{k, t = x y}\r\n@b{j".toList - countNl ([] : Str) = 2) ∧
    ((parseBib "@a{k, t = x y}\r\n@b{j".toList true none).2 = some ⟨.undefinedMacro "x".toList, some 1⟩ ∧
     (parseBib "@a{k, t = x y}\r\n@b{j".toList true none).1.rest = " y}\r\n@b{j".toList ∧
     (parseBib "@a{k, t = 1}\n@b{j, u = }\n".toList true none).2
        = some ⟨.tokenRequired "field value", some 2⟩ ∧
     (parseBib "@a{k, t = 1}\n@b{j, u = }\n".toList true none).1.rest = "}\n".toList) ∧
    ((parseBib "@a{k, t = {x y".toList false none).1.errs = [⟨.prematureEOF, some 1⟩] ∧
     (parseBib "@a{k, t = {x y".toList false none).1.errAt = ["x y".toList]) := by
  decide +kernel

/-- **The data errors of the reader carry NO line.**  A duplicate field, a repeated entry key and
a name with too many commas are reported through the same `handle_error`, but as plain
`BibliographyDataError` / `InvalidNameString` without position: `line = none` (the ghost `errAt`
shows where the reader stood — behind the whole command — but pybtex does not report it). -/
theorem C10_located_data_neg :
    (parseBib "@a{k, t = 1, t = 2}\n@b{K}\n@c{j, author = {a, b, c, d}}".toList false none).1.errs
      = [⟨.duplicateField "k".toList "t".toList, none⟩, ⟨.repeatedEntry "K".toList, none⟩,
         ⟨.invalidName "a, b, c, d".toList, none⟩] ∧
    (parseBib "@a{k, t = 1, t = 2}\n@b{K}\n@c{j, author = {a, b, c, d}}".toList false none).1.errAt
      = ["\n@b{K}\n@c{j, author = {a, b, c, d}}".toList, "\n@c{j, author = {a, b, c, d}}".toList, []] ∧
    (parseBib "@a{k, t = 1, t = 2}\n@b{K}\n@c{j, author = {a, b, c, d}}".toList false none).2 = none := by
  decide +kernel

/-- **Confinement fails whenever the `@` of the NEXT command is read as an identifier** (known
finding `C10-next-at-read-as-identifier`; `C10_confined_lone_at_neg` is the special case of a lone
`@`).  `@` is one of `NAME_CHARS`.  (1) The command `@misc` without a body, directly followed by the
next command: the command name is read as `misc@misc`, so the next entry `z` gets that type and the
missing body is not even reported.  (2) `@a(k)`: the key pattern of a parenthesised entry takes
`k)`; the reader then looks for a field name, skips the blank and reads `@b` of the next command as
that name: `'=' expected`, the entry `z` is lost.  Both malformed commands have balanced braces,
quotes and parentheses and no `@` of their own.  With a line break behind `@misc` the next command
is read (3). -/
theorem C10_confined_next_at_neg :
    ((parseBib "@misc{p, t = 1}\n@misc@misc{z, v = 2}\n".toList false none).1.db.entries.map
        (fun e => (e.key, e.origType)) = [("p".toList, "misc".toList), ("z".toList, "misc@misc".toList)] ∧
     (parseBib "@misc{p, t = 1}\n@misc@misc{z, v = 2}\n".toList false none).1.errs = []) ∧
    ((parseBib "@a(k) @b{z, v = 2}".toList false none).1.db.entries.map (·.key) = ["k)".toList] ∧
     (parseBib "@a(k) @b{z, v = 2}".toList false none).1.errs = [⟨.tokenRequired "'='", some 1⟩] ∧
     (parseBib " @b{z, v = 2}".toList false none).1.db.entries.map (·.key) = ["z".toList]) ∧
    ((parseBib "@misc{p, t = 1}\n@misc\n@misc{z, v = 2}\n".toList false none).1.db.entries.map
        (fun e => (e.key, e.origType)) = [("p".toList, "misc".toList), ("z".toList, "misc".toList)] ∧
     (parseBib "@misc{p, t = 1}\n@misc\n@misc{z, v = 2}\n".toList false none).1.errs
        = [⟨.tokenRequired "'(' or '{'", some 3⟩]) := by
  decide +kernel

/-! ### Confinement BEFORE, textually

`C10_prefix_stable` speaks of the rounds of one run.  The statement below is about a decomposition
of the input TEXT: a complete, well-formed part `render d L` (`Spec/Bib.lean`: an abstract document
`d` — entries, `@string`, `@preamble`, `@comment`, junk — written under any layout `L`; `WFD` is the
well-formedness predicate of C01 without the "no repeated key / field name" conditions) followed by
ANY text `x` — complete commands, garbage, a malformed or unfinished entry. -/

section Before
open Pybtex.BibSpec

/-- **Nothing that follows alters what was read before** (textual form).  For every document `d`,
layout `L` with `WFD d L` and EVERY text `x`: in continue mode the entries and the preamble items
the document denotes (`denoteD (written d L)`: C01) and the problems it gives (`reports`: repeated
field names and keys) are initial segments of the entries, the preamble and the problems read from
`render d L ++ x`; in strict mode, for a document that gives nothing to report, the entries and the
preamble of the document are an initial segment of the database of the state the reader stops in —
also when it raises on `x`. -/
theorem C10_confined_before_text (d : ADoc) (L : Layout) (h : WFD d L) (x : Str) :
    ((denoteD (written d L)).entries <+: (parseBib (render d L ++ x) false none).1.db.entries ∧
     (denoteD (written d L)).preamble <+: (parseBib (render d L ++ x) false none).1.db.preamble ∧
     reports (written d L) <+: (parseBib (render d L ++ x) false none).1.errs) ∧
    (reports (written d L) = [] →
     (denoteD (written d L)).entries <+: (parseBib (render d L ++ x) true none).1.db.entries ∧
     (denoteD (written d L)).preamble <+: (parseBib (render d L ++ x) true none).1.db.preamble) :=
  ⟨BibRT.parseBib_before d L h x, fun hr => BibRT.parseBib_before_strict d L h hr x⟩

/-- instance: `@preamble{{p}}@a{k,t={1},T={2}}` (a repeated field name: `WFD`, not `WF`) followed by
the malformed continuation `@b{j, u = }` + line break + `@c{`: the entry `k`, the preamble and the
duplicate-field report come first; the continuation adds two partial entries and two syntax errors -/
theorem C10_confined_before_text_nonvacuous :
    let x : Str := "@b{j, u = }\n@c{".toList
    WFD BibRT.beforeDoc BibRT.beforeLayout ∧ ¬ WF BibRT.beforeDoc BibRT.beforeLayout ∧
    render BibRT.beforeDoc BibRT.beforeLayout ++ x = "@preamble{{p}}@a{k,t={1},T={2}}\n@b{j, u = }\n@c{".toList ∧
    (denoteD (written BibRT.beforeDoc BibRT.beforeLayout)).entries.map (fun e => (e.key, e.fields)) =
      [("k".toList, [("t".toList, "1".toList)])] ∧
    (denoteD (written BibRT.beforeDoc BibRT.beforeLayout)).preamble = ["p".toList] ∧
    reports (written BibRT.beforeDoc BibRT.beforeLayout) = [⟨.duplicateField "k".toList "T".toList, none⟩] ∧
    (parseBib (render BibRT.beforeDoc BibRT.beforeLayout ++ x) false none).1.db.entries.map (fun e => (e.key, e.fields)) =
      [("k".toList, [("t".toList, "1".toList)]), ("j".toList, []), ("unnamed-1".toList, [])] ∧
    (parseBib (render BibRT.beforeDoc BibRT.beforeLayout ++ x) false none).1.db.preamble = ["p".toList] ∧
    (parseBib (render BibRT.beforeDoc BibRT.beforeLayout ++ x) false none).1.errs =
      [⟨.duplicateField "k".toList "T".toList, none⟩, ⟨.tokenRequired "field value", some 2⟩,
       ⟨.prematureEOF, some 3⟩] :=
  BibRT.parseBib_before_example

end Before

/-! ### Confinement BEFORE, textually, for every setting (`Lemmas/BibBeforeAny.lean`)

`C10_confined_before_text` is stated for plain `parse_string` (no wanted-set, month macros, default
person fields), because it rests on the C01 round trip.  The statement below needs no document
structure at all and holds in every setting. -/

/-- **Nothing that follows alters what was read before** (textual form, EVERY mode, wanted-set,
initial macro table and person-field list).  Let `a` be ANY text whose reading on its own raises
nothing and reports no `PrematureEOF` (its last command is not cut off by the end of the text; in
continue mode nothing is ever raised but the nesting error of `Person()`; in strict mode "raises
nothing" means `a` gives nothing to report).  Then for EVERY continuation `x` — complete commands,
garbage, a malformed or unfinished entry — the entries, the preamble items and the problems read
from `a` are initial segments of the entries, preamble items and problems read from `a ++ x`: the
same entries with the same fields in the same order, whatever follows.
By induction over the rounds of the command loop: a round that does not run into the end of the
text is the same in front of any continuation (`C10_round_local`), and the loop only ever appends.
The hypothesis on `PrematureEOF` cannot be dropped: `C10_confined_before_any_neg`. -/
theorem C10_confined_before_any (a x : Str) (strict : Bool) (wanted : Option (List Str))
    (macros0 : List (Str × Str)) (roles : List Str)
    (hnone : (parseBib a strict wanted macros0 roles).2 = none)
    (hE : ∀ e ∈ (parseBib a strict wanted macros0 roles).1.errs, e.kind ≠ .prematureEOF) :
    (parseBib a strict wanted macros0 roles).1.db.entries
        <+: (parseBib (a ++ x) strict wanted macros0 roles).1.db.entries ∧
    (parseBib a strict wanted macros0 roles).1.db.preamble
        <+: (parseBib (a ++ x) strict wanted macros0 roles).1.db.preamble ∧
    (parseBib a strict wanted macros0 roles).1.errs
        <+: (parseBib (a ++ x) strict wanted macros0 roles).1.errs :=
  parseBib_before_any a x strict wanted macros0 roles hnone hE

/-- a setting that is NOT the default one: wanted-set `{k, q}`, the single macro `foo`, no person
fields.  `a` = a `@string`, the wanted entry `k` (macro values concatenated; a field without value
is reported: not `PrematureEOF`), an unwanted entry, a `@preamble`; `x` = an entry repeating the key
`K` and an entry cut off by the end of the text.  The hypotheses hold and the conclusion, evaluated:
`k` with `t = FOOFOO`, the preamble `FOO` and the report of line 2 come first. -/
theorem C10_confined_before_any_nonvacuous :
    let a : Str := "@string{s = foo}\n@misc{k, t = s # foo, u = }\n@misc{j, t = 1}\n@preamble{foo}\n".toList
    let x : Str := "@misc{K, v = 2}\n@misc{q, v = {unclosed".toList
    let w : Option (List Str) := some ["k".toList, "q".toList]
    let m0 : List (Str × Str) := [("foo".toList, "FOO".toList)]
    (parseBib a false w m0 []).2 = none ∧
    (parseBib a false w m0 []).1.errs = [⟨.tokenRequired "field value", some 2⟩] ∧
    (parseBib a false w m0 []).1.db.entries.map (fun e => (e.key, e.fields))
      = [("k".toList, [("t".toList, "FOOFOO".toList)])] ∧
    (parseBib a false w m0 []).1.db.preamble = ["FOO".toList] ∧
    (parseBib (a ++ x) false w m0 []).1.db.entries.map (fun e => (e.key, e.fields))
      = [("k".toList, [("t".toList, "FOOFOO".toList)]), ("q".toList, [])] ∧
    (parseBib (a ++ x) false w m0 []).1.db.preamble = ["FOO".toList] ∧
    (parseBib (a ++ x) false w m0 []).1.errs
      = [⟨.tokenRequired "field value", some 2⟩, ⟨.repeatedEntry "K".toList, none⟩, ⟨.prematureEOF, some 6⟩] := by
  decide +kernel

/-- the hypothesis "no `PrematureEOF`" of `C10_confined_before_any` cannot be dropped: an entry cut
off inside a string is left as a partial entry without the field, and the continuation `}}`
completes it — the entry read from `a` alone is not the one read from `a ++ x` -/
theorem C10_confined_before_any_neg :
    (parseBib "@a{k, t = {x y".toList false none).2 = none ∧
    (parseBib "@a{k, t = {x y".toList false none).1.errs = [⟨.prematureEOF, some 1⟩] ∧
    (parseBib "@a{k, t = {x y".toList false none).1.db.entries.map (fun e => (e.key, e.fields))
      = [("k".toList, [])] ∧
    (parseBib ("@a{k, t = {x y".toList ++ "}}".toList) false none).1.db.entries.map (fun e => (e.key, e.fields))
      = [("k".toList, [("t".toList, "x y".toList)])] ∧
    (parseBib ("@a{k, t = {x y".toList ++ "}}".toList) false none).1.errs = [] := by
  decide +kernel

/-! ### Confinement after, with a SYNTACTIC premise (`Lemmas/BibBridge.lean`)

`SelfContained bad` (decidable; Boolean form `selfContainedB` in `Spec/BibConfine.lean`): `bad`
contains exactly one `@`, the first bracket behind it is a `{`, and that brace is closed within
`bad` by brace counting.  It implies the two operational hypotheses `hE` and `hat` of
`C10_confined_after_partial`. -/

/-- a malformed command with nested braces, a quote inside braces, a quoted string with a brace
group that contains a quote, `#`, and a macro name where `,` or `}` is expected; trailing text -/
def exBad2 : Str := "@misc{k, t = {a {b} \"c}, u = \"d{\"}e\" # x y} trailing\n".toList
/-- a malformed command whose quoted string is not closed: it runs into the closing brace -/
def exBad3 : Str := "@misc{k, t = \"abc}\n".toList

/-- **Confinement after a command with a single `@`** (`hat` of `C10_confined_after_partial` from
syntax).  What a round leaves unread is a suffix of the text behind the `@` it started at
(`loopStep_suffix`: every function of the reader leaves a suffix of the unread text unread).  So
if `bad` is `pre ++ '@' :: r` with no `@` in `pre` and none in `r` — exactly one `@` — the round on
`bad` alone leaves no `@` unread, and `C10_confined_after_partial` holds with this premise in
place of `hat`.  `C10_confined_neg` is excluded (`bad` contains a second `@`); the lone `@` and
`@misc` of `C10_confined_lone_at_neg` / `C10_confined_next_at_neg` are not: there it is `hE` that
fails (the round on `@` alone runs into the end of the text), cf. `C10_confined_syntactic`. -/
theorem C10_confined_syntactic_at {N : Nat} (S S1 : St) (bad post pre r : Str)
    (hI : Inv N { S with rest := bad ++ post })
    (hbad : bad = pre ++ '@' :: r) (hpre : '@' ∉ pre) (hr : '@' ∉ r)
    (hround : loopStep { S with rest := bad } = .inr S1)
    (hE : ∀ e ∈ S1.errs.drop S.errs.length, e.kind ≠ .prematureEOF)
    (hmac : S1.macros = S.macros) (hun : S1.unnamed = S.unnamed) (hw : S1.db.wanted = S.db.wanted) :
    let A := parseLoop ((bad ++ post).length + 1) { S with rest := bad ++ post }
    let B := parseLoop (post.length + 1) { S with rest := post }
    let δ := countNl (bad ++ post) - countNl post
    (∀ key, (S1.db.entries.drop S.db.entries.length).any (fun e => keyFold e.key = keyFold key) = true →
        errRep key ∉ A.1.errs.drop S1.errs.length ∧ A.2 ≠ some (errRep key)) →
    A.1.db.entries = S1.db.entries ++ B.1.db.entries.drop S.db.entries.length ∧
    A.1.db.preamble = S1.db.preamble ++ B.1.db.preamble.drop S.db.preamble.length ∧
    A.1.errs = S1.errs ++ (B.1.errs.drop S.errs.length).map (shiftErr δ) ∧
    A.2 = B.2.map (shiftErr δ) := by
  intro A B δ hK
  have hat := hat_of_no_at S S1 bad pre r hbad hpre hr hround
  have := parseLoop_confined S S1 bad post A (parseLoop (post.length + 1) (carry S S1 post))
    hI hround hE hat rfl rfl hK
  simp only [carry_eq S S1 post hmac hun hw] at this
  exact this

/-- the premises of `C10_confined_syntactic_at` hold for `S = exS0` (the reader after
`@misc{p, t = 1}`), `bad = @misc{k, t = x y}`, `post = @misc{z, v = 2}` (each with a line break) -/
theorem C10_confined_syntactic_at_nonvacuous :
    exBad = [] ++ '@' :: "misc{k, t = x y}\n".toList ∧ '@' ∉ ([] : Str) ∧
    '@' ∉ "misc{k, t = x y}\n".toList ∧
    Inv 3 { exS0 with rest := exBad ++ exPost } ∧
    loopStep { exS0 with rest := exBad } = .inr exS1 ∧
    (∀ e ∈ exS1.errs.drop exS0.errs.length, e.kind ≠ .prematureEOF) ∧
    exS1.macros = exS0.macros ∧ exS1.unnamed = exS0.unnamed ∧ exS1.db.wanted = exS0.db.wanted ∧
    (∀ key, (exS1.db.entries.drop exS0.db.entries.length).any (fun e => keyFold e.key = keyFold key) = true →
      errRep key ∉ (parseLoop ((exBad ++ exPost).length + 1) { exS0 with rest := exBad ++ exPost }).1.errs.drop
        exS1.errs.length ∧
      (parseLoop ((exBad ++ exPost).length + 1) { exS0 with rest := exBad ++ exPost }).2 ≠ some (errRep key)) := by
  have h0 : ({ exS0 with rest := exBad ++ exPost } : St).errs = [] := by decide +kernel
  have h1 : (parseLoop ((exBad ++ exPost).length + 1) { exS0 with rest := exBad ++ exPost }).1.errs.drop
      exS1.errs.length = [] := by decide +kernel
  have h2 : (parseLoop ((exBad ++ exPost).length + 1) { exS0 with rest := exBad ++ exPost }).2 = none := by
    decide +kernel
  have hw1 : exS1.db.wanted = none := by decide +kernel
  have hw0 : exS0.db.wanted = none := by decide +kernel
  refine ⟨by decide +kernel, by decide +kernel, by decide +kernel,
    ⟨by decide +kernel, by decide +kernel, fun e he => ?_⟩,
    Step.eq_inr (by decide +kernel), by decide +kernel,
    CIDict.ext' (by decide +kernel) (by decide +kernel), by decide +kernel, by rw [hw1, hw0],
    fun key _ => ⟨?_, ?_⟩⟩
  · rw [h0] at he; cases he
  · rw [h1]; exact List.not_mem_nil
  · rw [h2]; exact fun h => by cases h

/-- **Confinement after a self-contained command, with a syntactic premise** —
`C10_confined_after_partial` with BOTH operational hypotheses `hE` (no `PrematureEOF`) and `hat`
(no `@` left unread) replaced by the decidable predicate `SelfContained bad` on the text of the
malformed command: `bad` contains exactly one `@`; behind it the first bracket is a `{` (not a
`(`); and that brace is closed within `bad` by BRACE COUNTING (`openCloses`, `closes`: `{` one
deeper, `}` one up, a `}` met at depth 0).  Nothing is asked of the quotes, of the command name,
of key and fields, or of what follows the closing brace.  This is what "its own braces are
balanced" has to mean for the reader: `PrematureEOF` is raised only by `get_token` on white
space up to the end of the text and by `parse_string` on a string whose closing delimiter is
missing, and in front of a text that closes the brace of the command neither happens — a quoted
string that is not closed runs into that brace and ends in "unbalanced braces" (`exBad3`).
The negative witnesses are excluded: `C10_confined_neg` (a second `@`), `C10_confined_lone_at_neg`
and `@misc` of `C10_confined_next_at_neg` (no brace), `@a(k)` there (parenthesised: the key
pattern of a parenthesised entry takes the `)`), see `C10_confined_syntactic_nonvacuous`.
Still operational: `hround` (the loop goes on after the round on `bad` alone: always so in
continue mode unless `Person()` raises, `C10_selfContained_round`), and `hmac`, `hun`, `hw`
(`bad` hands nothing on), which cannot be dropped (`C10_confined_after_unnamed_neg`,
`C10_confined_after_wanted_neg`). -/
theorem C10_confined_syntactic {N : Nat} (S S1 : St) (bad post : Str)
    (hI : Inv N { S with rest := bad ++ post })
    (hsc : SelfContained bad)
    (hround : loopStep { S with rest := bad } = .inr S1)
    (hmac : S1.macros = S.macros) (hun : S1.unnamed = S.unnamed) (hw : S1.db.wanted = S.db.wanted) :
    let A := parseLoop ((bad ++ post).length + 1) { S with rest := bad ++ post }
    let B := parseLoop (post.length + 1) { S with rest := post }
    let δ := countNl (bad ++ post) - countNl post
    (∀ key, (S1.db.entries.drop S.db.entries.length).any (fun e => keyFold e.key = keyFold key) = true →
        errRep key ∉ A.1.errs.drop S1.errs.length ∧ A.2 ≠ some (errRep key)) →
    A.1.db.entries = S1.db.entries ++ B.1.db.entries.drop S.db.entries.length ∧
    A.1.db.preamble = S1.db.preamble ++ B.1.db.preamble.drop S.db.preamble.length ∧
    A.1.errs = S1.errs ++ (B.1.errs.drop S.errs.length).map (shiftErr δ) ∧
    A.2 = B.2.map (shiftErr δ) :=
  confined_after_selfContained_partial S S1 bad post hI hsc hround hmac hun hw

/-- **The round on a self-contained command** (from any loop-top state `S`, either mode, any
outcome): the problems it reports are not `PrematureEOF`, and it leaves no `@` unread.  In
continue mode the loop goes on after it (`.inr`), unless `Person()` raised its `BibTeXError` for a
name nested deeper than 100 braces (which is not routed through `handle_error`). -/
theorem C10_selfContained_round (S : St) (bad : Str) (h : SelfContained bad) :
    ((∃ l, (Step.st (loopStep { S with rest := bad })).errs = S.errs ++ l ∧
        ∀ e ∈ l, e.kind ≠ .prematureEOF) ∧
      '@' ∉ (Step.st (loopStep { S with rest := bad })).rest) ∧
    (S.strict = false → ∃ S1, loopStep { S with rest := bad } = .inr S1 ∨
      loopStep { S with rest := bad } = .inl (S1, some ⟨.nameTooDeep, none⟩)) := by
  refine ⟨loopStep_selfContained S bad h, fun hs => ?_⟩
  obtain ⟨pre, r, hb, _, _, _⟩ := h
  exact loopStep_continue { S with rest := bad } hs (by rw [show ({ S with rest := bad } : St).rest = bad from rfl, hb]; simp)

/-- `SelfContained` on the examples, decided by evaluation: it holds for `@misc{k, t = x y}`, for
a command with nested braces, quotes inside braces and braces inside quotes (`exBad2`), for one
whose quoted string is not closed (`exBad3`), and with text in front of the `@`; it fails for the
command of `C10_confined_neg` (an `@` inside), for `@` and `@misc` (no brace), for `@a(k)`
(parenthesised), for a brace that is not closed, and for a quoted string that opens a brace it
does not close.  The hypotheses of `C10_confined_syntactic` hold for `S = exS0`, `bad = exBad`,
`post = exPost`; the conclusion, evaluated: `p, k, z` against `p, z`.  And the rounds on `exBad2`,
`exBad3` alone, evaluated: one `TokenRequired` resp. "unbalanced braces", no `PrematureEOF`. -/
theorem C10_confined_syntactic_nonvacuous :
    (SelfContained exBad ∧ SelfContained exBad2 ∧ SelfContained exBad3 ∧
     SelfContained "junk @ misc {k}".toList ∧
     ¬ SelfContained "@misc{k, t = x y @misc{z, u = 1} }".toList ∧
     ¬ SelfContained "@".toList ∧ ¬ SelfContained "@misc".toList ∧ ¬ SelfContained "@a(k)".toList ∧
     ¬ SelfContained "@misc{k, t = {a}".toList ∧ ¬ SelfContained "@misc{k, t = \"a{b}\n".toList) ∧
    (Inv 3 { exS0 with rest := exBad ++ exPost } ∧
     loopStep { exS0 with rest := exBad } = .inr exS1 ∧
     exS1.macros = exS0.macros ∧ exS1.unnamed = exS0.unnamed ∧ exS1.db.wanted = exS0.db.wanted ∧
     (∀ key, (exS1.db.entries.drop exS0.db.entries.length).any (fun e => keyFold e.key = keyFold key) = true →
       errRep key ∉ (parseLoop ((exBad ++ exPost).length + 1) { exS0 with rest := exBad ++ exPost }).1.errs.drop
         exS1.errs.length ∧
       (parseLoop ((exBad ++ exPost).length + 1) { exS0 with rest := exBad ++ exPost }).2 ≠ some (errRep key))) ∧
    ((parseLoop ((exBad ++ exPost).length + 1) { exS0 with rest := exBad ++ exPost }).1.db.entries.map
       (fun e => (e.key, e.fields)) = [("p".toList, [("t".toList, "1".toList)]), ("k".toList, [("t".toList, [])]),
         ("z".toList, [("v".toList, "2".toList)])] ∧
     (parseLoop (exPost.length + 1) { exS0 with rest := exPost }).1.db.entries.map
       (fun e => (e.key, e.fields)) = [("p".toList, [("t".toList, "1".toList)]),
         ("z".toList, [("v".toList, "2".toList)])]) ∧
    ((Step.st (loopStep { exS0 with rest := exBad2 })).errs
       = [⟨.undefinedMacro "x".toList, some 1⟩, ⟨.tokenRequired "'}'", some 1⟩] ∧
     (Step.st (loopStep { exS0 with rest := exBad2 })).rest = "y} trailing\n".toList ∧
     (Step.st (loopStep { exS0 with rest := exBad3 })).errs = [⟨.unbalancedBraces, some 1⟩] ∧
     (Step.st (loopStep { exS0 with rest := exBad3 })).rest = "\n".toList) := by
  have h := C10_confined_syntactic_at_nonvacuous
  exact ⟨by decide +kernel, ⟨h.2.2.2.1, h.2.2.2.2.1, h.2.2.2.2.2.2.1, h.2.2.2.2.2.2.2.1,
    h.2.2.2.2.2.2.2.2.1, h.2.2.2.2.2.2.2.2.2⟩, by decide +kernel, by decide +kernel⟩

/-- **The FLAT instance**: `C10_confined_syntactic` for a command of the form
`@ name { body } tail` — white space `w1`, `w2` around a NAME without `@`, a body that contains
none of `{ } " @` (no string is ever opened, the final `}` is the only closing brace), white space
behind the closing brace.  Every such command is `SelfContained` (`FlatCmd.selfContained`). -/
theorem C10_confined_syntactic_flat {N : Nat} (S S1 : St) (bad post : Str)
    (hI : Inv N { S with rest := bad ++ post })
    (hflat : FlatCmd bad)
    (hround : loopStep { S with rest := bad } = .inr S1)
    (hmac : S1.macros = S.macros) (hun : S1.unnamed = S.unnamed) (hw : S1.db.wanted = S.db.wanted) :
    let A := parseLoop ((bad ++ post).length + 1) { S with rest := bad ++ post }
    let B := parseLoop (post.length + 1) { S with rest := post }
    let δ := countNl (bad ++ post) - countNl post
    (∀ key, (S1.db.entries.drop S.db.entries.length).any (fun e => keyFold e.key = keyFold key) = true →
        errRep key ∉ A.1.errs.drop S1.errs.length ∧ A.2 ≠ some (errRep key)) →
    A.1.db.entries = S1.db.entries ++ B.1.db.entries.drop S.db.entries.length ∧
    A.1.db.preamble = S1.db.preamble ++ B.1.db.preamble.drop S.db.preamble.length ∧
    A.1.errs = S1.errs ++ (B.1.errs.drop S.errs.length).map (shiftErr δ) ∧
    A.2 = B.2.map (shiftErr δ) :=
  confined_after_flat S S1 bad post hI hflat hround hmac hun hw

/-- `@misc{k, t = x y}` + line break is flat (`w1 = w2 = ""`, name `misc`, body `k, t = x y`, tail =
the line break); the four negative witnesses are not (they are not even `SelfContained`); the
other hypotheses of `C10_confined_syntactic_flat` are those of `C10_confined_syntactic`
(`C10_confined_syntactic_nonvacuous`) -/
theorem C10_confined_syntactic_flat_nonvacuous :
    FlatCmd exBad ∧
    ¬ FlatCmd "@misc{k, t = x y @misc{z, u = 1} }".toList ∧
    ¬ FlatCmd "@".toList ∧ ¬ FlatCmd "@misc".toList ∧ ¬ FlatCmd "@a(k)".toList := by
  have hn := C10_confined_syntactic_nonvacuous.1
  refine ⟨flatCmd_example,
    fun h => hn.2.2.2.2.1 h.selfContained, fun h => hn.2.2.2.2.2.1 h.selfContained,
    fun h => hn.2.2.2.2.2.2.1 h.selfContained, fun h => hn.2.2.2.2.2.2.2.1 h.selfContained⟩

end Pybtex.Props
