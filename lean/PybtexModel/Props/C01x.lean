/-
C01 — round 2 extension.  Property theorems about the parts of the reader that round 1 compared only
end to end or did not model: the token patterns (regular expressions of `LowLevelParser`), braced
and quoted literals on ARBITRARY input (not only on rendered documents), the options of `Parser(...)`
(`keyless_entries`, `person_fields`), the numbering of key-less entries.

Model: `Model/BibParse.lean`, `Model/BibOpts.lean`; reference notions `Spec/BibTokens.lean` (`MaxRun`, `runClass`,
`closerOf`); lemmas `Lemmas/BibOpts.lean`, `Lemmas/BibLiteral.lean`; constants `Gen/BibConsts.lean`.
-/
import PybtexModel.Lemmas.BibOpts
import PybtexModel.Lemmas.BibLiteral
import PybtexModel.Gen.BibConsts

namespace Pybtex.Props
open Pybtex Pybtex.Bib Pybtex.BibSpec

/-! ### braced and quoted literals are the source text, verbatim -/

/-- **C01_literal_verbatim.**  Braced and quoted values on ARBITRARY input: whenever
`parse_value_part` finds (behind white space) an opening `{` resp. `"` and succeeds with the value
`v`, the text behind the opening delimiter is `v`, then the closing `}` resp. `"`, then exactly what is
left unread — nothing is dropped, unescaped or normalised at this stage — and `v` is well nested
(every `}` closes a `{` of `v`, all closed at the end, never deeper than 100). -/
theorem C01_literal_verbatim (s s' : St) (quoted : Bool) (t v : Str)
    (ht : (eatWs s).rest = (if quoted then '"' else '{') :: t)
    (h : parseValuePart s = .ok v s') :
    t = v ++ closerOf quoted :: s'.rest ∧ profOK 0 v = true ∧ endDepth 0 v = 0 := by
  rw [parseValuePart_open s quoted t ht] at h
  split at h
  · cases h
  · rename_i str s1 hs
    injection h with h1 h2
    subst h1; subst h2
    obtain ⟨x, hx1, hx2, hx3⟩ := strLoop_verbatim _ _ _ _ _ hs
    obtain ⟨body, hb1, hb2, hb3⟩ := strLoop_prof _ _ _ _ _ hs
    simp only [List.nil_append] at hx1 hb1
    subst hx1
    obtain ⟨ys, hys⟩ := List.getLast?_eq_some_iff.1 hx3
    have hx : str = str.dropLast ++ [closerOf quoted] := by
      rw [hys]; simp
    refine ⟨?_, by rw [hb1]; exact hb2, by rw [hb1]; exact hb3⟩
    show t = _
    have : t = str ++ s1.rest := hx2
    rw [this]
    conv => lhs; rw [hx]
    simp

/-- **C01_literal_iff.**  Complete characterisation of braced / quoted values on ARBITRARY input: behind
white space and an opening `{` resp. `"`, `parse_value_part` succeeds with the value `v` leaving `r` unread
IF AND ONLY IF the text behind the opening delimiter is `v`, the closing delimiter, `r`, and `v` passes the
reference scan `litScan` of `Spec/Bib.lean` (every `}` has its `{`, all closed at the end, nesting at most
100, and — quoted spelling — no `"` at brace level 0).  So the reader accepts exactly the literals the
well-formedness predicate of `C01_faithful` allows, and returns them verbatim. -/
theorem C01_literal_iff (s : St) (quoted : Bool) (t v r : Str)
    (ht : (eatWs s).rest = (if quoted then '"' else '{') :: t) :
    (∃ s', parseValuePart s = .ok v s' ∧ s'.rest = r) ↔
      (t = v ++ closerOf quoted :: r ∧ litScan quoted 0 v = some 0) :=
  parseValuePart_literal_iff s quoted t v r ht

/-- non-vacuity of both sides (kernel-evaluated): accepted literals, and a `"` at level 0 / an unmatched
`}` rejected by the reference scan -/
theorem C01_literal_iff_nonvacuous :
    litScan false 0 "a {b} \" c".toList = some 0 ∧ litScan true 0 "x {\"} y".toList = some 0 ∧
    litScan true 0 "x \" y".toList = none ∧ litScan false 0 "a } b".toList = none := by decide +kernel

/-- non-vacuity: a braced value with a nested group and a quote, and a quoted value with a braced quote -/
def litCheck (text v rest : String) : Bool :=
  match parseValuePart { rest := text.toList, macros := CIDict.empty } with
  | .ok v' s' => v' = v.toList && s'.rest = rest.toList
  | .fail _ _ => false

theorem C01_literal_verbatim_nonvacuous :
    litCheck " \n{a {b} \" c} , rest" "a {b} \" c" " , rest" = true ∧
    litCheck "\"x {\"} y\"#" "x {\"} y" "#" = true := by decide +kernel

/-! ### the token patterns: each regular expression is "the longest non-empty prefix in a class" -/

/-- **C01_token_patterns.**  What the four regular expressions of `LowLevelParser` match, for EVERY
text `s` (no reference to `takeWhile`): `KEY_PAREN = [^\s,]+`, `KEY_BRACE = [^\s,}]+`, `NUMBER = [0-9]+`
match exactly the longest non-empty prefix of their class (white space = the 29 code points of `isWs`);
`NAME` matches a NAME_CHARS character followed by the longest run of NAME_CHARS + digits; a literal
matches its character.  The match is unique (the relation determines `v` and `r`). -/
theorem C01_token_patterns (s v r : Str) :
    (∀ p, p = Pat.keyParen ∨ p = Pat.keyBrace ∨ p = Pat.number →
      (p.matchAt s = some (v, r) ↔ (s = v ++ r ∧ MaxRun (runClass p) v r))) ∧
    (Pat.name.matchAt s = some (v, r) ↔
      ∃ c t, v = c :: t ∧ isNameStart c = true ∧ (∀ x ∈ t, isNameChar x = true) ∧ s = v ++ r ∧
        ∀ x u, r = x :: u → isNameChar x = false) ∧
    (∀ c, (Pat.lit c).matchAt s = some (v, r) ↔ (v = [c] ∧ s = c :: r)) := by
  refine ⟨?_, ?_, ?_⟩
  · intro p hp
    rcases hp with rfl | rfl | rfl
    · exact matchAt_run _ s v r
    · exact matchAt_run _ s v r
    · exact matchAt_run _ s v r
  · constructor
    · intro h
      cases s with
      | nil => simp [Pat.matchAt] at h
      | cons c t =>
        simp only [Pat.matchAt] at h
        split at h
        · rename_i hc
          injection h with h
          injection h with h1 h2
          subst h1; subst h2
          exact ⟨c, _, rfl, hc, takeWhile_all _ t, by simp [List.takeWhile_append_dropWhile], dropWhile_stops _ t⟩
        · cases h
    · rintro ⟨c, t, rfl, hc, ht, rfl, hr⟩
      obtain ⟨h1, h2⟩ := takeWhile_dropWhile_unique isNameChar t r ht hr
      simp only [List.cons_append, Pat.matchAt, hc, if_true, h1, h2]
  · intro c
    cases s with
    | nil => simp [Pat.matchAt]
    | cons d t =>
      simp only [Pat.matchAt]
      split
      · rename_i hd
        subst hd
        constructor
        · intro h
          injection h with h
          injection h with h1 h2
          exact ⟨h1.symm, by rw [h2]⟩
        · rintro ⟨rfl, h⟩
          injection h with _ h2
          rw [h2]
      · rename_i hd
        constructor
        · intro h; cases h
        · rintro ⟨_, h⟩
          injection h with h1 _
          exact absurd h1 hd

theorem C01_token_patterns_nonvacuous :
    Pat.keyBrace.matchAt "k:1}, x".toList = some ("k:1".toList, "}, x".toList) ∧
    Pat.keyParen.matchAt "k:1}, x".toList = some ("k:1}".toList, ", x".toList) ∧
    Pat.number.matchAt "0012a".toList = some ("0012".toList, "a".toList) ∧
    Pat.name.matchAt "a.b9=1".toList = some ("a.b9".toList, "=1".toList) ∧
    Pat.name.matchAt "9a".toList = none ∧
    MaxRun (runClass .keyBrace) ['k', ':', '1'] ['}', ',', ' ', 'x'] := by
  refine ⟨by decide +kernel, by decide +kernel, by decide +kernel, by decide +kernel, by decide +kernel, ?_⟩
  refine ⟨by simp, ?_, ?_⟩
  · intro c hc
    simp only [List.mem_cons, List.not_mem_nil, or_false] at hc
    rcases hc with rfl | rfl | rfl <;> decide +kernel
  · intro c t h
    injection h with h1 _
    subst h1
    decide +kernel

/-! ### the options of `Parser(...)` -/

/-- **C01_keyless_off** `[model wiring]`: with `keyless_entries=False` (the default) the reader with
options is the reader the round-trip theorems (`C01_faithful`, …) are about — for every macro table and
role list. -/
theorem C01_keyless_off (text : Str) (strict : Bool) (wanted : Option (List Str))
    (macros0 : List (Str × Str)) (roles : List Str) :
    parseBibK false text strict wanted macros0 roles = parseBib text strict wanted macros0 roles := by
  unfold parseBibK parseBib
  exact parseLoopK_false _ _

/-- **C01_keyless_numbering.**  Key-less entries (`keyless_entries=True`; `process_entry(type, None, …)`):
the entry is processed exactly like one written with the key `unnamed-<n>` for the current counter `n`, the
counter goes up by one whatever else happens, and different counter values give different keys. -/
theorem C01_keyless_numbering (t : Str) (fs : List (Str × List Str)) (s : St) :
    processEntry t none fs s =
      processEntry t (some ("unnamed-".toList ++ natToStr s.unnamed)) fs { s with unnamed := s.unnamed + 1 } ∧
    (∀ m n : Nat, "unnamed-".toList ++ natToStr m = "unnamed-".toList ++ natToStr n → m = n) :=
  ⟨rfl, fun _ _ h => bibNatToStr_inj (List.append_cancel_left h)⟩

def keylessCheck (text : String) (keys : List String) : Bool :=
  ((parseBibK true text.toList false none).1.db.entries.map (·.key)) = keys.map String.toList &&
  (parseBibK true text.toList false none).1.errs.isEmpty

theorem C01_keyless_numbering_nonvacuous :
    keylessCheck "@a{t = 1} junk @b(, u = {x} # jan,) @c{}" ["unnamed-1", "unnamed-2", "unnamed-3"] = true := by
  decide +kernel

/-- **C01_person_fields_option.**  `person_fields=roles`: a field is split into persons iff its name equals
one of the roles up to (ASCII) letter case — `CaseInsensitiveSet` membership; with `person_fields=[]`
(what the BibTeX engine passes) no field is. -/
theorem C01_person_fields_option (roles : List Str) (name : Str) :
    (isPersonFieldOf roles name = true ↔ ∃ r ∈ roles, lower r = lower name) ∧
    isPersonFieldOf [] name = false := by
  constructor
  · simp only [isPersonFieldOf, List.contains_iff_mem, List.mem_map]
  · rfl

theorem C01_person_fields_option_nonvacuous :
    isPersonFieldOf ["Translator".toList, "EDITOR".toList] "editor".toList = true ∧
    isPersonFieldOf ["Translator".toList, "EDITOR".toList] "author".toList = false := by decide +kernel

/-! ### constants written out by hand in the model = the values regenerated from the source -/

def deepLit (n : Nat) : Str := List.replicate n '{' ++ 'x' :: List.replicate n '}'

def valueKind (text : Str) : Option ErrKind :=
  match parseValuePart { rest := text, macros := CIDict.empty } with
  | .ok _ _ => none
  | .fail (.syn e) _ => some e.kind
  | .fail (.raised e) _ => some e.kind
  | .fail .skip _ => some .internal

/-- **C01_constants_tie.**  Kernel-evaluated against `Gen/BibConsts.lean`, which is regenerated from /repo on
every run: the descriptions of the 13 patterns are the ones the model's `Pat.desc` produces; a literal nested
`max_level` deep (braced: `max_level + 1` with the delimiters, as the code counts) is read and one level more
is "too many nested braces"; a key-less entry gets the regenerated prefix followed by the counter.  If the
source changes one of these constants this theorem stops checking (and the differential op `c01_consts` /
the depth family of `c01_value` disagree). -/
theorem C01_constants_tie :
    ([Pat.name, .keyParen, .keyBrace, .number, .lit '{', .lit '}', .lit '(', .lit ')', .lit '"', .lit ',', .lit '=',
      .lit '#', .lit '@'].map Pat.desc = Gen.bibPatDescs) ∧
    valueKind (deepLit (Gen.bibMaxLevel + 1)) = none ∧
    valueKind (deepLit (Gen.bibMaxLevel + 2)) = some .tooManyBraces ∧
    valueKind ('"' :: deepLit Gen.bibMaxLevel ++ ['"']) = none ∧
    valueKind ('"' :: deepLit (Gen.bibMaxLevel + 1) ++ ['"']) = some .tooManyBraces ∧
    ((parseBibK true "@a{}".toList false none).1.db.entries.map (·.key) = [Gen.bibUnnamedPrefix ++ "1".toList]) := by
  decide +kernel

end Pybtex.Props
