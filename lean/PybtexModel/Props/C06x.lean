/-
C06 (extension) — WHERE the engine reads and writes: `os.path.splitext`, the `.aux` name the command
line hands on, the `.bst` / `.bib` / `.bbl` names of `make_bibliography`, the output side of
`format_from_files`, and the agreement of the literals `Model/Engine.lean` hard-codes with the ones
regenerated from /repo (`Gen/EngineConsts.lean`).

Property theorems only.  Model: `Model/EnginePaths.lean`, `Model/EngineOut.lean`; lemmas:
`Lemmas/EnginePaths.lean`.
-/
import PybtexModel.Lemmas.EnginePaths
import PybtexModel.Lemmas.Engine
import PybtexModel.Lemmas.AuxFile
import PybtexModel.Model.EngineOut

namespace Pybtex.Props
open Pybtex Pybtex.Engine Pybtex.EnginePaths

namespace C06xEx
def s (x : String) : Str := x.toList
end C06xEx
open C06xEx

/-- last path component (what stands behind the last `os.sep`) -/
abbrev lastComponent (p : Str) : Str := baseOf Gen.osSep p

/-- it has a character other than `os.extsep` -/
abbrev hasNonDot (p : Str) : Bool := metNonDot Gen.osExtsep (lastComponent p)

private theorem sep_ne_extsep : Gen.osSep ≠ Gen.osExtsep := by decide

/-- `os.path.splitext` refines its specification: root and extension make up the path; the
extension is empty, or `os.extsep` followed by characters that are neither `os.extsep` nor `os.sep`
and then the last component of the root has a character other than `os.extsep` (leading dots of a
file name are never an extension). -/
theorem C06_splitext_spec (p : Str) :
    (splitext p).1 ++ (splitext p).2 = p ∧
    ((splitext p).2 = [] ∨
      ∃ x, (splitext p).2 = Gen.osExtsep :: x ∧ Gen.osExtsep ∉ x ∧ Gen.osSep ∉ x ∧ hasNonDot (splitext p).1 = true) := by
  refine ⟨splitextWith_join _ _ p, ?_⟩
  rcases splitextWith_shape Gen.osSep Gen.osExtsep p with h | ⟨x, h1, h2, h3, h4⟩
  · exact Or.inl h
  · refine Or.inr ⟨x, h1, h2, h3, ?_⟩
    rcases h4 with h4 | h4
    · exact absurd h4 sep_ne_extsep
    · exact h4

theorem C06_splitext_spec_nonvacuous :
    splitext (s "/D.d/my.doc.aux") = (s "/D.d/my.doc", s ".aux") ∧
    splitext (s "/D.d/doc") = (s "/D.d/doc", []) ∧
    splitext (s "/D/.hidden") = (s "/D/.hidden", []) ∧
    splitext (s "..a.b") = (s "..a", s ".b") ∧
    splitext (s "x.") = (s "x", s ".") := by decide +kernel

/-- the converse direction, complete for an appended extension: `b ++ '.' ++ x` (`x` without `.` and
`/`) splits into `(b, '.' ++ x)` exactly when the last component of `b` has a character other than
`.`; otherwise nothing is split off. -/
theorem C06_splitext_append (b x : Str) (hx : Gen.osExtsep ∉ x) (hs : Gen.osSep ∉ x) :
    splitext (b ++ Gen.osExtsep :: x) =
      if hasNonDot b then (b, Gen.osExtsep :: x) else (b ++ Gen.osExtsep :: x, []) := by
  cases hb : hasNonDot b
  · exact splitextWith_append_dots _ _ sep_ne_extsep b x hx hs hb
  · exact splitextWith_append _ _ sep_ne_extsep b x hx hs hb

theorem C06_splitext_append_nonvacuous :
    hasNonDot (s "/D/doc") = true ∧ hasNonDot (s "/D.d/") = false ∧ hasNonDot (s "/D/..") = false ∧
    splitext (s "/D.d/" ++ Gen.osExtsep :: s "aux") = (s "/D.d/.aux", []) := by decide +kernel

private theorem auxExt_eq : Gen.cliAuxExt = Gen.osExtsep :: Gen.cliAuxWord := by decide
private theorem auxWord_clean : Gen.osExtsep ∉ Gen.cliAuxWord ∧ Gen.osSep ∉ Gen.cliAuxWord := by decide

/-- the command line's `.aux` name: for a path `b` whose last component has a character other than
`.`: `b.aux` is handed on unchanged; `b` itself becomes `b.aux` unless its own extension is `.aux`;
hence `pybtex b` and `pybtex b.aux` name the same file, and the rule is idempotent. -/
theorem C06_cli_aux_name (b : Str) (hb : hasNonDot b = true) :
    splitext (b ++ Gen.cliAuxExt) = (b, Gen.cliAuxExt) ∧
    cliAuxName (b ++ Gen.cliAuxExt) = b ++ Gen.cliAuxExt ∧
    ((splitext b).2 ≠ Gen.cliAuxExt → cliAuxName b = b ++ Gen.cliAuxExt) ∧
    cliAuxName (cliAuxName b) = cliAuxName b := by
  have h1 : splitext (b ++ Gen.cliAuxExt) = (b, Gen.cliAuxExt) := by
    rw [auxExt_eq, C06_splitext_append b _ auxWord_clean.1 auxWord_clean.2, hb]; rfl
  have h2 : cliAuxName (b ++ Gen.cliAuxExt) = b ++ Gen.cliAuxExt := by
    simp [cliAuxName, h1]
  have h3 : (splitext b).2 ≠ Gen.cliAuxExt → cliAuxName b = b ++ Gen.cliAuxExt := by
    intro h
    rw [cliAuxName, if_pos h, addExt, auxExt_eq]
    simp
  refine ⟨h1, h2, h3, ?_⟩
  by_cases h : (splitext b).2 = Gen.cliAuxExt
  · have : cliAuxName b = b := by simp [cliAuxName, h]
    rw [this, this]
  · rw [h3 h, h2]

theorem C06_cli_aux_name_nonvacuous :
    hasNonDot (s "/D.d/doc") = true ∧ cliAuxName (s "/D.d/doc") = s "/D.d/doc.aux" ∧
    cliAuxName (s "/D.d/doc.aux") = s "/D.d/doc.aux" ∧ cliAuxName (s "/D/doc.tex") = s "/D/doc.tex.aux" := by
  decide +kernel

/-- the hypothesis is needed: a last component made of dots only (or empty) gets `.aux` appended
again and again -/
theorem C06_cli_aux_name_neg :
    hasNonDot [] = false ∧ cliAuxName [] = s ".aux" ∧ cliAuxName (cliAuxName []) = s ".aux.aux" ∧
    cliAuxName (s "/D/") = s "/D/.aux" ∧ cliAuxName (cliAuxName (s "/D/")) = s "/D/.aux.aux" := by
  decide +kernel

private theorem bbl_ne_nil (n : Str) : n ++ Gen.bblSuffix ≠ [] := by
  intro h
  have := congrArg List.length h
  simp only [List.length_append, List.length_nil] at this
  have h2 : Gen.bblSuffix.length = 4 := by decide
  omega

/-- the output side of `format_from_files`: (1) without `output_filename` the text of the run is the
return value; (2) with a name and `add_output_suffix` THE SAME text is written to `name.bbl` and
nothing is returned; (3) `add_output_suffix` without a name is a `TypeError`, raised only after the
run (an error of the run comes first); (4) an empty name without suffix counts as no name.
[model wiring] for the order; proved content: same text in (1) and (2), `name.bbl` is never empty. -/
theorem C06_explicit_output (files : Files) (srcs : List Src) (style : Str) (cites : List Str) (mc : Int)
    (alt : Option (List (Str × Bib.Entry) × List Str)) (n : Str) :
    (formatFromFilesTo files srcs style cites mc alt none false =
      match formatFromFiles files srcs style cites mc alt with
      | .error e => .error (.engine e)
      | .ok r => .ok (⟨some r.bbl, none⟩, r)) ∧
    (formatFromFilesTo files srcs style cites mc alt (some n) true =
      match formatFromFiles files srcs style cites mc alt with
      | .error e => .error (.engine e)
      | .ok r => .ok (⟨none, some (n ++ Gen.bblSuffix, r.bbl)⟩, r)) ∧
    (formatFromFilesTo files srcs style cites mc alt none true =
      match formatFromFiles files srcs style cites mc alt with
      | .error e => .error (.engine e)
      | .ok _ => .error .typeError) ∧
    (formatFromFilesTo files srcs style cites mc alt (some []) false =
      formatFromFilesTo files srcs style cites mc alt none false) := by
  refine ⟨?_, ?_, ?_, ?_⟩ <;> simp only [formatFromFilesTo, outputTarget, bbl_ne_nil, if_false, if_true] <;>
    cases formatFromFiles files srcs style cites mc alt <;> rfl

/-- `make_bibliography` never returns the text and never fails on the output name: it fails exactly
as the run fails, and on success writes the text of the run to `splitext(aux)[0] + '.bbl'`; for an
`.aux` name `b.aux` (last component of `b` not made of dots only) that is `b.bbl`, beside the `.aux`
file. -/
theorem C06_output_beside_aux (files : Files) (aux : Str) (fuel : Nat) (so : Option Str) (fmt : Option Format) (mc : Int) :
    (makeBibliographyTo files aux fuel so fmt mc =
      match makeBibliography files aux fuel so fmt mc with
      | .error e => .error (.engine e)
      | .ok (r, reps) => .ok (⟨none, some ((splitext aux).1 ++ Gen.bblSuffix, r.bbl)⟩, r, reps)) ∧
    (∀ b, hasNonDot b = true → aux = b ++ Gen.cliAuxExt → (splitext aux).1 ++ Gen.bblSuffix = b ++ Gen.bblSuffix) := by
  constructor
  · simp only [makeBibliographyTo, outputTarget, bbl_ne_nil, if_false]
    cases makeBibliography files aux fuel so fmt mc <;> rfl
  · intro b hb h
    rw [h, (C06_cli_aux_name b hb).1]

/-- `.aux` run = explicit call, output included: when the `.aux` file parses, `make_bibliography` IS
`format_from_files` on the `\bibdata` names + the reader's suffix, the (overridden) style, the
`\citation`s, with `output_filename = splitext(aux)[0]`, `add_output_suffix = True`; and the text it
writes is the text the same explicit call returns when it is given no output name.
[model wiring] (unfolds the definitions; parse has style and data: `parse_ok_style_data`). -/
theorem C06_aux_equiv_output (files : Files) (aux : Str) (fuel : Nat) (so : Option Str) (fmt : Option Format) (mc : Int)
    (st : Aux.St) (h : Aux.parse files.aux fuel aux = .ok st) :
    ∃ style data, st.style = some style ∧ st.data = some data ∧
      makeBibliographyTo files aux fuel so fmt mc =
        (formatFromFilesTo files ((bibNames data (fmt.getD bibtexFormat).suffix).map Src.file) (so.getD style) st.citations mc
            (fmt.getD bibtexFormat).alt (some (splitext aux).1) true).map (fun p => (p.1, p.2, st.reports)) ∧
      ∀ o r, formatFromFilesTo files ((bibNames data (fmt.getD bibtexFormat).suffix).map Src.file) (so.getD style) st.citations mc
            (fmt.getD bibtexFormat).alt none false = .ok (o, r) →
        makeBibliographyTo files aux fuel so fmt mc =
          .ok (⟨none, some ((splitext aux).1 ++ Gen.bblSuffix, o.returned.getD [])⟩, r, st.reports) ∧ o.returned = some r.bbl := by
  obtain ⟨⟨style, hs⟩, ⟨data, hd⟩⟩ := parse_ok_style_data _ _ _ _ h
  have hsrc : (bibNames data (fmt.getD bibtexFormat).suffix).map Src.file = bibSrcs data (fmt.getD bibtexFormat).suffix := by
    simp [bibNames, bibSrcs]
  refine ⟨style, data, hs, hd, ?_, ?_⟩
  · simp only [makeBibliographyTo, makeBibliography, h, hs, hd, formatFromFilesTo, hsrc]
    cases formatFromFiles files (bibSrcs data (fmt.getD bibtexFormat).suffix) (so.getD style) st.citations mc (fmt.getD bibtexFormat).alt with
    | error e => rfl
    | ok r => simp only [outputTarget, bbl_ne_nil, if_false]; rfl
  · intro o r ho
    simp only [makeBibliographyTo, makeBibliography, h, hs, hd, formatFromFilesTo, hsrc, outputTarget, bbl_ne_nil, if_false] at ho ⊢
    cases hf : formatFromFiles files (bibSrcs data (fmt.getD bibtexFormat).suffix) (so.getD style) st.citations mc (fmt.getD bibtexFormat).alt with
    | error e => rw [hf] at ho; cases ho
    | ok r' =>
      rw [hf] at ho
      simp only [deliver, Except.ok.injEq, Prod.mk.injEq] at ho
      obtain ⟨ho1, ho2⟩ := ho
      subst ho1; subst ho2
      exact ⟨rfl, rfl⟩

private theorem firstUnsupported_none (ws : List Str) (bs : List Bool) (h : bs.all (· = false) = true) :
    firstUnsupported ws bs = none := by
  induction ws generalizing bs with
  | nil => cases bs <;> rfl
  | cons w ws ih =>
    cases bs with
    | nil => rfl
    | cons b bs =>
      simp only [List.all_cons, Bool.and_eq_true, decide_eq_true_eq] at h
      simp only [firstUnsupported, h.1]
      exact ih bs h.2

/-- the command line's decision: (1) a style language other than the two known ones is a usage error;
(2) with the BibTeX language a Pythonic-engine option that is set is a usage error (the first of the
dict's order); (3) otherwise the BibTeX engine's `make_bibliography` is called on `cliAuxName filename`
with every encoding option that is not set replaced by `--encoding`. -/
theorem C06_cli_run (filename : Str) (o : CliOptions) :
    (o.styleLanguage ≠ Gen.cliLangBibtex → o.styleLanguage ≠ Gen.cliLangPython →
      cliRun filename o = .error (.unknownLanguage o.styleLanguage)) ∧
    (o.styleLanguage = Gen.cliLangBibtex → ∀ w, firstUnsupported Gen.cliNotSupported o.pythonic = some w →
      cliRun filename o = .error (.notSupported w)) ∧
    (o.styleLanguage = Gen.cliLangBibtex → o.pythonic.all (· = false) = true →
      cliRun filename o = .ok ⟨false, cliAuxName filename, encDefault o.bibEncoding o.encoding,
        encDefault o.bstEncoding o.encoding, encDefault o.outputEncoding o.encoding⟩) := by
  have hne : Gen.cliLangBibtex ≠ Gen.cliLangPython := by decide
  refine ⟨?_, ?_, ?_⟩
  · intro h1 h2; simp [cliRun, h1, h2]
  · intro h w hw
    simp only [cliRun, h, hne, ne_eq, not_true_eq_false, false_and, if_false, not_false_eq_true, if_true, hw]
  · intro h hall
    simp only [cliRun, h, hne, ne_eq, not_true_eq_false, false_and, if_false, not_false_eq_true, if_true,
      firstUnsupported_none _ _ hall]
    simp

theorem C06_cli_run_nonvacuous :
    cliRun (s "doc") ⟨s "bibtex", some (s "latin-1"), none, some [], some (s "utf-8"), [false, false, false, false, false]⟩ =
      .ok ⟨false, s "doc.aux", some (s "latin-1"), some (s "latin-1"), some (s "utf-8")⟩ ∧
    cliRun (s "doc") ⟨s "bibtex", none, none, none, none, [false, true, false, true, false]⟩ = .error (.notSupported (s "label styles")) ∧
    cliRun (s "doc") ⟨s "perl", none, none, none, none, []⟩ = .error (.unknownLanguage (s "perl")) ∧
    (cliRun (s "doc") ⟨s "python", none, none, none, none, [true, true, false, false, false]⟩).toOption.map (·.python) = some true := by
  decide +kernel

/-- `pybtex b` and `pybtex b.aux` are the same run, the one `make_bibliography('b.aux')` performs
(BibTeX language, no Pythonic option; last component of `b` not made of dots only, `b` not itself
ending in `.aux`): same error or same `.bbl` text written to `b.bbl`. -/
theorem C06_cli_same_run (files : Files) (b : Str) (o : CliOptions) (fuel : Nat) (so : Option Str) (fmt : Option Format) (mc : Int)
    (hb : hasNonDot b = true) (hext : (splitext b).2 ≠ Gen.cliAuxExt)
    (hl : o.styleLanguage = Gen.cliLangBibtex) (hp : o.pythonic.all (· = false) = true) :
    cliMakeBibliography files b o fuel so fmt mc = makeBibliographyTo files (b ++ Gen.cliAuxExt) fuel so fmt mc ∧
    cliMakeBibliography files (b ++ Gen.cliAuxExt) o fuel so fmt mc = makeBibliographyTo files (b ++ Gen.cliAuxExt) fuel so fmt mc := by
  obtain ⟨_, h2, h3, _⟩ := C06_cli_aux_name b hb
  constructor
  · simp only [cliMakeBibliography, (C06_cli_run b o).2.2 hl hp, h3 hext]
  · simp only [cliMakeBibliography, (C06_cli_run (b ++ Gen.cliAuxExt) o).2.2 hl hp, h2]

/-- the literals `Model/Engine.lean` hard-codes are the ones read from /repo on this run
(`Gen/EngineConsts.lean`): the default reader's suffix, `style + extsep + 'bst'`, the `.bib` names,
the command names `Interpreter.run` dispatches on (`command_*` methods = `BstParser.COMMANDS`
lower-cased), the command line's default `min_crossrefs` = the API's. -/
theorem C06_model_literals :
    bibtexFormat.suffix = Gen.defaultReaderSuffix ∧ bibtexFormat.alt.isNone = true ∧
    (∀ style : Str, style ++ ".bst".toList = bstName style) ∧
    (∀ data suffix, bibSrcs data suffix = (bibNames data suffix).map Src.file) ∧
    Gen.bstCommands.map (fun p => lower p.1) = Gen.interpCommands ∧
    Gen.cliDefaultMinCrossrefs = Gen.defaultMinCrossrefs ∧ Gen.cliDefaultLanguage = Gen.cliLangBibtex ∧
    Gen.readerSuffixes.lookup "bibtex".toList = some Gen.defaultReaderSuffix := by
  refine ⟨by decide, rfl, ?_, ?_, by decide, by decide, by decide, by decide⟩
  · intro style; simp only [bstName]; rw [List.append_assoc]; rfl
  · intro data suffix; simp [bibNames, bibSrcs]

/-! ### composition with the `.aux` reader's specification (C20): nested `\@input` files are merged IN PLACE -/

open Pybtex.Aux Pybtex.Aux.Spec in
/-- `.aux` run = explicit call on the IN-PLACE reading of the document: for a closed document of any
nesting depth (`closedDepth`: every `\@input` file exists, nesting at most `d ≤ fuel` deep) without
fatal problem, `make_bibliography` is `format_from_files` on the names of the first `\bibdata` +
reader suffix, the first `\bibstyle` (or the override), and the citations of `Spec.events` – the
`\citation` keys in reading order with every `\@input` file unfolded where its line stands – with
the output written to `splitext(aux)[0] + '.bbl'`; the `.aux` reader's reports ride along.
(composition of C20's `parse_spec` with `C06_aux_equiv_output`) -/
theorem C06_aux_equiv_in_place (files : Files) (d fuel : Nat) (aux : Str) (so : Option Str) (fmt : Option Format) (mc : Int)
    (hcl : closedDepth files.aux d aux = true) (hle : d ≤ fuel) (hf : Spec.fatal (events files.aux d aux) = none) :
    ∃ sty dat, Spec.style (events files.aux d aux) = some sty ∧ Spec.data (events files.aux d aux) = some dat ∧
      makeBibliographyTo files aux fuel so fmt mc =
        (formatFromFilesTo files ((bibNames dat (fmt.getD bibtexFormat).suffix).map Src.file) (so.getD sty)
            (Spec.citations (events files.aux d aux)) mc (fmt.getD bibtexFormat).alt (some (splitext aux).1) true).map
          (fun p => (p.1, p.2, Spec.reports (events files.aux d aux))) := by
  have hp := parse_spec files.aux d fuel aux hcl hle
  rw [hf] at hp
  obtain ⟨sty, dat, hs, hd, heq, _⟩ := C06_aux_equiv_output files aux fuel so fmt mc _ hp
  exact ⟨sty, dat, hs, hd, heq⟩

namespace C06xEx
/-- main: alpha, \@input{ch1}, omega; ch1: beta, \@input{ch1a}, delta; ch1a: gamma -/
def nestedFS : Aux.FS := Aux.fsOf
  [(s "main.aux", [s "\\citation{alpha}", s "\\@input{ch1.aux}", s "\\citation{omega}", s "\\bibstyle{unsrt}", s "\\bibdata{refs}"]),
   (s "ch1.aux", [s "\\citation{beta}", s "\\@input{ch1a.aux}", s "\\citation{delta}"]),
   (s "ch1a.aux", [s "\\citation{gamma}"])]
end C06xEx

open Pybtex.Aux Pybtex.Aux.Spec in
theorem C06_aux_equiv_in_place_nonvacuous :
    closedDepth nestedFS 3 (s "main.aux") = true ∧ Spec.fatal (events nestedFS 3 (s "main.aux")) = none ∧
    Spec.citations (events nestedFS 3 (s "main.aux")) = [s "alpha", s "beta", s "gamma", s "delta", s "omega"] ∧
    Spec.style (events nestedFS 3 (s "main.aux")) = some (s "unsrt") ∧ Spec.data (events nestedFS 3 (s "main.aux")) = some [s "refs"] := by
  decide +kernel

/-! ### the style file is named by the WHOLE style name (seed c06-7: `house.unsrt` must not be looked up as `house.bst`) -/

private theorem bstWord_clean : Gen.osExtsep ∉ Gen.bstWord ∧ Gen.osSep ∉ Gen.bstWord := by decide

/-- The file name `format_from_files` builds from a style name, `style + extsep + 'bst'`:
(1) different style names designate different files (nothing of the name is dropped, dots included);
(2) for a style name whose last component is not made of dots only, `os.path.splitext` of the file name
gives back exactly the style name, so `house.unsrt.bst` belongs to the style `house.unsrt`, not `house`;
(3) [model wiring] the model's `format_from_files` opens this name and no other to get the style: when
it holds no text the run is `cannotOpen` of this very name, whatever other files exist. -/
theorem C06_style_file_name :
    (∀ a b : Str, bstName a = bstName b → a = b) ∧
    (∀ style : Str, hasNonDot style = true → splitext (bstName style) = (style, Gen.osExtsep :: Gen.bstWord)) ∧
    (∀ (files : Files) srcs (style : Str) cites mc alt, files.text (bstName style) = none →
      formatFromFiles files srcs style cites mc alt = .error (.cannotOpen (bstName style))) := by
  refine ⟨?_, ?_, ?_⟩
  · intro a b h
    simp only [bstName, List.append_assoc] at h
    exact List.append_cancel_right h
  · intro style h
    have := C06_splitext_append style Gen.bstWord bstWord_clean.1 bstWord_clean.2
    simp only [bstName, List.append_assoc, List.singleton_append]
    rw [this, if_pos h]
  · intro files srcs style cites mc alt h
    have hn : style ++ ".bst".toList = bstName style := C06_model_literals.2.2.1 style
    unfold formatFromFiles
    rw [hn, h]

theorem C06_style_file_name_nonvacuous :
    bstName (s "/D/house.unsrt") = s "/D/house.unsrt.bst" ∧ bstName (s "/D/house") = s "/D/house.bst" ∧
    hasNonDot (s "/D/house.unsrt") = true ∧
    splitext (s "/D/house.unsrt.bst") = (s "/D/house.unsrt", s ".bst") := by decide +kernel

end Pybtex.Props
