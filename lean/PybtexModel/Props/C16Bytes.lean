/-
C16 (extension) — byte file names, and the tables / constants of the rendering model against the
running interpreter and the source.

Property theorems only.  Model: `Model/ErrorsBytes.lean` (`PybtexError.get_filename` with its
byte-string branch = `pybtex.io._decode_filename(…, errors='replace')` under the UTF-8 file-system
encoding), `Model/Errors.lean`; tables: `Gen/C16Tables.lean` (regenerated on every run).
-/
import PybtexModel.Model.ErrorsBytes
import PybtexModel.Lemmas.Errors

namespace Pybtex.Props
open Pybtex Pybtex.Errors

/-! ## the decoder -/

private theorem char_bounds (c : Char) : c.toNat < 0xD800 ∨ (0xDFFF < c.toNat ∧ c.toNat < 0x110000) := by
  have h := c.valid
  simp only [UInt32.isValidChar, Nat.isValidChar] at h
  simp only [Char.toNat]
  omega

private theorem secondOk_eq (b0 b1 : Nat) :
    secondOk b0 b1 = true ↔ (secondLo b0 ≤ b1 ∧ b1 ≤ secondHi b0) := by
  simp [secondOk]

/-- decoding the UTF-8 form of one character followed by anything gives that character back and
goes on behind it -/
theorem C16_decode_encodeChar (c : Char) (rest : Bytes) :
    decodeUtf8Replace (utf8EncodeChar c ++ rest) = c :: decodeUtf8Replace rest := by
  have hb := char_bounds c
  have hc : Char.ofNat c.toNat = c := Char.ofNat_toNat c
  generalize hn : c.toNat = n at hb hc
  unfold utf8EncodeChar
  simp only [hn]
  by_cases h1 : n < 0x80
  · rw [if_pos h1]
    simp only [List.cons_append, List.nil_append]
    conv => lhs; rw [decodeUtf8Replace.eq_def]
    simp only [if_pos h1, hc]
  · rw [if_neg h1]
    by_cases h2 : n < 0x800
    · rw [if_pos h2]
      simp only [List.cons_append, List.nil_append]
      conv => lhs; rw [decodeUtf8Replace.eq_def]
      have a1 : ¬ (0xC0 + n / 64 < 0x80) := by omega
      have a2 : ¬ (0xC0 + n / 64 < 0xC2) := by omega
      have a3 : 0xC0 + n / 64 < 0xE0 := by omega
      have a4 : isCont (0x80 + n % 64) = true := by simp [isCont]; omega
      have a5 : (0xC0 + n / 64 - 0xC0) * 64 + (0x80 + n % 64 - 0x80) = n := by omega
      simp only [if_neg a1, if_neg a2, if_pos a3, a4, if_true, a5, hc]
    · rw [if_neg h2]
      by_cases h3 : n < 0x10000
      · rw [if_pos h3]
        simp only [List.cons_append, List.nil_append]
        conv => lhs; rw [decodeUtf8Replace.eq_def]
        have a1 : ¬ (0xE0 + n / 4096 < 0x80) := by omega
        have a2 : ¬ (0xE0 + n / 4096 < 0xC2) := by omega
        have a3 : ¬ (0xE0 + n / 4096 < 0xE0) := by omega
        have a4 : 0xE0 + n / 4096 < 0xF0 := by omega
        have a5 : secondOk (0xE0 + n / 4096) (0x80 + n / 64 % 64) = true := by
          rw [secondOk_eq]
          constructor
          · unfold secondLo; split <;> (try split) <;> omega
          · unfold secondHi; split <;> (try split) <;> omega
        have a6 : isCont (0x80 + n % 64) = true := by simp [isCont]; omega
        have a7 : (0xE0 + n / 4096 - 0xE0) * 4096 + (0x80 + n / 64 % 64 - 0x80) * 64
            + (0x80 + n % 64 - 0x80) = n := by omega
        simp only [if_neg a1, if_neg a2, if_neg a3, if_pos a4, a5, a6, if_true, a7, hc]
      · rw [if_neg h3]
        simp only [List.cons_append, List.nil_append]
        conv => lhs; rw [decodeUtf8Replace.eq_def]
        have a1 : ¬ (0xF0 + n / 262144 < 0x80) := by omega
        have a2 : ¬ (0xF0 + n / 262144 < 0xC2) := by omega
        have a3 : ¬ (0xF0 + n / 262144 < 0xE0) := by omega
        have a4 : ¬ (0xF0 + n / 262144 < 0xF0) := by omega
        have a4' : 0xF0 + n / 262144 < 0xF5 := by omega
        have a5 : secondOk (0xF0 + n / 262144) (0x80 + n / 4096 % 64) = true := by
          rw [secondOk_eq]
          constructor
          · unfold secondLo; split <;> (try split) <;> omega
          · unfold secondHi; split <;> (try split) <;> omega
        have a6 : isCont (0x80 + n / 64 % 64) = true := by simp [isCont]; omega
        have a6' : isCont (0x80 + n % 64) = true := by simp [isCont]; omega
        have a7 : (0xF0 + n / 262144 - 0xF0) * 262144 + (0x80 + n / 4096 % 64 - 0x80) * 4096
            + (0x80 + n / 64 % 64 - 0x80) * 64 + (0x80 + n % 64 - 0x80) = n := by omega
        simp only [if_neg a1, if_neg a2, if_neg a3, if_neg a4, if_pos a4', a5, a6, a6', if_true, a7, hc]

/-- **Byte file names of text names render as the text.**  For EVERY string `s`:
`s.encode('utf-8').decode('utf-8', 'replace') = s`; hence an error whose `filename` attribute is the
UTF-8 byte form of a name has the same `get_filename()` as the error carrying the `str` name, and so
the same `format_error` text (no hypothesis). -/
theorem C16_filename_bytes_roundtrip (s : Str) :
    decodeUtf8Replace (utf8Encode s) = s ∧
    getFilenameB (.bytes (utf8Encode s)) = getFilenameB (.str s) ∧
    ∀ (e : Err) (pre : Str), formatErrorB e (.bytes (utf8Encode s)) pre = formatErrorB e (.str s) pre := by
  have h : decodeUtf8Replace (utf8Encode s) = s := by
    induction s with
    | nil => simp [utf8Encode, decodeUtf8Replace]
    | cons c r ih =>
      have : utf8Encode (c :: r) = utf8EncodeChar c ++ utf8Encode r := by simp [utf8Encode]
      rw [this, C16_decode_encodeChar, ih]
  refine ⟨h, ?_, ?_⟩
  · simp [getFilenameB, decodeFilename, h]
  · intro e pre
    simp [formatErrorB, getFilenameB, decodeFilename, h]

/-- non-vacuity: one character of every UTF-8 length, incl. the boundary cases U+0800 (E0 A0 80),
U+D7FF (ED 9F BF), U+10000 (F0 90 80 80) and U+10FFFF (F4 8F BF BF) -/
theorem C16_filename_bytes_roundtrip_nonvacuous :
    utf8Encode [Char.ofNat 0x61, Char.ofNat 0xE9, Char.ofNat 0x800, Char.ofNat 0xD7FF, Char.ofNat 0x20AC,
                Char.ofNat 0x10000, Char.ofNat 0x10FFFF]
      = [0x61, 0xC3, 0xA9, 0xE0, 0xA0, 0x80, 0xED, 0x9F, 0xBF, 0xE2, 0x82, 0xAC,
         0xF0, 0x90, 0x80, 0x80, 0xF4, 0x8F, 0xBF, 0xBF] ∧
    decodeUtf8Replace [0x61, 0xC3, 0xA9, 0xE0, 0xA0, 0x80, 0xED, 0x9F, 0xBF, 0xE2, 0x82, 0xAC,
         0xF0, 0x90, 0x80, 0x80, 0xF4, 0x8F, 0xBF, 0xBF]
      = [Char.ofNat 0x61, Char.ofNat 0xE9, Char.ofNat 0x800, Char.ofNat 0xD7FF, Char.ofNat 0x20AC,
         Char.ofNat 0x10000, Char.ofNat 0x10FFFF] := by
  decide +kernel

/-- the decoder never produces more characters than there are bytes, and produces at least one
for a non-empty byte string -/
theorem C16_decode_length (b : Bytes) :
    (decodeUtf8Replace b).length ≤ b.length ∧ (b ≠ [] → decodeUtf8Replace b ≠ []) := by
  constructor
  · fun_induction decodeUtf8Replace b <;> simp_all <;> omega
  · intro hb
    cases b with
    | nil => exact absurd rfl hb
    | cons b0 r =>
      rw [decodeUtf8Replace.eq_def]
      simp only
      repeat' split
      all_goals simp

/-- **Rendering stays total with byte file names, whatever the bytes.**  For every error value
that renders (`Err.WF`, a condition on `TokenRequired` parser states only) and EVERY byte string as
its `filename` attribute — ill-formed UTF-8 included — `get_filename()` is defined, `format_error`
is defined, and a non-empty byte name is never lost: it decodes to a non-empty name, so every line
of the rendering carries the `name: ` prefix (the `if filename:` branch of `format_error`). -/
theorem C16_filename_bytes_total (e : Err) (hwf : e.WF = true) (b : Bytes) (pre : Str) :
    (∃ f, getFilenameB (.bytes b) = some f ∧ (b ≠ [] → f ≠ [])) ∧
    ∃ t, formatErrorB e (.bytes b) pre = .ok t := by
  refine ⟨⟨decodeUtf8Replace b, rfl, (C16_decode_length b).2⟩, ?_⟩
  have hwf' : (e.withFilename (getFilenameB (.bytes b))).WF = true := by
    cases e <;> simp_all [Err.withFilename, Err.WF]
  obtain ⟨ctx, h⟩ := Errors.contextLines_ok _ hwf'
  refine ⟨joinWith ['\n'] ((ctx ++ [pre ++ (e.withFilename (getFilenameB (.bytes b))).str]).map
    (withFile (e.withFilename (getFilenameB (.bytes b))).getFilename)), ?_⟩
  simp [formatErrorB, formatError, formatErrorLines, h, bind, Except.bind, pure, Except.pure, Except.map]

/-- non-vacuity: an `.aux` error whose file name is the ill-formed byte string `b"a\xff.aux"`
renders, with U+FFFD in the place of the stray byte, on every line -/
theorem C16_filename_bytes_total_nonvacuous :
    formatErrorB (.auxData "m".toList none (some 3) (some "xy".toList)) (.bytes [0x61, 0xFF, 0x2E, 0x61, 0x75, 0x78])
        errorPrefix
      = .ok ("a�.aux: xy\na�.aux: ^^\na�.aux: ERROR: in line 3: m".toList) := by
  decide +kernel

/-- ill-formed input, the maximal-subpart rule of CPython: a stray continuation byte, an over-long
lead byte (C0), a lead byte followed by a byte outside its range (E0 80: two replacements), a
truncated three-byte prefix before an ASCII byte (E2 82 'a': one replacement, `a` kept), a
surrogate (ED A0 80: three replacements), a value above U+10FFFF (F4 90: two replacements), a
well-formed prefix cut off by the end of the data (F0 90 80: one replacement) -/
theorem C16_decode_illformed_examples :
    decodeUtf8Replace [0x80] = [replacementChar] ∧
    decodeUtf8Replace [0xC0, 0x80] = [replacementChar, replacementChar] ∧
    decodeUtf8Replace [0xE0, 0x80] = [replacementChar, replacementChar] ∧
    decodeUtf8Replace [0xE2, 0x82, 0x61] = [replacementChar, 'a'] ∧
    decodeUtf8Replace [0xED, 0xA0, 0x80] = [replacementChar, replacementChar, replacementChar] ∧
    decodeUtf8Replace [0xF4, 0x90] = [replacementChar, replacementChar] ∧
    decodeUtf8Replace [0xF0, 0x90, 0x80] = [replacementChar] := by
  decide +kernel

/-! ## the line structure of a rendering -/

/-- `str.splitlines` as modelled: with `keepends` the pieces concatenate to the text again (the
Scanner context `''.join(lines[:n])` / `lines[n]` loses nothing), and without it no piece contains a
line separator -- for EVERY text. -/
theorem C16_splitlines_lossless (s : Str) :
    (splitLines true s).flatten = s ∧
    ∀ l ∈ splitLines false s, ∀ c ∈ l, isLineBreak c = false := by
  constructor
  · fun_induction splitLines true s <;> simp_all
  · fun_induction splitLines false s <;> simp_all <;> first | assumption | (rename_i h; exact h.2)

theorem C16_splitlines_lossless_nonvacuous :
    splitLines true "a\r\nb\x0cc\n".toList = ["a\r\n".toList, "b\x0c".toList, "c\n".toList] ∧
    splitLines false "a\r\nb\x0cc\n".toList = ["a".toList, "b".toList, "c".toList] := by
  decide +kernel

/-- **Every context line of a rendering is ONE line.**  Whatever `get_context()` returns (the
offending source text and its marker, the `.aux` line), the lines `format_error` puts before the
message contain no line separator, so each of them really gets its own `file name: ` prefix; for
every error value whose context is defined. -/
theorem C16_context_lines_single (e : Err) (ctx : List Str) (h : e.contextLines = .ok ctx) :
    ∀ l ∈ ctx, ∀ c ∈ l, isLineBreak c = false := by
  unfold Err.contextLines at h
  cases hg : e.getContext with
  | error f => simp [hg, bind, Except.bind] at h
  | ok o =>
    cases o with
    | none =>
      simp [hg, bind, Except.bind, pure, Except.pure] at h
      subst h; simp
    | some c =>
      simp only [hg, bind, Except.bind, pure, Except.pure] at h
      split at h
      · cases h; simp
      · cases h; exact (C16_splitlines_lossless c).2

/-- non-vacuity: a `TokenRequired` whose parser text has several lines before the error -/
theorem C16_context_lines_single_nonvacuous :
    (Err.tokenRequired "'='".toList (some "a.bib".toList)
      { kind := .lowLevel, text := "@article{k,\n  title x\n}\n".toList, start := some 0,
        lineno := some 2, pos := 20 }).contextLines
      = .ok ["@article{k,".toList, "  title x".toList, "       ^^^".toList] := by
  decide +kernel

/-- **A non-empty byte file name prefixes every line.**  For every renderable error of a class
that carries a file name and EVERY non-empty byte string as that name: each line of `format_error`
(context lines and message line) starts with the decoded name followed by `": "`. -/
theorem C16_filename_bytes_prefix (e : Err) (hwf : e.WF = true) (hc : carriesFilename e = true)
    (b : Bytes) (hb : b ≠ []) (pre : Str) :
    ∃ lines, formatErrorLines (e.withFilename (getFilenameB (.bytes b))) pre = .ok lines ∧
      ∀ l ∈ lines, (decodeUtf8Replace b ++ [':', ' ']).isPrefixOf l = true := by
  have hne : decodeUtf8Replace b ≠ [] := (C16_decode_length b).2 hb
  have hwf' : (e.withFilename (getFilenameB (.bytes b))).WF = true := by
    cases e <;> simp_all [Err.withFilename, Err.WF]
  have hf : (e.withFilename (getFilenameB (.bytes b))).getFilename = some (decodeUtf8Replace b) := by
    cases e <;> simp_all [Err.withFilename, Err.getFilename, getFilenameB, decodeFilename, carriesFilename]
  obtain ⟨ctx, h⟩ := Errors.contextLines_ok _ hwf'
  refine ⟨(ctx ++ [pre ++ (e.withFilename (getFilenameB (.bytes b))).str]).map
    (withFile (some (decodeUtf8Replace b))), ?_, ?_⟩
  · simp [formatErrorLines, h, hf, bind, Except.bind, pure, Except.pure]
  · intro l hl
    simp only [List.mem_map] at hl
    obtain ⟨x, _, rfl⟩ := hl
    have : (decodeUtf8Replace b).isEmpty = false := by
      cases hd : decodeUtf8Replace b with
      | nil => exact absurd hd hne
      | cons _ _ => rfl
    simp [withFile, this]

theorem C16_filename_bytes_prefix_nonvacuous :
    formatErrorLines ((Err.syntaxErr .prematureEOF [] none (some 3)).withFilename
        (getFilenameB (.bytes [0xC3, 0xA9, 0x80, 0x2E, 0x62, 0x73, 0x74]))) warningPrefix
      = .ok ["é�.bst: WARNING: syntax error in line 3: premature end of file".toList] := by
  decide +kernel

/-! ## `__eq__` / `__hash__` -/

/-- `PybtexError.__eq__` is an equivalence relation that contains identity of values, and
`__hash__` is consistent with it (`a == b → hash(a) == hash(b)`: equal hashed values), for all
error values of all classes. -/
theorem C16_eq_equivalence (a b c : Err) :
    a.pyEq a = true ∧ (a.pyEq b = b.pyEq a) ∧ (a.pyEq b = true → b.pyEq c = true → a.pyEq c = true) ∧
    (a = b → a.pyEq b = true) ∧ (a.pyEq b = true → a.hashKey = b.hashKey) := by
  refine ⟨by simp [Err.pyEq], ?_, ?_, ?_, ?_⟩
  · simp only [Err.pyEq]; exact BEq.comm
  · intro h1 h2
    simp only [Err.pyEq, beq_iff_eq] at *
    exact h1.trans h2
  · intro h; subst h; simp [Err.pyEq]
  · intro h; simpa [Err.pyEq, Err.hashKey] using h

/-- `__eq__` compares the MESSAGE TEXT only: two problems of different classes, in different
files, one with and one without source context, are "equal" although they render differently --
so a comparison of captured lists with `==` (what the package's own tests do) cannot tell problems
apart that differ in class or location.  "The same problems in every mode" has to be read off the
renderings, as the correspondence does. -/
theorem C16_eq_ignores_location_neg :
    ∃ a b : Err, a.pyEq b = true ∧ a.className ≠ b.className ∧ a.getFilename ≠ b.getFilename ∧
      formatError a errorPrefix ≠ formatError b errorPrefix :=
  ⟨.auxData "m".toList (some "a.aux".toList) (some 3) (some "xy".toList),
   .plain .pybtexError "in line 3: m".toList (some "b.bib".toList), by decide +kernel⟩

/-! ## tables and constants against the interpreter and the source -/

/-- the model of byte file names is the one for the codec the running interpreter uses
(`sys.getfilesystemencoding()`, regenerated on every run): another codec stops the build here -/
theorem C16_fs_encoding_modelled : Gen.fsEncoding = "utf-8" := by decide

/-- the constants the model hard-codes are the literals of the source (read off the AST / the
imported objects on every run, `harness/tablegen/c16.py`): default prefix of `format_error` /
`print_error`, the prefix and the `error_code` value of `report_error`, the `error_type` strings,
the line-break code points of `str.splitlines`, the exit status of an escaped pybtex error, the format letters of `check_format_chars`, and
`"{0}: {1}"` for the file-name prefix -/
theorem C16_constants_match_source :
    errorPrefix = Gen.errorPrefixSrc.toList ∧
    warningPrefix = Gen.warningPrefixSrc.toList ∧
    (report ({ strict := false, errorCode := 0, captured := none } : State Nat) 0).1.errorCode
      = Gen.warningCodeSrc ∧
    SyntaxClass.errorType .pybtexSyntaxError = Gen.syntaxErrorTypeSrc.toList ∧
    SyntaxClass.errorType .undefinedMacro = Gen.undefinedMacroTypeSrc.toList ∧
    lineBreakCodes = Gen.lineBreakCodesPy ∧
    (commandLine (State.init : State Nat) { reports := [], fatal := some 0 }).2.2 = Gen.fatalStatusSrc ∧
    formatLetters = Gen.formatLettersSrc.toList ∧
    Gen.fileLineFormatSrc = "{0}: {1}" ∧
    withFile (some ['f']) ['l'] = ['f', ':', ' ', 'l'] := by
  decide +kernel

/-- `repr` escapes exactly what the interpreter's `str.isprintable` table says, also outside
Latin-1: U+200B ZERO WIDTH SPACE, U+FEFF (a byte-order mark inside a name), a private-use and an
unassigned code point are escaped; `é`, `–`, `€` and a CJK character are not -/
theorem C16_repr_table_examples :
    pyRepr [Char.ofNat 0x200B, Char.ofNat 0xFEFF, Char.ofNat 0xE000, Char.ofNat 0x378, Char.ofNat 0xE0001]
      = "'\\u200b\\ufeff\\ue000\\u0378\\U000e0001'".toList ∧
    pyRepr [Char.ofNat 0xE9, Char.ofNat 0x2013, Char.ofNat 0x20AC, Char.ofNat 0x4E2D]
      = [Char.ofNat 39, Char.ofNat 0xE9, Char.ofNat 0x2013, Char.ofNat 0x20AC, Char.ofNat 0x4E2D, Char.ofNat 39] := by
  decide +kernel

end Pybtex.Props
