/-
C14, bridge — the two models of the cross-reference lookup are one function.

Round 1 stated its theorems about `findField` / `findFieldLoop` over the ASCII containers
(`Model/Crossref.lean`, `Model/CrossrefLoop.lean`, databases `BibData`, hypotheses `DbWF` /
`EntryWF`); round 2 added `Uni.findFieldLoop norm` over the Unicode-generic containers
(`Model/CrossrefU.lean`, databases `Uni.UDb`, no hypothesis).  Here: with `norm := lower` the second
IS the first, through the explicit translation `Entry.toU` / `BibData.toU`
(`Lemmas/CrossrefBridge.lean`: the two tables of every container taken over unchanged; `type`,
`wanted`, `citations` dropped) — for every database, well-formed or not — and the translation is
onto.  Consequences: the round-1 inheritance theorem without its hypotheses, agreement of the two
reference lookups on well-formed databases, and the hop bound for the loop model.
Property theorems only; helper lemmas: `Lemmas/CrossrefBridge.lean`.
-/
import PybtexModel.Props.C14x
import PybtexModel.Lemmas.CrossrefBridge

namespace Pybtex.Props
open Pybtex Spec C14Ex

/-- The Unicode-generic model run with the ASCII normaliser is the ASCII model: for EVERY ASCII-model
database (or none; no well-formedness asked), visited set, entry and name,
(1) the loop `Uni.findFieldLoop lower` on the translated database and entry returns what the ASCII
loop `findFieldLoop` returns, (2) hence what the recursive `findField` of the round-1 theorems
returns; (3) the step function `_find_crossref_entry` commutes with the translation (same success,
translated entry, same visited set); (4) `_find_crossref_field` likewise. -/
theorem C14_u_is_ascii (bibData : Option BibData) (visited : List Str) (e : Entry) (name : Str) :
    Uni.findFieldLoop lower (bibData.map BibData.toU) visited e.toU name = findFieldLoop bibData visited e name ∧
    Uni.findFieldLoop lower (bibData.map BibData.toU) visited e.toU name = findField bibData visited e name ∧
    Uni.findCrossrefEntry lower (bibData.map BibData.toU) visited e.toU =
      (findCrossrefEntry bibData visited e).map (fun r => (r.1.toU, r.2)) ∧
    Uni.findCrossrefField lower (bibData.map BibData.toU) visited e.toU name =
      findCrossrefField bibData visited e name := by
  refine ⟨findFieldLoop_toU _ _ _ _, ?_, findCrossrefEntry_toU _ _ _, ?_⟩
  · rw [findFieldLoop_toU, findFieldLoop_eq_findField]
  · unfold Uni.findCrossrefField findCrossrefField
    rw [findCrossrefEntry_toU]
    cases findCrossrefEntry bibData visited e with
    | none => rfl
    | some r => exact findFieldLoop_toU _ _ _ _

/-- the translation is not degenerate: the round-1 example database translated, looked up with the
Unicode-generic loop -/
theorem C14_u_is_ascii_nonvacuous :
    Uni.CIDict.len db.toU = 7 ∧
    Uni.findFieldLoop lower (some db.toU) [] (get db "child").toU (s "year") = some (s "1984") ∧
    Uni.findFieldLoop lower (some db.toU) [] (get db "child").toU (s "NOTE") = some (s "pn") ∧
    Uni.findFieldLoop lower (some db.toU) [] (get db "m1").toU (s "note") = none ∧
    Uni.findFieldLoop lower (some db.toU) [s "grand"] (get db "child").toU (s "year") = none ∧
    (Uni.findCrossrefEntry lower (some db.toU) [] (get db "child").toU).map (fun r => (r.1.key, r.2)) =
      some (s "Parent", [s "parent"]) := by decide +kernel

/-- The translation is onto, so "every database both models can represent" is every database of
either: every value of the Unicode types is the translation of an ASCII-model value (`toA`: empty
entry type, no filter, no citations), and the Unicode-generic loop with `lower` on ANY `UDb` value,
entry, visited set and name is the ASCII loop (and the recursive `findField`) on the values
translated back. -/
theorem C14_translation_onto (udb : Uni.UDb) (ue : Uni.UEntry) (visited : List Str) (name : Str) :
    (Uni.UDb.toA udb).toU = udb ∧ ue.toA.toU = ue ∧
    Uni.findFieldLoop lower (some udb) visited ue name = findFieldLoop (some (Uni.UDb.toA udb)) visited ue.toA name ∧
    Uni.findFieldLoop lower (some udb) visited ue name = findField (some (Uni.UDb.toA udb)) visited ue.toA name ∧
    Uni.findFieldLoop lower none visited ue name = findFieldLoop none visited ue.toA name := by
  have h := findFieldLoop_toU (some (Uni.UDb.toA udb)) visited ue.toA name
  rw [Option.map_some, Uni.UDb.toU_toA, Uni.UEntry.toU_toA] at h
  refine ⟨Uni.UDb.toU_toA udb, rfl, h, ?_, ?_⟩
  · rw [h, findFieldLoop_eq_findField]
  · exact findFieldLoop_toU none visited ue.toA name

/-- Inheritance and walk-length independence for the ASCII model with NO hypothesis (round 1:
`C14_inherits_nearest` / `C14_terminates`, conjunct 1, under `DbWF db`, `EntryWF e`): for every
`BibData` value and entry, what the entry API / `Field.value` / the `field` node look up
(`e.findField name (some db)`, and the loop) is the reference walk `lookupU lower` of
`Spec/CrossrefU.lean` over the translated database — first entry along `entries[crossref]` that
defines the name as field or role, `len(db)+1` entries walked — and every longer walk gives the
same.  (The reference is `lookupU`, which asks the containers through `getItem` only; that it is
also the table-free `Spec.lookup` of round 1 needs `DbWF`: `C14_specs_agree`.) -/
theorem C14_inherits_nearest_nohyp (db : BibData) (e : Entry) (name : Str) :
    e.findField name (some db) = Uni.lookupU lower db.toU e.toU name ∧
    findFieldLoop (some db) [] e name = Uni.lookupU lower db.toU e.toU name ∧
    (∀ n, db.entries.len + 1 ≤ n →
      e.findField name (some db) = (Uni.walkU lower db.toU n e.toU).findSome? (Uni.UEntry.own lower · name)) := by
  have hb := (C14_u_is_ascii (some db) [] e name)
  have hu := C14_u_inherits_nearest lower db.toU e.toU name
  rw [Option.map_some] at hb
  refine ⟨?_, ?_, ?_⟩
  · show findField (some db) [] e name = _
    rw [← hb.2.1]; exact hu.1
  · rw [← hb.1]; exact hu.1
  · intro n hn
    show findField (some db) [] e name = _
    rw [← hb.2.1]
    exact hu.2 n (by rw [BibData.len_toU]; exact hn)

/-- a database value that is NOT well-formed (the key table lost, one slot stored under a key that
is not lower-case): the hypothesis-free theorem still speaks about it -/
theorem C14_inherits_nearest_nohyp_nonvacuous :
    let bad : BibData := ⟨⟨[(s "P", entry [("note", "pn")] []), (s "p", entry [("note", "second")] [])], []⟩, none, CISet.empty⟩
    ¬ DbWF bad ∧
    (entry [("crossref", "P")] []).findField (s "note") (some bad) = some (s "second") ∧
    Uni.lookupU lower bad.toU (entry [("crossref", "P")] []).toU (s "note") = some (s "second") := by
  decide +kernel

/-- The two reference lookups agree: on a well-formed database (`DbWF db`) and entry (`EntryWF e`)
the walk over the translated Unicode-generic containers (`lookupU lower`, round 2) is the walk over
the table-free abstraction `db.toS` (`Spec.lookup`, round 1).  So the hypothesis-free Unicode
theorems (`C14_u_*`), read at `norm := lower` through the translation, and the round-1 theorems
talk about the same reference value. -/
theorem C14_specs_agree (db : BibData) (hdb : DbWF db) (e : Entry) (he : EntryWF e) (name : Str) :
    Uni.lookupU lower db.toU e.toU name = lookup db.toS e.toS name := by
  rw [← (C14_inherits_nearest_nohyp db e name).1]
  exact C14_inherits_nearest db hdb e he name

theorem C14_specs_agree_nonvacuous :
    DbWF db ∧ EntryWF (get db "child") ∧
    Uni.lookupU lower db.toU (get db "child").toU (s "author") = some (s "G, A") ∧
    lookup db.toS (get db "child").toS (s "author") = some (s "G, A") ∧
    Uni.lookupU lower db.toU (get db "m1").toU (s "note") = none := by decide +kernel

/-- … and `DbWF` cannot be dropped there: on the database value of
`C14_inherits_nearest_nohyp_nonvacuous` (key table lost, so the abstraction `toS` is empty) the code
model and `lookupU` find the value, `Spec.lookup` over `toS` does not.  The hypotheses of the
round-1 theorems are needed by the abstraction `toS`, not by the lookup. -/
theorem C14_specs_agree_neg :
    let bad : BibData := ⟨⟨[(s "P", entry [("note", "pn")] []), (s "p", entry [("note", "second")] [])], []⟩, none, CISet.empty⟩
    let e := entry [("crossref", "P")] []
    ¬ DbWF bad ∧ EntryWF e ∧
    Uni.lookupU lower bad.toU e.toU (s "note") = some (s "second") ∧
    e.findField (s "note") (some bad) = some (s "second") ∧
    lookup bad.toS e.toS (s "note") = none := by
  decide +kernel

/-- The `visited` parameter and "missing", for the ASCII model with NO hypothesis (round 1:
`C14_visited_only_cuts` (2), `C14_missing_iff` (1) under `DbWF` / `EntryWF`): for every `BibData`
value, entry, name and visited set, a value `_find_field` returns with ANY visited set is the
reference value `lookupU lower` of the translated database, and the lookup from the empty set is
missing iff no entry of the reference walk defines the name.  (The Unicode theorems
`C14_u_visited_only_cuts`, `C14_u_own_missing_dangling` carried over by `C14_u_is_ascii`.) -/
theorem C14_visited_missing_nohyp (db : BibData) (e : Entry) (name : Str) (V' : List Str) (v : Str) :
    (findFieldLoop (some db) V' e name = some v → Uni.lookupU lower db.toU e.toU name = some v) ∧
    (e.findField name (some db) = none ↔
      ∀ q ∈ Uni.walkU lower db.toU (db.entries.len + 1) e.toU, q.own lower name = none) := by
  constructor
  · intro h
    rw [← (C14_u_is_ascii (some db) V' e name).1, Option.map_some] at h
    exact (C14_u_visited_only_cuts lower db.toU e.toU name V' v).2 h
  · have h := (C14_u_own_missing_dangling lower db.toU e.toU name).2.2.1
    have hb := (C14_u_is_ascii (some db) [] e name).2.1
    rw [Option.map_some] at hb
    rw [hb, BibData.len_toU] at h
    exact h

theorem C14_visited_missing_nohyp_nonvacuous :
    findFieldLoop (some db) [s "zz"] (get db "child") (s "year") = some (s "1984") ∧
    Uni.lookupU lower db.toU (get db "child").toU (s "year") = some (s "1984") ∧
    findFieldLoop (some db) [s "grand"] (get db "child") (s "year") = none ∧
    (get db "m1").findField (s "note") (some db) = none ∧
    (Uni.walkU lower db.toU (db.entries.len + 1) (get db "m1").toU).map (·.key) =
      [s "m1", s "m2", s "m1", s "m2", s "m1", s "m2", s "m1", s "m2"] := by decide +kernel

/-- The hop bound for the LOOP model (round 1 had it for the recursive `findFieldHops` under
`DbWF`): for every key normaliser, database value, visited set, entry and name, the loop
instrumented with a counter (`Uni.findFieldLoopHops`, `Lemmas/CrossrefBridge.lean`: the same loop —
conjunct 1 — counting the turns that take a `_find_crossref_entry` step) takes at most as many
steps as the database has entries; without a database none.  At `norm := lower` its counter IS the
round-1 counter on every ASCII-model database (conjunct 4), so `findFieldHops` obeys the bound for
every `BibData` value and every visited set, without `DbWF` (conjunct 5). -/
theorem C14_loop_hop_bound (norm : Str → Str) (udb : Uni.UDb) (visited : List Str) (ue : Uni.UEntry) (name : Str)
    (bibData : Option BibData) (db : BibData) (e : Entry) :
    (∀ bd, (Uni.findFieldLoopHops norm bd visited ue name).1 = Uni.findFieldLoop norm bd visited ue name) ∧
    (Uni.findFieldLoopHops norm (some udb) visited ue name).2 ≤ Uni.CIDict.len udb ∧
    (Uni.findFieldLoopHops norm none visited ue name).2 = 0 ∧
    Uni.findFieldLoopHops lower (bibData.map BibData.toU) visited e.toU name = findFieldHops bibData visited e name ∧
    (findFieldHops (some db) visited e name).2 ≤ db.entries.len := by
  have hle : ∀ (u : Uni.UDb) (x : Uni.UEntry),
      (Uni.findFieldLoopHops norm (some u) visited x name).2 ≤ Uni.CIDict.len u := fun u x =>
    Nat.le_trans (Uni.findFieldLoopHops_le norm (some u) visited x name) (Uni.unvisited_le_length _ _)
  refine ⟨fun bd => Uni.findFieldLoopHops_fst norm bd visited ue name, hle udb ue, ?_,
    findFieldLoopHops_toU _ _ _ _, ?_⟩
  · exact Nat.le_zero.1 (Uni.findFieldLoopHops_le norm none visited ue name)
  · rw [← findFieldLoopHops_toU (some db) visited e name, Option.map_some, ← BibData.len_toU]
    exact Nat.le_trans (Uni.findFieldLoopHops_le lower (some db.toU) visited e.toU name)
      (Uni.unvisited_le_length _ _)

/-- the bound is met: a cycle through every entry of a two-entry database, asked for a name nobody
defines, takes 2 = `len(db)` steps (Unicode keys, `str.lower()` of the interpreter); the round-1
database: 2 steps up the chain, 2 round the cycle `m1 ⇄ m2`, 1 on the self reference -/
theorem C14_loop_hop_bound_nonvacuous :
    let cyc : Uni.UDb := (Uni.addEntries lowerPy Uni.CIDict.empty [
      (s "İ", Uni.UEntry.ofPairs lowerPy [(s "crossref", s "k")] []),
      (s "K", Uni.UEntry.ofPairs lowerPy [(s "CROSSREF", s "i\u0307")] [])]).1
    Uni.CIDict.len cyc = 2 ∧
    (Uni.CIDict.getItem lowerPy cyc (s "i\u0307")).map (fun x => Uni.findFieldLoopHops lowerPy (some cyc) [] x (s "year")) = some (none, 2) ∧
    Uni.findFieldLoopHops lower (some db.toU) [] (get db "child").toU (s "year") = (some (s "1984"), 2) ∧
    Uni.findFieldLoopHops lower (some db.toU) [] (get db "m1").toU (s "note") = (none, 2) ∧
    Uni.findFieldLoopHops lower (some db.toU) [] (get db "self").toU (s "year") = (none, 1) ∧
    Uni.findFieldLoopHops lower (some db.toU) [s "grand"] (get db "child").toU (s "year") = (none, 1) := by
  decide +kernel

end Pybtex.Props
