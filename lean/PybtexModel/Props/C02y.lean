/-
C02 (theorem round) — the chain / lower-casing / nothing-reported theorems on the wider BibTeX
domain `WFDbP` (percent signs — TeX comments — in the preamble), `Lemmas/BibWriteChainPct.lean`.

`inDomainP f` is `inDomain f` with `WFDbP` in place of `WFDb` for BibTeX (YAML / BibTeXML unchanged);
it contains `inDomain f` (`C02_domain_percent_wider`).

* `C02_bibtex_roundtrip_percent_any`  `C02_bibtex_roundtrip_percent` for ANY encoder that leaves the strings
                                      free of `# % & _ ~` alone (the hypothesis of `C02_bibtex_roundtrip`)
* `C02_chain_percent`                 `C02_chain` on `inDomainP`
* `C02_lower_percent`                 `C02_lower` on `inDomainP`
* `C02_chain_steps_percent`           `C02_chain_steps` on `inDomainP`
* `C02_chain_percent_latex`           the three with the modelled encoder `encodeLatex`: no encoder hypothesis left
* `C02_domain_percent_wider`          `inDomain f d → inDomainP f d`, equal for YAML / BibTeXML, strictly wider for BibTeX

Hop hypotheses that REMAIN: per written tree `LosslessOn` for the YAML / XML library (nothing for
BibTeX hops); in the general statements the encoder hypothesis `∀ s, Safe s → S.encode s = s`
(discharged for `encodeLatex` in `C02_chain_percent_latex`).  NOT covered: `# & _ ~` anywhere, `%`
in field values or names (finding `C02-five-characters`).
-/
import PybtexModel.Props.C02x
import PybtexModel.Lemmas.BibWriteChainPct

namespace Pybtex.Props
open Pybtex Pybtex.Spec Pybtex.Bib Pybtex.BibSpec Pybtex.BibWrite Pybtex.C02

/-- the entries of `c02Db` (fields, persons, mixed-case identifiers) under a preamble with TeX comments -/
def c02DbPctFull : BibData := { entries := c02Db.entries, preamble := c02DbPct.preamble }

/-- **The wider domain contains the claimed one**, is the same for YAML / BibTeXML and strictly
wider for BibTeX (a preamble with `%`). -/
theorem C02_domain_percent_wider :
    (∀ f d, inDomain f d = true → inDomainP f d = true) ∧
    (∀ d, inDomainP .yaml d = inDomain .yaml d ∧ inDomainP .bibtexml d = inDomain .bibtexml d) ∧
    (∀ d, inDomainP .bibtex d = WFDbP d) ∧
    inDomainP .bibtex c02DbPctFull = true ∧ inDomain .bibtex c02DbPctFull = false :=
  ⟨fun _ _ h => inDomainP_of_inDomain h, fun _ => ⟨rfl, rfl⟩, fun _ => rfl, by decide +kernel, by decide +kernel⟩

/-- **BibTeX round trip on `WFDbP`, any encoder**: `C02_bibtex_roundtrip_percent` with the encoder a
parameter — ANY function that leaves the strings free of `# % & _ ~` unchanged (the hypothesis of
`C02_bibtex_roundtrip`; `_encode_with_comments` splits the preamble at `%`, so its pieces are such
strings).  For every database of `WFDbP` the writer succeeds and the `.bib` reader reads the text
back with nothing raised or reported as the same entries and the same preamble (one string). -/
theorem C02_bibtex_roundtrip_percent_any (encode : Str → Str) (henc : ∀ s, Safe s = true → encode s = s)
    (d : BibData) (h : WFDbP d = true) (strict : Bool) :
    ∃ text, writeStream encode d = .ok text ∧
      (parseBib text strict none).2 = none ∧ (parseBib text strict none).1.errs = [] ∧
      (parseBib text strict none).1.db.entries = d.entries ∧
      (parseBib text strict none).1.db.preamble = canonPreamble d ∧
      ((parseBib text strict none).1.db.preamble).flatten = d.preambleText := by
  obtain ⟨text, s', h1, h2, h3, h4, h5⟩ := parseBib_written_pctE henc d h strict
  refine ⟨text, h1, ?_⟩
  rw [h2]
  exact ⟨rfl, h3, h4, h5, by rw [h5]; exact canonPreamble_text d⟩

theorem C02_bibtex_roundtrip_percent_any_nonvacuous :
    WFDbP c02DbPctFull = true ∧ WFDb c02DbPctFull = false ∧ (∀ s, Safe s = true → id s = s) ∧
    (∃ t, writeStream id c02DbPctFull = .ok t ∧ writeStream encodeLatex c02DbPctFull = .ok t) := by
  refine ⟨by decide +kernel, by decide +kernel, fun _ _ => rfl, ?_⟩
  obtain ⟨t, ht, _⟩ := C02_bibtex_roundtrip_percent_any id (fun _ _ => rfl) c02DbPctFull (by decide +kernel) false
  exact ⟨t, ht, by rw [← ht]; decide +kernel⟩

/-- **Chains on the wider domain.**  `C02_chain` with `inDomainP` in place of `inDomain`: for ANY
list of formats such that the database lies in the domain of each — for BibTeX the domain `WFDbP`,
whose preamble may contain `%` — with an encoder that leaves `# % & _ ~`-free strings alone and
serialisers lossless on the trees written ALONG THIS CHAIN (`stages true fs d`), writing in the first
format, converting from each format to the next (`preserve_case = True`) and reading the last text
back ends with the entries it started from; the preamble comes back as one string (percent signs
included) and is lost exactly when BibTeXML is on the way. -/
theorem C02_chain_percent (S : Serial) (henc : ∀ s, Safe s = true → S.encode s = s)
    (fs : List Fmt) (d : BibData) (h : ∀ f ∈ fs, inDomainP f d = true)
    (hL : ∀ p ∈ stages true fs d, LosslessOn S p.1 p.2) :
    chain S true fs d = .ok (chainDb fs d) := by
  rw [(chainDomP henc).chain_true fs d h hL, fold_canonFor]

theorem C02_chain_percent_nonvacuous :
    (∀ f ∈ [Fmt.bibtex, Fmt.yaml, Fmt.bibtex, Fmt.bibtexml, Fmt.bibtex], inDomainP f c02DbPctFull = true) ∧
    inDomain .bibtex c02DbPctFull = false ∧
    (chainDb [Fmt.bibtex, Fmt.yaml, Fmt.bibtex] c02DbPctFull).preamble =
      ["\\newcommand{\\x}{y} % a comment 50% off %% z".toList] ∧
    (chainDb [Fmt.bibtex, Fmt.bibtexml, Fmt.bibtex] c02DbPctFull).preamble = [] ∧
    chain c02LatexSerial true [.bibtex, .yaml, .bibtex] c02DbPctFull =
      .ok (chainDb [.bibtex, .yaml, .bibtex] c02DbPctFull) := by
  have hdom : ∀ f ∈ [Fmt.bibtex, Fmt.yaml, Fmt.bibtex, Fmt.bibtexml, Fmt.bibtex],
      inDomainP f c02DbPctFull = true := by decide +kernel
  refine ⟨hdom, by decide +kernel, by decide +kernel, by decide +kernel, ?_⟩
  refine C02_chain_percent c02LatexSerial (fun s hs => encodeLatexAux_safe s hs) _ c02DbPctFull
    (by decide +kernel) (fun p _ => ?_)
  exact losslessOn_of_all (S := c02LatexSerial) Ser.loadY_dumpY Ser.loadX_dumpX p.1 p.2

/-- **Lower-casing on the wider domain.**  `C02_lower` with `inDomainP`: with `preserve_case = False`
(at least two formats) the chain ends with the entries of `lowerSpec d` — keys, entry types, field
names and role names lower-cased, nothing else touched — and the same preamble as without
lower-casing (percent signs included). -/
theorem C02_lower_percent (S : Serial) (henc : ∀ s, Safe s = true → S.encode s = s)
    (f1 f2 : Fmt) (fs : List Fmt) (d : BibData) (h : ∀ f ∈ f1 :: f2 :: fs, inDomainP f d = true)
    (hL : ∀ p ∈ stages false (f1 :: f2 :: fs) d, LosslessOn S p.1 p.2) :
    ∃ d', chain S false (f1 :: f2 :: fs) d = .ok d' ∧ d'.entries = (lowerSpec d).entries ∧
      d'.preamble = (chainDb (f1 :: f2 :: fs) d).preamble :=
  (chainDomP henc).chain_false f1 f2 fs d h hL

theorem C02_lower_percent_nonvacuous :
    (∀ f ∈ [Fmt.yaml, Fmt.bibtex, Fmt.bibtex], inDomainP f c02DbPctFull = true) ∧
    inDomain .bibtex c02DbPctFull = false ∧
    (lowerSpec c02DbPctFull).entries.map (fun e => (e.key, e.origType, e.fields.map (·.1), e.persons.map (·.1))) =
      [("knuth:84".toList, "article".toList, ["title".toList, "note".toList, "year".toList],
        ["author".toList, "editor".toList]), ("k2".toList, "misc".toList, [], [])] ∧
    (lowerSpec c02DbPctFull).entries.map (·.key) ≠ c02DbPctFull.entries.map (·.key) ∧
    (chainDb [Fmt.yaml, Fmt.bibtex, Fmt.bibtex] c02DbPctFull).preamble =
      ["\\newcommand{\\x}{y} % a comment 50% off %% z".toList] := by
  decide +kernel

/-- **Nothing is reported on the way, wider domain.**  `C02_chain_steps` with `inDomainP` (both
`preserve_case` modes): every step is written without error and read back with NOTHING reported,
`lower()` reports nothing, and the database read at each step is `canonFor` of the one written. -/
theorem C02_chain_steps_percent (S : Serial) (henc : ∀ s, Safe s = true → S.encode s = s) (preserveCase : Bool)
    (fs : List Fmt) (d : BibData) (h : ∀ f ∈ fs, inDomainP f d = true)
    (hL : ∀ p ∈ stages preserveCase fs d, LosslessOn S p.1 p.2) :
    (chainLog S preserveCase fs d).map (·.1) = chain S preserveCase fs d ∧
    ∃ d', chainLog S preserveCase fs d =
        .ok (d', (stages preserveCase fs d).map fun p => (cleanRead (canonFor p.1 p.2), [])) ∧
      chain S preserveCase fs d = .ok d' :=
  ⟨chainLog_db S preserveCase fs d, (chainDomP henc).chainLog_clean preserveCase fs d h hL⟩

/-- the serialiser `c02Picky` (refuses U+0085, not lossless on every tree) is lossless on every tree
written along a chain from the percent-sign database, in both modes, and the chain is five steps long -/
theorem C02_chain_steps_percent_nonvacuous :
    (∀ pc, ∀ p ∈ stages pc [.bibtex, .yaml, .bibtex, .bibtexml, .bibtex] c02DbPctFull,
      LosslessOn c02Picky p.1 p.2) ∧
    (∀ f ∈ [Fmt.bibtex, Fmt.yaml, Fmt.bibtex, Fmt.bibtexml, Fmt.bibtex], inDomainP f c02DbPctFull = true) ∧
    (∀ pc, (stages pc [.bibtex, .yaml, .bibtex, .bibtexml, .bibtex] c02DbPctFull).length = 5) := by
  refine ⟨fun pc p hp => ?_, by decide +kernel, by decide +kernel⟩
  apply c02Picky_on
  have hall : ∀ pc, (stages pc [.bibtex, .yaml, .bibtex, .bibtexml, .bibtex] c02DbPctFull).all
      (fun p => c02NoNel p.1 p.2) = true := by decide +kernel
  exact (List.all_eq_true.1 (hall pc)) p hp

/-- **The three with the modelled encoder** (`C02_chain_latex` shape on the wider domain): for every
`Serial` whose `encode` is `encodeLatex` — the model of `codecs.encode(text, 'ulatex+utf-8')` — no
hypothesis about the encoder is left in `C02_chain_percent`, `C02_lower_percent` and
`C02_chain_steps_percent`; what remains per hop is `LosslessOn` for the YAML / XML library on the
trees written along the chain. -/
theorem C02_chain_percent_latex (S : Serial) (hS : S.encode = encodeLatex) :
    (∀ (fs : List Fmt) (d : BibData), (∀ f ∈ fs, inDomainP f d = true) →
      (∀ p ∈ stages true fs d, LosslessOn S p.1 p.2) → chain S true fs d = .ok (chainDb fs d)) ∧
    (∀ (f1 f2 : Fmt) (fs : List Fmt) (d : BibData), (∀ f ∈ f1 :: f2 :: fs, inDomainP f d = true) →
      (∀ p ∈ stages false (f1 :: f2 :: fs) d, LosslessOn S p.1 p.2) →
      ∃ d', chain S false (f1 :: f2 :: fs) d = .ok d' ∧ d'.entries = (lowerSpec d).entries ∧
        d'.preamble = (chainDb (f1 :: f2 :: fs) d).preamble) ∧
    (∀ (pc : Bool) (fs : List Fmt) (d : BibData), (∀ f ∈ fs, inDomainP f d = true) →
      (∀ p ∈ stages pc fs d, LosslessOn S p.1 p.2) →
      ∃ d', chainLog S pc fs d =
          .ok (d', (stages pc fs d).map fun p => (cleanRead (canonFor p.1 p.2), [])) ∧
        chain S pc fs d = .ok d') := by
  have henc : ∀ s, Safe s = true → S.encode s = s := fun s hs => by rw [hS]; exact encodeLatexAux_safe s hs
  exact ⟨fun fs d h hL => C02_chain_percent S henc fs d h hL,
    fun f1 f2 fs d h hL => C02_lower_percent S henc f1 f2 fs d h hL,
    fun pc fs d h hL => (C02_chain_steps_percent S henc pc fs d h hL).2⟩

theorem C02_chain_percent_latex_nonvacuous :
    c02LatexSerial.encode = encodeLatex ∧
    chain c02LatexSerial true [.bibtex, .yaml, .bibtex, .bibtexml, .bibtex] c02DbPctFull =
      .ok (chainDb [.bibtex, .yaml, .bibtex, .bibtexml, .bibtex] c02DbPctFull) ∧
    (∃ d', chain c02LatexSerial false [.yaml, .bibtex, .bibtex] c02DbPctFull = .ok d' ∧
      d'.entries = (lowerSpec c02DbPctFull).entries ∧
      d'.preamble = ["\\newcommand{\\x}{y} % a comment 50% off %% z".toList]) := by
  have hall : ∀ pc fs, ∀ p ∈ stages pc fs c02DbPctFull, LosslessOn c02LatexSerial p.1 p.2 :=
    fun _ _ p _ => losslessOn_of_all (S := c02LatexSerial) Ser.loadY_dumpY Ser.loadX_dumpX p.1 p.2
  obtain ⟨hc, hl, _⟩ := C02_chain_percent_latex c02LatexSerial rfl
  refine ⟨rfl, hc _ c02DbPctFull (by decide +kernel) (hall true _), ?_⟩
  obtain ⟨d', a, b, c⟩ := hl .yaml .bibtex [.bibtex] c02DbPctFull (by decide +kernel) (hall false _)
  exact ⟨d', a, b, by rw [c]; decide +kernel⟩

end Pybtex.Props
