/-
C17 (extension) — property theorems about `Model/IOArgs.lean`:
the `file` argument of the module-level functions (§6), `pybtex.io._open` in a world where `io.open` /
`Popen` may raise exceptions that are not `EnvironmentError`s (§7), the `isinstance` guards (§8).
-/
import PybtexModel.Lemmas.IOArgs
import PybtexModel.Props.C17

namespace Pybtex.Props
open Pybtex Pybtex.IO

/-! ## §6  which file name the format is guessed from -/

/-- **`parse_file(file)` / `to_file(file)` guess the format from a `str` name only** (code with fix C17-x1).
For every installed table, registry and format argument:
a file-like object whose `name` is the string `p` selects what the path `p` itself selects (and that is
`find_plugin(group, format, filename=p)`) `[model wiring]`;
a `bytes` path and a file-like object whose `name` is absent, a `bytes` object or an `int` (a descriptor
number) select what an unnamed stream selects, `find_plugin(group, format)` — for readers and writers. -/
theorem C17_module_file_argument (tbl : Installed) (defaults : List (Str × Str)) (R : Registry) (fmt : NameArg) :
    (∀ p, moduleReaderFor tbl defaults R fmt (.fileLike (.str p)) = moduleReaderFor tbl defaults R fmt (.strPath p) ∧
          moduleReaderFor tbl defaults R fmt (.strPath p) = readerFor tbl defaults R fmt (some p) ∧
          moduleWriterFor tbl defaults R fmt (.fileLike (.str p)) = moduleWriterFor tbl defaults R fmt (.strPath p) ∧
          moduleWriterFor tbl defaults R fmt (.strPath p) = writerFor tbl defaults R fmt (some p)) ∧
    (∀ f, (match f with
            | .strPath _ => False
            | .fileLike (.str _) => False
            | _ => True) →
          moduleReaderFor tbl defaults R fmt f = readerFor tbl defaults R fmt none ∧
          moduleWriterFor tbl defaults R fmt f = writerFor tbl defaults R fmt none) := by
  refine ⟨fun p => ⟨rfl, rfl, rfl, rfl⟩, ?_⟩
  intro f hf
  cases f with
  | strPath p => exact absurd hf id
  | bytesPath b => exact ⟨rfl, rfl⟩
  | fileLike n =>
    cases n with
    | str s => exact absurd hf id
    | absent => exact ⟨rfl, rfl⟩
    | bytes b => exact ⟨rfl, rfl⟩
    | int n => exact ⟨rfl, rfl⟩

/-- **Over the regenerated tables: a stream without a usable name is read and written as BibTeX, a named one
by its suffix.**  With no format given, every `bytes` path and every file-like object whose `name` is absent,
`bytes` or an `int` — whatever the number — gets the default plug-in, the class the name `bibtex` selects, and
never an error; and a file-like object named `dir/stem.sfx` gets, for every installed suffix entry, the class
registered for the suffix, which some format name selects too. -/
theorem C17_module_file_argument_tables :
    (∀ f, moduleFileName f = none →
        moduleReaderFor Gen.installedPlugins Gen.defaultPlugins [] .none f
          = .ok "pybtex.database.input.bibtex:Parser".toList ∧
        moduleReaderFor Gen.installedPlugins Gen.defaultPlugins [] .none f
          = readerFor Gen.installedPlugins Gen.defaultPlugins [] (.str "bibtex".toList) none ∧
        moduleWriterFor Gen.installedPlugins Gen.defaultPlugins [] .none f
          = .ok "pybtex.database.output.bibtex:Writer".toList ∧
        moduleWriterFor Gen.installedPlugins Gen.defaultPlugins [] .none f
          = writerFor Gen.installedPlugins Gen.defaultPlugins [] (.str "bibtex".toList) none) ∧
    (∀ b, moduleFileName (.bytesPath b) = none) ∧
    (∀ b, moduleFileName (.fileLike (.bytes b)) = none) ∧
    (∀ n, moduleFileName (.fileLike (.int n)) = none) ∧
    moduleFileName (.fileLike .absent) = none ∧
    (∀ sfx k, ("pybtex.database.input.suffixes".toList, sfx, k) ∈ Gen.installedPlugins →
        ∃ n, readerFor Gen.installedPlugins Gen.defaultPlugins [] (.str n) none = .ok k ∧
          ∀ dir stem, goodDir dir = true → goodStem stem = true →
            moduleReaderFor Gen.installedPlugins Gen.defaultPlugins [] .none (.fileLike (.str (dir ++ stem ++ sfx))) = .ok k) ∧
    (∀ sfx k, ("pybtex.database.output.suffixes".toList, sfx, k) ∈ Gen.installedPlugins →
        ∃ n, writerFor Gen.installedPlugins Gen.defaultPlugins [] (.str n) none = .ok k ∧
          ∀ dir stem, goodDir dir = true → goodStem stem = true →
            moduleWriterFor Gen.installedPlugins Gen.defaultPlugins [] .none (.fileLike (.str (dir ++ stem ++ sfx))) = .ok k) := by
  refine ⟨?_, fun _ => rfl, fun _ => rfl, fun _ => rfl, rfl, C17_module_functions.2.2.1, C17_module_functions.2.2.2⟩
  intro f hf
  have hr : readerFor Gen.installedPlugins Gen.defaultPlugins [] .none none
      = .ok "pybtex.database.input.bibtex:Parser".toList := by decide +kernel
  have hw : writerFor Gen.installedPlugins Gen.defaultPlugins [] .none none
      = .ok "pybtex.database.output.bibtex:Writer".toList := by decide +kernel
  simp only [moduleReaderFor, moduleWriterFor, hf]
  exact ⟨hr, C17_module_functions.2.1.1, hw, C17_module_functions.2.1.2⟩

theorem C17_module_file_argument_nonvacuous :
    moduleReaderFor Gen.installedPlugins Gen.defaultPlugins [] .none (.fileLike (.int 3))
      = .ok "pybtex.database.input.bibtex:Parser".toList ∧
    moduleWriterFor Gen.installedPlugins Gen.defaultPlugins [] .none (.fileLike (.bytes [120, 46, 121, 97, 109, 108]))
      = .ok "pybtex.database.output.bibtex:Writer".toList ∧
    moduleReaderFor Gen.installedPlugins Gen.defaultPlugins [] .none (.fileLike (.str "d/x.yaml".toList))
      = .ok "pybtex.database.input.bibyaml:Parser".toList ∧
    moduleReaderFor Gen.installedPlugins Gen.defaultPlugins [] (.str "bibtexml".toList) (.fileLike (.int 0))
      = .ok "pybtex.database.input.bibtexml:Parser".toList ∧
    moduleReaderFor Gen.installedPlugins Gen.defaultPlugins [] .none (.strPath "x.unknown".toList)
      = .error (.notFound "pybtex.database.input.suffixes".toList ".unknown".toList) := by
  decide +kernel

/-! ## §7  exceptions that are not `EnvironmentError`s -/

/-- **The restricted world is a special case of the general one.**  When every failure of `io.open` and of
starting `kpsewhich` is an `EnvironmentError` (`Env.toX`), `_open` in the general model does what the model
of `C17_open_faults` / `C17_kpsewhich` does: same attempts in the same order, same handle, same
`PybtexError`.  Every theorem about `pyOpen` is therefore a theorem about `pyOpenX` on such worlds. -/
theorem C17_open_general_refines {H S X : Type} (env : Env H) (file : FileArg S) (mode : Str) (kw : Option Str) :
    pyOpenX (X := X) env.toX file mode kw = ((pyOpen env file mode kw).1, liftOpened (pyOpen env file mode kw).2) := by
  cases file with
  | stream s => rfl
  | path p =>
    simp only [pyOpenX, pyOpen]
    by_cases hw : mode.contains 'w' = true
    · simp only [hw, if_true, openOrCreateX, openOrCreate, Env.toX]
      cases h1 : env.opener (.str p) mode kw with
      | ok h => simp [liftOpened]
      | error e =>
        simp only
        cases hd : dget env.environ "TEXMFOUTPUT".toList with
        | none => simp [liftOpened]
        | some dir =>
          simp only
          cases h2 : env.opener (.str (posixJoin dir p)) mode kw with
          | ok h => simp [liftOpened]
          | error e2 => simp [liftOpened]
    · simp only [hw, openExistingX, openExisting, Env.toX, kpsewhichX, kpsewhich]
      by_cases hf : env.isFile p = true
      · simp only [hf, if_true]
        cases h1 : env.opener (.str p) mode kw with
        | ok h => simp [liftOpened]
        | error e => simp [liftOpened]
      · simp only [hf]
        cases hk : env.runKpsewhich p with
        | error e => simp [liftOpened]
        | ok r =>
          obtain ⟨rc, out⟩ := r
          simp only
          by_cases hrc : rc = 0
          · simp only [hrc, if_true]
            by_cases hq : (rstripBytes out).isEmpty = true
            · simp only [hq, if_true]
              cases h1 : env.opener (.str p) mode kw with
              | ok h => simp [liftOpened]
              | error e => simp [liftOpened]
            · simp only [hq]
              cases h1 : env.opener (.bytes (rstripBytes out)) mode kw with
              | ok h => simp [liftOpened, h1]
              | error e => simp [liftOpened, h1]
          · simp only [hrc]
            cases h1 : env.opener (.str p) mode kw with
            | ok h => simp [liftOpened, h1]
            | error e => simp [liftOpened, h1]

/-- **An exception that is not an `EnvironmentError` leaves `pybtex.io` as it is, at the call that raised it.**
For EVERY world (`io.open` and `Popen` may raise anything):
(1) a `PybtexError` built by `_open` always carries the name given, and is built only from an
    `EnvironmentError`; a file-like object passes through;
(2) writing: a foreign exception `x` at the first attempt leaves after that ONE attempt — no fall-back to
    `TEXMFOUTPUT`, set or not; an `EnvironmentError` first and `x` at the fall-back attempt: `x` leaves
    (not the `PybtexError` of the first failure), after the two attempts;
(3) reading: `x` from the one open call, or from starting `kpsewhich` (then nothing is opened), leaves;
(4) a foreign exception leaving `_open` was raised by the world: by an `io.open` call or by `Popen`. -/
theorem C17_open_foreign_exceptions {H S X : Type} (env : EnvX H X) (p : Path) (mode : Str) (kw : Option Str) :
    (∀ s : S, pyOpenX env (.stream s) mode kw = ([], .ok (.passthrough s))) ∧
    (∀ e, (pyOpenX (S := S) env (.path p) mode kw).2 = .error (.pybtex e) → e.filename = p) ∧
    (mode.contains 'w' = true →
      (∀ x, env.opener (.str p) mode kw = .error (.other x) →
        pyOpenX (S := S) env (.path p) mode kw = ([.tryOpen (.str p) mode kw], .error (.other x))) ∧
      (∀ e dir x, env.opener (.str p) mode kw = .error (.env e) →
        dget env.environ "TEXMFOUTPUT".toList = some dir →
        env.opener (.str (posixJoin dir p)) mode kw = .error (.other x) →
        pyOpenX (S := S) env (.path p) mode kw =
          ([.tryOpen (.str p) mode kw, .tryOpen (.str (posixJoin dir p)) mode kw], .error (.other x)))) ∧
    (mode.contains 'w' = false →
      (∀ x, env.isFile p = true → env.opener (.str p) mode kw = .error (.other x) →
        pyOpenX (S := S) env (.path p) mode kw = ([.tryOpen (.str p) mode kw], .error (.other x))) ∧
      (∀ x, env.isFile p = false → env.runKpsewhich p = .error (.other x) →
        pyOpenX (S := S) env (.path p) mode kw = ([.locate p], .error (.other x)))) ∧
    (∀ x, (pyOpenX (S := S) env (.path p) mode kw).2 = .error (.other x) →
      (∃ q, env.opener q mode kw = .error (.other x)) ∨ env.runKpsewhich p = .error (.other x)) := by
  refine ⟨fun _ => rfl, ?_, ?_, ?_, ?_⟩
  · intro e he
    simp only [pyOpenX] at he
    split at he
    · exact absurd he (by simp)
    · injection he with he; injection he with he; subst he; rfl
    · exact absurd he (by simp)
  · intro hw
    refine ⟨?_, ?_⟩
    · intro x h1
      simp only [pyOpenX, hw, ↓reduceIte, openOrCreateX, h1]
    · intro e dir x h1 hd h2
      simp only [pyOpenX, hw, ↓reduceIte, openOrCreateX, h1, hd, h2]
  · intro hw
    refine ⟨?_, ?_⟩
    · intro x hf h1
      simp only [pyOpenX, hw, Bool.false_eq_true, ↓reduceIte, openExistingX, hf, h1]
    · intro x hf hk
      simp only [pyOpenX, hw, Bool.false_eq_true, ↓reduceIte, openExistingX, hf, kpsewhichX, hk]
  · intro x hx
    exact pyOpenX_other env p mode kw x hx

theorem C17_open_foreign_exceptions_nonvacuous :
    pyOpenX (S := Unit) Toy.envX (.path "a.bbl".toList) ['w'] none =
      ([.tryOpen (.str "a.bbl".toList) ['w'] none, .tryOpen (.str "/out/a.bbl".toList) ['w'] none], .error (.other 7)) ∧
    pyOpenX (S := Unit) Toy.envX (.path "b.bbl".toList) ['w'] none =
      ([.tryOpen (.str "b.bbl".toList) ['w'] none], .error (.other 5)) ∧
    pyOpenX (S := Unit) Toy.envX (.path "k.bib".toList) ['r'] none = ([.locate "k.bib".toList], .error (.other 9)) ∧
    pyOpenX (S := Unit) Toy.envX (.path "a.bbl".toList) ['r'] none =
      ([.locate "a.bbl".toList, .tryOpen (.str "a.bbl".toList) ['r'] none],
        .error (.pybtex ⟨"a.bbl".toList, "Permission denied".toList⟩)) := by
  decide +kernel

/-! ## §8  the `isinstance` guards -/

/-- **A value of the wrong type is refused before anything is decoded or parsed; values of the right type
agree.**  `BaseParser.parse_string(bytes)` and `parse_bytes(str)` raise the `ValueError` with the message of
the source, whatever the core, codec and database are `[model wiring]`; on a `str` / `bytes` value they are
`parseString` / `parseBytes` `[model wiring]`; hence, IF `dec (enc s) = s`, `parse_bytes(enc s)` =
`parse_string(s)` for both `unicode_io` values of a class that overrides `parse_stream` only. -/
theorem C17_parse_guards {Db E : Type} (u : Bool) (k : ReaderKind) (clsName : Str)
    (core : ReaderCore Db E) (c : Codec) (data : Db) :
    (∀ b, parseStringAny u clsName core c data (.bytes b) = .error (.valueError (msgStringExpected clsName))) ∧
    (∀ s, parseBytesAny k clsName core c data (.str s) = .error (.valueError (msgBytesExpected clsName))) ∧
    (∀ s, parseStringAny u clsName core c data (.str s) = liftR (parseString (.base u) core c data s)) ∧
    (∀ b, parseBytesAny k clsName core c data (.bytes b) = liftR (parseBytes k core c data b)) ∧
    (∀ s, c.dec (c.enc s) = .ok s →
      parseBytesAny (.base u) clsName core c data (.bytes (c.enc s)) = parseStringAny u clsName core c data (.str s)) := by
  refine ⟨fun _ => rfl, fun _ => rfl, fun _ => rfl, fun _ => rfl, ?_⟩
  intro s hs
  cases u with
  | true => simp [parseBytesAny, parseStringAny, parseBytes, ReaderKind.unicodeIO, hs]
  | false => simp [parseBytesAny, parseStringAny, parseBytes, parseString, ReaderKind.unicodeIO]

theorem C17_parse_guards_nonvacuous :
    parseStringAny true "Parser".toList Toy.reader Toy.codec [] (.bytes [120]) =
      .error (.valueError "unicode string expected. Use Parser.parse_bytes() to parse bytes".toList) ∧
    parseBytesAny (.base false) "Parser".toList Toy.reader Toy.codec [] (.str "x".toList) =
      .error (.valueError "bytes expected. Use Parser.parse_bytes() to parse unicode strings".toList) ∧
    parseBytesAny (.base true) "Parser".toList Toy.reader Toy.codec [] (.bytes [120]) =
      parseStringAny true "Parser".toList Toy.reader Toy.codec [] (.str "x".toList) ∧
    Toy.codec.dec (Toy.codec.enc "x".toList) = .ok "x".toList := by
  decide +kernel

end Pybtex.Props
