/-
C13, extension — the operators the case-insensitive containers inherit from `collections.abc`
(model: `Model/CIMapX.lean`; reference: `Spec/CISetAlgebra.lean`; lemmas: `Lemmas/CIMapX.lean`).

Property theorems only.  As in `Props/C13.lean` everything is stated for an arbitrary key normaliser
`norm` with `hn : ∀ k, norm (norm k) = norm k`; the driver runs with `lowerPy`
(`C13_lower_idempotent`).  `CISet.Inv` is the invariant every reachable set has (`C13_set_refines`),
`CISet.OtherOK o` says that an operand that is a `CaseInsensitiveSet` has it too (nothing for a list
or for the set itself).
-/
import PybtexModel.Lemmas.CIMapX
import PybtexModel.Props.C13

namespace Pybtex.Props
open Pybtex Pybtex.Uni Pybtex.Uni.CISet
variable {V : Type} {norm : Str → Str}

/-- The binary set operators build what their names say on the lower-cased keys — for every key `k`:
`k in (s & o)` iff in both, `s | o` iff in one, `s - o` iff in `s` only, `o - s` iff in `o` only,
`s ^ o` iff in exactly one — whether the other operand is a list (read up to case), another
`CaseInsensitiveSet` or `s` itself; and each result is a well-formed set (so
`C13_set_len_contains_iter_agree` applies to it). -/
theorem C13_set_algebra (hn : ∀ k, norm (norm k) = norm k) (s : CISet) (hs : CISet.Inv norm s) (o : Other)
    (ho : CISet.OtherOK norm o) :
    (∀ k, (band norm s o).contains norm k = (s.contains norm k && otherHas norm s o k)) ∧
    (∀ k, (bor norm s o).contains norm k = (s.contains norm k || otherHas norm s o k)) ∧
    (∀ k, (bsub norm s o).contains norm k = (s.contains norm k && !otherHas norm s o k)) ∧
    (∀ k, (brsub norm s o).contains norm k = (otherHas norm s o k && !s.contains norm k)) ∧
    (∀ k, (bxor norm s o).contains norm k = (s.contains norm k ^^ otherHas norm s o k)) ∧
    CISet.Inv norm (band norm s o) ∧ CISet.Inv norm (bor norm s o) ∧ CISet.Inv norm (bsub norm s o) ∧
    CISet.Inv norm (brsub norm s o) ∧ CISet.Inv norm (bxor norm s o) :=
  ⟨contains_band hn hs ho, contains_bor hn hs ho, contains_bsub hn hs o, contains_brsub hn hs ho, contains_bxor hn hs ho,
   inv_ofList _, inv_ofList _, inv_ofList _, inv_ofList _, inv_ofList _⟩

/-- the same against the reference lists the check's oracle reads (`Spec/CISetAlgebra.lean`): the
lower-cased keys the model's result iterates are exactly the members of the reference result -/
theorem C13_set_algebra_spec (hn : ∀ k, norm (norm k) = norm k) (s : CISet) (hs : CISet.Inv norm s) (o : Other)
    (ho : CISet.OtherOK norm o) (x : Str) :
    (x ∈ (band norm s o).iter ↔ x ∈ OSet.specAnd norm (CISet.abs s) o) ∧
    (x ∈ (bor norm s o).iter ↔ x ∈ OSet.specOr norm (CISet.abs s) o) ∧
    (x ∈ (bsub norm s o).iter ↔ x ∈ OSet.specSub norm (CISet.abs s) o) ∧
    (x ∈ (brsub norm s o).iter ↔ x ∈ OSet.specRsub norm (CISet.abs s) o) ∧
    (x ∈ (bxor norm s o).iter ↔ x ∈ OSet.specXor norm (CISet.abs s) o) := by
  have i1 : CISet.Inv norm (band norm s o) := inv_ofList _
  have i2 : CISet.Inv norm (bor norm s o) := inv_ofList _
  have i3 : CISet.Inv norm (bsub norm s o) := inv_ofList _
  have i4 : CISet.Inv norm (brsub norm s o) := inv_ofList _
  have i5 : CISet.Inv norm (bxor norm s o) := inv_ofList _
  have hm := members_abs hs
  have hs' : ∀ x, x ∈ s.set ↔ norm x = x ∧ s.contains norm x = true := mem_set_iff hn hs
  have ho' : ∀ x, norm x = x → (x ∈ OSet.otherKeys norm (CISet.abs s) o ↔ otherHas norm s o x = true) :=
    mem_otherKeys_iff_has hn hs ho
  have hof := otherKeys_fixed hn hs ho
  have hsub : x ∈ (bsub norm s o).iter ↔ x ∈ OSet.specSub norm (CISet.abs s) o := by
    rw [CISet.iter, mem_set_iff hn i3, contains_bsub hn hs o]
    simp only [OSet.specSub, List.mem_filter, hm, hs', Bool.and_eq_true, Bool.not_eq_true']
    constructor
    · rintro ⟨hf, hc, hno⟩
      refine ⟨⟨hf, hc⟩, ?_⟩
      cases hh : decide (x ∈ OSet.otherKeys norm (CISet.abs s) o) with
      | false => simpa using hh
      | true => rw [(ho' x hf).1 (by simpa using hh)] at hno; cases hno
    · rintro ⟨⟨hf, hc⟩, hno⟩
      refine ⟨hf, hc, ?_⟩
      cases hh : otherHas norm s o x with
      | false => rfl
      | true => exact absurd ((ho' x hf).2 hh) (by simpa using hno)
  have hrsub : x ∈ (brsub norm s o).iter ↔ x ∈ OSet.specRsub norm (CISet.abs s) o := by
    rw [CISet.iter, mem_set_iff hn i4, contains_brsub hn hs ho]
    simp only [OSet.specRsub, List.mem_filter, hm, Bool.and_eq_true, Bool.not_eq_true']
    constructor
    · rintro ⟨hf, hc, hno⟩
      refine ⟨(ho' x hf).2 hc, ?_⟩
      have : ¬ x ∈ s.set := fun hx => by rw [((hs' x).1 hx).2] at hno; cases hno
      simpa using this
    · rintro ⟨hk, hno⟩
      have hf := hof x hk
      refine ⟨hf, (ho' x hf).1 hk, ?_⟩
      cases hh : s.contains norm x with
      | false => rfl
      | true => exact absurd ((hs' x).2 ⟨hf, hh⟩) (by simpa using hno)
  refine ⟨?_, ?_, hsub, hrsub, ?_⟩
  · rw [CISet.iter, mem_set_iff hn i1, contains_band hn hs ho]
    simp only [OSet.specAnd, List.mem_filter, hm, hs', Bool.and_eq_true, List.contains_iff_mem]
    constructor
    · rintro ⟨hf, hc, ho2⟩; exact ⟨⟨hf, hc⟩, (ho' x hf).2 ho2⟩
    · rintro ⟨⟨hf, hc⟩, hk⟩; exact ⟨hf, hc, (ho' x hf).1 hk⟩
  · rw [CISet.iter, mem_set_iff hn i2, contains_bor hn hs ho, OSet.specOr, List.mem_append, ← hrsub,
      CISet.iter, mem_set_iff hn i4, contains_brsub hn hs ho, hm, hs']
    simp only [Bool.or_eq_true, Bool.and_eq_true, Bool.not_eq_true']
    constructor
    · rintro ⟨hf, hc | hc⟩
      · exact Or.inl ⟨hf, hc⟩
      · by_cases hh : s.contains norm x = true
        · exact Or.inl ⟨hf, hh⟩
        · exact Or.inr ⟨hf, hc, by simpa using hh⟩
    · rintro (⟨hf, hc⟩ | ⟨hf, hc, _⟩)
      · exact ⟨hf, Or.inl hc⟩
      · exact ⟨hf, Or.inr hc⟩
  · rw [OSet.specXor, List.mem_append, ← hsub, ← hrsub]
    simp only [CISet.iter]
    rw [mem_set_iff hn i5, mem_set_iff hn i3, mem_set_iff hn i4,
      contains_bxor hn hs ho, contains_bsub hn hs o, contains_brsub hn hs ho]
    cases s.contains norm x <;> cases otherHas norm s o x <;> simp

/-- the hypotheses hold of constructed sets, and the operators are not trivial there: `&` takes the
other operand's spelling, `^` with a list that repeats a key up to case -/
theorem C13_set_algebra_nonvacuous :
    CISet.Inv lowerPy (CISet.ofList lowerPy ["Aa".toList, "B".toList]) ∧
    CISet.OtherOK lowerPy (.ciset (CISet.ofList lowerPy ["b".toList, "ΑΣ".toList])) ∧
    (band lowerPy (CISet.ofList lowerPy ["Aa".toList, "B".toList]) (.list ["aA".toList, "AA".toList, "c".toList])).keys
      = [("aa".toList, "AA".toList)] ∧
    (bxor lowerPy (CISet.ofList lowerPy ["Aa".toList, "B".toList]) (.list ["b".toList, "C".toList, "c".toList])).iter
      = ["aa".toList, "c".toList] ∧
    (bsub lowerPy (CISet.ofList lowerPy ["Aa".toList, "ας".toList]) (.ciset (CISet.ofList lowerPy ["b".toList, "ΑΣ".toList]))).iter
      = ["aa".toList] :=
  ⟨inv_ofList _, inv_ofList _, by decide +kernel, by decide +kernel, by decide +kernel⟩

/-- The in-place operators change the set into what their names say (`s &= o`, `s ^= o`, `s -= o`,
`s |= o`), including `s -= s` and `s ^= s` (the `it is self` branch: `clear()`), and keep it
well formed. -/
theorem C13_set_inplace (hn : ∀ k, norm (norm k) = norm k) (s : CISet) (hs : CISet.Inv norm s) (o : Other)
    (ho : CISet.OtherOK norm o) :
    (∀ k, (iand norm s o).contains norm k = (s.contains norm k && otherHas norm s o k)) ∧
    (∀ k, (ixor norm s o).contains norm k = (s.contains norm k ^^ otherHas norm s o k)) ∧
    (∀ k, (isubO norm s o).contains norm k = (s.contains norm k && !otherHas norm s o k)) ∧
    (∀ k, (iorO norm s o).contains norm k = (s.contains norm k || otherHas norm s o k)) ∧
    CISet.Inv norm (iand norm s o) ∧ CISet.Inv norm (ixor norm s o) ∧ CISet.Inv norm (isubO norm s o) ∧
    CISet.Inv norm (iorO norm s o) :=
  ⟨contains_iand hn hs o, contains_ixor hn hs ho, contains_isubO hn hs ho, contains_iorO hn hs ho, inv_inplace hn hs o⟩

/-- against the reference lists the oracle reads: after `s &= o` / `s ^= o` / `s -= o` / `s |= o` the set iterates exactly the
members of the reference's `s & o` / `s ^ o` / `s - o` / `s | o` -/
theorem C13_set_inplace_spec (hn : ∀ k, norm (norm k) = norm k) (s : CISet) (hs : CISet.Inv norm s) (o : Other)
    (ho : CISet.OtherOK norm o) (x : Str) :
    (x ∈ (iand norm s o).iter ↔ x ∈ OSet.specAnd norm (CISet.abs s) o) ∧
    (x ∈ (ixor norm s o).iter ↔ x ∈ OSet.specXor norm (CISet.abs s) o) ∧
    (x ∈ (isubO norm s o).iter ↔ x ∈ OSet.specSub norm (CISet.abs s) o) ∧
    (x ∈ (iorO norm s o).iter ↔ x ∈ OSet.specOr norm (CISet.abs s) o) := by
  obtain ⟨a1, a2, a3, a4, a5⟩ := C13_set_algebra_spec hn s hs o ho x
  obtain ⟨j1, j2, j3, j4⟩ := inv_inplace hn hs o
  have i1 : CISet.Inv norm (band norm s o) := inv_ofList _
  have i2 : CISet.Inv norm (bor norm s o) := inv_ofList _
  have i3 : CISet.Inv norm (bsub norm s o) := inv_ofList _
  have i5 : CISet.Inv norm (bxor norm s o) := inv_ofList _
  refine ⟨?_, ?_, ?_, ?_⟩
  · rw [← a1, CISet.iter, CISet.iter, mem_set_iff hn j1, mem_set_iff hn i1, contains_iand hn hs o, contains_band hn hs ho]
  · rw [← a5, CISet.iter, CISet.iter, mem_set_iff hn j2, mem_set_iff hn i5, contains_ixor hn hs ho, contains_bxor hn hs ho]
  · rw [← a3, CISet.iter, CISet.iter, mem_set_iff hn j3, mem_set_iff hn i3, contains_isubO hn hs ho, contains_bsub hn hs o]
  · rw [← a2, CISet.iter, CISet.iter, mem_set_iff hn j4, mem_set_iff hn i2, contains_iorO hn hs ho, contains_bor hn hs ho]

theorem C13_set_inplace_nonvacuous :
    (ixor lowerPy (CISet.ofList lowerPy ["Aa".toList, "B".toList]) (.list ["b".toList, "C".toList, "c".toList])).keys
      = [("aa".toList, "Aa".toList), ("c".toList, "c".toList)] ∧
    (isubO lowerPy (CISet.ofList lowerPy ["Aa".toList, "B".toList]) .self).keys = [] ∧
    (iorO lowerPy (CISet.ofList lowerPy ["Aa".toList, "B".toList]) .self).keys = [("aa".toList, "aa".toList), ("b".toList, "b".toList)] := by
  decide +kernel

/-- The comparisons, as `collections.abc.Set` computes them (a length test first, then a scan), decide
inclusion / equality / strict inclusion / disjointness of the sets of lower-cased keys: the length
shortcuts never change the answer because the members are pairwise distinct. -/
theorem C13_set_compare (hn : ∀ k, norm (norm k) = norm k) (s t : CISet) (hs : CISet.Inv norm s) (ht : CISet.Inv norm t) :
    (CISet.le norm s t = true ↔ ∀ k, s.contains norm k = true → t.contains norm k = true) ∧
    (CISet.ge norm s t = true ↔ ∀ k, t.contains norm k = true → s.contains norm k = true) ∧
    (CISet.eqSet norm s t = true ↔ ∀ k, s.contains norm k = t.contains norm k) ∧
    CISet.lt norm s t = (CISet.le norm s t && !CISet.le norm t s) ∧
    CISet.gt norm s t = (CISet.le norm t s && !CISet.le norm s t) ∧
    (∀ o, CISet.OtherOK norm o →
      (isDisjoint norm s o = true ↔ ∀ k, ¬ (s.contains norm k = true ∧ otherHas norm s o k = true))) :=
  ⟨le_iff hn hs, ge_iff hn ht, eqSet_iff hn hs ht, lt_iff hn hs ht, by rw [gt_eq_lt, lt_iff hn ht hs],
   fun _ ho => isDisjoint_iff hn hs ho⟩

/-- equal up to case and order, a proper subset, and a pair the length test alone separates -/
theorem C13_set_compare_nonvacuous :
    CISet.eqSet lowerPy (CISet.ofList lowerPy ["Aa".toList, "B".toList]) (CISet.ofList lowerPy ["b".toList, "aA".toList, "AA".toList]) = true ∧
    CISet.lt lowerPy (CISet.ofList lowerPy ["B".toList]) (CISet.ofList lowerPy ["b".toList, "aA".toList]) = true ∧
    CISet.le lowerPy (CISet.ofList lowerPy ["B".toList, "c".toList]) (CISet.ofList lowerPy ["b".toList]) = false ∧
    isDisjoint lowerPy (CISet.ofList lowerPy ["B".toList]) (.list ["bb".toList, "C".toList]) = true := by
  decide +kernel

/-- the same against the reference truth values the check's oracle reads: the model's comparisons
ARE the reference's (inclusion, equality, strict inclusion of the member lists; empty intersection) -/
theorem C13_set_compare_spec (hn : ∀ k, norm (norm k) = norm k) (s t : CISet) (hs : CISet.Inv norm s) (ht : CISet.Inv norm t) :
    CISet.le norm s t = OSet.specLe (CISet.abs s) (CISet.abs t) ∧
    CISet.eqSet norm s t = OSet.specEq (CISet.abs s) (CISet.abs t) ∧
    CISet.lt norm s t = OSet.specLt (CISet.abs s) (CISet.abs t) ∧
    (∀ o, CISet.OtherOK norm o → isDisjoint norm s o = OSet.specDisjoint norm (CISet.abs s) o) := by
  have hle : ∀ (a b : CISet), CISet.Inv norm a → CISet.Inv norm b →
      CISet.le norm a b = OSet.specLe (CISet.abs a) (CISet.abs b) := by
    intro a b ha hb
    apply Bool.eq_iff_iff.2
    rw [le_iff hn ha, subset_iff hn ha]
    simp [OSet.specLe, members_abs ha, members_abs hb]
  refine ⟨hle s t hs ht, ?_, ?_, ?_⟩
  · apply Bool.eq_iff_iff.2
    rw [eqSet_iff hn hs ht, OSet.specEq, Bool.and_eq_true, ← hle s t hs ht, ← hle t s ht hs, le_iff hn hs, le_iff hn ht]
    constructor
    · intro h; exact ⟨fun k hk => by rw [← h k]; exact hk, fun k hk => by rw [h k]; exact hk⟩
    · rintro ⟨h1, h2⟩ k; exact Bool.eq_iff_iff.2 ⟨h1 k, h2 k⟩
  · rw [lt_iff hn hs ht, OSet.specLt, hle s t hs ht, hle t s ht hs]
  · intro o ho
    apply Bool.eq_iff_iff.2
    rw [isDisjoint_iff hn hs ho, OSet.specDisjoint, List.isEmpty_iff, List.eq_nil_iff_forall_not_mem]
    have hspec := fun x => (C13_set_algebra_spec hn s hs o ho x).1
    have i1 : CISet.Inv norm (band norm s o) := inv_ofList _
    constructor
    · intro h x hx
      have hx' := (hspec x).2 hx
      rw [CISet.iter, mem_set_iff hn i1, contains_band hn hs ho, Bool.and_eq_true] at hx'
      exact h x hx'.2
    · intro h k hk
      apply h (norm k)
      apply (hspec (norm k)).1
      rw [CISet.iter, mem_set_iff hn i1, contains_band hn hs ho, Bool.and_eq_true]
      refine ⟨hn k, ?_, ?_⟩
      · have := hk.1; simpa [CISet.contains, hn] using this
      · rw [otherHas_iff hn hs ho] at hk ⊢; rw [hn]; exact hk.2

/-! ### the mappings -/

/-- `Mapping.__eq__` on two case-insensitive mappings (what `Entry.__eq__` / `BibliographyData.__eq__`
call on `fields`, `persons`, `entries`): `dict(self.items()) == dict(other.items())` never raises on
reachable states and holds exactly when the two reference maps have the same (spelling, value) pairs,
in any order. -/
theorem C13_eq_spec [DecidableEq V] (d e : CIDict V) (hd : CIDict.Inv norm d) (he : CIDict.Inv norm e) :
    CIDict.eqMap norm d e = some (OMap.specEq (CIDict.abs d) (CIDict.abs e)) ∧
    (∀ fac : V, eqItems (CIDict.DD.items norm fac d) (CIDict.DD.items norm fac e) = OMap.specEq (CIDict.abs d) (CIDict.abs e)) ∧
    (∀ other : List (Str × V), (other.map Prod.fst).Nodup →
      CIDict.eqPlain norm d other = some (((OMap.items (CIDict.abs d)).all fun p => other.contains p) &&
        (other.all fun p => (OMap.items (CIDict.abs d)).contains p))) := by
  refine ⟨CIDict.eqMap_spec hd he, ?_, ?_⟩
  · intro fac
    have h1 := CIDict.DD.items_eq (fac := fac) hd
    have h2 := CIDict.DD.items_eq (fac := fac) he
    rw [CIDict.items_abs hd] at h1
    rw [CIDict.items_abs he] at h2
    rw [← Option.some.inj h1, ← Option.some.inj h2]
    exact CIDict.eqItems_spec (CIDict.abs_wf hd) (CIDict.abs_wf he)
  · intro other ho
    have k1 := CIDict.items_keys_nodup (CIDict.abs_wf hd)
    simp only [CIDict.eqPlain, CIDict.items_abs hd, Option.map_some, eqItems]
    rw [CIDict.dofPairs_nodup _ k1, CIDict.dofPairs_nodup _ ho, pyDictEq_eq _ _ k1 ho]

/-- equality is an equivalence on reference maps that ignores order -/
theorem C13_eq_equivalence [DecidableEq V] (m m' : OMap V) :
    OMap.specEq m m = true ∧ OMap.specEq m m' = OMap.specEq m' m ∧ OMap.specEq m m.reverse = true := by
  refine ⟨?_, ?_, ?_⟩
  · simp [OMap.specEq, List.all_eq_true]
  · simp only [OMap.specEq]; exact Bool.and_comm _ _
  · simp only [OMap.specEq, List.all_eq_true, OMap.items, List.map_reverse, List.contains_iff_mem, List.mem_reverse,
      Bool.and_eq_true]
    exact ⟨fun p hp => hp, fun p hp => hp⟩

/-- equal although written in another order; NOT equal when a key differs in case only, although
every lookup in the two maps gives the same answer: `==` compares the remembered spellings -/
theorem C13_eq_spec_nonvacuous :
    CIDict.eqMap lowerPy (CIDict.ofPairs lowerPy [("A".toList, (1 : Int)), ("b".toList, 2)])
      (CIDict.ofPairs lowerPy [("b".toList, 2), ("a".toList, 0), ("A".toList, 1)]) = some true ∧
    CIDict.eqMap lowerPy (CIDict.ofPairs lowerPy [("A".toList, (1 : Int))]) (CIDict.ofPairs lowerPy [("a".toList, 1)]) = some false := by
  decide +kernel

/-- `items_lower()` yields the reference map's items with every spelling lower-cased: keys lower-cased,
order and values kept (no `KeyError` on a reachable state). -/
theorem C13_items_lower (d : CIDict V) (hd : CIDict.Inv norm d) :
    CIDict.itemsLower norm d = some (OMap.itemsLower (CIDict.abs d)) ∧
    OMap.itemsLower (CIDict.abs d) = (OMap.items (CIDict.abs d)).map (fun p => (norm p.1, p.2)) := by
  refine ⟨CIDict.itemsLower_spec hd, ?_⟩
  have hwf := (CIDict.abs_wf hd).1
  simp only [OMap.itemsLower, OMap.items, OMap.lowered, List.map_map]
  apply List.map_congr_left
  intro e he; simp [hwf e he]

theorem C13_items_lower_nonvacuous :
    CIDict.itemsLower lowerPy (CIDict.ofPairs lowerPy [("ΑΣ".toList, (1 : Int)), ("b".toList, 2), ("ας".toList, 3)])
      = some [("ας".toList, 3), ("b".toList, 2)] := by
  decide +kernel

/-- Containment in the three views agrees with the map: `k in d.keys()` is `k in d`; `(k, v) in d.items()` iff looking `k` up
(in any spelling) gives `v`; `v in d.values()` never raises and holds iff `v` is among the reference map's values. -/
theorem C13_views_contain [DecidableEq V] (d : CIDict V) (hd : CIDict.Inv norm d) :
    (∀ k, CIDict.keysViewHas norm d k = OMap.has norm (CIDict.abs d) k) ∧
    (∀ k v, CIDict.itemsViewHas norm d k v = true ↔ OMap.get norm (CIDict.abs d) k = some v) ∧
    (∀ v, CIDict.valuesViewHas norm d v = some ((OMap.values (CIDict.abs d)).contains v)) :=
  ⟨fun k => CIDict.contains_abs hd k, CIDict.itemsViewHas_spec hd, CIDict.valuesViewHas_spec hd⟩

/-- the same through the defaulting `__getitem__` of `CaseInsensitiveDefaultDict`: `v in d.values()` is as for a plain mapping, but
`(k, v) in d.items()` holds iff the DEFAULTING look-up of `k` gives `v` — so the pair (absent key, factory value) passes the test
although `items()` does not iterate it (and the membership test of `keys()` is the plain one). -/
theorem C13_views_contain_default [DecidableEq V] (fac : V) (d : CIDict V) (hd : CIDict.Inv norm d) :
    (∀ k v, CIDict.DD.itemsViewHas norm fac d k v = true ↔ (OMap.get norm (CIDict.abs d) k).getD fac = v) ∧
    (∀ v, CIDict.DD.valuesViewHas norm fac d v = (OMap.values (CIDict.abs d)).contains v) := by
  constructor
  · intro k v
    simp [CIDict.DD.itemsViewHas, CIDict.DD.getItem, CIDict.getItem_abs hd]
  · intro v
    have h1 := CIDict.DD.items_eq (fac := fac) hd
    rw [CIDict.items_abs hd] at h1
    simp only [CIDict.DD.valuesViewHas, CIDict.DD.values, ← Option.some.inj h1]
    simp [OMap.items, OMap.values, List.map_map, Function.comp_def]

theorem C13_views_contain_nonvacuous :
    CIDict.itemsViewHas lowerPy (CIDict.ofPairs lowerPy [("A".toList, (1 : Int)), ("b".toList, 2)]) "a".toList 1 = true ∧
    CIDict.valuesViewHas lowerPy (CIDict.ofPairs lowerPy [("A".toList, (1 : Int)), ("b".toList, 2)]) 2 = some true ∧
    CIDict.valuesViewHas lowerPy (CIDict.ofPairs lowerPy [("A".toList, (1 : Int)), ("b".toList, 2)]) 3 = some false ∧
    -- the defaulting variant: the pair (absent key, factory value) passes the items() test although it is not iterated
    CIDict.DD.itemsViewHas lowerPy (0 : Int) (CIDict.ofPairs lowerPy [("A".toList, (1 : Int))]) "zz".toList 0 = true := by
  decide +kernel

end Pybtex.Props
