/-
C11 — `format.name$` formats names as BibTeX does.

Property theorems only.  The model of the code (`NameFormatParser`, `NamePart`, `join`,
`tie_or_space`, `format_name`) is `Model/NameFormat.lean`; the reference grammar and formatting
rule a reader has to agree with are in `Spec/NameFormat.lean`; helper lemmas in
`Lemmas/NameFormat.lean`.
-/
import PybtexModel.Lemmas.NameFormat

namespace Pybtex.Props
open Pybtex Pybtex.NameFormat Spec Spec.NameFormat

/-! ### malformed format strings -/

/-- A malformed format string — unbalanced braces, a brace-level-1 letter run other than
f/ff/l/ll/v/vv/j/jj (any case), a second letter run in the same part, or `_` at brace level 1
(`Spec.wellformed`, read directly off the string) — is rejected with a syntax error, for every
name; it is never formatted, and the error is neither an internal one nor the nesting-limit
error of the string primitives. -/
theorem C11_malformed_rejected (fmt : Str) (h : Spec.wellformed fmt = false) :
    ∃ e, parseFormat fmt = .error e ∧ e ≠ .internal ∧ e ≠ .tooDeep ∧
      ∀ name, formatName name fmt = .error e := by
  have hw := okRest_wellformed fmt
  rw [h] at hw
  cases hp : parseFormat fmt with
  | ok ps => rw [hp] at hw; cases hw
  | error e =>
    have hn := parseFormat_not_internal fmt
    rw [hp] at hn
    refine ⟨e, rfl, by simpa using hn.1, by simpa using hn.2, ?_⟩
    intro name
    simp [formatName, hp]

theorem C11_malformed_rejected_nonvacuous :
    Spec.wellformed "{ff~}{vv~}{lll}".toList = false ∧
    Spec.wellformed "{ff~}}{ll}".toList = false ∧
    Spec.wellformed "{f f}".toList = false ∧
    Spec.wellformed "{f_}".toList = false ∧
    formatName "Donald E. Knuth".toList "{ff~}{vv~}{lll}".toList = .error .illegalLetters := by
  decide

/-- Conversely a well-formed format string is accepted by the parser: the only error
`format_name` can then raise is the brace-nesting limit of the string primitives. -/
theorem C11_wellformed_accepted (fmt : Str) (h : Spec.wellformed fmt = true) :
    (∃ ps, parseFormat fmt = .ok ps) ∧
      ∀ name e, formatName name fmt = .error e → e = .tooDeep := by
  have hw := okRest_wellformed fmt
  rw [h] at hw
  cases hp : parseFormat fmt with
  | error e => rw [hp] at hw; cases hw
  | ok ps =>
    refine ⟨⟨ps, rfl⟩, ?_⟩
    intro name e he
    have hs := formatName_spec name fmt
    rw [he] at hs
    have hparse := parse_eq fmt
    rw [hp] at hparse
    obtain ⟨pieces, hpieces⟩ := toSpecPieces_partOk (parseFormat_partOk hp)
    cases e with
    | tooDeep => rfl
    | internal => exact hs.elim
    | unbalanced | prematureEOF | tokenRequired | illegalLetters =>
      simp only [Spec.formatName, hparse, hpieces] at hs
      split at hs <;> (try split at hs) <;> cases hs

theorem C11_wellformed_accepted_nonvacuous :
    Spec.wellformed "{ff~}{vv~}{ll}{, jj}".toList = true ∧
    Spec.wellformed "{{abc}{def}FF{xyz}{#@${}{sdf}}} and {, 12 l.~~}".toList = true := by
  decide

/-- Totality: the model never ends in its `internal` outcome — the fuel of the two parser
loops is never exhausted, `Person.get_part` never fails, `BibTeXNameFormatError` is
unreachable behind `check_format_chars`, and `Person(name)` only fails with the nesting limit. -/
theorem C11_total (name fmt : Str) :
    parseFormat fmt ≠ .error .internal ∧ formatName name fmt ≠ .error .internal := by
  refine ⟨(parseFormat_not_internal fmt).1, ?_⟩
  intro h
  have hs := formatName_spec name fmt
  rw [h] at hs
  exact hs

/-! ### the reference rule -/

/-- Main theorem: for every name and every format string, the model of `format_name` yields
exactly the outcome of the reference rule `Spec.formatName` (grammar + formatting rule of
`Spec/NameFormat.lean`): the same string; the nesting-limit error exactly when the rule is
undefined for that reason; a syntax error exactly when the format is not in the grammar. -/
theorem C11_matches_spec (name fmt : Str) :
    match formatName name fmt with
    | .ok (s, _) => Spec.formatName name fmt = .ok s
    | .error .tooDeep => Spec.formatName name fmt = .tooDeep
    | .error .internal => False
    | .error _ => Spec.formatName name fmt = .malformed :=
  formatName_spec name fmt

end Pybtex.Props
