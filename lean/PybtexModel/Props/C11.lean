/-
C11 — `format.name$` formats names as BibTeX does.

Property theorems only.  The model of the code (`NameFormatParser`, `NamePart`, `join`,
`tie_or_space`, `format_name`) is `Model/NameFormat.lean`; the reference grammar and formatting
rule a reader has to agree with are in `Spec/NameFormat.lean`; helper lemmas in
`Lemmas/NameFormat.lean`.
-/
import PybtexModel.Lemmas.NameFormat
import PybtexModel.Lemmas.NameFormatMore

namespace Pybtex.Props
open Pybtex Pybtex.NameFormat Spec Spec.NameFormat

/-! ### malformed format strings -/

/-- A malformed format string — unbalanced braces, a brace-level-1 letter run other than
f/ff/l/ll/v/vv/j/jj (any case), a second letter run in the same part, or `_` at brace level 1
(`Spec.wellformed`, read directly off the string) — is rejected with a syntax error, for every
name; it is never formatted, and the error is neither an internal one nor the nesting-limit
error of the string primitives. -/
theorem C11_malformed_rejected (fmt : Str) (h : Spec.wellformed fmt = false) :
    ∃ e, parseFormat fmt = .error e ∧ e ≠ .internal ∧ e ≠ .tooDeep ∧
      ∀ name, formatName name fmt = .error e := by
  have hw := okRest_wellformed fmt
  rw [h] at hw
  cases hp : parseFormat fmt with
  | ok ps => rw [hp] at hw; cases hw
  | error e =>
    have hn := parseFormat_not_internal fmt
    rw [hp] at hn
    refine ⟨e, rfl, by simpa using hn.1, by simpa using hn.2, ?_⟩
    intro name
    simp [formatName, hp]

theorem C11_malformed_rejected_nonvacuous :
    Spec.wellformed "{ff~}{vv~}{lll}".toList = false ∧
    Spec.wellformed "{ff~}}{ll}".toList = false ∧
    Spec.wellformed "{f f}".toList = false ∧
    Spec.wellformed "{f_}".toList = false ∧
    formatName "Donald E. Knuth".toList "{ff~}{vv~}{lll}".toList = .error .illegalLetters := by
  decide +kernel

/-- Conversely a well-formed format string is accepted by the parser: the only error
`format_name` can then raise is the brace-nesting limit of the string primitives. -/
theorem C11_wellformed_accepted (fmt : Str) (h : Spec.wellformed fmt = true) :
    (∃ ps, parseFormat fmt = .ok ps) ∧
      ∀ name e, formatName name fmt = .error e → e = .tooDeep := by
  have hw := okRest_wellformed fmt
  rw [h] at hw
  cases hp : parseFormat fmt with
  | error e => rw [hp] at hw; cases hw
  | ok ps =>
    refine ⟨⟨ps, rfl⟩, ?_⟩
    intro name e he
    have hs := formatName_spec name fmt
    rw [he] at hs
    have hparse := parse_eq fmt
    rw [hp] at hparse
    obtain ⟨pieces, hpieces⟩ := toSpecPieces_partOk (parseFormat_partOk hp)
    cases e with
    | tooDeep => rfl
    | internal => exact hs.elim
    | unbalanced | prematureEOF | tokenRequired | illegalLetters =>
      simp only [Spec.formatName, hparse, hpieces] at hs
      split at hs <;> (try split at hs) <;> cases hs

theorem C11_wellformed_accepted_nonvacuous :
    Spec.wellformed "{ff~}{vv~}{ll}{, jj}".toList = true ∧
    Spec.wellformed "{{abc}{def}FF{xyz}{#@${}{sdf}}} and {, 12 l.~~}".toList = true := by
  decide +kernel

/-- Totality: the model never ends in its `internal` outcome — the fuel of the two parser
loops is never exhausted, `Person.get_part` never fails, `BibTeXNameFormatError` is
unreachable behind `check_format_chars`, and `Person(name)` only fails with the nesting limit. -/
theorem C11_total (name fmt : Str) :
    parseFormat fmt ≠ .error .internal ∧ formatName name fmt ≠ .error .internal := by
  refine ⟨(parseFormat_not_internal fmt).1, ?_⟩
  intro h
  have hs := formatName_spec name fmt
  rw [h] at hs
  exact hs

/-! ### the reference rule -/

/-- Main theorem: for every name and every format string, the model of `format_name` yields
exactly the outcome of the reference rule `Spec.formatName` (grammar + formatting rule of
`Spec/NameFormat.lean`): the same string; the nesting-limit error exactly when the rule is
undefined for that reason; a syntax error exactly when the format is not in the grammar. -/
theorem C11_matches_spec (name fmt : Str) :
    match formatName name fmt with
    | .ok (s, _) => Spec.formatName name fmt = .ok s
    | .error .tooDeep => Spec.formatName name fmt = .tooDeep
    | .error .internal => False
    | .error _ => Spec.formatName name fmt = .malformed :=
  formatName_spec name fmt

/-- the standard format on the standard example, through the model and through the reference -/
theorem C11_matches_spec_nonvacuous :
    formatName exName "{ff~}{vv~}{ll}{, jj}".toList
      = .ok ("Charles Louis Xavier~Joseph de~la Vall{\\'e}e~Poussin".toList, false) ∧
    Spec.formatName exName "{ff~}{vv~}{ll}{, jj}".toList
      = .ok "Charles Louis Xavier~Joseph de~la Vall{\\'e}e~Poussin".toList ∧
    Spec.formatName exName "{f.~}{vv~}{ll}{, jj}".toList
      = .ok "C.~L. X.~J. de~la Vall{\\'e}e~Poussin".toList ∧
    Spec.formatName exName "{ff~}{vv~}{lll}".toList = .malformed := by
  have h1 : formatName exName "{ff~}{vv~}{ll}{, jj}".toList
      = .ok ("Charles Louis Xavier~Joseph de~la Vall{\\'e}e~Poussin".toList, false) := by
    decide +kernel
  have h2 : formatName exName "{f.~}{vv~}{ll}{, jj}".toList
      = .ok ("C.~L. X.~J. de~la Vall{\\'e}e~Poussin".toList, false) := by decide +kernel
  have h3 : formatName exName "{ff~}{vv~}{lll}".toList = .error .illegalLetters := by
    decide +kernel
  exact ⟨h1, formatName_spec_ok h1, formatName_spec_ok h2, formatName_spec_illegal h3⟩

/-- The grammar read generatively.  For every well-formed shape `ps` — level-0 characters and
parts `{pre letters {sep} post}` with pre/post made of verbatim characters and balanced
groups, a balanced separator (or none, and then the post-text does not begin with a group),
and no separator or post-text without letters — the format string `render ps` is well-formed,
is read back as exactly `ps`, and `format_name` yields the formatting rule applied to `ps`
itself.  So for format strings written from the grammar the reader need not trust the
reference *parser*: printer and rule suffice. -/
theorem C11_grammar_roundtrip (ps : List Piece) (h : ∀ p ∈ ps, p.wf = true) :
    Spec.wellformed (render ps) = true ∧ parse (render ps) = some ps ∧
    ∀ name, formatName name (render ps) =
      match mkPerson name [] [] [] [] [] with
      | .error _ => .error .tooDeep
      | .ok (person, rep) =>
        match formatPieces person ps with
        | some s => .ok (s, rep)
        | none => .error .tooDeep := by
  refine ⟨?_, parse_render ps h, fun name => formatName_render name ps h⟩
  have hp := parse_eq (render ps)
  rw [parse_render ps h] at hp
  rw [okRest_wellformed]
  cases hpf : parseFormat (render ps) with
  | error e => rw [hpf] at hp; cases hp
  | ok parts => rfl

theorem C11_grammar_roundtrip_nonvacuous :
    (∀ p ∈ [Piece.part ⟨"{ }".toList, some ⟨.first, true⟩, none, "~{ }".toList⟩,
            Piece.ch ' ',
            Piece.part ⟨[], some ⟨.von, false⟩, some "-".toList, ".~".toList⟩,
            Piece.part ⟨", ".toList, none, none, []⟩], p.wf = true) ∧
    render [Piece.part ⟨"{ }".toList, some ⟨.first, true⟩, none, "~{ }".toList⟩,
            Piece.ch ' ',
            Piece.part ⟨[], some ⟨.von, false⟩, some "-".toList, ".~".toList⟩,
            Piece.part ⟨", ".toList, none, none, []⟩] = "{{ }ff~{ }} {v{-}.~}{, }".toList := by
  decide +kernel

/-! ### clause by clause -/

/-- Brace-level-0 text is copied verbatim: a brace-free prefix `t` of the format string is put
in front of whatever the rest of the format string yields (same error, same report flag). -/
theorem C11_level0_verbatim (name t rest : Str) (ht : ∀ c ∈ t, c ≠ '{' ∧ c ≠ '}') :
    formatName name (t ++ rest) =
      match formatName name rest with
      | .ok (s, rep) => .ok (t ++ s, rep)
      | .error e => .error e := by
  rw [formatName_text_append name t rest ht]
  cases formatName name rest with
  | error e => rfl
  | ok p => rfl

theorem C11_level0_verbatim_nonvacuous :
    formatName exName "abc def {f~} xyz {f}?".toList
      = .ok ("abc def C.~L. X.~J  xyz C.~L. X.~J?".toList, false) := by decide +kernel

/-- A format string without braces is returned as it is (the name is still split, so a name
beyond the nesting limit is an error). -/
theorem C11_level0_only (name t : Str) (ht : ∀ c ∈ t, c ≠ '{' ∧ c ≠ '}') :
    formatName name t =
      match mkPerson name [] [] [] [] [] with
      | .ok (_, rep) => .ok (t, rep)
      | .error _ => .error .tooDeep := by
  have h := formatName_text_append name t [] ht
  rw [List.append_nil] at h
  rw [h, formatName_eq_finish, parseFormat_nil]
  unfold finishName
  simp only
  cases hm : mkPerson name [] [] [] [] [] with
  | error e => have := (mkPerson_error hm).1; subst this; rfl
  | ok pr => obtain ⟨person, rep⟩ := pr; simp [formatParts, prepend]

theorem C11_level0_only_nonvacuous :
    formatName exName "et al., 1999".toList = .ok ("et al., 1999".toList, false) := by decide +kernel

/-- A part with letters whose name part (first+middle / von / last / jr) is empty contributes
nothing — not even its pre- and post-text or a tie. -/
theorem C11_part_omitted_when_empty (person : Person) (pre run : Str) (delim : Option Str)
    (post : Str) (l : Letters) (hl : decodeLetters run = some l)
    (he : tokens person l.slot = []) :
    formatPart person pre (some run) delim post = .ok [] :=
  formatPart_empty person pre run delim post l hl he

theorem C11_part_omitted_when_empty_nonvacuous :
    decodeLetters "jj".toList = some ⟨.jr, true⟩ ∧ tokens exPerson .jr = [] ∧
    formatPart exPerson ", ".toList (some "jj".toList) none "~".toList = .ok [] := by decide +kernel

/-- … and only then, as soon as the part has anything to show: a pre-text, a post-text, or —
shown in full — a non-empty token. -/
theorem C11_part_omitted_iff_empty (person : Person) (pre run : Str) (delim : Option Str)
    (post : Str) (l : Letters) (hl : decodeLetters run = some l)
    (hvis : pre ≠ [] ∨ post ≠ [] ∨ (l.full = true ∧ ∃ t ∈ tokens person l.slot, t ≠ [])) :
    formatPart person pre (some run) delim post = .ok [] ↔ tokens person l.slot = [] := by
  refine ⟨fun h => ?_, formatPart_empty person pre run delim post l hl⟩
  by_cases hne : tokens person l.slot = []
  · exact hne
  · exfalso
    rw [formatPart_body person pre run delim post l hl hne] at h
    cases hb : body l delim (tokens person l.slot) with
    | none => rw [hb] at h; cases h
    | some b =>
      rw [hb] at h
      simp only [Option.bind_some] at h
      cases hw : withPost (pre ++ b) post with
      | none => rw [hw] at h; cases h
      | some out =>
        rw [hw] at h
        have hout : out = [] := by cases h; rfl
        subst hout
        obtain ⟨h1, h2⟩ := withPost_length hw
        have hpre : pre = [] ∧ b = [] := by
          simp only [List.length_append, List.length_nil] at h1
          exact ⟨List.eq_nil_of_length_eq_zero (by omega), List.eq_nil_of_length_eq_zero (by omega)⟩
        rcases hvis with hv | hv | ⟨hf, ht⟩
        · exact hv hpre.1
        · exact h2 hv rfl
        · exact body_full_ne_nil hf hb ht hpre.2

theorem C11_part_omitted_iff_empty_nonvacuous :
    decodeLetters "vv".toList = some ⟨.von, true⟩ ∧ tokens exPerson .von ≠ [] ∧
    formatPart exPerson [] (some "vv".toList) none "~".toList = .ok "de~la ".toList := by
  decide +kernel

/-- For a person made from a name string no token is empty, so a part shown in full is
omitted exactly when its name part is empty. -/
theorem C11_part_omitted_iff_empty_full (name : Str) (person : Person) (rep : Bool)
    (hp : mkPerson name [] [] [] [] [] = .ok (person, rep))
    (pre run : Str) (delim : Option Str) (post : Str) (l : Letters)
    (hl : decodeLetters run = some l) (hf : l.full = true) :
    formatPart person pre (some run) delim post = .ok [] ↔ tokens person l.slot = [] := by
  refine ⟨fun h => ?_, formatPart_empty person pre run delim post l hl⟩
  cases ht : tokens person l.slot with
  | nil => rfl
  | cons t r =>
    have hne : t ≠ [] := mkPerson_tokens_ne_nil hp l.slot t (by rw [ht]; simp)
    have := (C11_part_omitted_iff_empty person pre run delim post l hl
      (Or.inr (Or.inr ⟨hf, t, by rw [ht]; simp, hne⟩))).1 h
    rw [ht] at this; cases this

theorem C11_part_omitted_iff_empty_full_nonvacuous :
    mkPerson exName [] [] [] [] [] = .ok (exPerson, false) ∧
    decodeLetters "LL".toList = some ⟨.last, true⟩ := by
  exact ⟨exPerson_eq, by decide⟩

/-- Why the visibility hypothesis of `C11_part_omitted_iff_empty` is needed for abbreviated
parts: a token without any letter abbreviates to nothing (as in BibTeX), so `{f}` shows nothing
for the name "1 Smith" although its first-name part is not empty. -/
theorem C11_part_omitted_letterless_witness :
    mkPerson "1 Smith".toList [] [] [] [] [] =
      .ok ({ first := ["1".toList], last := ["Smith".toList] }, false) ∧
    formatPart { first := ["1".toList], last := ["Smith".toList] } [] (some "f".toList) none []
      = .ok [] := by decide +kernel

/-- Full versus abbreviated form, on a name part with a single token `t` (no separator is
involved) and a post-text without tie directive: `ff` shows the token, `f` its abbreviation —
the first letter or special character of each hyphen-separated piece, joined by `.-` or by
the explicit separator (`Spec.NameFormat.abbreviate`). -/
theorem C11_full_vs_abbrev (person : Person) (pre run : Str) (delim : Option Str) (post : Str)
    (l : Letters) (hl : decodeLetters run = some l) (t : Str)
    (ht : tokens person l.slot = [t]) (hpost : post.getLast? ≠ some '~') :
    formatPart person pre (some run) delim post =
      if l.full then .ok (pre ++ t ++ post)
      else match abbreviate delim t with
        | some a => .ok (pre ++ a ++ post)
        | none => .error .tooDeep := by
  have hne : tokens person l.slot ≠ [] := by rw [ht]; simp
  have hk := trailingTies_of_getLast hpost
  rw [formatPart_body person pre run delim post l hl hne, ht]
  cases hf : l.full
  · simp only [body, shownTokens, hf, Bool.false_eq_true, if_false, List.mapM_cons, List.mapM_nil]
    cases abbreviate delim t with
    | none => rfl
    | some a =>
      cases delim with
      | none => simp [joinShown, joinDefault_one, withPost_plain hk, ofOpt]
      | some s => simp [joinShown, joinWith, withPost_plain hk, ofOpt]
  · simp only [body, shownTokens, hf, if_true, Option.bind_some]
    cases delim with
    | none => simp [joinShown, joinDefault_one, withPost_plain hk, ofOpt]
    | some s => simp [joinShown, joinWith, withPost_plain hk, ofOpt]

theorem C11_full_vs_abbrev_nonvacuous :
    decodeLetters "f".toList = some ⟨.first, false⟩ ∧
    tokens { first := ["Jean-Pierre".toList], last := ["Hansen".toList] } .first = ["Jean-Pierre".toList] ∧
    abbreviate none "Jean-Pierre".toList = some "J.-P".toList ∧
    abbreviate (some []) "Jean-Pierre".toList = some "JP".toList ∧
    formatPart { first := ["Jean-Pierre".toList], last := ["Hansen".toList] } [] (some "f".toList) none ".".toList
      = .ok "J.-P.".toList ∧
    formatPart { first := ["Jean-Pierre".toList], last := ["Hansen".toList] } [] (some "ff".toList) none " ".toList
      = .ok "Jean-Pierre ".toList := by decide +kernel

/-- An explicit separator is a plain join of the shown tokens (no ties). -/
theorem C11_explicit_separator (person : Person) (pre run sep post : Str)
    (l : Letters) (hl : decodeLetters run = some l)
    (hne : tokens person l.slot ≠ []) (hpost : post.getLast? ≠ some '~') :
    formatPart person pre (some run) (some sep) post =
      if l.full then .ok (pre ++ joinWith sep (tokens person l.slot) ++ post)
      else match (tokens person l.slot).mapM (abbreviate (some sep)) with
        | some ws => .ok (pre ++ joinWith sep ws ++ post)
        | none => .error .tooDeep := by
  have hk := trailingTies_of_getLast hpost
  rw [formatPart_body person pre run (some sep) post l hl hne]
  cases hf : l.full
  · simp only [body, shownTokens, hf, Bool.false_eq_true, if_false]
    cases (tokens person l.slot).mapM (abbreviate (some sep)) with
    | none => rfl
    | some ws => simp [joinShown, withPost_plain hk, ofOpt]
  · simp [body, shownTokens, hf, joinShown, withPost_plain hk, ofOpt]

theorem C11_explicit_separator_nonvacuous :
    decodeLetters "ff".toList = some ⟨.first, true⟩ ∧ tokens exPerson .first ≠ [] ∧
    formatPart exPerson [] (some "ff".toList) (some "-".toList) []
      = .ok "Charles-Louis-Xavier-Joseph".toList ∧
    formatPart exPerson [] (some "f".toList) (some []) [] = .ok "CLXJ".toList := by decide +kernel

/-- The default separator.  `ws` are the tokens as shown (the tokens themselves for `ff`, their
abbreviations for `f`); the tie is `~` resp. `.~`, the space a blank resp. `. `.  One token:
as it is; two tokens: a tie between them; three or more: after the first token a tie if its
text length is less than three and a space otherwise, spaces between the middle tokens, a tie
before the last token. -/
theorem C11_default_separator (person : Person) (pre run post : Str)
    (l : Letters) (hl : decodeLetters run = some l)
    (hne : tokens person l.slot ≠ []) (hpost : post.getLast? ≠ some '~')
    (ws : List Str) (hws : shownTokens l.full none (tokens person l.slot) = some ws)
    (tie space : Str) (htie : tie = if l.full then ['~'] else ['.', '~'])
    (hspace : space = if l.full then [' '] else ['.', ' ']) :
    (∀ a, ws = [a] → formatPart person pre (some run) none post = .ok (pre ++ a ++ post)) ∧
    (∀ a z, ws = [a, z] →
      formatPart person pre (some run) none post = .ok (pre ++ a ++ tie ++ z ++ post)) ∧
    (∀ a m mid z, ws = a :: m :: mid ++ [z] →
      formatPart person pre (some run) none post =
        match bibtexLen a with
        | some n => .ok (pre ++ a ++ (if n < 3 then tie else space) ++ joinWith space (m :: mid)
                          ++ tie ++ z ++ post)
        | none => .error .tooDeep) := by
  have hk := trailingTies_of_getLast hpost
  have hb : formatPart person pre (some run) none post =
      ofOpt ((joinDefault ws tie space).bind fun b => withPost (pre ++ b) post) := by
    rw [formatPart_body person pre run none post l hl hne]
    simp only [body, hws, Option.bind_some, joinShown]
    cases hf : l.full <;> simp [hf, htie, hspace]
  rw [hb]
  refine ⟨?_, ?_, ?_⟩
  · rintro a rfl
    simp [joinDefault_one, withPost_plain hk, ofOpt]
  · rintro a z rfl
    simp [joinDefault_two, withPost_plain hk, ofOpt]
  · rintro a m mid z rfl
    rw [joinDefault_many]
    cases bibtexLen a with
    | none => rfl
    | some n => simp [withPost_plain hk, ofOpt]

theorem C11_default_separator_nonvacuous :
    decodeLetters "ff".toList = some ⟨.first, true⟩ ∧
    shownTokens true none (tokens exPerson .first)
      = some ("Charles".toList :: "Louis".toList :: ["Xavier".toList] ++ ["Joseph".toList]) ∧
    formatPart exPerson [] (some "ff".toList) none []
      = .ok "Charles Louis Xavier~Joseph".toList ∧
    shownTokens false none (tokens exPerson .first)
      = some ("C".toList :: "L".toList :: ["X".toList] ++ ["J".toList]) ∧
    formatPart exPerson [] (some "f".toList) none [] = .ok "C.~L. X.~J".toList ∧
    formatPart exPerson [] (some "vv".toList) none [] = .ok "de~la".toList := by decide +kernel

/-- Discretionary ties.  `core` is a post-text without tie directive and `out` what the part
yields with it.  With one more `~` the part yields `out` followed by a tie if the text length
of `out` is less than three and by a blank otherwise; with `~~` it yields `out` followed by a
tie; an error stays the same error. -/
theorem C11_discretionary_tie (person : Person) (pre run : Str) (delim : Option Str) (core : Str)
    (l : Letters) (hl : decodeLetters run = some l)
    (hne : tokens person l.slot ≠ []) (hcore : core.getLast? ≠ some '~') :
    (∀ out, formatPart person pre (some run) delim core = .ok out →
      formatPart person pre (some run) delim (core ++ ['~']) =
        (match bibtexLen out with
         | some n => .ok (out ++ if n < 3 then ['~'] else [' '])
         | none => .error .tooDeep) ∧
      formatPart person pre (some run) delim (core ++ ['~', '~']) = .ok (out ++ ['~'])) ∧
    (∀ e, formatPart person pre (some run) delim core = .error e →
      formatPart person pre (some run) delim (core ++ ['~']) = .error e ∧
      formatPart person pre (some run) delim (core ++ ['~', '~']) = .error e) := by
  have hk := trailingTies_of_getLast hcore
  rw [formatPart_body person pre run delim core l hl hne,
    formatPart_body person pre run delim (core ++ ['~']) l hl hne,
    formatPart_body person pre run delim (core ++ ['~', '~']) l hl hne]
  cases body l delim (tokens person l.slot) with
  | none =>
    refine ⟨(fun out h => nomatch h), fun e h => ?_⟩
    cases h; exact ⟨rfl, rfl⟩
  | some b =>
    simp only [Option.bind_some, withPost_plain hk, withPost_one hk, withPost_two hk, ofOpt]
    refine ⟨fun out h => ?_, fun e h => nomatch h⟩
    cases h
    refine ⟨?_, by simp⟩
    cases bibtexLen (pre ++ b ++ core) with
    | none => rfl
    | some n => simp

theorem C11_discretionary_tie_nonvacuous :
    decodeLetters "ll".toList = some ⟨.last, true⟩ ∧ tokens exPerson .last ≠ [] ∧
    formatPart exPerson [] (some "ll".toList) none [] = .ok "Vall{\\'e}e~Poussin".toList ∧
    formatPart exPerson [] (some "ll".toList) none "~".toList = .ok "Vall{\\'e}e~Poussin ".toList ∧
    formatPart exPerson [] (some "ll".toList) none "~~".toList = .ok "Vall{\\'e}e~Poussin~".toList ∧
    formatName "A Smith".toList "{f~}{ll}".toList = .ok ("A~Smith".toList, false) := by
  decide +kernel

/-- A part without letters: its text acts as post-text, so the same tie directives apply to
the text itself. -/
theorem C11_discretionary_tie_no_letters (person : Person) (core : Str)
    (hcore : core.getLast? ≠ some '~') :
    formatPart person core none none [] = .ok core ∧
    formatPart person (core ++ ['~']) none none [] =
      (match bibtexLen core with
       | some n => .ok (core ++ if n < 3 then ['~'] else [' '])
       | none => .error .tooDeep) ∧
    formatPart person (core ++ ['~', '~']) none none [] = .ok (core ++ ['~']) := by
  have hk := trailingTies_of_getLast hcore
  rw [formatPart_none, formatPart_none, formatPart_none]
  simp only [Spec.NameFormat.formatPart, withPost_plain hk, withPost_one hk, withPost_two hk,
    List.nil_append, ofOpt]
  refine ⟨trivial, ?_, trivial⟩
  cases bibtexLen core with
  | none => rfl
  | some n => simp

theorem C11_discretionary_tie_no_letters_nonvacuous :
    formatName exName "{, ~}".toList = .ok (", ~".toList, false) ∧
    formatName exName "{ -- 1999~}".toList = .ok (" -- 1999 ".toList, false) := by
  decide +kernel

/-! ### compositionality, abbreviation on pieces, several tokens, the built-in -/

/-- Compositionality.  A well-formed part `p` (`{pre letters {sep} post}`, `Part.wf`) written in
front of ANY format string `rest` — well-formed or not — is formatted by the rule for that
part alone, in front of what `rest` yields: an error of `rest` (malformed, nesting limit) stays
that error; otherwise the part contributes `Spec.formatPart person p` (the pre-text, the shown
tokens with their separators, the post-text with its tie directive; nothing for an empty name
part).  With `C11_level0_verbatim` for a brace-level-0 prefix this determines `format_name` on
every format string written from the grammar, part by part and at any position, without the
reference parser. -/
theorem C11_compositional (name : Str) (p : Part) (hp : p.wf = true) (rest : Str) :
    formatName name (p.render ++ rest) =
      match formatName name rest with
      | .error e => .error e
      | .ok (s, rep) =>
        match mkPerson name [] [] [] [] [] with
        | .error _ => .error .tooDeep
        | .ok (person, _) =>
          match Spec.NameFormat.formatPart person p with
          | some t => .ok (t ++ s, rep)
          | none => .error .tooDeep :=
  formatName_render_append name p hp rest

theorem C11_compositional_nonvacuous :
    (⟨", ".toList, some ⟨.first, false⟩, none, ".".toList⟩ : Part).wf = true ∧
    (⟨", ".toList, some ⟨.first, false⟩, none, ".".toList⟩ : Part).render = "{, f.}".toList ∧
    formatName exName "{vv~}{ll}".toList = .ok ("de~la Vall{\\'e}e~Poussin".toList, false) ∧
    Spec.NameFormat.formatPart exPerson ⟨", ".toList, some ⟨.first, false⟩, none, ".".toList⟩
      = some ", C.~L. X.~J.".toList ∧
    formatName exName "{vv~}{ll}{, f.}".toList
      = .ok ("de~la Vall{\\'e}e~Poussin, C.~L. X.~J.".toList, false) ∧
    formatName exName "{, f.}{lll}".toList = .error .illegalLetters := by decide +kernel

/-- Hyphen-aware abbreviation, at the level of the property: a token written as pieces joined
by hyphens (the pieces free of hyphens and braces; they may be empty, as in `Jean--Pierre` or
`-Jean`) abbreviates to the initials of its pieces — the first letter of each piece — in the
order of the pieces, joined by `.-` or by the explicit separator; a piece without a letter is
skipped (it leaves neither an initial nor a separator). -/
theorem C11_hyphen_abbreviation (sep : Option Str) (pieces : List Str)
    (h : ∀ q ∈ pieces, ∀ c ∈ q, c ≠ '-' ∧ c ≠ '{' ∧ c ≠ '}') :
    abbreviate sep (joinWith ['-'] pieces) =
      some (joinWith (match sep with | some s => s | none => ['.', '-'])
        ((pieces.map initial).filter (· ≠ []))) :=
  abbreviate_pieces sep pieces h

theorem C11_hyphen_abbreviation_nonvacuous :
    joinWith ['-'] ["Jean".toList, [], "Pierre".toList] = "Jean--Pierre".toList ∧
    (["Jean".toList, [], "Pierre".toList].map initial).filter (· ≠ []) = ["J".toList, "P".toList] ∧
    abbreviate none "Jean--Pierre".toList = some "J.-P".toList ∧
    abbreviate none "-Jean-12-Paul-".toList = some "J.-P".toList ∧
    abbreviate (some []) "1Jean-Émile".toList = some "JÉ".toList ∧
    abbreviate none "1-2".toList = some [] ∧
    formatName "Jean--Pierre Hansen".toList "{f.~}{ll}".toList = .ok ("J.-P. Hansen".toList, false) := by
  decide +kernel

/-- Full versus abbreviated form on a name part with ANY number of tokens (post-text without tie
directive).  The abbreviated form `f` is the full form `ff` with every token replaced by its
own abbreviation (token by token, independently of the other tokens) and — with the default
separator — a period put in front of every tie and blank (`.~` / `. `); with an explicit
separator the two forms differ only in the tokens shown. -/
theorem C11_full_vs_abbrev_tokens (person : Person) (pre run : Str) (delim : Option Str) (post : Str)
    (l : Letters) (hl : decodeLetters run = some l)
    (hne : tokens person l.slot ≠ []) (hpost : post.getLast? ≠ some '~') :
    formatPart person pre (some run) delim post =
      match (if l.full then some (tokens person l.slot)
             else (tokens person l.slot).mapM (abbreviate delim)) with
      | none => .error .tooDeep
      | some ws =>
        match delim with
        | some s => .ok (pre ++ joinWith s ws ++ post)
        | none =>
          match (if l.full then joinDefault ws ['~'] [' '] else joinDefault ws ['.', '~'] ['.', ' ']) with
          | some b => .ok (pre ++ b ++ post)
          | none => .error .tooDeep := by
  have hk := trailingTies_of_getLast hpost
  rw [formatPart_body person pre run delim post l hl hne]
  simp only [body, shownTokens]
  cases hws : (if l.full = true then some (tokens person l.slot)
      else (tokens person l.slot).mapM (abbreviate delim)) with
  | none => rfl
  | some ws =>
    simp only [Option.bind_some, joinShown]
    cases delim with
    | some s => simp [withPost_plain hk, ofOpt]
    | none =>
      simp only
      cases (if l.full = true then joinDefault ws ['~'] [' '] else joinDefault ws ['.', '~'] ['.', ' ']) with
      | none => rfl
      | some b => simp [withPost_plain hk, ofOpt]

theorem C11_full_vs_abbrev_tokens_nonvacuous :
    decodeLetters "f".toList = some ⟨.first, false⟩ ∧ decodeLetters "FF".toList = some ⟨.first, true⟩ ∧
    tokens { first := ["Jean-Paul".toList, "Ab".toList, "Charles".toList], last := ["X".toList] } .first
      = ["Jean-Paul".toList, "Ab".toList, "Charles".toList] ∧
    formatPart { first := ["Jean-Paul".toList, "Ab".toList, "Charles".toList], last := ["X".toList] }
      [] (some "ff".toList) none [] = .ok "Jean-Paul Ab~Charles".toList ∧
    formatPart { first := ["Jean-Paul".toList, "Ab".toList, "Charles".toList], last := ["X".toList] }
      [] (some "f".toList) none ".".toList = .ok "J.-P. A.~C.".toList ∧
    formatPart { first := ["Jean-Paul".toList, "Ab".toList, "Charles".toList], last := ["X".toList] }
      [] (some "f".toList) (some []) [] = .ok "JPAC".toList := by decide +kernel

/-- The n-th name of a name list.  For a list of names written with ` and ` between them — each
name brace-balanced, without a brace-level-0 ` and ` of its own and without surrounding white
space (`C02.NameOk`) — the `format.name$` built-in with name number `k + 1` formats exactly the
name at position `k` (counted from 0) of the list, with `format_name`; a name number outside
`1 .. count` yields the "no such name" outcome (warning, empty string) whatever the list and the
format; and the built-in never ends in an internal error. -/
theorem C11_nth_name :
    (∀ (xs : List Str), (∀ x ∈ xs, C02.NameOk x ∧ strip x = x) →
      joinWith " and ".toList xs ≠ [] →
      ∀ (k : Nat) (x : Str), xs[k]? = some x → ∀ fmt,
        formatNth (joinWith " and ".toList xs) (k + 1) fmt =
          match formatName x fmt with
          | .error e => .error e
          | .ok (s, rep) => .ok (.formatted s rep)) ∧
    (∀ names (n : Int) fmt, (n < 1 ∨ ((splitNameList names).length : Int) < n) →
      formatNth names n fmt = .ok .noSuchName) ∧
    (∀ names n fmt, formatNth names n fmt ≠ .error .internal) :=
  ⟨fun xs hx hs k x hk fmt => formatNth_join xs hx hs k x hk fmt,
   formatNth_out_of_range, formatNth_not_internal⟩

theorem C11_nth_name_nonvacuous :
    (∀ x ∈ ["von Beethoven, Jr, Ludwig".toList, "{Barnes and Noble}".toList, "Jean-Paul Sartre".toList],
      (BibWrite.andFree x = true ∧ depthAfter 0 x = some 0) ∧ strip x = x) ∧
    joinWith " and ".toList ["von Beethoven, Jr, Ludwig".toList, "{Barnes and Noble}".toList, "Jean-Paul Sartre".toList]
      = "von Beethoven, Jr, Ludwig and {Barnes and Noble} and Jean-Paul Sartre".toList ∧
    formatNth "von Beethoven, Jr, Ludwig and {Barnes and Noble} and Jean-Paul Sartre".toList 3 "{f.~}{ll}".toList
      = .ok (.formatted "J.-P. Sartre".toList false) ∧
    formatNth "von Beethoven, Jr, Ludwig and {Barnes and Noble} and Jean-Paul Sartre".toList 2 "{ff~}{ll}".toList
      = .ok (.formatted "{Barnes and Noble}".toList false) ∧
    formatNth "von Beethoven, Jr, Ludwig and {Barnes and Noble} and Jean-Paul Sartre".toList 4 "{ll}".toList
      = .ok .noSuchName ∧
    formatNth "A and B".toList 0 "{ll}".toList = .ok .noSuchName := by
  decide +kernel

/-- The lower-casing of a letter run.  `check_format_chars` and `NamePart.__init__` apply
`str.lower()` to the brace-level-1 letter run; the model and the reference apply the ASCII
lower-casing.  Both accept exactly the same runs: `lowerU` is `str.lower()` character by
character from the interpreter's regenerated table, and no character outside ASCII is mapped to
one of `f l v j` (kernel evaluation over the whole table), so a run is one of
f ff l ll v vv j jj after `str.lower()` iff it is after ASCII lower-casing — iff the model's
`check_format_chars` accepts it, iff the reference grammar decodes it. -/
theorem C11_letter_run_lowercasing (run : Str) :
    legalLower (lowerU run) = formatCharsOk false run ∧
    legalLower (lowerU run) = Spec.legalLetters run ∧
    legalLower (lowerU run) = (decodeLetters run).isSome := by
  have h1 : legalLower (lowerU run) = Spec.legalLetters run := legalLower_lowerU run
  have h2 : formatCharsOk false run = Spec.legalLetters run := formatCharsOk_eq run
  exact ⟨h1.trans h2.symm, h1, by rw [decodeLetters_isSome]; exact h1.trans h2.symm⟩

theorem C11_letter_run_lowercasing_nonvacuous :
    legalLower (lowerU "FF".toList) = true ∧ legalLower (lowerU "vV".toList) = true ∧
    legalLower (lowerU "ÉÉ".toList) = false ∧ lowerU "ÉÉ".toList = "éé".toList ∧
    legalLower (lowerU [Char.ofNat 0x212A]) = false ∧ lowerU [Char.ofNat 0x212A] = "k".toList ∧
    legalLower (lowerU "ſ".toList) = false := by decide +kernel

end Pybtex.Props
