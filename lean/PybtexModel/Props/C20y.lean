/-
C20 — the error channel of C16 threaded through the `.aux` reader (`Model/AuxFileErr.lean`; audit 2, finding on
`C20_modes`): `parseT fs s0 …` starts in ANY state `s0` of the globals of `pybtex.errors`, every `report_error` is
`Errors.report` on the state the previous one left.  Property theorems only (simulation: `Lemmas/AuxFileErr.lean`).
-/
import PybtexModel.Props.C20x
import PybtexModel.Lemmas.AuxFileErr

namespace Pybtex.Props
open Pybtex Pybtex.Aux
open Pybtex.Errors (execReports printedOf raisedOf Obs)

/-- **The threaded reader is the mode-generic reader.**  For every module state `s0` the parse starts in, every file
system, fuel and file: reading the channel back out of the error state (`chan`: what `captured_errors` gained / the
warnings printed) the threaded reader returns, or raises, exactly what `parseG` does in the mode `s0` amounts to — same
citations, style, data, context, same fatal error, same channel. -/
theorem C20_threaded_refines (fs : FS) (s0 : Errors.State Report) (fuel : Nat) (p : Path) :
    viewResult s0 (parseT fs s0 fuel p) = parseG fs (modeOf s0) fuel p :=
  parseT_view fs s0 fuel p

/-- **The module state after the parse is `Errors.report` folded over the reports** (`Errors.execReports` of C16:
report after report, each on the state the one before returned).  Either no report was raised, and module state and
observations when the parse is over (returned or aborted by a fatal error) are those of running the channel of `parseG`
through `Errors.report` from `s0`; or `s0` is strict without an open capture, the parse ended in the first
`report_error` call, which raised its argument `e`: state untouched, `[raised e]` the only observation, nothing in the
channel — again `execReports s0 [e]`. -/
theorem C20_threaded_exec (fs : FS) (s0 : Errors.State Report) (fuel : Nat) (p : Path) :
    execReports s0 (captured (parseG fs (modeOf s0) fuel p)) =
      ((finalErr (parseT fs s0 fuel p)).1, (finalErr (parseT fs s0 fuel p)).2, none) ∨
    (modeOf s0 = .strict ∧ ∃ e, parseT fs s0 fuel p = .error ⟨.aux e, s0, [Obs.raised e]⟩ ∧
      parseG fs .strict fuel p = .error ⟨.aux e, []⟩ ∧
      execReports s0 [e] = ((finalErr (parseT fs s0 fuel p)).1, (finalErr (parseT fs s0 fuel p)).2, some e)) := by
  rcases parseT_final fs s0 fuel p with h | ⟨h1, h2, e, h3, h4⟩
  · exact Or.inl h.exec
  · right
    have hm : modeOf s0 = .strict := by simp [modeOf, h1, h2]
    refine ⟨hm, e, h3, hm ▸ h4, ?_⟩
    rw [h3, Errors.execReports_strict e [] s0 h1 h2]
    rfl

/-- **Non-strict mode** (hypotheses: no capture context is open, `strict` is off; `error_code` may be anything).  With
`ch` = the reports of the capture reading `parse` (all theorems of C20 describe them), in order: every one of them was
printed as a warning, one observation per report and nothing else; `strict` and `captured_errors` are untouched;
`error_code` is 2 if at least one was printed and UNCHANGED otherwise — so after a start with `error_code = 0`:
`error_code = 2` iff at least one report was printed.  (`Errors.execReports_nonstrict` of C16 on the simulation.) -/
theorem C20_threaded_nonstrict (fs : FS) (s0 : Errors.State Report) (fuel : Nat) (p : Path)
    (hc : s0.captured = none) (hs : s0.strict = false) :
    let err := (finalErr (parseT fs s0 fuel p)).1
    let obs := (finalErr (parseT fs s0 fuel p)).2
    let ch := captured (parse fs fuel p)
    obs = ch.map Obs.printed ∧ printedOf obs = ch ∧ raisedOf obs = [] ∧
    err.strict = false ∧ err.captured = none ∧
    err.errorCode = (if printedOf obs = [] then s0.errorCode else 2) ∧
    (s0.errorCode = 0 → (err.errorCode = 2 ↔ printedOf obs ≠ [])) := by
  intro err obs ch
  have hm : modeOf s0 = .nonStrict := by simp [modeOf, hc, hs]
  have hp : parseG fs (modeOf s0) fuel p = parse fs fuel p := by
    rw [hm]; exact parseFileG_ok fs .nonStrict (by decide) fuel _ p true
  have hraised : ∀ l : List Report, raisedOf (l.map Obs.printed) = [] := by
    intro l; induction l with
    | nil => rfl
    | cons a l ih => simp [raisedOf, ih]
  rcases parseT_final fs s0 fuel p with h | ⟨_, h2, _⟩
  · rw [hp] at h
    have he := h.exec
    rw [Errors.execReports_nonstrict _ s0 hc hs] at he
    simp only [Prod.mk.injEq, and_true] at he
    obtain ⟨he1, he2⟩ := he
    have ho : obs = ch.map Obs.printed := he2.symm
    have hpr : printedOf obs = ch := by rw [ho, printedOf_map_printed]
    have hcode : err.errorCode = (if printedOf obs = [] then s0.errorCode else 2) := by
      show (finalErr (parseT fs s0 fuel p)).1.errorCode = _
      rw [← he1, hpr]
      by_cases hq : captured (parse fs fuel p) = [] <;> simp [ch, hq]
    refine ⟨ho, hpr, by rw [ho]; exact hraised ch, ?_, ?_, hcode, ?_⟩
    · show (finalErr (parseT fs s0 fuel p)).1.strict = false
      rw [← he1]; exact hs
    · show (finalErr (parseT fs s0 fuel p)).1.captured = none
      rw [← he1]; exact hc
    · intro h0
      rw [hcode, h0]
      by_cases hq : printedOf obs = [] <;> simp [hq]
  · rw [hs] at h2; cases h2

/-- **Capture mode** (hypothesis: a capture context is open and has collected `l0` so far).  The module state after the
parse is `s0` with `captured_errors = l0 ++ ch`, `ch` = the reports of `parse` in order: `error_code` and `strict`
untouched, every observation is "collected", nothing was printed, nothing raised. -/
theorem C20_threaded_capture (fs : FS) (s0 : Errors.State Report) (fuel : Nat) (p : Path) (l0 : List Report)
    (hc : s0.captured = some l0) :
    let err := (finalErr (parseT fs s0 fuel p)).1
    let obs := (finalErr (parseT fs s0 fuel p)).2
    let ch := captured (parse fs fuel p)
    err = { s0 with captured := some (l0 ++ ch) } ∧ err.errorCode = s0.errorCode ∧ err.strict = s0.strict ∧
    obs = ch.map (fun _ => Obs.collected) ∧ printedOf obs = [] ∧ raisedOf obs = [] := by
  intro err obs ch
  have hm : modeOf s0 = .capture := by simp [modeOf, hc]
  have hp : parseG fs (modeOf s0) fuel p = parse fs fuel p := by
    rw [hm]; exact parseFileG_ok fs .capture (by decide) fuel _ p true
  have hnone : ∀ l : List Report, printedOf (l.map (fun _ => (Obs.collected : Obs Report))) = [] ∧
      raisedOf (l.map (fun _ => (Obs.collected : Obs Report))) = [] := by
    intro l; induction l with
    | nil => exact ⟨rfl, rfl⟩
    | cons a l ih => simp [printedOf, raisedOf, ih]
  rcases parseT_final fs s0 fuel p with h | ⟨h1, _, _⟩
  · rw [hp] at h
    have he := h.exec
    rw [Errors.execReports_captured _ s0 l0 hc] at he
    simp only [Prod.mk.injEq, and_true] at he
    obtain ⟨he1, he2⟩ := he
    have ho : obs = ch.map (fun _ => Obs.collected) := he2.symm
    have herr : err = { s0 with captured := some (l0 ++ ch) } := he1.symm
    refine ⟨herr, by rw [herr], by rw [herr], ho, ?_, ?_⟩
    · rw [ho]; exact (hnone ch).1
    · rw [ho]; exact (hnone ch).2
  · rw [hc] at h1; cases h1

/-- **Strict mode** (hypotheses: no capture context is open, `strict` is on).  Nothing is printed, the module state is
untouched (`error_code` too), and either no `report_error` call was made at all — then the parse returns or aborts
exactly as the capture reading does, which has no reports — or the FIRST `report_error` call raised its argument and
ended the parse: one observation, `raised e`, the fatal error of the parse is that `e`.  NOT proved here: that `e` is the
first report of the capture reading `parse` (checked on every generated document). -/
theorem C20_threaded_strict (fs : FS) (s0 : Errors.State Report) (fuel : Nat) (p : Path)
    (hc : s0.captured = none) (hs : s0.strict = true) :
    let r := parseT fs s0 fuel p
    (finalErr r).1 = s0 ∧ printedOf (finalErr r).2 = [] ∧
    (((finalErr r).2 = [] ∧ captured (parseG fs .strict fuel p) = [] ∧ viewResult s0 r = parseG fs .strict fuel p) ∨
     (∃ e, r = .error ⟨.aux e, s0, [Obs.raised e]⟩ ∧ (finalErr r).2 = [Obs.raised e])) := by
  intro r
  have hm : modeOf s0 = .strict := by simp [modeOf, hc, hs]
  have hv : viewResult s0 r = parseG fs .strict fuel p := hm ▸ parseT_view fs s0 fuel p
  rcases parseT_final fs s0 fuel p with h | ⟨_, _, e, h3, _⟩
  · rw [hm] at h
    unfold Aux.Inv at h
    simp only [hc, hs, if_true] at h
    obtain ⟨h1, h2, h3⟩ := h
    refine ⟨h2, ?_, Or.inl ⟨h3, h1, hv⟩⟩
    show printedOf (finalErr (parseT fs s0 fuel p)).2 = []
    rw [h3]; rfl
  · have hr : r = .error ⟨.aux e, s0, [Obs.raised e]⟩ := h3
    refine ⟨by rw [hr]; rfl, by rw [hr]; rfl, Or.inr ⟨e, hr, by rw [hr]; rfl⟩⟩

/-! ### non-vacuity: `demoFS` (four reports) in the three kinds of module state -/

/-- non-strict start with `error_code = 0`: four warnings, `error_code = 2`; a document without problems leaves
`error_code = 0`; the view is `parseG` -/
theorem C20_threaded_nonstrict_nonvacuous :
    let s0 : Errors.State Report := ⟨false, 0, none⟩
    s0.captured = none ∧ s0.strict = false ∧
    (printedOf (finalErr (parseT demoFS s0 4 "t.aux".toList)).2).length = 4 ∧
    (finalErr (parseT demoFS s0 4 "t.aux".toList)).1 = ⟨false, 2, none⟩ ∧
    (finalErr (parseT (fsOf [("t".toList, ["\\bibstyle{s}".toList, "\\bibdata{x}".toList])]) s0 2 "t".toList)) =
      (⟨false, 0, none⟩, []) := by
  refine ⟨rfl, rfl, by decide +kernel, by decide +kernel, by decide +kernel⟩

/-- a capture context that holds one error already, `error_code = 7` from an earlier run: four more collected,
`error_code` still 7 -/
theorem C20_threaded_capture_nonvacuous :
    let e0 : Report := ⟨.anotherBibdata, "x.aux".toList, some 3, none⟩
    let s0 : Errors.State Report := ⟨false, 7, some [e0]⟩
    s0.captured = some [e0] ∧
    (finalErr (parseT demoFS s0 4 "t.aux".toList)).1 = ⟨false, 7, some (e0 :: captured (parse demoFS 4 "t.aux".toList))⟩ ∧
    (captured (parse demoFS 4 "t.aux".toList)).length = 4 ∧
    viewResult s0 (parseT demoFS s0 4 "t.aux".toList) = parse demoFS 4 "t.aux".toList := by
  refine ⟨rfl, by decide +kernel, by decide +kernel, by decide +kernel⟩

/-- strict start: the first of the four reports (`u.aux`, line 1) is raised, the state is untouched; a document
without problems is read to the end with no observation -/
theorem C20_threaded_strict_nonvacuous :
    let s0 : Errors.State Report := ⟨true, 0, none⟩
    s0.captured = none ∧ s0.strict = true ∧
    parseT demoFS s0 4 "t.aux".toList =
      .error ⟨.aux ⟨.caseMismatch "b".toList "B".toList, "u.aux".toList, some 1, some "\\citation{b}".toList⟩, s0,
        [Obs.raised ⟨.caseMismatch "b".toList "B".toList, "u.aux".toList, some 1, some "\\citation{b}".toList⟩]⟩ ∧
    (captured (parse demoFS 4 "t.aux".toList)).head? =
      some ⟨.caseMismatch "b".toList "B".toList, "u.aux".toList, some 1, some "\\citation{b}".toList⟩ ∧
    finalErr (parseT (fsOf [("t".toList, ["\\bibstyle{s}".toList, "\\bibdata{x}".toList])]) s0 2 "t".toList) = (s0, []) := by
  refine ⟨rfl, rfl, by decide +kernel, by decide +kernel, by decide +kernel⟩

end Pybtex.Props
