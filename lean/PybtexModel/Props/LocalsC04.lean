/-
C04, extension: theorems about the LOCAL functions of `Person._parse_string` one by one
(`find_pos`, `split_at`, `rsplit_at`, `special_char_islower`, `process_von_last`,
`process_first_middle`; models `findPosM` in `Model/Names.lean`, `splitAtM` / `rsplitAtM` /
`processVonLastL` / `parseFirstVonLastL` in `Model/NamesLocal.lean`; each is driven against the real
closure by a driver op of its own: `findpos`, `spislower`, `isvon`, `vonlast`), the tokeniser of the
property text against the model of `split_tex_string` (`Lemmas/NamesTokens.lean`,
`Lemmas/NamesTokensAll.lean`), `Person(...)` in the three error modes (`mkPersonMode`, op
`personmode`), and the statement
that the constants the model hard-codes are the ones of the current source (`Gen/NamesTables.lean`,
regenerated on every run from the code objects of /repo).
-/
import PybtexModel.Props.C04
import PybtexModel.Model.NamesLocal
import PybtexModel.Gen.NamesTables
import PybtexModel.Lemmas.NamesTokens
import PybtexModel.Lemmas.NamesTokensAll

namespace Pybtex.Props
open Pybtex Spec Names

/-! ### the constants -/

/-- The constants that model and rule hard-code ARE the ones of the current source (kernel
evaluation against the regenerated `Gen/NamesTables.lean`): the two tuples of built-in control
sequences of `special_char_islower` (model: `lowerControlSeqs` / `upperControlSeqs`; rule:
`Spec.builtinCase` answers lower / upper exactly on them), the item `('{', 1)` that `is_von_name`
compares `previous` with (`vonScanFrom` continues with `afterOpen = true` exactly after it), the
scanner's nesting limit (`maxLevel`), the patterns of `BIBTEX_SPACE_RE` / `BRACE_RE` (the text the
hand-written matchers `spaceRun` / `fcbAux` were written from), and the separators of
`_parse_string` (`','`, `' '`) and of `__str__` (`' '`, `', '`, `','`), the format string
`'Too many commas in {}'` of `InvalidNameString` and the prefix `'WARNING: '` of `report_error`. -/
theorem C04_tables_current :
    lowerControlSeqs = Gen.nameLowerCS ∧ upperControlSeqs = Gen.nameUpperCS ∧
    (∀ cs ∈ Gen.nameLowerCS, Spec.builtinCase cs = some .lower) ∧
    (∀ cs ∈ Gen.nameUpperCS, Spec.builtinCase cs = some .upper) ∧
    Gen.nameOpenItems = [(['{'], 1)] ∧
    maxLevel = Gen.scanMaxLevel ∧
    Gen.bibtexSpacePattern = ['(', '?', ':', '\\', '\\', ' ', '|', '\\', 's', '|', '(', '?', '<', '!', '\\', '\\', ')', '~', ')', '+'] ∧
    Gen.bracePattern = ['{', '|', '}'] ∧
    Gen.parseStringConsts = [[','], [' ']] ∧
    Gen.strConsts = [[' '], [',', ' '], [',']] ∧
    (∀ n : Str, tooManyCommasMessage n = Gen.tooManyCommasFormat.take 19 ++ Errors.pyRepr n) ∧
    Gen.tooManyCommasFormat.drop 19 = ['{', '}'] ∧
    Gen.warningPrefix = ['W', 'A', 'R', 'N', 'I', 'N', 'G', ':', ' '] := by
  refine ⟨by decide +kernel, by decide +kernel, by decide +kernel, by decide +kernel, by decide +kernel, by decide +kernel,
    by decide +kernel, by decide +kernel, by decide +kernel, by decide +kernel, ?_, by decide +kernel, by decide +kernel⟩
  intro n
  have : Gen.tooManyCommasFormat.take 19 = "Too many commas in ".toList := by decide +kernel
  rw [this]; rfl

/-- the rule knows no built-in control sequence beyond the source's two tuples: a control sequence
that `Spec.builtinCase` answers for is in one of them -/
theorem C04_tables_current_nonvacuous :
    Gen.nameLowerCS.length = 8 ∧ Gen.nameUpperCS.length = 5 ∧
    (∀ cs : Str, ∀ k, Spec.builtinCase cs = some k →
      (k = .lower ∧ cs ∈ Gen.nameLowerCS) ∨ (k = .upper ∧ cs ∈ Gen.nameUpperCS)) := by
  refine ⟨by decide, by decide, ?_⟩
  intro cs k h
  unfold Spec.builtinCase at h
  split at h
  · rename_i hm
    cases h
    exact Or.inl ⟨rfl, by have : Gen.nameLowerCS = ["i", "j", "oe", "ae", "aa", "o", "l", "ss"].map String.toList := by decide
                          rw [this]; exact hm⟩
  · split at h
    · rename_i hm
      cases h
      exact Or.inr ⟨rfl, by have : Gen.nameUpperCS = ["OE", "AE", "AA", "O", "L"].map String.toList := by decide
                            rw [this]; exact hm⟩
    · cases h

/-! ### `find_pos`, `split_at`, `rsplit_at` -/

/-- `find_pos(lst, pred)` for a predicate that does not raise: the index of the first item that
satisfies it, `len(lst)` when there is none (0 for the empty list: repair #3); every item before
that index fails the predicate, and the item at it (if any) satisfies it. -/
theorem C04_find_pos_spec {α : Type} (q : α → Bool) (l : List α) :
    findPosM (ε := NameErr) (fun a => .ok (q a)) l = .ok (l.findIdx q) ∧
    l.findIdx q ≤ l.length ∧
    (∀ a ∈ l.take (l.findIdx q), q a = false) ∧
    (∀ a, (l.drop (l.findIdx q)).head? = some a → q a = true) := by
  refine ⟨?_, List.findIdx_le_length, ?_, ?_⟩
  · cases h : findPosM (ε := NameErr) (fun a => .ok (q a)) l with
    | error e =>
      obtain ⟨t, _, ht⟩ := findPosM_error h
      cases ht
    | ok n =>
      have := findPosM_ok (q := q) h (by intro t _ b hb; cases hb; rfl)
      rw [this]
  · induction l with
    | nil => simp
    | cons x r ih =>
      intro a ha
      rw [List.findIdx_cons] at ha
      cases hx : q x with
      | true => simp [hx] at ha
      | false =>
        simp only [hx, cond_false, List.take_succ_cons, List.mem_cons] at ha
        rcases ha with rfl | ha
        · exact hx
        · exact ih a ha
  · intro a ha
    rw [List.head?_drop] at ha
    have hlt : l.findIdx q < l.length := by
      rcases Nat.lt_or_ge (l.findIdx q) l.length with h | h
      · exact h
      · rw [List.getElem?_eq_none h] at ha; cases ha
    rw [List.getElem?_eq_getElem hlt] at ha
    cases ha
    exact List.findIdx_getElem (w := hlt)

theorem C04_find_pos_spec_nonvacuous :
    findPosM (ε := NameErr) (fun a => .ok (decide (a = 1))) [0, 0, 1, 0, 1] = .ok 2 ∧
    findPosM (ε := NameErr) (fun a => .ok (decide (a = 1))) [0, 0] = .ok 2 ∧
    findPosM (ε := NameErr) (fun a => .ok (decide (a = 1))) ([] : List Nat) = .ok 0 := by decide

/-- `split_at` / `rsplit_at` for a predicate that does not raise: both return the list cut in two
(nothing lost, duplicated or reordered); `split_at` cuts in front of the FIRST item satisfying the
predicate (at the end when there is none), `rsplit_at` directly after the LAST one (at the start
when there is none): no item of the right part of `rsplit_at` satisfies the predicate and the left
part, when not empty, ends with one that does. -/
theorem C04_split_at_spec {α : Type} (q : α → Bool) (l : List α) :
    (∃ a b, splitAtM (ε := NameErr) (fun x => .ok (q x)) l = .ok (a, b) ∧ a ++ b = l ∧
      (∀ x ∈ a, q x = false) ∧ (∀ x, b.head? = some x → q x = true)) ∧
    (∃ a b, rsplitAtM (ε := NameErr) (fun x => .ok (q x)) l = .ok (a, b) ∧ a ++ b = l ∧
      (∀ x ∈ b, q x = false) ∧ (∀ x, a.getLast? = some x → q x = true)) := by
  constructor
  · obtain ⟨h1, _, h3, h4⟩ := C04_find_pos_spec q l
    exact ⟨l.take (l.findIdx q), l.drop (l.findIdx q), by simp [splitAtM, h1], List.take_append_drop _ _, h3, h4⟩
  · obtain ⟨h1, h2, h3, h4⟩ := C04_find_pos_spec q l.reverse
    refine ⟨l.take (l.length - l.reverse.findIdx q), l.drop (l.length - l.reverse.findIdx q),
      by simp [rsplitAtM, h1], List.take_append_drop _ _, ?_, ?_⟩
    · intro x hx
      apply h3 x
      have hk : l.reverse.findIdx q ≤ l.length := by simpa using h2
      have : l.drop (l.length - l.reverse.findIdx q) = (l.reverse.take (l.reverse.findIdx q)).reverse := by
        rw [List.reverse_take]; simp
      rw [this] at hx
      simpa using hx
    · intro x hx
      apply h4 x
      have hk : l.reverse.findIdx q ≤ l.length := by simpa using h2
      have : l.take (l.length - l.reverse.findIdx q) = (l.reverse.drop (l.reverse.findIdx q)).reverse := by
        rw [List.reverse_drop]; simp
      rw [this, List.getLast?_reverse] at hx
      exact hx

theorem C04_split_at_spec_nonvacuous :
    splitAtM (ε := NameErr) (fun a => .ok (decide (a % 2 = 1))) [0, 2, 1, 4, 3, 6] = .ok ([0, 2], [1, 4, 3, 6]) ∧
    rsplitAtM (ε := NameErr) (fun a => .ok (decide (a % 2 = 1))) [0, 2, 1, 4, 3, 6] = .ok ([0, 2, 1, 4, 3], [6]) ∧
    rsplitAtM (ε := NameErr) (fun a => .ok (decide (a % 2 = 1))) [0, 2] = .ok ([], [0, 2]) := by decide

/-! ### the model of `_parse_string` is these helpers put together as in the code -/

/-- [model wiring] `process_von_last` of `Model/Names.lean` (which inlines `rsplit_at`) is
`process_von_last` written with `rsplit_at` (`processVonLastL`), and the no-comma branch of
`parseName` is `split_at` + the `pop` of the last token + `process_first_middle` +
`process_von_last` (`parseFirstVonLastL`) — for every argument. -/
theorem C04_local_helpers_wiring (p : Person) (parts : List Str) (name a : Str)
    (h1 : splitTex .comma name = [a]) :
    processVonLast p parts = processVonLastL p parts ∧
    parseName name = (parseFirstVonLastL name).map fun q => (q, false) := by
  have hv : ∀ (p : Person) (parts : List Str), processVonLast p parts = processVonLastL p parts := by
    intro p parts
    unfold processVonLast processVonLastL rsplitAtM
    simp only []
    split
    · cases findPosM isVonName parts.dropLast.reverse <;> rfl
    · rfl
  refine ⟨hv p parts, ?_⟩
  unfold parseName parseFirstVonLastL splitAtM
  simp only [h1]
  have : ¬ ([a].length > 3) := by simp
  simp only [this, decide_false, Bool.false_eq_true, if_false]
  have hm : ∀ x : Except NameErr Person,
      (match x with | .error e => (.error e : Except NameErr (Person × Bool)) | .ok p => .ok (p, false)) =
        x.map fun q => (q, false) := by
    intro x; cases x <;> rfl
  cases hf : findPosM isVonName (splitTex .space name) with
  | error e => rfl
  | ok pos =>
    simp only [← hv]
    by_cases hc : (splitTex .space name).drop pos = [] ∧ (splitTex .space name).take pos ≠ []
    · simp only [if_pos hc]
      exact hm _
    · simp only [if_neg hc]
      exact hm _

theorem C04_local_helpers_wiring_nonvacuous :
    splitTex .comma nameVP = [nameVP] ∧
    (parseFirstVonLastL nameVP).map (fun q => (q, false)) = .ok (Spec.split nameVP) ∧
    processVonLastL {} (splitTex .space "de la Vall{\\'e}e Poussin".toList) =
      .ok { prelast := ["de".toList, "la".toList], last := ["Vall{\\'e}e".toList, "Poussin".toList] } := by
  decide +kernel

/-! ### `special_char_islower`, `process_von_last`, `process_first_middle` against the rule -/

/-- `special_char_islower(sc)` answers by the rule's `Spec.specialCase` on EVERY string (also one
that does not start with a backslash, is empty, or contains braces): True exactly when the rule says
lower case. -/
theorem C04_special_char_case (sc : Str) :
    specialCharIsLower sc = decide (Spec.specialCase sc = .lower) := specialCharIsLower_eq sc

theorem C04_special_char_case_nonvacuous :
    specialCharIsLower "\\'e".toList = true ∧ specialCharIsLower "\\'E".toList = false ∧
    specialCharIsLower "\\relax Éx".toList = false ∧ specialCharIsLower "\\ss".toList = true ∧
    specialCharIsLower "\\AE x".toList = false ∧ specialCharIsLower "\\".toList = false ∧
    specialCharIsLower [] = false ∧ specialCharIsLower "\\x{a}".toList = true := by decide +kernel

/-- `process_von_last(parts)` on ANY list of non-empty tokens (not only one that came out of the
tokeniser) never raises and is the rule's `Spec.vonLast`: von = everything up to the last
lower-case token before the final token, Last = the rest; nothing is lost or reordered.
`process_first_middle(parts)`: the first token is First, the others Middle. -/
theorem C04_von_last_spec (p : Person) (ts : List Str) (hne : ∀ t ∈ ts, t ≠ []) :
    processVonLast p ts = .ok { p with prelast := p.prelast ++ (Spec.vonLast ts).1,
                                        last := p.last ++ (Spec.vonLast ts).2 } ∧
    (Spec.vonLast ts).1 ++ (Spec.vonLast ts).2 = ts ∧
    processFirstMiddle p ts = { p with first := p.first ++ ts.take 1, middle := p.middle ++ ts.drop 1 } := by
  refine ⟨?_, by rw [vonLast_eq]; exact vonLastWith_append _ _, processFirstMiddle_eq p ts⟩
  cases h : processVonLast p ts with
  | error e =>
    obtain ⟨t, ht, he⟩ := processVonLast_error h
    rw [isVonName_eq (hne t (mem_of_mem_dropLast ht))] at he
    cases he
  | ok p' =>
    have := processVonLast_ok (q := isLow) h (by
      intro t ht b hb
      rw [isVonName_eq (hne t (mem_of_mem_dropLast ht))] at hb
      cases hb; rfl)
    rw [this, vonLast_eq]

theorem C04_von_last_spec_nonvacuous :
    processVonLast {} ["de".toList, "la".toList, "Vall{\\'e}e".toList, "Poussin".toList] =
      .ok { prelast := ["de".toList, "la".toList], last := ["Vall{\\'e}e".toList, "Poussin".toList] } ∧
    processVonLast {} ["van".toList] = .ok { last := ["van".toList] } ∧
    processVonLast {} ["A".toList, "von".toList, "B".toList, "der".toList] =
      .ok { prelast := ["A".toList, "von".toList], last := ["B".toList, "der".toList] } := by
  decide +kernel

/-! ### the tokeniser of the theorems IS the tokeniser of the property text (balanced names) -/

/-- "split into tokens at brace-level-0 whitespace and ties": on EVERY brace-balanced string the
model of `split_tex_string` (`splitTex`, the tokeniser all C04 theorems are stated with: `partition` /
`re.split` / `_find_closing_brace`) returns exactly the tokens of the one-pass tokeniser stated from
the property text (`Spec.nameTokens`: the maximal pieces between brace-level-0 white space, ties that
do not follow a backslash, and control spaces — a brace counter and nothing else), and its comma
parts are exactly the stripped pieces between brace-level-0 commas (`Spec.nameCommaParts`).  So far
this was compared on the explored inputs only. -/
theorem C04_tokeniser_is_rule (s : Str) (hb : balanced s = true) :
    splitTex .space s = Spec.nameTokens s ∧ splitTex .comma s = Spec.nameCommaParts s :=
  ⟨C04T.splitTex_space_eq_nameTokens s hb, C04T.splitTex_comma_eq_nameCommaParts s hb⟩

theorem C04_tokeniser_is_rule_nonvacuous :
    balanced "de {la Vall{\\'e}e}~\\ Poussin\\~x, {Jr, Sr} ,A".toList = true ∧
    Spec.nameTokens "de {la Vall{\\'e}e}~\\ Poussin\\~x".toList =
      ["de".toList, "{la Vall{\\'e}e}".toList, "Poussin\\~x".toList] ∧
    Spec.nameCommaParts "de {la Vall{\\'e}e}~\\ Poussin\\~x, {Jr, Sr} ,A".toList =
      ["de {la Vall{\\'e}e}~\\ Poussin\\~x".toList, "{Jr, Sr}".toList, "A".toList] := by decide +kernel

/-- `C04_tokens_preserved` with the tokeniser of the property text, for a brace-balanced name: no
token (a maximal piece between brace-level-0 separators, `Spec.nameTokens`) of a comma part (a piece
between brace-level-0 commas, `Spec.nameCommaParts`) is lost, duplicated or reordered — without
commas First ++ Middle ++ von ++ Last are the tokens of the name; with commas von ++ Last are the
tokens of the first part, Jr those of the second (none when there are two parts), First ++ Middle
those of the last part (of the remaining parts joined by blanks when there are more than three). -/
theorem C04_tokens_by_rule (name : Str) (p : Person) (b : Bool) (hb : balanced name = true)
    (h : parseName name = .ok (p, b)) :
    match Spec.nameCommaParts name with
    | [] => False
    | [_] => p.first ++ p.middle ++ p.prelast ++ p.last = Spec.nameTokens name ∧ p.lineage = []
    | [p0, pl] =>
      p.prelast ++ p.last = Spec.nameTokens p0 ∧ p.lineage = [] ∧ p.first ++ p.middle = Spec.nameTokens pl
    | p0 :: p1 :: rest =>
      p.prelast ++ p.last = Spec.nameTokens p0 ∧ p.lineage = Spec.nameTokens p1 ∧
      p.first ++ p.middle = Spec.nameTokens (joinWith [' '] rest) := by
  have h0 := (C04_tokens_preserved name p b h).2
  have hparts : ∀ q ∈ splitTex .comma name, balanced q = true := C12_split_stripped_balanced .comma name hb
  rw [← (C04_tokeniser_is_rule name hb).2]
  revert h0 hparts
  generalize splitTex .comma name = parts
  intro h0 hparts
  match parts, h0, hparts with
  | [], h0, _ => exact h0
  | [_], h0, _ => dsimp only at h0 ⊢; rw [← (C04_tokeniser_is_rule name hb).1]; exact h0
  | [p0, pl], h0, hp =>
    dsimp only at h0 ⊢
    rw [← (C04_tokeniser_is_rule p0 (hp p0 (by simp))).1, ← (C04_tokeniser_is_rule pl (hp pl (by simp))).1]
    exact h0
  | p0 :: p1 :: r0 :: rest, h0, hp =>
    have hj : balanced (joinWith [' '] (r0 :: rest)) = true :=
      balanced_joinWith_blank (r0 :: rest) (fun x hx => hp x (List.mem_cons_of_mem _ (List.mem_cons_of_mem _ hx)))
    dsimp only at h0 ⊢
    rw [← (C04_tokeniser_is_rule p0 (hp p0 (by simp))).1, ← (C04_tokeniser_is_rule p1 (hp p1 (by simp))).1,
      ← (C04_tokeniser_is_rule _ hj).1]
    exact h0

theorem C04_tokens_by_rule_nonvacuous :
    balanced nameVB = true ∧ (parseName nameVB).toOption.isSome = true ∧
    Spec.nameCommaParts nameVB = ["von Beethoven".toList, "Jr".toList, "Ludwig".toList] ∧
    balanced "a, {b, c}, d, e f".toList = true ∧
    Spec.nameCommaParts "a, {b, c}, d, e f".toList = ["a".toList, "{b, c}".toList, "d".toList, "e f".toList] ∧
    (parseName "a, {b, c}, d, e f".toList).toOption.map (·.2) = some true := by decide +kernel

/-! ### the three error modes -/

/-- "parsing succeeds (possibly reporting too many commas) for every string", in every error mode
of `pybtex.errors`, for ANY six constructor arguments: `Person(...)` never fails otherwise; with
at most three comma parts nothing is raised, captured or printed and `error_code` stays 0, in all
three modes alike; with more than three the SAME person is returned in capture and non-strict mode
(the report captured / printed as one `WARNING:` line, `error_code` = 2) and strict mode raises
`InvalidNameString` — whose text names the stripped string, the same text in all three modes. -/
theorem C04_modes (mode : ErrMode) (s f m p l j : Str) :
    ∃ q r, mkPerson s f m p l j = .ok (q, r) ∧
      r = decide (strip s ≠ [] ∧ (splitTex .comma (strip s)).length > 3) ∧
      mkPersonMode mode s f m p l j = .ok
        (if r = false then { person := some q }
         else match mode with
           | .capture => { person := some q, captured := [tooManyCommasMessage (strip s)] }
           | .strict => { raised := some (tooManyCommasMessage (strip s)) }
           | .nonstrict => { person := some q, errorCode := 2,
                             stderr := "WARNING: ".toList ++ tooManyCommasMessage (strip s) ++ ['\n'] }) := by
  obtain ⟨q, hq⟩ := C04_total_person s f m p l j
  refine ⟨q, _, hq, rfl, ?_⟩
  unfold mkPersonMode
  rw [hq]
  cases hr : decide (strip s ≠ [] ∧ (splitTex .comma (strip s)).length > 3) <;> cases mode <;> simp

theorem C04_modes_nonvacuous :
    mkPersonMode .strict "a, b, c, d".toList [] [] [] [] [] =
      .ok { raised := some "Too many commas in 'a, b, c, d'".toList } ∧
    mkPersonMode .nonstrict " O'Brien, b, c, d ".toList [] [] [] [] [] =
      .ok { person := some { first := ["c".toList], middle := ["d".toList], last := ["O'Brien".toList], lineage := ["b".toList] },
            stderr := "WARNING: Too many commas in \"O'Brien, b, c, d\"\n".toList, errorCode := 2 } ∧
    mkPersonMode .strict "a, b, c".toList [] [] [] [] [] =
      .ok { person := some { first := ["c".toList], last := ["a".toList], lineage := ["b".toList] } } := by
  decide +kernel

/-! ### the same without the balance hypothesis -/

/-- EVERY string (unbalanced braces included — a stray `}` at level 0 is an ordinary character, an
unclosed group runs to the end of the string, in the code as in the rule): the comma parts of the
model tokeniser are exactly those of the property-text rule; its tokens are those of the rule with
white space stripped from their ends, and exactly those of the rule when the string does not end in
white space — in particular for the stripped string `Person.__init__` parses.  The proviso cannot
go: `C04_tokeniser_is_rule_neg`. -/
theorem C04_tokeniser_is_rule_all (s : Str) :
    splitTex .comma s = Spec.nameCommaParts s ∧
    splitTex .space s = (Spec.nameTokens s).map strip ∧
    (strip s = s → splitTex .space s = Spec.nameTokens s) ∧
    ((∀ c, s.getLast? = some c → isWs c = false) → splitTex .space s = Spec.nameTokens s) :=
  ⟨C04T.splitTex_comma_eq_nameCommaParts_all s, C04T.splitTex_space_eq_nameTokens_strip s,
   C04T.splitTex_space_eq_nameTokens_stripped s, C04T.splitTex_space_eq_nameTokens_all s⟩

/-- unbalanced strings on which model tokeniser and rule agree -/
theorem C04_tokeniser_is_rule_all_nonvacuous :
    balanced "a} b {c, d".toList = false ∧ strip "a} b {c, d".toList = "a} b {c, d".toList ∧
    Spec.nameTokens "a} b {c, d".toList = ["a}".toList, "b".toList, "{c, d".toList] ∧
    Spec.nameCommaParts "a}, b {c, d".toList = ["a}".toList, "b {c, d".toList] := by decide +kernel

/-- white space at the end of a last, UNCLOSED group: `split_tex_string` strips it from the token,
the one-pass rule of the property text keeps it inside the group (`a {b ` — a string that
`Person.__init__` never tokenises as a whole, it strips first; it can occur as an explicit part
argument or as a comma part such as `{b ,c` never does, since a comma inside an unclosed group is
no separator) -/
theorem C04_tokeniser_is_rule_neg :
    splitTex .space ['a', ' ', '{', 'b', ' '] = [['a'], ['{', 'b']] ∧
    Spec.nameTokens ['a', ' ', '{', 'b', ' '] = [['a'], ['{', 'b', ' ']] :=
  C04T.splitTex_space_ne_nameTokens_unclosed

/-- `C04_tokens_by_rule` for EVERY name the parse is applied to (no balance hypothesis): the comma
parts are the rule's, and the name lists are the rule's tokens of those parts with white space
stripped from the ends of each token (which changes a token only at the end of an unclosed group,
`C04_tokeniser_is_rule_neg`). -/
theorem C04_tokens_by_rule_all (name : Str) (p : Person) (b : Bool)
    (h : parseName name = .ok (p, b)) :
    match Spec.nameCommaParts name with
    | [] => False
    | [_] => p.first ++ p.middle ++ p.prelast ++ p.last = (Spec.nameTokens name).map strip ∧ p.lineage = []
    | [p0, pl] =>
      p.prelast ++ p.last = (Spec.nameTokens p0).map strip ∧ p.lineage = [] ∧
      p.first ++ p.middle = (Spec.nameTokens pl).map strip
    | p0 :: p1 :: rest =>
      p.prelast ++ p.last = (Spec.nameTokens p0).map strip ∧ p.lineage = (Spec.nameTokens p1).map strip ∧
      p.first ++ p.middle = (Spec.nameTokens (joinWith [' '] rest)).map strip := by
  have h0 := (C04_tokens_preserved name p b h).2
  rw [← (C04_tokeniser_is_rule_all name).1]
  revert h0
  generalize splitTex .comma name = parts
  intro h0
  match parts, h0 with
  | [], h0 => exact h0
  | [_], h0 => dsimp only at h0 ⊢; rw [← (C04_tokeniser_is_rule_all name).2.1]; exact h0
  | [p0, pl], h0 =>
    dsimp only at h0 ⊢
    rw [← (C04_tokeniser_is_rule_all p0).2.1, ← (C04_tokeniser_is_rule_all pl).2.1]
    exact h0
  | p0 :: p1 :: r0 :: rest, h0 =>
    dsimp only at h0 ⊢
    rw [← (C04_tokeniser_is_rule_all p0).2.1, ← (C04_tokeniser_is_rule_all p1).2.1,
      ← (C04_tokeniser_is_rule_all (joinWith [' '] (r0 :: rest))).2.1]
    exact h0

theorem C04_tokens_by_rule_all_nonvacuous :
    balanced "a} von {b, c".toList = false ∧ (parseName "a} von {b, c".toList).toOption.isSome = true ∧
    Spec.nameCommaParts "a} von {b, c".toList = ["a} von {b, c".toList] ∧
    (Spec.nameTokens "a} von {b, c".toList).map strip = ["a}".toList, "von".toList, "{b, c".toList] := by
  decide +kernel

end Pybtex.Props
